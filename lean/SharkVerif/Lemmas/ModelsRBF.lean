/-
C04 (deep): `RBFLayer`, `KernelExpansion`, `Ensemble`, `CMACMap` — batch evaluation equals
row-wise single evaluation, parameter vector round trips, and the advertised weighted
parameter derivatives are the true partial derivatives of the coefficient-weighted output sum.
-/
import SharkVerif.Model.Models2
import SharkVerif.Lemmas.Models
import SharkVerif.Lemmas.ModelsDeriv
import SharkVerif.Lemmas.LossDeriv
import SharkVerif.Lemmas.Loss
namespace SharkVerif.Models
open Scalar SharkVerif.Loss

/-! ### generic packing lemmas: `to_vector(matrix) | vector` -/

theorem flatRows_pos_lt (a b k j : Nat) (hk : k < a) (hj : j < b) : k * b + j < a * b := by
  calc k * b + j < k * b + b := by omega
    _ = (k + 1) * b := by rw [Nat.succ_mul]
    _ ≤ a * b := Nat.mul_le_mul_right b hk

/-- entry `(k,j)` of the matrix part sits at position `k*b + j` -/
theorem flatRows_append_getD {β : Type} (a b : Nat) (f : Nat → Nat → β) (l : List β) (d : β)
    (k j : Nat) (hk : k < a) (hj : j < b) :
    (((List.range a).flatMap fun k => (List.range b).map fun j => f k j) ++ l).getD (k * b + j) d = f k j := by
  rw [List.getD_eq_getElem?_getD,
    List.getElem?_append_left (by rw [flatRows_length]; exact flatRows_pos_lt a b k j hk hj),
    ← List.getD_eq_getElem?_getD]
  exact flatRows_getD a b f d k j hk hj

/-- entry `k` of the vector part sits at position `length of the first part + k` -/
theorem append_rangeMap_getD {β : Type} (l : List β) (n : Nat) (g : Nat → β) (d : β) (c k : Nat)
    (hc : l.length = c) (hk : k < n) :
    (l ++ (List.range n).map g).getD (c + k) d = g k := by
  subst hc
  rw [List.getD_eq_getElem?_getD, List.getElem?_append_right (by omega)]
  simp [hk]

theorem rangeMap_getD_eq_drop {β : Type} (p : List β) (d : β) (c n : Nat) (hp : p.length = c + n) :
    ((List.range n).map fun k => p.getD (c + k) d) = p.drop c := by
  apply List.ext_getElem
  · simp; omega
  · intro i h1 h2
    simp only [List.length_map, List.length_range] at h1
    simp only [List.getElem_map, List.getElem_range, List.getElem_drop]
    rw [List.getD_eq_getElem?_getD, List.getElem?_eq_getElem (by omega)]
    rfl

theorem flatRows_getD_eq_take {β : Type} (p : List β) (d : β) (a b : Nat) (hp : a * b ≤ p.length) :
    ((List.range a).flatMap fun k => (List.range b).map fun j => p.getD (k * b + j) d) = p.take (a * b) := by
  apply List.ext_getElem
  · rw [flatRows_length, List.length_take]; omega
  · intro n h1 h2
    rw [flatRows_length] at h1
    have hb : 0 < b := by
      rcases Nat.eq_zero_or_pos b with h | h
      · rw [h] at h1; simp at h1
      · exact h
    have hk : n / b < a := by rw [Nat.div_lt_iff_lt_mul hb]; exact h1
    have hj : n % b < b := Nat.mod_lt _ hb
    have hn' : n = (n / b) * b + n % b := by rw [Nat.mul_comm]; exact (Nat.div_add_mod n b).symm
    have := flatRows_getD a b (fun k j => p.getD (k * b + j) d) d (n / b) (n % b) hk hj
    rw [← hn', List.getD_eq_getElem?_getD, List.getElem?_eq_getElem (by rw [flatRows_length]; exact h1)] at this
    simp only [Option.getD_some] at this
    rw [this, List.getD_eq_getElem?_getD, List.getElem?_eq_getElem (by omega)]
    simp

/-- unpacking a vector of the right length and packing it again is the identity -/
theorem pack_unpack {β : Type} (p : List β) (d : β) (a b n : Nat) (hp : p.length = a * b + n) :
    ((List.range a).flatMap fun k => (List.range b).map fun j => p.getD (k * b + j) d) ++
      ((List.range n).map fun k => p.getD (a * b + k) d) = p := by
  rw [flatRows_getD_eq_take p d a b (by omega), rangeMap_getD_eq_drop p d (a * b) n hp,
    List.take_append_drop]

/-! ## 2. `KernelExpansion` -/

theorem kexp_batch_eq_single (k : (Nat → Rat) → (Nat → Rat) → Rat) (m : KExp Rat)
    (X : Nat → Nat → Rat) (i o : Nat) : m.evalB k X i o = m.eval k (X i) o := rfl

theorem kexp_row_independent (k : (Nat → Rat) → (Nat → Rat) → Rat) (m : KExp Rat)
    (X Y : Nat → Nat → Rat) (i o : Nat) (h : ∀ j, X i j = Y i j) :
    m.evalB k X i o = m.evalB k Y i o := by
  rw [kexp_batch_eq_single, kexp_batch_eq_single]
  have : X i = Y i := funext h
  rw [this]

theorem kexp_params_length (m : KExp Rat) : m.params.length = m.numberOfParameters := by
  unfold KExp.params KExp.numberOfParameters
  rw [List.length_append, flatRows_length]
  split <;> simp

theorem kexp_setParams_params_alpha (m : KExp Rat) (s o : Nat) (hs : s < m.nBasis) (ho : o < m.nOut) :
    (m.setParams m.params).alpha s o = m.alpha s o := by
  unfold KExp.setParams KExp.params
  exact flatRows_append_getD m.nBasis m.nOut m.alpha _ 0 s o hs ho

theorem kexp_setParams_params_b (m : KExp Rat) (o : Nat) (ho : o < m.nOut) (hb : m.hasB = true) :
    (m.setParams m.params).b o = m.b o := by
  unfold KExp.setParams KExp.params
  simp only [hb, ↓reduceIte]
  exact append_rangeMap_getD _ m.nOut m.b 0 _ o (flatRows_length _ _ _) ho

theorem kexp_params_setParams (m : KExp Rat) (p : List Rat) (hp : p.length = m.numberOfParameters) :
    (m.setParams p).params = p := by
  unfold KExp.numberOfParameters at hp
  unfold KExp.params KExp.setParams
  simp only
  by_cases hb : m.hasB = true
  · simp only [hb, ↓reduceIte] at hp ⊢
    exact pack_unpack p 0 m.nBasis m.nOut m.nOut hp
  · simp only [hb] at hp ⊢
    simp only [Bool.false_eq_true, ↓reduceIte, Nat.add_zero, List.append_nil] at hp ⊢
    rw [flatRows_getD_eq_take p 0 m.nBasis m.nOut (by omega), ← hp, List.take_length]

/-! ## 4. `CMACMap` -/

theorem cmac_batch_eq_single (toNat : Rat → Nat) (m : CMAC Rat) (X : Nat → Nat → Rat) (i o : Nat) :
    m.evalB toNat X i o = m.eval toNat (X i) o := rfl

theorem cmac_params_roundtrip (m : CMAC Rat) (p : List Rat) : (m.setParams p).params = p := rfl

/-- the tile index does not depend on the parameter vector -/
theorem cmac_index_params {α : Type} [Scalar α] (toNat : α → Nat) (m : CMAC α) (p : List α) (t : Nat)
    (x : Nat → α) : ({ m with params := p } : CMAC α).index toNat t x = m.index toNat t x := rfl

theorem list_set_getD {β : Type} (l : List β) (q0 : Nat) (t d : β) (j : Nat) (hq : q0 < l.length) :
    (l.set q0 t).getD j d = if j = q0 then t else l.getD j d := by
  rw [List.getD_eq_getElem?_getD, List.getElem?_set]
  by_cases h : q0 = j
  · subst h; simp [hq]
  · have h' : ¬ j = q0 := fun e => h e.symm
    simp [h, h']

/-- **weighted parameter derivative**: the histogram of coefficients the code accumulates at
parameter `q0` is the partial derivative of the weighted output sum w.r.t. that parameter -/
theorem cmac_param_derivative_correct (toNat : ℝ → ℕ) (m : CMAC ℝ) (B : ℕ) (X C : ℕ → ℕ → ℝ) (q0 : ℕ)
    (hq : q0 < m.params.length) :
    HasDerivAt (fun t => ∑ i ∈ Finset.range B, ∑ o ∈ Finset.range m.nOut, C i o *
        ({ m with params := m.params.set q0 t } : CMAC ℝ).evalB toNat X i o)
      (m.gradParam toNat B X C q0) (m.params.getD q0 0) := by
  have hfun : ∀ t i o, ({ m with params := m.params.set q0 t } : CMAC ℝ).evalB toNat X i o =
      ∑ t' ∈ Finset.range m.tilings,
        (if m.index toNat t' (X i) + o * m.perTiling = q0 then t
          else m.params.getD (m.index toNat t' (X i) + o * m.perTiling) 0) := by
    intro t i o
    show sumR m.tilings (fun t' => (m.params.set q0 t).getD (m.index toNat t' (X i) + o * m.perTiling) 0) = _
    rw [sumR_eq_finset]
    apply Finset.sum_congr rfl
    intro t' _
    exact list_set_getD m.params q0 t 0 _ hq
  have hval : m.gradParam toNat B X C q0 = ∑ i ∈ Finset.range B, ∑ o ∈ Finset.range m.nOut,
      C i o * ∑ t' ∈ Finset.range m.tilings,
        (if m.index toNat t' (X i) + o * m.perTiling = q0 then (1 : ℝ) else 0) := by
    unfold CMAC.gradParam
    rw [sumR_eq_finset]
    apply Finset.sum_congr rfl; intro i _
    rw [sumR_eq_finset]
    apply Finset.sum_congr rfl; intro o _
    rw [sumR_eq_finset, Finset.mul_sum]
    apply Finset.sum_congr rfl; intro t' _
    split <;> simp
  rw [hval]
  simp only [hfun]
  apply HasDerivAt.fun_sum; intro i _
  apply HasDerivAt.fun_sum; intro o _
  apply HasDerivAt.const_mul
  apply HasDerivAt.fun_sum; intro t' _
  split
  · exact hasDerivAt_id' _
  · exact hasDerivAt_const _ _

/-! ## 3. `Ensemble` -/

theorem ensembleMean_batch_eq_single {M : Type} (ws : List Rat) (members : List M)
    (fB : M → (Nat → Nat → Rat) → Nat → Nat → Rat) (fS : M → (Nat → Rat) → Nat → Rat)
    (h : ∀ m ∈ members, ∀ X i k, fB m X i k = fS m (X i) k) (X : Nat → Nat → Rat) (i k : Nat) :
    ensembleMean ws (members.map fun m => fB m X i) k = ensembleMean ws (members.map fun m => fS m (X i)) k := by
  have : (members.map fun m => fB m X i) = members.map fun m => fS m (X i) := by
    apply List.map_congr_left
    intro m hm
    funext k
    exact h m hm X i k
  rw [this]

theorem zipWith_const_sum (v : Rat) (k : Nat) : ∀ (ws : List Rat) (outs : List (Nat → Rat)),
    (∀ o ∈ outs, o k = v) → ws.length = outs.length →
    (List.zipWith (fun w o => w * o k) ws outs).sum = ws.sum * v
  | [], [], _, _ => by simp
  | [], _ :: _, _, h => by simp at h
  | _ :: _, [], _, h => by simp at h
  | w :: ws, o :: outs, hv, h => by
    simp only [List.zipWith_cons_cons, List.sum_cons]
    rw [zipWith_const_sum v k ws outs (fun o' ho' => hv o' (List.mem_cons_of_mem _ ho')) (by simpa using h),
      hv o (List.mem_cons_self ..)]
    ring

/-- members that agree on a value: the weighted mean returns that value -/
theorem ensembleMean_const (ws : List Rat) (outs : List (Nat → Rat)) (k : Nat) (v : Rat)
    (hv : ∀ o ∈ outs, o k = v) (hlen : ws.length = outs.length) (hw : sumL ws ≠ 0) :
    ensembleMean ws outs k = v := by
  unfold ensembleMean
  rw [sumL_eq_sum] at hw ⊢
  rw [sumL_eq_sum, zipWith_const_sum v k ws outs hv hlen]
  field_simp

theorem sumR_eq_finset_rat (n : Nat) (f : Nat → Rat) : sumR n f = ∑ j ∈ Finset.range n, f j := by
  rw [sumR_eq_sum]
  induction n with
  | zero => simp
  | succ n ih => rw [List.range_succ, List.map_append, List.sum_append, ih, Finset.sum_range_succ]; simp

theorem vote_total (n : Nat) : ∀ (ws : List Rat) (resp : List Nat),
    (∀ r ∈ resp, r < n) → ws.length = resp.length →
    ∑ k ∈ Finset.range n, (List.zipWith (fun w r => if r = k then w else 0) ws resp).sum = ws.sum
  | [], [], _, _ => by simp
  | [], _ :: _, _, h => by simp at h
  | _ :: _, [], _, h => by simp at h
  | w :: ws, r :: resp, hr, h => by
    simp only [List.zipWith_cons_cons, List.sum_cons]
    rw [Finset.sum_add_distrib,
      vote_total n ws resp (fun r' hr' => hr r' (List.mem_cons_of_mem _ hr')) (by simpa using h),
      Finset.sum_ite_eq (Finset.range n) r (fun _ => w)]
    simp [hr r (List.mem_cons_self ..)]

/-- the weighted votes of classifying members form a distribution over the `n` classes -/
theorem ensembleVote_sum (n : Nat) (ws : List Rat) (resp : List Nat) (hr : ∀ r ∈ resp, r < n)
    (hlen : ws.length = resp.length) (hw : sumL ws ≠ 0) : sumR n (ensembleVote ws resp) = 1 := by
  rw [sumR_eq_finset_rat]
  unfold ensembleVote
  rw [sumL_eq_sum] at hw
  simp only [sumL_eq_sum]
  rw [← Finset.sum_div, vote_total n ws resp hr hlen]
  exact div_self hw

/-! ## 1. `RBFLayer` -/

theorem rbf_batch_eq_single (exp log : Rat → Rat) (logPi : Rat) (m : RBF Rat) (X : Nat → Nat → Rat)
    (i k : Nat) : m.evalB exp log logPi X i k = m.eval exp log logPi (X i) k := rfl

section RBFDeriv
open Finset

/-- a weighted output sum in which only output column `k0` depends on the scalar `t` -/
theorem weighted_sum_hasDerivAt_col (B nOut : ℕ) (C : ℕ → ℕ → ℝ) (f : ℝ → ℕ → ℕ → ℝ) (f' : ℕ → ℝ)
    (k0 : ℕ) (hk0 : k0 < nOut) (t0 : ℝ)
    (hconst : ∀ i k, k ≠ k0 → ∀ t, f t i k = f t0 i k)
    (hd : ∀ i, HasDerivAt (fun t => f t i k0) (f' i) t0) :
    HasDerivAt (fun t => ∑ i ∈ range B, ∑ k ∈ range nOut, C i k * f t i k)
      (∑ i ∈ range B, C i k0 * f' i) t0 := by
  apply HasDerivAt.fun_sum
  intro i _
  have hk : ∀ k ∈ range nOut, HasDerivAt (fun t => C i k * f t i k)
      (if k = k0 then C i k0 * f' i else 0) t0 := by
    intro k _
    by_cases h : k = k0
    · subst h
      simp only [↓reduceIte]
      exact (hd i).const_mul _
    · simp only [h, ↓reduceIte]
      have : (fun t => C i k * f t i k) = fun _ => C i k * f t0 i k := by
        funext t; rw [hconst i k h t]
      rw [this]; exact hasDerivAt_const _ _
  have := HasDerivAt.fun_sum hk
  rw [Finset.sum_ite_eq' (range nOut) k0] at this
  simpa [hk0] using this

/-- the output in closed form -/
theorem rbf_evalB_eq (m : RBF ℝ) (logPi : ℝ) (X : ℕ → ℕ → ℝ) (i k : ℕ) :
    m.evalB Real.exp Real.log logPi X i k =
      Real.exp (-(m.gamma k * ∑ j ∈ range m.nIn, (X i j - m.centers k j) * (X i j - m.centers k j))
        - ((m.nIn : ℝ) * (1 / 2)) * (logPi - Real.log (m.gamma k))) := by
  unfold RBF.evalB RBF.eval RBF.norm2 RBF.logNorm
  rw [sumR_eq_finset, half_real]
  rfl

/-- **weighted parameter derivative, centre part**: `(trans(delta) % patterns − deltaSum·m)·2γ` at
`(k0,j0)` is the partial derivative of the weighted output sum w.r.t. the centre entry `m_k0[j0]` -/
theorem rbf_center_derivative_correct (m : RBF ℝ) (logPi : ℝ) (B : ℕ) (X C : ℕ → ℕ → ℝ) (k0 j0 : ℕ)
    (hk0 : k0 < m.nOut) (hj0 : j0 < m.nIn) :
    HasDerivAt (fun t => ∑ i ∈ Finset.range B, ∑ k ∈ Finset.range m.nOut, C i k *
        ({ m with centers := fun k j => if k = k0 ∧ j = j0 then t else m.centers k j } : RBF ℝ).evalB
          Real.exp Real.log logPi X i k)
      (m.gradCenter B X (m.evalB Real.exp Real.log logPi X) C k0 j0) (m.centers k0 j0) := by
  -- the model at the current value of the parameter
  have hat : ({ m with centers := fun k j => if k = k0 ∧ j = j0 then m.centers k0 j0 else m.centers k j } : RBF ℝ) = m := by
    cases m
    simp only [RBF.mk.injEq, true_and, and_true]
    funext k j
    split
    · rename_i h; rw [h.1, h.2]
    · rfl
  have hval : m.gradCenter B X (m.evalB Real.exp Real.log logPi X) C k0 j0 =
      ∑ i ∈ range B, C i k0 * (m.evalB Real.exp Real.log logPi X i k0 *
        (-(m.gamma k0 * ((-1) * (X i j0 - m.centers k0 j0) + (X i j0 - m.centers k0 j0) * (-1))))) := by
    unfold RBF.gradCenter RBF.deltaSum RBF.delta
    rw [sumR_eq_finset, sumR_eq_finset, two_real, Finset.sum_mul, ← Finset.sum_sub_distrib, Finset.sum_mul]
    apply Finset.sum_congr rfl
    intro i _; ring
  rw [hval]
  apply weighted_sum_hasDerivAt_col B m.nOut C
    (fun t i k => ({ m with centers := fun k j => if k = k0 ∧ j = j0 then t else m.centers k j } : RBF ℝ).evalB
          Real.exp Real.log logPi X i k) _ k0 hk0 (m.centers k0 j0)
  · intro i k hk t
    simp only [rbf_evalB_eq]
    simp [hk]
  · intro i
    have hnorm : HasDerivAt (fun t => ∑ j ∈ range m.nIn,
        (X i j - (if k0 = k0 ∧ j = j0 then t else m.centers k0 j)) * (X i j - (if k0 = k0 ∧ j = j0 then t else m.centers k0 j)))
        ((-1) * (X i j0 - m.centers k0 j0) + (X i j0 - m.centers k0 j0) * (-1)) (m.centers k0 j0) := by
      have hj : ∀ j ∈ range m.nIn, HasDerivAt (fun t =>
          (X i j - (if k0 = k0 ∧ j = j0 then t else m.centers k0 j)) * (X i j - (if k0 = k0 ∧ j = j0 then t else m.centers k0 j)))
          (if j = j0 then (-1) * (X i j0 - m.centers k0 j0) + (X i j0 - m.centers k0 j0) * (-1) else 0) (m.centers k0 j0) := by
        intro j _
        by_cases h : j = j0
        · subst h
          simp only [and_self, ↓reduceIte]
          have h1 : HasDerivAt (fun t => X i j - t) (-1) (m.centers k0 j) :=
            (hasDerivAt_id' (m.centers k0 j)).const_sub (X i j)
          exact h1.mul h1
        · simp only [h, and_false, ↓reduceIte]
          exact hasDerivAt_const _ _
      have := HasDerivAt.fun_sum hj
      rw [Finset.sum_ite_eq' (range m.nIn) j0] at this
      simpa [hj0] using this
    have hinner := ((hnorm.const_mul (m.gamma k0)).neg).sub_const
      (((m.nIn : ℝ) * (1 / 2)) * (logPi - Real.log (m.gamma k0)))
    have hexp := hinner.exp
    have hfun : (fun t => ({ m with centers := fun k j => if k = k0 ∧ j = j0 then t else m.centers k j } : RBF ℝ).evalB
          Real.exp Real.log logPi X i k0) = fun t => Real.exp (-(m.gamma k0 * ∑ j ∈ range m.nIn,
        (X i j - (if k0 = k0 ∧ j = j0 then t else m.centers k0 j)) * (X i j - (if k0 = k0 ∧ j = j0 then t else m.centers k0 j)))
        - ((m.nIn : ℝ) * (1 / 2)) * (logPi - Real.log (m.gamma k0))) := by
      funext t; rw [rbf_evalB_eq]
    rw [hfun]
    have hcur : m.evalB Real.exp Real.log logPi X i k0 = Real.exp (-(m.gamma k0 * ∑ j ∈ range m.nIn,
        (X i j - (if k0 = k0 ∧ j = j0 then m.centers k0 j0 else m.centers k0 j)) * (X i j - (if k0 = k0 ∧ j = j0 then m.centers k0 j0 else m.centers k0 j)))
        - ((m.nIn : ℝ) * (1 / 2)) * (logPi - Real.log (m.gamma k0))) := by
      conv_lhs => rw [← hat]
      rw [rbf_evalB_eq]
    rw [hcur]
    exact hexp

/-- **weighted parameter derivative, width part**: the parameter vector stores `p = log γ`;
`sum(−delta ⊙ norm2) ⊙ γ + 0.5·nIn·deltaSum` at `k0` is the partial derivative of the weighted output
sum w.r.t. `p_k0` (with `γ_k0 = exp p_k0`, as `setParameterVector` sets it) -/
theorem rbf_width_derivative_correct (m : RBF ℝ) (logPi : ℝ) (B : ℕ) (X C : ℕ → ℕ → ℝ) (k0 : ℕ)
    (hk0 : k0 < m.nOut) (hg : 0 < m.gamma k0) :
    HasDerivAt (fun t => ∑ i ∈ Finset.range B, ∑ k ∈ Finset.range m.nOut, C i k *
        ({ m with gamma := fun k => if k = k0 then Real.exp t else m.gamma k } : RBF ℝ).evalB
          Real.exp Real.log logPi X i k)
      (m.gradLogGamma B X (m.evalB Real.exp Real.log logPi X) C k0) (Real.log (m.gamma k0)) := by
  have hat : ({ m with gamma := fun k => if k = k0 then Real.exp (Real.log (m.gamma k0)) else m.gamma k } : RBF ℝ) = m := by
    rw [Real.exp_log hg]
    cases m
    simp only [RBF.mk.injEq, true_and, and_true]
    funext k
    split
    · rename_i h; rw [h]
    · rfl
  have hval : m.gradLogGamma B X (m.evalB Real.exp Real.log logPi X) C k0 =
      ∑ i ∈ range B, C i k0 * (m.evalB Real.exp Real.log logPi X i k0 *
        (-(Real.exp (Real.log (m.gamma k0)) * ∑ j ∈ range m.nIn, (X i j - m.centers k0 j) * (X i j - m.centers k0 j))
          - ((m.nIn : ℝ) * (1 / 2)) * (0 - 1))) := by
    unfold RBF.gradLogGamma RBF.deltaSum RBF.delta RBF.norm2
    rw [Real.exp_log hg, sumR_eq_finset, sumR_eq_finset, half_real, Finset.sum_mul, Finset.mul_sum,
      ← Finset.sum_add_distrib]
    apply Finset.sum_congr rfl
    intro i _
    rw [sumR_eq_finset]
    simp only [sqr, ofNat_real]
    ring
  rw [hval]
  apply weighted_sum_hasDerivAt_col B m.nOut C
    (fun t i k => ({ m with gamma := fun k => if k = k0 then Real.exp t else m.gamma k } : RBF ℝ).evalB
          Real.exp Real.log logPi X i k) _ k0 hk0 (Real.log (m.gamma k0))
  · intro i k hk t
    simp only [rbf_evalB_eq]
    simp [hk]
  · intro i
    have hfun : (fun t => ({ m with gamma := fun k => if k = k0 then Real.exp t else m.gamma k } : RBF ℝ).evalB
          Real.exp Real.log logPi X i k0) = fun t => Real.exp (-(Real.exp t * ∑ j ∈ range m.nIn,
        (X i j - m.centers k0 j) * (X i j - m.centers k0 j)) - ((m.nIn : ℝ) * (1 / 2)) * (logPi - t)) := by
      funext t; rw [rbf_evalB_eq]; simp only [↓reduceIte, Real.log_exp]
    have hcur : m.evalB Real.exp Real.log logPi X i k0 = Real.exp (-(Real.exp (Real.log (m.gamma k0)) * ∑ j ∈ range m.nIn,
        (X i j - m.centers k0 j) * (X i j - m.centers k0 j)) - ((m.nIn : ℝ) * (1 / 2)) * (logPi - Real.log (m.gamma k0))) := by
      rw [rbf_evalB_eq, Real.exp_log hg]
    rw [hfun, hcur]
    have h1 : HasDerivAt (fun t => Real.exp t * ∑ j ∈ range m.nIn, (X i j - m.centers k0 j) * (X i j - m.centers k0 j))
        (Real.exp (Real.log (m.gamma k0)) * ∑ j ∈ range m.nIn, (X i j - m.centers k0 j) * (X i j - m.centers k0 j))
        (Real.log (m.gamma k0)) := (Real.hasDerivAt_exp _).mul_const _
    have h2 : HasDerivAt (fun t => ((m.nIn : ℝ) * (1 / 2)) * (logPi - t)) (((m.nIn : ℝ) * (1 / 2)) * (0 - 1))
        (Real.log (m.gamma k0)) :=
      ((hasDerivAt_const _ logPi).sub (hasDerivAt_id' _)).const_mul _
    exact (h1.neg.sub h2).exp

end RBFDeriv

/-! ### `RBFLayer`: parameter packing `to_vector(m_centers) | log(m_gamma)` -/

theorem rbf_params_length (m : RBF ℝ) : (m.params Real.log).length = m.numberOfParameters := by
  unfold RBF.params RBF.numberOfParameters
  rw [List.length_append]
  congr 1
  · split
    · exact flatRows_length _ _ _
    · rfl
  · split <;> simp

/-- length of the centre block = position of the width block -/
theorem rbf_centerBlock_length {β : Type} (m : RBF ℝ) (f : Nat → Nat → β) :
    (if m.trainCenters then (List.range m.nOut).flatMap fun k => (List.range m.nIn).map fun j => f k j else []).length
      = if m.trainCenters then m.nOut * m.nIn else 0 := by
  split
  · exact flatRows_length _ _ _
  · rfl

/-- setting a vector of the reported length and reading it back is the identity
(`log (exp p) = p`), whichever parts are trained -/
theorem rbf_params_setParams (m : RBF ℝ) (p : List ℝ) (hp : p.length = m.numberOfParameters) :
    ((m.setParams Real.exp p).params Real.log) = p := by
  unfold RBF.numberOfParameters at hp
  unfold RBF.params RBF.setParams
  simp only
  by_cases hc : m.trainCenters = true <;> by_cases hw : m.trainWidth = true
  · simp only [hc, hw, ↓reduceIte, Real.log_exp] at hp ⊢
    exact pack_unpack p 0 m.nOut m.nIn m.nOut hp
  · simp only [hc, hw, ↓reduceIte, Bool.false_eq_true, Nat.add_zero, List.append_nil] at hp ⊢
    rw [flatRows_getD_eq_take p 0 m.nOut m.nIn (by omega), ← hp, List.take_length]
  · simp only [hc, hw, ↓reduceIte, Bool.false_eq_true, Nat.zero_add, List.nil_append, Real.log_exp] at hp ⊢
    have := rangeMap_getD_eq_drop p 0 0 m.nOut (by omega)
    simp only [Nat.zero_add, List.drop_zero] at this
    exact this
  · simp only [hc, hw, ↓reduceIte, Bool.false_eq_true, Nat.add_zero, List.append_nil] at hp ⊢
    exact (List.eq_nil_of_length_eq_zero hp).symm

/-- reading the parameters and setting them back leaves the centres … -/
theorem rbf_setParams_params_centers (m : RBF ℝ) (k j : Nat) (hk : k < m.nOut) (hj : j < m.nIn) :
    (m.setParams Real.exp (m.params Real.log)).centers k j = m.centers k j := by
  unfold RBF.setParams
  simp only
  by_cases hc : m.trainCenters = true
  · simp only [hc, ↓reduceIte]
    unfold RBF.params
    simp only [hc, ↓reduceIte]
    exact flatRows_append_getD m.nOut m.nIn m.centers _ 0 k j hk hj
  · simp only [hc, Bool.false_eq_true, ↓reduceIte]

/-- … and the (positive) widths unchanged (`exp (log γ) = γ`) -/
theorem rbf_setParams_params_gamma (m : RBF ℝ) (k : Nat) (hk : k < m.nOut) (hg : 0 < m.gamma k) :
    (m.setParams Real.exp (m.params Real.log)).gamma k = m.gamma k := by
  unfold RBF.setParams
  simp only
  by_cases hw : m.trainWidth = true
  · simp only [hw, ↓reduceIte]
    unfold RBF.params
    simp only [hw, ↓reduceIte]
    rw [append_rangeMap_getD _ m.nOut (fun k => Real.log (m.gamma k)) 0 _ k
      (rbf_centerBlock_length m m.centers) hk]
    exact Real.exp_log hg
  · simp only [hw, Bool.false_eq_true, ↓reduceIte]

/-- position of the centre derivative `(k0,j0)` in the gradient vector … -/
theorem rbf_gradParams_center_pos (m : RBF ℝ) (B : ℕ) (X out C : ℕ → ℕ → ℝ) (k0 j0 : ℕ)
    (hc : m.trainCenters = true) (hk0 : k0 < m.nOut) (hj0 : j0 < m.nIn) :
    (m.gradParams B X out C).getD (k0 * m.nIn + j0) 0 = m.gradCenter B X out C k0 j0 := by
  unfold RBF.gradParams
  simp only [hc, ↓reduceIte]
  exact flatRows_append_getD m.nOut m.nIn (m.gradCenter B X out C) _ 0 k0 j0 hk0 hj0

/-- … which is the position of the centre entry in the parameter vector -/
theorem rbf_params_center_pos (m : RBF ℝ) (k0 j0 : ℕ)
    (hc : m.trainCenters = true) (hk0 : k0 < m.nOut) (hj0 : j0 < m.nIn) :
    (m.params Real.log).getD (k0 * m.nIn + j0) 0 = m.centers k0 j0 := by
  unfold RBF.params
  simp only [hc, ↓reduceIte]
  exact flatRows_append_getD m.nOut m.nIn m.centers _ 0 k0 j0 hk0 hj0

/-- position of the width derivative `k0` in the gradient vector … -/
theorem rbf_gradParams_width_pos (m : RBF ℝ) (B : ℕ) (X out C : ℕ → ℕ → ℝ) (k0 : ℕ)
    (hw : m.trainWidth = true) (hk0 : k0 < m.nOut) :
    (m.gradParams B X out C).getD ((if m.trainCenters then m.nOut * m.nIn else 0) + k0) 0
      = m.gradLogGamma B X out C k0 := by
  unfold RBF.gradParams
  simp only [hw, ↓reduceIte]
  exact append_rangeMap_getD _ m.nOut (m.gradLogGamma B X out C) 0 _ k0
    (rbf_centerBlock_length m (m.gradCenter B X out C)) hk0

/-- … which is the position of `log γ_k0` in the parameter vector -/
theorem rbf_params_width_pos (m : RBF ℝ) (k0 : ℕ) (hw : m.trainWidth = true) (hk0 : k0 < m.nOut) :
    (m.params Real.log).getD ((if m.trainCenters then m.nOut * m.nIn else 0) + k0) 0
      = Real.log (m.gamma k0) := by
  unfold RBF.params
  simp only [hw, ↓reduceIte]
  exact append_rangeMap_getD _ m.nOut (fun k => Real.log (m.gamma k)) 0 _ k0
    (rbf_centerBlock_length m m.centers) hk0

/-- combined: the entry of the gradient vector at the position of centre `(k0,j0)` is the partial
derivative of the weighted output sum w.r.t. the parameter-vector entry at that position -/
theorem rbf_gradParams_center_correct (m : RBF ℝ) (logPi : ℝ) (B : ℕ) (X C : ℕ → ℕ → ℝ) (k0 j0 : ℕ)
    (hc : m.trainCenters = true) (hk0 : k0 < m.nOut) (hj0 : j0 < m.nIn) :
    HasDerivAt (fun t => ∑ i ∈ Finset.range B, ∑ k ∈ Finset.range m.nOut, C i k *
        ({ m with centers := fun k j => if k = k0 ∧ j = j0 then t else m.centers k j } : RBF ℝ).evalB
          Real.exp Real.log logPi X i k)
      ((m.gradParams B X (m.evalB Real.exp Real.log logPi X) C).getD (k0 * m.nIn + j0) 0)
      ((m.params Real.log).getD (k0 * m.nIn + j0) 0) := by
  rw [rbf_gradParams_center_pos m B X _ C k0 j0 hc hk0 hj0, rbf_params_center_pos m k0 j0 hc hk0 hj0]
  exact rbf_center_derivative_correct m logPi B X C k0 j0 hk0 hj0

/-- combined: the entry of the gradient vector at the position of `log γ_k0` is the partial derivative
of the weighted output sum w.r.t. the parameter-vector entry `p` at that position (`γ_k0 = exp p`) -/
theorem rbf_gradParams_width_correct (m : RBF ℝ) (logPi : ℝ) (B : ℕ) (X C : ℕ → ℕ → ℝ) (k0 : ℕ)
    (hw : m.trainWidth = true) (hk0 : k0 < m.nOut) (hg : 0 < m.gamma k0) :
    HasDerivAt (fun t => ∑ i ∈ Finset.range B, ∑ k ∈ Finset.range m.nOut, C i k *
        ({ m with gamma := fun k => if k = k0 then Real.exp t else m.gamma k } : RBF ℝ).evalB
          Real.exp Real.log logPi X i k)
      ((m.gradParams B X (m.evalB Real.exp Real.log logPi X) C).getD
        ((if m.trainCenters then m.nOut * m.nIn else 0) + k0) 0)
      ((m.params Real.log).getD ((if m.trainCenters then m.nOut * m.nIn else 0) + k0) 0) := by
  rw [rbf_gradParams_width_pos m B X _ C k0 hw hk0, rbf_params_width_pos m k0 hw hk0]
  exact rbf_width_derivative_correct m logPi B X C k0 hk0 hg

/-! ### non-vacuity: the hypotheses of the theorems above are satisfiable -/
section NonVacuity

def demoKExp : KExp Rat :=
  { nBasis := 2, nOut := 2, basis := fun s j => (s + j : Nat), alpha := fun s o => (s + 2 * o : Nat),
    hasB := true, b := fun o => (o : Nat) }
example : demoKExp.params = [0, 2, 1, 3, 0, 1] := by decide
example : demoKExp.params.length = demoKExp.numberOfParameters := kexp_params_length demoKExp
example : (demoKExp.setParams demoKExp.params).alpha 1 1 = demoKExp.alpha 1 1 :=
  kexp_setParams_params_alpha demoKExp 1 1 (by decide) (by decide)
example : (demoKExp.setParams demoKExp.params).b 1 = demoKExp.b 1 :=
  kexp_setParams_params_b demoKExp 1 (by decide) rfl
example : (demoKExp.setParams [1, 2, 3, 4, 5, 6]).params = [1, 2, 3, 4, 5, 6] :=
  kexp_params_setParams demoKExp _ (by decide)
example : demoKExp.evalB (kLinear 2) (fun i j => (i + j : Nat)) 0 1
    = demoKExp.evalB (kLinear 2) (fun i j => (i * 5 + j : Nat)) 0 1 :=
  kexp_row_independent _ _ _ _ 0 1 (by intro j; simp)

example (ms : List (KExp Rat)) (k : (Nat → Rat) → (Nat → Rat) → Rat) (ws : List Rat)
    (X : Nat → Nat → Rat) (i o : Nat) :
    ensembleMean ws (ms.map fun m => m.evalB k X i) o = ensembleMean ws (ms.map fun m => m.eval k (X i)) o :=
  ensembleMean_batch_eq_single ws ms (fun m => m.evalB k) (fun m => m.eval k)
    (fun m _ X i o => kexp_batch_eq_single k m X i o) X i o
example : ensembleMean ([1, 3] : List Rat) [fun _ => 2, fun k => (k + 2 : Nat)] 0 = 2 :=
  ensembleMean_const [1, 3] [fun _ => 2, fun k => (k + 2 : Nat)] 0 2 (by simp) rfl (by rw [sumL_eq_sum]; norm_num)
example : sumR 3 (ensembleVote ([1, 2, 3] : List Rat) [0, 2, 2]) = 1 :=
  ensembleVote_sum 3 [1, 2, 3] [0, 2, 2] (by decide) rfl (by rw [sumL_eq_sum]; norm_num)

noncomputable def demoCMAC : CMAC ℝ :=
  { nIn := 1, nOut := 1, tilings := 2, tiles := 3, lower := 0, upper := 2, params := [1, 2, 3, 4, 5, 6] }
example (X C : ℕ → ℕ → ℝ) : ∃ f : ℝ → ℝ,
    HasDerivAt f (demoCMAC.gradParam (fun x => ⌊x⌋₊) 2 X C 3) (demoCMAC.params.getD 3 0) :=
  ⟨_, cmac_param_derivative_correct (fun x => ⌊x⌋₊) demoCMAC 2 X C 3 (by simp [demoCMAC])⟩

noncomputable def demoRBF : RBF ℝ :=
  { nIn := 2, nOut := 2, centers := fun k j => (k + j : ℕ), gamma := fun k => (k + 1 : ℕ),
    trainCenters := true, trainWidth := true }
example (X C : ℕ → ℕ → ℝ) : ∃ f : ℝ → ℝ, HasDerivAt f
    (demoRBF.gradCenter 3 X (demoRBF.evalB Real.exp Real.log 1 X) C 1 0) (demoRBF.centers 1 0) :=
  ⟨_, rbf_center_derivative_correct demoRBF 1 3 X C 1 0 (by simp [demoRBF]) (by simp [demoRBF])⟩
example (X C : ℕ → ℕ → ℝ) : ∃ f : ℝ → ℝ, HasDerivAt f
    (demoRBF.gradLogGamma 3 X (demoRBF.evalB Real.exp Real.log 1 X) C 1) (Real.log (demoRBF.gamma 1)) :=
  ⟨_, rbf_width_derivative_correct demoRBF 1 3 X C 1 (by simp [demoRBF]) (by simp [demoRBF])⟩
example : ((demoRBF.setParams Real.exp [1, 2, 3, 4, 5, 6]).params Real.log) = [1, 2, 3, 4, 5, 6] :=
  rbf_params_setParams demoRBF _ (by simp [demoRBF, RBF.numberOfParameters])
example : (demoRBF.setParams Real.exp (demoRBF.params Real.log)).centers 1 1 = demoRBF.centers 1 1 :=
  rbf_setParams_params_centers demoRBF 1 1 (by simp [demoRBF]) (by simp [demoRBF])
example : (demoRBF.setParams Real.exp (demoRBF.params Real.log)).gamma 1 = demoRBF.gamma 1 :=
  rbf_setParams_params_gamma demoRBF 1 (by simp [demoRBF]) (by simp [demoRBF])
example (X out C : ℕ → ℕ → ℝ) :
    (demoRBF.gradParams 3 X out C).getD 2 0 = demoRBF.gradCenter 3 X out C 1 0 :=
  rbf_gradParams_center_pos demoRBF 3 X out C 1 0 rfl (by simp [demoRBF]) (by simp [demoRBF])
example (X out C : ℕ → ℕ → ℝ) :
    (demoRBF.gradParams 3 X out C).getD 5 0 = demoRBF.gradLogGamma 3 X out C 1 :=
  rbf_gradParams_width_pos demoRBF 3 X out C 1 rfl (by simp [demoRBF])
example : (demoRBF.params Real.log).getD 2 0 = demoRBF.centers 1 0 :=
  rbf_params_center_pos demoRBF 1 0 rfl (by simp [demoRBF]) (by simp [demoRBF])
example : (demoRBF.params Real.log).getD 5 0 = Real.log (demoRBF.gamma 1) :=
  rbf_params_width_pos demoRBF 1 rfl (by simp [demoRBF])

end NonVacuity

end SharkVerif.Models
