/-
CVFolds operations after construction, for every way a CVFolds object can have been built (fold starts, explicit index
sets in any order, createCVBatch's shuffled batch numbers): what `validation(i)` and `training(i)` contain.
-/
import SharkVerif.Lemmas.CVAny
import SharkVerif.Lemmas.Subset
import SharkVerif.Props.C03
import SharkVerif.Lemmas.SortedRuns
namespace SharkVerif.CVEnd
open SharkVerif.CheckedNat SharkVerif.Dataset SharkVerif.CV SharkVerif.CVAny

variable {ι κ : Type}

/-- the (input, label) pairs of batch i -/
def batchPairs (d : LabeledData ι κ) (i : Nat) : List (ι × κ) :=
  List.zip (d.inputs.batches.getD i []) (d.labels.batches.getD i [])

theorem batches_length_eq (d : LabeledData ι κ) (hd : C03.WF d) : d.inputs.batches.length = d.labels.batches.length := by
  have := congrArg List.length hd
  simpa [Data.partitioning] using this

/-- a well-formed dataset read batch by batch -/
theorem pairs_eq_flatMap_batchPairs (d : LabeledData ι κ) (hd : C03.WF d) :
    C03.pairs d = (List.range d.numberOfBatches).flatMap (batchPairs d) := by
  rw [← C03.flat_eq_pairs d hd]
  have hlen := batches_length_eq d hd
  have hz : List.zip d.inputs.batches d.labels.batches =
      (List.range d.numberOfBatches).map fun i => (d.inputs.batches.getD i [], d.labels.batches.getD i []) := by
    apply List.ext_getElem?
    intro j
    simp only [LabeledData.numberOfBatches, Data.numberOfBatches, getElem?_zip_bind, List.getElem?_map]
    by_cases hj : j < d.inputs.batches.length
    · have hj' : j < d.labels.batches.length := by omega
      simp [List.getElem?_range hj, List.getElem?_eq_getElem hj, List.getElem?_eq_getElem hj', List.getD_eq_getElem?_getD]
    · have h1 : d.inputs.batches[j]? = none := List.getElem?_eq_none (by omega)
      simp [h1, List.getElem?_eq_none (show (List.range d.inputs.batches.length).length ≤ j by simp; omega)]
  unfold LabeledData.flat
  rw [hz, List.flatMap_map]
  rfl

theorem map_some_eq_getD {γ : Type} (bs : List (List γ)) (src : List (List γ)) (idx : List Nat)
    (h : bs.map some = idx.map (src[·]?)) : bs = idx.map (src.getD · []) := by
  have := congrArg (List.map (fun o : Option (List γ) => o.getD [])) h
  simpa [List.map_map, Function.comp_def, List.getD_eq_getElem?_getD] using this

/-- **`LabeledData::indexedSubset(indices)`** (what `validation(i)` / `training(i)` return): well-formed, the listed
batches in the listed order — any order, repetitions allowed —, every listed index below the batch count -/
theorem subset_pairs (d d' : LabeledData ι κ) (idx : List Nat) (hd : C03.WF d) (h : d.indexedSubset idx = .ok d') :
    C03.WF d' ∧ C03.pairs d' = idx.flatMap (batchPairs d) ∧ (∀ i ∈ idx, i < d.numberOfBatches) ∧
    d'.inputs.shape = d.inputs.shape ∧ d'.labels.shape = d.labels.shape := by
  obtain ⟨hw, h1, h2, hp⟩ := C03.indexedSubset_pairs d d' idx hd h
  have e1 := map_some_eq_getD _ _ _ h1
  have e2 := map_some_eq_getD _ _ _ h2
  have hin : (∀ i ∈ idx, i < d.numberOfBatches) ∧ d'.inputs.shape = d.inputs.shape ∧ d'.labels.shape = d.labels.shape := by
    simp only [LabeledData.indexedSubset, bind_ok] at h
    obtain ⟨i, hi, l, hl, hmk⟩ := h
    have hr := (indexedSubset_flat _ _ _ hi).2
    simp only [LabeledData.mk'] at hmk
    split at hmk
    · simp only [Except.ok.injEq] at hmk; subst hmk
      simp only [Data.indexedSubset, bind_ok, pure_ok] at hi hl
      obtain ⟨_, _, rfl⟩ := hi
      obtain ⟨_, _, rfl⟩ := hl
      exact ⟨hr, rfl, rfl⟩
    · simp at hmk
  refine ⟨hw, ?_, hin⟩
  rw [hp]
  unfold LabeledData.flat
  rw [e1, e2, List.zip_map', List.flatMap_map]
  rfl

/-- **validation(i) and training(i) of any CVFolds object** over a well-formed dataset, whatever its index sets look
like (ascending ranges from fold starts, shuffled batch numbers from createCVBatch, user-supplied sets in any order):
* `validation(i)` holds the batches listed in the i-th index set, in the listed order;
* `training(i)` holds exactly the batches of the dataset that are *not* listed, each once, in dataset order
  (`detail::complement` computed by sort + `std::set_difference`, `complementSD_eq`);
* both are well-formed and keep the element shapes;
* if the index set has no repetition, validation and training elements together are a permutation of the dataset:
  nothing lost, nothing duplicated. -/
theorem folds_validation_training (f : CVFolds ι κ) (hw : C03.WF f.dataset) (i : Nat) (vd td : LabeledData ι κ)
    (hv : f.validation i = .ok vd) (ht : f.training i = .ok td) :
    ∃ v, f.validationFolds[i]? = some v ∧
      C03.pairs vd = v.flatMap (batchPairs f.dataset) ∧
      C03.pairs td = ((List.range f.dataset.numberOfBatches).filter (fun b => !v.contains b)).flatMap (batchPairs f.dataset) ∧
      C03.WF vd ∧ C03.WF td ∧
      vd.inputs.shape = f.dataset.inputs.shape ∧ td.inputs.shape = f.dataset.inputs.shape ∧
      vd.labels.shape = f.dataset.labels.shape ∧ td.labels.shape = f.dataset.labels.shape ∧
      (v.Nodup → (C03.pairs vd ++ C03.pairs td).Perm (C03.pairs f.dataset)) := by
  simp only [CVFolds.validation, CVFolds.training, CVFolds.trainingFoldIndices, CVFolds.validationFoldIndices, bind_ok,
    ofOpt_ok, pure_ok] at hv ht
  obtain ⟨v, hvi, hvs⟩ := hv
  obtain ⟨t, ⟨v', hvi', rfl⟩, hts⟩ := ht
  rw [hvi] at hvi'
  cases hvi'
  rw [complementSD_eq] at hts
  obtain ⟨hwv, hpv, hinv, hs1, hs2⟩ := subset_pairs _ _ _ hw hvs
  obtain ⟨hwt, hpt, _, hs3, hs4⟩ := subset_pairs _ _ _ hw hts
  refine ⟨v, hvi, hpv, hpt, hwv, hwt, hs1, hs3, hs2, hs4, ?_⟩
  intro hnd
  rw [hpv, hpt, ← List.flatMap_append, pairs_eq_flatMap_batchPairs _ hw]
  exact (subset_complement_indices v _ hnd hinv).flatMap_right _

theorem foldRange_nodup (c acc : Nat) : ((List.range c).map (· + acc)).Nodup := by
  have h : (List.range c).Pairwise (· ≠ ·) := List.nodup_range
  exact List.Pairwise.map _ (fun a b hab => by simp only [ne_eq] at hab ⊢; omega) h

/-! ### round-robin dealing, counted on the dealt elements -/

theorem range_succ_map_mod (off k n : Nat) :
    (List.range (n + 1)).map (fun j => (off + j) % k) = off % k :: (List.range n).map (fun j => (off + 1 + j) % k) := by
  rw [List.range_succ_eq_map, List.map_cons, List.map_map]
  simp only [Nat.add_zero, List.cons.injEq, true_and]
  apply List.map_congr_left
  intro j _
  simp only [Function.comp, Nat.succ_eq_add_one]
  congr 1; omega

/-- members of class c among the elements dealt to fold p = dealing positions of class c that are ≡ p (mod k) -/
theorem class_count_in_fold {γ : Type} (k p c : Nat) : ∀ (els : List (γ × Nat)) (off : Nat),
    ((((List.zip els ((List.range els.length).map fun j => (off + j) % k)).filter (fun x => x.2 = p)).map (·.1)).filter
        (fun e => e.2 = c)).length =
      ((idxs c (els.map (·.2)) off).filter (fun j => j % k = p)).length := by
  intro els
  induction els with
  | nil => intro off; simp [idxs]
  | cons e es ih =>
    intro off
    rw [List.length_cons, range_succ_map_mod, List.zip_cons_cons, List.map_cons, idxs]
    have := ih (off + 1)
    by_cases h1 : off % k = p <;> by_cases h2 : e.2 = c <;>
      simp [List.filter_cons, h1, h2, List.filter_append, this]

/-- number of elements dealt to fold p -/
theorem count_in_fold {γ : Type} (k p : Nat) : ∀ (els : List γ) (off : Nat),
    ((List.zip els ((List.range els.length).map fun j => (off + j) % k)).filter (fun x => x.2 = p)).length =
      ((List.range els.length).filter (fun j => (off + j) % k = p)).length := by
  intro els off
  rw [← List.countP_eq_length_filter, ← List.countP_eq_length_filter]
  have h1 : ((List.zip els ((List.range els.length).map fun j => (off + j) % k)).map (·.2)) =
      (List.range els.length).map fun j => (off + j) % k := by
    apply List.map_snd_zip; simp
  have h2 := List.countP_map (p := fun t : Nat => decide (t = p)) (f := fun x : γ × Nat => x.2)
    (l := List.zip els ((List.range els.length).map fun j => (off + j) % k))
  rw [h1, List.countP_map] at h2
  exact h2.symm

/-- the batches of a well-formed dataset are the cut of its pair sequence by its partitioning -/
theorem batchPairs_eq_split (d : LabeledData ι κ) (hd : C03.WF d) (i : Nat) :
    batchPairs d i = (splitBySizes (C03.pairs d) d.partitioning).getD i [] := by
  have hlen := batches_length_eq d hd
  let L := (List.range d.numberOfBatches).map (batchPairs d)
  have hL1 : L.flatten = C03.pairs d := by
    rw [pairs_eq_flatMap_batchPairs d hd, List.flatMap_def]
  have hL2 : L.map List.length = d.partitioning := by
    simp only [L, List.map_map, LabeledData.partitioning, Data.partitioning, LabeledData.numberOfBatches, Data.numberOfBatches]
    apply List.ext_getElem?
    intro j
    by_cases hj : j < d.inputs.batches.length
    · have hj' : j < d.labels.batches.length := by omega
      have hsame : (d.inputs.batches[j]).length = (d.labels.batches[j]).length := by
        have := congrArg (fun l : List Nat => l[j]?) hd
        simpa [Data.partitioning, List.getElem?_map, List.getElem?_eq_getElem hj, List.getElem?_eq_getElem hj'] using this
      simp [List.getElem?_map, List.getElem?_range hj, List.getElem?_eq_getElem hj, batchPairs, List.getD_eq_getElem?_getD,
        List.getElem?_eq_getElem hj', hsame]
    · simp [List.getElem?_map, List.getElem?_eq_none (show (List.range d.inputs.batches.length).length ≤ j by simp; omega),
        List.getElem?_eq_none (show d.inputs.batches.length ≤ j by omega)]
  have hsplit : splitBySizes (C03.pairs d) d.partitioning = L := by
    rw [← hL1, ← hL2]
    induction L with
    | nil => rfl
    | cons a l ih => simp [splitBySizes, ih]
  rw [hsplit]
  by_cases hi : i < d.numberOfBatches
  · simp [L, List.getD_eq_getElem?_getD, List.getElem?_map, List.getElem?_range hi]
  · have h1 : d.inputs.batches.length ≤ i := by
      simp only [LabeledData.numberOfBatches, Data.numberOfBatches] at hi; omega
    simp [L, List.getD_eq_getElem?_getD, List.getElem?_eq_none (show ((List.range d.numberOfBatches).map (batchPairs d)).length ≤ i by simp; omega),
      batchPairs, List.getElem?_eq_none h1]

/-! ### the operations succeed (no undefined behaviour) on admissible arguments -/

theorem mapM_ofOpt_ok {γ : Type} (l : List γ) : ∀ (idx : List Nat), (∀ i ∈ idx, i < l.length) →
    ∃ r, idx.mapM (fun i => ofOpt l[i]?) = .ok r := by
  intro idx
  induction idx with
  | nil => intro _; exact ⟨[], rfl⟩
  | cons i idx ih =>
    intro h
    obtain ⟨r, hr⟩ := ih (fun j hj => h j (List.mem_cons_of_mem _ hj))
    have hi := h i (List.mem_cons_self ..)
    refine ⟨l[i] :: r, ?_⟩
    simp only [List.mapM_cons, bind_ok, ofOpt_ok, pure_ok]
    exact ⟨l[i], List.getElem?_eq_getElem hi, r, hr, rfl⟩

theorem mapM_id_all_some {γ : Type} : ∀ (l : List (Option γ)), (∀ o ∈ l, o.isSome) → ∃ r, l.mapM id = some r := by
  intro l
  induction l with
  | nil => intro _; exact ⟨[], rfl⟩
  | cons a l ih =>
    intro h
    obtain ⟨r, hr⟩ := ih (fun o ho => h o (List.mem_cons_of_mem _ ho))
    have ha := h a (List.mem_cons_self ..)
    cases a with
    | none => simp at ha
    | some x => exact ⟨x :: r, by simp [List.mapM_cons, hr]⟩

/-- `Data::indexedSubset` is defined for batch indices below the batch count (any order, repetitions allowed) -/
theorem data_indexedSubset_ok {ε : Type} (d : Data ε) (idx : List Nat) (h : ∀ i ∈ idx, i < d.numberOfBatches) :
    ∃ d', d.indexedSubset idx = .ok d' := by
  obtain ⟨r, hr⟩ := mapM_ofOpt_ok d.batches idx h
  exact ⟨{ batches := r, shape := d.shape }, by simp [Data.indexedSubset, hr, bind, Except.bind, pure, Except.pure]⟩

/-- `LabeledData::indexedSubset` is defined for batch indices below the batch count -/
theorem labeled_indexedSubset_ok (d : LabeledData ι κ) (hd : C03.WF d) (idx : List Nat)
    (h : ∀ i ∈ idx, i < d.numberOfBatches) : ∃ d', d.indexedSubset idx = .ok d' := by
  obtain ⟨i, hi⟩ := data_indexedSubset_ok d.inputs idx h
  have hlen := batches_length_eq d hd
  obtain ⟨l, hl⟩ := data_indexedSubset_ok d.labels idx (fun j hj => by
    have := h j hj
    simp only [LabeledData.numberOfBatches, Data.numberOfBatches] at this ⊢; omega)
  have h1 := (indexedSubset_batches' _ _ _ hi).1
  have h2 := (indexedSubset_batches' _ _ _ hl).1
  have e1 : i.partitioning.map some = idx.map (d.inputs.partitioning[·]?) := by
    have := congrArg (List.map (Option.map List.length)) h1
    simpa [Data.partitioning, List.map_map, Function.comp_def] using this
  have e2 : l.partitioning.map some = idx.map (d.labels.partitioning[·]?) := by
    have := congrArg (List.map (Option.map List.length)) h2
    simpa [Data.partitioning, List.map_map, Function.comp_def] using this
  have hpart : i.partitioning = l.partitioning := by
    have hd' : d.inputs.partitioning = d.labels.partitioning := hd
    rw [hd'] at e1
    have := e1.trans e2.symm
    have h4 := congrArg (List.filterMap id) this
    simpa [List.filterMap_map] using h4
  refine ⟨⟨i, l⟩, ?_⟩
  simp only [LabeledData.indexedSubset, hi, hl, bind, Except.bind, LabeledData.mk', Data.numberOfElements, hpart, if_true]

/-- **`validation(i)` and `training(i)` are defined** for every fold whose index set lists batch numbers below the batch
count — in any order, with or without repetitions, empty or not -/
theorem folds_access_ok (f : CVFolds ι κ) (hw : C03.WF f.dataset) (i : Nat) (v : List Nat)
    (hvi : f.validationFolds[i]? = some v) (hin : ∀ b ∈ v, b < f.dataset.numberOfBatches) :
    ∃ vd td, f.validation i = .ok vd ∧ f.training i = .ok td := by
  obtain ⟨vd, hvd⟩ := labeled_indexedSubset_ok f.dataset hw v hin
  obtain ⟨td, htd⟩ := labeled_indexedSubset_ok f.dataset hw (Data.complement v f.dataset.numberOfBatches) (fun b hb =>
    (((complement_spec v _).1 b).mp hb).1)
  refine ⟨vd, td, ?_, ?_⟩
  · simp [CVFolds.validation, CVFolds.validationFoldIndices, hvi, ofOpt, bind, Except.bind, hvd]
  · simp [CVFolds.training, CVFolds.trainingFoldIndices, CVFolds.validationFoldIndices, hvi, ofOpt, bind, Except.bind,
      pure, Except.pure, complementSD_eq, htd]

/-- `subBatch(setView, positions)` is defined for positions below the element count of a well-formed dataset -/
theorem pick_ok (set : LabeledData ι κ) (hw : C03.WF set) (pos : List Nat) (h : ∀ i ∈ pos, i < set.numberOfElements) :
    ∃ els, pick set pos = .ok els := by
  have hel := view_elements set hw
  have hsize : (View.ofDataset set).size = set.flat.length := by
    have := congrArg List.length hel
    simpa [View.elements] using this
  have hn : set.flat.length = set.numberOfElements := by
    rw [C03.flat_eq_pairs set hw, C03.pairs_length set hw]
  obtain ⟨ixs, hix⟩ := mapM_ofOpt_ok (View.ofDataset set).indices pos (fun i hi => by
    have := h i hi
    simp only [View.size] at hsize; omega)
  have hsub : (View.ofDataset set).subset pos = .ok ⟨(View.ofDataset set).dataset, ixs⟩ := by
    simp [View.subset, hix, bind, Except.bind, pure, Except.pure]
  have hse := (subset_elements _ _ _ hsub).1
  rw [hel] at hse
  obtain ⟨r, hr⟩ := mapM_id_all_some (⟨(View.ofDataset set).dataset, ixs⟩ : View ι κ).elements (by
    intro o ho
    rw [hse] at ho
    simp only [List.mem_map] at ho
    obtain ⟨i, hi, rfl⟩ := ho
    have hlt : i < set.flat.length := by have := h i hi; omega
    simp [List.getElem?_map, List.getElem?_eq_getElem hlt])
  exact ⟨r, by simp [pick, View.subBatch, hsub, bind, Except.bind, hr, ofOpt]⟩

theorem mapM_R_ok {γ δ : Type} (g : γ → R δ) : ∀ (l : List γ), (∀ a ∈ l, ∃ b, g a = .ok b) → ∃ r, l.mapM g = .ok r := by
  intro l
  induction l with
  | nil => intro _; exact ⟨[], rfl⟩
  | cons a l ih =>
    intro h
    obtain ⟨r, hr⟩ := ih (fun x hx => h x (List.mem_cons_of_mem _ hx))
    obtain ⟨b, hb⟩ := h a (List.mem_cons_self ..)
    exact ⟨b :: r, by simp [List.mapM_cons, hb, hr, bind, Except.bind, pure, Except.pure]⟩

/-- `Data::repartition(batchSizes)` is defined for positive sizes summing to the element count on non-empty batches -/
theorem data_repartition_ok {ε : Type} (d : Data ε) (sizes : List Nat) (hs : sizes.sum = d.numberOfElements)
    (hne : d.nonEmptyBatches = true) (hpos : ∀ s ∈ sizes, 0 < s) : ∃ d', d.repartition sizes = .ok d' := by
  have hall : sizes.all (· > 0) = true := by
    simp only [List.all_eq_true, decide_eq_true_eq]; exact hpos
  refine ⟨{ d with batches := splitBySizes d.flat sizes }, ?_⟩
  simp only [Data.repartition, bind_ok, require_ok, pure_ok]
  exact ⟨(), by simp [hs], (), by simp [hne, hall], trivial⟩

/-- `Data::reorderElements(indices)` is defined for a permutation of the positions on non-empty batches -/
theorem data_reorderElements_ok {ε : Type} (d : Data ε) (perm : List Nat) (hne : allPos d.partitioning)
    (hperm : perm.Perm (List.range d.numberOfElements)) : ∃ d', d.reorderElements perm = .ok d' := by
  have hlen : perm.length = d.numberOfElements := by simpa using hperm.length_eq
  have hfl : d.numberOfElements = d.flat.length := d.numberOfElements_eq
  obtain ⟨r, hr⟩ := mapM_R_ok (fun i => do
      require (decide (i < d.numberOfElements))
      ofOpt (d.container.elementAt i)) (perm.take d.numberOfElements) (by
    intro i hi
    have hi' : i < d.numberOfElements := List.mem_range.mp (hperm.mem_iff.mp (List.mem_of_mem_take hi))
    have hi2 : i < d.flat.length := by omega
    refine ⟨d.flat[i], ?_⟩
    simp [require, hi', elementAt_eq_flat d hne i hi2, List.getElem?_eq_getElem hi2, ofOpt, bind, Except.bind])
  refine ⟨{ d with batches := splitBySizes r d.partitioning }, ?_⟩
  simp only [Data.reorderElements, bind_ok, require_ok, pure_ok]
  exact ⟨(), by simp [hlen], r, hr, rfl⟩

end SharkVerif.CVEnd
