/-
Helper lemmas for C02: the rank-one update of a Cholesky factor
(`cholesky_decomposition::update`, model `updStep` / `cholUpdate`).
-/
import SharkVerif.Lemmas.LinSolve
namespace SharkVerif.LinSolve

/-- the algebra of one column of the update: with `nL² = Ljj² + β wj²/β'`, the new column `c` and
the corrected working vector `w'` satisfy `c_i c_k + (β/β'') w'_i w'_k = l_i l_k + (β/β') w_i w_k`. -/
theorem upd_identity (Ljj wj bp beta nL li lk wi wk : Rat) (hL : Ljj ≠ 0) (hbp : 0 < bp)
    (hx : 0 < Ljj * Ljj + beta * wj * wj / bp)
    (hn : nL * nL = Ljj * Ljj + beta * wj * wj / bp) :
    (li * (nL / Ljj) + nL * beta * wj / (Ljj * Ljj * bp + beta * wj * wj) * (wi - wj / Ljj * li)) *
    (lk * (nL / Ljj) + nL * beta * wj / (Ljj * Ljj * bp + beta * wj * wj) * (wk - wj / Ljj * lk))
      + beta / (bp + beta * wj * wj / (Ljj * Ljj)) * (wi - wj / Ljj * li) * (wk - wj / Ljj * lk)
    = li * lk + beta / bp * wi * wk := by
  have hbp' : bp ≠ 0 := ne_of_gt hbp
  have hg : Ljj * Ljj * bp + beta * wj * wj ≠ 0 := by
    have : Ljj * Ljj * bp + beta * wj * wj = bp * (Ljj * Ljj + beta * wj * wj / bp) := by field_simp
    rw [this]; exact ne_of_gt (mul_pos hbp hx)
  have hLL : Ljj * Ljj ≠ 0 := mul_ne_zero hL hL
  have hxg : Ljj * Ljj + beta * wj * wj / bp = (Ljj * Ljj * bp + beta * wj * wj) / bp := by field_simp
  have hbg : bp + beta * wj * wj / (Ljj * Ljj) = (Ljj * Ljj * bp + beta * wj * wj) / (Ljj * Ljj) := by field_simp
  have key : ∀ p q : Rat, (nL * p) * (nL * q) = (Ljj * Ljj * bp + beta * wj * wj) / bp * (p * q) := by
    intro p q; rw [← hxg, ← hn]; ring
  have e1 : ∀ l w : Rat, l * (nL / Ljj) + nL * beta * wj / (Ljj * Ljj * bp + beta * wj * wj) * (w - wj / Ljj * l)
      = nL * (l / Ljj + beta * wj / (Ljj * Ljj * bp + beta * wj * wj) * (w - wj / Ljj * l)) := by
    intro l w; ring
  rw [e1, e1, key, hbg]
  obtain ⟨g, hgdef⟩ : ∃ g, g = Ljj * Ljj * bp + beta * wj * wj := ⟨_, rfl⟩
  rw [← hgdef] at hg ⊢
  field_simp
  subst hgdef
  ring

/-- two sums that differ in one term -/
theorem sum_change_one {n t : Nat} (ht : t < n) (f g : Nat → Rat) (h : ∀ c, c < n → c ≠ t → f c = g c) :
    sum n f = sum n g + (f t - g t) := by
  have : sum n (fun c => f c - g c) = f t - g t :=
    sum_single ht (fun c => f c - g c) (fun c hc hne => by rw [h c hc hne]; ring)
  rw [sum_sub] at this
  linarith

def updInit (n : Nat) (L : Arr2) (v : Vec) : UpdState := ⟨L, vecOf n v, 1, #[], false⟩

/-- the state after `t` columns -/
def updRun (r : Rat → Rat) (a beta : Rat) (n : Nat) (L : Arr2) (v : Vec) (t : Nat) : UpdState :=
  iter t (updStep r a beta n) (updInit n L v)

/-- the value whose root is taken when column `j` is processed in state `s` -/
def updX (a beta : Rat) (s : UpdState) (j : Nat) : Rat :=
  a * mget s.L j j * (a * mget s.L j j) + beta * vget s.w j * vget s.w j / s.bp

/-- what a column step does when it does not throw -/
theorem updStep_spec (r : Rat → Rat) (a beta : Rat) (n j : Nat) (s : UpdState)
    (h : (updStep r a beta n j s).fail = false) :
    s.fail = false ∧ 0 < updX a beta s j ∧
    (updStep r a beta n j s).bp
      = s.bp + beta * vget s.w j * vget s.w j / (a * mget s.L j j * (a * mget s.L j j)) ∧
    (∀ i, vget (updStep r a beta n j s).w i
      = if i < n then (if j < i then vget s.w i - vget s.w j / (a * mget s.L j j) * (a * mget s.L i j) else vget s.w i) else 0) ∧
    (∀ i k, mget (updStep r a beta n j s).L i k
      = if i < n ∧ k < n then
          (if k = j then
            (if i = j then r (updX a beta s j)
             else if j < i then
               (if a * mget s.L j j * (a * mget s.L j j) * s.bp + beta * vget s.w j * vget s.w j = 0 then a * mget s.L i j
                else a * mget s.L i j * (r (updX a beta s j) / (a * mget s.L j j))
                  + r (updX a beta s j) * beta * vget s.w j
                    / (a * mget s.L j j * (a * mget s.L j j) * s.bp + beta * vget s.w j * vget s.w j)
                    * (vget s.w i - vget s.w j / (a * mget s.L j j) * (a * mget s.L i j)))
             else mget s.L i k)
           else mget s.L i k)
        else 0) := by
  unfold updStep at h ⊢
  by_cases hf : s.fail = true
  · simp [hf] at h
  · have hf' : s.fail = false := by simpa using hf
    simp only [hf', Bool.false_eq_true, if_false] at h ⊢
    by_cases hx : a * mget s.L j j * (a * mget s.L j j) + beta * vget s.w j * vget s.w j / s.bp ≤ 0
    · simp [hx] at h
    · simp only [hx, if_false]
      refine ⟨by first | rfl | trivial, ?_, by first | rfl | trivial, ?_, ?_⟩
      · unfold updX; exact lt_of_not_ge hx
      · intro i; rw [vget_vecOf]
      · intro i k; rw [mget_matOf]
        by_cases hji : j < i <;> simp [updX, hji]

/-- the working vector restricted to the columns not yet processed -/
def wHat (t : Nat) (s : UpdState) (i : Nat) : Rat := if t ≤ i then vget s.w i else 0

/-- invariant of the column loop after `t` columns: the first `t` columns are final, the others are
the original ones (still unscaled), and `β/β' ŵ ŵᵀ` is what remains to be added -/
structure UpdInv (alpha beta : Rat) (n : Nat) (L : Arr2) (v : Vec) (t : Nat) (s : UpdState) : Prop where
  bp_pos : 0 < s.bp
  cols : ∀ i c, i < n → c < n → t ≤ c → mget s.L i c = mget L i c
  upper : ∀ i c, i < n → c < n → i < c → mget s.L i c = 0
  main : ∀ i k, i < n → k < n →
    sum n (fun c => if c < t then mget s.L i c * mget s.L k c else alpha * (mget L i c * mget L k c))
      + beta / s.bp * wHat t s i * wHat t s k = updTarget alpha beta n L v i k

theorem updInv_init (alpha beta : Rat) (n : Nat) (L : Arr2) (v : Vec)
    (hup : ∀ i c, i < n → c < n → i < c → mget L i c = 0) :
    UpdInv alpha beta n L v 0 (updInit n L v) := by
  refine ⟨by simp [updInit], fun _ _ _ _ _ => rfl, hup, ?_⟩
  intro i k hi hk
  unfold updTarget updInit wHat
  simp only [Nat.not_lt_zero, if_false, Nat.zero_le, if_true, vget_vecOf, hi, hk]
  rw [sum_mul_left]; ring

theorem updRun_succ (r : Rat → Rat) (a beta : Rat) (n : Nat) (L : Arr2) (v : Vec) (t : Nat) :
    updRun r a beta n L v (t + 1) = updStep r a beta n t (updRun r a beta n L v t) := rfl

/-- one column preserves the invariant -/
theorem updInv_step (r : Rat → Rat) (a alpha beta : Rat) (n : Nat) (L : Arr2) (v : Vec) (t : Nat)
    (s : UpdState) (ht : t < n) (ha : a * a = alpha) (ha0 : a ≠ 0)
    (hd : mget L t t ≠ 0)
    (hup : ∀ i c, i < n → c < n → i < c → mget L i c = 0)
    (inv : UpdInv alpha beta n L v t s)
    (hok : (updStep r a beta n t s).fail = false)
    (hroot : r (updX a beta s t) * r (updX a beta s t) = updX a beta s t) :
    UpdInv alpha beta n L v (t + 1) (updStep r a beta n t s) := by
  obtain ⟨_, hxpos, hbp, hw, hL⟩ := updStep_spec r a beta n t s hok
  have hLtt : mget s.L t t = mget L t t := inv.cols t t ht ht (Nat.le_refl t)
  have hLjj : a * mget s.L t t ≠ 0 := by rw [hLtt]; exact mul_ne_zero ha0 hd
  have hdj : 0 < a * mget s.L t t * (a * mget s.L t t) := mul_self_pos.mpr hLjj
  have hl : mget s.L t t ≠ 0 := by rw [hLtt]; exact hd
  have hxdef : updX a beta s t = a * mget s.L t t * (a * mget s.L t t) + beta * vget s.w t * vget s.w t / s.bp := rfl
  have hgamEq : a * mget s.L t t * (a * mget s.L t t) * s.bp + beta * vget s.w t * vget s.w t
      = s.bp * updX a beta s t := by
    rw [hxdef]; have := ne_of_gt inv.bp_pos; field_simp
  have hgam : a * mget s.L t t * (a * mget s.L t t) * s.bp + beta * vget s.w t * vget s.w t ≠ 0 := by
    rw [hgamEq]; exact ne_of_gt (mul_pos inv.bp_pos hxpos)
  have aux : ∀ bp d bw : Rat, d ≠ 0 → bp + bw / d = (d * bp + bw) / d := by
    intro bp d bw hd; field_simp
  refine ⟨?_, ?_, ?_, ?_⟩
  · rw [hbp, aux _ _ _ (ne_of_gt hdj), hgamEq]; exact div_pos (mul_pos inv.bp_pos hxpos) hdj
  · intro i c hi hc htc
    rw [hL i c]; have : c ≠ t := by omega
    simp [hi, hc, this]; exact inv.cols i c hi hc (by omega)
  · intro i c hi hc hic
    rw [hL i c]
    by_cases hct : c = t
    · subst hct
      have h1 : ¬ i = c := by omega
      have h2 : ¬ c < i := by omega
      simp [hi, hc, h1, h2]; exact inv.upper i c hi hc hic
    · simp [hi, hc, hct]; exact inv.upper i c hi hc hic
  · intro i k hi hk
    rw [← inv.main i k hi hk]
    rw [sum_change_one ht
      (fun c => if c < t + 1 then mget (updStep r a beta n t s).L i c * mget (updStep r a beta n t s).L k c
                else alpha * (mget L i c * mget L k c))
      (fun c => if c < t then mget s.L i c * mget s.L k c else alpha * (mget L i c * mget L k c))]
    · -- the term `c = t` and the remainder
      simp only [Nat.lt_succ_self, if_true, Nat.lt_irrefl, if_false]
      -- the generic formulas for the new column and the new working vector, valid for every row `≥ t`
      have colF : ∀ i, i < n → t ≤ i → mget (updStep r a beta n t s).L i t
          = a * mget s.L i t * (r (updX a beta s t) / (a * mget s.L t t))
            + r (updX a beta s t) * beta * vget s.w t
              / (a * mget s.L t t * (a * mget s.L t t) * s.bp + beta * vget s.w t * vget s.w t)
              * (vget s.w i - vget s.w t / (a * mget s.L t t) * (a * mget s.L i t)) := by
        intro i hi hti
        rw [hL i t]
        by_cases hit : i = t
        · subst hit; simp [hi]; field_simp; ring
        · have : t < i := by omega
          simp [hi, ht, hit, this, hgam]
      have wF : ∀ i, i < n → t ≤ i → wHat (t + 1) (updStep r a beta n t s) i
          = wHat t s i - vget s.w t / (a * mget s.L t t) * (a * mget s.L i t) := by
        intro i hi hti
        unfold wHat
        rw [hw i]
        by_cases hit : i = t
        · subst hit; simp; field_simp; ring
        · have h1 : t < i := by omega
          have h2 : t + 1 ≤ i := by omega
          simp [hi, h1, h2, hti]
      have colLow : ∀ i, i < n → i < t → mget (updStep r a beta n t s).L i t = 0 := by
        intro i hi hit
        rw [hL i t]
        have h1 : ¬ i = t := by omega
        have h2 : ¬ t < i := by omega
        simp [hi, ht, h1, h2]
        rw [inv.cols i t hi ht (Nat.le_refl t)]; exact hup i t hi ht hit
      have LLow : ∀ i, i < n → i < t → mget L i t = 0 := fun i hi hit => hup i t hi ht hit
      have wLow : ∀ (u : Nat) (s' : UpdState) i, i < u → wHat u s' i = 0 := by
        intro u s' i hiu; unfold wHat; simp; intro h; omega
      by_cases hit : i < t
      · rw [colLow i hi hit, LLow i hi hit, wLow (t + 1) _ i (by omega), wLow t s i hit]; ring
      · by_cases hkt : k < t
        · rw [colLow k hk hkt, LLow k hk hkt, wLow (t + 1) _ k (by omega), wLow t s k hkt]; ring
        · have hti : t ≤ i := by omega
          have htk : t ≤ k := by omega
          rw [colF i hi hti, colF k hk htk, wF i hi hti, wF k hk htk, hbp]
          have hwt : wHat t s i = vget s.w i := by unfold wHat; simp [hti]
          have hwk : wHat t s k = vget s.w k := by unfold wHat; simp [htk]
          rw [hwt, hwk]
          have id := upd_identity (a * mget s.L t t) (vget s.w t) s.bp beta (r (updX a beta s t))
            (a * mget s.L i t) (a * mget s.L k t) (vget s.w i) (vget s.w k) hLjj inv.bp_pos
            (by rw [← hxdef]; exact hxpos) (by rw [← hxdef]; exact hroot)
          have hll : a * mget s.L i t * (a * mget s.L k t) = alpha * (mget L i t * mget L k t) := by
            rw [inv.cols i t hi ht (Nat.le_refl t), inv.cols k t hk ht (Nat.le_refl t), ← ha]; ring
          rw [hll] at id
          linarith [id]
    · intro c hc hct
      by_cases hlt : c < t
      · have h1 : c < t + 1 := by omega
        simp only [hlt, h1, if_true]
        rw [hL i c, hL k c]; simp [hi, hk, hc, hct]
      · have h1 : ¬ c < t + 1 := by omega
        simp only [hlt, h1, if_false]

/-- the invariant holds after every column as long as no exception was thrown -/
theorem updInv_run (r : Rat → Rat) (a alpha beta : Rat) (n : Nat) (L : Arr2) (v : Vec)
    (ha : a * a = alpha) (ha0 : a ≠ 0)
    (hd : ∀ j, j < n → mget L j j ≠ 0)
    (hup : ∀ i c, i < n → c < n → i < c → mget L i c = 0)
    (hroot : ∀ t, t < n → r (updX a beta (updRun r a beta n L v t) t) * r (updX a beta (updRun r a beta n L v t) t)
      = updX a beta (updRun r a beta n L v t) t) :
    ∀ t, t ≤ n → (updRun r a beta n L v t).fail = false →
      UpdInv alpha beta n L v t (updRun r a beta n L v t) := by
  intro t
  induction t with
  | zero => intro _ _; exact updInv_init alpha beta n L v hup
  | succ t ih =>
    intro ht hok
    rw [updRun_succ] at hok ⊢
    have hprev := (updStep_spec r a beta n t _ hok).1
    exact updInv_step r a alpha beta n L v t _ (by omega) ha ha0 (hd t (by omega)) hup
      (ih (by omega) hprev) hok (hroot t (by omega))

end SharkVerif.LinSolve
