/-
Lemmas for the divide-and-conquer non-dominated sort (`Model/DCSort.lean`), part 2:
the splits, the recursion `ndHelperB` / `ndHelperA`, and the front end (`sortLex`, `uniq`,
`lowerBound`) up to `dcSort pts = pts.map (rankSpec pts)`.
-/
import SharkVerif.Lemmas.DCSweep
namespace SharkVerif.DC
open SharkVerif.Pareto

/-! ### the lexicographic order in coordinates -/

/-- `lexLt p q` finds a first coordinate where `p` is smaller -/
theorem lexLt_coord : ∀ (p q : Pt), lexLt p q = true →
    ∃ c, c < p.length ∧ c < q.length ∧ (∀ c', c' < c → p.getD c' 0 = q.getD c' 0) ∧ p.getD c 0 < q.getD c 0
  | [], _, h => by simp [lexLt] at h
  | _ :: _, [], h => by simp [lexLt] at h
  | a :: as, b :: bs, h => by
    rw [lexLt] at h
    by_cases h1 : a < b
    · exact ⟨0, by simp, by simp, fun c' hc' => by omega, by simpa using h1⟩
    · rw [if_neg h1] at h
      by_cases h2 : b < a
      · rw [if_pos h2] at h; cases h
      · rw [if_neg h2] at h
        obtain ⟨c, c1, c2, c3, c4⟩ := lexLt_coord as bs h
        refine ⟨c + 1, by simp; omega, by simp; omega, ?_, by simpa using c4⟩
        intro c' hc'
        cases c' with
        | zero => simp; omega
        | succ c' => simpa using c3 c' (by omega)

/-- point `a` is lexicographically before point `b` (`Point::operator<`) -/
def lexI (U : Array Pt) (a b : Nat) : Prop := lexLt (U.getD a []) (U.getD b []) = true

theorem lexI_coord {U : Array Pt} {a b : Nat} (h : lexI U a b) :
    ∃ c, (∀ c', c' < c → obj U a c' = obj U b c') ∧ obj U a c < obj U b c := by
  obtain ⟨c, _, _, c3, c4⟩ := lexLt_coord _ _ h
  exact ⟨c, c3, c4⟩

theorem lexI_irrefl (U : Array Pt) (a : Nat) : ¬ lexI U a a := by
  intro h; obtain ⟨c, _, h2⟩ := lexI_coord h; omega

theorem lexI_lexLe2 {U : Array Pt} {a b : Nat} (h : lexI U a b) : lexLe2 U a b := by
  obtain ⟨c, h1, h2⟩ := lexI_coord h
  unfold lexLe2
  rcases Nat.lt_or_ge c 2 with hc | hc
  · have : c = 0 ∨ c = 1 := by omega
    rcases this with rfl | rfl
    · omega
    · have := h1 0 (by omega); omega
  · have := h1 0 (by omega); have := h1 1 (by omega); omega

theorem lexI_lexLt2 {U : Array Pt} {a b : Nat} (h : lexI U a b)
    (hag : ∀ c, 2 ≤ c → obj U a c = obj U b c) : lexLt2 U a b := by
  obtain ⟨c, h1, h2⟩ := lexI_coord h
  unfold lexLt2
  rcases Nat.lt_or_ge c 2 with hc | hc
  · have : c = 0 ∨ c = 1 := by omega
    rcases this with rfl | rfl
    · omega
    · have := h1 0 (by omega); omega
  · have := hag c hc; omega

theorem lexI_not_ltK {U : Array Pt} {a b : Nat} (k : Nat) (h : lexI U a b) : ¬ ltK U k b a := by
  obtain ⟨c, h1, h2⟩ := lexI_coord h
  rintro ⟨h3, h4⟩
  rcases Nat.lt_or_ge c k with hc | hc
  · have := h3 c hc; omega
  · exact h4 (fun c' hc' => by have := h1 c' (by omega); omega)

/-- an index list in the order of `points` with valid indices -/
structure Good (U : Array Pt) (n : Nat) (S : List Nat) : Prop where
  sorted : S.Pairwise (lexI U)
  lt : ∀ s ∈ S, s < n

theorem Good.filter {U : Array Pt} {n : Nat} {S : List Nat} (h : Good U n S) (p : Nat → Bool) :
    Good U n (S.filter p) :=
  ⟨h.sorted.filter p, fun s hs => h.lt s (List.mem_filter.mp hs).1⟩

theorem Good.nodup {U : Array Pt} {n : Nat} {S : List Nat} (h : Good U n S) : S.Nodup := by
  unfold List.Nodup
  refine h.sorted.imp ?_
  intro a b hab e
  rw [e] at hab
  exact lexI_irrefl U b hab

/-! ### the relation `leK` -/

theorem leK_pred {U : Array Pt} {k : Nat} (hk : 1 ≤ k) (a b : Nat) :
    leK U k a b ↔ leK U (k - 1) a b ∧ obj U a (k - 1) ≤ obj U b (k - 1) := by
  constructor
  · intro h; exact ⟨fun c hc => h c (by omega), h (k - 1) (by omega)⟩
  · rintro ⟨h1, h2⟩ c hc
    by_cases e : c = k - 1
    · rw [e]; exact h2
    · exact h1 c (by omega)

/-! ### minimum, maximum, median -/

theorem foldl_maxI (g : Nat → Int) : ∀ (l : List Nat) (a : Int),
    a ≤ l.foldl (fun m i => max m (g i)) a ∧ (∀ i ∈ l, g i ≤ l.foldl (fun m i => max m (g i)) a) ∧
    (l.foldl (fun m i => max m (g i)) a = a ∨ ∃ i ∈ l, l.foldl (fun m i => max m (g i)) a = g i) := by
  intro l
  induction l with
  | nil => intro a; simp
  | cons x l ih =>
    intro a
    simp only [List.foldl_cons]
    obtain ⟨h1, h2, h3⟩ := ih (max a (g x))
    refine ⟨by omega, ?_, ?_⟩
    · intro i hi
      rcases List.mem_cons.mp hi with e | hi
      · rw [e]; omega
      · exact h2 i hi
    · rcases h3 with h3 | ⟨i, hi, e⟩
      · rcases Int.le_total a (g x) with h | h
        · right; exact ⟨x, by simp, by omega⟩
        · left; omega
      · right; exact ⟨i, by simp [hi], e⟩

theorem foldl_minI (g : Nat → Int) : ∀ (l : List Nat) (a : Int),
    l.foldl (fun m i => min m (g i)) a ≤ a ∧ (∀ i ∈ l, l.foldl (fun m i => min m (g i)) a ≤ g i) ∧
    (l.foldl (fun m i => min m (g i)) a = a ∨ ∃ i ∈ l, l.foldl (fun m i => min m (g i)) a = g i) := by
  intro l
  induction l with
  | nil => intro a; simp
  | cons x l ih =>
    intro a
    simp only [List.foldl_cons]
    obtain ⟨h1, h2, h3⟩ := ih (min a (g x))
    refine ⟨by omega, ?_, ?_⟩
    · intro i hi
      rcases List.mem_cons.mp hi with e | hi
      · rw [e]; omega
      · exact h2 i hi
    · rcases h3 with h3 | ⟨i, hi, e⟩
      · rcases Int.le_total a (g x) with h | h
        · left; omega
        · right; exact ⟨x, by simp, by omega⟩
      · right; exact ⟨i, by simp [hi], e⟩

theorem maxObj_ge (U : Array Pt) (S : List Nat) (c : Nat) : ∀ i ∈ S, obj U i c ≤ maxObj U S c := by
  cases S with
  | nil => intro i hi; cases hi
  | cons s rest =>
    intro i hi
    obtain ⟨h1, h2, _⟩ := foldl_maxI (fun i => obj U i c) rest (obj U s c)
    rcases List.mem_cons.mp hi with e | hi
    · rw [e]; exact h1
    · exact h2 i hi

theorem minObj_le (U : Array Pt) (S : List Nat) (c : Nat) : ∀ i ∈ S, minObj U S c ≤ obj U i c := by
  cases S with
  | nil => intro i hi; cases hi
  | cons s rest =>
    intro i hi
    obtain ⟨h1, h2, _⟩ := foldl_minI (fun i => obj U i c) rest (obj U s c)
    rcases List.mem_cons.mp hi with e | hi
    · rw [e]; exact h1
    · exact h2 i hi

theorem maxObj_mem (U : Array Pt) (S : List Nat) (c : Nat) (h : S ≠ []) : ∃ i ∈ S, maxObj U S c = obj U i c := by
  cases S with
  | nil => exact absurd rfl h
  | cons s rest =>
    obtain ⟨_, _, h3⟩ := foldl_maxI (fun i => obj U i c) rest (obj U s c)
    rcases h3 with h3 | ⟨i, hi, e⟩
    · exact ⟨s, by simp, h3⟩
    · exact ⟨i, by simp [hi], e⟩

theorem minObj_mem (U : Array Pt) (S : List Nat) (c : Nat) (h : S ≠ []) : ∃ i ∈ S, minObj U S c = obj U i c := by
  cases S with
  | nil => exact absurd rfl h
  | cons s rest =>
    obtain ⟨_, _, h3⟩ := foldl_minI (fun i => obj U i c) rest (obj U s c)
    rcases h3 with h3 | ⟨i, hi, e⟩
    · exact ⟨s, by simp, h3⟩
    · exact ⟨i, by simp [hi], e⟩

theorem mem_insertAsc (x z : Int) : ∀ l : List Int, z ∈ insertAsc x l ↔ z = x ∨ z ∈ l
  | [] => by simp [insertAsc]
  | y :: ys => by
    rw [insertAsc]
    split
    · simp
    · simp only [List.mem_cons, mem_insertAsc x z ys]
      constructor
      · rintro (h | h | h)
        · exact Or.inr (Or.inl h)
        · exact Or.inl h
        · exact Or.inr (Or.inr h)
      · rintro (h | h | h)
        · exact Or.inr (Or.inl h)
        · exact Or.inl h
        · exact Or.inr (Or.inr h)

theorem length_insertAsc (x : Int) : ∀ l : List Int, (insertAsc x l).length = l.length + 1
  | [] => rfl
  | y :: ys => by
    rw [insertAsc]
    split
    · rfl
    · simp [length_insertAsc x ys]

theorem mem_sortAsc (z : Int) : ∀ l : List Int, z ∈ sortAsc l ↔ z ∈ l
  | [] => by simp [sortAsc]
  | x :: xs => by
    have ih := mem_sortAsc z xs
    unfold sortAsc at ih ⊢
    rw [List.foldr_cons, mem_insertAsc, ih]; simp

theorem length_sortAsc : ∀ l : List Int, (sortAsc l).length = l.length
  | [] => rfl
  | x :: xs => by
    have ih := length_sortAsc xs
    unfold sortAsc at ih ⊢
    rw [List.foldr_cons, length_insertAsc, ih]; simp

theorem getD_mem (l : List Int) (i : Nat) (h : i < l.length) : l.getD i 0 ∈ l := by
  rw [List.getD_eq_getElem?_getD, List.getElem?_eq_getElem h]; exact List.getElem_mem h

/-- twice the median is the sum of two of the values -/
theorem median2_mem (U : Array Pt) (S : List Nat) (c : Nat) (h : S ≠ []) :
    ∃ i ∈ S, ∃ j ∈ S, median2 U S c = obj U i c + obj U j c := by
  have hlen : (sortAsc (S.map fun i => obj U i c)).length = S.length := by
    rw [length_sortAsc, List.length_map]
  have hpos : 0 < S.length := List.length_pos_iff.mpr h
  have hmem : ∀ k, k < S.length → ∃ i ∈ S, (sortAsc (S.map fun i => obj U i c)).getD k 0 = obj U i c := by
    intro k hk
    have := getD_mem (sortAsc (S.map fun i => obj U i c)) k (by omega)
    rw [mem_sortAsc] at this
    obtain ⟨i, hi, e⟩ := List.mem_map.mp this
    exact ⟨i, hi, e.symm⟩
  unfold median2
  simp only [hlen]
  split
  · obtain ⟨i, hi, e⟩ := hmem (S.length / 2) (by omega)
    exact ⟨i, hi, i, hi, by rw [e]; omega⟩
  · obtain ⟨i, hi, e⟩ := hmem (S.length / 2) (by omega)
    obtain ⟨j, hj, e'⟩ := hmem (S.length / 2 - 1) (by omega)
    exact ⟨i, hi, j, hj, by rw [e, e']⟩

/-! ### the splits -/

theorem length_filter_add (l : List Nat) (p : Nat → Bool) :
    (l.filter p).length + (l.filter fun x => !p x).length = l.length := by
  induction l with
  | nil => rfl
  | cons x l ih =>
    simp only [List.filter_cons]
    cases p x <;> simp <;> omega

theorem filter_lt_of {l : List Nat} {p : Nat → Bool} {x : Nat} (hx : x ∈ l) (hp : p x = false) :
    (l.filter p).length < l.length :=
  List.length_filter_lt_length_iff_exists.mpr ⟨x, hx, by simp [hp]⟩

/-- `splitA`: the two parts are the members below / above a threshold in coordinate `k - 1`, and both
parts are non-empty unless all members have the same value in that coordinate -/
theorem splitA_props (U : Array Pt) (S : List Nat) (k : Nat) :
    ∃ lo : Nat → Bool, splitA U S k = (S.filter lo, S.filter fun i => !lo i) ∧
      (∀ i j, lo i = true → lo j = false → obj U i (k - 1) < obj U j (k - 1)) ∧
      ((∃ x ∈ S, ∃ y ∈ S, obj U x (k - 1) ≠ obj U y (k - 1)) →
        (∃ x ∈ S, lo x = true) ∧ (∃ x ∈ S, lo x = false)) := by
  have hne : (∃ x ∈ S, ∃ y ∈ S, obj U x (k - 1) ≠ obj U y (k - 1)) → S ≠ [] := by
    rintro ⟨x, hx, _⟩ e; rw [e] at hx; cases hx
  unfold splitA
  dsimp only
  generalize hmed : median2 U S (k - 1) = med2
  split
  · rename_i hcnt
    refine ⟨fun i => decide (2 * obj U i (k - 1) ≤ med2), ?_, ?_, ?_⟩
    · congr 1
      apply List.filter_congr
      intro x _
      by_cases h : 2 * obj U x (k - 1) ≤ med2
      · simp [h] <;> omega
      · simp [h] <;> omega
    · intro i j hi hj
      simp only [decide_eq_true_eq, decide_eq_false_iff_not] at hi hj
      omega
    · intro hex
      obtain ⟨i, hi, j, hj, e⟩ := median2_mem U S (k - 1) (hne hex)
      rw [hmed] at e
      constructor
      · rcases Int.le_total (obj U i (k - 1)) (obj U j (k - 1)) with h | h
        · exact ⟨i, hi, by simp; omega⟩
        · exact ⟨j, hj, by simp; omega⟩
      · have hp : 0 < (S.filter fun i => decide (2 * obj U i (k - 1) > med2)).length := by omega
        obtain ⟨x, hx⟩ := List.exists_mem_of_length_pos hp
        have := List.mem_filter.mp hx
        refine ⟨x, this.1, ?_⟩
        have h2 := this.2
        simp only [decide_eq_true_eq] at h2
        simp; omega
  · rename_i hcnt
    refine ⟨fun i => decide (2 * obj U i (k - 1) < med2), ?_, ?_, ?_⟩
    · congr 1
      apply List.filter_congr
      intro x _
      by_cases h : 2 * obj U x (k - 1) < med2
      · simp [h] <;> omega
      · simp [h] <;> omega
    · intro i j hi hj
      simp only [decide_eq_true_eq, decide_eq_false_iff_not] at hi hj
      omega
    · intro hex
      obtain ⟨i, hi, j, hj, e⟩ := median2_mem U S (k - 1) (hne hex)
      rw [hmed] at e
      constructor
      · by_cases hp : 0 < (S.filter fun i => decide (2 * obj U i (k - 1) < med2)).length
        · obtain ⟨x, hx⟩ := List.exists_mem_of_length_pos hp
          have := List.mem_filter.mp hx
          exact ⟨x, this.1, this.2⟩
        · exfalso
          have h0 : (S.filter fun i => decide (2 * obj U i (k - 1) < med2)) = [] :=
            List.length_eq_zero_iff.mp (by omega)
          have h1 : (S.filter fun i => decide (2 * obj U i (k - 1) > med2)) = [] :=
            List.length_eq_zero_iff.mp (by
              have := congrArg List.length h0
              simp only [List.length_nil] at this
              omega)
          have hall : ∀ x ∈ S, 2 * obj U x (k - 1) = med2 := by
            intro x hx
            have a := List.filter_eq_nil_iff.mp h0 x hx
            have b := List.filter_eq_nil_iff.mp h1 x hx
            simp only [decide_eq_true_eq] at a b
            omega
          obtain ⟨x, hx, y, hy, hxy⟩ := hex
          have := hall x hx; have := hall y hy; omega
      · rcases Int.le_total (obj U i (k - 1)) (obj U j (k - 1)) with h | h
        · exact ⟨j, hj, by simp; omega⟩
        · exact ⟨i, hi, by simp; omega⟩

/-- `splitB`: a common threshold in coordinate `k - 1`; both sides are non-empty when the ranges of
`L` and `H` in that coordinate are not already separated -/
theorem splitB_props (U : Array Pt) (L H : List Nat) (k : Nat) :
    ∃ lo : Nat → Bool,
      splitB U L H k = (L.filter lo, L.filter (fun i => !lo i), H.filter lo, H.filter fun i => !lo i) ∧
      (∀ i j, lo i = true → lo j = false → obj U i (k - 1) < obj U j (k - 1)) ∧
      (L ≠ [] → H ≠ [] → ¬ maxObj U L (k - 1) ≤ minObj U H (k - 1) →
        (∃ x, (x ∈ L ∨ x ∈ H) ∧ lo x = true) ∧ (∃ x, (x ∈ L ∨ x ∈ H) ∧ lo x = false)) := by
  have hmed : L ≠ [] → H ≠ [] → ∃ i, (i ∈ L ∨ i ∈ H) ∧ ∃ j, (j ∈ L ∨ j ∈ H) ∧
      median2 U (if L.length > H.length then L else H) (k - 1) = obj U i (k - 1) + obj U j (k - 1) := by
    intro hL hH
    split
    · obtain ⟨i, hi, j, hj, e⟩ := median2_mem U L (k - 1) hL
      exact ⟨i, Or.inl hi, j, Or.inl hj, e⟩
    · obtain ⟨i, hi, j, hj, e⟩ := median2_mem U H (k - 1) hH
      exact ⟨i, Or.inr hi, j, Or.inr hj, e⟩
  unfold splitB
  dsimp only
  generalize median2 U (if L.length > H.length then L else H) (k - 1) = piv2 at hmed
  split
  · rename_i hcnt
    refine ⟨fun i => decide (2 * obj U i (k - 1) ≤ piv2), ?_, ?_, ?_⟩
    · have e : ∀ M : List Nat, (M.filter fun i => decide (2 * obj U i (k - 1) > piv2)) =
          M.filter fun i => !decide (2 * obj U i (k - 1) ≤ piv2) := by
        intro M
        apply List.filter_congr
        intro x _
        by_cases h : 2 * obj U x (k - 1) ≤ piv2
        · simp [h] <;> omega
        · simp [h] <;> omega
      rw [e L, e H]
    · intro i j hi hj
      simp only [decide_eq_true_eq, decide_eq_false_iff_not] at hi hj
      omega
    · intro hL hH hsep
      obtain ⟨i, hi, j, hj, e⟩ := hmed hL hH
      constructor
      · rcases Int.le_total (obj U i (k - 1)) (obj U j (k - 1)) with h | h
        · exact ⟨i, hi, by simp; omega⟩
        · exact ⟨j, hj, by simp; omega⟩
      · by_cases hp : 0 < (L.filter fun i => decide (2 * obj U i (k - 1) > piv2)).length +
            (H.filter fun i => decide (2 * obj U i (k - 1) > piv2)).length
        · have : 0 < (L.filter fun i => decide (2 * obj U i (k - 1) > piv2)).length ∨
              0 < (H.filter fun i => decide (2 * obj U i (k - 1) > piv2)).length := by omega
          rcases this with hp | hp
          · obtain ⟨x, hx⟩ := List.exists_mem_of_length_pos hp
            have := List.mem_filter.mp hx
            have h2 := this.2
            simp only [decide_eq_true_eq] at h2
            exact ⟨x, Or.inl this.1, by simp; omega⟩
          · obtain ⟨x, hx⟩ := List.exists_mem_of_length_pos hp
            have := List.mem_filter.mp hx
            have h2 := this.2
            simp only [decide_eq_true_eq] at h2
            exact ⟨x, Or.inr this.1, by simp; omega⟩
        · exfalso
          have g1 : (L.filter fun i => decide (2 * obj U i (k - 1) > piv2)) = [] :=
            List.length_eq_zero_iff.mp (by omega)
          have g2 : (H.filter fun i => decide (2 * obj U i (k - 1) > piv2)) = [] :=
            List.length_eq_zero_iff.mp (by omega)
          have l1 : (L.filter fun i => decide (2 * obj U i (k - 1) < piv2)) = [] :=
            List.length_eq_zero_iff.mp (by omega)
          have l2 : (H.filter fun i => decide (2 * obj U i (k - 1) < piv2)) = [] :=
            List.length_eq_zero_iff.mp (by omega)
          obtain ⟨x, hx, ex⟩ := maxObj_mem U L (k - 1) hL
          obtain ⟨y, hy, ey⟩ := minObj_mem U H (k - 1) hH
          have a1 := List.filter_eq_nil_iff.mp g1 x hx
          have a2 := List.filter_eq_nil_iff.mp l1 x hx
          have b1 := List.filter_eq_nil_iff.mp g2 y hy
          have b2 := List.filter_eq_nil_iff.mp l2 y hy
          simp only [decide_eq_true_eq] at a1 a2 b1 b2
          omega
  · rename_i hcnt
    refine ⟨fun i => decide (2 * obj U i (k - 1) < piv2), ?_, ?_, ?_⟩
    · have e : ∀ M : List Nat, (M.filter fun i => decide (2 * obj U i (k - 1) ≥ piv2)) =
          M.filter fun i => !decide (2 * obj U i (k - 1) < piv2) := by
        intro M
        apply List.filter_congr
        intro x _
        by_cases h : 2 * obj U x (k - 1) < piv2
        · simp [h] <;> omega
        · simp [h] <;> omega
      rw [e L, e H]
    · intro i j hi hj
      simp only [decide_eq_true_eq, decide_eq_false_iff_not] at hi hj
      omega
    · intro hL hH hsep
      obtain ⟨i, hi, j, hj, e⟩ := hmed hL hH
      constructor
      · have : 0 < (L.filter fun i => decide (2 * obj U i (k - 1) < piv2)).length ∨
            0 < (H.filter fun i => decide (2 * obj U i (k - 1) < piv2)).length := by omega
        rcases this with hp | hp
        · obtain ⟨x, hx⟩ := List.exists_mem_of_length_pos hp
          have := List.mem_filter.mp hx
          exact ⟨x, Or.inl this.1, this.2⟩
        · obtain ⟨x, hx⟩ := List.exists_mem_of_length_pos hp
          have := List.mem_filter.mp hx
          exact ⟨x, Or.inr this.1, this.2⟩
      · rcases Int.le_total (obj U i (k - 1)) (obj U j (k - 1)) with h | h
        · exact ⟨j, hj, by simp; omega⟩
        · exact ⟨i, hi, by simp; omega⟩

end SharkVerif.DC
