/-
Lemmas for the divide-and-conquer non-dominated sort (`Model/DCSort.lean`), part 2:
the splits, the recursion `ndHelperB` / `ndHelperA`, and the front end (`sortLex`, `uniq`,
`lowerBound`) up to `dcSort pts = pts.map (rankSpec pts)`.
-/
import SharkVerif.Lemmas.DCSweep
namespace SharkVerif.DC
open SharkVerif.Pareto

/-! ### the lexicographic order in coordinates -/

/-- `lexLt p q` finds a first coordinate where `p` is smaller -/
theorem lexLt_coord : ∀ (p q : Pt), lexLt p q = true →
    ∃ c, c < p.length ∧ c < q.length ∧ (∀ c', c' < c → p.getD c' 0 = q.getD c' 0) ∧ p.getD c 0 < q.getD c 0
  | [], _, h => by simp [lexLt] at h
  | _ :: _, [], h => by simp [lexLt] at h
  | a :: as, b :: bs, h => by
    rw [lexLt] at h
    by_cases h1 : a < b
    · exact ⟨0, by simp, by simp, fun c' hc' => by omega, by simpa using h1⟩
    · rw [if_neg h1] at h
      by_cases h2 : b < a
      · rw [if_pos h2] at h; cases h
      · rw [if_neg h2] at h
        obtain ⟨c, c1, c2, c3, c4⟩ := lexLt_coord as bs h
        refine ⟨c + 1, by simp; omega, by simp; omega, ?_, by simpa using c4⟩
        intro c' hc'
        cases c' with
        | zero => simp; omega
        | succ c' => simpa using c3 c' (by omega)

/-- point `a` is lexicographically before point `b` (`Point::operator<`) -/
def lexI (U : Array Pt) (a b : Nat) : Prop := lexLt (U.getD a []) (U.getD b []) = true

theorem lexI_coord {U : Array Pt} {a b : Nat} (h : lexI U a b) :
    ∃ c, (∀ c', c' < c → obj U a c' = obj U b c') ∧ obj U a c < obj U b c := by
  obtain ⟨c, _, _, c3, c4⟩ := lexLt_coord _ _ h
  exact ⟨c, c3, c4⟩

theorem lexI_irrefl (U : Array Pt) (a : Nat) : ¬ lexI U a a := by
  intro h; obtain ⟨c, _, h2⟩ := lexI_coord h; omega

theorem lexI_lexLe2 {U : Array Pt} {a b : Nat} (h : lexI U a b) : lexLe2 U a b := by
  obtain ⟨c, h1, h2⟩ := lexI_coord h
  unfold lexLe2
  rcases Nat.lt_or_ge c 2 with hc | hc
  · have : c = 0 ∨ c = 1 := by omega
    rcases this with rfl | rfl
    · omega
    · have := h1 0 (by omega); omega
  · have := h1 0 (by omega); have := h1 1 (by omega); omega

theorem lexI_lexLt2 {U : Array Pt} {a b : Nat} (h : lexI U a b)
    (hag : ∀ c, 2 ≤ c → obj U a c = obj U b c) : lexLt2 U a b := by
  obtain ⟨c, h1, h2⟩ := lexI_coord h
  unfold lexLt2
  rcases Nat.lt_or_ge c 2 with hc | hc
  · have : c = 0 ∨ c = 1 := by omega
    rcases this with rfl | rfl
    · omega
    · have := h1 0 (by omega); omega
  · have := hag c hc; omega

theorem lexI_not_ltK {U : Array Pt} {a b : Nat} (k : Nat) (h : lexI U a b) : ¬ ltK U k b a := by
  obtain ⟨c, h1, h2⟩ := lexI_coord h
  rintro ⟨h3, h4⟩
  rcases Nat.lt_or_ge c k with hc | hc
  · have := h3 c hc; omega
  · exact h4 (fun c' hc' => by have := h1 c' (by omega); omega)

/-- an index list in the order of `points` with valid indices -/
structure Good (U : Array Pt) (n : Nat) (S : List Nat) : Prop where
  sorted : S.Pairwise (lexI U)
  lt : ∀ s ∈ S, s < n

theorem Good.filter {U : Array Pt} {n : Nat} {S : List Nat} (h : Good U n S) (p : Nat → Bool) :
    Good U n (S.filter p) :=
  ⟨h.sorted.filter p, fun s hs => h.lt s (List.mem_filter.mp hs).1⟩

theorem Good.nodup {U : Array Pt} {n : Nat} {S : List Nat} (h : Good U n S) : S.Nodup := by
  unfold List.Nodup
  refine h.sorted.imp ?_
  intro a b hab e
  rw [e] at hab
  exact lexI_irrefl U b hab

/-! ### the relation `leK` -/

theorem leK_pred {U : Array Pt} {k : Nat} (hk : 1 ≤ k) (a b : Nat) :
    leK U k a b ↔ leK U (k - 1) a b ∧ obj U a (k - 1) ≤ obj U b (k - 1) := by
  constructor
  · intro h; exact ⟨fun c hc => h c (by omega), h (k - 1) (by omega)⟩
  · rintro ⟨h1, h2⟩ c hc
    by_cases e : c = k - 1
    · rw [e]; exact h2
    · exact h1 c (by omega)

/-! ### minimum, maximum, median -/

theorem foldl_maxI (g : Nat → Int) : ∀ (l : List Nat) (a : Int),
    a ≤ l.foldl (fun m i => max m (g i)) a ∧ (∀ i ∈ l, g i ≤ l.foldl (fun m i => max m (g i)) a) ∧
    (l.foldl (fun m i => max m (g i)) a = a ∨ ∃ i ∈ l, l.foldl (fun m i => max m (g i)) a = g i) := by
  intro l
  induction l with
  | nil => intro a; simp
  | cons x l ih =>
    intro a
    simp only [List.foldl_cons]
    obtain ⟨h1, h2, h3⟩ := ih (max a (g x))
    refine ⟨by omega, ?_, ?_⟩
    · intro i hi
      rcases List.mem_cons.mp hi with e | hi
      · rw [e]; omega
      · exact h2 i hi
    · rcases h3 with h3 | ⟨i, hi, e⟩
      · rcases Int.le_total a (g x) with h | h
        · right; exact ⟨x, by simp, by omega⟩
        · left; omega
      · right; exact ⟨i, by simp [hi], e⟩

theorem foldl_minI (g : Nat → Int) : ∀ (l : List Nat) (a : Int),
    l.foldl (fun m i => min m (g i)) a ≤ a ∧ (∀ i ∈ l, l.foldl (fun m i => min m (g i)) a ≤ g i) ∧
    (l.foldl (fun m i => min m (g i)) a = a ∨ ∃ i ∈ l, l.foldl (fun m i => min m (g i)) a = g i) := by
  intro l
  induction l with
  | nil => intro a; simp
  | cons x l ih =>
    intro a
    simp only [List.foldl_cons]
    obtain ⟨h1, h2, h3⟩ := ih (min a (g x))
    refine ⟨by omega, ?_, ?_⟩
    · intro i hi
      rcases List.mem_cons.mp hi with e | hi
      · rw [e]; omega
      · exact h2 i hi
    · rcases h3 with h3 | ⟨i, hi, e⟩
      · rcases Int.le_total a (g x) with h | h
        · left; omega
        · right; exact ⟨x, by simp, by omega⟩
      · right; exact ⟨i, by simp [hi], e⟩

theorem maxObj_ge (U : Array Pt) (S : List Nat) (c : Nat) : ∀ i ∈ S, obj U i c ≤ maxObj U S c := by
  cases S with
  | nil => intro i hi; cases hi
  | cons s rest =>
    intro i hi
    obtain ⟨h1, h2, _⟩ := foldl_maxI (fun i => obj U i c) rest (obj U s c)
    rcases List.mem_cons.mp hi with e | hi
    · rw [e]; exact h1
    · exact h2 i hi

theorem minObj_le (U : Array Pt) (S : List Nat) (c : Nat) : ∀ i ∈ S, minObj U S c ≤ obj U i c := by
  cases S with
  | nil => intro i hi; cases hi
  | cons s rest =>
    intro i hi
    obtain ⟨h1, h2, _⟩ := foldl_minI (fun i => obj U i c) rest (obj U s c)
    rcases List.mem_cons.mp hi with e | hi
    · rw [e]; exact h1
    · exact h2 i hi

theorem maxObj_mem (U : Array Pt) (S : List Nat) (c : Nat) (h : S ≠ []) : ∃ i ∈ S, maxObj U S c = obj U i c := by
  cases S with
  | nil => exact absurd rfl h
  | cons s rest =>
    obtain ⟨_, _, h3⟩ := foldl_maxI (fun i => obj U i c) rest (obj U s c)
    rcases h3 with h3 | ⟨i, hi, e⟩
    · exact ⟨s, by simp, h3⟩
    · exact ⟨i, by simp [hi], e⟩

theorem minObj_mem (U : Array Pt) (S : List Nat) (c : Nat) (h : S ≠ []) : ∃ i ∈ S, minObj U S c = obj U i c := by
  cases S with
  | nil => exact absurd rfl h
  | cons s rest =>
    obtain ⟨_, _, h3⟩ := foldl_minI (fun i => obj U i c) rest (obj U s c)
    rcases h3 with h3 | ⟨i, hi, e⟩
    · exact ⟨s, by simp, h3⟩
    · exact ⟨i, by simp [hi], e⟩

theorem mem_insertAsc (x z : Int) : ∀ l : List Int, z ∈ insertAsc x l ↔ z = x ∨ z ∈ l
  | [] => by simp [insertAsc]
  | y :: ys => by
    rw [insertAsc]
    split
    · simp
    · simp only [List.mem_cons, mem_insertAsc x z ys]
      constructor
      · rintro (h | h | h)
        · exact Or.inr (Or.inl h)
        · exact Or.inl h
        · exact Or.inr (Or.inr h)
      · rintro (h | h | h)
        · exact Or.inr (Or.inl h)
        · exact Or.inl h
        · exact Or.inr (Or.inr h)

theorem length_insertAsc (x : Int) : ∀ l : List Int, (insertAsc x l).length = l.length + 1
  | [] => rfl
  | y :: ys => by
    rw [insertAsc]
    split
    · rfl
    · simp [length_insertAsc x ys]

theorem mem_sortAsc (z : Int) : ∀ l : List Int, z ∈ sortAsc l ↔ z ∈ l
  | [] => by simp [sortAsc]
  | x :: xs => by
    have ih := mem_sortAsc z xs
    unfold sortAsc at ih ⊢
    rw [List.foldr_cons, mem_insertAsc, ih]; simp

theorem length_sortAsc : ∀ l : List Int, (sortAsc l).length = l.length
  | [] => rfl
  | x :: xs => by
    have ih := length_sortAsc xs
    unfold sortAsc at ih ⊢
    rw [List.foldr_cons, length_insertAsc, ih]; simp

theorem getD_mem (l : List Int) (i : Nat) (h : i < l.length) : l.getD i 0 ∈ l := by
  rw [List.getD_eq_getElem?_getD, List.getElem?_eq_getElem h]; exact List.getElem_mem h

/-- twice the median is the sum of two of the values -/
theorem median2_mem (U : Array Pt) (S : List Nat) (c : Nat) (h : S ≠ []) :
    ∃ i ∈ S, ∃ j ∈ S, median2 U S c = obj U i c + obj U j c := by
  have hlen : (sortAsc (S.map fun i => obj U i c)).length = S.length := by
    rw [length_sortAsc, List.length_map]
  have hpos : 0 < S.length := List.length_pos_iff.mpr h
  have hmem : ∀ k, k < S.length → ∃ i ∈ S, (sortAsc (S.map fun i => obj U i c)).getD k 0 = obj U i c := by
    intro k hk
    have := getD_mem (sortAsc (S.map fun i => obj U i c)) k (by omega)
    rw [mem_sortAsc] at this
    obtain ⟨i, hi, e⟩ := List.mem_map.mp this
    exact ⟨i, hi, e.symm⟩
  unfold median2
  simp only [hlen]
  split
  · obtain ⟨i, hi, e⟩ := hmem (S.length / 2) (by omega)
    exact ⟨i, hi, i, hi, by rw [e]; omega⟩
  · obtain ⟨i, hi, e⟩ := hmem (S.length / 2) (by omega)
    obtain ⟨j, hj, e'⟩ := hmem (S.length / 2 - 1) (by omega)
    exact ⟨i, hi, j, hj, by rw [e, e']⟩

/-! ### the splits -/

theorem length_filter_add (l : List Nat) (p : Nat → Bool) :
    (l.filter p).length + (l.filter fun x => !p x).length = l.length := by
  induction l with
  | nil => rfl
  | cons x l ih =>
    simp only [List.filter_cons]
    cases p x <;> simp <;> omega

theorem filter_lt_of {l : List Nat} {p : Nat → Bool} {x : Nat} (hx : x ∈ l) (hp : p x = false) :
    (l.filter p).length < l.length :=
  List.length_filter_lt_length_iff_exists.mpr ⟨x, hx, by simp [hp]⟩

/-- `splitA`: the two parts are the members below / above a threshold in coordinate `k - 1`, and both
parts are non-empty unless all members have the same value in that coordinate -/
theorem splitA_props (U : Array Pt) (S : List Nat) (k : Nat) :
    ∃ lo : Nat → Bool, splitA U S k = (S.filter lo, S.filter fun i => !lo i) ∧
      (∀ i j, lo i = true → lo j = false → obj U i (k - 1) < obj U j (k - 1)) ∧
      ((∃ x ∈ S, ∃ y ∈ S, obj U x (k - 1) ≠ obj U y (k - 1)) →
        (∃ x ∈ S, lo x = true) ∧ (∃ x ∈ S, lo x = false)) := by
  have hne : (∃ x ∈ S, ∃ y ∈ S, obj U x (k - 1) ≠ obj U y (k - 1)) → S ≠ [] := by
    rintro ⟨x, hx, _⟩ e; rw [e] at hx; cases hx
  unfold splitA
  dsimp only
  generalize hmed : median2 U S (k - 1) = med2
  split
  · rename_i hcnt
    refine ⟨fun i => decide (2 * obj U i (k - 1) ≤ med2), ?_, ?_, ?_⟩
    · congr 1
      apply List.filter_congr
      intro x _
      by_cases h : 2 * obj U x (k - 1) ≤ med2
      · simp [h] <;> omega
      · simp [h] <;> omega
    · intro i j hi hj
      simp only [decide_eq_true_eq, decide_eq_false_iff_not] at hi hj
      omega
    · intro hex
      obtain ⟨i, hi, j, hj, e⟩ := median2_mem U S (k - 1) (hne hex)
      rw [hmed] at e
      constructor
      · rcases Int.le_total (obj U i (k - 1)) (obj U j (k - 1)) with h | h
        · exact ⟨i, hi, by simp; omega⟩
        · exact ⟨j, hj, by simp; omega⟩
      · have hp : 0 < (S.filter fun i => decide (2 * obj U i (k - 1) > med2)).length := by omega
        obtain ⟨x, hx⟩ := List.exists_mem_of_length_pos hp
        have := List.mem_filter.mp hx
        refine ⟨x, this.1, ?_⟩
        have h2 := this.2
        simp only [decide_eq_true_eq] at h2
        simp; omega
  · rename_i hcnt
    refine ⟨fun i => decide (2 * obj U i (k - 1) < med2), ?_, ?_, ?_⟩
    · congr 1
      apply List.filter_congr
      intro x _
      by_cases h : 2 * obj U x (k - 1) < med2
      · simp [h] <;> omega
      · simp [h] <;> omega
    · intro i j hi hj
      simp only [decide_eq_true_eq, decide_eq_false_iff_not] at hi hj
      omega
    · intro hex
      obtain ⟨i, hi, j, hj, e⟩ := median2_mem U S (k - 1) (hne hex)
      rw [hmed] at e
      constructor
      · by_cases hp : 0 < (S.filter fun i => decide (2 * obj U i (k - 1) < med2)).length
        · obtain ⟨x, hx⟩ := List.exists_mem_of_length_pos hp
          have := List.mem_filter.mp hx
          exact ⟨x, this.1, this.2⟩
        · exfalso
          have h0 : (S.filter fun i => decide (2 * obj U i (k - 1) < med2)) = [] :=
            List.length_eq_zero_iff.mp (by omega)
          have h1 : (S.filter fun i => decide (2 * obj U i (k - 1) > med2)) = [] :=
            List.length_eq_zero_iff.mp (by
              have := congrArg List.length h0
              simp only [List.length_nil] at this
              omega)
          have hall : ∀ x ∈ S, 2 * obj U x (k - 1) = med2 := by
            intro x hx
            have a := List.filter_eq_nil_iff.mp h0 x hx
            have b := List.filter_eq_nil_iff.mp h1 x hx
            simp only [decide_eq_true_eq] at a b
            omega
          obtain ⟨x, hx, y, hy, hxy⟩ := hex
          have := hall x hx; have := hall y hy; omega
      · rcases Int.le_total (obj U i (k - 1)) (obj U j (k - 1)) with h | h
        · exact ⟨j, hj, by simp; omega⟩
        · exact ⟨i, hi, by simp; omega⟩

/-- `splitB`: a common threshold in coordinate `k - 1`; both sides are non-empty when the ranges of
`L` and `H` in that coordinate are not already separated -/
theorem splitB_props (U : Array Pt) (L H : List Nat) (k : Nat) :
    ∃ lo : Nat → Bool,
      splitB U L H k = (L.filter lo, L.filter (fun i => !lo i), H.filter lo, H.filter fun i => !lo i) ∧
      (∀ i j, lo i = true → lo j = false → obj U i (k - 1) < obj U j (k - 1)) ∧
      (L ≠ [] → H ≠ [] → ¬ maxObj U L (k - 1) ≤ minObj U H (k - 1) →
        (∃ x, (x ∈ L ∨ x ∈ H) ∧ lo x = true) ∧ (∃ x, (x ∈ L ∨ x ∈ H) ∧ lo x = false)) := by
  have hmed : L ≠ [] → H ≠ [] → ∃ i, (i ∈ L ∨ i ∈ H) ∧ ∃ j, (j ∈ L ∨ j ∈ H) ∧
      median2 U (if L.length > H.length then L else H) (k - 1) = obj U i (k - 1) + obj U j (k - 1) := by
    intro hL hH
    split
    · obtain ⟨i, hi, j, hj, e⟩ := median2_mem U L (k - 1) hL
      exact ⟨i, Or.inl hi, j, Or.inl hj, e⟩
    · obtain ⟨i, hi, j, hj, e⟩ := median2_mem U H (k - 1) hH
      exact ⟨i, Or.inr hi, j, Or.inr hj, e⟩
  unfold splitB
  dsimp only
  generalize median2 U (if L.length > H.length then L else H) (k - 1) = piv2 at hmed
  split
  · rename_i hcnt
    refine ⟨fun i => decide (2 * obj U i (k - 1) ≤ piv2), ?_, ?_, ?_⟩
    · have e : ∀ M : List Nat, (M.filter fun i => decide (2 * obj U i (k - 1) > piv2)) =
          M.filter fun i => !decide (2 * obj U i (k - 1) ≤ piv2) := by
        intro M
        apply List.filter_congr
        intro x _
        by_cases h : 2 * obj U x (k - 1) ≤ piv2
        · simp [h] <;> omega
        · simp [h] <;> omega
      rw [e L, e H]
    · intro i j hi hj
      simp only [decide_eq_true_eq, decide_eq_false_iff_not] at hi hj
      omega
    · intro hL hH hsep
      obtain ⟨i, hi, j, hj, e⟩ := hmed hL hH
      constructor
      · rcases Int.le_total (obj U i (k - 1)) (obj U j (k - 1)) with h | h
        · exact ⟨i, hi, by simp; omega⟩
        · exact ⟨j, hj, by simp; omega⟩
      · by_cases hp : 0 < (L.filter fun i => decide (2 * obj U i (k - 1) > piv2)).length +
            (H.filter fun i => decide (2 * obj U i (k - 1) > piv2)).length
        · have : 0 < (L.filter fun i => decide (2 * obj U i (k - 1) > piv2)).length ∨
              0 < (H.filter fun i => decide (2 * obj U i (k - 1) > piv2)).length := by omega
          rcases this with hp | hp
          · obtain ⟨x, hx⟩ := List.exists_mem_of_length_pos hp
            have := List.mem_filter.mp hx
            have h2 := this.2
            simp only [decide_eq_true_eq] at h2
            exact ⟨x, Or.inl this.1, by simp; omega⟩
          · obtain ⟨x, hx⟩ := List.exists_mem_of_length_pos hp
            have := List.mem_filter.mp hx
            have h2 := this.2
            simp only [decide_eq_true_eq] at h2
            exact ⟨x, Or.inr this.1, by simp; omega⟩
        · exfalso
          have g1 : (L.filter fun i => decide (2 * obj U i (k - 1) > piv2)) = [] :=
            List.length_eq_zero_iff.mp (by omega)
          have g2 : (H.filter fun i => decide (2 * obj U i (k - 1) > piv2)) = [] :=
            List.length_eq_zero_iff.mp (by omega)
          have l1 : (L.filter fun i => decide (2 * obj U i (k - 1) < piv2)) = [] :=
            List.length_eq_zero_iff.mp (by omega)
          have l2 : (H.filter fun i => decide (2 * obj U i (k - 1) < piv2)) = [] :=
            List.length_eq_zero_iff.mp (by omega)
          obtain ⟨x, hx, ex⟩ := maxObj_mem U L (k - 1) hL
          obtain ⟨y, hy, ey⟩ := minObj_mem U H (k - 1) hH
          have a1 := List.filter_eq_nil_iff.mp g1 x hx
          have a2 := List.filter_eq_nil_iff.mp l1 x hx
          have b1 := List.filter_eq_nil_iff.mp g2 y hy
          have b2 := List.filter_eq_nil_iff.mp l2 y hy
          simp only [decide_eq_true_eq] at a1 a2 b1 b2
          omega
  · rename_i hcnt
    refine ⟨fun i => decide (2 * obj U i (k - 1) < piv2), ?_, ?_, ?_⟩
    · have e : ∀ M : List Nat, (M.filter fun i => decide (2 * obj U i (k - 1) ≥ piv2)) =
          M.filter fun i => !decide (2 * obj U i (k - 1) < piv2) := by
        intro M
        apply List.filter_congr
        intro x _
        by_cases h : 2 * obj U x (k - 1) < piv2
        · simp [h] <;> omega
        · simp [h] <;> omega
      rw [e L, e H]
    · intro i j hi hj
      simp only [decide_eq_true_eq, decide_eq_false_iff_not] at hi hj
      omega
    · intro hL hH hsep
      obtain ⟨i, hi, j, hj, e⟩ := hmed hL hH
      constructor
      · have : 0 < (L.filter fun i => decide (2 * obj U i (k - 1) < piv2)).length ∨
            0 < (H.filter fun i => decide (2 * obj U i (k - 1) < piv2)).length := by omega
        rcases this with hp | hp
        · obtain ⟨x, hx⟩ := List.exists_mem_of_length_pos hp
          have := List.mem_filter.mp hx
          exact ⟨x, Or.inl this.1, this.2⟩
        · obtain ⟨x, hx⟩ := List.exists_mem_of_length_pos hp
          have := List.mem_filter.mp hx
          exact ⟨x, Or.inr this.1, this.2⟩
      · rcases Int.le_total (obj U i (k - 1)) (obj U j (k - 1)) with h | h
        · exact ⟨j, hj, by simp; omega⟩
        · exact ⟨i, hi, by simp; omega⟩

/-! ### ndHelperB (figure 7) -/

theorem BSpec.mono {U : Array Pt} {k : Nat} {L H : List Nat} {frt frt' : Frt} (h : BSpec U k L H frt frt')
    (x : Nat) : fr frt x ≤ fr frt' x := by
  by_cases hx : x ∈ H
  · rw [h.2.2 x hx]; omega
  · rw [h.2.1 x hx]; exact Nat.le_refl _

theorem BSpec.none {U : Array Pt} {k : Nat} {L H : List Nat} {frt : Frt} (hpos : ∀ h ∈ H, 1 ≤ fr frt h)
    (hno : ∀ h ∈ H, ∀ l ∈ L, ¬ leK U k l h) : BSpec U k L H frt frt := by
  refine ⟨rfl, fun _ _ => rfl, fun h hh => ?_⟩
  have : sup L (fun l => leK U k l h) (fr frt) = 0 :=
    sup_eq (fun l hl hp => absurd hp (hno h hh l hl)) (Or.inl rfl)
  rw [this]; have := hpos h hh; omega

theorem BSpec.congr_k {U : Array Pt} {k k' : Nat} {L H : List Nat} {frt frt' : Frt}
    (hk : ∀ l ∈ L, ∀ h ∈ H, (leK U k l h ↔ leK U k' l h)) (h : BSpec U k' L H frt frt') :
    BSpec U k L H frt frt' := by
  refine ⟨h.1, h.2.1, fun x hx => ?_⟩
  rw [h.2.2 x hx]
  congr 2
  apply sup_congr
  · intro l hl hp; exact ⟨hl, (hk l hl x hx).mpr hp, rfl⟩
  · intro l hl hp; exact ⟨hl, (hk l hl x hx).mp hp⟩

theorem mem_filter_or (S : List Nat) (lo : Nat → Bool) (x : Nat) :
    x ∈ S ↔ x ∈ S.filter lo ∨ x ∈ S.filter fun i => !lo i := by
  simp only [List.mem_filter]
  cases lo x <;> simp

theorem not_mem_filter_not {S : List Nat} {lo : Nat → Bool} {x : Nat} (h : lo x = true) :
    x ∉ S.filter fun i => !lo i := by
  intro hm; have := (List.mem_filter.mp hm).2; simp [h] at this

theorem not_mem_filter {S : List Nat} {lo : Nat → Bool} {x : Nat} (h : lo x = false) : x ∉ S.filter lo := by
  intro hm; have := (List.mem_filter.mp hm).2; simp [h] at this

/-- the three recursive calls of `ndHelperB` compose to the specification for `(L, H, k)` -/
theorem BSpec_split {U : Array Pt} {k : Nat} (hk : 1 ≤ k) {L H : List Nat} {frt frt1 frt2 frt3 : Frt}
    (lo : Nat → Bool) (hsep : ∀ i j, lo i = true → lo j = false → obj U i (k - 1) < obj U j (k - 1))
    (hdisj : ∀ h ∈ H, h ∉ L)
    (B1 : BSpec U k (L.filter lo) (H.filter lo) frt frt1)
    (B2 : BSpec U (k - 1) (L.filter lo) (H.filter fun i => !lo i) frt1 frt2)
    (B3 : BSpec U k (L.filter fun i => !lo i) (H.filter fun i => !lo i) frt2 frt3) :
    BSpec U k L H frt frt3 := by
  have hL1 : ∀ l ∈ L, fr frt1 l = fr frt l := fun l hl =>
    B1.2.1 l (fun hm => hdisj l (List.mem_filter.mp hm).1 hl)
  have hL2 : ∀ l ∈ L, fr frt2 l = fr frt l := fun l hl => by
    rw [B2.2.1 l (fun hm => hdisj l (List.mem_filter.mp hm).1 hl)]; exact hL1 l hl
  refine ⟨by rw [B3.1, B2.1, B1.1], ?_, ?_⟩
  · intro x hx
    rw [B3.2.1 x (fun hm => hx (List.mem_filter.mp hm).1), B2.2.1 x (fun hm => hx (List.mem_filter.mp hm).1),
      B1.2.1 x (fun hm => hx (List.mem_filter.mp hm).1)]
  · intro h hh
    cases hlo : lo h with
    | true =>
      have m1 : h ∈ H.filter lo := List.mem_filter.mpr ⟨hh, hlo⟩
      have m2 : h ∉ H.filter (fun i => !lo i) := not_mem_filter_not hlo
      rw [B3.2.1 h m2, B2.2.1 h m2, B1.2.2 h m1]
      congr 2
      apply sup_congr
      · intro l hl hp; exact ⟨(List.mem_filter.mp hl).1, hp, rfl⟩
      · intro l hl hp
        refine ⟨List.mem_filter.mpr ⟨hl, ?_⟩, hp⟩
        cases hll : lo l with
        | true => rfl
        | false =>
          have := hsep h l hlo hll
          have := hp (k - 1) (by omega)
          omega
    | false =>
      have m1 : h ∉ H.filter lo := not_mem_filter hlo
      have m2 : h ∈ H.filter (fun i => !lo i) := List.mem_filter.mpr ⟨hh, by simp [hlo]⟩
      rw [B3.2.2 h m2, B2.2.2 h m2, B1.2.1 h m1]
      have s1 : sup (L.filter lo) (fun l => leK U (k - 1) l h) (fr frt1) =
          sup (L.filter lo) (fun l => leK U k l h) (fr frt) := by
        apply sup_congr
        · intro l hl hp
          have hl' := List.mem_filter.mp hl
          refine ⟨hl, ?_, hL1 l hl'.1⟩
          rw [leK_pred hk]; exact ⟨hp, by have := hsep l h hl'.2 hlo; omega⟩
        · intro l hl hp
          exact ⟨hl, ((leK_pred hk l h).mp hp).1⟩
      have s2 : sup (L.filter fun i => !lo i) (fun l => leK U k l h) (fr frt2) =
          sup (L.filter fun i => !lo i) (fun l => leK U k l h) (fr frt) := by
        apply sup_congr
        · intro l hl hp; exact ⟨hl, hp, hL2 l (List.mem_filter.mp hl).1⟩
        · intro l hl hp; exact ⟨hl, hp⟩
      have s3 : sup L (fun l => leK U k l h) (fr frt) =
          max (sup (L.filter lo) (fun l => leK U k l h) (fr frt))
            (sup (L.filter fun i => !lo i) (fun l => leK U k l h) (fr frt)) :=
        sup_union (mem_filter_or L lo)
      rw [s1, s2, s3]; omega

theorem helperB_succ (U : Array Pt) (fuel : Nat) (L H : List Nat) (k : Nat) (frt : Frt) :
    helperB U (fuel + 1) L H k frt =
      if L.isEmpty || H.isEmpty then frt
      else if L.length == 1 || H.length == 1 then bruteB U L H k frt
      else if k == 2 then sweepB U L H frt
      else if maxObj U L (k - 1) ≤ minObj U H (k - 1) then helperB U fuel L H (k - 1) frt
      else if minObj U L (k - 1) ≤ maxObj U H (k - 1) then
        helperB U fuel (splitB U L H k).2.1 (splitB U L H k).2.2.2 k
          (helperB U fuel (splitB U L H k).1 (splitB U L H k).2.2.2 (k - 1)
            (helperB U fuel (splitB U L H k).1 (splitB U L H k).2.2.1 k frt))
      else frt := rfl

/-- **ndHelperB (figure 7)**: for lexicographically ordered, disjoint `L` and `H` (valid indices, front
numbers `≥ 1` in `H`) and `k ≥ 2`, with recursion budget `≥ |L| + |H| + k`: only `H` changes, and every
`h ∈ H` is raised to one plus the highest front number among the `l ∈ L` whose first `k` objectives are
`≤` those of `h`. -/
theorem helperB_spec (U : Array Pt) (m n : Nat) (hdim : ∀ i, i < n → (U.getD i []).length = m) :
    ∀ (fuel : Nat) (L H : List Nat) (k : Nat) (frt : Frt), 2 ≤ k → frt.size = n → Good U n L → Good U n H →
    (∀ h ∈ H, h ∉ L) → (∀ h ∈ H, 1 ≤ fr frt h) → L.length + H.length + k ≤ fuel →
    BSpec U k L H frt (helperB U fuel L H k frt) := by
  intro fuel
  induction fuel with
  | zero => intro L H k frt hk _ _ _ _ _ hf; omega
  | succ fuel ih =>
    intro L H k frt hk hsz hL hH hdisj hpos hfuel
    rw [helperB_succ]
    split
    · rename_i he
      apply BSpec.none hpos
      intro h hh l hl
      simp only [Bool.or_eq_true, List.isEmpty_iff] at he
      rcases he with e | e
      · rw [e] at hl; cases hl
      · rw [e] at hh; cases hh
    · rename_i hne
      have hLne : L ≠ [] := fun e => hne (by simp [e])
      have hHne : H ≠ [] := fun e => hne (by simp [e])
      split
      · exact bruteB_BSpec U L H k frt
          (fun h hh => ⟨by rw [hsz]; exact hH.lt h hh, hdisj h hh, hpos h hh⟩)
          (fun l hl h hh => by rw [hdim l (hL.lt l hl), hdim h (hH.lt h hh)])
      · split
        · rename_i hk2
          have : k = 2 := by simpa using hk2
          subst this
          exact sweepB_BSpec U L H frt (hL.sorted.imp lexI_lexLe2) (hH.sorted.imp lexI_lexLe2) hH.nodup
            (fun h hh => ⟨by rw [hsz]; exact hH.lt h hh, hpos h hh, hdisj h hh⟩)
        · rename_i hk2
          have hk3 : 3 ≤ k := by
            have : k ≠ 2 := by simpa using hk2
            omega
          split
          · rename_i hsep
            apply BSpec.congr_k _ (ih L H (k - 1) frt (by omega) hsz hL hH hdisj hpos (by omega))
            intro l hl h hh
            rw [leK_pred (by omega : 1 ≤ k)]
            have := maxObj_ge U L (k - 1) l hl
            have := minObj_le U H (k - 1) h hh
            constructor
            · exact fun h => h.1
            · exact fun h => ⟨h, by omega⟩
          · rename_i hnsep
            split
            · obtain ⟨lo, e, hs, hterm⟩ := splitB_props U L H k
              obtain ⟨⟨x, hx, hxlo⟩, ⟨y, hy, hylo⟩⟩ := hterm hLne hHne hnsep
              rw [e]; dsimp only
              have t1 : (L.filter lo).length + (H.filter lo).length < L.length + H.length := by
                have a := List.length_filter_le lo L
                have b := List.length_filter_le lo H
                rcases hy with hy | hy
                · have := filter_lt_of hy hylo; omega
                · have := filter_lt_of hy hylo; omega
              have t2 : (L.filter fun i => !lo i).length + (H.filter fun i => !lo i).length <
                  L.length + H.length := by
                have a := List.length_filter_le (fun i => !lo i) L
                have b := List.length_filter_le (fun i => !lo i) H
                rcases hx with hx | hx
                · have := filter_lt_of (p := fun i => !lo i) hx (by simp [hxlo]); omega
                · have := filter_lt_of (p := fun i => !lo i) hx (by simp [hxlo]); omega
              have t3 : (L.filter lo).length + (H.filter fun i => !lo i).length ≤ L.length + H.length := by
                have a := List.length_filter_le lo L
                have b := List.length_filter_le (fun i => !lo i) H
                omega
              have d : ∀ (p q : Nat → Bool), ∀ h ∈ H.filter q, h ∉ L.filter p := fun p q h hh hm =>
                hdisj h (List.mem_filter.mp hh).1 (List.mem_filter.mp hm).1
              have B1 := ih (L.filter lo) (H.filter lo) k frt hk hsz (hL.filter _) (hH.filter _) (d _ _)
                (fun h hh => hpos h (List.mem_filter.mp hh).1) (by omega)
              have B2 := ih (L.filter lo) (H.filter fun i => !lo i) (k - 1) _ (by omega)
                (by rw [B1.1]; exact hsz) (hL.filter _) (hH.filter _) (d _ _)
                (fun h hh => Nat.le_trans (hpos h (List.mem_filter.mp hh).1) (B1.mono h)) (by omega)
              have B3 := ih (L.filter fun i => !lo i) (H.filter fun i => !lo i) k _ hk
                (by rw [B2.1, B1.1]; exact hsz) (hL.filter _) (hH.filter _) (d _ _)
                (fun h hh => Nat.le_trans (Nat.le_trans (hpos h (List.mem_filter.mp hh).1) (B1.mono h))
                  (B2.mono h)) (by omega)
              exact BSpec_split (by omega) lo hs hdisj B1 B2 B3
            · rename_i hno
              apply BSpec.none hpos
              intro h hh l hl hle
              have := hle (k - 1) (by omega)
              have := minObj_le U L (k - 1) l hl
              have := maxObj_ge U H (k - 1) h hh
              omega

/-! ### ndHelperA (figure 2) -/

theorem ASpec.mono {U : Array Pt} {k : Nat} {S : List Nat} {frt frt' : Frt} (h : ASpec U k S frt frt')
    (x : Nat) : fr frt x ≤ fr frt' x := by
  by_cases hx : x ∈ S
  · rw [h.2.2 x hx]; omega
  · rw [h.2.1 x hx]; exact Nat.le_refl _

theorem ASpec.none {U : Array Pt} {k : Nat} {S : List Nat} {frt : Frt} (hpos : ∀ s ∈ S, 1 ≤ fr frt s)
    (hno : ∀ s ∈ S, ∀ t ∈ S, ¬ ltK U k t s) : ASpec U k S frt frt := by
  refine ⟨rfl, fun _ _ => rfl, fun s hs => ?_⟩
  have : sup S (fun t => ltK U k t s) (fr frt) = 0 :=
    sup_eq (fun t ht hp => absurd hp (hno s hs t ht)) (Or.inl rfl)
  rw [this]; have := hpos s hs; omega

theorem ASpec.congr_k {U : Array Pt} {k k' : Nat} {S : List Nat} {frt frt' : Frt}
    (hk : ∀ a ∈ S, ∀ b ∈ S, (ltK U k a b ↔ ltK U k' a b)) (h : ASpec U k' S frt frt') :
    ASpec U k S frt frt' := by
  refine ⟨h.1, h.2.1, fun x hx => ?_⟩
  rw [h.2.2 x hx]
  congr 2
  apply sup_congr
  · intro l hl hp; exact ⟨hl, (hk l hl x hx).mpr hp, rfl⟩
  · intro l hl hp; exact ⟨hl, (hk l hl x hx).mp hp⟩

/-- `ndHelperA(L, k); ndHelperB(L, H, k-1); ndHelperA(H, k)` compose to the specification for `(S, k)` -/
theorem ASpec_split {U : Array Pt} {k : Nat} (hk : 1 ≤ k) {S : List Nat} {frt frt1 frt2 frt3 : Frt}
    (lo : Nat → Bool) (hsep : ∀ i j, lo i = true → lo j = false → obj U i (k - 1) < obj U j (k - 1))
    (A1 : ASpec U k (S.filter lo) frt frt1)
    (B : BSpec U (k - 1) (S.filter lo) (S.filter fun i => !lo i) frt1 frt2)
    (A2 : ASpec U k (S.filter fun i => !lo i) frt2 frt3) : ASpec U k S frt frt3 := by
  have hLH : ∀ x, x ∈ S.filter lo → x ∉ S.filter (fun i => !lo i) := fun x h1 =>
    not_mem_filter_not (List.mem_filter.mp h1).2
  have hL3 : ∀ l ∈ S.filter lo, fr frt3 l = fr frt1 l := fun l hl => by
    rw [A2.2.1 l (hLH l hl), B.2.1 l (hLH l hl)]
  refine ⟨by rw [A2.1, B.1, A1.1], ?_, ?_⟩
  · intro x hx
    have n1 : x ∉ S.filter lo := fun hm => hx (List.mem_filter.mp hm).1
    have n2 : x ∉ S.filter (fun i => !lo i) := fun hm => hx (List.mem_filter.mp hm).1
    rw [A2.2.1 x n2, B.2.1 x n2, A1.2.1 x n1]
  · intro s hs
    cases hlo : lo s with
    | true =>
      have m1 : s ∈ S.filter lo := List.mem_filter.mpr ⟨hs, hlo⟩
      rw [hL3 s m1, A1.2.2 s m1]
      congr 2
      apply sup_congr
      · intro t ht hp; exact ⟨(List.mem_filter.mp ht).1, hp, (hL3 t ht).symm⟩
      · intro t ht hp
        refine ⟨List.mem_filter.mpr ⟨ht, ?_⟩, hp⟩
        cases hlt : lo t with
        | true => rfl
        | false =>
          have := hsep s t hlo hlt
          have := hp.1 (k - 1) (by omega)
          omega
    | false =>
      have m1 : s ∉ S.filter lo := not_mem_filter hlo
      have m2 : s ∈ S.filter (fun i => !lo i) := List.mem_filter.mpr ⟨hs, by simp [hlo]⟩
      rw [A2.2.2 s m2, B.2.2 s m2, A1.2.1 s m1]
      have s1 : sup (S.filter lo) (fun l => leK U (k - 1) l s) (fr frt1) =
          sup (S.filter lo) (fun t => ltK U k t s) (fr frt3) := by
        apply sup_congr
        · intro l hl hp
          have hl' := List.mem_filter.mp hl
          have := hsep l s hl'.2 hlo
          refine ⟨hl, ⟨(leK_pred hk l s).mpr ⟨hp, by omega⟩, fun h' => ?_⟩, (hL3 l hl).symm⟩
          have := h' (k - 1) (by omega)
          omega
        · intro l hl hp; exact ⟨hl, ((leK_pred hk l s).mp hp.1).1⟩
      have s3 : sup S (fun t => ltK U k t s) (fr frt3) =
          max (sup (S.filter lo) (fun t => ltK U k t s) (fr frt3))
            (sup (S.filter fun i => !lo i) (fun t => ltK U k t s) (fr frt3)) :=
        sup_union (mem_filter_or S lo)
      rw [s1, s3]; omega

theorem helperA_succ3 (U : Array Pt) (fuel s0 s1 s2 : Nat) (rest : List Nat) (k : Nat) (frt : Frt) :
    helperA U (fuel + 1) (s0 :: s1 :: s2 :: rest) k frt =
      if k == 2 then sweepA U (s0 :: s1 :: s2 :: rest) frt
      else if (s0 :: s1 :: s2 :: rest).all fun i => obj U i (k - 1) == obj U s0 (k - 1) then
        helperA U fuel (s0 :: s1 :: s2 :: rest) (k - 1) frt
      else
        helperA U fuel (splitA U (s0 :: s1 :: s2 :: rest) k).2 k
          (helperB U fuel (splitA U (s0 :: s1 :: s2 :: rest) k).1 (splitA U (s0 :: s1 :: s2 :: rest) k).2 (k - 1)
            (helperA U fuel (splitA U (s0 :: s1 :: s2 :: rest) k).1 k frt)) := rfl

/-- **ndHelperA (figure 2)**: for a lexicographically ordered list `S` of points that agree in every
objective from the `k`-th on (`k ≥ 2`, valid indices, front numbers `≥ 1`), with recursion budget
`≥ |S| + k`: only `S` changes, and every `s ∈ S` is raised to one plus the highest final front number
among the `t ∈ S` dominating `s`. -/
theorem helperA_spec (U : Array Pt) (m n : Nat) (hdim : ∀ i, i < n → (U.getD i []).length = m) :
    ∀ (fuel : Nat) (S : List Nat) (k : Nat) (frt : Frt), 2 ≤ k → frt.size = n → Good U n S →
    (∀ s ∈ S, 1 ≤ fr frt s) → (∀ a ∈ S, ∀ b ∈ S, ∀ c, k ≤ c → obj U a c = obj U b c) →
    S.length + k ≤ fuel → ASpec U k S frt (helperA U fuel S k frt) := by
  intro fuel
  induction fuel with
  | zero => intro S k frt hk _ _ _ _ hf; omega
  | succ fuel ih =>
    intro S k frt hk hsz hS hpos hag hfuel
    match S, hS, hpos, hag, hfuel with
    | [], _, hpos, _, _ => exact ASpec.none hpos (fun _ hs => nomatch hs)
    | [a], _, hpos, _, _ =>
      refine ASpec.none (frt := frt) hpos ?_
      intro s hs t ht
      have e1 : s = a := by simpa using hs
      have e2 : t = a := by simpa using ht
      rw [e1, e2]; exact ltK_irrefl U k a
    | [a, b], hS, hpos, _, _ =>
      have hp := List.pairwise_cons.mp hS.sorted
      have hab : lexI U a b := hp.1 b (by simp)
      exact pair_ASpec U fuel a b k frt (fun e => lexI_irrefl U b (by rw [e] at hab; exact hab))
        (by rw [hsz]; exact hS.lt b (by simp)) (hpos a (by simp)) (hpos b (by simp))
        (by rw [hdim a (hS.lt a (by simp)), hdim b (hS.lt b (by simp))]) (lexI_not_ltK k hab)
    | s0 :: s1 :: s2 :: rest, hS, hpos, hag, hfuel =>
      rw [helperA_succ3]
      generalize hSdef : s0 :: s1 :: s2 :: rest = S at *
      have hs0 : s0 ∈ S := by rw [← hSdef]; simp
      split
      · rename_i hk2
        have : k = 2 := by simpa using hk2
        subst this
        refine sweepA_ASpec U S frt ?_ (fun s hs => ⟨by rw [hsz]; exact hS.lt s hs, hpos s hs⟩)
        exact hS.sorted.imp_of_mem (fun {a b} ha hb hab => lexI_lexLt2 hab (hag a ha b hb))
      · rename_i hk2
        have hk3 : 3 ≤ k := by
          have : k ≠ 2 := by simpa using hk2
          omega
        split
        · rename_i hall
          have hall' : ∀ i ∈ S, obj U i (k - 1) = obj U s0 (k - 1) := by
            intro i hi
            have := List.all_eq_true.mp hall i hi
            simpa using this
          apply ASpec.congr_k _ (ih S (k - 1) frt (by omega) hsz hS hpos
            (fun a ha b hb c hc => by
              by_cases e : c = k - 1
              · rw [e, hall' a ha, hall' b hb]
              · exact hag a ha b hb c (by omega)) (by omega))
          intro a ha b hb
          have e : obj U a (k - 1) = obj U b (k - 1) := by rw [hall' a ha, hall' b hb]
          unfold ltK
          rw [leK_pred (by omega : 1 ≤ k) a b, leK_pred (by omega : 1 ≤ k) b a]
          constructor
          · rintro ⟨h1, h2⟩; exact ⟨h1.1, fun h3 => h2 ⟨h3, by omega⟩⟩
          · rintro ⟨h1, h2⟩; exact ⟨⟨h1, by omega⟩, fun h3 => h2 h3.1⟩
        · rename_i hnall
          have hex : ∃ x ∈ S, ∃ y ∈ S, obj U x (k - 1) ≠ obj U y (k - 1) := by
            by_cases hh : ∀ i ∈ S, obj U i (k - 1) = obj U s0 (k - 1)
            · exfalso; apply hnall
              rw [List.all_eq_true]
              intro i hi; simpa using hh i hi
            · have : ∃ i, i ∈ S ∧ obj U i (k - 1) ≠ obj U s0 (k - 1) := by
                apply Classical.byContradiction
                intro hne
                apply hh
                intro i hi
                apply Classical.byContradiction
                intro hne'
                exact hne ⟨i, hi, hne'⟩
              obtain ⟨i, hi, hne⟩ := this
              exact ⟨i, hi, s0, hs0, hne⟩
          obtain ⟨lo, e, hs, hterm⟩ := splitA_props U S k
          obtain ⟨⟨x, hx, hxlo⟩, ⟨y, hy, hylo⟩⟩ := hterm hex
          rw [e]; dsimp only
          have t0 := length_filter_add S lo
          have t1 : (S.filter lo).length < S.length := filter_lt_of hy hylo
          have t2 : (S.filter fun i => !lo i).length < S.length :=
            filter_lt_of (p := fun i => !lo i) hx (by simp [hxlo])
          have hagf : ∀ (p : Nat → Bool), ∀ a ∈ S.filter p, ∀ b ∈ S.filter p, ∀ c, k ≤ c →
              obj U a c = obj U b c := fun p a ha b hb =>
            hag a (List.mem_filter.mp ha).1 b (List.mem_filter.mp hb).1
          have A1 := ih (S.filter lo) k frt hk hsz (hS.filter _)
            (fun s hs => hpos s (List.mem_filter.mp hs).1) (hagf _) (by omega)
          have B := helperB_spec U m n hdim fuel (S.filter lo) (S.filter fun i => !lo i) (k - 1) _ (by omega)
            (by rw [A1.1]; exact hsz) (hS.filter _) (hS.filter _)
            (fun h hh hm => not_mem_filter_not (List.mem_filter.mp hm).2 hh)
            (fun h hh => Nat.le_trans (hpos h (List.mem_filter.mp hh).1) (A1.mono h)) (by omega)
          have A2 := ih (S.filter fun i => !lo i) k _ hk (by rw [B.1, A1.1]; exact hsz) (hS.filter _)
            (fun s hs => Nat.le_trans (Nat.le_trans (hpos s (List.mem_filter.mp hs).1) (A1.mono s)) (B.mono s))
            (hagf _) (by omega)
          exact ASpec_split (by omega) lo hs A1 B A2

/-! ### the front numbers of the distinct points are the ranks -/

theorem toArray_getD (U : List Pt) (j : Nat) : U.toArray.getD j [] = pt U j := by
  simp [pt, Array.getD_eq_getD_getElem?, List.getD_eq_getElem?_getD]

theorem leK_iff_leAll {U : List Pt} {m : Nat} (hd : ∀ p ∈ U, p.length = m) {i j : Nat}
    (hi : i < U.length) (hj : j < U.length) :
    leK U.toArray m j i ↔ leAll (pt U j) (pt U i) = true := by
  have h1 := hd _ (pt_mem U hi)
  have h2 := hd _ (pt_mem U hj)
  rw [leAll_iff _ _ (by rw [h1, h2]), h2]
  unfold leK obj
  rw [toArray_getD, toArray_getD]

theorem ltK_iff_dominates {U : List Pt} {m : Nat} (hd : ∀ p ∈ U, p.length = m) {i j : Nat}
    (hi : i < U.length) (hj : j < U.length) :
    ltK U.toArray m j i ↔ dominates (pt U j) (pt U i) = true := by
  unfold ltK dominates
  rw [leK_iff_leAll hd hi hj, leK_iff_leAll hd hj hi]
  simp

/-- a front array that solves the rank equation on the indices of `U` holds the ranks -/
theorem fronts_eq_rankSpec (U : List Pt) (m : Nat) (hd : ∀ p ∈ U, p.length = m) (frt' : Frt)
    (heq : ∀ i, i < U.length →
      fr frt' i = 1 + sup (List.range U.length) (fun j => ltK U.toArray m j i) (fr frt')) :
    ∀ i, i < U.length → fr frt' i = rankSpec U (pt U i) := by
  suffices H : ∀ c, ∀ i, i < U.length → (U.countP fun q => dominates q (pt U i)) = c →
      fr frt' i = rankSpec U (pt U i) by
    intro i hi; exact H _ i hi rfl
  intro c
  induction c using Nat.strongRecOn with
  | _ c ih =>
    intro i hi hc
    have IH : ∀ j, j < U.length → dominates (pt U j) (pt U i) = true →
        fr frt' j = rankSpec U (pt U j) := by
      intro j hj hdom
      have hlt : (U.countP fun x => dominates x (pt U j)) < U.countP fun x => dominates x (pt U i) :=
        countP_lt_of_imp U (fun x => dominates x (pt U j)) (fun x => dominates x (pt U i))
          (fun x hx => dominates_trans hx hdom) (pt U j) (pt_mem U hj) hdom (by simp [dominates_irrefl])
      exact ih _ (by omega) j hj rfl
    rw [heq i hi, rankSpec_eq U (pt U i)]
    congr 1
    symm
    apply foldl_max_eq
    · intro x hx
      obtain ⟨q, hq, e⟩ := List.mem_map.mp hx
      obtain ⟨hqU, hdom⟩ := List.mem_filter.mp hq
      obtain ⟨j, hj, ej⟩ := exists_index hqU
      rw [← ej] at hdom e
      rw [← e, ← IH j hj hdom]
      exact sup_ge (List.mem_range.mpr hj) ((ltK_iff_dominates hd hi hj).mpr hdom)
    · rcases sup_cases (List.range U.length) (fun j => ltK U.toArray m j i) (fr frt') with h0 | ⟨j, hj, hp, e⟩
      · exact Or.inl h0
      · right
        have hj' := List.mem_range.mp hj
        have hdom := (ltK_iff_dominates hd hi hj').mp hp
        rw [e, IH j hj' hdom]
        exact List.mem_map.mpr ⟨pt U j, List.mem_filter.mpr ⟨pt_mem U hj', hdom⟩, rfl⟩

/-- **ndHelperA on the distinct, lexicographically sorted points**: the front number of the `i`-th
point after `ndHelperA(S, m)` (all front numbers initially 1) is its non-domination rank. -/
theorem dcFronts_eq_rankSpec (U : List Pt) (m : Nat) (hm : 2 ≤ m) (hd : ∀ p ∈ U, p.length = m)
    (hsorted : U.Pairwise (fun a b => lexLt a b = true)) :
    ∀ i, i < U.length → fr (dcFronts U m) i = rankSpec U (U.getD i []) := by
  have hdim : ∀ i, i < U.length → (U.toArray.getD i []).length = m := by
    intro i hi; rw [toArray_getD]; exact hd _ (pt_mem U hi)
  have hgood : Good U.toArray U.length (List.range U.length) := by
    refine ⟨?_, fun s hs => List.mem_range.mp hs⟩
    refine (List.pairwise_lt_range (n := U.length)).imp_of_mem ?_
    intro a b ha hb hab
    have ha' := List.mem_range.mp ha
    have hb' := List.mem_range.mp hb
    unfold lexI
    rw [toArray_getD, toArray_getD, pt_eq U ha', pt_eq U hb']
    exact List.pairwise_iff_getElem.mp hsorted a b ha' hb' hab
  have hfr1 : ∀ s, s < U.length → fr (Array.replicate U.length 1) s = 1 := by
    intro s hs
    simp [fr, Array.getD_eq_getD_getElem?, hs]
  have hA := helperA_spec U.toArray m U.length hdim (dcFuel U.length m) (List.range U.length) m
    (Array.replicate U.length 1) hm (by simp) hgood
    (fun s hs => by rw [hfr1 s (List.mem_range.mp hs)]; exact Nat.le_refl 1)
    (fun a ha b hb c hc => by
      unfold obj
      rw [getD_oob _ c (by rw [hdim a (List.mem_range.mp ha)]; exact hc),
        getD_oob _ c (by rw [hdim b (List.mem_range.mp hb)]; exact hc)])
    (by unfold dcFuel; simp)
  intro i hi
  refine fronts_eq_rankSpec U m hd (dcFronts U m) ?_ i hi
  intro j hj
  have := hA.2.2 j (List.mem_range.mpr hj)
  rw [hfr1 j hj] at this
  unfold dcFronts
  rw [this]; omega

end SharkVerif.DC
