/-
C17: the kd-tree construction `buildKD` / `kdTree`: termination (fuel is never exhausted), every point
lies in the cell of its leaf, leaves are non-empty, bucket size 1 leaves hold copies of one point; the
cell lower bound `kdBound` is admissible; `adoptKD` keeps all of this.
-/
import SharkVerif.Lemmas.Split
namespace SharkVerif.NN

/-! ## Definitions -/

/-- point `i` lies in the kd cell `b` -/
def InBox (P : Nat → Point) (b : Box) (i : Nat) : Prop :=
  ∀ d, (∀ l, b.lo d = some l → l ≤ coord (P i) d) ∧ (∀ u, b.hi d = some u → coord (P i) d ≤ u)

/-- every point stored below a node lies in the node's cell (cells of children = `Box.left/right`) -/
def STree.InBoxes (P : Nat → Point) : Box → STree → Prop
  | b, .leaf _ ix => ∀ i ∈ ix, InBox P b i
  | b, .node _ cd thr l r => STree.InBoxes P (b.left cd thr) l ∧ STree.InBoxes P (b.right cd thr) r

/-- all points of a leaf agree in the first `dim` coordinates -/
def STree.LeafSame (P : Nat → Point) (dim : Nat) : STree → Prop
  | .leaf _ ix => ∀ i ∈ ix, ∀ j ∈ ix, ∀ d, d < dim → coord (P i) d = coord (P j) d
  | .node _ _ _ l r => STree.LeafSame P dim l ∧ STree.LeafSame P dim r

def STree.LeavesNE : STree → Prop
  | .leaf _ ix => ix ≠ []
  | .node _ _ _ l r => STree.LeavesNE l ∧ STree.LeavesNE r

/-- same shape, cut dimensions and thresholds; leaf index lists are permutations of each other -/
def SameCells : STree → STree → Prop
  | .leaf _ ix, .leaf _ ix' => ix.Perm ix'
  | .node _ cd thr l r, .node _ cd' thr' l' r' => cd = cd' ∧ thr = thr' ∧ SameCells l l' ∧ SameCells r r'
  | _, _ => False

/-! ## `calculateCuttingDimension` -/

theorem foldl_min_mem (f : Nat → Rat) : ∀ (xs : List Nat) (m : Rat),
    xs.foldl (fun m i => if f i < m then f i else m) m = m ∨
    ∃ i ∈ xs, xs.foldl (fun m i => if f i < m then f i else m) m = f i
  | [], m => Or.inl rfl
  | x :: xs, m => by
    simp only [List.foldl_cons]
    rcases foldl_min_mem f xs (if f x < m then f x else m) with h | ⟨i, hi, h⟩
    · by_cases c : f x < m
      · simp only [c, if_true] at h ⊢
        exact Or.inr ⟨x, List.mem_cons_self .., h⟩
      · simp only [c, if_false] at h ⊢
        exact Or.inl h
    · exact Or.inr ⟨i, List.mem_cons_of_mem _ hi, h⟩

/-- the minimum over a non-empty list is attained -/
theorem minOver_mem (f : Nat → Rat) (l : List Nat) (h : l ≠ []) : ∃ i ∈ l, minOver f l = f i := by
  cases l with
  | nil => exact absurd rfl h
  | cons x xs =>
    simp only [minOver]
    rcases foldl_min_mem f xs (f x) with e | ⟨i, hi, e⟩
    · exact ⟨x, List.mem_cons_self .., e⟩
    · exact ⟨i, List.mem_cons_of_mem _ hi, e⟩

/-- bounding-box extent of the cell in dimension `d` -/
def cutExt (P : Nat → Point) (idx : List Nat) (d : Nat) : Rat :=
  maxOver (fun i => coord (P i) d) idx - minOver (fun i => coord (P i) d) idx

/-- the fold of `calcCutDim`: (first dimension of maximal extent, that extent) -/
def cutRes (P : Nat → Point) (dim : Nat) (idx : List Nat) : Nat × Rat :=
  (List.range dim).foldl
    (fun (acc : Nat × Rat) d => if acc.2 < cutExt P idx d then (d, cutExt P idx d) else acc)
    (0, cutExt P idx 0)

theorem calcCutDim_eq (P : Nat → Point) (dim : Nat) (idx : List Nat) :
    calcCutDim P dim idx = if (cutRes P dim idx).2 = 0 then dim else (cutRes P dim idx).1 := rfl

/-- the second component of the fold is the extent of the first -/
theorem cutFold_snd (ext : Nat → Rat) : ∀ (ds : List Nat) (acc : Nat × Rat), acc.2 = ext acc.1 →
    (ds.foldl (fun (acc : Nat × Rat) d => if acc.2 < ext d then (d, ext d) else acc) acc).2 =
    ext (ds.foldl (fun (acc : Nat × Rat) d => if acc.2 < ext d then (d, ext d) else acc) acc).1
  | [], _, h => h
  | x :: xs, acc, h => by
    simp only [List.foldl_cons]
    apply cutFold_snd ext xs
    split
    · rfl
    · exact h

theorem cutRes_snd (P : Nat → Point) (dim : Nat) (idx : List Nat) :
    (cutRes P dim idx).2 = cutExt P idx (cutRes P dim idx).1 :=
  cutFold_snd (cutExt P idx) (List.range dim) (0, cutExt P idx 0) rfl

theorem cutRes_fst (P : Nat → Point) (dim : Nat) (idx : List Nat) (hdim : 0 < dim) :
    (cutRes P dim idx).1 < dim := by
  rcases (cutFold_spec (cutExt P idx) (List.range dim) (0, cutExt P idx 0)).2.2 with h | h
  · have : (cutRes P dim idx).1 = 0 := h
    omega
  · exact List.mem_range.mp h

theorem cutRes_ge (P : Nat → Point) (dim : Nat) (idx : List Nat) (d : Nat) (hd : d < dim) :
    cutExt P idx d ≤ (cutRes P dim idx).2 :=
  (cutFold_spec (cutExt P idx) (List.range dim) (0, cutExt P idx 0)).2.1 d (List.mem_range.mpr hd)

theorem calcCutDim_le {P : Nat → Point} {dim : Nat} {idx : List Nat} (hdim : 0 < dim) :
    calcCutDim P dim idx ≤ dim := by
  rw [calcCutDim_eq]
  split
  · exact Nat.le_refl _
  · exact Nat.le_of_lt (cutRes_fst P dim idx hdim)

/-- positive extent: two points of the cell differ in the cut dimension -/
theorem calcCutDim_extent {P : Nat → Point} {dim : Nat} {idx : List Nat} (_hdim : 0 < dim)
    (h : calcCutDim P dim idx < dim) :
    ∃ i ∈ idx, ∃ j ∈ idx,
      coord (P i) (calcCutDim P dim idx) ≠ coord (P j) (calcCutDim P dim idx) := by
  have e := calcCutDim_eq P dim idx
  by_cases hz : (cutRes P dim idx).2 = 0
  · rw [if_pos hz] at e; omega
  · rw [if_neg hz] at e
    rw [e]
    have hs := cutRes_snd P dim idx
    rw [hs] at hz
    generalize (cutRes P dim idx).1 = cd at hz
    have hne : idx ≠ [] := by
      intro e0; subst e0
      exact hz (by simp only [cutExt, maxOver, minOver]; grind)
    obtain ⟨i, hi, hmax⟩ := maxOver_mem (fun i => coord (P i) cd) idx hne
    obtain ⟨j, hj, hmin⟩ := minOver_mem (fun i => coord (P i) cd) idx hne
    refine ⟨i, hi, j, hj, ?_⟩
    intro heq
    apply hz
    unfold cutExt
    rw [hmax, hmin]
    grind

/-- "unsplittable" is answered only for a cell whose points agree in every coordinate
(`calcCutDim_dim_uniform` of `Props/C17.lean`) -/
theorem calcCutDim_eq_dim {P : Nat → Point} {dim : Nat} {idx : List Nat} (hdim : 0 < dim)
    (h : calcCutDim P dim idx = dim) :
    ∀ i ∈ idx, ∀ j ∈ idx, ∀ d, d < dim → coord (P i) d = coord (P j) d := by
  intro i hi j hj d hd
  rw [calcCutDim_eq] at h
  split at h
  · rename_i hz
    have hd' := cutRes_ge P dim idx d hd
    rw [hz] at hd'
    unfold cutExt at hd'
    have a1 := le_maxOver (fun i => coord (P i) d) idx i hi
    have a2 := minOver_le (fun i => coord (P i) d) idx i hi
    have b1 := le_maxOver (fun i => coord (P i) d) idx j hj
    have b2 := minOver_le (fun i => coord (P i) d) idx j hj
    grind
  · have := cutRes_fst P dim idx hdim
    omega

/-! ## `buildKD`: one unfolding step -/

theorem nextDepth_ne_zero (d : Nat) : nextDepth d ≠ 0 := by
  unfold nextDepth normDepth
  split <;> omega

theorem normDepth_ne_zero (d : Nat) : normDepth d ≠ 0 := by
  unfold normDepth
  split <;> omega

theorem normBucket_pos (b : Nat) : 1 ≤ normBucket b := by
  unfold normBucket
  split <;> omega

theorem buildKD_leaf_of_le (P : Nat → Point) (dim bucket fuel depth : Nat) (idx : List Nat)
    (h : depth = 0 ∨ idx.length ≤ bucket) : buildKD P dim bucket fuel depth idx = .leaf 0 idx := by
  cases fuel with
  | zero => rfl
  | succ f => simp only [buildKD, h, if_true]

theorem buildKD_leaf_of_dim (P : Nat → Point) (dim bucket fuel depth : Nat) (idx : List Nat)
    (h : calcCutDim P dim idx = dim) : buildKD P dim bucket fuel depth idx = .leaf 0 idx := by
  cases fuel with
  | zero => rfl
  | succ f =>
    simp only [buildKD, h, if_true]
    split <;> rfl

theorem buildKD_leaf_of_none (P : Nat → Point) (dim bucket fuel depth : Nat) (idx : List Nat)
    (h : splitList (fun i => coord (P i) (calcCutDim P dim idx)) idx = none) :
    buildKD P dim bucket fuel depth idx = .leaf 0 idx := by
  cases fuel with
  | zero => rfl
  | succ f =>
    simp only [buildKD, h]
    split
    · rfl
    · split <;> rfl

theorem buildKD_node (P : Nat → Point) (dim bucket fuel depth : Nat) (idx : List Nat) (s : Split)
    (h1 : ¬ (depth = 0 ∨ idx.length ≤ bucket)) (h2 : calcCutDim P dim idx ≠ dim)
    (h3 : splitList (fun i => coord (P i) (calcCutDim P dim idx)) idx = some s) :
    buildKD P dim bucket (fuel + 1) depth idx =
      .node 0 (calcCutDim P dim idx) s.thr
        (buildKD P dim bucket fuel (nextDepth depth) s.left)
        (buildKD P dim bucket fuel (nextDepth depth) s.right) := by
  simp only [buildKD, h1, h2, h3, if_false]

/-- case analysis of one construction step -/
theorem buildKD_cases (P : Nat → Point) (dim bucket fuel depth : Nat) (idx : List Nat) :
    buildKD P dim bucket (fuel + 1) depth idx = .leaf 0 idx ∧
      ((depth = 0 ∨ idx.length ≤ bucket) ∨ calcCutDim P dim idx = dim ∨
        splitList (fun i => coord (P i) (calcCutDim P dim idx)) idx = none) ∨
    ∃ s, ¬ (depth = 0 ∨ idx.length ≤ bucket) ∧ calcCutDim P dim idx ≠ dim ∧
      splitList (fun i => coord (P i) (calcCutDim P dim idx)) idx = some s ∧
      buildKD P dim bucket (fuel + 1) depth idx =
        .node 0 (calcCutDim P dim idx) s.thr
          (buildKD P dim bucket fuel (nextDepth depth) s.left)
          (buildKD P dim bucket fuel (nextDepth depth) s.right) := by
  by_cases h1 : depth = 0 ∨ idx.length ≤ bucket
  · exact Or.inl ⟨buildKD_leaf_of_le P dim bucket _ depth idx h1, Or.inl h1⟩
  · by_cases h2 : calcCutDim P dim idx = dim
    · exact Or.inl ⟨buildKD_leaf_of_dim P dim bucket _ depth idx h2, Or.inr (Or.inl h2)⟩
    · cases h3 : splitList (fun i => coord (P i) (calcCutDim P dim idx)) idx with
      | none => exact Or.inl ⟨buildKD_leaf_of_none P dim bucket _ depth idx h3, Or.inr (Or.inr rfl)⟩
      | some s => exact Or.inr ⟨s, h1, h2, rfl, buildKD_node P dim bucket fuel depth idx s h1 h2 h3⟩

/-! ## Termination: the fuel is never exhausted -/

theorem buildKD_fuel (P : Nat → Point) (dim bucket : Nat) (hb : 1 ≤ bucket) :
    ∀ (f1 f2 depth : Nat) (idx : List Nat), idx.length ≤ f1 → idx.length ≤ f2 →
      buildKD P dim bucket f1 depth idx = buildKD P dim bucket f2 depth idx
  | 0, f2, depth, idx, h1, _ => by
    rw [buildKD_leaf_of_le P dim bucket 0 depth idx (Or.inr (by omega)),
      buildKD_leaf_of_le P dim bucket f2 depth idx (Or.inr (by omega))]
  | f1 + 1, 0, depth, idx, _, h2 => by
    rw [buildKD_leaf_of_le P dim bucket (f1 + 1) depth idx (Or.inr (by omega)),
      buildKD_leaf_of_le P dim bucket 0 depth idx (Or.inr (by omega))]
  | f1 + 1, f2 + 1, depth, idx, h1, h2 => by
    rcases buildKD_cases P dim bucket f1 depth idx with ⟨e, c⟩ | ⟨s, c1, c2, c3, _⟩
    · rw [e]
      rcases c with c | c | c
      · rw [buildKD_leaf_of_le _ _ _ _ _ _ c]
      · rw [buildKD_leaf_of_dim _ _ _ _ _ _ c]
      · rw [buildKD_leaf_of_none _ _ _ _ _ _ c]
    · have hn : 2 ≤ idx.length := by omega
      obtain ⟨l1, l2⟩ := splitList_length_lt hn c3
      rw [buildKD_node P dim bucket f1 depth idx s c1 c2 c3,
        buildKD_node P dim bucket f2 depth idx s c1 c2 c3,
        buildKD_fuel P dim bucket hb f1 f2 _ s.left (by omega) (by omega),
        buildKD_fuel P dim bucket hb f1 f2 _ s.right (by omega) (by omega)]

/-! ## Every point lies in the cell of its leaf -/

theorem inBox_left {P : Nat → Point} {b : Box} {i : Nat} {cd : Nat} {thr : Rat} (h : InBox P b i)
    (hc : coord (P i) cd ≤ thr) : InBox P (b.left cd thr) i := by
  intro d
  refine ⟨(h d).1, ?_⟩
  intro u hu
  simp only [Box.left] at hu
  split at hu
  · rename_i e; subst e
    cases hu; exact hc
  · exact (h d).2 u hu

theorem inBox_right {P : Nat → Point} {b : Box} {i : Nat} {cd : Nat} {thr : Rat} (h : InBox P b i)
    (hc : thr ≤ coord (P i) cd) : InBox P (b.right cd thr) i := by
  intro d
  refine ⟨?_, (h d).2⟩
  intro l hl
  simp only [Box.right] at hl
  split at hl
  · rename_i e; subst e
    cases hl; exact hc
  · exact (h d).1 l hl

theorem buildKD_inBoxes {P : Nat → Point} {dim bucket : Nat} (hb : 1 ≤ bucket) (hdim : 0 < dim) :
    ∀ (fuel depth : Nat) (idx : List Nat) (b : Box), (∀ i ∈ idx, InBox P b i) →
      (buildKD P dim bucket fuel depth idx).InBoxes P b
  | 0, _, idx, b, h => by
    simp only [buildKD, STree.InBoxes]; exact h
  | fuel + 1, depth, idx, b, h => by
    rcases buildKD_cases P dim bucket fuel depth idx with ⟨e, _⟩ | ⟨s, c1, _, c3, e⟩
    · rw [e]; simp only [STree.InBoxes]; exact h
    · rw [e]
      simp only [STree.InBoxes]
      have hn : 2 ≤ idx.length := by omega
      obtain ⟨m1, m2⟩ := splitList_mem c3
      obtain ⟨s1, s2⟩ := splitList_sep hn c3
      refine ⟨buildKD_inBoxes hb hdim fuel _ s.left _ ?_, buildKD_inBoxes hb hdim fuel _ s.right _ ?_⟩
      · intro i hi
        exact inBox_left (h i (m1 i hi)) (Rat.le_of_lt (s1 i hi))
      · intro i hi
        exact inBox_right (h i (m2 i hi)) (Rat.le_of_lt (s2 i hi))

/-! ## Leaves are non-empty -/

theorem buildKD_leavesNE {P : Nat → Point} {dim bucket : Nat} :
    ∀ (fuel depth : Nat) (idx : List Nat), idx ≠ [] → 1 ≤ bucket →
      (buildKD P dim bucket fuel depth idx).LeavesNE
  | 0, _, idx, h, _ => by
    simp only [buildKD, STree.LeavesNE]; exact h
  | fuel + 1, depth, idx, h, hb => by
    rcases buildKD_cases P dim bucket fuel depth idx with ⟨e, _⟩ | ⟨s, c1, _, c3, e⟩
    · rw [e]; simp only [STree.LeavesNE]; exact h
    · rw [e]
      simp only [STree.LeavesNE]
      have hn : 2 ≤ idx.length := by omega
      obtain ⟨n1, n2⟩ := splitList_nonempty hn c3
      exact ⟨buildKD_leavesNE fuel _ s.left n1 hb, buildKD_leavesNE fuel _ s.right n2 hb⟩

/-! ## Bucket size 1: a leaf holds copies of one point -/

theorem buildKD_leafSame {P : Nat → Point} {dim : Nat} (hdim : 0 < dim) :
    ∀ (fuel depth : Nat) (idx : List Nat), idx.length ≤ fuel → depth ≠ 0 →
      (buildKD P dim 1 fuel depth idx).LeafSame P dim
  | 0, _, idx, h, _ => by
    simp only [buildKD, STree.LeafSame]
    intro i hi
    have : idx = [] := List.eq_nil_of_length_eq_zero (by omega)
    subst this
    simp at hi
  | fuel + 1, depth, idx, h, hd => by
    rcases buildKD_cases P dim 1 fuel depth idx with ⟨e, c⟩ | ⟨s, c1, _, c3, e⟩
    · rw [e]
      simp only [STree.LeafSame]
      rcases c with c | c | c
      · -- at most one point
        have hl : idx.length ≤ 1 := by omega
        intro i hi j hj d _
        match idx, hl, hi, hj with
        | [x], _, hi, hj =>
          simp only [List.mem_singleton] at hi hj
          rw [hi, hj]
      · exact calcCutDim_eq_dim hdim c
      · -- not reachable: positive extent, so `splitList` cannot fail
        by_cases hl : idx.length ≤ 1
        · intro i hi j hj d _
          match idx, hl, hi, hj with
          | [x], _, hi, hj =>
            simp only [List.mem_singleton] at hi hj
            rw [hi, hj]
        · by_cases hc : calcCutDim P dim idx = dim
          · exact calcCutDim_eq_dim hdim hc
          · have hlt : calcCutDim P dim idx < dim := by
              have := calcCutDim_le (P := P) (idx := idx) hdim
              omega
            obtain ⟨i, hi, j, hj, hne⟩ := calcCutDim_extent hdim hlt
            exact absurd ((splitList_none_iff (by omega)).mp c i hi j hj) hne
    · rw [e]
      simp only [STree.LeafSame]
      have hn : 2 ≤ idx.length := by omega
      obtain ⟨l1, l2⟩ := splitList_length_lt hn c3
      exact ⟨buildKD_leafSame hdim fuel _ s.left (by omega) (nextDepth_ne_zero _),
        buildKD_leafSame hdim fuel _ s.right (by omega) (nextDepth_ne_zero _)⟩

/-! ## `kdTree` -/

theorem inBox_top (P : Nat → Point) (i : Nat) : InBox P Box.top i := by
  intro d
  constructor <;> intro x hx <;> simp [Box.top] at hx

theorem kdTree_inBoxes {P : Nat → Point} {dim n maxDepth maxBucket : Nat} (hdim : 0 < dim) :
    (kdTree P dim n maxDepth maxBucket).InBoxes P Box.top :=
  buildKD_inBoxes (normBucket_pos _) hdim _ _ _ _ (fun i _ => inBox_top P i)

theorem kdTree_leavesNE {P : Nat → Point} {dim n maxDepth maxBucket : Nat} (hn : 0 < n) :
    (kdTree P dim n maxDepth maxBucket).LeavesNE := by
  apply buildKD_leavesNE _ _ _ _ (normBucket_pos _)
  intro e
  have := congrArg List.length e
  simp at this
  omega

theorem kdTree_leafSame {P : Nat → Point} {dim n maxDepth maxBucket : Nat} (hdim : 0 < dim)
    (hb : maxBucket ≤ 1) : (kdTree P dim n maxDepth maxBucket).LeafSame P dim := by
  have e : normBucket maxBucket = 1 := by
    unfold normBucket; split <;> omega
  unfold kdTree
  rw [e]
  exact buildKD_leafSame hdim _ _ _ (by simp) (normDepth_ne_zero _)

/-! ## `adoptKD` and transfer along `SameCells` -/

theorem adoptKD_sameCells : ∀ {m r t : STree}, adoptKD m r = some t → SameCells m t
  | .leaf _ ix, .leaf rk ix', t, h => by
    simp only [adoptKD] at h
    split at h
    · rename_i hp
      cases h
      simp only [SameCells]
      exact List.isPerm_iff.mp hp
    · cases h
  | .node _ cd thr l r, .node rk cd' thr' l' r', t, h => by
    simp only [adoptKD] at h
    split at h
    · split at h
      · rename_i a b ha hb
        cases h
        simp only [SameCells, true_and]
        exact ⟨adoptKD_sameCells ha, adoptKD_sameCells hb⟩
      · cases h
    · cases h
  | .leaf .., .node .., _, h => by simp [adoptKD] at h
  | .node .., .leaf .., _, h => by simp [adoptKD] at h

theorem SameCells.inBoxes {P : Nat → Point} : ∀ {a b : STree} {bx : Box}, SameCells a b →
    a.InBoxes P bx → b.InBoxes P bx
  | .leaf _ ix, .leaf _ ix', bx, h, hi => by
    simp only [SameCells] at h
    simp only [STree.InBoxes] at hi ⊢
    intro i hm
    exact hi i (h.symm.subset hm)
  | .node _ cd thr l r, .node _ cd' thr' l' r', bx, h, hi => by
    simp only [SameCells] at h
    obtain ⟨e1, e2, h1, h2⟩ := h
    subst e1; subst e2
    simp only [STree.InBoxes] at hi ⊢
    exact ⟨h1.inBoxes hi.1, h2.inBoxes hi.2⟩
  | .leaf .., .node .., _, h, _ => by simp [SameCells] at h
  | .node .., .leaf .., _, h, _ => by simp [SameCells] at h

theorem SameCells.leafSame {P : Nat → Point} {dim : Nat} : ∀ {a b : STree}, SameCells a b →
    a.LeafSame P dim → b.LeafSame P dim
  | .leaf _ ix, .leaf _ ix', h, hi => by
    simp only [SameCells] at h
    simp only [STree.LeafSame] at hi ⊢
    intro i hm j hj
    exact hi i (h.symm.subset hm) j (h.symm.subset hj)
  | .node _ cd thr l r, .node _ cd' thr' l' r', h, hi => by
    simp only [SameCells] at h
    obtain ⟨_, _, h1, h2⟩ := h
    simp only [STree.LeafSame] at hi ⊢
    exact ⟨h1.leafSame hi.1, h2.leafSame hi.2⟩
  | .leaf .., .node .., h, _ => by simp [SameCells] at h
  | .node .., .leaf .., h, _ => by simp [SameCells] at h

theorem SameCells.leavesNE : ∀ {a b : STree}, SameCells a b → a.LeavesNE → b.LeavesNE
  | .leaf _ ix, .leaf _ ix', h, hi => by
    simp only [SameCells] at h
    simp only [STree.LeavesNE] at hi ⊢
    intro e
    subst e
    exact hi h.eq_nil
  | .node _ cd thr l r, .node _ cd' thr' l' r', h, hi => by
    simp only [SameCells] at h
    obtain ⟨_, _, h1, h2⟩ := h
    simp only [STree.LeavesNE] at hi ⊢
    exact ⟨h1.leavesNE hi.1, h2.leavesNE hi.2⟩
  | .leaf .., .node .., h, _ => by simp [SameCells] at h
  | .node .., .leaf .., h, _ => by simp [SameCells] at h

theorem SameCells.idx_perm : ∀ {a b : STree}, SameCells a b → a.idx.Perm b.idx
  | .leaf _ ix, .leaf _ ix', h => by
    simp only [SameCells] at h
    simpa only [STree.idx] using h
  | .node _ cd thr l r, .node _ cd' thr' l' r', h => by
    simp only [SameCells] at h
    obtain ⟨_, _, h1, h2⟩ := h
    simp only [STree.idx]
    exact List.Perm.append h1.idx_perm h2.idx_perm
  | .leaf .., .node .., h => by simp [SameCells] at h
  | .node .., .leaf .., h => by simp [SameCells] at h

/-! ## The cell lower bound is admissible -/

theorem rat_mul_self_nonneg (a : Rat) : 0 ≤ a * a := by
  rcases Rat.le_total (a := 0) (b := a) with h | h
  · exact Rat.mul_nonneg h h
  · have := Rat.mul_nonneg (show (0 : Rat) ≤ -a by grind) (show (0 : Rat) ≤ -a by grind)
    grind

theorem rat_sq_le_sq {a b : Rat} (h0 : 0 ≤ a) (h : a ≤ b) : a * a ≤ b * b := by
  have := Rat.mul_nonneg (show (0 : Rat) ≤ b - a by grind) (show (0 : Rat) ≤ b + a by grind)
  grind

theorem boxTerm_le (lo hi : Option Rat) (p v : Rat) (hlo : ∀ l, lo = some l → l ≤ p)
    (hhi : ∀ u, hi = some u → p ≤ u) : boxTerm lo hi v ≤ (p - v) * (p - v) := by
  have h0 := rat_mul_self_nonneg (p - v)
  have hup : ∀ u, hi = some u → u < v → (v - u) * (v - u) ≤ (p - v) * (p - v) := by
    intro u hu hlt
    have hu' := hhi u hu
    have := rat_sq_le_sq (a := v - u) (b := v - p) (by grind) (by grind)
    grind
  unfold boxTerm
  cases lo with
  | some l =>
    have hl := hlo l rfl
    simp only
    split
    · exact rat_sq_le_sq (by grind) (by grind)
    · cases hi with
      | some u =>
        simp only
        split
        · exact hup u rfl ‹_›
        · exact h0
      | none => exact h0
  | none =>
    cases hi with
    | some u =>
      simp only
      split
      · exact hup u rfl ‹_›
      · exact h0
    | none => exact h0

theorem kdBoundFrom_le_dist2 (b : Box) : ∀ (ps qs : List Rat) (d0 : Nat), ps.length = qs.length →
    (∀ j, j < ps.length → (∀ l, b.lo (d0 + j) = some l → l ≤ ps.getD j 0) ∧
      (∀ u, b.hi (d0 + j) = some u → ps.getD j 0 ≤ u)) →
    kdBoundFrom b d0 qs ≤ dist2 ps qs
  | [], [], _, _, _ => by simp [kdBoundFrom, dist2]
  | [], _ :: _, _, h, _ => by simp at h
  | _ :: _, [], _, h, _ => by simp at h
  | p :: ps, q :: qs, d0, h, hb => by
    simp only [kdBoundFrom, dist2]
    have h1 : boxTerm (b.lo d0) (b.hi d0) q ≤ (p - q) * (p - q) := by
      have := hb 0 (by simp)
      simp only [Nat.add_zero, List.getD_cons_zero] at this
      exact boxTerm_le _ _ p q this.1 this.2
    have h2 : kdBoundFrom b (d0 + 1) qs ≤ dist2 ps qs := by
      apply kdBoundFrom_le_dist2 b ps qs (d0 + 1) (by simpa using h)
      intro j hj
      have := hb (j + 1) (by simp; omega)
      simp only [List.getD_cons_succ] at this
      have e : d0 + (j + 1) = d0 + 1 + j := by omega
      rw [e] at this
      exact this
    grind

theorem kdBound_le_dist2 {P : Nat → Point} {b : Box} {i : Nat} {q : Point} (h : InBox P b i)
    (hl : (P i).length = q.length) : kdBound b q ≤ dist2 (P i) q := by
  unfold kdBound
  apply kdBoundFrom_le_dist2 b (P i) q 0 hl
  intro j _
  simp only [Nat.zero_add]
  exact h j

/-- points that agree in all `dim` coordinates are equal (so have equal distance to any query) -/
theorem leafSame_dist2 {P : Nat → Point} {dim i j : Nat} (hi : (P i).length = dim)
    (hj : (P j).length = dim) (h : ∀ d, d < dim → coord (P i) d = coord (P j) d) : P i = P j := by
  apply List.ext_getElem (by omega)
  intro d h1 h2
  have := h d (by omega)
  simp only [coord, List.getD_eq_getElem?_getD, List.getElem?_eq_getElem h1,
    List.getElem?_eq_getElem h2, Option.getD_some] at this
  exact this

end SharkVerif.NN
