/-
Gaussian / ARD positive semi-definiteness (C05): the exponential of a PSD kernel is PSD (power series and
closedness of the PSD cone), hence Gram matrices of the Gaussian and ARD kernels over points of equal
dimension are PSD; family-level PSD calculus (`FamPSD`) for kernels that are PSD only on equal-dimension data.
-/
import SharkVerif.Lemmas.KernelsPSD
import Mathlib.Analysis.Real.Sqrt
import Mathlib.Analysis.SpecialFunctions.Exponential

set_option linter.unusedSectionVars false
namespace SharkVerif.Kernels
open Matrix Filter Topology

/-! ### exponential of a PSD kernel, Gaussian and ARD Gram matrices -/

theorem IsPSD.expPartial {P : Type} {κ : P → P → ℝ} (h : IsPSD κ) : ∀ N : ℕ,
    IsPSD (fun x z => ∑ m ∈ Finset.range N, κ x z ^ m / (m.factorial : ℝ))
  | 0 => IsPSD.zero.congr fun _ _ => by simp
  | N + 1 => ((IsPSD.expPartial h N).add ((h.pow N).smul (a := ((N.factorial : ℝ))⁻¹) (by positivity))).congr
      fun x z => by rw [Finset.sum_range_succ]; ring

theorem tendsto_expPartial (t : ℝ) :
    Tendsto (fun N : ℕ => ∑ m ∈ Finset.range N, t ^ m / (m.factorial : ℝ)) atTop (𝓝 (Real.exp t)) := by
  have h := NormedSpace.expSeries_div_hasSum_exp (𝔸 := ℝ) t
  rw [← Real.exp_eq_exp_ℝ] at h
  exact h.tendsto_sum_nat

/-- the exponential of a PSD kernel is PSD (power series + closedness of the PSD cone) -/
theorem IsPSD.exp {P : Type} {κ : P → P → ℝ} (h : IsPSD κ) : IsPSD (fun x z => Real.exp (κ x z)) := by
  intro n x
  refine PosSemidef.of_dotProduct_mulVec_nonneg ?_ ?_
  · ext i j
    simp only [Matrix.conjTranspose_apply, Matrix.of_apply, star_trivial]
    rw [h.symm (x j) (x i)]
  · intro v
    have hq : ∀ N : ℕ, 0 ≤ ∑ i, ∑ j, v i * v j * (∑ m ∈ Finset.range N, κ (x i) (x j) ^ m / (m.factorial : ℝ)) :=
      fun N => (IsPSD.expPartial h N).quadForm_nonneg n x v
    have ht : Tendsto (fun N : ℕ => ∑ i, ∑ j, v i * v j * (∑ m ∈ Finset.range N, κ (x i) (x j) ^ m / (m.factorial : ℝ)))
        atTop (𝓝 (∑ i, ∑ j, v i * v j * Real.exp (κ (x i) (x j)))) := by
      refine tendsto_finsetSum _ fun i _ => tendsto_finsetSum _ fun j _ => ?_
      exact (tendsto_expPartial (κ (x i) (x j))).const_mul (v i * v j)
    have hlim := ge_of_tendsto' ht hq
    simp only [dotProduct, mulVec, star_trivial, Matrix.of_apply, Finset.mul_sum]
    refine le_of_le_of_eq hlim ?_
    refine Finset.sum_congr rfl fun i _ => Finset.sum_congr rfl fun j _ => ?_
    ring

/-- a family of points has positive semidefinite Gram matrix under `κ` -/
def FamPSD {P : Type} {n : ℕ} (x : Fin n → P) (κ : P → P → ℝ) : Prop :=
  (Matrix.of fun i j => κ (x i) (x j)).PosSemidef

theorem IsPSD.fam {P : Type} {κ : P → P → ℝ} (h : IsPSD κ) {n : ℕ} (x : Fin n → P) : FamPSD x κ := h n x

namespace FamPSD
variable {P Q : Type} {n : ℕ} {x : Fin n → P}

theorem congr {κ κ' : P → P → ℝ} (h : FamPSD x κ) (e : ∀ i j, κ' (x i) (x j) = κ (x i) (x j)) : FamPSD x κ' := by
  unfold FamPSD at *
  have : (Matrix.of fun i j => κ' (x i) (x j)) = Matrix.of fun i j => κ (x i) (x j) := by
    ext i j; exact e i j
  rw [this]; exact h

theorem add {κ₁ κ₂ : P → P → ℝ} (h₁ : FamPSD x κ₁) (h₂ : FamPSD x κ₂) : FamPSD x (fun a b => κ₁ a b + κ₂ a b) := by
  unfold FamPSD at *
  have : (Matrix.of fun i j => κ₁ (x i) (x j) + κ₂ (x i) (x j)) =
      (Matrix.of fun i j => κ₁ (x i) (x j)) + (Matrix.of fun i j => κ₂ (x i) (x j)) := by ext i j; rfl
  rw [this]; exact h₁.add h₂

theorem smul {κ : P → P → ℝ} (h : FamPSD x κ) {a : ℝ} (ha : 0 ≤ a) : FamPSD x (fun p q => a * κ p q) := by
  unfold FamPSD at *
  have : (Matrix.of fun i j => a * κ (x i) (x j)) = a • (Matrix.of fun i j => κ (x i) (x j)) := by ext i j; rfl
  rw [this]; exact h.smul ha

theorem mul {κ₁ κ₂ : P → P → ℝ} (h₁ : FamPSD x κ₁) (h₂ : FamPSD x κ₂) : FamPSD x (fun a b => κ₁ a b * κ₂ a b) := by
  unfold FamPSD at *
  have : (Matrix.of fun i j => κ₁ (x i) (x j) * κ₂ (x i) (x j)) =
      Matrix.hadamard (Matrix.of fun i j => κ₁ (x i) (x j)) (Matrix.of fun i j => κ₂ (x i) (x j)) := by ext i j; rfl
  rw [this]; exact h₁.hadamard h₂

theorem normalize {κ : P → P → ℝ} (h : FamPSD x κ) (s : P → ℝ) : FamPSD x (fun a b => κ a b / s a / s b) :=
  (h.mul ((IsPSD.rankOne fun a => (s a)⁻¹).fam x)).congr fun i j => by simp only [div_eq_mul_inv]; ring

theorem comap {κ : Q → Q → ℝ} (s : P → Q) (h : FamPSD (fun i => s (x i)) κ) : FamPSD x (fun a b => κ (s a) (s b)) := h

end FamPSD

theorem wfold_fam {P : Type} {n : ℕ} (x : Fin n → P) : ∀ (ws : List ℝ) (fs : List (P → P → ℝ)) (g : P → P → ℝ),
    (∀ w ∈ ws, 0 ≤ w) → (∀ f ∈ fs, FamPSD x f) → FamPSD x g →
    FamPSD x (fun a b => wfold ws (fs.map fun f => f a b) (g a b))
  | [], fs, g, _, _, hg => by cases fs <;> simpa [wfold] using hg
  | _ :: _, [], g, _, _, hg => by simpa [wfold] using hg
  | w :: ws, f :: fs, g, hw, hf, hg => by
      simp only [List.map_cons, wfold]
      exact wfold_fam x ws fs (fun a b => g a b + w * f a b)
        (fun w' h => hw w' (List.mem_cons_of_mem _ h)) (fun f' h => hf f' (List.mem_cons_of_mem _ h))
        (hg.add ((hf f (List.mem_cons_self)).smul (hw w (List.mem_cons_self))))

theorem pfold_fam {P : Type} {n : ℕ} (x : Fin n → P) : ∀ (fs : List (P → P → ℝ)) (g : P → P → ℝ),
    (∀ f ∈ fs, FamPSD x f) → FamPSD x g → FamPSD x (fun a b => pfold (fs.map fun f => f a b) (g a b))
  | [], g, _, hg => by simpa [pfold] using hg
  | f :: fs, g, hf, hg => by
      simp only [List.map_cons, pfold]
      exact pfold_fam x fs (fun a b => g a b * f a b) (fun f' h => hf f' (List.mem_cons_of_mem _ h))
        (hg.mul (hf f (List.mem_cons_self)))

/-- **gaussian_psd** — Gram matrices of the Gaussian kernel `exp(-γ‖x−z‖²)`, `γ ≥ 0`, over points of equal
dimension are positive semidefinite: `exp(-γ‖x−z‖²) = e^{-γ‖x‖²} e^{-γ‖z‖²} exp(2γ⟨x,z⟩)`. -/
theorem gaussian_fam_psd (γ : ℝ) (hγ : 0 ≤ γ) {n : ℕ} (x : Fin n → Point ℝ) (d : ℕ) (hx : ∀ i, (x i).length = d) :
    FamPSD x (fun a b => Real.exp (-γ * distSqr b a)) := by
  have hk : IsPSD (fun a b : Point ℝ => (Real.exp (-γ * dot a a) * Real.exp (-γ * dot b b)) *
      Real.exp ((2 * γ) * dot a b)) :=
    (IsPSD.rankOne fun a => Real.exp (-γ * dot a a)).mul ((dot_psd.smul (by positivity : (0:ℝ) ≤ 2 * γ)).exp)
  refine (hk.fam x).congr fun i j => ?_
  rw [distSqr_comm, distSqr_expand (x i) (x j) ((hx i).trans (hx j).symm), ← Real.exp_add, ← Real.exp_add]
  congr 1
  simp only [two]; ring

/-- coordinate-wise scaling by `√γ` -/
noncomputable def scalePt (gs : List ℝ) (x : Point ℝ) : Point ℝ := List.zipWith (fun g a => Real.sqrt g * a) gs x

theorem mahal_eq_distSqr_scale : ∀ (gs : List ℝ) (x z : Point ℝ), (∀ g ∈ gs, 0 ≤ g) →
    mahal gs x z = distSqr (scalePt gs x) (scalePt gs z)
  | [], _, _, _ => by simp [mahal, scalePt, distSqr]
  | _ :: _, [], z, _ => by simp [mahal, scalePt, distSqr_nil_left]
  | _ :: _, _ :: _, [], _ => by simp [mahal, scalePt, distSqr_nil_right]
  | g :: gs, a :: x, b :: z, h => by
      have hg : 0 ≤ g := h g (List.mem_cons_self)
      have ih := mahal_eq_distSqr_scale gs x z fun g' hg' => h g' (List.mem_cons_of_mem _ hg')
      simp only [mahal, scalePt, List.zipWith_cons_cons, distSqr_cons] at *
      rw [ih]
      have : (Real.sqrt g * a - Real.sqrt g * b) * (Real.sqrt g * a - Real.sqrt g * b) =
          (Real.sqrt g * Real.sqrt g) * ((a - b) * (a - b)) := by ring
      rw [this, Real.mul_self_sqrt hg]

/-- ARD Gram matrices (`γ_t ≥ 0`) over points of equal dimension are PSD: Gaussian kernel of the rescaled points -/
theorem ard_fam_psd (gs : List ℝ) (hgs : ∀ g ∈ gs, 0 ≤ g) {n : ℕ} (x : Fin n → Point ℝ) (d : ℕ) (hx : ∀ i, (x i).length = d) :
    FamPSD x (fun a b => Real.exp (-(mahal gs a b))) := by
  have h := gaussian_fam_psd 1 zero_le_one (fun i => scalePt gs (x i)) (min gs.length d) (fun i => by
    simp [scalePt, hx i])
  refine (FamPSD.comap (scalePt gs) h).congr fun i j => ?_
  rw [mahal_eq_distSqr_scale gs (x i) (x j) hgs, distSqr_comm]
  simp

end SharkVerif.Kernels
