/-
Helper lemmas for C09: the `CachedMatrix` invariant (cached entries are true
entries of the base matrix under the current permutation).
-/
import SharkVerif.Lemmas.Cache
namespace SharkVerif.Cache
open LRU

variable {V : Type}

/-- every stored value of `line` is the true entry of row `k` -/
def TrueLine (m : CM V) (k : Nat) (line : List V) : Prop :=
  ∀ c v, line[c]? = some v → v = m.entry k c

theorem trueLine_nil (m : CM V) (k : Nat) : TrueLine m k [] := by
  intro c v h; simp at h

/-- the invariant of `CachedMatrix` -/
structure CMInv (m : CM V) : Prop where
  lru    : Inv m.cache
  truth  : ∀ k, TrueLine m k (m.cache.lines k)
  short  : ∀ k, (m.cache.lines k).length ≤ m.n
  inside : ∀ k, m.n ≤ k → m.cache.lines k = []

theorem swapIdx_comm (i j k : Nat) : swapIdx i j k = swapIdx j i k := by
  unfold swapIdx; split <;> split <;> simp_all

theorem resized_length (old : List V) (size : Nat) (fresh : Nat → V) :
    (resized old size fresh).length = size := by simp [resized]

theorem resized_get (old : List V) (size : Nat) (fresh : Nat → V) (c : Nat) (v : V)
    (h : (resized old size fresh)[c]? = some v) :
    c < size ∧ (old[c]? = some v ∨ (old[c]? = none ∧ v = fresh c)) := by
  unfold resized at h
  rw [List.getElem?_map] at h
  by_cases hc : c < size
  · rw [List.getElem?_range hc] at h
    simp only [Option.map_some, Option.some.injEq] at h
    refine ⟨hc, ?_⟩
    cases ho : old[c]? with
    | none => right; simp [ho] at h; exact ⟨rfl, h.symm⟩
    | some w => left; simp [ho] at h; rw [h]
  · have : (List.range size)[c]? = none := by simp; omega
    rw [this] at h; simp at h

theorem resized_prefix (old : List V) (size : Nat) (fresh : Nat → V) (c : Nat)
    (hc : c < size) (hold : c < old.length) : (resized old size fresh)[c]? = old[c]? := by
  unfold resized
  rw [List.getElem?_map, List.getElem?_range hc]
  have : old[c]? = some old[c] := List.getElem?_eq_getElem hold
  simp [this]

theorem trueLine_resized (m : CM V) (k : Nat) (old : List V) (size : Nat)
    (h : TrueLine m k old) : TrueLine m k (resized old size (fun c => m.entry k c)) := by
  intro c v hv
  rcases (resized_get _ _ _ _ _ hv).2 with h1 | ⟨_, h2⟩
  · exact h c v h1
  · exact h2

/-! #### effect of `getCacheLine` on the lines -/

theorem createRow_lines_self (s : LRU V) (i : Nat) (line : List V) :
    (s.createRow i line).lines i = line := by simp [createRow]

theorem createRow_lines_other (s : LRU V) {i k : Nat} (line : List V) (hk : k ≠ i) :
    (s.createRow i line).lines k = s.lines k ∨ (s.createRow i line).lines k = [] := by
  simp only [createRow]
  rw [upd_ne _ _ hk]
  exact ensureFree_lines s line.length k

theorem resizeLine_lines_self (s : LRU V) (i size : Nat) (fresh : Nat → V) :
    (s.resizeLine i size fresh).lines i = resized (s.lines i) size fresh := by
  simp [resizeLine]

theorem resizeLine_lines_other (s : LRU V) {i k : Nat} (size : Nat) (fresh : Nat → V) (hk : k ≠ i) :
    (s.resizeLine i size fresh).lines k = s.lines k ∨ (s.resizeLine i size fresh).lines k = [] := by
  simp only [resizeLine]
  rw [upd_ne _ _ hk]
  rcases ensureFree_lines (s.removeRow i) size k with e | e
  · left; rw [e]; exact upd_ne _ _ hk
  · right; exact e

theorem range_map_eq_resized_nil (size : Nat) (fresh : Nat → V) :
    (List.range size).map fresh = resized [] size fresh := by
  simp [resized]

/-- the line that `getCacheLine i size` leaves at index `i` -/
theorem getCacheLine_lines_self (s : LRU V) (i size : Nat) (fresh : Nat → V) :
    (s.getCacheLine i size fresh).lines i =
      if s.lines i ≠ [] ∧ size ≤ (s.lines i).length then s.lines i
      else resized (s.lines i) size fresh := by
  unfold getCacheLine
  by_cases hc : s.isCached i = true
  · have hne := (isCached_iff s i).1 hc
    simp only [hc, Bool.not_true, Bool.false_eq_true, ↓reduceIte]
    by_cases hs : (s.lines i).length ≥ size
    · simp [hs, hne, redeclareNewest]
    · have : ¬ size ≤ (s.lines i).length := hs
      simp only [hs, ↓reduceIte, and_false]
      exact resizeLine_lines_self s i size fresh
  · have hni : s.lines i = [] := by
      have := (not_congr (isCached_iff s i)).1 hc; simpa using this
    simp only [hc, Bool.not_false, ↓reduceIte]
    rw [createRow_lines_self, hni, range_map_eq_resized_nil]
    simp

theorem getCacheLine_lines_other (s : LRU V) {i k : Nat} (size : Nat) (fresh : Nat → V) (hk : k ≠ i) :
    (s.getCacheLine i size fresh).lines k = s.lines k ∨ (s.getCacheLine i size fresh).lines k = [] := by
  unfold getCacheLine
  split
  · exact createRow_lines_other s _ hk
  · split
    · left; rfl
    · exact resizeLine_lines_other s size fresh hk

theorem getCacheLine_maxSize (s : LRU V) (i size : Nat) (fresh : Nat → V) :
    (s.getCacheLine i size fresh).maxSize = s.maxSize := by
  unfold getCacheLine
  split
  · simp [createRow, ensureFree_maxSize]
  · split
    · rfl
    · simp [resizeLine, ensureFree_maxSize, removeRow]

/-! #### `row` -/

theorem row_line_self (m : CM V) (k start stop : Nat) :
    (m.row k start stop).cache.lines k =
      if m.cache.lines k ≠ [] ∧ stop ≤ (m.cache.lines k).length then m.cache.lines k
      else resized (m.cache.lines k) stop (fun c => m.entry k c) := by
  simp only [CM.row]
  exact getCacheLine_lines_self _ _ _ _

theorem row_entry (m : CM V) (k start stop a b : Nat) : (m.row k start stop).entry a b = m.entry a b := rfl

theorem cmInv_row {m : CM V} (h : CMInv m) {k stop : Nat} (start : Nat)
    (hk : k < m.n) (hpos : 0 < stop ∨ m.cache.isCached k = true) (hn : stop ≤ m.n)
    (hcap : stop ≤ m.cache.maxSize) :
    CMInv (m.row k start stop) := by
  constructor
  · exact inv_getCacheLine h.lru k _ hpos hcap
  · intro k'
    intro c v hv
    rw [row_entry]
    by_cases e : k' = k
    · subst e
      rw [row_line_self] at hv
      split at hv
      · exact h.truth k' c v hv
      · exact trueLine_resized m k' _ stop (h.truth k') c v hv
    · have := getCacheLine_lines_other m.cache stop (fun c => m.entry k c) e
      simp only [CM.row] at hv
      rcases this with e1 | e1
      · rw [e1] at hv; exact h.truth k' c v hv
      · rw [e1] at hv; simp at hv
  · intro k'
    show ((m.row k start stop).cache.lines k').length ≤ m.n
    by_cases e : k' = k
    · subst e
      rw [row_line_self]
      split
      · exact h.short k'
      · rw [resized_length]; exact hn
    · have := getCacheLine_lines_other m.cache stop (fun c => m.entry k c) e
      simp only [CM.row]
      rcases this with e1 | e1
      · rw [e1]; exact h.short k'
      · rw [e1]; simp
  · intro k' hk'
    have hk'' : m.n ≤ k' := hk'
    have e : k' ≠ k := by omega
    have := getCacheLine_lines_other m.cache stop (fun c => m.entry k c) e
    simp only [CM.row]
    rcases this with e1 | e1
    · rw [e1]; exact h.inside k' hk'
    · exact e1

/-! #### `flipColumnsAndRows` -/

theorem swapLineIndices_lines (s : LRU V) {i j : Nat} (k : Nat) :
    (s.swapLineIndices i j).lines k = s.lines (swapIdx i j k) := by
  unfold swapLineIndices
  split
  · rename_i hc
    simp only [Bool.or_eq_true, decide_eq_true_eq, Bool.and_eq_true, Bool.not_eq_true'] at hc
    rcases hc with e | ⟨hi, hj⟩
    · subst e
      unfold swapIdx; split <;> simp_all
    · have hi' : s.lines i = [] := by
        have := (not_congr (isCached_iff s i)).1 (by simp [hi]); simpa using this
      have hj' : s.lines j = [] := by
        have := (not_congr (isCached_iff s j)).1 (by simp [hj]); simpa using this
      unfold swapIdx
      split
      · rename_i e; subst e; rw [hi', hj']
      · split
        · rename_i e; subst e; rw [hi', hj']
        · rfl
  · rfl

/-- the lines after the column exchange of `flipColumnsAndRows`, for ordered `i < j` -/
def flipLine (m : CM V) (i j k : Nat) : List V :=
  if (m.cache.lines k).length ≤ i then m.cache.lines k
  else if j < (m.cache.lines k).length then
    (List.range (m.cache.lines k).length).map fun c =>
      match (m.cache.lines k)[swapIdx i j c]? with
      | some v => v
      | none => m.entry k c
  else (m.cache.lines k).set i (m.entry k j)

theorem flipLine_length (m : CM V) (i j k : Nat) :
    (flipLine m i j k).length = (m.cache.lines k).length := by
  unfold flipLine
  split
  · rfl
  · split <;> simp

theorem flipLine_true {m : CM V} (h : ∀ k, TrueLine m k (m.cache.lines k)) {i j : Nat} (hij : i < j)
    (k c : Nat) (v : V) (hv : (flipLine m i j k)[c]? = some v) : v = m.entry k (swapIdx i j c) := by
  unfold flipLine at hv
  split at hv
  · rename_i hlen
    have hc : c < (m.cache.lines k).length := by
      rcases Nat.lt_or_ge c (m.cache.lines k).length with h1 | h1
      · exact h1
      · rw [List.getElem?_eq_none h1] at hv; simp at hv
    rw [swapIdx_other (by omega) (by omega)]
    exact h k c v hv
  · split at hv
    · rename_i hlen hj
      rw [List.getElem?_map] at hv
      by_cases hc : c < (m.cache.lines k).length
      · rw [List.getElem?_range hc] at hv
        simp only [Option.map_some, Option.some.injEq] at hv
        have hs : swapIdx i j c < (m.cache.lines k).length := by
          unfold swapIdx; split
          · exact hj
          · split <;> omega
        have hg : (m.cache.lines k)[swapIdx i j c]? = some ((m.cache.lines k)[swapIdx i j c]) :=
          List.getElem?_eq_getElem hs
        rw [hg] at hv
        simp only at hv
        rw [← hv]
        exact h k _ _ hg
      · have : (List.range (m.cache.lines k).length)[c]? = none := by simp; omega
        rw [this] at hv; simp at hv
    · rename_i hlen hj
      have hi : i < (m.cache.lines k).length := by omega
      by_cases hc : c = i
      · subst hc
        rw [List.getElem?_set_self hi] at hv
        simp only [Option.some.injEq] at hv
        rw [← hv]; simp
      · rw [List.getElem?_set_ne (Ne.symm hc)] at hv
        have hc2 : c < (m.cache.lines k).length := by
          rcases Nat.lt_or_ge c (m.cache.lines k).length with h1 | h1
          · exact h1
          · rw [List.getElem?_eq_none h1] at hv; simp at hv
        rw [swapIdx_other hc (by omega)]
        exact h k c v hv

/-- `flip` for ordered, distinct indices, in terms of `flipLine` -/
theorem flip_ordered (m : CM V) {i j : Nat} (hij : i < j) :
    m.flip i j =
      { m with cache := ({ m.cache with lines := fun k => flipLine m i j k } : LRU V).swapLineIndices i j
               perm := fun k => m.perm (swapIdx i j k) } := by
  unfold CM.flip
  have h1 : i ≠ j := by omega
  have h2 : ¬ i > j := by omega
  simp only [h1, ↓reduceIte, h2]
  rfl

theorem flip_swap (m : CM V) {i j : Nat} (hij : j < i) : m.flip i j = m.flip j i := by
  unfold CM.flip
  have h1 : i ≠ j := by omega
  have h1' : j ≠ i := by omega
  have h2 : i > j := hij
  have h3 : ¬ j > i := by omega
  simp only [h1, h1', ↓reduceIte, h2, h3]

theorem inv_with_lines {s : LRU V} (h : Inv s) (lines' : Nat → List V)
    (hl : ∀ k, (lines' k).length = (s.lines k).length) : Inv ({ s with lines := lines' } : LRU V) := by
  have hne : ∀ k, lines' k ≠ [] ↔ s.lines k ≠ [] := by
    intro k
    have := hl k
    constructor
    · intro a e; rw [e] at this; simp at this; exact a this
    · intro a e; rw [e] at this; simp at this; exact a (List.eq_nil_of_length_eq_zero this.symm)
  constructor
  · exact h.nodup
  · intro k; show k ∈ s.lru ↔ lines' k ≠ []; rw [hne]; exact h.mem k
  · show s.size = total lines' s.lru
    rw [h.acc]; unfold total; congr 1
    apply List.map_congr_left; intro k _; rw [hl]
  · exact h.cap

theorem cmInv_flip_ordered {m : CM V} (h : CMInv m) {i j : Nat} (hij : i < j) (hj : j < m.n) :
    CMInv (m.flip i j) := by
  rw [flip_ordered m hij]
  have hl : ∀ k, (flipLine m i j k).length = (m.cache.lines k).length := flipLine_length m i j
  constructor
  · exact inv_swapLineIndices (inv_with_lines h.lru _ hl) i j
  · intro k c v hv
    show v = m.base (m.perm (swapIdx i j k)) (m.perm (swapIdx i j c))
    simp only [swapLineIndices_lines] at hv
    exact flipLine_true h.truth hij (swapIdx i j k) c v hv
  · intro k
    simp only [swapLineIndices_lines]
    rw [hl]; exact h.short _
  · intro k hk
    have hk' : m.n ≤ k := hk
    simp only [swapLineIndices_lines]
    have : swapIdx i j k = k := swapIdx_other (by omega) (by omega)
    rw [this]
    have h0 := h.inside k hk
    have := hl k
    rw [h0] at this
    exact List.eq_nil_of_length_eq_zero (by simpa using this)

theorem cmInv_flip {m : CM V} (h : CMInv m) {i j : Nat} (hi : i < m.n) (hj : j < m.n) :
    CMInv (m.flip i j) := by
  rcases Nat.lt_trichotomy i j with h1 | h1 | h1
  · exact cmInv_flip_ordered h h1 hj
  · subst h1; unfold CM.flip; simp; exact h
  · rw [flip_swap m h1]; exact cmInv_flip_ordered h h1 hi

/-! #### `setMaxCachedIndex`, `clear` -/

theorem markForDeletion_lines (s : LRU V) (i : Nat) : (s.markForDeletion i).lines = s.lines := by
  unfold markForDeletion; split <;> rfl

theorem cmInv_of_cache {m : CM V} (h : CMInv m) (c : LRU V) (hc : Inv c)
    (hl : ∀ k, c.lines k = m.cache.lines k ∨ c.lines k = []) : CMInv { m with cache := c } := by
  constructor
  · exact hc
  · intro k c' v hv
    rcases hl k with e | e
    · simp only [e] at hv; exact h.truth k c' v hv
    · simp only [e] at hv; simp at hv
  · intro k
    rcases hl k with e | e
    · simp only [e]; exact h.short k
    · simp only [e]; simp
  · intro k hk
    rcases hl k with e | e
    · simp only [e]; exact h.inside k hk
    · exact e

theorem foldl_mark_inv (ds : List Nat) (n' : Nat) : ∀ (c : LRU V), Inv c →
    Inv (ds.foldl (fun c d => c.markForDeletion (n' + d)) c) ∧
    (ds.foldl (fun c d => c.markForDeletion (n' + d)) c).lines = c.lines := by
  induction ds with
  | nil => intro c h; exact ⟨h, rfl⟩
  | cons d ds ih =>
    intro c h
    have := ih (c.markForDeletion (n' + d)) (inv_markForDeletion h _)
    simp only [List.foldl_cons]
    exact ⟨this.1, by rw [this.2, markForDeletion_lines]⟩

theorem cmInv_setMaxCachedIndex {m : CM V} (h : CMInv m) (n' : Nat) : CMInv (m.setMaxCachedIndex n') := by
  unfold CM.setMaxCachedIndex
  have := foldl_mark_inv (List.range (m.n - n')) n' m.cache h.lru
  exact cmInv_of_cache h _ this.1 (fun k => Or.inl (by rw [this.2]))

theorem cmInv_clear {m : CM V} (h : CMInv m) : CMInv m.clear := by
  unfold CM.clear
  exact cmInv_of_cache h _ (inv_clear h.lru) (fun k => ensureFree_lines _ _ k)

theorem cmInv_init (n : Nat) (base : Nat → Nat → V) (cap : Nat) : CMInv (CM.init n base cap) := by
  constructor
  · exact inv_init cap
  · intro k; exact trueLine_nil _ k
  · intro k; simp [CM.init, LRU.init]
  · intro k _; rfl

end SharkVerif.Cache

namespace SharkVerif.Cache
open LRU
variable {V : Type}

/-! #### eviction never touches a prefix of the LRU list that still fits -/

theorem total_append (lines : Nat → List V) (p q : List Nat) :
    total lines (p ++ q) = total lines p + total lines q := by
  simp [total]

theorem ensureFreeGo_protects (need : Nat) : ∀ (f : Nat) (s : LRU V) (p rest : List Nat),
    Inv s → s.lru = p ++ rest → total s.lines p + need ≤ s.maxSize →
    (∀ k ∈ p, (ensureFreeGo need f s).lines k = s.lines k) ∧
    ∃ rest', (ensureFreeGo need f s).lru = p ++ rest'
  | 0, s, p, rest, _, hl, _ => ⟨fun _ _ => rfl, rest, hl⟩
  | f+1, s, p, rest, h, hl, hfit => by
    unfold ensureFreeGo
    split
    · rename_i hev
      split
      · exact ⟨fun _ _ => rfl, rest, hl⟩
      · rename_i o hsome
        -- the evicted line is the last one; it is not in the protected prefix
        obtain ⟨ys, hys⟩ := List.getLast?_eq_some_iff.1 hsome
        have hnd := h.nodup
        have hrest : rest ≠ [] := by
          intro e
          rw [e, List.append_nil] at hl
          have := h.acc
          rw [hl] at this
          omega
        obtain ⟨r', hr'⟩ : ∃ r', rest = r' ++ [o] := by
          have hne := List.getLast?_eq_some_iff.2 ⟨ys, hys⟩
          rw [hl, List.getLast?_append] at hne
          apply List.getLast?_eq_some_iff.1
          cases hr : rest.getLast? with
          | none => exact absurd (List.getLast?_eq_none_iff.1 hr) hrest
          | some x => simpa [hr] using hne
        have hlru : s.lru = (p ++ r') ++ [o] := by rw [hl, hr', List.append_assoc]
        have ho : o ∉ p ++ r' := by
          rw [hlru, List.nodup_append] at hnd
          intro hm
          exact hnd.2.2 o hm o (by simp) rfl
        have hop : o ∉ p := fun hm => ho (List.mem_append_left _ hm)
        have hl' : (s.removeRow o).lru = p ++ r' := by
          show s.lru.erase o = p ++ r'
          rw [hlru, List.erase_append_right _ ho]; simp
        have hlines : ∀ k ∈ p, (s.removeRow o).lines k = s.lines k := by
          intro k hk
          exact upd_ne _ _ (fun e => hop (e ▸ hk))
        have htot : total (s.removeRow o).lines p = total s.lines p :=
          total_congr hlines
        have ih := ensureFreeGo_protects need f (s.removeRow o) p r' (inv_removeRow h o) hl'
          (by rw [htot]; exact hfit)
        refine ⟨?_, ih.2⟩
        intro k hk
        rw [ih.1 k hk, hlines k hk]
    · exact ⟨fun _ _ => rfl, rest, hl⟩

end SharkVerif.Cache
