/-
C17: when is the k-nearest-neighbour prediction determined by the data?

A neighbour is a pair `(squared distance, label)`.  A k-NN selection (`IsKnnSel`) is any choice of `k`
data points none of which is farther than a point left out; with ties in distance there are several.
`knnSel_distances`: all selections have the same multiset of distances.
`knnSel_perm_of_unambiguous`: if wherever the selection cuts through a group of equidistant points all
data points of that distance carry one label, every other selection is the same multiset of
(distance, label) pairs, hence (`prediction_determined`) gives the same votes, soft output and class.
`prediction_not_determined_on_ties`: with a tie across the k-th boundary between different labels two
selections can give different classes -- the two back-ends may then legitimately differ.
-/
import SharkVerif.Lemmas.KD
import SharkVerif.Lemmas.NNRun
namespace SharkVerif.NN

/-- `sel` is a k-nearest-neighbour selection from `data`: k elements of `data`, none farther than any
element left out -/
structure IsKnnSel (data sel rest : List (Rat × Nat)) (k : Nat) : Prop where
  perm : (sel ++ rest).Perm data
  len : sel.length = k
  near : ∀ x ∈ sel, ∀ y ∈ rest, x.1 ≤ y.1

/-! ## The distances of a selection -/

/-- the sorted distances of the data are the sorted distances of the selection followed by the sorted
distances of the points left out -/
theorem IsKnnSel.sorted_split {data sel rest : List (Rat × Nat)} {k : Nat} (h : IsKnnSel data sel rest k) :
    sortVals (sel.map Prod.fst) ++ sortVals (rest.map Prod.fst) = sortVals (data.map Prod.fst) := by
  apply sorted_perm_unique _ _ _ _ (sortVals_sorted _)
  · have := h.perm.map Prod.fst
    rw [List.map_append] at this
    exact ((List.Perm.append (sortVals_perm _) (sortVals_perm _)).trans this).trans (sortVals_perm _).symm
  · refine List.pairwise_append.mpr ⟨sortVals_sorted _, sortVals_sorted _, ?_⟩
    intro x hx y hy
    obtain ⟨x0, hx0, rfl⟩ := List.mem_map.mp ((sortVals_perm _).subset hx)
    obtain ⟨y0, hy0, rfl⟩ := List.mem_map.mp ((sortVals_perm _).subset hy)
    exact h.near x0 hx0 y0 hy0

theorem sortVals_length (l : List Rat) : (sortVals l).length = l.length := (sortVals_perm l).length_eq

/-- the sorted distances of a selection are the `k` smallest distances of the data -/
theorem IsKnnSel.dist_prefix {data sel rest : List (Rat × Nat)} {k : Nat} (h : IsKnnSel data sel rest k) :
    sortVals (sel.map Prod.fst) = (sortVals (data.map Prod.fst)).take k := by
  have hl : (sortVals (sel.map Prod.fst)).length = k := by
    rw [sortVals_length, List.length_map, h.len]
  rw [← h.sorted_split, ← hl, List.take_left]

/-- two k-NN selections of the same data have the same multiset of distances -/
theorem knnSel_distances {data a ra b rb : List (Rat × Nat)} {k : Nat} (ha : IsKnnSel data a ra k)
    (hb : IsKnnSel data b rb k) : (a.map Prod.fst).Perm (b.map Prod.fst) := by
  have e : sortVals (a.map Prod.fst) = sortVals (b.map Prod.fst) := by
    rw [ha.dist_prefix, hb.dist_prefix]
  exact (sortVals_perm _).symm.trans (e ▸ sortVals_perm _)

/-! ## Counting per distance value -/

/-- number of neighbours at distance `d` -/
def cntD (d : Rat) (L : List (Rat × Nat)) : Nat := L.countP (fun z => decide (z.1 = d))

theorem cntD_append (d : Rat) (L M : List (Rat × Nat)) : cntD d (L ++ M) = cntD d L + cntD d M := by
  simp only [cntD, List.countP_append]

theorem cntD_perm (d : Rat) {L M : List (Rat × Nat)} (h : L.Perm M) : cntD d L = cntD d M :=
  h.countP_eq _

theorem cntD_of_map_perm (d : Rat) {L M : List (Rat × Nat)} (h : (L.map Prod.fst).Perm (M.map Prod.fst)) :
    cntD d L = cntD d M := by
  have := h.countP_eq (fun x => decide (x = d))
  simpa only [cntD, List.countP_map, Function.comp_def] using this

theorem cntD_pos {d : Rat} {L : List (Rat × Nat)} (h : cntD d L ≠ 0) : ∃ z ∈ L, z.1 = d := by
  have : 0 < cntD d L := Nat.pos_of_ne_zero h
  obtain ⟨z, hz, hd⟩ := List.countP_pos_iff.mp this
  exact ⟨z, hz, by simpa using hd⟩

theorem count_of_cntD_zero {d : Rat} {L : List (Rat × Nat)} (h : cntD d L = 0) (l : Nat) :
    L.count (d, l) = 0 := by
  apply List.count_eq_zero.mpr
  intro hm
  have := List.countP_eq_zero.mp h (d, l) hm
  simp at this

/-- if all points of a list at distance `d` have the label `l0`, the pair `(d, l)` occurs as often as
the distance `d` (for `l = l0`) or not at all -/
theorem count_of_uniform {L : List (Rat × Nat)} {d : Rat} {l0 : Nat}
    (h : ∀ z ∈ L, z.1 = d → z.2 = l0) (l : Nat) :
    L.count (d, l) = if l = l0 then cntD d L else 0 := by
  induction L with
  | nil => simp [cntD]
  | cons z zs ih =>
    have ih' := ih (fun w hw => h w (List.mem_cons_of_mem _ hw))
    have hz := h z (List.mem_cons_self ..)
    obtain ⟨zd, zl⟩ := z
    simp only [cntD] at ih' ⊢
    rw [List.count_cons, List.countP_cons, ih']
    by_cases c : zd = d
    · have e : zl = l0 := hz c
      subst c; subst e
      by_cases c2 : l = zl
      · subst c2; simp
      · have : ¬ zl = l := fun e => c2 e.symm
        simp [c2, this]
    · simp [c]

/-! ## The main theorem -/

/-- **Uniqueness of the k nearest neighbours up to order**: let `a` be a k-NN selection such that
wherever it cuts through a group of equidistant points (a selected `x` and a left-out `y` at the same
distance) all data points of that distance carry the same label.  Then every k-NN selection `b` of the
same data is the same multiset of (distance, label) pairs. -/
theorem knnSel_perm_of_unambiguous {data a ra b rb : List (Rat × Nat)} {k : Nat}
    (ha : IsKnnSel data a ra k) (hb : IsKnnSel data b rb k)
    (hu : ∀ x ∈ a, ∀ y ∈ ra, x.1 = y.1 → ∀ z ∈ data, z.1 = x.1 → z.2 = x.2) : a.Perm b := by
  rw [List.perm_iff_count]
  rintro ⟨d, l⟩
  have hD : cntD d a = cntD d b := cntD_of_map_perm d (knnSel_distances ha hb)
  have hda : cntD d a + cntD d ra = cntD d data := by rw [← cntD_append]; exact cntD_perm d ha.perm
  have hdb : cntD d b + cntD d rb = cntD d data := by rw [← cntD_append]; exact cntD_perm d hb.perm
  have hca : a.count (d, l) + ra.count (d, l) = data.count (d, l) := by
    rw [← List.count_append]; exact ha.perm.count_eq _
  have hcb : b.count (d, l) + rb.count (d, l) = data.count (d, l) := by
    rw [← List.count_append]; exact hb.perm.count_eq _
  by_cases h0 : cntD d ra = 0
  · -- no point at distance `d` is left out: both selections hold all data points of that distance
    have h0b : cntD d rb = 0 := by omega
    have e1 := count_of_cntD_zero h0 l
    have e2 := count_of_cntD_zero h0b l
    omega
  · obtain ⟨y, hy, hyd⟩ := cntD_pos h0
    by_cases h1 : cntD d a = 0
    · have h1b : cntD d b = 0 := by omega
      rw [count_of_cntD_zero h1, count_of_cntD_zero h1b]
    · -- the selection cuts through the points at distance `d`: one label, same number
      obtain ⟨x, hx, hxd⟩ := cntD_pos h1
      have hall := hu x hx y hy (by rw [hxd, hyd])
      have ua : ∀ z ∈ a, z.1 = d → z.2 = x.2 := fun z hz e =>
        hall z (ha.perm.subset (List.mem_append_left _ hz)) (by rw [e, hxd])
      have ub : ∀ z ∈ b, z.1 = d → z.2 = x.2 := fun z hz e =>
        hall z (hb.perm.subset (List.mem_append_left _ hz)) (by rw [e, hxd])
      rw [count_of_uniform ua, count_of_uniform ub, hD]

/-- no tie across the boundary: the selection is unique up to order -/
theorem knnSel_perm_of_strict {data a ra b rb : List (Rat × Nat)} {k : Nat}
    (ha : IsKnnSel data a ra k) (hb : IsKnnSel data b rb k)
    (hs : ∀ x ∈ a, ∀ y ∈ ra, x.1 < y.1) : a.Perm b := by
  apply knnSel_perm_of_unambiguous ha hb
  intro x hx y hy e
  have := hs x hx y hy
  rw [e] at this
  exact absurd this (Rat.lt_irrefl)

/-! ## A criterion on the data alone -/

/-- The k-th boundary of `data` is harmless: if the k-th and the (k+1)-th smallest distance coincide
(a tie across the boundary), all data points at that distance carry the same label. -/
def BoundaryOk (data : List (Rat × Nat)) (k : Nat) : Prop :=
  ∀ d, 0 < k → (sortVals (data.map Prod.fst))[k - 1]? = some d →
    (sortVals (data.map Prod.fst))[k]? = some d →
    ∀ z ∈ data, ∀ z' ∈ data, z.1 = d → z'.1 = d → z.2 = z'.2

theorem sorted_getLast_ge : ∀ (l : List Rat), l.Pairwise (· ≤ ·) → ∀ x ∈ l, ∀ m, l.getLast? = some m → x ≤ m
  | [], _, x, hx, _, _ => by simp at hx
  | [a], _, x, hx, m, hm => by
    simp only [List.mem_singleton] at hx
    simp only [List.getLast?_singleton, Option.some.injEq] at hm
    subst hx; subst hm; exact Rat.le_refl
  | a :: b :: t, h, x, hx, m, hm => by
    have hp := List.pairwise_cons.mp h
    rw [List.getLast?_cons_cons] at hm
    rcases List.mem_cons.mp hx with rfl | hx
    · exact hp.1 m (List.mem_of_getLast? hm)
    · exact sorted_getLast_ge (b :: t) hp.2 x hx m hm

/-- `BoundaryOk` implies the hypothesis of `knnSel_perm_of_unambiguous` for EVERY selection -/
theorem unambiguous_of_boundaryOk {data a ra : List (Rat × Nat)} {k : Nat} (hk : BoundaryOk data k)
    (ha : IsKnnSel data a ra k) :
    ∀ x ∈ a, ∀ y ∈ ra, x.1 = y.1 → ∀ z ∈ data, z.1 = x.1 → z.2 = x.2 := by
  intro x hx y hy exy z hz ezx
  have hkpos : 0 < k := by
    rw [← ha.len]
    exact List.length_pos_of_mem hx
  have hxdata : x ∈ data := ha.perm.subset (List.mem_append_left _ hx)
  refine hk x.1 hkpos ?_ ?_ z hz x hxdata ezx rfl
  · -- the k-th smallest distance is the largest distance of the selection, which is `x.1`
    have hl : (sortVals (a.map Prod.fst)).length = k := by
      rw [sortVals_length, List.length_map, ha.len]
    rw [← ha.sorted_split, List.getElem?_append_left (by omega), ← hl, ← List.getLast?_eq_getElem?]
    have hxs : x.1 ∈ sortVals (a.map Prod.fst) :=
      (sortVals_perm _).symm.subset (List.mem_map.mpr ⟨x, hx, rfl⟩)
    cases hm : (sortVals (a.map Prod.fst)).getLast? with
    | none =>
      rw [List.getLast?_eq_none_iff] at hm
      rw [hm] at hxs; simp at hxs
    | some m =>
      have h1 : x.1 ≤ m := sorted_getLast_ge _ (sortVals_sorted _) _ hxs m hm
      have hm' := (sortVals_perm _).subset (List.mem_of_getLast? hm)
      obtain ⟨m0, hm0, rfl⟩ := List.mem_map.mp hm'
      have h2 : m0.1 ≤ x.1 := by rw [exy]; exact ha.near m0 hm0 y hy
      rw [Rat.le_antisymm h1 h2]
  · -- the (k+1)-th smallest distance is the smallest distance left out, which is `y.1 = x.1`
    have hl : (sortVals (a.map Prod.fst)).length = k := by
      rw [sortVals_length, List.length_map, ha.len]
    rw [← ha.sorted_split, List.getElem?_append_right (by omega), hl, Nat.sub_self]
    have hys : y.1 ∈ sortVals (ra.map Prod.fst) :=
      (sortVals_perm _).symm.subset (List.mem_map.mpr ⟨y, hy, rfl⟩)
    cases hs : sortVals (ra.map Prod.fst) with
    | nil => rw [hs] at hys; simp at hys
    | cons m t =>
      have hsorted := sortVals_sorted (ra.map Prod.fst)
      rw [hs] at hys hsorted
      have h1 : m ≤ y.1 := by
        rcases List.mem_cons.mp hys with e | hmem
        · rw [e]; exact Rat.le_refl
        · exact (List.pairwise_cons.mp hsorted).1 _ hmem
      have hm' : m ∈ ra.map Prod.fst := (sortVals_perm _).subset (by rw [hs]; exact List.mem_cons_self ..)
      obtain ⟨m0, hm0, rfl⟩ := List.mem_map.mp hm'
      have h2 : x.1 ≤ m0.1 := ha.near x hx m0 hm0
      simp only [List.getElem?_cons_zero, Option.some.injEq]
      rw [exy] at h2 ⊢
      exact Rat.le_antisymm h1 h2

/-- with a harmless k-th boundary all k-NN selections are the same multiset -/
theorem knnSel_perm_of_boundaryOk {data a ra b rb : List (Rat × Nat)} {k : Nat} (hk : BoundaryOk data k)
    (ha : IsKnnSel data a ra k) (hb : IsKnnSel data b rb k) : a.Perm b :=
  knnSel_perm_of_unambiguous ha hb (unambiguous_of_boundaryOk hk ha)

/-! ## The prediction -/

/-- under the hypothesis of `knnSel_perm_of_unambiguous` the votes, the soft output and the predicted
class do not depend on the selection -/
theorem prediction_determined {data a ra b rb : List (Rat × Nat)} {k : Nat}
    (ha : IsKnnSel data a ra k) (hb : IsKnnSel data b rb k)
    (hu : ∀ x ∈ a, ∀ y ∈ ra, x.1 = y.1 → ∀ z ∈ data, z.1 = x.1 → z.2 = x.2)
    (numClasses : Nat) (w : Rat → Rat) :
    voteCounts numClasses a = voteCounts numClasses b ∧
    softOutput ratArith numClasses w a = softOutput ratArith numClasses w b ∧
    predictClass ratArith numClasses w a = predictClass ratArith numClasses w b := by
  have hp := knnSel_perm_of_unambiguous ha hb hu
  refine ⟨voteCounts_perm numClasses hp, softOutput_perm numClasses w hp, ?_⟩
  unfold predictClass
  rw [softOutput_perm numClasses w hp]

theorem prediction_determined_of_boundaryOk {data a ra b rb : List (Rat × Nat)} {k : Nat}
    (hk : BoundaryOk data k) (ha : IsKnnSel data a ra k) (hb : IsKnnSel data b rb k)
    (numClasses : Nat) (w : Rat → Rat) :
    voteCounts numClasses a = voteCounts numClasses b ∧
    softOutput ratArith numClasses w a = softOutput ratArith numClasses w b ∧
    predictClass ratArith numClasses w a = predictClass ratArith numClasses w b :=
  prediction_determined ha hb (unambiguous_of_boundaryOk hk ha) numClasses w

/-! ## Ties across the boundary between different labels -/

/-- one point of class 1 at distance 1, one point of each class at distance 4, `k = 2`: both
`[(1,1),(4,0)]` and `[(1,1),(4,1)]` are 2-NN selections; the first gives a 1:1 vote (arg max: class 0),
the second a 2:0 vote for class 1. -/
theorem prediction_not_determined_on_ties :
    ∃ (data a ra b rb : List (Rat × Nat)), IsKnnSel data a ra 2 ∧ IsKnnSel data b rb 2 ∧
      predictClass ratArith 2 (fun _ => 1) a ≠ predictClass ratArith 2 (fun _ => 1) b := by
  refine ⟨[(1, 1), (4, 0), (4, 1)], [(1, 1), (4, 0)], [(4, 1)], [(1, 1), (4, 1)], [(4, 0)], ?_, ?_, ?_⟩
  · refine ⟨List.Perm.refl _, rfl, ?_⟩
    intro x hx y hy
    simp only [List.mem_cons, List.not_mem_nil, or_false] at hx hy
    subst hy
    rcases hx with rfl | rfl <;> decide +kernel
  · refine ⟨?_, rfl, ?_⟩
    · exact List.Perm.cons _ (List.Perm.swap _ _ _)
    · intro x hx y hy
      simp only [List.mem_cons, List.not_mem_nil, or_false] at hx hy
      subst hy
      rcases hx with rfl | rfl <;> decide +kernel
  · decide +kernel

end SharkVerif.NN
