/-
The world of all live dataset objects (Model/DatasetShared.lean `World`): every structural operation of the
sharing model is simulated by the value-level operation of Model/Dataset.lean on the slot(s) it names and
leaves the value of every other slot unchanged.
-/
import SharkVerif.Lemmas.DatasetShared
namespace SharkVerif.Dataset.Shared
open SharkVerif.Dataset

variable {ι κ : Type}

def PLabeled.valid (hi : Heap ι) (hl : Heap κ) (p : PLabeled) : Prop := p.inputs.valid hi ∧ p.labels.valid hl

namespace World

/-- every address held by a slot or by a view points into the heaps -/
def Valid (w : World ι κ) : Prop :=
  (∀ p ∈ w.d, p.valid w.hi w.hl) ∧ (∀ pv, some pv ∈ w.v → pv.ds.valid w.hi w.hl)

/-- the values of all slots -/
def absD (w : World ι κ) : List (LabeledData ι κ) := w.d.map (fun p => p.resolve w.hi w.hl)
/-- the values of all views -/
def absV (w : World ι κ) : List (Option (View ι κ)) := w.v.map (fun o => o.map w.resolveView)

theorem plabeled_resolve_append (hi ei : Heap ι) (hl el : Heap κ) (p : PLabeled) (hp : p.valid hi hl) :
    p.resolve (hi ++ ei) (hl ++ el) = p.resolve hi hl := by
  simp only [PLabeled.resolve, resolve_append _ _ _ hp.1, resolve_append _ _ _ hp.2]

theorem plabeled_valid_append (hi ei : Heap ι) (hl el : Heap κ) (p : PLabeled) (hp : p.valid hi hl) :
    p.valid (hi ++ ei) (hl ++ el) := ⟨valid_append _ _ _ hp.1, valid_append _ _ _ hp.2⟩

/-- **growing the heaps changes nothing** for the objects that are alive -/
theorem grow (w : World ι κ) (hv : w.Valid) (ei : Heap ι) (el : Heap κ) :
    let w' : World ι κ := { w with hi := w.hi ++ ei, hl := w.hl ++ el }
    w'.Valid ∧ w'.absD = w.absD ∧ w'.absV = w.absV := by
  refine ⟨⟨fun p hp => plabeled_valid_append _ _ _ _ _ (hv.1 p hp), fun pv hpv => plabeled_valid_append _ _ _ _ _ (hv.2 pv hpv)⟩, ?_, ?_⟩
  · simp only [absD]
    apply List.map_congr_left
    intro p hp
    exact plabeled_resolve_append _ _ _ _ _ (hv.1 p hp)
  · simp only [absV]
    apply List.map_congr_left
    intro o ho
    cases o with
    | none => rfl
    | some pv =>
      simp only [Option.map_some, resolveView, Option.some.injEq]
      rw [plabeled_resolve_append _ _ _ _ _ (hv.2 pv ho)]

/-- re-seating one slot changes the value of that slot only -/
theorem setSlot_spec (w : World ι κ) (hv : w.Valid) (a : Nat) (p : PLabeled) (hp : p.valid w.hi w.hl) :
    (w.setSlot a p).Valid ∧ (w.setSlot a p).absD = w.absD.set a (p.resolve w.hi w.hl) ∧
      (w.setSlot a p).absV = w.absV := by
  refine ⟨⟨?_, hv.2⟩, ?_, rfl⟩
  · intro q hq
    simp only [setSlot] at hq
    rcases List.mem_or_eq_of_mem_set hq with hq | hq
    · exact hv.1 q hq
    · subst hq; exact hp
  · simp [absD, setSlot, List.map_set]

theorem slot_ok (w : World ι κ) (a : Nat) (p : PLabeled) : w.slot a = .ok p ↔ w.d[a]? = some p := by
  simp [slot, ofOpt_ok]

theorem slot_valid (w : World ι κ) (hv : w.Valid) (a : Nat) (p : PLabeled) (h : w.slot a = .ok p) : p.valid w.hi w.hl :=
  hv.1 p (List.mem_of_getElem? ((slot_ok w a p).mp h))

theorem absD_get (w : World ι κ) (a : Nat) (p : PLabeled) (h : w.slot a = .ok p) :
    w.absD[a]? = some (p.resolve w.hi w.hl) := by
  simp [absD, (slot_ok w a p).mp h]

theorem value_eq (w : World ι κ) (a : Nat) : w.value a = (w.absD[a]?).getD LabeledData.empty := by
  simp only [value, absD, List.getElem?_map, List.getD_eq_getElem?_getD]
  cases w.d[a]? <;> simp [PLabeled.resolve, PLabeled.empty, PData.resolve, PData.empty, LabeledData.empty, Data.empty]

/-- an operation that extends the heaps and re-seats slot `a` with a container denoting `x` -/
theorem update_spec (w : World ι κ) (hv : w.Valid) (a : Nat) (hi' : Heap ι) (hl' : Heap κ) (i l : PData)
    (di : Data ι) (dl : Data κ) (hI : Ext w.hi hi' i di) (hL : Ext w.hl hl' l dl) :
    let w' : World ι κ := { w with hi := hi', hl := hl', d := w.d.set a ⟨i, l⟩ }
    w'.Valid ∧ w'.absD = w.absD.set a ⟨di, dl⟩ ∧ w'.absV = w.absV := by
  obtain ⟨⟨ei, rfl⟩, hiv, hir⟩ := hI
  obtain ⟨⟨el, rfl⟩, hlv, hlr⟩ := hL
  obtain ⟨g1, g2, g3⟩ := grow w hv ei el
  have := setSlot_spec _ g1 a ⟨i, l⟩ ⟨hiv, hlv⟩
  simp only [setSlot] at this
  refine ⟨this.1, ?_, this.2.2.trans g3⟩
  rw [this.2.1, g2]
  simp only [PLabeled.resolve, hir, hlr]

end World

/-! ### value-level semantics of the structural operations on a list of slots -/

/-- the structural operations (slots named by index); `store` stands for every operation that builds a fresh
dataset from values (`createLabeledDataFromRange`, `toDataset`, `subBatch` + `push_back`, `LabeledData(n, x, m)`) -/
inductive SOp (ι κ : Type) where
  | copy (a b : Nat)
  | swap (a b : Nat)
  | indep (a : Nat)
  | splitBatch (a b k : Nat)
  | splice (a b k : Nat)
  | repartition (a : Nat) (sizes : List Nat)
  | splitAt (a b k : Nat)
  | append (a b : Nat)
  | pushBack (a b i : Nat)
  | subset (a b : Nat) (idx : List Nat)
  | reorder (a : Nat) (idx : List Nat)
  | store (a : Nat) (x : LabeledData ι κ)
  | mapInputs (a b : Nat) (f : ι → ι) (sh : Shape)
  | mapLabels (a b : Nat) (f : κ → κ) (sh : Shape)
  | view (k a : Nat)
  | viewSubset (k k2 : Nat) (idx : List Nat)

/-- on the sharing model -/
def SOp.run (w : World ι κ) : SOp ι κ → R (World ι κ)
  | .copy a b => w.copy a b
  | .swap a b => w.swap a b
  | .indep a => w.makeIndependent a
  | .splitBatch a b k => w.splitBatch a b k
  | .splice a b k => w.splice a b k
  | .repartition a sizes => w.repartition a sizes
  | .splitAt a b k => w.splitAtElement a b k
  | .append a b => w.append a b
  | .pushBack a b i => w.pushBack a b i
  | .subset a b idx => w.indexedSubset a b idx
  | .reorder a idx => w.reorderElements a idx
  | .store a x => w.store a x
  | .mapInputs a b f sh => w.transformInputs a b f sh
  | .mapLabels a b f sh => w.transformLabels a b f sh
  | .view k a => w.mkView k a
  | .viewSubset k k2 idx => w.viewSubset k k2 idx

/-- on values (every slot owns its elements: copying copies), with the operations of Model/Dataset.lean -/
def SOp.runV (s : List (LabeledData ι κ)) : SOp ι κ → R (List (LabeledData ι κ))
  | .copy a b => do let x ← ofOpt s[a]?; require (b < s.length); pure (s.set b x)
  | .swap a b => do let x ← ofOpt s[a]?; let y ← ofOpt s[b]?; pure ((s.set a y).set b x)
  | .indep a => do let _ ← ofOpt s[a]?; pure s
  | .splitBatch a b k => do let x ← ofOpt s[a]?; pure (s.set a (← x.splitBatch b k))
  | .splice a b k => do
      let x ← ofOpt s[a]?
      require (b < s.length && a != b)
      let (l, r) ← x.splice k
      pure ((s.set a l).set b r)
  | .repartition a sizes => do let x ← ofOpt s[a]?; pure (s.set a (← x.repartitionByLoop sizes))
  | .splitAt a b k => do
      let x ← ofOpt s[a]?
      require (b < s.length && a != b)
      let (l, r) ← x.splitAtElement k
      pure ((s.set a l).set b r)
  | .append a b => do let x ← ofOpt s[a]?; let y ← ofOpt s[b]?; pure (s.set a (x.append y))
  | .pushBack a b i => do
      let x ← ofOpt s[a]?
      let y ← ofOpt s[b]?
      let bi ← ofOpt y.inputs.batches[i]?
      let bl ← ofOpt y.labels.batches[i]?
      pure (s.set a (x.pushBack bi bl))
  | .subset a b idx => do let x ← ofOpt s[a]?; require (b < s.length); pure (s.set b (← x.indexedSubset idx))
  | .reorder a idx => do let x ← ofOpt s[a]?; pure (s.set a (← x.reorderElements idx))
  | .store a x => do require (a < s.length); pure (s.set a x)
  | .mapInputs a b f sh => do let x ← ofOpt s[a]?; require (b < s.length); pure (s.set b (← x.transformInputs f sh))
  | .mapLabels a b f sh => do let x ← ofOpt s[a]?; require (b < s.length); pure (s.set b (← x.transformLabels f sh))
  | .view _ _ => pure s
  | .viewSubset _ _ _ => pure s

end SharkVerif.Dataset.Shared
