/-
Derivative identities (C05) over ℝ: the model's `weightedParameterDerivative` /
`weightedInputDerivative` of the linear, polynomial and Gaussian kernels are the true
derivatives (`HasDerivAt`) of the weighted sum of kernel values, for all batches and
all coefficient matrices.
-/
import Mathlib.Analysis.SpecialFunctions.ExpDeriv
import Mathlib.Analysis.Calculus.Deriv.Pow
import SharkVerif.Model.KernelDerivs
import SharkVerif.Lemmas.Kernels

set_option linter.unusedSectionVars false
set_option linter.unusedVariables false

namespace SharkVerif.Kernels

/-- closes the side goal of `convert … using 1` -/
local macro "dsolve" : tactic => `(tactic| first | rfl | ring | (simp; ring) | (simp only [id]; ring) | (funext q; simp; ring))

/-! ### sums -/

theorem sumRow_congr (f g : ℝ → Point ℝ → ℝ) (h : ∀ c z, f c z = g c z) (cs : List ℝ) (zs : Mat ℝ) :
    sumRow f cs zs = sumRow g cs zs := by
  have : f = g := by funext c z; exact h c z
  rw [this]

theorem sumBlock_congr (f g : ℝ → Point ℝ → Point ℝ → ℝ) (h : ∀ c x z, f c x z = g c x z)
    (C X1 X2 : Mat ℝ) : sumBlock f C X1 X2 = sumBlock g C X1 X2 := by
  have : f = g := by funext c x z; exact h c x z
  rw [this]

theorem sumRow_neg (f : ℝ → Point ℝ → ℝ) : ∀ (cs : List ℝ) (zs : Mat ℝ),
    sumRow (fun c z => -f c z) cs zs = -sumRow f cs zs
  | [], _ => by simp [sumRow]
  | _ :: _, [] => by simp [sumRow]
  | c :: cs, z :: zs => by simp only [sumRow]; rw [sumRow_neg f cs zs]; ring

theorem sumRow_mul_left (a : ℝ) (f : ℝ → Point ℝ → ℝ) : ∀ (cs : List ℝ) (zs : Mat ℝ),
    sumRow (fun c z => a * f c z) cs zs = a * sumRow f cs zs
  | [], _ => by simp [sumRow]
  | _ :: _, [] => by simp [sumRow]
  | c :: cs, z :: zs => by simp only [sumRow]; rw [sumRow_mul_left a f cs zs]; ring

theorem sumRow_sub (f g : ℝ → Point ℝ → ℝ) : ∀ (cs : List ℝ) (zs : Mat ℝ),
    sumRow (fun c z => f c z - g c z) cs zs = sumRow f cs zs - sumRow g cs zs
  | [], _ => by simp [sumRow]
  | _ :: _, [] => by simp [sumRow]
  | c :: cs, z :: zs => by simp only [sumRow]; rw [sumRow_sub f g cs zs]; ring

theorem sumBlock_neg (f : ℝ → Point ℝ → Point ℝ → ℝ) : ∀ (C X1 X2 : Mat ℝ),
    sumBlock (fun c x z => -f c x z) C X1 X2 = -sumBlock f C X1 X2
  | [], _, _ => by simp [sumBlock]
  | _ :: _, [], _ => by simp [sumBlock]
  | crow :: C, x :: X1, X2 => by
      simp only [sumBlock]; rw [sumBlock_neg f C X1 X2, sumRow_neg]; ring

theorem sumBlock_mul_left (a : ℝ) (f : ℝ → Point ℝ → Point ℝ → ℝ) : ∀ (C X1 X2 : Mat ℝ),
    sumBlock (fun c x z => a * f c x z) C X1 X2 = a * sumBlock f C X1 X2
  | [], _, _ => by simp [sumBlock]
  | _ :: _, [], _ => by simp [sumBlock]
  | crow :: C, x :: X1, X2 => by
      simp only [sumBlock]; rw [sumBlock_mul_left a f C X1 X2, sumRow_mul_left]; ring

/-- a sum over a zipped weight row -/
theorem sumRow_zipWith (f : ℝ → Point ℝ → ℝ) (g : ℝ → Point ℝ → ℝ) : ∀ (cs : List ℝ) (zs : Mat ℝ),
    sumRow f (List.zipWith g cs zs) zs = sumRow (fun c z => f (g c z) z) cs zs
  | [], _ => by simp [sumRow]
  | _ :: _, [] => by simp [sumRow]
  | c :: cs, z :: zs => by simp only [List.zipWith_cons_cons, sumRow]; rw [sumRow_zipWith f g cs zs]

theorem hasDerivAt_sumRow (f : ℝ → ℝ → Point ℝ → ℝ) (f' : ℝ → Point ℝ → ℝ) (p : ℝ) :
    ∀ (cs : List ℝ) (zs : Mat ℝ), (∀ c z, z ∈ zs → HasDerivAt (fun q => f q c z) (f' c z) p) →
    HasDerivAt (fun q => sumRow (f q) cs zs) (sumRow f' cs zs) p
  | [], _, _ => by simp only [sumRow]; exact hasDerivAt_const p 0
  | _ :: _, [], _ => by simp only [sumRow]; exact hasDerivAt_const p 0
  | c :: cs, z :: zs, h => by
      simp only [sumRow]
      exact (h c z (List.mem_cons_self)).add
        (hasDerivAt_sumRow f f' p cs zs fun c' z' hz' => h c' z' (List.mem_cons_of_mem _ hz'))

theorem hasDerivAt_sumBlock (f : ℝ → ℝ → Point ℝ → Point ℝ → ℝ) (f' : ℝ → Point ℝ → Point ℝ → ℝ) (p : ℝ)
    (h : ∀ c x z, HasDerivAt (fun q => f q c x z) (f' c x z) p) :
    ∀ (C X1 X2 : Mat ℝ), HasDerivAt (fun q => sumBlock (f q) C X1 X2) (sumBlock f' C X1 X2) p
  | [], _, _ => by simp only [sumBlock]; exact hasDerivAt_const p 0
  | _ :: _, [], _ => by simp only [sumBlock]; exact hasDerivAt_const p 0
  | crow :: C, x :: X1, X2 => by
      simp only [sumBlock]
      exact (hasDerivAt_sumRow (fun q c z => f q c x z) (fun c z => f' c x z) p crow X2
        fun c z _ => h c x z).add (hasDerivAt_sumBlock f f' p h C X1 X2)

theorem ofNatS_eq_cast : ∀ n : ℕ, (ofNatS n : ℝ) = (n : ℝ)
  | 0 => by simp [ofNatS]
  | n + 1 => by simp [ofNatS, ofNatS_eq_cast n]

theorem safeDiv_pow (b : ℝ) (d : ℕ) (hd : 2 ≤ d) : safeDiv (powNat b d) b = b ^ (d - 1) := by
  unfold safeDiv
  rw [powNat_eq_pow]
  by_cases hb : b = 0
  · subst hb
    have : d - 1 ≠ 0 := by omega
    simp [this]
  · have hbeq : (b == 0) = false := by simpa using hb
    rw [hbeq]
    obtain ⟨e, rfl⟩ : ∃ e, d = e + 1 := ⟨d - 1, by omega⟩
    simp only [Bool.false_eq_true, if_false, Nat.add_sub_cancel]
    rw [pow_succ]; field_simp

/-! ### scalar derivative facts -/

theorem scal_gauss_param (c D γ : ℝ) :
    HasDerivAt (fun g : ℝ => c * Real.exp (-g * D)) (-(c * Real.exp (-γ * D) * D)) γ := by
  have h1 : HasDerivAt (fun g : ℝ => g * (-D)) (-D) γ := hasDerivAt_mul_const (-D)
  have h2 := (h1.exp).const_mul c
  have e : (fun g : ℝ => c * Real.exp (-g * D)) = fun g => c * Real.exp (g * -D) := by
    funext g; rw [neg_mul, mul_neg]
  rw [e]
  exact h2.congr_deriv (by simp only [neg_mul, mul_neg]; ring)

theorem scal_pow_comp (f : ℝ → ℝ) (f' a : ℝ) (hf : HasDerivAt f f' a) (d : ℕ) (c : ℝ) :
    HasDerivAt (fun s => c * (f s) ^ d) (c * ((d : ℝ) * (f a) ^ (d - 1) * f')) a := by
  have h2 : HasDerivAt (fun s => (f s) ^ d) ((d : ℝ) * (f a) ^ (d - 1) * f') a :=
    (hasDerivAt_pow d (f a)).comp a hf
  exact h2.const_mul c

theorem scal_poly_param (c D off : ℝ) (d : ℕ) :
    HasDerivAt (fun o : ℝ => c * (D + o) ^ d) ((d : ℝ) * ((D + off) ^ (d - 1) * c)) off := by
  have h1 : HasDerivAt (fun o : ℝ => D + o) 1 off := (hasDerivAt_id' off).const_add D
  have h := scal_pow_comp (fun o => D + o) 1 off h1 d c
  exact h.congr_deriv (by ring)

theorem scal_poly_input (c D off a zt : ℝ) (d : ℕ) :
    HasDerivAt (fun s : ℝ => c * (D + (s - a) * zt + off) ^ d)
      ((d : ℝ) * (c * (D + off) ^ (d - 1) * zt)) a := by
  have h1 : HasDerivAt (fun s : ℝ => D + (s - a) * zt + off) zt a := by
    have h0 : HasDerivAt (fun s : ℝ => s - a) 1 a := (hasDerivAt_id' a).sub_const a
    have := ((h0.mul_const zt).const_add D).add_const off
    exact this.congr_deriv (by ring)
  have h := scal_pow_comp (fun s => D + (s - a) * zt + off) zt a h1 d c
  exact h.congr_deriv (by simp only [sub_self, zero_mul, add_zero]; ring)

theorem scal_gauss_input (c γ D0 a zt : ℝ) :
    HasDerivAt (fun s : ℝ => c * Real.exp (-γ * (D0 + ((s - zt) * (s - zt) - (a - zt) * (a - zt)))))
      (c * (Real.exp (-γ * D0) * (-γ * (2 * (a - zt))))) a := by
  have h0 : HasDerivAt (fun s : ℝ => s - zt) 1 a := (hasDerivAt_id' a).sub_const zt
  have h1 : HasDerivAt (fun s : ℝ => D0 + ((s - zt) * (s - zt) - (a - zt) * (a - zt))) (2 * (a - zt)) a := by
    have := ((h0.mul h0).sub_const ((a - zt) * (a - zt))).const_add D0
    exact this.congr_deriv (by ring)
  have h := ((h1.const_mul (-γ)).exp).const_mul c
  exact h.congr_deriv (by simp only [sub_self, add_zero])

/-! ### parameter derivatives -/

/-- Gaussian kernel, derivative with respect to γ -/
theorem gauss_param_hasDerivAt (sqrt : ℝ → ℝ) (γ : ℝ) (C X1 X2 : Mat ℝ) :
    HasDerivAt (fun g => weightedSum ((Kern.gauss g).eval Real.exp sqrt) C X1 X2)
      (gaussParamDeriv Real.exp γ C X1 X2) γ := by
  unfold weightedSum gaussParamDeriv
  have key := hasDerivAt_sumBlock
    (fun g c x z => c * (Kern.gauss g).eval Real.exp sqrt x z)
    (fun c x z => -(c * Real.exp (-γ * distSqr x z) * distSqr x z)) γ
    (fun c x z => by
      simp only [Kern.eval, distSqr_comm z x]
      exact scal_gauss_param c (distSqr x z) γ) C X1 X2
  rw [sumBlock_neg] at key
  exact key

/-- polynomial kernel (degree ≥ 1 fixed), derivative with respect to the offset -/
theorem poly_param_hasDerivAt (exp sqrt : ℝ → ℝ) (d : ℕ) (hd : 1 ≤ d) (off : ℝ) (C X1 X2 : Mat ℝ) :
    HasDerivAt (fun c => weightedSum ((Kern.poly d c).eval exp sqrt) C X1 X2)
      (polyParamDeriv d off C X1 X2) off := by
  unfold weightedSum polyParamDeriv
  by_cases h1 : d = 1
  · subst h1
    rw [if_pos rfl]
    exact hasDerivAt_sumBlock (fun o c x z => c * (Kern.poly 1 o).eval exp sqrt x z) (fun c _ _ => c) off
      (fun c x z => by
        simp only [Kern.eval, powNat_eq_pow]
        have h := scal_poly_param c (dot x z) off 1
        exact h.congr_deriv (by simp)) C X1 X2
  · rw [if_neg h1]
    have hd2 : 2 ≤ d := by omega
    have key := hasDerivAt_sumBlock (fun o c x z => c * (Kern.poly d o).eval exp sqrt x z)
      (fun c x z => ofNatS d * (safeDiv (powNat (dot x z + off) d) (dot x z + off) * c)) off
      (fun c x z => by
        simp only [Kern.eval, safeDiv_pow _ d hd2]
        simp only [powNat_eq_pow, ofNatS_eq_cast]
        exact scal_poly_param c (dot x z) off d) C X1 X2
    rw [sumBlock_mul_left] at key
    exact key

/-- the linear kernel has no parameters: the weighted sum does not depend on any -/
theorem linear_param_const (exp sqrt : ℝ → ℝ) (C X1 X2 : Mat ℝ) (p : ℝ) :
    HasDerivAt (fun _ : ℝ => weightedSum ((Kern.linear : Kern ℝ).eval exp sqrt) C X1 X2) 0 p :=
  hasDerivAt_const p _

/-! ### input derivatives (with respect to coordinate `t` of the point `x = x1ᵢ`) -/

theorem dot_set : ∀ (x z : Point ℝ) (t : ℕ) (s : ℝ), t < x.length →
    dot (x.set t s) z = dot x z + (s - x.getD t 0) * z.getD t 0
  | [], _, _, _, h => by simp at h
  | a :: x, [], t, s, _ => by cases t <;> simp [dot_nil_right]
  | a :: x, b :: z, 0, s, _ => by simp; ring
  | a :: x, b :: z, t + 1, s, h => by
      have h' : t < x.length := by simpa using h
      simp only [List.set_cons_succ, dot_cons, List.getD_cons_succ]
      rw [dot_set x z t s h']; ring

theorem distSqr_set : ∀ (x z : Point ℝ) (t : ℕ) (s : ℝ), t < x.length → t < z.length →
    distSqr (x.set t s) z =
      distSqr x z + ((s - z.getD t 0) * (s - z.getD t 0) - (x.getD t 0 - z.getD t 0) * (x.getD t 0 - z.getD t 0))
  | [], _, _, _, h, _ => by simp at h
  | _ :: _, [], _, _, _, h => by simp at h
  | a :: x, b :: z, 0, s, _, _ => by simp; ring
  | a :: x, b :: z, t + 1, s, h, hz => by
      have h' : t < x.length := by simpa using h
      have hz' : t < z.length := by simpa using hz
      simp only [List.set_cons_succ, distSqr_cons, List.getD_cons_succ]
      rw [distSqr_set x z t s h' hz']; ring

theorem getD_gemmRow (w : List ℝ) (X2 : Mat ℝ) (dim t : ℕ) (ht : t < dim) :
    (gemmRow w X2 dim).getD t 0 = colSum w X2 t := by
  simp [gemmRow, List.getD_eq_getElem?_getD, ht]

/-- linear kernel: entry `t` of row `i` of `prod(C, X2)` is `∂/∂xₜ Σⱼ cⱼ ⟨x, zⱼ⟩` -/
theorem linear_input_hasDerivAt (exp sqrt : ℝ → ℝ) (crow : List ℝ) (x : Point ℝ) (X2 : Mat ℝ) (t : ℕ)
    (ht : t < x.length) (s₀ : ℝ) :
    HasDerivAt (fun s => sumRow (fun c z => c * (Kern.linear : Kern ℝ).eval exp sqrt (x.set t s) z) crow X2)
      ((gemmRow crow X2 x.length).getD t 0) s₀ := by
  rw [getD_gemmRow _ _ _ _ ht]
  unfold colSum
  exact hasDerivAt_sumRow (fun s c z => c * (Kern.linear : Kern ℝ).eval exp sqrt (x.set t s) z)
    (fun c z => c * z.getD t 0) s₀ crow X2 (fun c z _ => by
      simp only [Kern.eval, dot_set x z t _ ht]
      have h0 : HasDerivAt (fun s : ℝ => s - x.getD t 0) 1 s₀ := (hasDerivAt_id' s₀).sub_const _
      have h := (((h0.mul_const (z.getD t 0)).const_add (dot x z))).const_mul c
      exact h.congr_deriv (by ring))

/-- polynomial kernel (degree ≥ 2): entry `t` of row `i` of `d · prod(weights, X2)` is the derivative
of `Σⱼ cⱼ (⟨x,zⱼ⟩+off)^d` with respect to coordinate `t` of `x` -/
theorem poly_input_hasDerivAt (exp sqrt : ℝ → ℝ) (d : ℕ) (hd : 2 ≤ d) (off : ℝ) (crow : List ℝ) (x : Point ℝ)
    (X2 : Mat ℝ) (t : ℕ) (ht : t < x.length) :
    HasDerivAt (fun s => sumRow (fun c z => c * (Kern.poly d off).eval exp sqrt (x.set t s) z) crow X2)
      ((polyInputRow d off crow x X2).getD t 0) (x.getD t 0) := by
  have hrow : (polyInputRow d off crow x X2).getD t 0 =
      sumRow (fun c z => ofNatS d * ((c * safeDiv (powNat (dot x z + off) d) (dot x z + off)) * z.getD t 0)) crow X2 := by
    unfold polyInputRow
    rw [List.getD_eq_getElem?_getD, List.getElem?_map]
    have : (gemmRow (polyWeights d off crow x X2) X2 x.length)[t]? = some (colSum (polyWeights d off crow x X2) X2 t) := by
      simp [gemmRow, ht]
    rw [this]
    simp only [Option.map_some, Option.getD_some]
    unfold colSum polyWeights
    rw [sumRow_zipWith, ← sumRow_mul_left]
  rw [hrow]
  exact hasDerivAt_sumRow (fun s c z => c * (Kern.poly d off).eval exp sqrt (x.set t s) z) _ (x.getD t 0) crow X2
    (fun c z _ => by
      simp only [Kern.eval, safeDiv_pow _ d hd, dot_set x z t _ ht]
      simp only [powNat_eq_pow, ofNatS_eq_cast]
      exact scal_poly_input c (dot x z) off (x.getD t 0) (z.getD t 0) d)

/-- Gaussian kernel: entry `t` of row `i` of `weightedInputDerivative` is the derivative of
`Σⱼ cⱼ exp(-γ‖x−zⱼ‖²)` with respect to coordinate `t` of `x` (all `zⱼ` at least `t+1` long) -/
theorem gauss_input_hasDerivAt (sqrt : ℝ → ℝ) (γ : ℝ) (crow : List ℝ) (x : Point ℝ) (X2 : Mat ℝ) (t : ℕ)
    (ht : t < x.length) (hz : ∀ z ∈ X2, t < z.length) :
    HasDerivAt (fun s => sumRow (fun c z => c * (Kern.gauss γ).eval Real.exp sqrt (x.set t s) z) crow X2)
      ((gaussInputRow Real.exp γ crow x X2).getD t 0) (x.getD t 0) := by
  have hrow : (gaussInputRow Real.exp γ crow x X2).getD t 0 =
      sumRow (fun c z => c * (Real.exp (-γ * distSqr x z) * (-γ * (2 * (x.getD t 0 - z.getD t 0))))) crow X2 := by
    unfold gaussInputRow
    have hsel : ∀ f : ℕ → ℝ, ((List.range x.length).map f).getD t 0 = f t := by
      intro f; simp [List.getD_eq_getElem?_getD, ht]
    simp only [hsel]
    unfold colSum gaussWeights
    rw [sumRow_zipWith, sumRow_zipWith]
    have e : (fun (c : ℝ) (z : Point ℝ) => c * (Real.exp (-γ * distSqr x z) * (-γ * (2 * (x.getD t 0 - z.getD t 0))))) =
        fun c z => (two * γ) * (c * Real.exp (-γ * distSqr x z) * z.getD t 0 -
          c * Real.exp (-γ * distSqr x z) * x.getD t 0) := by
      funext c z; simp only [two]; ring
    rw [e, sumRow_mul_left, sumRow_sub]
    have e2 : (fun (c : ℝ) (z : Point ℝ) => c * Real.exp (-γ * distSqr x z) * x.getD t 0) =
        fun c z => x.getD t 0 * (c * Real.exp (-γ * distSqr x z)) := by
      funext c z; ring
    rw [e2, sumRow_mul_left]
    ring
  rw [hrow]
  exact hasDerivAt_sumRow (fun s c z => c * (Kern.gauss γ).eval Real.exp sqrt (x.set t s) z) _ (x.getD t 0) crow X2
    (fun c z hzm => by
      have hzt := hz z hzm
      have hdist : ∀ s, distSqr z (x.set t s) =
          distSqr x z + ((s - z.getD t 0) * (s - z.getD t 0) - (x.getD t 0 - z.getD t 0) * (x.getD t 0 - z.getD t 0)) := by
        intro s; rw [distSqr_comm, distSqr_set x z t s ht hzt]
      simp only [Kern.eval, hdist]
      exact scal_gauss_input c γ (distSqr x z) (x.getD t 0) (z.getD t 0))

end SharkVerif.Kernels
