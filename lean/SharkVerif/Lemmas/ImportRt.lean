/-
C19: the class-label mappings of `exportSparseData` (`label + 1`, and `2·label - 1` for two classes with
`oneMinusOne`) are undone by the label logic of `libsvm_importer_classification`; sparse records.
Core Lean only.
-/
import SharkVerif.Lemmas.Import
namespace SharkVerif.Import

theorem scan_minPos_ge (k : Int) (ls : List Int) (hk : ∀ l ∈ ls, k ≤ l) :
    ∀ s : LabelScan, k ≤ s.minPos → k ≤ (ls.foldl LabelScan.step s).minPos := by
  induction ls with
  | nil => intro s h; exact h
  | cons a t ih =>
    intro s h
    simp only [List.foldl_cons]
    apply ih (fun l hl => hk l (by simp [hl]))
    unfold LabelScan.step
    split
    · exact h
    · split
      · exact hk a (by simp)
      · split <;> exact h

/-- labels written as `class + 1` (the LibSVM exporter without `oneMinusOne`) come back as the class indices,
provided class 0 occurs -/
theorem classLabels_succ (ls : List Nat) (h0 : 0 ∈ ls) :
    classLabels (ls.map fun (l : Nat) => some ((l : Int) + 1)) = some ls := by
  have hmap : (ls.map fun (l : Nat) => some ((l : Int) + 1)) = (ls.map fun (l : Nat) => (l : Int) + 1).map some := by simp
  unfold classLabels
  rw [hmap, allSome_map_some]
  simp only
  have hge : ∀ l ∈ (ls.map fun (l : Nat) => (l : Int) + 1), 1 ≤ l := by
    intro l hl; obtain ⟨n, _, rfl⟩ := List.mem_map.mp hl; omega
  have hnn : ∀ l ∈ (ls.map fun (l : Nat) => (l : Int) + 1), 0 ≤ l := fun l hl => by have := hge l hl; omega
  have hany : (ls.map fun (l : Nat) => (l : Int) + 1).any (fun l => decide (l < -1)) = false := by
    rw [List.any_eq_false]; intro l hl; have := hnn l hl; simp; omega
  rw [hany]
  simp only [Bool.false_eq_true, if_false]
  have hs := scan_nonneg _ hnn {} rfl (by decide)
  have hlo := scan_minPos_ge 1 _ hge {} (by decide)
  have h1 : (1 : Int) ∈ (ls.map fun (l : Nat) => (l : Int) + 1) := List.mem_map.mpr ⟨0, h0, by simp⟩
  have hmin : (scanLabels (ls.map fun (l : Nat) => (l : Int) + 1)).minPos = 1 := by
    have := hs.2.2.2 1 h1; unfold scanLabels; omega
  have hok : (scanLabels (ls.map fun (l : Nat) => (l : Int) + 1)).ok = true := by
    unfold LabelScan.ok; simp [hmin]
  rw [hok]
  simp only [if_true, Option.some.injEq]
  have hb : (scanLabels (ls.map fun (l : Nat) => (l : Int) + 1)).binary = false := hs.1
  rw [List.map_map]
  conv => rhs; rw [← List.map_id ls]
  apply List.map_congr_left
  intro l _
  simp [normLabel, hb, hmin]

theorem scan_pm1 (ls : List Int) (h : ∀ l ∈ ls, l = -1 ∨ l = 1) : ∀ s : LabelScan, 0 ≤ s.minPos →
    0 ≤ (ls.foldl LabelScan.step s).minPos ∧
    ((-1 ∈ ls ∨ s.binary = true) → (ls.foldl LabelScan.step s).binary = true) := by
  induction ls with
  | nil =>
    intro s hm
    refine ⟨hm, fun h => ?_⟩
    rcases h with h | h
    · simp at h
    · exact h
  | cons a t ih =>
    intro s hm
    simp only [List.foldl_cons]
    have ha := h a (by simp)
    have hst : 0 ≤ (s.step a).minPos ∧ ((a = -1 ∨ s.binary = true) → (s.step a).binary = true) := by
      unfold LabelScan.step
      rcases ha with rfl | rfl
      · simp [hm]
      · rw [if_neg (by decide)]
        split
        · refine ⟨by simp, fun h => ?_⟩
          rcases h with h | h
          · exact absurd h (by decide)
          · simpa using h
        · split
          · refine ⟨hm, fun h => ?_⟩
            rcases h with h | h
            · exact absurd h (by decide)
            · simpa using h
          · refine ⟨hm, fun h => ?_⟩
            rcases h with h | h
            · exact absurd h (by decide)
            · exact h
    have := ih (fun l hl => h l (by simp [hl])) (s.step a) hst.1
    refine ⟨this.1, fun hh => this.2 ?_⟩
    rcases hh with hh | hh
    · rcases List.mem_cons.mp hh with hh | hh
      · exact Or.inr (hst.2 (Or.inl hh.symm))
      · exact Or.inl hh
    · exact Or.inr (hst.2 (Or.inr hh))

/-- two classes written as `-1` / `+1` (`oneMinusOne`) come back as `0` / `1`, provided class 0 occurs -/
theorem classLabels_pm1 (ls : List Nat) (h0 : 0 ∈ ls) (h1 : ∀ l ∈ ls, l ≤ 1) :
    classLabels (ls.map fun (l : Nat) => some (2 * (l : Int) - 1)) = some ls := by
  have hmap : (ls.map fun (l : Nat) => some (2 * (l : Int) - 1)) = (ls.map fun (l : Nat) => 2 * (l : Int) - 1).map some := by simp
  unfold classLabels
  rw [hmap, allSome_map_some]
  simp only
  have hpm : ∀ l ∈ (ls.map fun (l : Nat) => 2 * (l : Int) - 1), l = -1 ∨ l = 1 := by
    intro l hl; obtain ⟨n, hn, rfl⟩ := List.mem_map.mp hl; have := h1 n hn; omega
  have hany : (ls.map fun (l : Nat) => 2 * (l : Int) - 1).any (fun l => decide (l < -1)) = false := by
    rw [List.any_eq_false]; intro l hl; rcases hpm l hl with h | h <;> simp [h]
  rw [hany]
  simp only [Bool.false_eq_true, if_false]
  have hs := scan_pm1 _ hpm {} (by decide)
  have hm1 : (-1 : Int) ∈ (ls.map fun (l : Nat) => 2 * (l : Int) - 1) := List.mem_map.mpr ⟨0, h0, by simp⟩
  have hb : (scanLabels (ls.map fun (l : Nat) => 2 * (l : Int) - 1)).binary = true := hs.2 (Or.inl hm1)
  have hok : (scanLabels (ls.map fun (l : Nat) => 2 * (l : Int) - 1)).ok = true := by
    unfold LabelScan.ok
    have : 0 ≤ (scanLabels (ls.map fun (l : Nat) => 2 * (l : Int) - 1)).minPos := hs.1
    simp [this]
  rw [hok]
  simp only [if_true, Option.some.injEq]
  rw [List.map_map]
  conv => rhs; rw [← List.map_id ls]
  apply List.map_congr_left
  intro l hl
  have := h1 l hl
  have hl01 : l = 0 ∨ l = 1 := by omega
  rcases hl01 with rfl | rfl <;> simp [normLabel, hb] <;> decide

end SharkVerif.Import
