/-
`HypervolumeContribution3D`, stage C (continued):
(1) the left cut preserves the chain invariant `ChainR` (`cutBoxesOnTheLeft_chain`);
(2) the boxes created for the new point (`newBox` and one `leftBox` per dominated point) form a chain and
    tile the region covered by the new point between its neighbours and not covered by the dominated points
    (`newBoxes_chain`, `newBoxes_mem`), and the fold of `step3c` builds exactly these boxes (`domFold_boxes`).

Core Lean only.
-/
import SharkVerif.Lemmas.Contrib3DC
namespace SharkVerif.HV
open SharkVerif.Pareto

/-! ### (1) the left cut preserves the chain -/

theorem cutLeftGo_cons (p : P3) (b : Box) (rest : List Box) (acc : Int) :
    cutLeftGo p (b :: rest) acc =
      if p.f1 < b.l1 then cutLeftGo p rest (acc + { b with u3 := p.f3 }.volume)
      else if p.f1 < b.u1 then
        ({ b with u3 := p.f3, u1 := p.f1, l3 := p.f3 } :: rest, acc + { b with u3 := p.f3 }.volume)
      else (b :: rest, acc) := by
  rw [cutLeftGo]

theorem cutLeftGo_append (p : P3) : ∀ (A B : List Box) (acc : Int),
    cutLeftGo p (A ++ B) acc =
      if (cutLeftGo p A acc).1 = [] then cutLeftGo p B (cutLeftGo p A acc).2
      else ((cutLeftGo p A acc).1 ++ B, (cutLeftGo p A acc).2)
  | [], B, acc => by simp [cutLeftGo]
  | a :: A, B, acc => by
    rw [List.cons_append, cutLeftGo_cons p a (A ++ B), cutLeftGo_cons p a A]
    by_cases h1 : p.f1 < a.l1
    · simp only [h1, if_true]
      exact cutLeftGo_append p A B _
    · by_cases h2 : p.f1 < a.u1
      · simp [h1, h2]
      · simp [h1, h2]

theorem cutBoxesOnTheLeft_cons (b : Box) (rest : List Box) (p : P3) :
    (cutBoxesOnTheLeft (b :: rest) p).1 =
      if (cutBoxesOnTheLeft rest p).1 = [] then (cutLeftGo p [b] (cutLeftGo p rest.reverse 0).2).1.reverse
      else b :: (cutBoxesOnTheLeft rest p).1 := by
  unfold cutBoxesOnTheLeft
  simp only [List.reverse_cons, cutLeftGo_append, List.reverse_eq_nil_iff]
  split
  · rfl
  · simp

/-- **the left cut preserves the chain** -/
theorem cutBoxesOnTheLeft_chain (p : P3) (y0 : Int) : ∀ (l : List Box) (x0 top : Int),
    ChainR y0 x0 top l → ChainR y0 x0 top (cutBoxesOnTheLeft l p).1
  | [], _, _, _ => by simp [cutBoxesOnTheLeft, cutLeftGo, ChainR]
  | b :: rest, x0, top, h => by
    obtain ⟨h1, h2, h3, h4, h5⟩ := h
    have ih := cutBoxesOnTheLeft_chain p y0 rest b.u1 b.u2 h5
    rw [cutBoxesOnTheLeft_cons]
    split
    · simp only [cutLeftGo]
      split
      · trivial
      · split
        · rename_i hh _
          exact ⟨h1, h2, by simp only; omega, h4, trivial⟩
        · exact ⟨h1, h2, h3, h4, trivial⟩
    · exact ⟨h1, h2, h3, h4, ih⟩

/-! ### (2) the boxes of the new point -/

/-- `f1` of the first of the dominated points (in front order), `xr = right.f1` if there is none -/
def nextX3 (xr : Int) : List P3 → Int
  | [] => xr
  | d :: _ => d.f1

/-- the `leftBox`es of the dominated points `ds` (in front order) -/
def leftBoxes (point : P3) (xr : Int) : List P3 → List Box
  | [] => []
  | d :: rest =>
    { l1 := d.f1, l2 := point.f2, l3 := point.f3, u1 := nextX3 xr rest, u2 := d.f2, u3 := point.f3 } ::
      leftBoxes point xr rest

/-- `boxlists[i]` after the iteration of `point` -/
def newBoxes (point : P3) (leftf2 xr : Int) (ds : List P3) : List Box :=
  { l1 := point.f1, l2 := point.f2, l3 := point.f3, u1 := nextX3 xr ds, u2 := leftf2, u3 := point.f3 } ::
    leftBoxes point xr ds

/-- the dominated points continue the staircase: `lo1 ≤ d₁.f1 ≤ … ≤ xr`, `hi2 ≥ d₁.f2 ≥ …` -/
def StairD (xr : Int) : Int → Int → List P3 → Prop
  | lo1, _, [] => lo1 ≤ xr
  | lo1, hi2, d :: rest => lo1 ≤ d.f1 ∧ d.f2 ≤ hi2 ∧ StairD xr d.f1 d.f2 rest

theorem StairD.bounds {xr : Int} : ∀ {ds : List P3} {lo1 hi2 : Int}, StairD xr lo1 hi2 ds →
    lo1 ≤ nextX3 xr ds ∧ nextX3 xr ds ≤ xr ∧ ∀ d ∈ ds, nextX3 xr ds ≤ d.f1
  | [], _, _, h => ⟨h, Int.le_refl _, by simp⟩
  | d :: rest, lo1, hi2, h => by
    obtain ⟨b1, b2, b3⟩ := StairD.bounds h.2.2
    refine ⟨h.1, by simp only [nextX3]; omega, ?_⟩
    intro d' hd'
    simp only [nextX3]
    rcases List.mem_cons.mp hd' with rfl | hd'
    · exact Int.le_refl _
    · have := b3 d' hd'; omega

theorem leftBoxes_chain (point : P3) (xr : Int) : ∀ (ds : List P3) (lo1 hi2 : Int), StairD xr lo1 hi2 ds →
    ChainR point.f2 (nextX3 xr ds) hi2 (leftBoxes point xr ds)
  | [], _, _, _ => trivial
  | d :: rest, _, _, h =>
    ⟨rfl, rfl, (StairD.bounds h.2.2).1, h.2.1, leftBoxes_chain point xr rest d.f1 d.f2 h.2.2⟩

/-- **the boxes of the new point form a chain** from `point.f1`, below `left.f2` -/
theorem newBoxes_chain (point : P3) (leftf2 xr : Int) (ds : List P3) (h : StairD xr point.f1 leftf2 ds) :
    ChainR point.f2 point.f1 leftf2 (newBoxes point leftf2 xr ds) :=
  ⟨rfl, rfl, (StairD.bounds h).1, Int.le_refl _, leftBoxes_chain point xr ds _ _ h⟩

theorem leftBoxes_mem (point : P3) (xr : Int) (x y : Int) : ∀ (ds : List P3) (lo1 hi2 : Int),
    StairD xr lo1 hi2 ds →
    (inBoxes (leftBoxes point xr ds) x y ↔
      (nextX3 xr ds ≤ x ∧ x < xr ∧ point.f2 ≤ y ∧ y < hi2 ∧ ∀ d ∈ ds, ¬ (d.f1 ≤ x ∧ d.f2 ≤ y)))
  | [], _, _, _ => by
    simp only [leftBoxes, inBoxes_nil, nextX3, false_iff]
    omega
  | d :: rest, _, hi2, h => by
    obtain ⟨b1, b2, b3⟩ := StairD.bounds h.2.2
    have hd2 := h.2.1
    have hn : nextX3 xr (d :: rest) = d.f1 := rfl
    rw [leftBoxes, inBoxes_cons, leftBoxes_mem point xr x y rest d.f1 d.f2 h.2.2, hn]
    simp only [Box.has, List.mem_cons, forall_eq_or_imp]
    constructor
    · rintro (⟨a1, a2, a3, a4⟩ | ⟨a1, a2, a3, a4, a5⟩)
      · refine ⟨a1, by omega, a3, by omega, by omega, ?_⟩
        intro d' hd'
        have := b3 d' hd'
        omega
      · exact ⟨by omega, a2, a3, by omega, by omega, a5⟩
    · rintro ⟨a1, a2, a3, a4, a5, a6⟩
      by_cases hx : x < nextX3 xr rest
      · exact Or.inl ⟨a1, hx, a3, by omega⟩
      · exact Or.inr ⟨by omega, a2, a3, by omega, a6⟩

/-- **the boxes of the new point tile** the part of its quadrant between its neighbours (`x < right.f1`,
`y < left.f2`) that is not covered by the points it dominates in x-y -/
theorem newBoxes_mem (point : P3) (leftf2 xr : Int) (ds : List P3) (h : StairD xr point.f1 leftf2 ds)
    (x y : Int) :
    inBoxes (newBoxes point leftf2 xr ds) x y ↔
      (point.f1 ≤ x ∧ x < xr ∧ point.f2 ≤ y ∧ y < leftf2 ∧ ∀ d ∈ ds, ¬ (d.f1 ≤ x ∧ d.f2 ≤ y)) := by
  obtain ⟨b1, b2, b3⟩ := StairD.bounds h
  rw [newBoxes, inBoxes_cons, leftBoxes_mem point xr x y ds _ _ h]
  simp only [Box.has]
  constructor
  · rintro (⟨a1, a2, a3, a4⟩ | ⟨a1, a2, a3, a4, a5⟩)
    · refine ⟨a1, by omega, a3, a4, ?_⟩
      intro d hd
      have := b3 d hd
      omega
    · exact ⟨by omega, a2, a3, a4, a5⟩
  · rintro ⟨a1, a2, a3, a4, a5⟩
    by_cases hx : x < nextX3 xr ds
    · exact Or.inl ⟨a1, hx, a3, a4⟩
    · exact Or.inr ⟨by omega, a2, a3, a4, a5⟩

/-- the body of the loop over the dominated points in `step3c` -/
def domStep (pts : Array P3) (boxes : Array (List Box)) (point : P3)
    (acc : Array Int × List Box × Int) (d : Nat) : Array Int × List Box × Int :=
  let (contrib, mine, xright) := acc
  let dp := pts.getD d ⟨0, 0, 0, 0⟩
  let contrib := (boxes.getD d []).foldl (fun c b => addC c d { b with u3 := point.f3 }.volume) contrib
  let leftBox : Box := { l1 := dp.f1, l2 := point.f2, l3 := point.f3, u1 := xright, u2 := dp.f2, u3 := point.f3 }
  (contrib, leftBox :: mine, dp.f1)

/-- the loop over the (reversed) dominated points builds exactly `leftBoxes`, and leaves `xright = nextX3` -/
theorem domFold_boxes (pts : Array P3) (boxes : Array (List Box)) (point : P3) (c0 : Array Int)
    (mine0 : List Box) (xr : Int) : ∀ (idxs : List Nat),
    (idxs.reverse.foldl (domStep pts boxes point) (c0, mine0, xr)).2 =
      (leftBoxes point xr (idxs.map fun d => pts.getD d ⟨0, 0, 0, 0⟩) ++ mine0,
        nextX3 xr (idxs.map fun d => pts.getD d ⟨0, 0, 0, 0⟩))
  | [] => rfl
  | d :: rest => by
    have ih := domFold_boxes pts boxes point c0 mine0 xr rest
    rw [List.reverse_cons, List.foldl_append]
    generalize rest.reverse.foldl (domStep pts boxes point) (c0, mine0, xr) = acc at ih
    obtain ⟨c, m, x⟩ := acc
    simp only at ih
    obtain ⟨rfl, rfl⟩ := Prod.mk.inj ih
    rfl

end SharkVerif.HV
