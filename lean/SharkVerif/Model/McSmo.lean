/-
Model of `shark::QpMcBoxDecomp<Matrix>` (include/shark/Algorithms/QP/QpMcBoxDecomp.h)
and of the analytic sub-solvers it calls
(`detail::solveQuadraticEdge`, `detail::solveQuadratic2DBox`,
include/shark/Algorithms/QP/Impl/AnalyticProblems.h).

The state mirrors the C++ members one to one; vectors and the per-example /
per-variable tables are functions on `Nat` (updated pointwise), the kernel
matrix is a function `K` on ORIGINAL example indices — the C++ matrix object is
flipped (`flipColumnsAndRows`) whenever two examples are exchanged, so the entry
at current positions `(i, a)` is `K (ex i).index (ex a).index` (that the cache
really returns those entries is property C09).  `M` is the kernel-modifier
table (`QpSparseArray`, `Model/McSparse.lean`, in the checks: the tables
generated from CSvmTrainer.h).

Every function performs the same arithmetic operations in the same order as the
C++ (so the `Float` instance is bit-comparable); the theorems are about the
`Rat` instance.  Core Lean only.
-/
import SharkVerif.Model.McSparse
namespace SharkVerif.Mc

/-- pointwise update of a vector -/
@[noinline] def upd {β : Type} (f : Nat → β) (i : Nat) (v : β) : Nat → β := fun j => if j = i then v else f j

/-- `std::swap(a[i], a[j])` -/
@[noinline] def swp {β : Type} (f : Nat → β) (i j : Nat) : Nat → β :=
  fun k => if k = i then f j else if k = j then f i else f k

variable {α : Type} [Add α] [Sub α] [Mul α] [Div α] [Neg α] [NatCast α] [OfScientific α]
  [LT α] [LE α] [DecidableLT α] [DecidableLE α] [BEq α]

/-- `std::max(a,b)` = `(a < b) ? b : a` -/
def cmax (a b : α) : α := if a < b then b else a
/-- `std::min(a,b)` = `(b < a) ? b : a` -/
def cmin (a b : α) : α := if b < a then b else a

/-! ### analytic sub-problems (AnalyticProblems.h) -/

/-- `detail::solveQuadraticEdge(alpha, g, Q, L, U)`: returns the new `alpha` -/
def solveEdge (alpha g Q L U : α) : α :=
  if Q < (1.e-12 : α) then
    (if g > (0.0 : α) then U else L)
  else
    let a := alpha + g / Q
    cmin (cmax a L) U

/-- gain of the step `(mui, muj)` as computed in the edge loop of `solveQuadratic2DBox` -/
def gain2D (gi gj Qii Qij Qjj mui muj : α) : α :=
  mui * (gi - (0.5 : α) * (Qii * mui + Qij * muj)) + muj * (gj - (0.5 : α) * (Qij * mui + Qjj * muj))

/-- `detail::solveQuadratic2DBox`: returns the new `(alphai, alphaj)` -/
def solve2DBox (alphai alphaj gi gj Qii Qij Qjj Li Ui Lj Uj : α) : α × α :=
  let detQ := Qii * Qjj - Qij * Qij
  let mui := (Qjj * gi - Qij * gj) / detQ
  let muj := (Qii * gj - Qij * gi) / detQ
  let opti := alphai + mui
  let optj := alphaj + muj
  if detQ > (1.e-12 : α) ∧ opti > Li ∧ optj > Lj ∧ opti < Ui ∧ optj < Uj then (opti, optj)
  else
    let s0 : α × α := (Li, solveEdge alphaj (gj - Qij * (Li - alphai)) Qjj Lj Uj)
    let s1 : α × α := (solveEdge alphai (gi - Qij * (Lj - alphaj)) Qii Li Ui, Lj)
    let s2 : α × α := (Ui, solveEdge alphaj (gj - Qij * (Ui - alphai)) Qjj Lj Uj)
    let s3 : α × α := (solveEdge alphai (gi - Qij * (Uj - alphaj)) Qii Li Ui, Uj)
    -- `maxGain = 0; maxIndex = 0; for k: if (gain > maxGain) {maxIndex = k; maxGain = gain;}`
    let pick (best : (α × α) × α) (s : α × α) : (α × α) × α :=
      let g := gain2D gi gj Qii Qij Qjj (s.1 - alphai) (s.2 - alphaj)
      if g > best.2 then (s, g) else best
    -- `if(maxGain > 0)` move to the best edge, else keep the current point
    (pick (pick (pick (pick ((alphai, alphaj), (0.0 : α)) s0) s1) s2) s3).1

/-! ### the decomposition state -/

/-- `QpMcBoxDecomp::Example` -/
structure Ex where
  index : Nat            -- index in the dataset (before shrinking)
  y : Nat                -- label
  active : Nat           -- number of active variables
  var : Nat → Nat        -- all cardP variables, by p
  avar : Nat → Nat       -- active variables first

/-- `QpMcBoxDecomp::Variable` -/
structure Var (α : Type) where
  i : Nat                -- position of the example in the example list
  p : Nat
  index : Nat            -- position in `avar` of its example
  diagonal : α

structure McBox (α : Type) where
  c : Nat                -- m_classes
  P : Nat                -- m_cardP
  n : Nat                -- m_numExamples
  C : α
  M : Nat → Row α        -- m_M.row(r)
  K : Nat → Nat → α      -- kernel matrix on original example indices
  lin : Nat → α
  alpha : Nat → α
  grad : Nat → α
  ex : Nat → Ex
  vars : Nat → Var α
  activeEx : Nat
  activeVar : Nat
  unshrinked : Bool      -- bUnshrinked
  useShrinking : Bool
  labels : Nat → Nat     -- labels of the dataset by original index (what `label(i)` must return)

namespace McBox

def numVars (s : McBox α) : Nat := s.P * s.n

/-- entry of the (flipped) kernel matrix at current example positions -/
def kpos (s : McBox α) (i a : Nat) : α := s.K (s.ex i).index (s.ex a).index

/-- `m_M(r, col)` -/
def Mget (s : McBox α) (r col : Nat) : α := (s.M r).get col

/-- constructor: `labels`, `linMat(i,p)` by original index -/
def init (c P n : Nat) (C : α) (M : Nat → Row α) (K : Nat → Nat → α) (labels : Nat → Nat)
    (linMat : Nat → Nat → α) : McBox α :=
  { c := c, P := P, n := n, C := C, M := M, K := K,
    lin := fun v => linMat (v / P) (v % P),
    alpha := fun _ => (0.0 : α),
    grad := fun v => linMat (v / P) (v % P),
    ex := fun i => { index := i, y := labels i, active := P, var := fun p => P * i + p, avar := fun p => P * i + p },
    vars := fun v =>
      let i := v / P; let p := v % P; let y := labels i
      { i := i, p := p, index := p, diagonal := (M (c * (y * P + p) + y)).get p * K i i },
    activeEx := n, activeVar := P * n, unshrinked := false, useShrinking := true, labels := labels }

/-- sequential application of `m_gradient(idx) -= d` for a list of writes, read at index `j`:
writes to different indices are independent, so component `j` is `g j` minus, in program
order, every `d` written to index `j` (same floating-point operations in the same order as
the C++ loop; written pointwise so that no closure chain is built) -/
def applySubs (g : Nat → α) (ws : List (Nat × α)) (j : Nat) : α :=
  ws.foldl (fun acc w => if w.1 = j then acc - w.2 else acc) (g j)

/-- the writes of `gradientUpdate(r, mu, q)` for the example at position `a`
(`q[a] = kpos i a`), in program order -/
def gradWritesEx (s : McBox α) (r : Nat) (mu : α) (i a : Nat) : List (Nat × α) :=
  let k := s.kpos i a
  let e := s.ex a
  let row := s.M (s.c * r + e.y)
  let d := row.dflt
  let w1 := row.entries.map fun en => (e.var en.1, mu * (en.2 - d) * k)
  let w2 := if d != (0.0 : α) then (List.range e.active).map fun b => (e.avar b, mu * d * k) else []
  w1 ++ w2

/-- `gradientUpdate(r, mu, q)` with `q` the kernel row of the example at position `i` -/
def gradientUpdate (s : McBox α) (r : Nat) (mu : α) (i : Nat) : McBox α :=
  { s with grad := applySubs s.grad ((List.range s.activeEx).flatMap fun a => gradWritesEx s r mu i a) }

/-- `updateSMO(v, w)`; requires `v, w < activeVar` -/
def updateSMO (s : McBox α) (v w : Nat) : McBox α :=
  if v = w then
    let i := (s.vars v).i
    let p := (s.vars v).p
    let y := (s.ex i).y
    let r := s.P * y + p
    let Qvv := (s.vars v).diagonal
    let mu := -(s.alpha v)
    let a' := solveEdge (s.alpha v) (s.grad v) Qvv (0.0 : α) s.C
    let mu := mu + a'
    gradientUpdate { s with alpha := upd s.alpha v a' } r mu i
  else
    let iv := (s.vars v).i
    let pv := (s.vars v).p
    let yv := (s.ex iv).y
    let iw := (s.vars w).i
    let pw := (s.vars w).p
    let yw := (s.ex iw).y
    let rv := s.P * yv + pv
    let rw := s.P * yw + pw
    let Qvv := (s.vars v).diagonal
    let Qww := (s.vars w).diagonal
    let Qvw := s.Mget (s.c * rv + yw) pw * s.kpos iv iw
    let mu_v := -(s.alpha v)
    let mu_w := -(s.alpha w)
    let sol := solve2DBox (s.alpha v) (s.alpha w) (s.grad v) (s.grad w) Qvv Qvw Qww (0.0 : α) s.C (0.0 : α) s.C
    let mu_v := mu_v + sol.1
    let mu_w := mu_w + sol.2
    let s1 := { s with alpha := upd (upd s.alpha v sol.1) w sol.2 }
    gradientUpdate (gradientUpdate s1 rv mu_v iv) rw mu_w iw

/-- pointwise update of one example record -/
def setEx (ex : Nat → Ex) (e : Nat) (f : Ex → Ex) : Nat → Ex := fun k => if k = e then f (ex e) else ex k

/-- `deactivateVariable(v)`; requires `v < activeVar` -/
def deactivateVariable (s : McBox α) (v : Nat) : McBox α :=
  let ev := (s.vars v).i
  let iv := (s.vars v).index
  let pv := (s.vars v).p
  let ih := (s.ex ev).active - 1
  let h := (s.ex ev).avar ih
  -- m_variables[v].index = ih; m_variables[h].index = iv;
  let vars := upd s.vars v { s.vars v with index := ih }
  let vars := upd vars h { vars h with index := iv }
  -- std::swap(exv->avar[iv], exv->avar[ih]); exv->active--;
  let ex := setEx s.ex ev fun e => { e with avar := swp e.avar iv ih, active := e.active - 1 }
  let iv := ih
  let j := s.activeVar - 1
  let ej := (vars j).i
  let ij := (vars j).index
  let pj := (vars j).p
  -- exchange entries in the lists
  let alpha := swp s.alpha v j
  let grad := swp s.grad v j
  let lin := swp s.lin v j
  let vars := swp vars v j
  -- m_variables[exv->avar[iv]].index = ij; m_variables[exj->avar[ij]].index = iv;
  let a1 := (ex ev).avar iv
  let vars := upd vars a1 { vars a1 with index := ij }
  let a2 := (ex ej).avar ij
  let vars := upd vars a2 { vars a2 with index := iv }
  -- exv->avar[iv] = j; exv->var[pv] = j; exj->avar[ij] = v; exj->var[pj] = v;
  let ex := setEx ex ev fun e => { e with avar := upd e.avar iv j }
  let ex := setEx ex ev fun e => { e with var := upd e.var pv j }
  let ex := setEx ex ej fun e => { e with avar := upd e.avar ij v }
  let ex := setEx ex ej fun e => { e with var := upd e.var pj v }
  { s with vars := vars, ex := ex, alpha := alpha, grad := grad, lin := lin, activeVar := s.activeVar - 1 }

/-- `deactivateExample(e)`; requires `e < activeEx` (and all its variables inactive) -/
def deactivateExample (s : McBox α) (e : Nat) : McBox α :=
  let j := s.activeEx - 1
  if e = j then { s with activeEx := j } else
  let ex := swp s.ex e j
  -- for v < cardP: m_variables[pe[v]].i = e; m_variables[pj[v]].i = j;   (only field `i` is written;
  -- read pointwise: the last write to position `x` wins)
  let writes : List (Nat × Nat) := (List.range s.P).flatMap fun v => [((ex e).var v, e), ((ex j).var v, j)]
  let vars := fun x =>
    match writes.reverse.find? (fun w => w.1 == x) with
    | some w => { s.vars x with i := w.2 }
    | none => s.vars x
  { s with ex := ex, vars := vars, activeEx := j }

/-- the loop of `unshrink` that recomputes the gradient of the inactive variables:
writes of variable `v` (with `mu = alpha v ≠ 0`) for the example at position `a` -/
def unshrinkWritesEx (s : McBox α) (v a : Nat) : List (Nat × α) :=
  let mu := s.alpha v
  let iv := (s.vars v).i
  let r := s.P * (s.ex iv).y + (s.vars v).p
  let k := s.kpos iv a
  let e := s.ex a
  let row := s.M (s.c * r + e.y)
  let d := row.dflt
  let w1 := (row.entries.filter fun en => e.var en.1 ≥ s.activeVar).map fun en => (e.var en.1, mu * (en.2 - d) * k)
  let w2 := if d != (0.0 : α) then (List.range (s.P - e.active)).map fun b => (e.avar (e.active + b), mu * d * k) else []
  w1 ++ w2

/-- `unshrink()` -/
def unshrink (s : McBox α) : McBox α :=
  if s.activeVar = s.numVars then s else
  let g0 : Nat → α := fun v => if s.activeVar ≤ v ∧ v < s.numVars then s.lin v else s.grad v
  let ws := (List.range s.numVars).flatMap fun v =>
    if s.alpha v == (0.0 : α) then [] else (List.range s.n).flatMap fun a => unshrinkWritesEx s v a
  { s with grad := applySubs g0 ws,
           ex := fun i => if i < s.n then { s.ex i with active := s.P } else s.ex i,
           activeEx := s.n, activeVar := s.numVars }

/-- `largest` KKT violation over the active variables, as computed at the head of `shrink`
(identical to `checkKKT`) -/
def maxViolation (s : McBox α) : α :=
  (List.range s.activeVar).foldl (fun largest a =>
    let largest := if s.alpha a < s.C then cmax largest (s.grad a) else largest
    if s.alpha a > (0.0 : α) then cmax largest (-(s.grad a)) else largest) (0.0 : α)

/-- the variable loop of `shrink`: `for (a = activeVar-1; a >= 0; a--)` (the start is fixed at
loop entry, the test reads the current contents of position `a`); second component: `se` -/
def shrinkVars (s : McBox α) : McBox α × Bool :=
  let A0 := s.activeVar
  (List.range A0).foldl (fun (st : McBox α × Bool) k =>
    let a := A0 - 1 - k
    let s := st.1
    let v := s.alpha a
    let g := s.grad a
    if (v == (0.0 : α) && decide (g ≤ (0.0 : α))) || (v == s.C && decide (g ≥ (0.0 : α))) then
      let e := (s.vars a).i
      let s' := s.deactivateVariable a
      (s', st.2 || (s'.ex e).active == 0)
    else st) (s, false)

/-- the example loop of `shrink`: `for (a = activeEx-1; a >= 0; a--) if (active == 0) deactivateExample(a)` -/
def shrinkExamples (s : McBox α) : McBox α :=
  let E0 := s.activeEx
  (List.range E0).foldl (fun (s : McBox α) k =>
    let a := E0 - 1 - k
    if (s.ex a).active == 0 then s.deactivateExample a else s) s

/-- `shrink(epsilon)`; the Boolean is the return value -/
def shrink (s : McBox α) (eps : α) : McBox α × Bool :=
  if !s.useShrinking then (s, false) else
  let s :=
    if !s.unshrinked then
      if s.maxViolation < (10.0 : α) * eps then { s.unshrink with unshrinked := true } else s
    else s
  let r := s.shrinkVars
  let s := if r.2 then r.1.shrinkExamples else r.1
  (s, true)

/-- `addDeltaLinear(deltaLinear)`: `delta i p` by ORIGINAL example index -/
def addDeltaLinear (s : McBox α) (delta : Nat → Nat → α) : McBox α :=
  let d := fun v => delta (s.ex (s.vars v).i).index (s.vars v).p
  { s with grad := fun v => if v < s.numVars then s.grad v + d v else s.grad v,
           lin := fun v => if v < s.numVars then s.lin v + d v else s.lin v }

/-- `solution()(i, p)`: alpha by ORIGINAL example index -/
def solutionAt (s : McBox α) (v : Nat) : Nat × Nat × α := ((s.ex (s.vars v).i).index, (s.vars v).p, s.alpha v)

/-- `selectWorkingSet`, first-order part: index of the maximal violator and the violation -/
def selectFirst (s : McBox α) : Nat × α :=
  (List.range s.activeVar).foldl (fun (st : Nat × α) a =>
    let aa := s.alpha a
    let ga := s.grad a
    if ga > st.2 ∧ aa < s.C then (a, ga)
    else if -ga > st.2 ∧ aa > (0.0 : α) then (a, -ga)
    else st) (0, (0.0 : α))

/-- `detail::maximumGainQuadratic2D(Qii, Qjj, Qij, gi, gj, minDetFrac)` (AnalyticProblems.h) -/
def maxGain2D (Qii Qjj Qij gi gj minDetFrac : α) : α :=
  let diagQ := Qii * Qjj
  let detQ := diagQ - Qij * Qij
  let r : α × α × α :=
    if detQ ≤ minDetFrac * diagQ then
      let Qii' := Qii + (1.e-6 : α)
      let Qjj' := Qjj + (1.e-6 : α)
      (Qii', Qjj', Qii' * Qjj' - Qij * Qij)
    else (Qii, Qjj, detQ)
  (gj * gj * r.1 - (2.0 : α) * gj * gi * Qij + gi * gi * r.2.1) / r.2.2

/-- `selectWorkingSet`, second-order part for a first variable `i` (maximal violator): the partner `j`.
Faithful to the C++ including (a) the call `maximumGainQuadratic2D(di, df, qif, di, gi, gf)`, whose last three
arguments land in the parameters `(gi, gj, minDetFrac)`, and (b) the walk over the sparse row with a single
cursor `b` that only advances when `pf` equals the index of the current entry (entries that are not in increasing
index order are skipped and the default value is used instead). -/
def selectSecond (s : McBox α) (i : Nat) : Nat :=
  let vi := s.vars i
  let ii := vi.i
  let yi := (s.ex ii).y
  let di := vi.diagonal
  let gi := s.grad i
  ((List.range s.activeEx).foldl (fun (st : Nat × α) a =>
    let e := s.ex a
    let row := s.M (s.c * (yi * s.P + vi.p) + e.y)
    let d := row.dflt
    let ka := s.kpos ii a
    ((List.range s.P).foldl (fun (w : (Nat × α) × List (Nat × α)) pf =>
      let f := e.var pf
      let qr : α × List (Nat × α) :=
        match w.2 with
        | en :: tl => if pf = en.1 then (en.2 * ka, tl) else (d * ka, w.2)
        | [] => (d * ka, [])
      if f ≥ s.activeVar ∨ f = i then (w.1, qr.2) else
      let af := s.alpha f
      let gf := s.grad f
      let df := (s.vars f).diagonal
      if ¬(af > (0.0 : α) ∧ gf < (0.0 : α)) ∧ ¬(af < s.C ∧ gf > (0.0 : α)) then (w.1, qr.2) else
      let gain := maxGain2D di df qr.1 di gi gf
      if gain > w.1.2 then ((f, gain), qr.2) else (w.1, qr.2)) (st, row.entries)).1)
    (i, gi * gi / di)).1

/-- `selectWorkingSet(i, j)` with `i = j = 0` on entry: `(i, j, maxViolation)` -/
def selectWorkingSet (s : McBox α) : Nat × Nat × α :=
  let r := s.selectFirst
  if r.2 == (0.0 : α) then (0, 0, r.2) else (r.1, s.selectSecond r.1, r.2)

end McBox
end SharkVerif.Mc
