/-
Abstract shared-memory machine for the parallel-for regions of Shark
(`SHARK_PARALLEL_FOR` = `#pragma omp parallel for`, `SHARK_CRITICAL_REGION` =
`#pragma omp critical (globalSharkLock)`), see DESIGN.md §6 C20.

A *thread* executes a list of instructions over its private registers and the
shared store; a *schedule* is any sequence of thread ids, each occurrence
letting that thread execute its next instruction (sequentially consistent
interleaving).  A critical section is one atomic instruction (mutual exclusion
under the single global lock), applying an update function to the protected
accumulator location.  Core Lean only.
-/
namespace SharkVerif.Par

abbrev Loc := Nat
abbrev Store (V : Type) := Loc → V
abbrev Regs (V : Type) := Nat → V

inductive Instr (V : Type) where
  | load  (r : Nat) (l : Loc)                 -- regs[r] := mem[l]
  | store (l : Loc) (f : Regs V → V)          -- mem[l] := f regs
  | crit  (l : Loc) (f : Regs V → V → V)      -- atomically: mem[l] := f regs mem[l]

def setReg {V} (rs : Regs V) (r : Nat) (v : V) : Regs V := fun k => if k = r then v else rs k
def setLoc {V} (m : Store V) (l : Loc) (v : V) : Store V := fun k => if k = l then v else m k

structure Thread (V : Type) where
  prog : List (Instr V)
  regs : Regs V

structure Cfg (V : Type) where
  mem : Store V
  ths : Nat → Thread V

variable {V : Type}

/-- execute one instruction of a thread against a store -/
def exec (m : Store V) (rs : Regs V) : Instr V → Store V × Regs V
  | .load r l  => (m, setReg rs r (m l))
  | .store l f => (setLoc m l (f rs), rs)
  | .crit l f  => (setLoc m l (f rs (m l)), rs)

/-- thread `t` makes one step (nothing happens if it has finished) -/
def step (c : Cfg V) (t : Nat) : Cfg V :=
  match (c.ths t).prog with
  | [] => c
  | i :: rest =>
    let (m', rs') := exec c.mem (c.ths t).regs i
    { mem := m', ths := fun u => if u = t then { prog := rest, regs := rs' } else c.ths u }

def run (c : Cfg V) (sched : List Nat) : Cfg V := sched.foldl step c

/-- a thread running alone on a store -/
def solo : Store V → Regs V → List (Instr V) → Store V × Regs V
  | m, rs, [] => (m, rs)
  | m, rs, i :: rest => let (m', rs') := exec m rs i; solo m' rs' rest

/-- locations read / written outside critical sections, and protected locations -/
def reads : List (Instr V) → List Loc
  | [] => []
  | .load _ l :: r => l :: reads r
  | _ :: r => reads r
def writes : List (Instr V) → List Loc
  | [] => []
  | .store l _ :: r => l :: writes r
  | _ :: r => writes r
def crits : List (Instr V) → List Loc
  | [] => []
  | .crit l _ :: r => l :: crits r
  | _ :: r => crits r

end SharkVerif.Par
