/-
A small PEG-with-skipper interpreter with the semantics of
`boost::spirit::qi::phrase_parse` for the operators used by `src/Data/Csv.cpp`
and `src/Data/SparseData.cpp`:

  primitives pre-skip (`qi::skip_over`) and then match; `attr(x)` neither skips
  nor consumes; `lexeme[g]` pre-skips and runs `g` without skipper; `a >> b`,
  `a | b`, `*a`, `+a`, `-a`, `a % b`, `&a`, `!a`, `a - b` backtrack as in qi.

Attributes are modelled as an event list (`Ev`): numeric primitives emit their
value, `mark g` emits a record separator after `g` (it stands for "one element
of the outer `std::vector` attribute is complete").  Containers elements are
parsed into locals in qi (`pass_container`), so a failed element leaves no
events behind — `seq`/`alt`/loops below only keep events of successful parts.

Termination: the interpreter is structurally recursive on the grammar; loops
(`*`, `+`, `%`, the skipper) run on fuel = remaining input length + 1 and demand
that every successful iteration consumes input.  An iteration that succeeds
without consuming is an infinite loop in qi; here it yields `Res.hang`.
`Props/C19.lean` (`parser_total`) proves that `hang` is impossible for the
grammars of the importers.
Core Lean only.
-/
import SharkVerif.Model.ImportLex
namespace SharkVerif.Peg
open SharkVerif.Import

inductive Ev where
  | val (v : Val)
  | int (i : Int)
  | mark
  deriving Repr, DecidableEq

inductive G where
  | real | int | uint                 -- `double_`, `int_`, `uint_`
  | lit (c : Char)                    -- `lit(c)` / `char_(c)` without attribute
  | anyChar                           -- `char_`
  | space                             -- `space`
  | digit                             -- `digit`
  | eol | eoi
  | attrNan                           -- `attr(qnan)`
  | seq (a b : G) | alt (a b : G)
  | star (a : G) | plus (a : G) | opt (a : G)
  | list (a sep : G)                  -- `a % sep`
  | andP (a : G) | notP (a : G)
  | diff (a b : G)                    -- `a - b`
  | lexeme (a : G)
  | mark (a : G)
  deriving Repr, DecidableEq

inductive Res where
  | ok (rest : List Char) (evs : List Ev)
  | fail
  | hang
  deriving Repr, DecidableEq

/-- `*p` from `s` with the events so far -/
def starLoop (p : List Char → Res) : Nat → List Char → List Ev → Res
  | 0, _, _ => .hang
  | f+1, s, acc =>
    match p s with
    | .ok rest evs => if rest.length < s.length then starLoop p f rest (acc ++ evs) else .hang
    | .fail => .ok s acc
    | .hang => .hang

/-- the tail `(sep >> a)*` of `a % sep` (a failed `sep >> a` is rolled back) -/
def listLoop (a sep : List Char → Res) : Nat → List Char → List Ev → Res
  | 0, _, _ => .hang
  | f+1, s, acc =>
    match sep s with
    | .ok r1 _ =>
      (match a r1 with
       | .ok r2 evs => if r2.length < s.length then listLoop a sep f r2 (acc ++ evs) else .hang
       | .fail => .ok s acc
       | .hang => .hang)
    | .fail => .ok s acc
    | .hang => .hang

def matchEol : List Char → Option (List Char)
  | '\r' :: '\n' :: t => some t
  | '\r' :: t => some t
  | '\n' :: t => some t
  | _ => none

/-- interpretation; `skip` is the (already interpreted) skipper, `id` inside `lexeme` -/
def parse (skip : List Char → List Char) : G → List Char → Res
  | .real, s => match real (skip s) with
    | some (v, r) => .ok r [.val v]
    | none => .fail
  | .int, s => match Import.int (skip s) with
    | some (i, r) => .ok r [.int i]
    | none => .fail
  | .uint, s => match uint (skip s) with
    | some (i, r) => .ok r [.int i]
    | none => .fail
  | .lit c, s => match skip s with
    | x :: r => if x == c then .ok r [] else .fail
    | [] => .fail
  | .anyChar, s => match skip s with
    | _ :: r => .ok r []
    | [] => .fail
  | .space, s => match skip s with
    | x :: r => if isSpace x then .ok r [] else .fail
    | [] => .fail
  | .digit, s => match skip s with
    | x :: r => if isDigit x then .ok r [] else .fail
    | [] => .fail
  | .eol, s => match matchEol (skip s) with
    | some r => .ok r []
    | none => .fail
  | .eoi, s => if (skip s).isEmpty then .ok [] [] else .fail
  | .attrNan, s => .ok s [.val .nan]
  | .seq a b, s => match parse skip a s with
    | .ok r1 e1 => (match parse skip b r1 with
      | .ok r2 e2 => .ok r2 (e1 ++ e2)
      | .fail => .fail
      | .hang => .hang)
    | .fail => .fail
    | .hang => .hang
  | .alt a b, s => match parse skip a s with
    | .fail => parse skip b s
    | r => r
  | .star a, s => starLoop (parse skip a) (s.length + 1) s []
  | .plus a, s => match parse skip a s with
    | .ok r e => starLoop (parse skip a) (r.length + 1) r e
    | .fail => .fail
    | .hang => .hang
  | .opt a, s => match parse skip a s with
    | .fail => .ok s []
    | r => r
  | .list a sep, s => match parse skip a s with
    | .ok r e => listLoop (parse skip a) (parse skip sep) (r.length + 1) r e
    | .fail => .fail
    | .hang => .hang
  | .andP a, s => match parse skip a s with
    | .ok _ _ => .ok s []
    | .fail => .fail
    | .hang => .hang
  | .notP a, s => match parse skip a s with
    | .ok _ _ => .fail
    | .fail => .ok s []
    | .hang => .hang
  | .diff a b, s => match parse skip b s with
    | .ok _ _ => .fail
    | .fail => parse skip a s
    | .hang => .hang
  | .lexeme a, s => parse id a (skip s)
  | .mark a, s => match parse skip a s with
    | .ok r e => .ok r (e ++ [.mark])
    | r => r

/-- `qi::skip_over`: apply the skipper grammar (run without skipper) while it matches -/
def skipLoop (p : List Char → Res) : Nat → List Char → List Char
  | 0, s => s
  | f+1, s =>
    match p s with
    | .ok r _ => if r.length < s.length then skipLoop p f r else s
    | _ => s

def skipper (sk : G) (s : List Char) : List Char := skipLoop (parse id sk) (s.length + 1) s

/-- `phrase_parse(first, last, g, sk, attr)` with the default post-skip:
`some (rest, events)` when it returns true -/
def phraseParse (g sk : G) (s : List Char) : Res :=
  match parse (skipper sk) g s with
  | .ok r e => .ok (skipper sk r) e
  | r => r

/-! ### the grammars of `Csv.cpp` -/

/-- `(space-eol) | (comment >> *(char_ - eol) >> (eol|eoi))` -/
def csvSkipper (comment : Char) : G :=
  .alt (.diff .space .eol) (.seq (.lit comment) (.seq (.star (.diff .anyChar .eol)) (.alt .eol .eoi)))

/-- `space | (comment >> *(char_ - eol) >> (eol|eoi))` (single-value reader) -/
def valueSkipper (comment : Char) : G :=
  .alt .space (.seq (.lit comment) (.seq (.star (.diff .anyChar .eol)) (.alt .eol .eoi)))

/-- `lexeme[int_ >> -(lit('.')>>*lit('0'))]`: the label grammar as it is in `/repo` -/
def labelGCurrent : G := .lexeme (.seq .int (.opt (.seq (.lit '.') (.star (.lit '0')))))

/-- repaired label grammar `lexeme[int_ >> -(lit('.')>>*lit('0')) >> !digit]` (finding F9) -/
def labelG : G := .lexeme (.seq .int (.seq (.opt (.seq (.lit '.') (.star (.lit '0')))) (.notP .digit)))

/-- `double_ | ('?' >> attr(qnan))` -/
def cellWs : G := .alt .real (.seq (.lit '?') .attrNan)
/-- `double_ | ((lit('?') | &lit(sep)) >> attr(qnan))` -/
def cellSepRows (sep : Char) : G := .alt .real (.seq (.alt (.lit '?') (.andP (.lit sep))) .attrNan)
/-- `double_ | (-lit('?') >> attr(qnan))` -/
def cellSepPoints : G := .alt .real (.seq (.opt (.lit '?')) .attrNan)

/-- `importCSVReaderSingleValues`, whitespace separated -/
def rowsWs : G := .seq (.list (.mark (.plus cellWs)) .eol) (.star .eol)
/-- `importCSVReaderSingleValues`, with separator -/
def rowsSep (sep : Char) : G := .seq (.list (.mark (.list (cellSepRows sep) (.lit sep))) .eol) (.star .eol)
/-- `import_csv_reader_points`, FIRST_COLUMN, whitespace separated -/
def pointsFirstWs : G := .seq (.list (.mark (.seq labelG (.star cellWs))) .eol) (.star .eol)
/-- FIRST_COLUMN with separator -/
def pointsFirstSep (sep : Char) : G :=
  .seq (.list (.mark (.seq labelG (.star (.seq (.lit sep) cellSepPoints)))) .eol) (.star .eol)
/-- LAST_COLUMN, whitespace separated: one record per `phrase_parse` call -/
def pointLastWs : G :=
  .seq (.star (.alt (.seq .real (.notP (.alt .eol .eoi))) (.seq (.lit '?') .attrNan)))
    (.seq labelG (.alt (.plus .eol) .eoi))     -- repaired (F9); `/repo` has `(*eol|eoi)`

/-- LAST_COLUMN record grammar as it is in `/repo` -/
def pointLastWsCurrent : G :=
  .seq (.star (.alt (.seq .real (.notP (.alt .eol .eoi))) (.seq (.lit '?') .attrNan)))
    (.seq labelGCurrent (.alt (.star .eol) .eoi))
/-- LAST_COLUMN with separator -/
def pointLastSep (sep : Char) : G :=
  .seq (.star (.seq cellSepPoints (.lit sep))) (.seq labelG (.alt (.plus .eol) .eoi))
/-- `importCSVReaderSingleValue<T>`: `*auto_` (`int_`, `uint_`, `double_` for `T = int, unsigned, double`) -/
def valuesInt : G := .star .int
def valuesUInt : G := .star .uint
def valuesReal : G := .star .real

/-- the LibSVM record `double_ >> *(uint_ >> ':' >> double_)` (skipper `space`) -/
def svmLineG : G := .seq .real (.star (.mark (.seq .uint (.seq (.lit ':') .real))))

/-! ### the repair of F-C19-11 as it is written in `Csv.cpp` -/

/-- `cleanNumber<T>()` = `&create_parser<T>() >> create_parser<T>()`: look ahead, then parse -/
def clean (p : G) : G := .seq (.andP p) p

/-- a grammar with every `double_` replaced by `cleanNumber<double>()` — the text of the grammars in
`Csv.cpp` since 25239316.  The model (and the driver) run the grammars above, without the look-ahead:
`Lemmas/ImportCsv.lean` (`parse_cleanReal`) proves that both parse every input identically, because the
modelled `double_` restores the position on failure, which is what the look-ahead enforces for spirit's. -/
def cleanReal : G → G
  | .real => clean .real
  | .seq a b => .seq (cleanReal a) (cleanReal b)
  | .alt a b => .alt (cleanReal a) (cleanReal b)
  | .star a => .star (cleanReal a)
  | .plus a => .plus (cleanReal a)
  | .opt a => .opt (cleanReal a)
  | .list a sep => .list (cleanReal a) (cleanReal sep)
  | .andP a => .andP (cleanReal a)
  | .notP a => .notP (cleanReal a)
  | .diff a b => .diff (cleanReal a) (cleanReal b)
  | .lexeme a => .lexeme (cleanReal a)
  | .mark a => .mark (cleanReal a)
  | g => g

end SharkVerif.Peg
