/-
Executable models of the two iterative line searches of `src/Algorithms/GradientDescent/LineSearch.cpp`
(property C10): `wolfecubic` (bracketing by expansion ×10, zoom by safeguarded cubic interpolation) and
`dlinmin` (Numerical-Recipes bracketing `mnbrak` + Brent's method with derivatives).

Core Lean only.  The loops are written with fuel; statement order, operation order and the comparison
operators follow the C++ (`a > b` is `b < a`, `a >= b` is `b ≤ a`, so that NaN behaves identically).
The same definitions run at `Float` in the native driver (compared bit for bit with the C++) and at `Rat`
(what the theorems of `Props/C10.lean` are about).  `sqrt` is a parameter.

The arrays `bracket/bracketf/bracketg` of `wolfecubic` are *uninitialised* in the C++ until the bracketing
phase leaves its loop through a `break`; the model makes their initial contents an explicit parameter `junk`.
-/
import SharkVerif.Model.GradOpt
namespace SharkVerif.Opt
variable {α : Type} [Scalar α]

namespace Scalar
/-- Shark's `copySign(x, y)`: `y > 0 ? abs(x) : -abs(x)` -/
def copySign (x y : α) : α := if (zero : α) < y then abs x else -(abs x)
end Scalar

/-! ## wolfecubic -/

/-- `wlsCubicInterp(t1, t2, f1, f2, gtd1, gtd2)` -/
def wlsCubicInterp (sqrt : α → α) (t1 t2 f1 f2 g1 g2 : α) : α :=
  if Scalar.beq t1 t2 then t1 else
  let sw := decide (t2 < t1)
  let a1 := if sw then t2 else t1
  let a2 := if sw then t1 else t2
  let b1 := if sw then f2 else f1
  let b2 := if sw then f1 else f2
  let c1 := if sw then g2 else g1
  let c2 := if sw then g1 else g2
  let d1 := c1 + c2 - Scalar.ofRat 3 * (b1 - b2) / (a1 - a2)
  if d1 * d1 - c1 * c2 < Scalar.zero then (a1 + a2) / Scalar.two
  else
    let d2 := sqrt (d1 * d1 - c1 * c2)
    let t := a2 - (a2 - a1) * ((c2 + d2 - d1) / (c2 - c1 + Scalar.two * d2))
    Scalar.min (Scalar.max t a1) a2

/-- `bracket[2]`, `bracketf[2]`, `bracketg[2]` -/
structure WBr (α : Type) where
  t0 : α
  t1 : α
  f0 : α
  f1 : α
  g0 : Vec α
  g1 : Vec α

/-- outcome of the bracketing phase: the bracket, `single`, and the value of `iter` -/
structure WPhase (α : Type) where
  br : WBr α
  single : Bool
  iter : Nat

def wolfeC1 : α := Scalar.ofRat (1/10000)
def wolfeC2 : α := Scalar.ofRat (9/10)
def wolfeMaxIter : Nat := 25

/-- the bracketing loop `while(iter++ < maxIter)`; `fuel` = iterations left, `iter` = value before the test -/
def wolfeBracket (o : Objective α) (point dir : Vec α) (value gtd : α) (junk : WBr α) :
    Nat → Nat → α → α → α → Vec α → α → Vec α → α → WPhase α
  | 0, iter, _, _, _, _, _, _, _ => ⟨junk, false, iter + 1⟩          -- the test fails, nothing was assigned
  | k+1, iter0, t, tPrev, fPrev, gPrev, fNew, gNew, gtdNew =>
    let iter := iter0 + 1
    if decide (value + wolfeC1 * t * gtd < fNew) || (decide (1 < iter) && decide (fPrev ≤ fNew)) then
      ⟨⟨tPrev, t, fPrev, fNew, gPrev, gNew⟩, false, iter⟩
    else if Scalar.abs gtdNew ≤ (-wolfeC2) * gtd then
      ⟨⟨t, junk.t1, fNew, junk.f1, gNew, junk.g1⟩, true, iter⟩
    else if Scalar.zero ≤ gtdNew then
      ⟨⟨tPrev, t, fPrev, fNew, gPrev, gNew⟩, false, iter⟩
    else
      let t' := t * Scalar.ofRat 10
      let p := Vec.axpy point t' dir
      let g' := o.grad p
      wolfeBracket o point dir value gtd junk k iter t' t fNew gNew (o.f p) g' (Vec.dot g' dir)

/-- the trial step length of one zoom iteration (cubic interpolation + "sufficient progress" safeguard) and the new `insuf` -/
def wolfeZoomT (sqrt : α → α) (dir : Vec α) (br : WBr α) (insuf : Bool) : α × Bool :=
  let t := wlsCubicInterp sqrt br.t0 br.t1 br.f0 br.f1 (Vec.dot br.g0 dir) (Vec.dot br.g1 dir)
  let mint := Scalar.min br.t0 br.t1
  let maxt := Scalar.max br.t0 br.t1
  let tenth : α := Scalar.ofRat (1/10)
  let close := decide (Scalar.min (maxt - t) (t - mint) / (maxt - mint) < tenth)
  let force := close && (insuf || decide (maxt ≤ t) || decide (t ≤ mint))
  let t := if force then
      (if Scalar.abs (t - maxt) < Scalar.abs (t - mint) then maxt - tenth * (maxt - mint)
       else mint + tenth * (maxt - mint))
    else t
  (t, close && !force)

/-- the bracket update of one zoom iteration for the trial `(t, fNew, gNew)`; returns the new bracket and `done` -/
def wolfeZoomUpd (value gtd : α) (br : WBr α) (t fNew : α) (gNew : Vec α) (gtdNew : α) : WBr α × Bool :=
  let lo1 := decide (br.f1 < br.f0)             -- lo = 1, hi = 0
  let flo := if lo1 then br.f1 else br.f0
  let tlo := if lo1 then br.t1 else br.t0
  let glo := if lo1 then br.g1 else br.g0
  let thi := if lo1 then br.t0 else br.t1
  if decide (value + wolfeC1 * t * gtd < fNew) || decide (flo < fNew) then
    -- new t_hi
    (if lo1 then { br with t0 := t, f0 := fNew, g0 := gNew } else { br with t1 := t, f1 := fNew, g1 := gNew }, false)
  else
    let done := decide (Scalar.abs gtdNew ≤ (-wolfeC2) * gtd)
    let moveHi := !done && decide (Scalar.zero ≤ gtdNew * (thi - tlo))
    -- hi := lo (when moveHi), then lo := new
    let br1 : WBr α := if moveHi then
        (if lo1 then { br with t0 := tlo, f0 := flo, g0 := glo } else { br with t1 := tlo, f1 := flo, g1 := glo })
      else br
    (if lo1 then { br1 with t1 := t, f1 := fNew, g1 := gNew } else { br1 with t0 := t, f0 := fNew, g0 := gNew }, done)

/-- the zoom loop `while (!done && iter++ < maxIter)`; returns the bracket and the final `iter` -/
def wolfeZoom (sqrt : α → α) (o : Objective α) (point dir : Vec α) (value gtd maxD : α) :
    Nat → Nat → WBr α → Bool → WBr α × Nat
  | 0, iter, br, _ => (br, iter + 1)
  | k+1, iter0, br, insuf =>
    if !(decide (iter0 < wolfeMaxIter)) then (br, iter0 + 1) else
    let ti := wolfeZoomT sqrt dir br insuf
    let p := Vec.axpy point ti.1 dir
    let gNew := o.grad p
    let r := wolfeZoomUpd value gtd br ti.1 (o.f p) gNew (Vec.dot gNew dir)
    if r.2 then (r.1, iter0 + 1)
    else if Scalar.abs (r.1.t0 - r.1.t1) * maxD < Scalar.ofRat (1/1000000000) then (r.1, iter0 + 1)
    else wolfeZoom sqrt o point dir value gtd maxD k (iter0 + 1) r.1 ti.2

/-- the final selection of `wolfecubic` -/
def wolfeSelect (point dir : Vec α) (value : α) (gradient : Vec α) (br : WBr α) (single : Bool) (iter : Nat) : LSOut α :=
  if decide (iter < wolfeMaxIter) || decide (br.f0 < value) || decide (br.f1 < value) then
    if decide (br.f0 < br.f1) || single then ⟨Vec.axpy point br.t0 dir, br.f0, br.g0⟩
    else ⟨Vec.axpy point br.t1 dir, br.f1, br.g1⟩
  else ⟨point, value, gradient⟩

/-- `wolfecubic(point, searchDirection, value, func, gradient, t)` -/
def wolfecubicJ (sqrt : α → α) (junk : WBr α) : LineSearch α := fun o point value dir gradient t =>
  let maxD := Vec.norm1 dir
  let gtd := Vec.dot gradient dir
  let p := Vec.axpy point t dir
  let gNew := o.grad p
  let ph := wolfeBracket o point dir value gtd junk wolfeMaxIter 0 t Scalar.zero value gradient (o.f p) gNew (Vec.dot gNew dir)
  let z := if ph.single then (ph.br, ph.iter)
           else wolfeZoom sqrt o point dir value gtd maxD (wolfeMaxIter + 1) ph.iter ph.br false
  wolfeSelect point dir value gradient z.1 ph.single z.2

/-- `wolfecubic` with the bracket arrays initialised to the starting point (`bracket = {0,0}`, `bracketf = {value,value}`,
`bracketg = {gradient,gradient}`): what a tree with the repair of finding F-C10-16 contains, and what the driver runs
(the tie cannot observe indeterminate memory) -/
def wolfecubic (sqrt : α → α) : LineSearch α := fun o point value dir gradient t =>
  wolfecubicJ sqrt ⟨Scalar.zero, Scalar.zero, value, value, gradient, gradient⟩ o point value dir gradient t

/-! ## dlinmin -/

/-- bracket triple of `mnbrak` -/
structure DBr (α : Type) where
  ax : α
  bx : α
  cx : α
  fa : α
  fb : α
  fc : α

def dGOLD : α := Scalar.ofRat (1618034/1000000)
def dGLIMIT : α := Scalar.ofRat 100
def dTINY : α := Scalar.ofRat (1/100000000000000000000)
def dZEPS : α := Scalar.ofRat (1/10000000000)
def dTOL : α := Scalar.ofRat (2/10000)

/-- the loop `while (fb > fc)` of `dlinmin` (no iteration bound in the C++; `none` = fuel exhausted) -/
def dBracket (o : Objective α) (p dir : Vec α) : Nat → DBr α → Option (DBr α)
  | 0, _ => none
  | k+1, s =>
    if !(decide (s.fc < s.fb)) then some s else
    let ev (u : α) : α := o.f (Vec.axpy p u dir)
    let r := (s.bx - s.ax) * (s.fb - s.fc)
    let q := (s.bx - s.cx) * (s.fb - s.fa)
    let u := s.bx - ((s.bx - s.cx) * q - (s.bx - s.ax) * r) /
               (Scalar.two * Scalar.copySign (Scalar.max (Scalar.abs (q - r)) dTINY) (q - r))
    let ulim := s.bx + dGLIMIT * (s.cx - s.bx)
    -- `shift u fu`: exchange interval limits
    let shift (s : DBr α) (u fu : α) : DBr α := ⟨s.bx, s.cx, u, s.fb, s.fc, fu⟩
    if Scalar.zero < (s.bx - u) * (u - s.cx) then
      let fu := ev u
      if fu < s.fc then some { s with ax := s.bx, bx := u, fa := s.fb, fb := fu }
      else if s.fb < fu then some { s with cx := u, fc := fu }
      else
        let u := s.cx + dGOLD * (s.cx - s.bx)
        dBracket o p dir k (shift s u (ev u))
    else if Scalar.zero < (s.cx - u) * (u - ulim) then
      let fu := ev u
      if fu < s.fc then
        let s' : DBr α := { s with bx := s.cx, cx := u, fb := s.fc, fc := fu }
        let u' := s'.cx + dGOLD * (s'.cx - s'.bx)
        dBracket o p dir k (shift s' u' (ev u'))
      else dBracket o p dir k (shift s u fu)
    else if Scalar.zero ≤ (u - ulim) * (ulim - s.cx) then
      dBracket o p dir k (shift s ulim (ev ulim))
    else
      let u := s.cx + dGOLD * (s.cx - s.bx)
      dBracket o p dir k (shift s u (ev u))

/-- loop-carried variables of the Brent stage -/
structure DBrent (α : Type) where
  a : α
  b : α
  d : α
  e : α
  x : α
  w : α
  v : α
  fx : α
  fw : α
  fv : α
  dx : α
  dw : α
  dv : α

/-- the new `(d, e)` of one Brent iteration (secant steps from the derivatives, bisection otherwise) -/
def dBrentDE (s : DBrent α) (xm tol1 tol2 : α) : α × α :=
  let bis : α × α :=     -- (d, e) of `d = 0.5 * (e = (dx >= 0. ? a - x : b - x))`
    let e := if Scalar.zero ≤ s.dx then s.a - s.x else s.b - s.x
    (Scalar.half * e, e)
  if tol1 < Scalar.abs s.e then
    let d1 := if !(Scalar.beq s.dw s.dx) then (s.w - s.x) * s.dx / (s.dx - s.dw) else Scalar.two * (s.b - s.a)
    let d2 := if !(Scalar.beq s.dv s.dx) then (s.v - s.x) * s.dx / (s.dx - s.dv) else Scalar.two * (s.b - s.a)
    let u1 := s.x + d1
    let u2 := s.x + d2
    let ok1 := decide (Scalar.zero < (s.a - u1) * (u1 - s.b)) && decide (s.dx * d1 ≤ Scalar.zero)
    let ok2 := decide (Scalar.zero < (s.a - u2) * (u2 - s.b)) && decide (s.dx * d2 ≤ Scalar.zero)
    let olde := s.e
    let e := s.d
    if ok1 || ok2 then
      let d := if ok1 && ok2 then (if Scalar.abs d1 < Scalar.abs d2 then d1 else d2) else if ok1 then d1 else d2
      if Scalar.abs d ≤ Scalar.abs (Scalar.half * olde) then
        let u := s.x + d
        if decide (u - s.a < tol2) || decide (s.b - u < tol2) then (Scalar.copySign tol1 (xm - s.x), e) else (d, e)
      else bis
    else bis
  else bis

/-- "reduce interval length": the state after the trial `(u, fu, du)` -/
def dBrentUpd (s : DBrent α) (d e u fu du : α) : DBrent α :=
  if fu ≤ s.fx then
    let a := if s.x ≤ u then s.x else s.a
    let b := if s.x ≤ u then s.b else s.x
    { a := a, b := b, d := d, e := e, x := u, w := s.x, v := s.w, fx := fu, fw := s.fx, fv := s.fw,
      dx := du, dw := s.dx, dv := s.dw }
  else
    let a := if u < s.x then u else s.a
    let b := if u < s.x then s.b else u
    let s1 : DBrent α := { s with a := a, b := b, d := d, e := e }
    if decide (fu ≤ s.fw) || Scalar.beq s.w s.x then
      { s1 with v := s.w, w := u, fv := s.fw, fw := fu, dv := s.dw, dw := du }
    else if decide (fu < s.fv) || Scalar.beq s.v s.x || Scalar.beq s.v s.w then
      { s1 with v := u, fv := fu, dv := du }
    else s1

/-- `for (iter = 0; iter < ITMAX; iter++)` of `dlinmin`; returns the final state (only `x`, `fx` are used) -/
def dBrent (o : Objective α) (p dir : Vec α) : Nat → DBrent α → DBrent α
  | 0, s => s
  | k+1, s =>
    let xm := Scalar.half * (s.a + s.b)
    let tol1 := dTOL * Scalar.abs s.x + dZEPS
    let tol2 := Scalar.two * tol1
    if Scalar.abs (s.x - xm) ≤ tol2 - Scalar.half * (s.b - s.a) then s else
    let de := dBrentDE s xm tol1 tol2
    let small := !(decide (tol1 ≤ Scalar.abs de.1))
    let u := if small then s.x + Scalar.copySign tol1 de.1 else s.x + de.1
    let xt := Vec.axpy p u dir
    let fu := o.f xt
    if small && decide (s.fx < fu) then s else
    dBrent o p dir k (dBrentUpd s de.1 de.2 u fu (Vec.dot dir (o.grad xt)))

/-- the state the Brent stage starts from: `a, b` = the outer points of the bracket in order, `x = w = v = bx` -/
def dBrentStart (s : DBr α) (fx dx : α) : DBrent α :=
  let a := if s.ax < s.cx then s.ax else s.cx
  let b := if s.ax < s.cx then s.cx else s.ax
  ⟨a, b, Scalar.zero, Scalar.zero, s.bx, s.bx, s.bx, fx, fx, fx, dx, dx, dx⟩

/-- fuel of the (unbounded) bracketing loop of `dlinmin` in the model -/
def dBracketFuel : Nat := 4000

/-- `dlinmin(p, searchDirection, value, func, ax, bx)` followed by `evalDerivative(p, derivative)` as in
`LineSearch::operator()`; `value` is overwritten by `func.eval(p)` -/
def dlinmin (ax0 bx0 : α) : LineSearch α := fun o p _value dir _gradient _t =>
  let fp := o.f p
  let fb0 := o.f (Vec.axpy p Scalar.one dir)          -- `xt = p + searchDirection`
  let sw := decide (fp < fb0)
  let ax := if sw then bx0 else ax0
  let bx := if sw then ax0 else bx0
  let fa := if sw then fb0 else fp
  let fb := if sw then fp else fb0
  let cx := bx + dGOLD * (bx - ax)
  let fc := o.f (Vec.axpy p cx dir)
  match dBracket o p dir dBracketFuel ⟨ax, bx, cx, fa, fb, fc⟩ with
  | none => ⟨p, fp, o.grad p⟩       -- not reached by the C++ (its loop has no bound); the driver reports it
  | some s =>
    let xt := Vec.axpy p s.bx dir
    let r := dBrent o p dir 100 (dBrentStart s (o.f xt) (Vec.dot dir (o.grad xt)))
    if r.fx < fp then
      let pt := Vec.axpy p r.x dir
      ⟨pt, r.fx, o.grad pt⟩
    else ⟨p, fp, o.grad p⟩

/-- `LineSearch::operator()`: dispatch on `m_lineSearchType` (0 dlinmin, 1 wolfecubic, 2 backtracking) -/
def lineSearchOf (sqrt : α → α) (minI maxI : α) (type : Nat) : LineSearch α :=
  match type with
  | 0 => dlinmin minI maxI
  | 1 => wolfecubic sqrt
  | _ => backtracking

end SharkVerif.Opt
