/-
Executable model of `HypervolumeContribution3D` with reference point
(Operators/Hypervolume/HypervolumeContribution3D.h, the dimension-sweep algorithm of
Emmerich & Fonseca 2011): shift by the reference point, sort by the third objective,
`allContributions` with the x-y front (`std::multiset<Point>` ordered by `f1`), the per-point
box lists (`std::deque<Box>`), `cutBoxesOnTheLeft`, `cutBoxesOnTheRight`, and the dispatchers
`HypervolumeCalculator` / `HypervolumeContribution`.  Core Lean only.
-/
import SharkVerif.Model.Contrib
import SharkVerif.Model.HV3D
import SharkVerif.Model.HOY
import SharkVerif.Model.DCSort
namespace SharkVerif.HV
open SharkVerif.Pareto

/-- `HypervolumeContribution3D::Point`; `idx` is the position in the sorted vector `points`
(the sentinels carry `n`) -/
structure P3 where
  f1 : Int
  f2 : Int
  f3 : Int
  idx : Nat
  deriving Repr, DecidableEq

/-- `Box` (lower and upper corner) -/
structure Box where
  l1 : Int
  l2 : Int
  l3 : Int
  u1 : Int
  u2 : Int
  u3 : Int
  deriving Repr, DecidableEq

def Box.volume (b : Box) : Int := (b.u1 - b.l1) * (b.u2 - b.l2) * (b.u3 - b.l3)

/-- stands for `-std::numeric_limits<double>::max()` in the two sentinels of the x-y front (only compared,
never used in a box of positive volume) -/
def negInf : Int := -1000000000000000000

/-- `cutBoxesOnTheLeft(leftList, point)`: the deque is processed from its back; returns the new deque and
the added contribution.  The list is given back to front. -/
def cutLeftGo (p : P3) : List Box → Int → List Box × Int
  | [], acc => ([], acc)
  | b :: rest, acc =>
    if p.f1 < b.l1 then cutLeftGo p rest (acc + { b with u3 := p.f3 }.volume)
    else if p.f1 < b.u1 then
      ({ b with u3 := p.f3, u1 := p.f1, l3 := p.f3 } :: rest, acc + { b with u3 := p.f3 }.volume)
    else (b :: rest, acc)

def cutBoxesOnTheLeft (l : List Box) (p : P3) : List Box × Int :=
  let (revd, acc) := cutLeftGo p l.reverse 0
  (revd.reverse, acc)

/-- the `while(!rightList.empty())` loop of `cutBoxesOnTheRight` (front to back); also returns `xright` -/
def cutRightGo (p : P3) : List Box → Int → Int → List Box × Int × Int
  | [], acc, xr => ([], acc, xr)
  | b :: rest, acc, xr =>
    if b.u2 ≤ p.f2 then (b :: rest, acc, xr)
    else cutRightGo p rest (acc + { b with u3 := p.f3 }.volume) b.u1

def cutBoxesOnTheRight (l : List Box) (p right : P3) : List Box × Int :=
  if l.isEmpty then (l, 0)
  else
    let (l', acc, xr) := cutRightGo p l 0 right.f1
    if xr != right.f1 then
      ({ l1 := right.f1, l2 := right.f2, l3 := p.f3, u1 := xr, u2 := p.f2, u3 := p.f3 } :: l', acc)
    else (l', acc)

structure C3 where
  front : List P3               -- xyFront, ordered by f1
  boxes : Array (List Box)      -- boxlists
  contrib : Array Int           -- contributions[.].key
  deriving Repr

def addC (a : Array Int) (i : Nat) (v : Int) : Array Int := a.setIfInBounds i (a.getD i 0 + v)

/-- one iteration of the main loop for `point = points[i]` -/
def step3c (pts : Array P3) (st : C3) (i : Nat) : C3 :=
  let point := pts.getD i ⟨0, 0, 0, 0⟩
  -- `left = --lower_bound(point)`: the last element with smaller f1
  let lefts := st.front.takeWhile fun e => e.f1 < point.f1
  let rest := st.front.dropWhile fun e => e.f1 < point.f1
  let left := lefts.getLastD ⟨negInf, 0, negInf, pts.size⟩
  if left.f2 < point.f2 then st
  else
    let dominated := (rest.takeWhile fun e => e.f2 > point.f2).map (·.idx)
    let rights := rest.dropWhile fun e => e.f2 > point.f2
    let right := rights.headD ⟨0, negInf, negInf, pts.size⟩
    -- erase the dominated points, insert the new one behind the elements with equal f1 (multiset::insert)
    let eq := rights.takeWhile fun e => e.f1 == point.f1
    let gt := rights.dropWhile fun e => e.f1 == point.f1
    let front := lefts ++ eq ++ ({ point with idx := i } :: gt)
    let dominated := dominated.reverse
    let (bl, cl) := cutBoxesOnTheLeft (st.boxes.getD left.idx []) point
    let boxes := st.boxes.setIfInBounds left.idx bl
    let contrib := addC st.contrib left.idx cl
    let (br, cr) := cutBoxesOnTheRight (boxes.getD right.idx []) point right
    let boxes := boxes.setIfInBounds right.idx br
    let contrib := addC contrib right.idx cr
    -- dominated points: close their boxes, create the boxes of the new point
    let (contrib, mine, xright) := dominated.foldl (fun (acc : Array Int × List Box × Int) d =>
        let (contrib, mine, xright) := acc
        let dp := pts.getD d ⟨0, 0, 0, 0⟩
        let contrib := (boxes.getD d []).foldl (fun c b => addC c d { b with u3 := point.f3 }.volume) contrib
        let leftBox : Box := { l1 := dp.f1, l2 := point.f2, l3 := point.f3, u1 := xright, u2 := dp.f2, u3 := point.f3 }
        (contrib, leftBox :: mine, dp.f1)) (contrib, st.boxes.getD i [], right.f1)
    let newBox : Box := { l1 := point.f1, l2 := point.f2, l3 := point.f3, u1 := xright, u2 := left.f2, u3 := point.f3 }
    { front := front, boxes := boxes.setIfInBounds i (newBox :: mine), contrib := contrib }

/-- `allContributions(points)` before the final sort: `(contribution, original index)` by sorted position -/
def allContributions (pts : List P3) (orig : List Nat) : List KV :=
  let n := pts.length
  let arr := pts.toArray
  let st0 : C3 := { front := [⟨negInf, 0, negInf, n⟩, ⟨0, negInf, negInf, n⟩]
                    boxes := Array.replicate (n + 1) [], contrib := Array.replicate (n + 1) 0 }
  let st := (List.range n).foldl (step3c arr) st0
  -- close all remaining boxes of the points on the front
  let contrib := st.front.foldl (fun c p =>
      (st.boxes.getD p.idx []).foldl (fun c b => addC c p.idx { b with u3 := 0 }.volume) c) st.contrib
  (List.range n).map fun i => (contrib.getD i 0, orig.getD i 0)

/-- `allContributions(points, ref)` (since /repo 778c5b2c): points that are not strictly below the reference
point in every objective get the contribution 0 and are kept out of the sweep; the others are shifted by the
reference point, sorted by the third objective and swept.  The result of the sweep is sorted ascending by
`allContributions(front)`; the zeros are put in front of it, so the whole vector is ascending. -/
def contribs3d (S : List Pt) (r : Pt) : List KV :=
  let ins := S.zipIdx.filter fun (p, _) => inside3 r p
  let outs := S.zipIdx.filter fun (p, _) => !inside3 r p
  let front := ins.map fun (p, i) => (({ f1 := px p - px r, f2 := py p - py r, f3 := pz p - pz r, idx := 0 } : P3), i)
  let sorted := front.mergeSort fun a b => decide (a.1.f3 ≤ b.1.f3)
  (outs.map fun (_, i) => ((0 : Int), i)) ++ sortKV (allContributions (sorted.map (·.1)) (sorted.map (·.2)))

def smallest3d (S : List Pt) (k : Nat) (r : Pt) : List KV := smallestOf (contribs3d S r) k
def largest3d (S : List Pt) (k : Nat) (r : Pt) : List KV := largestOf (contribs3d S r) k

/-! ### the front ends -/

/-- `HypervolumeCalculator::operator()` (exact algorithms) -/
def hvDisp (S : List Pt) (r : Pt) : Int :=
  if S.isEmpty then 0
  else match r.length with
    | 2 => hv2d S r
    | 3 => hv3d S r
    | 4 => SharkVerif.HOY.hvHoy S r
    | _ => hvWfg S r

/-- `HypervolumeContribution::smallest/largest(points, k, ref)`: the pairs before sorting and truncation -/
def contribsDisp (S : List Pt) (r : Pt) : List KV :=
  match r.length with
  | 2 => contribs2d S r
  | 3 => contribs3d S r
  | _ => contribsMD SharkVerif.DC.nds hvDisp S r

end SharkVerif.HV
