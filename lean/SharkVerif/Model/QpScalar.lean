/-
Scalar conventions shared by the QP models (C07, C08) and by the T0-generated
definitions (`Gen/Analytic.lean`).

Every numeric definition is written once, polymorphically over a type `α` with
the standard operator classes (`Add Sub Mul Div Neg LT LE`, decidable order,
`OfScientific` for literals such as `1.0e-12`).  It is used at
* `Rat`   (core Lean, exact) — the instance the theorems are about; because only
  the *standard* classes are used, the `Rat` instance unfolds to ordinary
  `+ - * / < ≤` on `Rat`, so `grind`/`linarith`/`nlinarith` apply directly;
* `Float` (IEEE binary64) — executed by the native driver and compared
  bit-for-bit with the C++.
Core Lean only (no Mathlib).
-/
namespace SharkVerif.Qp

variable {α : Type} [LT α] [DecidableLT α]

/-- `std::max(a,b)`: `(a < b) ? b : a` (libstdc++), NaN/±0 behave as in the C++ -/
def smax (a b : α) : α := if a < b then b else a

/-- `std::min(a,b)`: `(b < a) ? b : a` -/
def smin (a b : α) : α := if b < a then b else a

/-- point update of a vector represented as a function on `Nat` -/
def upd {β : Type} (f : Nat → β) (i : Nat) (v : β) : Nat → β :=
  fun k => if k = i then v else f k

/-- transposition of two indices -/
def swapIdx (i j k : Nat) : Nat :=
  if k = i then j else if k = j then i else k

end SharkVerif.Qp
