/-
Executable model of `HypervolumeSubsetSelection2D::operator()(points, selected, k, refPoint)`
(Operators/Hypervolume/HypervolumeSubsetSelection2D.h): `createFront` (shift by the reference
point, `std::sort` with `Point::operator<`, `std::unique` removing dominated points), `hypSSP`
(the dynamic programme of Bringmann, Friedrich, Klitzke 2014: k-1 rounds of `upperEnvelope`,
choice of the last point, back-tracking through the `chosen` tables, fill-up to k points).
Core Lean only (`Rat` is in core; it is needed for `Intersection` only: for integer input all
function values `h` are integers).
-/
import SharkVerif.Model.Hypervolume
import SharkVerif.Gen.SspPointLess
namespace SharkVerif.SSP
open SharkVerif.Pareto SharkVerif.HV

/-- `HypervolumeSubsetSelection2D::Point` (without the `selected` flag) -/
structure P2 where
  f1 : Int
  f2 : Int
  idx : Nat
  deriving Repr, DecidableEq

/-- `Point::operator<` **as written in the C++** (regenerated from the source on every run by
`translate/ssp_point_less.py`).  At the time of writing the tie-break of the "lexicographic" order compares
`f2` with `rhs.f1` (sic), see finding C13-SSP-LEXLESS; `ptLtFixed` is the intended order. -/
def ptLt (a b : P2) : Bool := SharkVerif.Gen.sspPointLess a.f1 a.f2 b.f1 b.f2

def ptLtFixed (a b : P2) : Bool :=
  if a.f1 < b.f1 then true else if b.f1 < a.f1 then false else decide (a.f2 < b.f2)

/-- `std::__unguarded_linear_insert` on the reversed sorted prefix: `v` moves towards the front while `lt v e` -/
def linInsert {α} (lt : α → α → Bool) (v : α) : List α → List α
  | [] => [v]
  | e :: es => if lt v e then e :: linInsert lt v es else v :: e :: es

/-- one step of libstdc++'s `std::__insertion_sort` (which is what `std::sort` does for at most 16 elements):
`if (comp(v, *first)) move v to the front; else unguarded linear insert` -/
def insStep {α} (lt : α → α → Bool) (acc : List α) (v : α) : List α :=
  match acc with
  | [] => [v]
  | first :: _ => if lt v first then v :: acc else (linInsert lt v acc.reverse).reverse

/-- `std::sort(front.begin(), front.end())` for at most 16 elements; for a comparator that is a strict weak
order on the input this is the stable sorted order, which for pairwise inequivalent elements is what every
sorting algorithm returns -/
def insSort {α} (lt : α → α → Bool) (l : List α) : List α := l.foldl (insStep lt) []

/-- `std::unique(first, last, pred)` with `pred(x, y) = (y.f2 >= x.f2)`: `x` is the last element kept -/
def uniqueGo (last : P2) : List P2 → List P2
  | [] => []
  | y :: rest => if y.f2 ≥ last.f2 then uniqueGo last rest else y :: uniqueGo y rest

def uniqueFront : List P2 → List P2
  | [] => []
  | x :: rest => x :: uniqueGo x rest

/-- `createFront(points, refX, refY)` with an arbitrary comparator for the sort -/
def createFrontWith (lt : P2 → P2 → Bool) (S : List Pt) (r : Pt) : List P2 :=
  uniqueFront (insSort lt (S.zipIdx.map fun (p, i) => { f1 := px p - px r, f2 := py p - py r, idx := i }))

def createFront (S : List Pt) (r : Pt) : List P2 := createFrontWith ptLt S r

/-! ### upperEnvelope -/

/-- `LinearFunction` -/
structure LF where
  a : Int
  b : Int
  idx : Nat
  deriving Repr, DecidableEq

def LF.eval (f : LF) (x : Int) : Int := f.a * x + f.b

/-- `Intersection(f1, f2) = (f2.b - f1.b) / (f1.a - f2.a)` -/
def isect (f g : LF) : Rat := ((g.b - f.b : Int) : Rat) / ((f.a - g.a : Int) : Rat)

/-- first `while (s.size() > 1)` loop; the deque is given back to front.
`d1 <= d2 || |d1 - d2| < 1e-10` is `d1 ≤ d2` for the integer inputs considered (quotients of small integers) -/
def popBack (f : LF) : List LF → List LF
  | s1 :: s2 :: rest => if isect f s1 ≤ isect s2 s1 then popBack f (s2 :: rest) else s1 :: s2 :: rest
  | s => s

/-- second `while (s.size() > 1)` loop; the deque is given front to back.
`d1 < d2 || |d1 - d2| < 1e-10` is `d1 ≤ d2` on integers -/
def popFront (x : Int) : List LF → List LF
  | s0 :: s1 :: rest => if s0.eval x ≤ s1.eval x then popFront x (s1 :: rest) else s0 :: s1 :: rest
  | s => s

/-- loop body for index `i`: returns the deque and `(h[i], chosen[i])` -/
def envStep (s : List LF) (f : LF) (x : Int) : List LF × Int × Nat :=
  let s := (f :: popBack f s.reverse).reverse
  let s := popFront x s
  match s with
  | [] => ([], 0, 0)
  | s0 :: _ => (s, s0.eval x, s0.idx)

def envGo (s : List LF) : List (LF × Int) → List (Int × Nat)
  | [] => []
  | (f, x) :: rest =>
    let (s', h, c) := envStep s f x
    (h, c) :: envGo s' rest

/-- `upperEnvelope(functions, points)`: the list of `(h[i], chosen[i])` -/
def upperEnvelope (F : List P2) (h : List Int) : List (Int × Nat) :=
  let fs := (F.zip h).zipIdx.map fun ((p, hi), i) => (({ a := -p.f2, b := p.f1 * p.f2 + hi, idx := i } : LF), p.f1)
  envGo [] fs

/-! ### hypSSP -/

/-- the `for j` loop: `rounds` applications of `upperEnvelope`; returns the final `h` and the `chosen`
tables, the most recent first (the C++ walks `chosen` backwards) -/
def dpRounds (F : List P2) : Nat → List Int → List (List Nat) → List Int × List (List Nat)
  | 0, h, ch => (h, ch)
  | j + 1, h, ch =>
    let res := upperEnvelope F h
    dpRounds F j (res.map (·.1)) (res.map (·.2) :: ch)

/-- "choose the last element by simply iterating over all elements": first index of the strict maximum of
`f1*f2 + h[i]` above the start value `-1` -/
def lastIndex (F : List P2) (h : List Int) : Nat :=
  (((F.zip h).zipIdx.foldl (fun (st : Int × Nat) (e : (P2 × Int) × Nat) =>
      let v := e.1.1.f1 * e.1.1.f2 + e.1.2
      if v > st.1 then (v, e.2) else st) ((-1 : Int), 0))).2

/-- back-tracking: the indices (into the front) marked `selected` before the fill-up, last chosen first -/
def backtrack (cur : Nat) : List (List Nat) → List Nat
  | [] => [cur]
  | c :: cs => cur :: backtrack (c.getD cur 0) cs

/-- fill-up loop: mark unselected front positions in increasing order until `k` are marked -/
def fillUp (n k : Nat) (sel : List Nat) : List Nat :=
  (List.range n).foldl (fun sel i => if sel.length < k && !sel.contains i then sel ++ [i] else sel) sel

/-- positions of the front selected by `hypSSP(front, k)` (duplicates removed) -/
def hypSSP (F : List P2) (k : Nat) : List Nat :=
  let (h, ch) := dpRounds F (k - 1) (F.map fun _ => 0) []
  let sel := (backtrack (lastIndex F h) ch).eraseDups
  fillUp F.length k sel

/-- `operator()(points, selected, k, refPoint)`: the `selected` flags by original index -/
def selectWith (lt : P2 → P2 → Bool) (S : List Pt) (k : Nat) (r : Pt) : List Bool :=
  let F := createFrontWith lt S r
  let sel := (hypSSP F k).map fun i => (F.getD i ⟨0, 0, S.length⟩).idx
  (List.range S.length).map fun i => sel.contains i

def select (S : List Pt) (k : Nat) (r : Pt) : List Bool := selectWith ptLt S k r

/-- the selected points -/
def selected (S : List Pt) (k : Nat) (r : Pt) : List Pt :=
  ((S.zip (select S k r)).filter (·.2)).map (·.1)

end SharkVerif.SSP
