/-
Executable model of `ModelKernel` (include/shark/Models/Kernels/ModelKernel.h, class
`detail::ModelKernelImpl`) over an ARBITRARY model - in particular over models WITH a batch-dependent
State: a `ConcatenatedModel` chain (`Model/Models.lean`, `Chain`) stores the hidden responses of all
its layers in the State that `eval` fills and `weightedParameterDerivative` reads.

`K(x,z) = k(g(x), g(z))`.  The kernel class is modelled the way the C++ is written: as code that CALLS
the base kernel's batch evaluation / derivative functions and the model's `eval` /
`weightedParameterDerivative` (function arguments here, virtual calls there):

    eval(x1,x2,state):  intermediateX1 = model(x1) [modelStateX1];  intermediateX2 = model(x2) [modelStateX2];
                        result = kernel(intermediateX1, intermediateX2)
    weightedParameterDerivative(x1,x2,C,state):
        kernelGrad = kernel.weightedParameterDerivative(intermediateX1, intermediateX2, C)
        D1 = kernel.weightedInputDerivative(intermediateX1, intermediateX2, C)
        D2 = kernel.weightedInputDerivative(intermediateX2, intermediateX1, trans(C))
        gradient = kernelGrad | (model.weightedParameterDerivative(x1, D1) [modelStateX1]
                                 + model.weightedParameterDerivative(x2, D2) [modelStateX2])

Every model call of the executable model recomputes the forward pass of ITS OWN batch (`Chain.backward`
takes the batch, not a state): this is the specification "each batch is differentiated through its own
hidden responses" that the two State objects of the C++ implement.

Core Lean only; run by `drv_c05` at `Rat` and `Float` next to the C++.
-/
import SharkVerif.Model.KernelGrad
import SharkVerif.Model.Models2
namespace SharkVerif.Kernels
open SharkVerif SharkVerif.Models

section
variable {α : Type} [Add α] [OfNat α 0]

/-- `ModelKernelImpl::eval` (all overloads): both batches through the model, then the base kernel's block -/
def modelKernelBlock (kb : Mat α → Mat α → Mat α) (g : Mat α → Mat α) (X1 X2 : Mat α) : Mat α :=
  kb (g X1) (g X2)

/-- `ModelKernelImpl::weightedParameterDerivative`; `kG` / `kI` = the base kernel's
`weightedParameterDerivative` / `weightedInputDerivative`, `g` = the model's batch evaluation,
`bw X D` = the model's `weightedParameterDerivative` on the batch `X` with coefficients `D` -/
def modelKernelParamGrad (kG : Mat α → Mat α → Mat α → List α) (kI : Mat α → Mat α → Mat α → Mat α)
    (g : Mat α → Mat α) (bw : Mat α → Mat α → List α) (C X1 X2 : Mat α) : List α :=
  let U1 := g X1
  let U2 := g X2
  let D1 := kI C U1 U2
  let D2 := kI (transposeM C X2.length) U2 U1
  kG C U1 U2 ++ vadd (bw X1 D1) (bw X2 D2)
end

/-! ### the model is a `ConcatenatedModel` chain -/
section
variable {α : Type} [Scalar α]

/-- a batch (list of rows) as an index function -/
def matFn (M : Mat α) : Nat → Nat → α :=
  let a := (M.map List.toArray).toArray
  fun i j => (a.getD i #[]).getD j 0

def fnMat (r c : Nat) (f : Nat → Nat → α) : Mat α :=
  (List.range r).map fun i => (List.range c).map fun j => f i j

/-- output dimension of a chain whose input has dimension `n` -/
def chainOutDim : Chain α → Nat → Nat
  | [], n => n
  | (l, _) :: rest, _ => chainOutDim rest l.nOut

/-- `ConcatenatedModel::eval` on a batch given as a list of rows of dimension `nIn` -/
def chainEvalM (tanh exp : α → α) (c : Chain α) (nIn : Nat) (X : Mat α) : Mat α :=
  fnMat X.length (chainOutDim c nIn) (Chain.evalB tanh exp c (matFn X))

/-- `ConcatenatedModel::weightedParameterDerivative` of the batch `X` with coefficients `D`
(forward pass of THIS batch, then the backward pass) -/
def chainGradM (tanh exp : α → α) (c : Chain α) (X D : Mat α) : List α :=
  (Chain.backward tanh exp X.length c (matFn X) (matFn D)).1
end

end SharkVerif.Kernels
