/-
Model of the expression layer of `LinAlg/BLAS/solve.hpp`: the expression nodes `matrix_vector_solve`,
`matrix_matrix_solve`, `matrix_inverse` and the rewrites ("optimizers") that `trans`, `row`, `prod`
(`%`) apply when they meet such a node.  Every solve / inverse node carries its system tag
(`Model/LinSolveCG.lean: Tag`) *with its state* -- `conjugate_gradient(epsilon, max_iterations)`.

The skeleton (which node a rewrite matches, how it nests the sub-rewrites) is written here after
`solve.hpp`; what each rewrite does with the **tag** and the **side** is a parameter (`Rules`), and the
instance for the checked tree is REGENERATED from `solve.hpp` on every run
(`translate/solve_rules.py` → `Gen/SolveRules.lean`).

Core Lean only (no Mathlib): compiled into the native driver `drv_c02`, which evaluates the rewritten
expression of every form the harness writes.
-/
import SharkVerif.Model.LinSolveCG
namespace SharkVerif.LinSolve

/-- expressions (matrix- and vector-valued in one type; ill-sorted terms are never built) -/
inductive E where
  | mat (id : Nat)                                   -- a matrix container
  | vec (id : Nat)                                   -- a vector container
  | unit (i : Nat)                                   -- `unit_vector(n, i)`
  | trans (e : E)                                    -- transposed proxy of a container / unoptimised node
  | msolve (A B : E) (t : Tag) (left : Bool)         -- `matrix_matrix_solve<A,B,Tag,Side>`
  | vsolve (A b : E) (t : Tag) (left : Bool)         -- `matrix_vector_solve<A,b,Tag,Side>`
  | inv (A : E) (t : Tag)                            -- `matrix_inverse<A,Tag>`
  | mvprod (M v : E)                                 -- `matrix_vector_prod`
  | mmprod (X Y : E)                                 -- `matrix_matrix_prod`
  | row (M : E) (i : Nat)                            -- row proxy of a container / unoptimised node

/-- what one rewrite does with the tag object and which side its result carries -/
structure TagRule where
  tag : Tag → Tag
  side : Bool → Bool          -- input side ↦ side of the created solve node (`true` = left)

/-- the rewrites of `solve.hpp` (one field per `*_optimizer` specialisation) -/
structure Rules where
  transSolve : TagRule        -- matrix_transpose_optimizer<matrix_matrix_solve<M1,M2,Tag,system_tag<Left>>>
  transInv : TagRule          -- matrix_transpose_optimizer<matrix_inverse<M,Tag>>
  prodInvVec : TagRule        -- matrix_vector_prod_optimizer<matrix_inverse<M,Tag>,V>
  prodSolveLeftVec : TagRule  -- matrix_vector_prod_optimizer<matrix_matrix_solve<..,left>,V>
  prodSolveRightVec : TagRule -- matrix_vector_prod_optimizer<matrix_matrix_solve<..,right>,V>
  rowSolveLeft : TagRule      -- matrix_row_optimizer<matrix_matrix_solve<..,left>>
  rowSolveRight : TagRule     -- matrix_row_optimizer<matrix_matrix_solve<..,right>>
  prodInvMat : TagRule        -- matrix_matrix_prod_optimizer<matrix_inverse<M1,Tag>,M2>
  prodMatInv : TagRule        -- matrix_matrix_prod_optimizer<M1,matrix_inverse<M2,Tag>>

/-- `trans(e)` -/
def transOpt (R : Rules) : E → E
  | .trans e => e
  | .msolve A B t l => .msolve (transOpt R A) (transOpt R B) (R.transSolve.tag t) (R.transSolve.side l)
  | .inv A t => .inv (transOpt R A) (R.transInv.tag t)
  | .mmprod X Y => .mmprod (transOpt R Y) (transOpt R X)
  | e => .trans e

/-- `prod(M, v)` -/
def mvprodOpt (R : Rules) : E → E → E
  | .inv A t, v => .vsolve A v (R.prodInvVec.tag t) (R.prodInvVec.side true)
  | .msolve A B t true, v => .vsolve A (mvprodOpt R B v) (R.prodSolveLeftVec.tag t) (R.prodSolveLeftVec.side true)
  | .msolve A B t false, v => mvprodOpt R B (.vsolve A v (R.prodSolveRightVec.tag t) (R.prodSolveRightVec.side false))
  | M, v => .mvprod M v

/-- `row(M, i)` -/
def rowOpt (R : Rules) : E → Nat → E
  | .msolve A B t true, i =>
      mvprodOpt R (transOpt R B) (.vsolve A (.unit i) (R.rowSolveLeft.tag t) (R.rowSolveLeft.side true))
  | .msolve A B t false, i => .vsolve A (rowOpt R B i) (R.rowSolveRight.tag t) (R.rowSolveRight.side false)
  | M, i => .row M i

/-- `prod(X, Y)` for matrices -/
def mmprodOpt (R : Rules) : E → E → E
  | .inv A t, M => .msolve A M (R.prodInvMat.tag t) (R.prodInvMat.side true)
  | M, .inv A t => .msolve A M (R.prodMatInv.tag t) (R.prodMatInv.side false)
  | X, Y => .mmprod X Y

/-- `v % M = prod(trans(M), v)` -/
def vmprodOpt (R : Rules) (v M : E) : E := mvprodOpt R (transOpt R M) v

/-- `column(M, k) = row(trans(M), k)` -/
def colOpt (R : Rules) (M : E) (k : Nat) : E := rowOpt R (transOpt R M) k

/-- the tag objects an expression carries -/
def E.tags : E → List Tag
  | .mat _ => []
  | .vec _ => []
  | .unit _ => []
  | .trans e => e.tags
  | .msolve A B t _ => t :: (A.tags ++ B.tags)
  | .vsolve A b t _ => t :: (A.tags ++ b.tags)
  | .inv A t => t :: A.tags
  | .mvprod M v => M.tags ++ v.tags
  | .mmprod X Y => X.tags ++ Y.tags
  | .row M _ => M.tags

end SharkVerif.LinSolve
