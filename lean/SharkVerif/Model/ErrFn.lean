/-
C06: the evaluation loops of `ErrorFunction` (include/shark/ObjectiveFunctions/ErrorFunction.h and
Impl/ErrorFunction.inl) over the `Chain` model of C04 (`Model/Models.lean`) and an arbitrary loss:

* `ErrorFunctionImpl::eval(start,end)` / `evalDerivative(start,end,derivative)` — the per-thread loops,
* the full-batch `eval` / `evalDerivative`: `numThreads = min(SHARK_NUM_THREADS, numBatches)`, the thread
  ranges **regenerated from the C++** (`Gen/ParRegions.lean`, sites 1 and 2), partial results added under the
  lock in an arbitrary thread order, division by the number of elements,
* the mini-batch branch (one batch, divided by its size),
* `WeightedErrorFunctionImpl::eval` / `evalDerivative` (parallel loop over the batches, per-element
  single-element loss calls, division by the sum of weights),
* `ErrorFunction::eval/evalDerivative` adding `strength · regularizer`, `CombinedObjectiveFunction`,
* `NegativeLogLikelihood::eval/evalDerivative` (thread ranges: site 3).

Core Lean only.
-/
import SharkVerif.Model.Loss2
import SharkVerif.Model.Models
import SharkVerif.Gen.ParRegions
namespace SharkVerif.ErrFn
open Scalar SharkVerif.Models SharkVerif.Loss
variable {α : Type} [Scalar α] {L : Type}

/-- a batch of the data set: `n` rows of inputs (index function), labels, element weights -/
structure Batch (α : Type) (L : Type) where
  n : Nat
  X : Nat → Nat → α
  labels : List L
  weights : List α := []

/-- the two batch entry points of an `AbstractLoss` -/
structure LossFn (α : Type) (L : Type) where
  eval : List L → List (List α) → α
  evalDerivative : List L → List (List α) → α × List (List α)

/-! the losses of `Model/Loss.lean` / `Model/Loss2.lean` behind the interface -/
def squaredLoss : LossFn α (List α) := ⟨squaredEval, squaredEvalDerivative⟩
def squaredClassLoss : LossFn α Nat := ⟨squaredClassEval, squaredClassEvalDerivative⟩
def hingeLoss : LossFn α Nat := ⟨hingeEval, hingeEvalDerivative⟩
def sqHingeLoss : LossFn α Nat := ⟨sqHingeEval, sqHingeEvalDerivative⟩
def epsHingeLoss (eps : α) : LossFn α (List α) := ⟨epsHingeEval eps, epsHingeEvalDerivative eps⟩
def sqEpsHingeLoss (sqrEps : α) : LossFn α (List α) := ⟨sqEpsHingeEval sqrEps, sqEpsHingeEvalDerivative sqrEps⟩
def huberLoss (sqrt : α → α) (delta : α) : LossFn α (List α) :=
  ⟨huberEval sqrt delta, fun l p => (huberEval sqrt delta l p, List.zipWith (huberGradRow sqrt delta) l p)⟩
def crossEntropyLoss (exp log : α → α) : LossFn α Nat := ⟨ceEval exp log, ceEvalDerivative exp log⟩
def crossEntropySoftLoss (exp log : α → α) : LossFn α (List α) := ⟨ceSoftEval exp log, ceSoftEvalDerivative exp log⟩

/-- a model seen through the `AbstractModel` interface: batch evaluation and `weightedParameterDerivative` -/
structure ModelFn (α : Type) where
  /-- number of outputs -/
  m : Nat
  /-- number of parameters -/
  np : Nat
  evalB : (Nat → Nat → α) → Nat → Nat → α
  /-- `weightedParameterDerivative(inputs, outputs, coefficients, state, gradient)` for a batch of `B` rows -/
  wpd : Nat → (Nat → Nat → α) → (Nat → Nat → α) → List α

/-- the `ConcatenatedModel` of C04 as a `ModelFn` -/
def ofChain (tanh exp : α → α) (c : Chain α) (m : Nat) : ModelFn α :=
  { m := m, np := c.params.length, evalB := c.evalB tanh exp,
    wpd := fun B X C => (c.backward tanh exp B X C).1 }

/-- the prediction matrix of a batch as a list of rows -/
def toRows (B m : Nat) (out : Nat → Nat → α) : List (List α) :=
  (List.range B).map fun i => (List.range m).map (out i)
/-- a gradient matrix (list of rows) as coefficient index function -/
def coefOf (g : List (List α)) : Nat → Nat → α := fun i k => (g.getD i []).getD k 0
/-- `noalias(a) += b` on vectors -/
def vadd (a b : List α) : List α := List.zipWith (· + ·) a b
def zeros (n : Nat) : List α := List.replicate n 0

def predictions (f : ModelFn α) (b : Batch α L) : List (List α) := toRows b.n f.m (f.evalB b.X)

/-- `ErrorFunctionImpl::eval(start, end)` -/
def rangeEval (f : ModelFn α) (loss : LossFn α L) (batches : Nat → Batch α L) (start stop : Nat) : α :=
  (List.range (stop - start)).foldl
    (fun s d => let b := batches (start + d); s + loss.eval b.labels (predictions f b)) 0

/-- `ErrorFunctionImpl::evalDerivative(start, end, derivative)`, accumulating into `deriv` -/
def rangeEvalDerivative (f : ModelFn α) (loss : LossFn α L) (batches : Nat → Batch α L)
    (start stop : Nat) (deriv : List α) : α × List α :=
  (List.range (stop - start)).foldl
    (fun (acc : α × List α) d =>
      let b := batches (start + d)
      let r := loss.evalDerivative b.labels (predictions f b)
      (acc.1 + r.1, vadd acc.2 (f.wpd b.n b.X (coefOf r.2)))) (0, deriv)

def numElements (batches : Nat → Batch α L) (B : Nat) : Nat := ((List.range B).map fun b => (batches b).n).sum

/-- full-batch `eval`: `order` = the order in which the threads enter the critical region -/
def eval (f : ModelFn α) (loss : LossFn α L) (batches : Nat → Batch α L) (B threads : Nat) (order : List Nat) : α :=
  let T := min threads B
  order.foldl (fun e t =>
    e + rangeEval f loss batches (Gen.ParRegions.Site1.start B T t) (Gen.ParRegions.Site1.stop B T t)) 0
    / ofNat (numElements batches B)

/-- full-batch `evalDerivative` -/
def evalDerivative (f : ModelFn α) (loss : LossFn α L) (batches : Nat → Batch α L) (B threads : Nat)
    (order : List Nat) : α × List α :=
  let T := min threads B
  let r := order.foldl (fun (acc : α × List α) t =>
    let th := rangeEvalDerivative f loss batches (Gen.ParRegions.Site2.start B T t) (Gen.ParRegions.Site2.stop B T t) (zeros f.np)
    (acc.1 + th.1, vadd acc.2 th.2)) (0, zeros f.np)
  let ne : α := ofNat (numElements batches B)
  (r.1 / ne, r.2.map (· / ne))

/-- mini-batch branch, `batchIndex` drawn by the caller's random number generator -/
def miniEval (f : ModelFn α) (loss : LossFn α L) (batches : Nat → Batch α L) (batchIndex : Nat) : α :=
  rangeEval f loss batches batchIndex (batchIndex + 1) / ofNat (batches batchIndex).n
def miniEvalDerivative (f : ModelFn α) (loss : LossFn α L) (batches : Nat → Batch α L) (batchIndex : Nat) : α × List α :=
  let r := rangeEvalDerivative f loss batches batchIndex (batchIndex + 1) (zeros f.np)
  let bs : α := ofNat (batches batchIndex).n
  (r.1 / bs, r.2.map (· / bs))

/-! ### WeightedErrorFunctionImpl -/
def sumOfWeights (batches : Nat → Batch α L) (B : Nat) : α :=
  (List.range B).foldl (fun s i => s + sumL (batches i).weights) 0

/-- the inner loop of `eval` for one batch: `batchError += weights(j) * loss.eval(label_j, prediction_j)` -/
def wBatchEval (f : ModelFn α) (loss : LossFn α L) (b : Batch α L) : α :=
  let pred := predictions f b
  (List.range b.n).foldl (fun s j =>
    s + b.weights.getD j 0 * loss.eval (b.labels.drop j |>.take 1) [pred.getD j []]) 0

def wEval (f : ModelFn α) (loss : LossFn α L) (batches : Nat → Batch α L) (B : Nat) (order : List Nat) : α :=
  order.foldl (fun e i => e + wBatchEval f loss (batches i)) 0 / sumOfWeights batches B

/-- one batch of `evalDerivative`: weighted single-element losses, coefficient rows `w_j · gradient_j`,
then the chain rule through the model -/
def wBatchEvalDerivative (f : ModelFn α) (loss : LossFn α L) (b : Batch α L) : α × List α :=
  let pred := predictions f b
  let r := (List.range b.n).foldl (fun (acc : α × List (List α)) j =>
    let w := b.weights.getD j 0
    let s := loss.evalDerivative (b.labels.drop j |>.take 1) [pred.getD j []]
    (acc.1 + w * s.1, acc.2 ++ [(s.2.getD 0 []).map (w * ·)])) (0, [])
  (r.1, f.wpd b.n b.X (coefOf r.2))

def wEvalDerivative (f : ModelFn α) (loss : LossFn α L) (batches : Nat → Batch α L) (B : Nat) (order : List Nat) :
    α × List α :=
  let r := order.foldl (fun (acc : α × List α) i =>
    let bi := wBatchEvalDerivative f loss (batches i)
    (acc.1 + bi.1, vadd acc.2 bi.2)) (0, zeros f.np)
  let sw := sumOfWeights batches B
  (r.1 / sw, r.2.map (· / sw))

/-! ### ErrorFunction with a regularizer; CombinedObjectiveFunction -/
def regEval (value strength regValue : α) : α := value + strength * regValue
def regEvalDerivative (r : α × List α) (strength : α) (reg : α × List α) : α × List α :=
  (r.1 + strength * reg.1, vadd r.2 (reg.2.map (strength * ·)))

/-- `ret = w_0·f_0; ret += w_i·f_i` -/
def combinedEval : List (α × α) → α
  | [] => 0
  | (w, v) :: rest => rest.foldl (fun r wv => r + wv.1 * wv.2) (w * v)
def combinedEvalDerivative : List (α × (α × List α)) → α × List α
  | [] => (0, [])
  | (w, v) :: rest => rest.foldl (fun r wv => (r.1 + wv.1 * wv.2.1, vadd r.2 (wv.2.2.map (wv.1 * ·)))) (w * v.1, v.2.map (w * ·))

/-! ### NegativeLogLikelihood (one model output, the probability) -/
def nllBatch (log : α → α) (minProb : α) (f : ModelFn α) (b : Batch α L) : α :=
  sumL ((toRows b.n 1 (f.evalB b.X)).flatten.map fun p => log (smax p minProb))
def nllEval (log : α → α) (minProb : α) (f : ModelFn α) (batches : Nat → Batch α L) (B : Nat) (order : List Nat) : α :=
  -(order.foldl (fun e i => e + nllBatch log minProb f (batches i)) 0 / ofNat (numElements batches B))
def nllRange (log : α → α) (minProb : α) (f : ModelFn α) (batches : Nat → Batch α L) (start stop : Nat) : α × List α :=
  (List.range (stop - start)).foldl (fun (acc : α × List α) d =>
    let b := batches (start + d)
    let out := f.evalB b.X
    let coeffs : Nat → Nat → α := fun j k => if minProb ≤ out j k then 1 / out j k else 0
    (acc.1 + nllBatch log minProb f b, vadd acc.2 (f.wpd b.n b.X coeffs))) (0, zeros f.np)
def nllEvalDerivative (log : α → α) (minProb : α) (f : ModelFn α) (batches : Nat → Batch α L) (B threads : Nat)
    (order : List Nat) : α × List α :=
  let T := min threads B
  let r := order.foldl (fun (acc : α × List α) t =>
    let th := nllRange log minProb f batches (Gen.ParRegions.Site3.start B T t) (Gen.ParRegions.Site3.stop B T t)
    (acc.1 + th.1, vadd acc.2 th.2)) (0, zeros f.np)
  let ne : α := ofNat (numElements batches B)
  (-(r.1 / ne), (r.2.map (· / ne)).map (· * (-1)))

end SharkVerif.ErrFn
