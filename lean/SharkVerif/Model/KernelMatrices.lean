/-
Models of the kernel-matrix wrapper classes used by the QP solvers
(include/shark/LinAlg/{KernelMatrix,RegularizedKernelMatrix,ModifiedKernelMatrix,
PrecomputedMatrix,BlockMatrix2x2,DifferenceKernelMatrix,PartlyPrecomputedMatrix}.h).

Vectors are functions on `Nat`; `std::swap(a[i],a[j])` is composition with the
transposition `swapIdx i j` (same as in `Model/Cache.lean`).  The kernel itself
is an arbitrary function `k` on *original* example indices (its own properties
are C05's subject).  Core Lean only.
-/
import SharkVerif.Model.Cache
namespace SharkVerif.KM
open SharkVerif.Cache (swapIdx)

/-- `std::swap(a[i], a[j])` on a vector -/
def swapVec {α : Type} (a : Nat → α) (i j : Nat) : Nat → α := fun k => a (swapIdx i j k)

/-- `KernelMatrix`: `x[i]` points to the example currently at position `i` -/
structure Kernel (V : Type) where
  k : Nat → Nat → V
  x : Nat → Nat

namespace Kernel
variable {V : Type}
def init (k : Nat → Nat → V) : Kernel V := { k := k, x := id }
def entry (m : Kernel V) (i j : Nat) : V := m.k (m.x i) (m.x j)
def row (m : Kernel V) (i start stop : Nat) : List V :=
  (List.range (stop - start)).map fun d => m.entry i (start + d)
def flip (m : Kernel V) (i j : Nat) : Kernel V := { m with x := swapVec m.x i j }
end Kernel

/-- `RegularizedKernelMatrix`: kernel matrix plus a diagonal modification -/
structure Regularized (V : Type) where
  base : Kernel V
  diag : Nat → V

namespace Regularized
variable {V : Type} [Add V]
def init (k : Nat → Nat → V) (diag : Nat → V) : Regularized V := { base := Kernel.init k, diag := diag }
def entry (m : Regularized V) (i j : Nat) : V :=
  let ret := m.base.entry i j
  if i = j then ret + m.diag i else ret
/-- `row`: base row, then `storage[k-start] += diag(k)` if `start ≤ k < end` -/
def row (m : Regularized V) (k start stop : Nat) : List V :=
  let r := m.base.row k start stop
  if start ≤ k ∧ k < stop then
    r.set (k - start) (r.getD (k - start) (m.base.entry k k) + m.diag k)
  else r
def flip (m : Regularized V) (i j : Nat) : Regularized V :=
  { base := m.base.flip i j, diag := swapVec m.diag i j }
end Regularized

/-- `ModifiedKernelMatrix`: entries scaled by one of two factors depending on label equality -/
structure Modified (V : Type) where
  base   : Kernel V
  labels : Nat → Nat
  modEq  : V
  modNe  : V

namespace Modified
variable {V : Type} [Mul V]
def init (k : Nat → Nat → V) (labels : Nat → Nat) (e n : V) : Modified V :=
  { base := Kernel.init k, labels := labels, modEq := e, modNe := n }
def modifier (m : Modified V) (i j : Nat) : V := if m.labels i = m.labels j then m.modEq else m.modNe
def entry (m : Modified V) (i j : Nat) : V := m.modifier i j * m.base.entry i j
/-- `row`: base row, then `storage[j-start] *= modifier` -/
def row (m : Modified V) (i start stop : Nat) : List V :=
  (List.range (stop - start)).map fun d => m.base.entry i (start + d) * m.modifier i (start + d)
def flip (m : Modified V) (i j : Nat) : Modified V :=
  { m with base := m.base.flip i j, labels := swapVec m.labels i j }
end Modified

/-- `PrecomputedMatrix`: all entries stored; flips swap rows and columns of the store -/
structure Precomputed (V : Type) where
  m : Nat → Nat → V

namespace Precomputed
variable {V : Type}
def init (baseEntry : Nat → Nat → V) : Precomputed V := { m := baseEntry }
def entry (p : Precomputed V) (i j : Nat) : V := p.m i j
def row (p : Precomputed V) (k start stop : Nat) : List V :=
  (List.range (stop - start)).map fun d => p.m k (start + d)
/-- `swap_rows(i,j)` then `swap_columns(i,j)` -/
def flip (p : Precomputed V) (i j : Nat) : Precomputed V :=
  let rowsSwapped : Nat → Nat → V := fun a b => p.m (swapIdx i j a) b
  { m := fun a b => rowsSwapped a (swapIdx i j b) }
end Precomputed

/-- `BlockMatrix2x2`: the 2n×2n matrix `[[K,K],[K,K]]` through an index mapping -/
structure Block2 (V : Type) where
  baseEntry : Nat → Nat → V
  n       : Nat
  mapping : Nat → Nat

namespace Block2
variable {V : Type}
def init (baseEntry : Nat → Nat → V) (n : Nat) : Block2 V :=
  { baseEntry := baseEntry, n := n, mapping := fun i => if i < n then i else i - n }
def entry (b : Block2 V) (i j : Nat) : V := b.baseEntry (b.mapping i) (b.mapping j)
def row (b : Block2 V) (i start stop : Nat) : List V :=
  (List.range (stop - start)).map fun d => b.entry i (start + d)
def flip (b : Block2 V) (i j : Nat) : Block2 V := { b with mapping := swapVec b.mapping i j }
end Block2

/-- `DifferenceKernelMatrix` over pairs `(s_i, g_i)` of example indices -/
structure Difference (V : Type) where
  k     : Nat → Nat → V
  pairs : Nat → Nat × Nat

namespace Difference
variable {V : Type} [Add V] [Sub V]
def init (k : Nat → Nat → V) (pairs : Nat → Nat × Nat) : Difference V := { k := k, pairs := pairs }
def entry (m : Difference V) (i j : Nat) : V :=
  let (si, gi) := m.pairs i
  let (sj, gj) := m.pairs j
  m.k gi gj - m.k gi sj - m.k si gj + m.k si sj
def row (m : Difference V) (i start stop : Nat) : List V :=
  (List.range (stop - start)).map fun d => m.entry i (start + d)
def flip (m : Difference V) (i j : Nat) : Difference V := { m with pairs := swapVec m.pairs i j }
end Difference

/-- `PartlyPrecomputedMatrix`: the first `rows` rows are stored, the rest evaluated on demand -/
structure Partly (V : Type) where
  baseEntry : Nat → Nat → V
  rows   : Nat
  cached : Nat → Nat → V

namespace Partly
variable {V : Type}
/-- constructor: `nRows = min(cacheBytes / (n * sizeofT), n)`, copies rows `0..nRows-1` -/
def init (baseEntry : Nat → Nat → V) (n cacheBytes sizeofT : Nat) : Partly V :=
  { baseEntry := baseEntry, rows := min (cacheBytes / (n * sizeofT)) n, cached := baseEntry }
def entry (p : Partly V) (i j : Nat) : V := if i < p.rows then p.cached i j else p.baseEntry i j
end Partly

end SharkVerif.KM
