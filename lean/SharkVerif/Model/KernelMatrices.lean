/-
Models of the kernel-matrix wrapper classes used by the QP solvers
(include/shark/LinAlg/{KernelMatrix,RegularizedKernelMatrix,ModifiedKernelMatrix,
PrecomputedMatrix,BlockMatrix2x2,DifferenceKernelMatrix,PartlyPrecomputedMatrix}.h).

Vectors are functions on `Nat`; `std::swap(a[i],a[j])` is composition with the
transposition `swapIdx i j` (same as in `Model/Cache.lean`).  The kernel itself
is an arbitrary function `k` on *original* example indices (its own properties
are C05's subject).  Core Lean only.
-/
import SharkVerif.Model.Cache
namespace SharkVerif.KM
open SharkVerif.Cache (swapIdx)

/-- `std::swap(a[i], a[j])` on a vector -/
def swapVec {α : Type} (a : Nat → α) (i j : Nat) : Nat → α := fun k => a (swapIdx i j k)

/-- `KernelMatrix`: `x[i]` points to the example currently at position `i` -/
structure Kernel (V : Type) where
  k : Nat → Nat → V
  x : Nat → Nat

namespace Kernel
variable {V : Type}
def init (k : Nat → Nat → V) : Kernel V := { k := k, x := id }
def entry (m : Kernel V) (i j : Nat) : V := m.k (m.x i) (m.x j)
def row (m : Kernel V) (i start stop : Nat) : List V :=
  (List.range (stop - start)).map fun d => m.entry i (start + d)
def flip (m : Kernel V) (i j : Nat) : Kernel V := { m with x := swapVec m.x i j }
/-- `matrix(storage)` = `calculateRegularizedKernelMatrix(kernel, m_data, storage)`: the Gram matrix
of the data set in its ORIGINAL order (the pointer vector `x` is not consulted) — finding K2.
`honoursFlips` selects the repaired variant (evaluate under the current order). -/
def matrix (m : Kernel V) (honoursFlips : Bool) (i j : Nat) : V :=
  if honoursFlips then m.entry i j else m.k i j
end Kernel

/-- `RegularizedKernelMatrix`: kernel matrix plus a diagonal modification -/
structure Regularized (V : Type) where
  base : Kernel V
  diag : Nat → V

namespace Regularized
variable {V : Type} [Add V]
def init (k : Nat → Nat → V) (diag : Nat → V) : Regularized V := { base := Kernel.init k, diag := diag }
def entry (m : Regularized V) (i j : Nat) : V :=
  let ret := m.base.entry i j
  if i = j then ret + m.diag i else ret
/-- `row`: base row, then `storage[k-start] += diag(k)` if `start ≤ k < end` -/
def row (m : Regularized V) (k start stop : Nat) : List V :=
  let r := m.base.row k start stop
  if start ≤ k ∧ k < stop then
    r.set (k - start) (r.getD (k - start) (m.base.entry k k) + m.diag k)
  else r
def flip (m : Regularized V) (i j : Nat) : Regularized V :=
  { base := m.base.flip i j, diag := swapVec m.diag i j }
/-- `matrix`: `m_matrix.matrix(storage)`, then `storage(k,k) += m_diagMod(k)` (the CURRENT diagonal) -/
def matrix (m : Regularized V) (hf : Bool) (i j : Nat) : V :=
  if i = j then m.base.matrix hf i j + m.diag i else m.base.matrix hf i j
end Regularized

/-- `ModifiedKernelMatrix`: entries scaled by one of two factors depending on label equality -/
structure Modified (V : Type) where
  base   : Kernel V
  labels : Nat → Nat
  modEq  : V
  modNe  : V

namespace Modified
variable {V : Type} [Mul V]
def init (k : Nat → Nat → V) (labels : Nat → Nat) (e n : V) : Modified V :=
  { base := Kernel.init k, labels := labels, modEq := e, modNe := n }
def modifier (m : Modified V) (i j : Nat) : V := if m.labels i = m.labels j then m.modEq else m.modNe
def entry (m : Modified V) (i j : Nat) : V := m.modifier i j * m.base.entry i j
/-- `row`: base row, then `storage[j-start] *= modifier` -/
def row (m : Modified V) (i start stop : Nat) : List V :=
  (List.range (stop - start)).map fun d => m.base.entry i (start + d) * m.modifier i (start + d)
def flip (m : Modified V) (i j : Nat) : Modified V :=
  { m with base := m.base.flip i j, labels := swapVec m.labels i j }
/-- `matrix`: `m_matrix.matrix(storage)`, then `storage(i,j) *= modifier` (the CURRENT labels) -/
def matrix (m : Modified V) (hf : Bool) (i j : Nat) : V := m.base.matrix hf i j * m.modifier i j
end Modified

/-- `PrecomputedMatrix`: all entries stored; flips swap rows and columns of the store -/
structure Precomputed (V : Type) where
  m : Nat → Nat → V

namespace Precomputed
variable {V : Type}
def init (baseEntry : Nat → Nat → V) : Precomputed V := { m := baseEntry }
def entry (p : Precomputed V) (i j : Nat) : V := p.m i j
def row (p : Precomputed V) (k start stop : Nat) : List V :=
  (List.range (stop - start)).map fun d => p.m k (start + d)
/-- `swap_rows(i,j)` then `swap_columns(i,j)` -/
def flip (p : Precomputed V) (i j : Nat) : Precomputed V :=
  let rowsSwapped : Nat → Nat → V := fun a b => p.m (swapIdx i j a) b
  { m := fun a b => rowsSwapped a (swapIdx i j b) }
/-- `row(k,begin,end)` (pointer overload): `&matrix(k,begin)` — the values from column `begin` on.
(`CachedMatrix::row(k,start,end)` returns the pointer to column 0 whatever `start` is; all callers
in the library pass `start = 0`, where the two conventions coincide.) -/
def rowPtr (p : Precomputed V) (k start stop : Nat) : List V := p.row k start stop
end Precomputed

/-- `BlockMatrix2x2`: the 2n×2n matrix `[[K,K],[K,K]]` through an index mapping -/
structure Block2 (V : Type) where
  baseEntry : Nat → Nat → V
  n       : Nat
  mapping : Nat → Nat

namespace Block2
variable {V : Type}
def init (baseEntry : Nat → Nat → V) (n : Nat) : Block2 V :=
  { baseEntry := baseEntry, n := n, mapping := fun i => if i < n then i else i - n }
def entry (b : Block2 V) (i j : Nat) : V := b.baseEntry (b.mapping i) (b.mapping j)
def row (b : Block2 V) (i start stop : Nat) : List V :=
  (List.range (stop - start)).map fun d => b.entry i (start + d)
def flip (b : Block2 V) (i j : Nat) : Block2 V := { b with mapping := swapVec b.mapping i j }
end Block2

/-- `DifferenceKernelMatrix` over pairs `(s_i, g_i)` of example indices -/
structure Difference (V : Type) where
  k     : Nat → Nat → V
  pairs : Nat → Nat × Nat

namespace Difference
variable {V : Type} [Add V] [Sub V]
def init (k : Nat → Nat → V) (pairs : Nat → Nat × Nat) : Difference V := { k := k, pairs := pairs }
def entry (m : Difference V) (i j : Nat) : V :=
  let (si, gi) := m.pairs i
  let (sj, gj) := m.pairs j
  m.k gi gj - m.k gi sj - m.k si gj + m.k si sj
def row (m : Difference V) (i start stop : Nat) : List V :=
  (List.range (stop - start)).map fun d => m.entry i (start + d)
def flip (m : Difference V) (i j : Nat) : Difference V := { m with pairs := swapVec m.pairs i j }
end Difference

/-- `PartlyPrecomputedMatrix`: the first `rows` rows are stored, the rest evaluated on demand -/
structure Partly (V : Type) where
  baseEntry : Nat → Nat → V
  rows   : Nat
  cached : Nat → Nat → V

namespace Partly
variable {V : Type}
/-- constructor: `nRows = min(cacheBytes / (n * sizeofT), n)`, copies rows `0..nRows-1` -/
def init (baseEntry : Nat → Nat → V) (n cacheBytes sizeofT : Nat) : Partly V :=
  { baseEntry := baseEntry, rows := min (cacheBytes / (n * sizeofT)) n, cached := baseEntry }
def entry (p : Partly V) (i j : Nat) : V := if i < p.rows then p.cached i j else p.baseEntry i j
/-- `row(k, storage)`: always the whole row (`n` = `m_cachedMatrix.size2()`), from the stored rows or
the base matrix; the class has neither a ranged `row` nor `flipColumnsAndRows` -/
def row (p : Partly V) (n k : Nat) : List V :=
  if k < p.rows then (List.range n).map fun j => p.cached k j
  else (List.range n).map fun j => p.baseEntry k j
end Partly

/-- `GaussianKernelMatrix` over points with inner products `ip` (original indices); `post` is
`d ↦ exp(-gamma·d)`; `norms` is the vector `m_squaredNorms`, swapped alongside `x` -/
structure Gaussian (V : Type) where
  ip    : Nat → Nat → V
  x     : Nat → Nat
  norms : Nat → V
  post  : V → V

namespace Gaussian
variable {V : Type} [Add V] [Sub V] [Mul V] [OfNat V 2]
def init (ip : Nat → Nat → V) (post : V → V) : Gaussian V :=
  { ip := ip, x := id, norms := fun i => ip i i, post := post }
/-- `m_squaredNorms(i) - 2*inner_prod(*x[i],*x[j]) + m_squaredNorms(j)` -/
def distance (m : Gaussian V) (i j : Nat) : V := m.norms i - 2 * m.ip (m.x i) (m.x j) + m.norms j
def entry (m : Gaussian V) (i j : Nat) : V := m.post (m.distance i j)
def row (m : Gaussian V) (i start stop : Nat) : List V :=
  (List.range (stop - start)).map fun d => m.post (m.distance i (start + d))
/-- `matrix`: row by row (honours flips) -/
def matrix (m : Gaussian V) (n i : Nat) : List V := m.row i 0 n
def flip (m : Gaussian V) (i j : Nat) : Gaussian V :=
  { m with x := swapVec m.x i j, norms := swapVec m.norms i j }
end Gaussian

/-- `ExampleModifiedKernelMatrix`: `K(x_i,x_j)·(1/s_i)·(1/s_j)`; `scale i` is `1/s_i`.
`swapsScale` = whether `flipColumnsAndRows` also exchanges the scaling coefficients
(read off the source on every run; `false` on the tree with finding F-C09-1). -/
structure ExMod (V : Type) where
  k     : Nat → Nat → V
  x     : Nat → Nat
  scale : Nat → V

namespace ExMod
variable {V : Type} [Mul V]
def init (k : Nat → Nat → V) (scale : Nat → V) : ExMod V := { k := k, x := id, scale := scale }
def entry (m : ExMod V) (i j : Nat) : V := m.k (m.x i) (m.x j) * m.scale i * m.scale j
def row (m : ExMod V) (i start stop : Nat) : List V :=
  (List.range (stop - start)).map fun d => m.entry i (start + d)
def flip (swapsScale : Bool) (m : ExMod V) (i j : Nat) : ExMod V :=
  { m with x := swapVec m.x i j, scale := if swapsScale then swapVec m.scale i j else m.scale }
end ExMod

end SharkVerif.KM
