/-
Model of the SMO problem classes of Shark's QP solver:

* `shark::SvmProblem<P>`            (include/shark/Algorithms/QP/SvmProblems.h)
* `shark::BoxConstrainedProblem<P>` (include/shark/Algorithms/QP/BoxConstrainedProblems.h)
* `shark::BoxBasedShrinkingStrategy<…>` on top of either
  (include/shark/Algorithms/QP/BoxBasedShrinkingStrategy.h)
* the working-set selection criteria MVP / LibSVM second order / maximum gain
* the decomposition loop `QpSolver::solve` (include/shark/Algorithms/QP/QpSolver.h)

One state type for both problem kinds (`eqc = true`: equality-constrained
`SvmProblem`; `false`: `BoxConstrainedProblem`).  Vectors are functions on `Nat`
(entries `≥ n` are irrelevant), exactly like `Model/Cache.lean`.  The kernel
matrix is the *original* (unpermuted) matrix `K`; the C++ accesses
`quadratic().row(i)[a]`, which is `K (perm i) (perm a)` (that caches return the
true entries under the current permutation is property C09).

Polymorphic in the scalar (see `Model/QpScalar.lean`): `Rat` for the theorems
(`Props/C08.lean`, `Props/C07.lean`), `Float` for the bit-for-bit comparison
with the C++ (`Driver/C08.lean`).  The analytic sub-solvers are *not* written
here: they are the T0-generated definitions of `Gen/Analytic.lean`.

Core Lean only (no Mathlib).  Floating-point operation order follows the C++
statement by statement (e.g. `g a - (step * qi a - step * qj a)`).
-/
import SharkVerif.Gen.Analytic
namespace SharkVerif.Smo
open SharkVerif.Qp SharkVerif.Gen.Analytic

variable {α : Type} [Add α] [Sub α] [Mul α] [Div α] [Neg α] [LT α] [LE α]
  [DecidableLT α] [DecidableLE α] [BEq α] [OfScientific α]

structure State (α : Type) where
  n        : Nat
  K        : Nat → Nat → α     -- original kernel / quadratic matrix
  eqc      : Bool              -- true: SvmProblem, false: BoxConstrainedProblem
  shrinkOn : Bool              -- m_shrink
  unshrinked : Bool            -- m_isUnshrinked
  active   : Nat               -- m_active
  perm     : Nat → Nat         -- m_problem.permutation
  lin      : Nat → α           -- m_problem.linear
  alpha    : Nat → α           -- m_problem.alpha
  diag     : Nat → α           -- m_problem.diagonal
  L        : Nat → α           -- m_problem.boxMin
  U        : Nat → α           -- m_problem.boxMax
  g        : Nat → α           -- m_gradient
  gEdge    : Nat → α           -- m_gradientEdge
  lo       : Nat → Bool        -- m_alphaStatus & AlphaLowerBound
  up       : Nat → Bool        -- m_alphaStatus & AlphaUpperBound

namespace State

/-- `quadratic().row(i, …)[a]` -/
def q (s : State α) (i a : Nat) : α := s.K (s.perm i) (s.perm a)

/-- `boxMin(i)`: a variable whose status is `AlphaDeactivated` (= both bits) reports its own value -/
def boxMin (s : State α) (i : Nat) : α := if s.lo i && s.up i then s.alpha i else s.L i
def boxMax (s : State α) (i : Nat) : α := if s.lo i && s.up i then s.alpha i else s.U i

/-- `updateAlphaStatus(i)`: the status is first reset to `AlphaFree`, so the raw box is compared -/
def updateAlphaStatus (s : State α) (i : Nat) : State α :=
  { s with up := upd s.up i (s.alpha i == s.U i), lo := upd s.lo i (s.alpha i == s.L i) }

/-- constructor of `SvmProblem` / `BoxConstrainedProblem` + `BoxBasedShrinkingStrategy` for a
problem whose `alpha` is all zero (what `CSVMProblem`/`GeneralQuadraticProblem` provide) -/
def init (n : Nat) (K : Nat → Nat → α) (eqc shrinkOn : Bool) (lin L U : Nat → α) : State α :=
  let zero : Nat → α := fun _ => (0.0 : α)
  { n := n, K := K, eqc := eqc, shrinkOn := shrinkOn, unshrinked := false, active := n,
    perm := fun k => k, lin := lin, alpha := zero, diag := fun k => K k k, L := L, U := U,
    g := lin, gEdge := lin,
    lo := fun k => (0.0 : α) == L k, up := fun k => (0.0 : α) == U k }

/-- constructor of `SvmProblem` + `BoxBasedShrinkingStrategy` for a problem that comes with non-zero coefficients
(`BoxedSVMProblem`, used by the one-class SVM: `alpha = 1/n`): the `SvmProblem` constructor subtracts `q[a] * alpha(i)` row
by row in index order and sets the status bits; `m_gradientEdge` starts as `linear` whatever `alpha` is -/
def initWith (n : Nat) (K : Nat → Nat → α) (eqc shrinkOn : Bool) (lin L U a0 : Nat → α) : State α :=
  let grad := (List.range n).foldl (fun (gr : Nat → α) i =>
    if a0 i == (0.0 : α) then gr else fun k => gr k - K i k * a0 i) lin
  { n := n, K := K, eqc := eqc, shrinkOn := shrinkOn, unshrinked := false, active := n,
    perm := fun k => k, lin := lin, alpha := a0, diag := fun k => K k k, L := L, U := U,
    g := grad, gEdge := lin,
    lo := fun k => a0 k == L k, up := fun k => a0 k == U k }

/-- `BoxBasedShrinkingStrategy::setInitialSolution(alpha)` on a freshly constructed problem
(identity permutation): gradient and edge gradient are accumulated row by row in index order -/
def setInitialSolution (s : State α) (a0 : Nat → α) : State α :=
  let rows := (List.range s.n).filter fun i => !(a0 i == (0.0 : α))
  let grad := rows.foldl (fun (gr : Nat → α) i => fun k => gr k - a0 i * s.q i k) s.lin
  let edge := (rows.filter fun i => (a0 i == s.boxMin i) || (a0 i == s.boxMax i)).foldl
    (fun (gr : Nat → α) i => fun k => gr k - a0 i * s.q i k) s.lin
  let s := { s with alpha := a0, g := grad, gEdge := edge }
  { s with up := fun k => s.alpha k == s.U k, lo := fun k => s.alpha k == s.L k }

/-- `BoxBasedShrinkingStrategy::updateGradientEdge(i, oldAlpha, newAlpha)` -/
def updateGradientEdge (s : State α) (i : Nat) (old new : α) : State α :=
  if !s.shrinkOn || old == new then s else
  let insideOld : Bool := old > s.boxMin i ∧ old < s.boxMax i
  let insideNew : Bool := new > s.boxMin i ∧ new < s.boxMax i
  if (old == (0.0 : α) || insideOld) && insideNew then s else
  let diff : α := (0.0 : α)
  let diff := if !insideOld then diff - old else diff
  let diff := if !insideNew then diff + new else diff
  { s with gEdge := fun a => if a < s.n then s.gEdge a - diff * s.q i a else s.gEdge a }

/-- `SvmProblem::updateSMO(i,j)` (base class part) -/
def smoSvmBase (s : State α) (i j : Nat) : State α :=
  let numerator := s.g i - s.g j
  let denominator := s.diag i + s.diag j - (2.0 : α) * s.q i j
  let denominator := smax denominator (1.0e-12 : α)
  let step := numerator / denominator
  let Ui := s.boxMax i
  let Lj := s.boxMin j
  let ai := s.alpha i
  let aj := s.alpha j
  let r : α × α × α :=
    if step ≥ smin (Ui - ai) (aj - Lj) then
      if Ui - ai > aj - Lj then (aj - Lj, ai + (aj - Lj), Lj)
      else if Ui - ai < aj - Lj then (Ui - ai, Ui, aj - (Ui - ai))
      else (Ui - ai, Ui, Lj)
    else (step, ai + step, aj - step)
  let step := r.1
  let ai' := r.2.1
  let aj' := r.2.2
  -- the C++ has already stored the new values when it tests for "no change" (visible only
  -- through the sign of a zero)
  if ai' == ai && aj' == aj then { s with alpha := upd (upd s.alpha i ai') j aj' } else
  let s' := { s with alpha := upd (upd s.alpha i ai') j aj',
                     g := fun a => if a < s.active then s.g a - (step * s.q i a - step * s.q j a) else s.g a }
  (s'.updateAlphaStatus i).updateAlphaStatus j

/-- `BoxConstrainedProblem::updateSMO(i,j)` (base class part); the sub-problem solvers are the
generated `solveQuadraticEdge` / `solveQuadratic2DBox` -/
def smoBoxBase (s : State α) (i j : Nat) : State α :=
  if i = j then
    let ai' := solveQuadraticEdge (s.alpha i) (s.g i) (s.diag i) (s.boxMin i) (s.boxMax i)
    let mu := (-(s.alpha i)) + ai'
    let s' := { s with alpha := upd s.alpha i ai',
                       g := fun a => if a < s.active then s.g a - mu * s.q i a else s.g a }
    s'.updateAlphaStatus i
  else
    let r := solveQuadratic2DBox (s.alpha i) (s.alpha j) (s.g i) (s.g j) (s.diag i) (s.q i j) (s.diag j)
      (s.boxMin i) (s.boxMax i) (s.boxMin j) (s.boxMax j)
    let mui := (-(s.alpha i)) + r.1
    let muj := (-(s.alpha j)) + r.2
    let s' := { s with alpha := upd (upd s.alpha i r.1) j r.2,
                       g := fun a => if a < s.active then s.g a - (mui * s.q i a + muj * s.q j a) else s.g a }
    (s'.updateAlphaStatus i).updateAlphaStatus j

/-- `BoxBasedShrinkingStrategy::updateSMO(i,j)` -/
def updateSMO (s : State α) (i j : Nat) : State α :=
  let aiOld := s.alpha i
  let ajOld := s.alpha j
  let s' := if s.eqc then s.smoSvmBase i j else s.smoBoxBase i j
  let s' := s'.updateGradientEdge i aiOld (s'.alpha i)
  if i = j then s' else s'.updateGradientEdge j ajOld (s'.alpha j)

/-- `BoxBasedShrinkingStrategy::flipCoordinates(i,j)`: all per-variable arrays are exchanged -/
def flip (s : State α) (i j : Nat) : State α :=
  let σ := swapIdx i j
  { s with perm := fun k => s.perm (σ k), lin := fun k => s.lin (σ k), alpha := fun k => s.alpha (σ k),
           diag := fun k => s.diag (σ k), L := fun k => s.L (σ k), U := fun k => s.U (σ k),
           g := fun k => s.g (σ k), gEdge := fun k => s.gEdge (σ k),
           lo := fun k => s.lo (σ k), up := fun k => s.up (σ k) }

/-- `getMaxKKTViolations(largestUp, smallestDown, maxIndex)` -/
def maxKKT (s : State α) (m : Nat) : α × α :=
  (List.range m).foldl (fun (acc : α × α) a =>
      let sd := if !s.lo a then smin acc.2 (s.g a) else acc.2
      let lu := if !s.up a then smax acc.1 (s.g a) else acc.1
      (lu, sd))
    (-(1.0e100 : α), (1.0e100 : α))

/-- `testShrinkVariable(a, largestUp, smallestDown)` of the two problem kinds -/
def testShrink (s : State α) (a : Nat) (largestUp smallestDown : α) : Bool :=
  let sd := if s.eqc then smallestDown else smin smallestDown (0.0 : α)
  let lu := if s.eqc then largestUp else smax largestUp (0.0 : α)
  (s.lo a && decide (s.g a < sd)) || (s.up a && decide (s.g a > lu))

/-- `unshrink()` -/
def unshrink (s : State α) : State α :=
  if s.active = s.n then s else
  { s with unshrinked := true, active := s.n,
           g := fun a => if s.active ≤ a ∧ a < s.n then
                  (List.range s.active).foldl (fun (acc : α) i =>
                    if s.up i || s.lo i then acc else acc - s.alpha i * s.q i a) (s.gEdge a)
                else s.g a }

/-- the back-to-front loop of `shrink`: `a` runs from the old `active` down to 1 -/
def shrinkGo (largestUp smallestDown : α) : Nat → State α → State α
  | 0, s => s
  | a+1, s =>
    let s' := if s.testShrink a largestUp smallestDown
              then { s.flip a (s.active - 1) with active := s.active - 1 } else s
    shrinkGo largestUp smallestDown a s'

/-- `shrink(epsilon)`; the Boolean is the C++ return value -/
def shrink (s : State α) (eps : α) : State α × Bool :=
  if !s.shrinkOn then (s, false) else
  let v := s.maxKKT s.active
  let doUn : Bool := !s.unshrinked && decide (v.1 - v.2 < (10.0 : α) * eps)
  let s1 := if doUn then s.unshrink else s
  let v1 := if doUn then s1.maxKKT s1.n else v
  (shrinkGo v1.1 v1.2 s1.active s1, true)

/-- `checkKKT()` -/
def checkKKT (s : State α) : α :=
  if s.eqc then
    let v := (List.range s.active).foldl (fun (acc : α × α) a =>
        let sd := if !s.lo a then smin acc.2 (s.g a) else acc.2
        let lu := if !s.up a then smax acc.1 (s.g a) else acc.1
        (lu, sd)) (-(1.0e100 : α), (1.0e100 : α))
    v.1 - v.2
  else
    (List.range s.n).foldl (fun (m : α) i =>
        if s.lo i && s.up i then m else
        let m := if !s.up i then smax m (s.g i) else m
        if !s.lo i then smax m (-(s.g i)) else m) (0.0 : α)

/-- plain left-to-right sum `Σ_{k<n} f k` -/
def sumTo (zero : α) (f : Nat → α) : Nat → α
  | 0 => zero
  | k+1 => sumTo zero f k + f k

/-- `functionValue()` = `0.5 * inner_prod(gradient + linear, alpha)` (the C++ uses a BLAS-style
inner product: compared in exact mode only) -/
def functionValue (s : State α) : α :=
  (0.5 : α) * sumTo (0.0 : α) (fun k => (s.g k + s.lin k) * s.alpha k) s.n

/-! ### working-set selection -/

/-- `MVPSelectionCriterion` (i, j enter with the caller's values, `QpSolver::solve` passes 0, 0) -/
def selectMVP (s : State α) (i0 j0 : Nat) : Nat × Nat × α :=
  let r := (List.range s.active).foldl (fun (acc : Nat × Nat × α × α) a =>
      let ga := s.g a
      let acc := if !s.up a ∧ ga > acc.2.2.1 then (a, acc.2.1, ga, acc.2.2.2) else acc
      if !s.lo a ∧ ga < acc.2.2.2 then (acc.1, a, acc.2.2.1, ga) else acc)
    (i0, j0, -(1.0e100 : α), (1.0e100 : α))
  (r.1, r.2.1, r.2.2.1 - r.2.2.2)

/-- `LibSVMSelectionCriterion` -/
def selectLibSVM (s : State α) : Nat × Nat × α :=
  let up := (List.range s.active).foldl (fun (acc : Nat × α) a =>
      if !s.up a ∧ s.g a > acc.2 then (a, s.g a) else acc) (0, -(1.0e100 : α))
  let i := up.1
  let largestUp := up.2
  if largestUp == -(1.0e100 : α) then (i, 1, (0.0 : α)) else
  let r := (List.range s.active).foldl (fun (acc : Nat × α × α) a =>   -- (j, best, smallestDown)
      if !s.lo a then
        let ga := s.g a
        let sd := smin acc.2.2 ga
        let gain := maximumGainQuadratic2DOnLine (s.diag i) (s.diag a) (s.q i a) largestUp ga (1.0e-12 : α)
        if gain > acc.2.1 then (a, gain, sd) else (acc.1, acc.2.1, sd)
      else acc) (1, (0.0 : α), (1.0e100 : α))
  if r.2.1 == (0.0 : α) then (i, r.1, (0.0 : α)) else (i, r.1, largestUp - r.2.2)

/-- `WS2MaximumGradientCriterion` followed by `j = i` (`MaximumGradientCriterion`) -/
def selectMaxGradient (s : State α) : Nat × α :=
  let r := (List.range s.active).foldl (fun (acc : Nat × Nat × α × α) a =>   -- (i, j, largest, second)
      let g := s.g a
      let acc := if !s.up a ∧ g > acc.2.2.2 then (acc.1, a, acc.2.2.1, g) else acc
      let acc := if !s.lo a ∧ (-g) > acc.2.2.2 then (acc.1, a, acc.2.2.1, -g) else acc
      if acc.2.2.2 > acc.2.2.1 then (acc.2.1, acc.1, acc.2.2.2, acc.2.2.1) else acc)
    (0, 0, (0.0 : α), (0.0 : α))
  (r.1, r.2.2.1)

/-- `MaximumGainCriterion` (preferred strategy of `BoxConstrainedProblem`) -/
def selectMaxGain (s : State α) : Nat × Nat × α :=
  let fo := s.selectMaxGradient
  let i := fo.1
  let maxGrad := fo.2
  if maxGrad == (0.0 : α) then (i, i, maxGrad) else
  let gi := s.g i
  let r := (List.range s.active).foldl (fun (acc : Nat × α) a =>
      if a = i then acc else
      let ga := s.g a
      if (!s.lo a ∧ ga < (0.0 : α)) ∨ (!s.up a ∧ ga > (0.0 : α)) then
        let gain := maximumGainQuadratic2D (s.diag i) (s.diag a) (s.q i a) gi ga (1.0e-12 : α)
        if gain > acc.2 then (a, gain) else acc
      else acc) (i, (0.0 : α))
  (i, r.1, maxGrad)

/-- selection strategies: 0 = MVP, 1 = LibSVM second order, 2 = maximum gain (box) -/
def select (s : State α) (strategy : Nat) (i0 j0 : Nat) : Nat × Nat × α :=
  match strategy with
  | 0 => s.selectMVP i0 j0
  | 1 => s.selectLibSVM
  | _ => s.selectMaxGain

end State

/-! ### `QpSolver::solve` -/

/-- events of one pass of the decomposition loop, in call order -/
inductive Ev where
  | unshrink
  | shrink (ret : Bool)
  | smo (i j : Nat)
  deriving Repr

/-- one pass of the `for(;;)` body after the iteration-limit test.  `counter` is the unsigned
64-bit `shrinkCounter`.  Result: the events with the state after each, and `none` when the loop
is left with `QpAccuracyReached`, else the next `(state, counter)`. -/
def solveIter (strategy : Nat) (eps : α) (s : State α) (counter : Nat) :
    List (Ev × State α) × Option (State α × Nat) :=
  let sel := s.select strategy 0 0
  let pre : List (Ev × State α) × Option (State α × Nat × Nat) :=
    if sel.2.2 < eps then
      let s1 := s.unshrink
      if s1.checkKKT < eps then ([(Ev.unshrink, s1)], none)
      else
        let r := s1.shrink eps
        let sel2 := r.1.select strategy sel.1 sel.2.1
        ([(Ev.unshrink, s1), (Ev.shrink r.2, r.1)], some (r.1, sel2.1, sel2.2.1))
    else ([], some (s, sel.1, sel.2.1))
  match pre.2 with
  | none => (pre.1, none)
  | some (s2, i, j) =>
    let s3 := s2.updateSMO i j
    let evs := pre.1 ++ [(Ev.smo i j, s3)]
    if counter = 0 then
      let r := s3.shrink eps
      let evs := evs ++ [(Ev.shrink r.2, r.1)]
      let counter := if r.2 then max 1000 s3.n else counter
      (evs, some (r.1, (counter + 18446744073709551615) % 18446744073709551616))
    else (evs, some (s3, counter - 1))

/-- the loop with iteration limit `fuel`, followed by the `unshrink()` the solver performs before it reports (a no-op when
the accuracy was reached: that state is un-shrunk already); returns the final state, whether
`QpAccuracyReached` was reported, and the number of iterations -/
def solve (strategy : Nat) (eps : α) : Nat → State α → Nat → Nat → State α × Bool × Nat
  | 0, s, _, it => (s.unshrink, false, it)   -- iteration limit: `m_problem.unshrink()` after the loop (repair of F-C07-8)
  | fuel+1, s, counter, it =>
    match (solveIter strategy eps s counter).2 with
    | none => ((solveIter strategy eps s counter).1.getLast?.map (·.2) |>.getD s, true, it)
    | some (s', c') => solve strategy eps fuel s' c' (it + 1)

end SharkVerif.Smo
