/-
Abstract machine with *explicit* locks (C20): `acquire k` blocks while another thread owns lock `k`, critical
sections are ordinary instruction sequences between `acquire` and `release`, may be nested (different locks) and are
interleaved instruction by instruction with everything else.  Used to justify the lock discipline of
`SHARK_CRITICAL_REGION` (no unsynchronised conflicting access at any point of any schedule).  Core Lean only.
-/
import SharkVerif.Model.Par
namespace SharkVerif.Par

inductive LInstr (V : Type) where
  | load    (r : Nat) (l : Loc)
  | store   (l : Loc) (f : Regs V → V)
  | acquire (k : Nat)
  | release (k : Nat)

structure LCfg (V : Type) where
  mem   : Store V
  prog  : Nat → List (LInstr V)
  regs  : Nat → Regs V
  owner : Nat → Option Nat          -- lock ↦ thread holding it

variable {V : Type}

def updAt {α : Type} (f : Nat → α) (t : Nat) (v : α) : Nat → α := fun u => if u = t then v else f u

/-- thread `t` makes one step; `acquire` of a lock held by anybody does nothing (the thread stays blocked) -/
def lstep (c : LCfg V) (t : Nat) : LCfg V :=
  match c.prog t with
  | [] => c
  | .load r l :: rest => { c with prog := updAt c.prog t rest, regs := updAt c.regs t (setReg (c.regs t) r (c.mem l)) }
  | .store l f :: rest => { c with mem := setLoc c.mem l (f (c.regs t)), prog := updAt c.prog t rest }
  | .acquire k :: rest =>
    match c.owner k with
    | none => { c with prog := updAt c.prog t rest, owner := updAt c.owner k (some t) }
    | some _ => c
  | .release k :: rest =>
    if c.owner k = some t then { c with prog := updAt c.prog t rest, owner := updAt c.owner k none }
    else { c with prog := updAt c.prog t rest }

def lrun (c : LCfg V) (sched : List Nat) : LCfg V := sched.foldl lstep c

def linit (m0 : Store V) (r0 : Nat → Regs V) (progs : Nat → List (LInstr V)) : LCfg V :=
  { mem := m0, prog := progs, regs := r0, owner := fun _ => none }

/-- effect of one instruction on the set of locks a thread holds -/
def lockStep (held : List Nat) : LInstr V → List Nat
  | .acquire k => k :: held
  | .release k => held.erase k
  | _ => held

/-- the locks lexically open after the first `n` instructions of `p` -/
def locksAt (p : List (LInstr V)) (n : Nat) : List Nat := (p.take n).foldl lockStep []

end SharkVerif.Par
