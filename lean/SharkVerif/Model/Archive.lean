/-
Model of Shark's serialization for C18.

* `ClassInfo` — what `translate/serial_fields.py` (T3) extracts from one
  `read`/`write` pair: the ordered archived expressions of both functions, the
  data members, the allow-listed transient members, signature anomalies; with
  the two executable obligations `readWriteAgree`, `membersCovered`.
* An archive is a list of tokens. `Codec α` packages `enc : α → List Tok`,
  `dec : List Tok → Option (α × List Tok)` with the round-trip law; codecs for
  numbers, pairs, length-prefixed lists, dense matrices, sparse matrices, shapes and
  datasets (batches + shape) are built from it, so `dataset_roundtrip` is the law of
  the composed codec.
* `readFields`/`writeFields` semantics: `writeObj` emits one chunk per archived
  field in `write` order, `readObj` assigns chunks to fields in `read` order; the
  generic lemma `read_write_id` says that equal field lists restore every archived
  field (boost.serialization itself — tokens ⇄ bytes — is not modelled).
Core Lean only.
-/
namespace SharkVerif.Archive

/-! ### generated class descriptions -/

structure ClassInfo where
  name : String
  file : String
  readFields : List String
  writeFields : List String
  members : List String
  transient : List String
  anomalies : List String
  /-- class family (model, kernel, normaliser, kernel-expansion, optimizer, dataset, container, operator, …) -/
  family : String := ""
  /-- data members mentioned by the behaviour functions (`eval`, `operator()`, `parameterVector`,
  `numberOfParameters`, `step`, `inputShape`, `outputShape`) and by the methods of the class they call -/
  behaviourDeps : List String := []
  /-- members that are not archived but are mentioned by `read` (or a method it calls): rebuilt on reading -/
  reconstructed : List String := []
  /-- allow-listed members whose entry is only a note (not probed, nothing claimed) -/
  noted : List String := []
  deriving Repr

/-- is the member mentioned by one of the archived expressions (as an identifier)? -/
def isIdChar (c : Char) : Bool := c.isAlphanum || c == '_'

/-- occurrences of `pat` in `s` at identifier boundaries -/
def mentionsAux (pat : List Char) : List Char → Bool → Bool
  | [], _ => false
  | c :: t, prevId =>
    let here := !prevId && pat.isPrefixOf (c :: t) &&
      (match (c :: t).drop pat.length with
       | d :: _ => !isIdChar d
       | [] => true)
    here || mentionsAux pat t (isIdChar c)

def mentions (field member : String) : Bool := mentionsAux member.toList field.toList false

/-- obligation 1: `read` and `write` archive the same expressions in the same order
(multiplicity included) and the signatures are those of `ISerializable` -/
def ClassInfo.readWriteAgree (c : ClassInfo) : Bool :=
  c.readFields == c.writeFields && c.anomalies.isEmpty

/-- obligation 2: every data member is archived by `write` or allow-listed as transient -/
def ClassInfo.membersCovered (c : ClassInfo) : Bool :=
  c.members.all fun m => c.writeFields.any (fun f => mentions f m) || c.transient.contains m

/-- is the member archived (mentioned by one of the expressions `write` archives)? -/
def ClassInfo.archives (c : ClassInfo) (m : String) : Bool := c.writeFields.any (fun f => mentions f m)

/-- obligation 3 (behaviour dependencies): every member the behaviour functions read is archived, or
rebuilt by `read`, or allow-listed with a reviewed reason (configuration / external object / functor /
rewritten before use) — a bare note does not count -/
def ClassInfo.depsCovered (c : ClassInfo) : Bool :=
  c.behaviourDeps.all fun m =>
    c.archives m || c.reconstructed.contains m || (c.transient.contains m && !c.noted.contains m)

/-- a class description together with the proofs of its three obligations -/
structure Checked where
  info : ClassInfo
  rw : info.readWriteAgree = true
  cov : info.membersCovered = true
  dep : info.depsCovered = true

/-! ### field-wise write / read -/

/-- state of an object: the value (token chunk) of every archived expression -/
abbrev State (Tok : Type) := String → List Tok

/-- `write`: one chunk per archived expression, in order -/
def writeObj {Tok} (fields : List String) (st : State Tok) : List (List Tok) := fields.map st

/-- `read` into a fresh object `st0`: chunks are assigned in order; missing chunks leave the field alone -/
def readObj {Tok} : List String → List (List Tok) → State Tok → State Tok
  | f :: fs, ch :: chs, st => readObj fs chs (fun g => if g = f then ch else st g)
  | _, _, st => st

/-! ### token codecs -/

inductive Tok (V : Type) where
  | nat (n : Nat)
  | val (v : V)
  | str (s : String)
  /-- first occurrence of a tracked heap object: boost's object id (numbered among the pointer objects) -/
  | ptr (id : Nat)
  /-- later occurrence of the same object: a back-reference to its id -/
  | back (id : Nat)
  deriving Repr, DecidableEq

structure Codec (V α : Type) where
  enc : α → List (Tok V)
  dec : List (Tok V) → Option (α × List (Tok V))
  law : ∀ (a : α) (rest : List (Tok V)), dec (enc a ++ rest) = some (a, rest)

namespace Codec
variable {V α β : Type}

def nat : Codec V Nat where
  enc n := [.nat n]
  dec
    | .nat n :: r => some (n, r)
    | _ => none
  law := by intro a rest; rfl

def val : Codec V V where
  enc v := [.val v]
  dec
    | .val v :: r => some (v, r)
    | _ => none
  law := by intro a rest; rfl

/-- `std::string` -/
def str : Codec V String where
  enc s := [.str s]
  dec
    | .str s :: r => some (s, r)
    | _ => none
  law := by intro a rest; rfl

def pair (ca : Codec V α) (cb : Codec V β) : Codec V (α × β) where
  enc p := ca.enc p.1 ++ cb.enc p.2
  dec ts := match ca.dec ts with
    | some (a, r) => (match cb.dec r with
      | some (b, r') => some ((a, b), r')
      | none => none)
    | none => none
  law := by
    intro p rest
    simp only [List.append_assoc, ca.law, cb.law]

/-- decode `n` items -/
def decN (c : Codec V α) : Nat → List (Tok V) → Option (List α × List (Tok V))
  | 0, ts => some ([], ts)
  | n+1, ts => match c.dec ts with
    | some (a, r) => (match decN c n r with
      | some (as, r') => some (a :: as, r')
      | none => none)
    | none => none

def encAll (c : Codec V α) (l : List α) : List (Tok V) := l.flatMap c.enc

theorem decN_encAll (c : Codec V α) (l : List α) (rest : List (Tok V)) :
    decN c l.length (encAll c l ++ rest) = some (l, rest) := by
  induction l with
  | nil => rfl
  | cons a t ih =>
    simp only [encAll, List.flatMap_cons, List.length_cons, decN, List.append_assoc, c.law]
    have := ih
    simp only [encAll] at this
    rw [this]

/-- length-prefixed list (`collection_size_type` count followed by the items) -/
def list (c : Codec V α) : Codec V (List α) where
  enc l := .nat l.length :: encAll c l
  dec
    | .nat n :: r => decN c n r
    | _ => none
  law := by
    intro l rest
    simp only [List.cons_append]
    exact decN_encAll c l rest

end Codec

/-! ### datasets -/

/-- dense batch: `size1`, `size2`, storage (`remora::matrix::serialize`) -/
structure DenseBatch (V : Type) where
  rows : Nat
  cols : Nat
  data : List V
  deriving Repr, DecidableEq

/-- compressed batch: sizes and per-row (index, value) lists -/
structure SparseBatch (V : Type) where
  rows : Nat
  cols : Nat
  entries : List (List (Nat × V))
  deriving Repr, DecidableEq

/-- `Data<T>`: batches + shape (`archive << m_data; archive << m_shape`) -/
structure Dataset (B : Type) where
  batches : List B
  shape : List Nat
  deriving Repr, DecidableEq

/-- `LabeledData<I,L>`: `archive & m_data; archive & m_label` -/
structure LabeledDataset (B L : Type) where
  inputs : Dataset B
  labels : Dataset L
  deriving Repr, DecidableEq

namespace Codec
variable {V : Type}

/-- transport a codec along a bijection given by two functions with `g (f a) = a` -/
def iso {α β : Type} (c : Codec V α) (f : β → α) (g : α → β) (h : ∀ b, g (f b) = b) : Codec V β where
  enc b := c.enc (f b)
  dec ts := match c.dec ts with
    | some (a, r) => some (g a, r)
    | none => none
  law := by intro b rest; simp only [c.law, h]

def denseBatch : Codec V (DenseBatch V) :=
  iso (pair nat (pair nat (list val))) (fun b => (b.rows, b.cols, b.data)) (fun t => ⟨t.1, t.2.1, t.2.2⟩)
    (by intro b; rfl)

def sparseBatch : Codec V (SparseBatch V) :=
  iso (pair nat (pair nat (list (list (pair nat val)))))
    (fun b => (b.rows, b.cols, b.entries)) (fun t => ⟨t.1, t.2.1, t.2.2⟩) (by intro b; rfl)

/-- class-label batch (`UIntVector`) -/
def labelBatch : Codec V (List Nat) := list nat

def dataset {B : Type} (cb : Codec V B) : Codec V (Dataset B) :=
  iso (pair (list cb) (list nat)) (fun d => (d.batches, d.shape)) (fun t => ⟨t.1, t.2⟩) (by intro d; rfl)

def labeled {B L : Type} (cb : Codec V B) (cl : Codec V L) : Codec V (LabeledDataset B L) :=
  iso (pair (dataset cb) (dataset cl)) (fun d => (d.inputs, d.labels)) (fun t => ⟨t.1, t.2⟩) (by intro d; rfl)

end Codec

/-! ### token-level model of the hand-written container encodings

The harness records the payload tokens of the real `write` through a recording
polymorphic archive (`harness/c18_tok.hpp`: every primitive `save` call, boost's own
bookkeeping — class ids, object ids, versions, tracking — dropped); the driver prints
`enc` of the same state; the two streams are compared token by token. Through a
polymorphic archive `collection_size_type` and `item_version_type` arrive as plain
unsigned numbers, so a `std::vector<T>` is `count, item_version, items…`. -/

namespace Codec
variable {V α β : Type}

/-- `std::vector<T>` as boost.serialization writes it through a polymorphic archive:
count, item version (`iv`: 0, or 1 for `shared_ptr` items), the items -/
def stdVector (iv : Nat) (c : Codec V α) : Codec V (List α) where
  enc l := .nat l.length :: .nat iv :: encAll c l
  dec
    | .nat n :: .nat _ :: r => decN c n r
    | _ => none
  law := by
    intro l rest
    simp only [List.cons_append]
    exact decN_encAll c l rest

/-- `remora::vector<T>::serialize` read from a default-constructed vector: `count`, then the
array unless the vector is empty (`if(!empty()) ar & make_array(data, size())`) -/
def remoraVec (c : Codec V α) : Codec V (List α) where
  enc l := .nat l.length :: (if l.isEmpty then [] else encAll c l)
  dec
    | .nat n :: r => if n = 0 then some ([], r) else decN c n r
    | _ => none
  law := by
    intro l rest
    cases l with
    | nil => rfl
    | cons a t =>
      have h := decN_encAll c (a :: t) rest
      simp only [List.length_cons] at h
      simp [h]

/-- `remora::matrix<T>::serialize`: `size1`, `size2`, `m_data` (a `std::vector<T>`) -/
def remoraMat (c : Codec V α) : Codec V (Nat × Nat × List α) := pair nat (pair nat (stdVector 0 c))

end Codec

/-! #### loading into an object that was used before (stale state)

`remora::vector::serialize` and `remora::matrix::serialize` are the two encoders whose load
path touches the old state of the target (`resize(count)` keeps a prefix of the old
elements; `m_size1 = s1` only `if(Archive::is_loading)`). Their load is modelled as a
function of the OLD object; the theorems say the result does not depend on it. -/

/-- `vector::resize(n)`: keeps the first `n` old elements, value-initialises the rest -/
def vecResize {α} (pad : α) (old : List α) (n : Nat) : List α :=
  old.take n ++ List.replicate (n - old.length) pad

theorem vecResize_length {α} (pad : α) (old : List α) (n : Nat) : (vecResize pad old n).length = n := by
  simp only [vecResize, List.length_append, List.length_take, List.length_replicate]
  omega

/-- `vector::serialize` when loading into `old`:
`ar & count; resize(count); if(!empty()) ar & make_array(data(), size());` -/
def vecLoad {V α} (c : Codec V α) (pad : α) (old : List α) : List (Tok V) → Option (List α × List (Tok V))
  | .nat n :: r =>
    let v := vecResize pad old n
    if v.isEmpty then some (v, r) else Codec.decN c v.length r
  | _ => none

/-- `matrix::serialize` when loading into `old`: sizes into locals, copied into the members
`if(Archive::is_loading::value)`, then `m_data` -/
def matLoad {V α} (c : Codec V α) (_old : Nat × Nat × List α) : List (Tok V) → Option ((Nat × Nat × List α) × List (Tok V))
  | .nat s1 :: .nat s2 :: r =>
    match (Codec.stdVector 0 c).dec r with
    | some (d, r') => some ((s1, s2, d), r')
    | none => none
  | _ => none

/-! #### compressed (sparse) storage: raw arrays ⇄ rows -/

/-- `MatrixStorage` + `compressed_matrix_impl::m_minor_size` exactly as archived -/
structure SparseStorage (V : Type) where
  indices : List Nat
  values : List V
  majorBegin : List Nat
  majorEnd : List Nat
  minor : Nat
  implMinor : Nat
  deriving Repr, DecidableEq

/-- the stored (index, value) pairs of every row: positions `begin[i] … end[i]-1` -/
def SparseStorage.rows {V} (s : SparseStorage V) : List (List (Nat × V)) :=
  (s.majorBegin.zip s.majorEnd).map fun (b, e) => ((s.indices.zip s.values).drop b).take (e - b)

/-- offsets of a packed layout: running sums of the row lengths, starting at `o` -/
def packOffsets : List Nat → Nat → List Nat
  | [], o => [o]
  | n :: t, o => o :: packOffsets t (o + n)

/-- packed layout (capacity = number of stored elements, rows back to back): what
`reserve(total)` followed by `major_reserve(i, nnz_i, true)` + `set_element` in row order builds -/
def SparseStorage.packed {V} (rows : List (List (Nat × V))) (minor : Nat) : SparseStorage V :=
  let offs := packOffsets (rows.map List.length) 0
  { indices := rows.flatten.map (·.1), values := rows.flatten.map (·.2),
    majorBegin := offs, majorEnd := offs.drop 1, minor := minor, implMinor := minor }

/-! ### object sharing: one archive, several objects, pointer identity

`Data<T>` holds its batches through `boost::shared_ptr`; copies of a `Data` are shallow. boost.serialization
tracks the address of every object saved through a pointer: the first occurrence is written as
`ptr id` followed by the object, every later occurrence of the SAME address as `back id`. On loading, `ptr id`
allocates and decodes a new object, `back id` resolves to the object loaded under that id — so the restored
pointers share exactly where the original ones did. Model: the heap is `deref : Nat → B` (address ↦ batch),
a container is a list of addresses, `seen` is the list of addresses already written (position = id). -/

/-- position of `a` in `l` (`l.length` if absent) -/
def indexOf (a : Nat) : List Nat → Nat
  | [] => 0
  | b :: t => if b = a then 0 else indexOf a t + 1

/-- the addresses written so far after a further sequence of pointers has been written -/
def seenAfter : List Nat → List Nat → List Nat
  | [], s => s
  | a :: r, s => seenAfter r (if a ∈ s then s else s ++ [a])

/-- write a sequence of pointers -/
def writePtrs {V B} (c : Codec V B) (deref : Nat → B) : List Nat → List Nat → List (Tok V)
  | [], _ => []
  | a :: r, s =>
    if a ∈ s then .back (indexOf a s) :: writePtrs c deref r s
    else .ptr s.length :: (c.enc (deref a) ++ writePtrs c deref r (s ++ [a]))

/-- read `n` pointers; `ld` = objects loaded so far (position = id). Result: the ids the pointers
resolve to, the objects loaded afterwards, the remaining tokens -/
def readPtrs {V B} (c : Codec V B) : Nat → List B → List (Tok V) → Option (List Nat × List B × List (Tok V))
  | 0, ld, ts => some ([], ld, ts)
  | n+1, ld, .back i :: ts =>
    if i < ld.length then
      match readPtrs c n ld ts with
      | some (ids, ld', r) => some (i :: ids, ld', r)
      | none => none
    else none
  | n+1, ld, .ptr i :: ts =>
    if i = ld.length then
      match c.dec ts with
      | some (b, r) =>
        (match readPtrs c n (ld ++ [b]) r with
         | some (ids, ld', r') => some (i :: ids, ld', r')
         | none => none)
      | none => none
    else none
  | _+1, _, _ => none

/-- several containers in one archive (each: `count`, item version 1, the batch pointers, a trailer —
for `Data` the `Shape`): `LabeledData(x, x)`, a data set and its copy, two labelled sets sharing inputs -/
def writeConts {V B T} (c : Codec V B) (ct : Codec V T) (deref : Nat → B) : List (List Nat × T) → List Nat → List (Tok V)
  | [], _ => []
  | (refs, t) :: more, s =>
    .nat refs.length :: .nat 1 :: (writePtrs c deref refs s ++ (ct.enc t ++ writeConts c ct deref more (seenAfter refs s)))

def readConts {V B T} (c : Codec V B) (ct : Codec V T) : Nat → List B → List (Tok V) →
    Option (List (List Nat × T) × List B × List (Tok V))
  | 0, ld, ts => some ([], ld, ts)
  | k+1, ld, .nat n :: .nat _ :: ts =>
    match readPtrs c n ld ts with
    | some (ids, ld', r) =>
      (match ct.dec r with
       | some (t, r') =>
         (match readConts c ct k ld' r' with
          | some (cs, ld'', r'') => some ((ids, t) :: cs, ld'', r'')
          | none => none)
       | none => none)
    | none => none
  | _+1, _, _ => none

/-- what `readConts` must return: every container with its pointers replaced by ids, and the final `seen` -/
def specConts {T} : List (List Nat × T) → List Nat → List (List Nat × T) × List Nat
  | [], s => ([], s)
  | (refs, t) :: more, s =>
    let s' := seenAfter refs s
    let (cs, fin) := specConts more s'
    ((refs.map (indexOf · s'), t) :: cs, fin)

/-- write to an archive, read the whole archive back -/
def roundTrip {V α : Type} (c : Codec V α) (a : α) : Option α :=
  match c.dec (c.enc a) with
  | some (a', []) => some a'
  | _ => none

end SharkVerif.Archive
