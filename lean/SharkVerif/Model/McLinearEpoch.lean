/-
Model of the EPOCH LOOP of `shark::QpMcLinear<InputT>::solve` (include/shark/Algorithms/QP/QpMcLinear.h,
lines 110-339), coordinate selection strategy ACF, shrinking off — the configuration used by
`LinearCSvmTrainer::trainMc` (`Solver solver(dataset, dim, classes)`; defaults `strategy = ACF`,
`shrinking = false`).  Per epoch:

  1. schedule construction from the preferences:
       psum = prefsum; prefsum = 0; pos = 0
       for i < ell:  p = pref(i)
                     num = (psum < 1e-6) ? ell-pos : min((double)(ell-pos), (ell-pos)*p/psum)
                     n = floor(num); prob = num - n; if (uni(rng) < prob) n++
                     n times: schedule[pos++] = i           -- NO bound check; entries beyond pos stay stale
                     psum -= p; prefsum += p
       (SHARK_ASSERT(pos == ell) exists in debug builds only)
  2. std::shuffle(schedule)                     -- not modelled: any permutation, supplied from outside
  3. inner loop over the schedule: `mlStep` (Model/McLinearMc.lean), max_violation, and the preference update
       epoch == 0:  average_gain += gain/ell
       else:        change = 0.2*(gain/average_gain - 1); newpref = min(20, max(0.05, pref(i)*exp(change)))
                    prefsum += newpref - pref(i); pref(i) = newpref
                    average_gain = (1 - 1/ell)*average_gain + (1/ell)*gain
  4. epoch++; stopping logic:
       maxIterations > 0 && epoch*ell >= maxIterations           → QpMaxIterationsReached
       max_violation < minAccuracy:  canstop ? QpAccuracyReached : (canstop = true; all pref = 1; prefsum = ell)
       else canstop = false
     (the Timer / maxSeconds test is not modelled: maxSeconds defaults to 1e100)

The random numbers are inputs: per epoch the `uni` draws `u : Nat → α` (indexed by example) and the
schedule after the shuffle.  `floor` and `exp` are a parameter (`EpOps`), so that the model runs at `Float`
(bit-comparable with the C++) and at `Rat` (theorems, `Lemmas/McLinearEpoch.lean`; they hold for every `expF`).
Same operations in the same order as the C++; core Lean only.
-/
import SharkVerif.Model.McLinearMc
namespace SharkVerif.Mc

variable {α : Type} [Add α] [Sub α] [Mul α] [Div α] [Neg α] [NatCast α] [OfScientific α]
  [LT α] [LE α] [DecidableLT α] [DecidableLE α] [BEq α]

/-- the two non-field operations of `solve` -/
structure EpOps (α : Type) where
  /-- `(std::size_t)std::floor(num)` -/
  floorNat : α → Nat
  /-- `std::exp` -/
  expF : α → α

/-- floor of a rational as a natural number (negative values give 0) -/
def ratFloorNat (q : Rat) : Nat := (q.num / (q.den : Int)).toNat

/-! ### 1. the schedule -/

/-- `num = (psum < 1e-6) ? ell - pos : std::min((double)(ell - pos), (ell - pos) * p / psum)`;
`std::min(a, b) = (b < a) ? b : a` -/
def acfNum (ell pos : Nat) (p psum : α) : α :=
  let rem : α := ((ell - pos : Nat) : α)
  if psum < (1e-6 : α) then rem
  else
    let t := rem * p / psum
    if t < rem then t else rem

/-- the number of copies of example `i` put into the schedule -/
def acfCount (E : EpOps α) (ell pos : Nat) (p psum u : α) : Nat :=
  let num := acfNum ell pos p psum
  let n := E.floorNat num
  let prob := num - (n : α)
  if u < prob then n + 1 else n

/-- loop state of the schedule construction; `written` = the values stored at positions `0 .. pos-1` -/
structure AcfAcc (α : Type) where
  pos : Nat
  psum : α
  prefsum : α
  written : List Nat

def acfStep (E : EpOps α) (ell : Nat) (pref u : Nat → α) (a : AcfAcc α) (i : Nat) : AcfAcc α :=
  let p := pref i
  let n := acfCount E ell a.pos p a.psum (u i)
  { pos := a.pos + n, psum := a.psum - p, prefsum := a.prefsum + p,
    written := a.written ++ List.replicate n i }

/-- `for (i = 0; i < ell; i++) {...}` of the schedule definition, started with `psum = psum0` -/
def acfBuild (E : EpOps α) (ell : Nat) (pref u : Nat → α) (psum0 : α) : AcfAcc α :=
  (List.range ell).foldl (acfStep E ell pref u) { pos := 0, psum := psum0, prefsum := (0.0 : α), written := [] }

/-- content of the `schedule` buffer after the construction: positions `≥ pos` keep the values `old`
of the previous epoch (all 0 in the first epoch).  Meaningful when `pos ≤ ell` (`acf_pos_le`). -/
def acfBuffer (old : List Nat) (a : AcfAcc α) : List Nat :=
  a.written ++ old.drop a.written.length

/-! ### 3. the inner loop -/

/-- state of the inner loop -/
structure EpInner (α : Type) where
  st : MlState α
  pref : Nat → α
  prefsum : α
  avgGain : α
  maxViol : α

/-- `std::min(PREF_MAX, std::max(PREF_MIN, pref(i) * std::exp(change)))` with
`change = CHANGE_RATE * (gain / average_gain - 1.0)` -/
def prefNew (E : EpOps α) (pref gain avg : α) : α :=
  let change := (0.2 : α) * (gain / avg - (1.0 : α))
  let v := pref * E.expF change
  let m := if (0.05 : α) < v then v else (0.05 : α)
  if m < (20.0 : α) then m else (20.0 : α)

/-- the KKT violation `calcGradient` returns when example `i` is visited in state `st` -/
def kktAt (F : McForm) (D : MlData α) (st : MlState α) (i : Nat) : α := (mlStep F D st i).2.2

/-- body of the inner loop for schedule entry `i`; `first` = (`epoch == 0`) -/
def epVisit (F : McForm) (D : MlData α) (E : EpOps α) (first : Bool) (s : EpInner α) (i : Nat) : EpInner α :=
  let r := mlStep F D s.st i
  let gain := r.2.1
  let kkt := kktAt F D s.st i
  -- if (kkt > 0.0) max_violation = std::max(max_violation, kkt);
  let mv := if kkt > (0.0 : α) then (if s.maxViol < kkt then kkt else s.maxViol) else s.maxViol
  if first then
    { st := r.1, pref := s.pref, prefsum := s.prefsum, avgGain := s.avgGain + gain / (D.n : α), maxViol := mv }
  else
    let np := prefNew E (s.pref i) gain s.avgGain
    let lr := (1.0 : α) / (D.n : α)
    { st := r.1,
      pref := fun j => if j = i then np else s.pref j,
      prefsum := s.prefsum + (np - s.pref i),
      avgGain := ((1.0 : α) - lr) * s.avgGain + lr * gain,
      maxViol := mv }

def epSweep (F : McForm) (D : MlData α) (E : EpOps α) (first : Bool) (s : EpInner α) (sched : List Nat) : EpInner α :=
  sched.foldl (epVisit F D E first) s

/-! ### the epoch and the stopping logic -/

structure EpState (α : Type) where
  inner : EpInner α          -- `maxViol`: max_violation of the last epoch
  sched : List Nat           -- the `schedule` buffer (as left by the last epoch)
  epoch : Nat
  canstop : Bool

/-- start of `solve` -/
def epInit (D : MlData α) : EpState α :=
  { inner := { st := mlInit, pref := fun _ => (1.0 : α), prefsum := (D.n : α), avgGain := (0.0 : α), maxViol := (0.0 : α) },
    sched := List.replicate D.n 0, epoch := 0, canstop := true }

/-- the schedule construction of the epoch starting in `s` with draws `u` -/
def epBuild (D : MlData α) (E : EpOps α) (s : EpState α) (u : Nat → α) : AcfAcc α :=
  acfBuild E D.n s.inner.pref u s.inner.prefsum

/-- one epoch: schedule construction with draws `u`, then the inner loop along `sh`, the schedule after the
shuffle (a permutation of `acfBuffer s.sched (epBuild D E s u)`; checked by the caller), then `epoch++` -/
def epEpoch (F : McForm) (D : MlData α) (E : EpOps α) (s : EpState α) (u : Nat → α) (sh : List Nat) : EpState α :=
  let a := epBuild D E s u
  let i0 : EpInner α := { s.inner with prefsum := a.prefsum, maxViol := (0.0 : α) }
  { inner := epSweep F D E (s.epoch == 0) i0 sh, sched := sh, epoch := s.epoch + 1, canstop := s.canstop }

inductive EpStop where
  | maxIter        -- QpMaxIterationsReached
  | accuracy       -- QpAccuracyReached
  deriving DecidableEq, Repr

/-- the stopping logic after `epoch++`; `Sum.inl` = break, `Sum.inr` = next epoch -/
def epStopRule (D : MlData α) (maxIter : Nat) (s : EpState α) : EpStop ⊕ EpState α :=
  if maxIter > 0 ∧ s.epoch * D.n ≥ maxIter then .inl .maxIter
  else if s.inner.maxViol < D.eps then
    if s.canstop then .inl .accuracy
    else
      -- prepare full sweep for a reliable checking of the stopping criterion
      .inr { s with canstop := true, inner := { s.inner with pref := fun _ => (1.0 : α), prefsum := (D.n : α) } }
  else .inr { s with canstop := false }

/-- result of a run: final state, reason of the stop (`none`: the supplied randomness ran out before a stop),
and the last epoch: its start state, draws and shuffled schedule -/
structure EpResult (α : Type) where
  final : EpState α
  stop : Option EpStop
  lastStart : EpState α
  lastU : Nat → α
  lastSh : List Nat

/-- `while (true) { epoch; stopping logic }` along the supplied randomness (one entry per epoch) -/
def epSolve (F : McForm) (D : MlData α) (E : EpOps α) (maxIter : Nat) :
    List ((Nat → α) × List Nat) → EpState α → EpResult α
  | [], s => { final := s, stop := none, lastStart := s, lastU := fun _ => (0.0 : α), lastSh := [] }
  | (u, sh) :: rest, s =>
    let s1 := epEpoch F D E s u sh
    match epStopRule D maxIter s1 with
    | .inl r => { final := s1, stop := some r, lastStart := s, lastU := u, lastSh := sh }
    | .inr s2 => epSolve F D E maxIter rest s2

end SharkVerif.Mc
