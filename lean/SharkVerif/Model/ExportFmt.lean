/-
Exporters of `include/shark/Data/Csv.h` (`detail::exportCSV`, `detail::exportCSV_labeled`) and
`include/shark/Data/SparseData.h` (`exportSparseData`) as BYTE printers, including the number
formatting contract they rely on:

* `operator<<(double)` with `ios::scientific`, precision `P`  = `printf("%.<P>e")`  → `fmtE`
* `operator<<(double)` with default float field, precision `P` = `printf("%.<P>g")` → `fmtG`
  (glibc converts the exact binary value and rounds to nearest, ties to even);
* `setw(w)`: right-aligned padding with blanks, consumed by the next insertion only;
* `unsigned int` / `int` labels in decimal.

Tied to the C++ by exact comparison of the written file (ops `xcsv`, `xsvm` of the K-C19
correspondence).  Core Lean only.
-/
import SharkVerif.Model.Import
import SharkVerif.Model.ImportLex
namespace SharkVerif.Import.Export

/-! ### decimal digits of a natural number (own definition: the proofs look inside) -/

def digitChar (k : Nat) : Char := Char.ofNat (48 + k % 10)

/-- least significant digit first -/
def digitsRev : Nat → Nat → List Char
  | 0, _ => []
  | f+1, n => digitChar n :: (if n / 10 = 0 then [] else digitsRev f (n / 10))

/-- decimal representation of `n` (no leading zeros, `"0"` for 0) -/
def natDigits (n : Nat) : List Char := (digitsRev (n + 1) n).reverse

/-- the last `k` decimal digits of `n`, zero-padded -/
def fixedDigits : Nat → Nat → List Char
  | 0, _ => []
  | k+1, n => fixedDigits k (n / 10) ++ [digitChar n]

def intDigits (i : Int) : List Char := if i < 0 then '-' :: natDigits i.natAbs else natDigits i.natAbs

/-! ### `%e` / `%g` of an IEEE value -/

/-- smallest `k ≥ start` with `n · 10^k ≥ d` (fuel-bounded) -/
def findShift : Nat → Nat → Nat → Nat → Nat
  | 0, _, _, k => k
  | f+1, n, d, k => if n * 10 ^ k ≥ d then k else findShift f n d (k + 1)

/-- decimal exponent `E` of the positive rational `n/d`: `10^E ≤ n/d < 10^(E+1)` -/
def decExp (n d : Nat) : Int :=
  if n ≥ d then ((natDigits (n / d)).length : Int) - 1
  else - (findShift ((natDigits d).length + 2) n d 1 : Int)

/-- `n/d` rounded to `p + 1` significant decimal digits (nearest, ties to even):
the digits as a number in `[10^p, 10^(p+1))` and the decimal exponent of the first digit -/
def sciDigits (p : Nat) (n d : Nat) : Nat × Int :=
  let e0 := decExp n d
  let s : Int := (p : Int) - e0
  let num := if s ≥ 0 then n * 10 ^ s.toNat else n
  let den := if s ≥ 0 then d else d * 10 ^ (-s).toNat
  let q := num / den
  let r := num % den
  let m := if 2 * r > den ∨ (2 * r = den ∧ q % 2 = 1) then q + 1 else q
  if m ≥ 10 ^ (p + 1) then (m / 10, e0 + 1) else (m, e0)

/-- `e+05`, `e-123`: sign and at least two digits -/
def expPart (e : Int) : List Char :=
  let a := e.natAbs
  ['e', if e < 0 then '-' else '+'] ++ (if a < 10 then '0' :: natDigits a else natDigits a)

def signOf (neg : Bool) : List Char := if neg then ['-'] else []

/-- `printf("%.<p>e", x)` -/
def fmtE (p : Nat) : Val → List Char
  | .nan => "nan".toList
  | .inf neg => signOf neg ++ "inf".toList
  | v@(.fin neg m _) =>
    if m = 0 then signOf neg ++ ['0'] ++ (if p = 0 then [] else '.' :: List.replicate p '0') ++ expPart 0
    else
      let (ds, e) := sciDigits p v.ratOf.1 v.ratOf.2
      let s := fixedDigits (p + 1) ds
      signOf neg ++ s.take 1 ++ (if p = 0 then [] else '.' :: s.drop 1) ++ expPart e

def stripZeros (s : List Char) : List Char := (s.reverse.dropWhile (· == '0')).reverse

/-- `printf("%.<p>g", x)` (`p = 0` is treated as 1) -/
def fmtG (p0 : Nat) : Val → List Char
  | .nan => "nan".toList
  | .inf neg => signOf neg ++ "inf".toList
  | v@(.fin neg m _) =>
    let p := if p0 = 0 then 1 else p0
    if m = 0 then signOf neg ++ ['0']
    else
      let (ds, e) := sciDigits (p - 1) v.ratOf.1 v.ratOf.2
      let s := fixedDigits p ds
      if e ≥ -4 ∧ e < (p : Int) then
        if e ≥ 0 then
          let ip := s.take (e.toNat + 1)
          let fp := stripZeros (s.drop (e.toNat + 1))
          signOf neg ++ ip ++ (if fp.isEmpty then [] else '.' :: fp)
        else
          let fp := stripZeros (List.replicate ((-e).toNat - 1) '0' ++ s)
          signOf neg ++ ['0', '.'] ++ fp
      else
        let fp := stripZeros (s.drop 1)
        signOf neg ++ s.take 1 ++ (if fp.isEmpty then [] else '.' :: fp) ++ expPart e

/-- `out << std::setw(w) << token` -/
def pad (w : Nat) (s : List Char) : List Char := List.replicate (w - s.length) ' ' ++ s

/-- the number format selected by `exportCSV`: `precision(10)`, `scientific` optional -/
def csvNum (sci : Bool) (w : Nat) (v : Val) : List Char := pad w (if sci then fmtE 10 v else fmtG 10 v)

/-! ### CSV exporters: `none` = the library's exception ("Record must not be empty") -/

/-- the inputs of one element: `x_0 sep … x_{d-2} sep x_{d-1}` (each with `setw`) -/
def csvCells (sci : Bool) (w : Nat) (sep : Char) : List Val → List Char
  | [] => []
  | [x] => csvNum sci w x
  | x :: t => csvNum sci w x ++ [sep] ++ csvCells sci w sep t

def concatOpt : List (Option (List Char)) → Option (List Char)
  | [] => some []
  | none :: _ => none
  | some a :: t => (concatOpt t).map (a ++ ·)

/-- `detail::exportCSV` (unlabeled `Data<RealVector>`) -/
def csvRows (rows : List (List Val)) (sep : Char) (sci : Bool) (w : Nat) : Option (List Char) :=
  concatOpt (rows.map fun r => if r.isEmpty then none else some (csvCells sci w sep r ++ ['\n']))

/-- `detail::exportCSV_labeled`, arithmetic labels (class indices are printed without `setw`) -/
def csvClass (pts : List (Nat × List Val)) (labelFirst : Bool) (sep : Char) (sci : Bool) (w : Nat) : Option (List Char) :=
  concatOpt (pts.map fun p =>
    if p.2.isEmpty then none
    else if labelFirst then some (natDigits p.1 ++ [sep] ++ csvCells sci w sep p.2 ++ ['\n'])
    else some (csvCells sci w sep p.2 ++ [sep] ++ natDigits p.1 ++ ['\n']))

/-- `detail::exportCSV_labeled`, vector labels; in `LAST_COLUMN` the `setw` hits the separator -/
def csvRegr (pts : List (List Val × List Val)) (labelFirst : Bool) (sep : Char) (sci : Bool) (w : Nat) : Option (List Char) :=
  concatOpt (pts.map fun p =>
    if p.1.isEmpty then none
    else if labelFirst then
      some ((p.2.flatMap fun l => csvNum sci w l ++ [sep]) ++ csvCells sci w sep p.1 ++ ['\n'])
    else
      some (csvCells sci w sep p.1 ++ (p.2.flatMap fun l => pad w [sep] ++ csvNum sci 0 l) ++ ['\n']))

/-! ### LibSVM exporters (`exportSparseData`): default stream state = `%.6g` -/

def svmNum (v : Val) : List Char := fmtG 6 v

/-- stored entries `(index, value)` of an input: `" " << index+1 << ":" << value` -/
def svmFeats (xs : List (Nat × Val)) : List Char :=
  xs.flatMap fun q => [' '] ++ natDigits (q.1 + 1) ++ [':'] ++ svmNum q.2

/-- stable insertion by class label (`std::sort` of at most 16 elements is an insertion sort) -/
def insertByLabel {α} (x : Nat × α) : List (Nat × α) → List (Nat × α)
  | [] => [x]
  | y :: t => if x.1 < y.1 then x :: y :: t else y :: insertByLabel x t

def sortByLabel {α} (l : List (Nat × α)) : List (Nat × α) := l.foldl (fun acc x => insertByLabel x acc) []

/-- `exportSparseData(LabeledData<InputType, unsigned int>, stream, oneMinusOne, sortLabels)` -/
def svmClass (pts : List (Nat × List (Nat × Val))) (oneMinusOne sortLabels : Bool) : List Char :=
  let classes := if pts.isEmpty then 1 else numberOfClasses (pts.map (·.1))
  let omo := oneMinusOne && classes == 2
  let order := if sortLabels then sortByLabel pts else pts
  order.flatMap fun p =>
    (if omo then intDigits (2 * (p.1 : Int) - 1) else natDigits (p.1 + 1)) ++ [' '] ++ svmFeats p.2 ++ ['\n']

/-- `exportSparseData(LabeledData<InputType, RealVector>, stream)` -/
def svmRegr (pts : List (Val × List (Nat × Val))) : List Char :=
  pts.flatMap fun p => svmNum p.1 ++ svmFeats p.2 ++ ['\n']

/-- the stored entries of a dense vector: every cell -/
def denseEntries (xs : List Val) : List (Nat × Val) := List.zip (List.range xs.length) xs

end SharkVerif.Import.Export
