/-
Shared by the generated parameter formulas (`Gen/CMAParams.lean`, regenerated from the
C++ by `translate/cma_params.py`) and the hand-written evolution-strategy models
(`Model/CMA.lean`, `Model/ES.lean`): the libm functions the C++ calls, as explicit
parameters, and the `size_t → double` conversion.  Core Lean only.
-/
import SharkVerif.Model.OptScalar
namespace SharkVerif.Opt.CMA
open SharkVerif.Opt

/-- libm functions used by the C++ -/
structure Fns (α : Type) where
  log : α → α
  sqrt : α → α
  exp : α → α
  pow : α → α → α

/-- `static_cast<double>(n)` for a `size_t` (exact below 2^53) -/
def ofNat {α : Type} [Scalar α] (n : Nat) : α := Scalar.ofRat (n : Rat)

end SharkVerif.Opt.CMA
