/-
Executable model of include/shark/Data/CVDatasetTools.h on top of Model/Dataset.lean.

`CVFolds` = reorganised dataset + for every fold the batch indices of its
validation part.  The fold-construction functions use the *generated*
`batchPartitioning` (Gen/BatchArith.lean).  The random choices of the C++
(`std::shuffle`, `random::discrete`) are parameters of the model: the
correspondence harness observes what the real code drew and the driver checks
the observation against the specification relation (`isPermOf`, `validSeq`, …)
before applying it.
-/
import SharkVerif.Model.Dataset
namespace SharkVerif.CV
open SharkVerif.CheckedNat SharkVerif.Gen.BatchArith SharkVerif.Dataset

variable {ι κ : Type}

structure CVFolds (ι κ : Type) where
  dataset : LabeledData ι κ
  validationFolds : List (List Nat)
  deriving Repr

/-! ### `detail::complement(set, n, comp)` as the C++ computes it: `[0,n)`, a sorted copy of the index set,
`std::set_difference` of the two (proved equal to the specification `Data.complement` for every index set,
sorted or not, with or without repetitions: `C12.complementSD_eq`) -/

/-- `std::set_difference(first1, last1, first2, last2, out)` on two ascending ranges -/
def setDifference : List Nat → List Nat → List Nat
  | [], _ => []
  | a :: as, [] => a :: as
  | a :: as, b :: bs =>
    if a < b then a :: setDifference as (b :: bs)
    else if b < a then setDifference (a :: as) bs
    else setDifference as bs
termination_by l1 l2 => l1.length + l2.length

def complementSD (set : List Nat) (n : Nat) : List Nat :=
  let parentSet := List.range n
  let setCopy := set.mergeSort (fun a b => decide (a ≤ b))       -- std::sort of the copy
  setDifference parentSet setCopy

namespace CVFolds

/-- the loop of `CVFolds(set, foldStart)`: fold i validates on batches [foldStart[i], foldStart[i+1])
(the last fold: up to `numberOfBatches`); `none` if a difference would wrap around -/
def foldsFromStarts : List Nat → Nat → Option (List (List Nat))
  | [], _ => some []
  | [s], nb => do
    let size ← csub nb s
    pure [(List.range size).map (· + s)]
  | s :: s' :: rest, nb => do
    let size ← csub s' s
    let tl ← foldsFromStarts (s' :: rest) nb
    pure ((List.range size).map (· + s) :: tl)

/-- `CVFolds(set, validationIndizes)`: the index sets are taken as they are (any order, any content) -/
def ofSets (set : LabeledData ι κ) (validationIndizes : List (List Nat)) : CVFolds ι κ := ⟨set, validationIndizes⟩

/-- `CVFolds(set, foldStart)` -/
def ofStarts (set : LabeledData ι κ) (foldStart : List Nat) : R (CVFolds ι κ) := do
  let folds ← ofOpt (foldsFromStarts foldStart set.numberOfBatches)
  pure ⟨set, folds⟩

def size (f : CVFolds ι κ) : Nat := f.validationFolds.length
def validationFoldIndices (f : CVFolds ι κ) (i : Nat) : R (List Nat) := ofOpt f.validationFolds[i]?
/-- `trainingFoldIndices(i)` = `detail::complement(validation, numberOfBatches)` -/
def trainingFoldIndices (f : CVFolds ι κ) (i : Nat) : R (List Nat) := do
  pure (complementSD (← f.validationFoldIndices i) f.dataset.numberOfBatches)
def validation (f : CVFolds ι κ) (i : Nat) : R (LabeledData ι κ) := do
  f.dataset.indexedSubset (← f.validationFoldIndices i)
def training (f : CVFolds ι κ) (i : Nat) : R (LabeledData ι κ) := do
  f.dataset.indexedSubset (← f.trainingFoldIndices i)

end CVFolds

/-- elements of `set` at the given original positions (what `subBatch(setView, positions)` collects) -/
def pick (set : LabeledData ι κ) (positions : List Nat) : R (List (ι × κ)) :=
  (View.ofDataset set).subBatch positions

/-! ### the element-dealing loop of createCVIndexed / createCVFullyIndexed / detail::createCVSameSizeBalanced

```
for every (element, partition) in processing order:
    batchElements[partition].push_back(element);
    batchNumber = validationSetStart[partition];
    if (batchElements[partition].size() == batchSizes[batchNumber]) {
        newSet.batch(validationSetStart[partition]) = subBatch(setView, batchElements[partition]);
        batchElements[partition].clear();  ++validationSetStart[partition];
    }
```
`subBatch(setView, positions)` gathers position by position, so the loop is run on the gathered elements. -/

structure DealState (α : Type) where
  batches : List (List α)              -- `newSet`: `numBatches` empty batches at the start
  validationSetStart : List Nat        -- running copy of `partitionStart`
  batchElements : List (List α)
  deriving Repr

/-- one iteration; `none` = an index leaves its vector (undefined behaviour in the C++) -/
def dealStep {α : Type} (batchSizes : List Nat) (s : DealState α) (x : α × Nat) : Option (DealState α) := do
  let partition := x.2
  let be ← s.batchElements[partition]?
  let be := be ++ [x.1]
  let batchNumber ← cget s.validationSetStart partition
  let size ← cget batchSizes batchNumber
  if be.length = size then
    if batchNumber < s.batches.length then
      pure ⟨s.batches.set batchNumber be, s.validationSetStart.set partition (batchNumber + 1),
            s.batchElements.set partition []⟩
    else none
  else
    pure ⟨s.batches, s.validationSetStart, s.batchElements.set partition be⟩

/-- the whole loop: the batches of `newSet` afterwards -/
def dealLoop {α : Type} (items : List (α × Nat)) (numberOfPartitions numBatches : Nat)
    (partitionStart batchSizes : List Nat) : Option (List (List α)) := do
  let s ← items.foldlM (dealStep batchSizes)
    ⟨List.replicate numBatches [], partitionStart, List.replicate numberOfPartitions []⟩
  pure s.batches

/-- common tail of createCVIndexed / createCVFullyIndexed / detail::createCVSameSizeBalanced as the C++ runs it, from
the validation sizes on: `batchPartitioning`, the dealing loop into `newSet`, `CVFolds(set, partitionStart)` -/
def dealInto (set : LabeledData ι κ) (numberOfPartitions : Nat) (validationSize : List Nat) (assign : List (Nat × Nat))
    (batchSize : Nat) : R (CVFolds ι κ) := do
  let (numBatches, partitionStart, batchSizes) ← ofOpt (batchPartitioning validationSize [] [] batchSize)
  let els ← pick set (assign.map (·.1))
  let batches ← ofOpt (dealLoop (List.zip els (assign.map (·.2))) numberOfPartitions numBatches partitionStart batchSizes)
  let newSet : LabeledData ι κ :=
    ⟨{ batches := batches.map (·.map (·.1)), shape := set.inputs.shape },
     { batches := batches.map (·.map (·.2)), shape := set.labels.shape }⟩
  CVFolds.ofStarts newSet partitionStart

/-- createCVIndexed / createCVFullyIndexed: the validation sizes are counted from the fold numbers
(`validationSize[indices[input]]++`).  Proved equal to its net effect `regroup` for every input
(`C12.regroupLoop_eq_regroup`). -/
def regroupLoop (set : LabeledData ι κ) (numberOfPartitions : Nat) (assign : List (Nat × Nat)) (batchSize : Nat) :
    R (CVFolds ι κ) := do
  require (assign.all fun a => a.2 < numberOfPartitions)
  let validationSize := (List.range numberOfPartitions).map fun p => (assign.filter (·.2 = p)).length
  dealInto set numberOfPartitions validationSize assign batchSize

/-- net effect of `regroupLoop` (specification):
`assign[j] = (original position, fold)` in processing order.  Fold p receives its elements in
processing order, cut into the batch sizes `batchPartitioning` computed for it.
The new set carries the shapes of the old one (`newSet.inputShape() = set.inputShape()`; finding F11, repaired in
/repo e494cb4f). -/
def regroup (set : LabeledData ι κ) (numberOfPartitions : Nat) (assign : List (Nat × Nat)) (batchSize : Nat) :
    R (CVFolds ι κ) := do
  require (assign.all fun a => a.2 < numberOfPartitions)
  let validationSize := (List.range numberOfPartitions).map fun p => (assign.filter (·.2 = p)).length
  let (_numBatches, partitionStart, batchSizes) ← ofOpt (batchPartitioning validationSize [] [] batchSize)
  let els ← pick set (assign.map (·.1))
  let tagged := List.zip els (assign.map (·.2))
  let ordered := (List.range numberOfPartitions).flatMap fun p => (tagged.filter (·.2 = p)).map (·.1)
  let newSet : LabeledData ι κ :=
    ⟨{ batches := splitBySizes (ordered.map (·.1)) batchSizes, shape := set.inputs.shape },
     { batches := splitBySizes (ordered.map (·.2)) batchSizes, shape := set.labels.shape }⟩
  CVFolds.ofStarts newSet partitionStart

/-- `createCVIndexed(set, numberOfPartitions, indices, batchSize)` -/
def createCVIndexed (set : LabeledData ι κ) (numberOfPartitions : Nat) (indices : List Nat) (batchSize : Nat) :
    R (CVFolds ι κ) := do
  require (indices.length = set.numberOfElements)
  regroupLoop set numberOfPartitions (List.zip (List.range indices.length) indices) batchSize

/-- `createCVFullyIndexed(set, numberOfPartitions, (order, partition), batchSize)` -/
def createCVFullyIndexed (set : LabeledData ι κ) (numberOfPartitions : Nat) (order partition : List Nat)
    (batchSize : Nat) : R (CVFolds ι κ) := do
  require (order.length = set.numberOfElements && partition.length = set.numberOfElements)
  regroupLoop set numberOfPartitions (List.zip order partition) batchSize

/-- `createCVIID`: `indices` = what `random::discrete` drew (observed) -/
def createCVIID (set : LabeledData ι κ) (numberOfPartitions : Nat) (drawn : List Nat) (batchSize : Nat) :
    R (CVFolds ι κ) := do
  require (drawn.all (· < numberOfPartitions))
  createCVIndexed set numberOfPartitions drawn batchSize

/-- sizes of the validation parts where equal sizes are promised: ⌊n/k⌋ (+1 for the first n mod k folds) -/
def sameSizes (numInputs numberOfPartitions : Nat) : Option (List Nat) := do
  let nn ← cdiv numInputs numberOfPartitions
  let leftOver ← csub numInputs (nn * numberOfPartitions)
  pure ((List.range numberOfPartitions).map fun i => nn + (if i < leftOver then 1 else 0))

/-- `p` lists every index below `n` exactly once -/
def isPermOf (p : List Nat) (n : Nat) : Bool := p.isPerm (List.range n)

/-- `createCVSameSize`: repartition, then `shuffle()` (`perm` = the permutation drawn), folds from the starts -/
def createCVSameSize (set : LabeledData ι κ) (numberOfPartitions : Nat) (perm : List Nat) (batchSize : Nat) :
    R (CVFolds ι κ) := do
  let validationSize ← ofOpt (sameSizes set.numberOfElements numberOfPartitions)
  let (_, partitionStart, batchSizes) ← ofOpt (batchPartitioning validationSize [] [] batchSize)
  let set ← set.repartition batchSizes
  require (isPermOf perm set.numberOfElements)
  let set ← set.reorderElements perm
  CVFolds.ofStarts set partitionStart

/-- the dealing sequence of `createCVSameSizeBalanced` is admissible iff it lists every position once,
class by class in ascending class order (the members of each class in any — shuffled — order) -/
def validSeq (labels : List Nat) (seq : List Nat) : Bool :=
  isPermOf seq labels.length &&
  (let ls := seq.map fun i => labels[i]?.getD 0
   (List.range (ls.length - 1)).all fun j => ls[j]?.getD 0 ≤ ls[j + 1]?.getD 0)

/-- the dealing sequence of `detail::createCVSameSizeBalanced(set, k, members, …)`: `members[0]` shuffled, then
`members[1]` shuffled, … -/
def validMembersSeq (members : List (List Nat)) (seq : List Nat) : Bool :=
  seq.length = (members.map List.length).sum &&
  (List.zip (splitBySizes seq (members.map List.length)) members).all fun am => am.1.isPerm am.2

/-- `detail::createCVSameSizeBalanced(set, numberOfPartitions, members, batchSize, &cv_indices)` (any label type):
`seq` = the class-wise shuffled positions in dealing order (observed through `RecreationIndices::first`); the j-th
dealt element goes to fold j mod k (`fold = (fold+1) % numberOfPartitions`).  The C++ takes the validation sizes
⌊n/k⌋(+1) of *all* elements for the batch layout. -/
def createCVSameSizeBalancedMembers (set : LabeledData ι κ) (numberOfPartitions : Nat) (members : List (List Nat))
    (seq : List Nat) (batchSize : Nat) : R (CVFolds ι κ × List Nat × List Nat) := do
  require (validMembersSeq members seq)
  let validationSize ← ofOpt (sameSizes set.numberOfElements numberOfPartitions)
  require (seq.length = set.numberOfElements)          -- `SHARK_ASSERT(j == numInputs)`
  let folds := (List.range seq.length).map (· % numberOfPartitions)
  let f ← dealInto set numberOfPartitions validationSize (List.zip seq folds) batchSize
  pure (f, seq, folds)

/-- `members[c]` = positions of the elements with label c, ascending (`members[setView[i].label].push_back(i)`) -/
def classMembers (labels : List Nat) (numClasses : Nat) : List (List Nat) :=
  (List.range numClasses).map fun c => (List.range labels.length).filter fun i => labels[i]? == some c

/-- `createCVSameSizeBalanced(set, numberOfPartitions, batchSize, &cv_indices)` (class labels) -/
def createCVSameSizeBalanced (set : LabeledData ι Nat) (numberOfPartitions : Nat) (seq : List Nat) (batchSize : Nat) :
    R (CVFolds ι Nat × List Nat × List Nat) := do
  let numClasses ← numberOfClasses set.labels
  let labs ← ofOpt ((View.ofDataset set).elements.mapM id)
  require (validSeq (labs.map (·.2)) seq)
  createCVSameSizeBalancedMembers set numberOfPartitions (classMembers (labs.map (·.2)) numClasses) seq batchSize

/-- the fold loop of `createCVBatch`: `size = partitionSize; if(remainder > 0){ ++size; --remainder; }`,
`IndexSet(pos, pos+size)`, `pos += size` -/
def batchFoldsLoop : Nat → Nat → Nat → List Nat → List (List Nat)
  | 0, _, _, _ => []
  | i + 1, partitionSize, remainder, pos =>
    let size := if remainder > 0 then partitionSize + 1 else partitionSize
    pos.take size :: batchFoldsLoop i partitionSize (remainder - 1) (pos.drop size)

/-- `createCVBatch`: `perm` = the shuffled batch indices (observed); the dataset itself is unchanged -/
def createCVBatch (set : LabeledData ι κ) (numberOfPartitions : Nat) (perm : List Nat) : R (CVFolds ι κ) := do
  let nb := set.numberOfBatches
  require (isPermOf perm nb)
  let partitionSize ← ofOpt (cdiv nb numberOfPartitions)
  let remainder ← ofOpt (csub nb (partitionSize * numberOfPartitions))
  pure (CVFolds.ofSets set (batchFoldsLoop numberOfPartitions partitionSize remainder perm))

end SharkVerif.CV
