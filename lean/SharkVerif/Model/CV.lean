/-
Executable model of include/shark/Data/CVDatasetTools.h on top of Model/Dataset.lean.

`CVFolds` = reorganised dataset + for every fold the batch indices of its
validation part.  The fold-construction functions use the *generated*
`batchPartitioning` (Gen/BatchArith.lean).  The random choices of the C++
(`std::shuffle`, `random::discrete`) are parameters of the model: the
correspondence harness observes what the real code drew and the driver checks
the observation against the specification relation (`isPermOf`, `validSeq`, …)
before applying it.
-/
import SharkVerif.Model.Dataset
namespace SharkVerif.CV
open SharkVerif.CheckedNat SharkVerif.Gen.BatchArith SharkVerif.Dataset

variable {ι κ : Type}

structure CVFolds (ι κ : Type) where
  dataset : LabeledData ι κ
  validationFolds : List (List Nat)
  deriving Repr

namespace CVFolds

/-- the loop of `CVFolds(set, foldStart)`: fold i validates on batches [foldStart[i], foldStart[i+1])
(the last fold: up to `numberOfBatches`); `none` if a difference would wrap around -/
def foldsFromStarts : List Nat → Nat → Option (List (List Nat))
  | [], _ => some []
  | [s], nb => do
    let size ← csub nb s
    pure [(List.range size).map (· + s)]
  | s :: s' :: rest, nb => do
    let size ← csub s' s
    let tl ← foldsFromStarts (s' :: rest) nb
    pure ((List.range size).map (· + s) :: tl)

/-- `CVFolds(set, foldStart)` -/
def ofStarts (set : LabeledData ι κ) (foldStart : List Nat) : R (CVFolds ι κ) := do
  let folds ← ofOpt (foldsFromStarts foldStart set.numberOfBatches)
  pure ⟨set, folds⟩

def size (f : CVFolds ι κ) : Nat := f.validationFolds.length
def validationFoldIndices (f : CVFolds ι κ) (i : Nat) : R (List Nat) := ofOpt f.validationFolds[i]?
/-- `trainingFoldIndices(i)` = `detail::complement(validation, numberOfBatches)` -/
def trainingFoldIndices (f : CVFolds ι κ) (i : Nat) : R (List Nat) := do
  pure (Data.complement (← f.validationFoldIndices i) f.dataset.numberOfBatches)
def validation (f : CVFolds ι κ) (i : Nat) : R (LabeledData ι κ) := do
  f.dataset.indexedSubset (← f.validationFoldIndices i)
def training (f : CVFolds ι κ) (i : Nat) : R (LabeledData ι κ) := do
  f.dataset.indexedSubset (← f.trainingFoldIndices i)

end CVFolds

/-- elements of `set` at the given original positions (what `subBatch(setView, positions)` collects) -/
def pick (set : LabeledData ι κ) (positions : List Nat) : R (List (ι × κ)) :=
  (View.ofDataset set).subBatch positions

/-- common tail of createCVIndexed / createCVFullyIndexed / createCVSameSizeBalanced:
`assign[j] = (original position, fold)` in processing order.  Fold p receives its elements in
processing order, cut into the batch sizes `batchPartitioning` computed for it.
The new set carries the shapes of the old one (the property demands it; the C++ as found builds the new
set from `LabeledData(numBatches)` and forgets them — finding F11 — so the correspondence reports a
violation until that is repaired). -/
def regroup (set : LabeledData ι κ) (numberOfPartitions : Nat) (assign : List (Nat × Nat)) (batchSize : Nat) :
    R (CVFolds ι κ) := do
  require (assign.all fun a => a.2 < numberOfPartitions)
  let validationSize := (List.range numberOfPartitions).map fun p => (assign.filter (·.2 = p)).length
  let (_numBatches, partitionStart, batchSizes) ← ofOpt (batchPartitioning validationSize [] [] batchSize)
  let els ← pick set (assign.map (·.1))
  let tagged := List.zip els (assign.map (·.2))
  let ordered := (List.range numberOfPartitions).flatMap fun p => (tagged.filter (·.2 = p)).map (·.1)
  let newSet : LabeledData ι κ :=
    ⟨{ batches := splitBySizes (ordered.map (·.1)) batchSizes, shape := set.inputs.shape },
     { batches := splitBySizes (ordered.map (·.2)) batchSizes, shape := set.labels.shape }⟩
  CVFolds.ofStarts newSet partitionStart

/-- `createCVIndexed(set, numberOfPartitions, indices, batchSize)` -/
def createCVIndexed (set : LabeledData ι κ) (numberOfPartitions : Nat) (indices : List Nat) (batchSize : Nat) :
    R (CVFolds ι κ) := do
  require (indices.length = set.numberOfElements)
  regroup set numberOfPartitions (List.zip (List.range indices.length) indices) batchSize

/-- `createCVFullyIndexed(set, numberOfPartitions, (order, partition), batchSize)` -/
def createCVFullyIndexed (set : LabeledData ι κ) (numberOfPartitions : Nat) (order partition : List Nat)
    (batchSize : Nat) : R (CVFolds ι κ) := do
  require (order.length = set.numberOfElements && partition.length = set.numberOfElements)
  regroup set numberOfPartitions (List.zip order partition) batchSize

/-- `createCVIID`: `indices` = what `random::discrete` drew (observed) -/
def createCVIID (set : LabeledData ι κ) (numberOfPartitions : Nat) (drawn : List Nat) (batchSize : Nat) :
    R (CVFolds ι κ) := do
  require (drawn.all (· < numberOfPartitions))
  createCVIndexed set numberOfPartitions drawn batchSize

/-- sizes of the validation parts where equal sizes are promised: ⌊n/k⌋ (+1 for the first n mod k folds) -/
def sameSizes (numInputs numberOfPartitions : Nat) : Option (List Nat) := do
  let nn ← cdiv numInputs numberOfPartitions
  let leftOver ← csub numInputs (nn * numberOfPartitions)
  pure ((List.range numberOfPartitions).map fun i => nn + (if i < leftOver then 1 else 0))

/-- `p` lists every index below `n` exactly once -/
def isPermOf (p : List Nat) (n : Nat) : Bool := p.isPerm (List.range n)

/-- `createCVSameSize`: repartition, then `shuffle()` (`perm` = the permutation drawn), folds from the starts -/
def createCVSameSize (set : LabeledData ι κ) (numberOfPartitions : Nat) (perm : List Nat) (batchSize : Nat) :
    R (CVFolds ι κ) := do
  let validationSize ← ofOpt (sameSizes set.numberOfElements numberOfPartitions)
  let (_, partitionStart, batchSizes) ← ofOpt (batchPartitioning validationSize [] [] batchSize)
  let set ← set.repartition batchSizes
  require (isPermOf perm set.numberOfElements)
  let set ← set.reorderElements perm
  CVFolds.ofStarts set partitionStart

/-- the dealing sequence of `createCVSameSizeBalanced` is admissible iff it lists every position once,
class by class in ascending class order (the members of each class in any — shuffled — order) -/
def validSeq (labels : List Nat) (seq : List Nat) : Bool :=
  isPermOf seq labels.length &&
  (let ls := seq.map fun i => labels[i]?.getD 0
   (List.range (ls.length - 1)).all fun j => ls[j]?.getD 0 ≤ ls[j + 1]?.getD 0)

/-- `createCVSameSizeBalanced`: `seq` = the class-wise shuffled positions in dealing order (observed through
`RecreationIndices::first`); the j-th dealt element goes to fold j mod k.  Note that the C++ takes the
validation sizes ⌊n/k⌋(+1) for the batch layout, which equals the dealt fold sizes. -/
def createCVSameSizeBalanced (set : LabeledData ι Nat) (numberOfPartitions : Nat) (seq : List Nat) (batchSize : Nat) :
    R (CVFolds ι Nat × List Nat × List Nat) := do
  let _ ← numberOfClasses set.labels
  let labs ← ofOpt ((View.ofDataset set).elements.mapM id)
  require (validSeq (labs.map (·.2)) seq)
  require (numberOfPartitions > 0)
  let folds := (List.range seq.length).map (· % numberOfPartitions)
  let f ← regroup set numberOfPartitions (List.zip seq folds) batchSize
  pure (f, seq, folds)

/-- `createCVBatch`: `perm` = the shuffled batch indices (observed); the dataset itself is unchanged -/
def createCVBatch (set : LabeledData ι κ) (numberOfPartitions : Nat) (perm : List Nat) : R (CVFolds ι κ) := do
  let nb := set.numberOfBatches
  require (isPermOf perm nb)
  let partitionSize ← ofOpt (cdiv nb numberOfPartitions)
  let remainder ← ofOpt (csub nb (partitionSize * numberOfPartitions))
  let sizes := (List.range numberOfPartitions).map fun i => partitionSize + (if i < remainder then 1 else 0)
  pure ⟨set, splitBySizes perm sizes⟩

end SharkVerif.CV
