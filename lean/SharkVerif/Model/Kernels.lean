/-
Executable model of Shark's kernel functions (include/shark/Models/Kernels/*.h),
their block evaluation and the blockwise Gram-matrix assembly of
Models/Kernels/KernelHelpers.h.

Core Lean only (no Mathlib): the same definitions are
  * executed by the native driver `drv_c05` at `Rat` (exact mode) and at `Float`
    (bit mode, same operation order as the C++, same libm `exp`/`sqrt`), and
  * the subject of the theorems in `Props/C05.lean` (stated over an arbitrary
    ordered field, instantiated at `ℚ`/`ℝ`).

The scalar type `α` is abstract: the model only needs `+ - * / -x`, `0` and `1`
("Scalar" below is just this bundle of core notation classes, so that a Mathlib
`Field` instance, core `Rat` and core `Float` all fit without glue instances).
Transcendental functions (`exp`, `sqrt`) are explicit parameters.

Points are lists of scalars (`RealVector` and, expanded, `CompressedRealVector`),
batches / matrices are lists of rows.

Three evaluation paths of the C++ are modelled separately because they are
separate code:
  * `Kern.eval`        — `double eval(ConstInputReference, ConstInputReference)`
  * `Kern.evalBlock`   — `void eval(batchX1, batchX2, RealMatrix&)` (stateless; this
                          is what `operator()`, the Gram assembly and KernelExpansion call)
  * `Kern.evalBlockS`  — `void eval(batchX1, batchX2, RealMatrix&, State&)` (stateful)
`NormalizedKernel`'s stateless path is modelled *as repaired* (finding
`normalized-stateless-block`, see findings_proposed/C05.md): row `i` is divided
by `sqrt k(x1_i,x1_i) * sqrt k(x2_j,x2_j)`; `DiscreteKernel`'s block path is
modelled as repaired too (finding `discrete-block-ignores-indices`).
-/
namespace SharkVerif.Kernels

abbrev Point (α : Type) := List α
abbrev Mat (α : Type) := List (List α)

/-- kernel expressions: one constructor per Shark kernel class over vector inputs -/
inductive Kern (α : Type) where
  | linear                                            -- LinearKernel
  | poly (degree : Nat) (offset : α)                  -- PolynomialKernel  (⟨x,z⟩ + offset)^degree
  | monomial (exponent : Nat)                         -- MonomialKernel    ⟨x,z⟩^exponent
  | gauss (gamma : α)                                 -- GaussianRbfKernel exp(-γ‖x−z‖²)
  | ard (gammas : List α)                             -- ARDKernelUnconstrained exp(-Σγᵢ(xᵢ−zᵢ)²)
  | normalized (base : Kern α)                        -- NormalizedKernel
  | scaled (factor : α) (base : Kern α)               -- ScaledKernel
  | wsum (weights : List α) (weightsum : α) (bases : List (Kern α))  -- WeightedSumKernel (m_base[i].weight, m_weightsum)
  | prod (bases : List (Kern α))                      -- ProductKernel
  | subrange (start stop : Nat) (base : Kern α)       -- detail::SubrangeKernelWrapper
  | mapped (A : List (List α)) (b : List α) (base : Kern α)   -- ModelKernel over a LinearModel x ↦ A x + b
  deriving Repr, Inhabited

section
variable {α : Type} [Add α] [Sub α] [Mul α] [Div α] [Neg α] [OfNat α 0] [OfNat α 1]

/-- `inner_prod(x, z)` -/
def dot : Point α → Point α → α
  | x :: xs, z :: zs => x * z + dot xs zs
  | _, _ => 0

/-- `distanceSqr(x, z)` = Σ (xᵢ−zᵢ)² -/
def distSqr : Point α → Point α → α
  | x :: xs, z :: zs => (x - z) * (x - z) + distSqr xs zs
  | _, _ => 0

/-- `diagonalMahalanobisDistanceSqr(x, z, γ)` = Σ γᵢ (xᵢ−zᵢ)² -/
def mahal : List α → Point α → Point α → α
  | g :: gs, x :: xs, z :: zs => g * ((x - z) * (x - z)) + mahal gs xs zs
  | _, _, _ => 0

/-- `std::pow(x, n)` for an integer exponent (exact whenever the result is representable) -/
def powNat (x : α) : Nat → α
  | 0 => 1
  | n + 1 => powNat x n * x

/-- `blas::subrange(x, start, stop)` / `columns(batch, start, stop)` -/
def slice (start stop : Nat) (x : List α) : List α := (x.drop start).take (stop - start)

/-- `LinearModel::eval`: `x ↦ A x + b` (row `r` of the output is `⟨x, A_r⟩ + b_r`) -/
def affine (A : List (List α)) (b : List α) (x : List α) : List α :=
  List.zipWith (fun row br => dot x row + br) A b

/-- the literal `2.0` -/
def two : α := 1 + 1

/-- `numerator += weight_i * result_i` over the sub-kernels (left to right, as the C++ loop) -/
def wfold : List α → List α → α → α
  | w :: ws, v :: vs, acc => wfold ws vs (acc + w * v)
  | _, _, acc => acc

/-- `prod *= k_i` (left to right) -/
def pfold : List α → α → α
  | v :: vs, acc => pfold vs (acc * v)
  | [], acc => acc

variable (exp sqrt : α → α)

mutual
/-- `double eval(x1, x2)`: the single-pair evaluation of each kernel class -/
def Kern.eval : Kern α → Point α → Point α → α
  | .linear, x, z => dot x z
  | .poly d c, x, z => powNat (dot x z + c) d
  | .monomial n, x, z => powNat (dot x z) n
  | .gauss g, x, z => exp (-g * distSqr z x)
  | .ard gs, x, z => exp (-(mahal gs x z))
  | .normalized k, x, z => (k.eval x z / sqrt (k.eval x x)) / sqrt (k.eval z z)
  | .scaled f k, x, z => f * k.eval x z
  | .wsum ws s ks, x, z => wfold ws (evalList ks x z) 0 / s
  | .prod ks, x, z => pfold (evalList ks x z) 1
  | .subrange a b k, x, z => k.eval (slice a b x) (slice a b z)
  | .mapped A b k, x, z => k.eval (affine A b x) (affine A b z)
def evalList : List (Kern α) → Point α → Point α → List α
  | [], _, _ => []
  | k :: ks, x, z => k.eval x z :: evalList ks x z
end

/-! ### block evaluation -/

def mapMat (f : α → α) (M : Mat α) : Mat α := M.map (·.map f)
def zipMat (f : α → α → α) (A B : Mat α) : Mat α := List.zipWith (List.zipWith f) A B
/-- `prod(X1, trans(X2))` -/
def gemmT (X1 X2 : Mat α) : Mat α := X1.map fun x => X2.map fun z => dot x z
/-- matrix of the given shape filled with a constant -/
def constMat (X1 X2 : Mat α) (c : α) : Mat α := X1.map fun _ => X2.map fun _ => c

/-- `result += weight_i * kernelResult_i` over the sub-kernel blocks -/
def wfoldMat : List α → List (Mat α) → Mat α → Mat α
  | w :: ws, K :: Ks, acc => wfoldMat ws Ks (zipMat (· + ·) acc (mapMat (w * ·) K))
  | _, _, acc => acc

/-- `result *= kernelResult_i` (element-wise) -/
def pfoldMat : List (Mat α) → Mat α → Mat α
  | K :: Ks, acc => pfoldMat Ks (zipMat (· * ·) acc K)
  | [], acc => acc

mutual
/-- `void eval(batchX1, batchX2, RealMatrix& result)` — the stateless block evaluation -/
def Kern.evalBlock : Kern α → Mat α → Mat α → Mat α
  | .linear, X1, X2 => gemmT X1 X2
  | .poly d c, X1, X2 =>
      let r := mapMat (· + c) (gemmT X1 X2)
      if d ≠ 1 then mapMat (powNat · d) r else r
  | .monomial n, X1, X2 =>
      let r := gemmT X1 X2
      if n ≠ 1 then mapMat (powNat · n) r else r
  | .gauss g, X1, X2 =>
      mapMat (fun d => exp (-g * d)) (X1.map fun x => X2.map fun z => distSqr x z)
  | .ard gs, X1, X2 => X1.map fun x => X2.map fun z => exp (-(mahal gs x z))
  | .normalized k, X1, X2 =>
      -- as repaired: row i uses k(x1_i,x1_i) and divides
      let r := k.evalBlock X1 X2
      let sy := X2.map fun z => sqrt (k.eval exp sqrt z z)
      List.zipWith (fun x row =>
        let sx := sqrt (k.eval exp sqrt x x)
        List.zipWith (fun v s => v / (sx * s)) row sy) X1 r
  | .scaled f k, X1, X2 => mapMat (· * f) (k.evalBlock X1 X2)
  | .wsum ws s ks, X1, X2 =>
      mapMat (· / s) (wfoldMat ws (evalBlockList ks X1 X2) (constMat X1 X2 0))
  | .prod ks, X1, X2 =>
      match evalBlockList ks X1 X2 with
      | [] => constMat X1 X2 1          -- "an empty product is a normalized kernel" (C++: UB, see findings)
      | K :: Ks => pfoldMat Ks K
  | .subrange a b k, X1, X2 => k.evalBlock (X1.map (slice a b)) (X2.map (slice a b))
  | .mapped A b k, X1, X2 => k.evalBlock (X1.map (affine A b)) (X2.map (affine A b))
def evalBlockList : List (Kern α) → Mat α → Mat α → List (Mat α)
  | [], _, _ => []
  | k :: ks, X1, X2 => k.evalBlock X1 X2 :: evalBlockList ks X1 X2
end

mutual
/-- `void eval(batchX1, batchX2, RealMatrix& result, State& state)` — the stateful block
evaluation (the state itself — intermediate matrices for the derivatives — is not modelled) -/
def Kern.evalBlockS : Kern α → Mat α → Mat α → Mat α
  | .linear, X1, X2 => gemmT X1 X2
  | .poly d c, X1, X2 =>
      let r := mapMat (· + c) (gemmT X1 X2)
      if d ≠ 1 then mapMat (powNat · d) r else r
  | .monomial n, X1, X2 =>
      let r := gemmT X1 X2
      if n ≠ 1 then mapMat (powNat · n) r else r
  | .gauss g, X1, X2 =>
      mapMat (fun d => exp (-g * d)) (X1.map fun x => X2.map fun z => distSqr x z)
  | .ard gs, X1, X2 => X1.map fun x => X2.map fun z => exp (-(mahal gs x z))
  | .normalized k, X1, X2 =>
      -- kxx_i, kyy_j come from 1×1 stateful block evaluations of the base kernel
      let r := k.evalBlockS X1 X2
      let diag := fun (x : Point α) => ((k.evalBlockS [x] [x]).headD []).headD 0
      let sy := X2.map fun z => sqrt (diag z)
      List.zipWith (fun x row =>
        let sx := sqrt (diag x)
        List.zipWith (fun v s => v / (sx * s)) row sy) X1 r
  | .scaled f k, X1, X2 => mapMat (· * f) (k.evalBlockS X1 X2)
  | .wsum ws s ks, X1, X2 =>
      mapMat (· / s) (wfoldMat ws (evalBlockSList ks X1 X2) (constMat X1 X2 0))
  | .prod ks, X1, X2 =>
      -- ProductKernel's stateful eval forwards to the stateless one
      match evalBlockList exp sqrt ks X1 X2 with
      | [] => constMat X1 X2 1
      | K :: Ks => pfoldMat Ks K
  | .subrange a b k, X1, X2 => k.evalBlockS (X1.map (slice a b)) (X2.map (slice a b))
  | .mapped A b k, X1, X2 => k.evalBlockS (X1.map (affine A b)) (X2.map (affine A b))
def evalBlockSList : List (Kern α) → Mat α → Mat α → List (Mat α)
  | [], _, _ => []
  | k :: ks, X1, X2 => k.evalBlockS X1 X2 :: evalBlockSList ks X1 X2
end

/-! ### `IS_NORMALIZED` flag and feature-space distance -/

mutual
/-- the `IS_NORMALIZED` feature flag as the constructors set it -/
def Kern.isNormalized : Kern α → Bool
  | .gauss _ => true
  | .ard _ => true
  | .normalized _ => true
  | .prod ks => allNormalized ks
  | _ => false
def allNormalized : List (Kern α) → Bool
  | [] => true
  | k :: ks => k.isNormalized && allNormalized ks
end

/-- `featureDistanceSqr(x1, x2)`: `AbstractKernelFunction`'s default, overridden by `LinearKernel` -/
def Kern.featureDistanceSqr (k : Kern α) (x z : Point α) : α :=
  match k with
  | .linear => distSqr x z
  | k =>
    if k.isNormalized then
      let k12 := k.eval exp sqrt x z
      two - two * k12
    else
      let k11 := k.eval exp sqrt x x
      let k12 := k.eval exp sqrt x z
      let k22 := k.eval exp sqrt z z
      k11 - two * k12 + k22

/-- `WeightedSumKernel::setParameterVector`: weight₀ = 1, weightᵢ = exp(pᵢ), weightsum = 1 + Σ weightᵢ -/
def wsumOfParams (ps : List α) (ks : List (Kern α)) : Kern α :=
  .wsum (1 :: ps.map exp) (ps.foldl (fun s p => s + exp p) 1) ks

end

/-! ### Reconfiguration of a constructed kernel object

A Shark kernel object is built once and then *reconfigured in place*: `ScaledKernel::setFactor`
(this is what `NormalizeKernelUnitVariance::train` does), `setParameterVector` (every optimiser of
kernel parameters).  The feature flags (`m_features`, in particular `IS_NORMALIZED`, which
`featureDistanceSqr` trusts) are decided by the constructors and are never touched again.
`KObj` models exactly that: the current expression plus the flag *as cached at construction*;
the reconfiguration operations rewrite the expression and leave the cached flag alone. -/
section
variable {α : Type} [Add α] [Sub α] [Mul α] [Div α] [Neg α] [OfNat α 0] [OfNat α 1]

mutual
/-- number of `ScaledKernel` objects in the expression -/
def Kern.numScaled : Kern α → Nat
  | .scaled _ k => 1 + k.numScaled
  | .normalized k => k.numScaled
  | .wsum _ _ ks => numScaledList ks
  | .prod ks => numScaledList ks
  | .subrange _ _ k => k.numScaled
  | .mapped _ _ k => k.numScaled
  | _ => 0
def numScaledList : List (Kern α) → Nat
  | [] => 0
  | k :: ks => k.numScaled + numScaledList ks
end

mutual
/-- `ScaledKernel::setFactor(f)` on the `i`-th `ScaledKernel` object of the expression (pre-order) -/
def Kern.setFactor (f : α) : Kern α → Nat → Kern α
  | .scaled g k, i =>
      match i with
      | 0 => .scaled f k
      | i + 1 => .scaled g (k.setFactor f i)
  | .normalized k, i => .normalized (k.setFactor f i)
  | .wsum ws s ks, i => .wsum ws s (setFactorList f ks i)
  | .prod ks, i => .prod (setFactorList f ks i)
  | .subrange a b k, i => .subrange a b (k.setFactor f i)
  | .mapped A b k, i => .mapped A b (k.setFactor f i)
  | k, _ => k
def setFactorList (f : α) : List (Kern α) → Nat → List (Kern α)
  | [], _ => []
  | k :: ks, i =>
      if i < k.numScaled then k.setFactor f i :: ks else k :: setFactorList f ks (i - k.numScaled)
end

/-- total number of entries of a list of rows -/
def entryCount (A : List (List α)) : Nat := A.foldl (fun n row => n + row.length) 0

/-- refill a list of rows from a flat parameter list (row-major, `LinearModel::setParameterVector`) -/
def reshapeLike : List (List α) → List α → List (List α)
  | [], _ => []
  | row :: rows, ps => ps.take row.length :: reshapeLike rows (ps.drop row.length)

mutual
/-- `numberOfParameters()` (sub-kernels of a weighted sum are not adaptive: the constructor default) -/
def Kern.numParams : Kern α → Nat
  | .linear => 0
  | .poly _ _ => 1
  | .monomial _ => 0
  | .gauss _ => 1
  | .ard gs => gs.length
  | .normalized k => k.numParams
  | .scaled _ k => k.numParams
  | .wsum _ _ ks => ks.length - 1
  | .prod ks => numParamsList ks
  | .subrange _ _ k => k.numParams
  | .mapped A b k => k.numParams + (entryCount A + b.length)
def numParamsList : List (Kern α) → Nat
  | [] => 0
  | k :: ks => k.numParams + numParamsList ks
end

variable (exp : α → α)

mutual
/-- `setParameterVector(ps)`: polynomial offset and Gaussian γ are stored as given, ARD γᵢ = exp pᵢ,
weighted-sum weightᵢ₊₁ = exp pᵢ (weight₀ is not a parameter and keeps its value) and
`m_weightsum = 1 + Σ weightᵢ₊₁`; wrappers forward; products and model kernels split the vector. -/
def Kern.setParams : Kern α → List α → Kern α
  | .linear, _ => .linear
  | .poly d _, ps => .poly d (ps.headD 0)
  | .monomial n, _ => .monomial n
  | .gauss _, ps => .gauss (ps.headD 0)
  | .ard _, ps => .ard (ps.map exp)
  | .normalized k, ps => .normalized (k.setParams ps)
  | .scaled f k, ps => .scaled f (k.setParams ps)
  | .wsum ws _ ks, ps =>
      let q := ps.take (ks.length - 1)
      .wsum (ws.headD 1 :: q.map exp) (q.foldl (fun s p => s + exp p) 1) ks
  | .prod ks, ps => .prod (setParamsList ks ps)
  | .subrange a b k, ps => .subrange a b (k.setParams ps)
  | .mapped A b k, ps =>
      let rest := ps.drop k.numParams
      .mapped (reshapeLike A rest) ((rest.drop (entryCount A)).take b.length) (k.setParams (ps.take k.numParams))
def setParamsList : List (Kern α) → List α → List (Kern α)
  | [], _ => []
  | k :: ks, ps => k.setParams (ps.take k.numParams) :: setParamsList ks (ps.drop k.numParams)
end

/-- a live kernel object: current expression + the `IS_NORMALIZED` flag as the constructors cached it -/
structure KObj (α : Type) where
  expr : Kern α
  normFlag : Bool
  deriving Inhabited

/-- in-place reconfigurations of a constructed kernel object -/
inductive Reconf (α : Type) where
  | setFactor (i : Nat) (f : α)          -- `ScaledKernel::setFactor` on the i-th ScaledKernel
  | setParams (ps : List α)              -- `setParameterVector` on the outermost kernel

/-- the constructors: the flag is computed from the sub-kernels' flags once -/
def KObj.construct (k : Kern α) : KObj α := ⟨k, k.isNormalized⟩

def KObj.apply (o : KObj α) : Reconf α → KObj α
  | .setFactor i f => { o with expr := o.expr.setFactor f i }
  | .setParams ps => { o with expr := o.expr.setParams exp ps }

/-- a whole history of reconfigurations -/
def KObj.run (o : KObj α) (h : List (Reconf α)) : KObj α := h.foldl (KObj.apply exp) o

variable (sqrt : α → α)

/-- `featureDistanceSqr(x1, x2)` of a live object: trusts the *cached* flag -/
def KObj.featureDistanceSqr (o : KObj α) (x z : Point α) : α :=
  match o.expr with
  | .linear => distSqr x z
  | k =>
    if o.normFlag then
      two - two * k.eval exp sqrt x z
    else
      k.eval exp sqrt x x - two * k.eval exp sqrt x z + k.eval exp sqrt z z

/-- `RealMatrix featureDistanceSqr(batchX1, batchX2)` of `AbstractKernelFunction`
(`LinearKernel` overrides it with the batch `distanceSqr`): `-2·K`, then `+2` (flag set) or
`+ (k(x1ᵢ,x1ᵢ) + k(x2ⱼ,x2ⱼ))` row by row -/
def KObj.featureDistanceBlock (o : KObj α) (X1 X2 : Mat α) : Mat α :=
  match o.expr with
  | .linear => X1.map fun x => X2.map fun z => distSqr x z
  | k =>
    let r := mapMat (· * (-two)) (k.evalBlock exp sqrt X1 X2)
    if o.normFlag then mapMat (· + two) r
    else
      let kx2 := X2.map fun z => k.eval exp sqrt z z
      List.zipWith (fun x row =>
        let kx1 := k.eval exp sqrt x x
        List.zipWith (fun v s => v + (kx1 + s)) row kx2) X1 r
end

/-! ### SubrangeKernel and PointSetKernel -/
section
variable {α : Type} [Add α] [Sub α] [Mul α] [Div α] [Neg α] [OfNat α 0] [OfNat α 1]
variable (exp sqrt : α → α)

/-- `SubrangeKernel(kernels, ranges)` + `setParameterVector(ps)`: a `WeightedSumKernel` over
`SubrangeKernelWrapper(kernel_i, start_i, end_i)` -/
def subrangeKernel (ps : List α) (terms : List (Nat × Nat × Kern α)) : Kern α :=
  wsumOfParams exp ps (terms.map fun t => .subrange t.1 t.2.1 t.2.2)

/-- `sum(response)`: row sums, then their sum -/
def matSum (M : Mat α) : α := (M.map fun row => row.foldl (· + ·) 0).foldl (· + ·) 0

/-- `(double)n` -/
def natS : Nat → α
  | 0 => 0
  | n + 1 => natS n + 1

/-- `PointSetKernel::eval(X, Z)`: the mean of the base kernel's block over two point sets -/
def pointSetEval (k : Kern α) (X Z : Mat α) : α :=
  matSum (k.evalBlock exp sqrt X Z) / natS (X.length * Z.length)

/-- `PointSetKernel::eval(batchX1, batchX2, result)`: an explicit double loop over the sets -/
def pointSetBlock (k : Kern α) (B1 B2 : List (Mat α)) : Mat α :=
  B1.map fun X => B2.map fun Z => pointSetEval exp sqrt k X Z
end

/-! ### DiscreteKernel (inputs are indices into a table) -/
section
variable {α : Type} [OfNat α 0]

/-- `DiscreteKernel::eval(x1, x2) = m_matrix(x1, x2)` -/
def discreteEval (table : Mat α) (i j : Nat) : α := (table.getD i []).getD j 0

/-- `DiscreteKernel::eval(batchX1, batchX2, result)` — as repaired:
`result(i,j) = m_matrix(batchX1(i), batchX2(j))` -/
def discreteBlock (table : Mat α) (is js : List Nat) : List (List α) :=
  is.map fun i => js.map fun j => discreteEval table i j
end

/-! ### Blockwise Gram assembly (KernelHelpers.h)

`calculateRegularizedKernelMatrix(kernel, dataset, matrix, regularizer)` and
`calculateMixedKernelMatrix(kernel, dataset1, dataset2, matrix)`: for every pair of
batches `(i, j)` the block `kernel(batch_i, batch_j)` is written to
`subrange(matrix, start_i, end_i, start_j, end_j)`; afterwards `regularizer` is added
on the diagonal.  Matrices are functions `row → column → value`, a block write is a
function update; offsets are the running sums of the batch sizes (`batchStart`).
Generic in the point type `β` and in the block evaluation `kb`. -/
section
variable {α β : Type} [Add α] [OfNat α 0]

abbrev MatF (α : Type) := Nat → Nat → α

/-- `noalias(subrange(matrix, sx, sx+rows, sy, sy+cols)) = sub` -/
def writeBlock (M : MatF α) (sx sy : Nat) (sub : List (List α)) : MatF α :=
  fun r c =>
    if sx ≤ r ∧ r < sx + sub.length then
      let row := sub.getD (r - sx) []
      if sy ≤ c ∧ c < sy + row.length then row.getD (c - sy) 0 else M r c
    else M r c

/-- inner loop over the column batches `j` (offset `sy` = `batchStart[j]`) -/
def fillRow (kb : List β → List β → List (List α)) (bi : List β) (sx : Nat) :
    List (List β) → Nat → MatF α → MatF α
  | [], _, M => M
  | bj :: rest, sy, M => fillRow kb bi sx rest (sy + bj.length) (writeBlock M sx sy (kb bi bj))

/-- `matrix(k,k) += regularizer` for `k ∈ [sx, ex)` -/
def addDiag (M : MatF α) (sx ex : Nat) (reg : α) : MatF α :=
  fun r c => if r = c ∧ sx ≤ r ∧ r < ex then M r c + reg else M r c

/-- outer loop of `calculateRegularizedKernelMatrix` over the row batches `i` -/
def fillGram (kb : List β → List β → List (List α)) (reg : α) (all : List (List β)) :
    List (List β) → Nat → MatF α → MatF α
  | [], _, M => M
  | bi :: rest, sx, M =>
      fillGram kb reg all rest (sx + bi.length)
        (addDiag (fillRow kb bi sx all 0 M) sx (sx + bi.length) reg)

/-- `calculateRegularizedKernelMatrix` on a dataset given as its list of batches -/
def regularizedGram (kb : List β → List β → List (List α)) (reg : α) (batches : List (List β)) : MatF α :=
  fillGram kb reg batches batches 0 (fun _ _ => 0)

/-- outer loop of `calculateMixedKernelMatrix` -/
def fillMixed (kb : List β → List β → List (List α)) (cols : List (List β)) :
    List (List β) → Nat → MatF α → MatF α
  | [], _, M => M
  | bi :: rest, sx, M => fillMixed kb cols rest (sx + bi.length) (fillRow kb bi sx cols 0 M)

/-- `calculateMixedKernelMatrix` -/
def mixedGram (kb : List β → List β → List (List α)) (b1 b2 : List (List β)) : MatF α :=
  fillMixed kb b2 b1 0 (fun _ _ => 0)

/-- read an `n × m` window of a function matrix as rows -/
def MatF.toRows (M : MatF α) (n m : Nat) : List (List α) :=
  (List.range n).map fun r => (List.range m).map fun c => M r c

/-- split a list of points into consecutive batches of the given sizes -/
def splitSizes (xs : List β) : List Nat → List (List β)
  | [] => []
  | s :: ss => xs.take s :: splitSizes (xs.drop s) ss
end

end SharkVerif.Kernels
