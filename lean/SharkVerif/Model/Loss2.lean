/-
C06, second part of the loss models: the classes of include/shark/ObjectiveFunctions/Loss/ and the
cost functions of NegativeAUC.h that `Model/Loss.lean` does not cover:

* `AbsoluteLoss`, `DiscreteLoss` (+ `defineBalancedCost`), `SquaredLoss<Sequence,Sequence>`,
* `CrossEntropy` with probability-vector labels (its batch code is written with remora
  row reductions), the single-element derivative overload of the class-label `CrossEntropy`
  and its second-derivative overload,
* `SquaredHingeLoss::evalDerivative` (both branches),
* `ZeroOneLoss<unsigned,unsigned>` and the weighted `ZeroOneLoss::eval(Data,Data,weights)`,
* `AbstractLoss::eval(Data,Data)` (the `AbstractCost` interface: parallel loop over the batches,
  partial sums merged under the lock, divided by the number of elements),
* `NegativeAUC::eval` (sort + trapezoid sweep) and `NegativeWilcoxonMannWhitneyStatistic::eval`.

Core Lean only.
-/
import SharkVerif.Model.Loss
namespace SharkVerif.Loss
open Scalar
variable {α : Type} [Scalar α]

/-! ### AbsoluteLoss: `Σ_i distance(p_i, l_i)` (no derivative) -/
def absoluteRow (sqrt : α → α) (l p : List α) : α := sqrt (normSqr (zipSub p l))
def absoluteEval (sqrt : α → α) (labels preds : List (List α)) : α :=
  sumL (List.zipWith (absoluteRow sqrt) labels preds)

/-! ### DiscreteLoss: `Σ_i cost(target_i, prediction_i)` -/
def discreteEval (cost : Nat → Nat → α) (labels preds : List Nat) : α :=
  sumL (List.zipWith cost labels preds)
/-- `defineBalancedCost`: `c_i = 1` for an absent class, else `ic / (classes·freq_i)`; zero diagonal -/
def balancedCost (classes : Nat) (labels : List Nat) (i j : Nat) : α :=
  let freq := (labels.filter (· = i)).length
  let c : α := if freq = 0 then 1 else ofNat labels.length / ofNat (classes * freq)
  if i = j then 0 else c

/-! ### SquaredLoss<Sequence,Sequence>: a batch is a list of sequences of vectors -/
def distanceSqr (a b : List α) : α := normSqr (zipSub a b)
/-- `eval`: one running sum over all sequences and all their elements `j ≥ ignore`, halved at the end -/
def squaredSeqEval (ignore : Nat) (labels preds : List (List (List α))) : α :=
  half * sumL ((List.zipWith (fun l p => (List.zipWith (fun lj pj => distanceSqr pj lj) l p).drop ignore) labels preds).flatten)
/-- `evalDerivative`: adds `0.5·distanceSqr` term by term; gradient zero on the ignored prefix -/
def squaredSeqEvalDerivative (ignore : Nat) (labels preds : List (List (List α))) : α × List (List (List α)) :=
  (sumL ((List.zipWith (fun l p => (List.zipWith (fun lj pj => half * distanceSqr pj lj) l p).drop ignore) labels preds).flatten),
   List.zipWith (fun l p => (List.zipWith (fun lj pj => (lj, pj)) l p).zipIdx.map fun (lp, j) =>
      if j < ignore then lp.2.map fun _ => (0 : α) else zipSub lp.2 lp.1) labels preds)

/-! ### CrossEntropy with probability-vector labels -/
/-- `sum(log(norm)) − sum(target*prediction) + sum(maximum)` with the row maxima / row norms -/
def ceSoftEval (exp log : α → α) (labels preds : List (List α)) : α :=
  let maxs := preds.map maxL
  let norms := List.zipWith (fun p m => sumL (p.map fun x => exp (x - m))) preds maxs
  sumL (norms.map log) - sumL ((List.zipWith (List.zipWith (· * ·)) labels preds).flatten) + sumL maxs
def ceSoftGradRow (exp : α → α) (l p : List α) : List α :=
  let m := maxL p
  let e := p.map fun x => exp (x - m)
  let norm := sumL e
  List.zipWith (fun g t => g / norm - t) e l
def ceSoftEvalDerivative (exp log : α → α) (labels preds : List (List α)) : α × List (List α) :=
  (ceSoftEval exp log labels preds, List.zipWith (ceSoftGradRow exp) labels preds)

/-! ### CrossEntropy (class labels): second-derivative overload (single element)

value and gradient as in the single-element first-derivative overload; Hessian `σ(1−σ)` for one
output, `diag(s) − s sᵀ` (softmax `s`) otherwise.  This is the model of what the overload is meant
to compute: on the checked tree it cannot be instantiated (finding F-C06-2), the harness reaches it
through the `AbstractLoss` interface. -/
def ceHessian (exp log : α → α) (c : Nat) (p : List α) : α × List α × List (List α) :=
  if p.length = 1 then
    let label : α := two * ofNat c - 1
    let exponential := exp (-label * p.getD 0 0)
    let sigmoid := 1 / (1 + exponential)
    (ceEvalError log label exponential (p.getD 0 0), [-label * (1 - sigmoid)], [[sigmoid * (1 - sigmoid)]])
  else
    let m := maxL p
    let e := p.map fun x => exp (x - m)
    let norm := sumL e
    let g := e.map fun x => x / norm
    (log norm - p.getD c 0 + m,
     (List.range g.length).map (fun o => if o = c then g.getD o 0 - 1 else g.getD o 0),
     (List.range g.length).map fun i => (List.range g.length).map fun j =>
        if i = j then -(g.getD i 0 * g.getD j 0) + g.getD i 0 else -(g.getD i 0 * g.getD j 0))

/-! ### SquaredHingeLoss::evalDerivative -/
def sqHingeGradRowMulti (c : Nat) (p : List α) : List α :=
  let s (o : Nat) : α := smax 0 (two - p.getD c 0 + p.getD o 0)
  let quarter : α := Scalar.dyadic 1 2
  (List.range p.length).map fun o =>
    if o = c then ((List.range p.length).filter (· ≠ c)).foldl (fun g o' => if 0 < s o' then g - s o' * quarter else g) 0
    else if 0 < s o then s o * quarter else 0
def sqHingeEvalDerivative (labels : List Nat) (preds : List (List α)) : α × List (List α) :=
  match preds with
  | [] => (0 / two, [])
  | p0 :: _ =>
    if p0.length = 1 then
      (sumL (List.zipWith (fun c p => sqr (hingeRowBinary c p)) labels preds) / two,
       List.zipWith sqHingeGradRowBinary labels preds)
    else
      (sumL ((List.zipWith (fun c p =>
          ((List.range p.length).filter (· ≠ c)).map fun o => sqr (smax 0 (two - p.getD c 0 + p.getD o 0)))
          labels preds).flatten) / ofNat 4 / two,
       List.zipWith sqHingeGradRowMulti labels preds)

/-! ### ZeroOneLoss with label predictions, and the weighted data-set overload -/
def zeroOneLabelEval (labels preds : List Nat) : α :=
  sumL (List.zipWith (fun l p => if p ≠ l then (1 : α) else 0) labels preds)
/-- `eval(targets, predictions, weights)`: one weight per *element* (the SIZE_CHECKs demand
`weights.size() = numberOfElements`), divided by the number of elements.  `batches` = per batch the
list of (label, prediction row); `weights` in element order. -/
def zeroOneWeightedEval (threshold : α) (batches : List (List (Nat × List α))) (weights : List α) : α :=
  let elems := batches.flatten
  sumL (List.zipWith (fun w e => w * zeroOneRow threshold e.1 e.2) weights elems) / ofNat weights.length

/-! ### AbstractLoss::eval(Data, Data): parallel loop over the batches, any merge order -/
def costEval (batchLoss : Nat → α) (order : List Nat) (numElements : α) : α :=
  sumL (order.map batchLoss) / numElements

/-! ### NegativeAUC -/
/-- insertion into a list sorted by decreasing key (`std::sort` with `std::greater`; the order
inside a group of equal keys does not influence the sweep) -/
def insertDesc (x : α × Nat) : List (α × Nat) → List (α × Nat)
  | [] => [x]
  | y :: ys => if y.1 < x.1 then x :: y :: ys else y :: insertDesc x ys
def sortDesc (l : List (α × Nat)) : List (α × Nat) := l.foldr insertDesc []

def trapArea (x1 x2 y1 y2 : α) : α := sabs (x1 - x2) * ((y1 + y2) / two)

structure AucState (α : Type) where
  A : α
  TP : Nat
  FP : Nat
  TPPrev : Nat
  FPPrev : Nat
  prev : Option α          -- `predictionPrev` (`none` = the initial `-max double`)

/-- one iteration of the sweep over the sorted list -/
def aucStep (P N : Nat) (s : AucState α) (x : α × Nat) : AucState α :=
  let differs : Bool := match s.prev with
    | none => true
    | some q => decide (x.1 < q) || decide (q < x.1)
  let s1 : AucState α :=
    if differs then
      { s with A := s.A + trapArea (ofNat s.FP / ofNat N) (ofNat s.FPPrev / ofNat N) (ofNat s.TP / ofNat P) (ofNat s.TPPrev / ofNat P),
               prev := some x.1, FPPrev := s.FP, TPPrev := s.TP }
    else s
  if 0 < x.2 then { s1 with TP := s1.TP + 1 } else { s1 with FP := s1.FP + 1 }

/-- `NegativeAUC::eval(target, prediction, column)` on the list of (score, label) pairs -/
def negativeAUC (invert : Bool) (elems : List (α × Nat)) : α :=
  let P := (elems.filter fun e => 0 < e.2).length
  let N := elems.length - P
  let L : List (α × Nat) := sortDesc (elems.map fun (e : α × Nat) => (((if invert then -e.1 else e.1) : α), e.2))
  let s : AucState α := L.foldl (aucStep P N) ({ A := 0, TP := 0, FP := 0, TPPrev := 0, FPPrev := 0, prev := none } : AucState α)
  Neg.neg (s.A + trapArea (ofNat s.FP / ofNat N) (ofNat s.FPPrev / ofNat N) (ofNat s.TP / ofNat P) (ofNat s.TPPrev / ofNat P))

/-- Wilcoxon–Mann–Whitney: `−#{(i,j) : pos_i > neg_j} / (n·m)` (the C++ counts, per positive, the
negatives below it in the sorted list and stops at the first that is not) -/
def negativeWMW (invert : Bool) (elems : List (α × Nat)) : α :=
  let sc (e : α × Nat) : α := if invert then -e.1 else e.1
  let pos := (elems.filter fun e => 0 < e.2).map sc
  let neg := (elems.filter fun e => ¬ 0 < e.2).map sc
  let cnt := (pos.map fun p => (neg.filter fun q => q < p).length).sum
  Neg.neg (ofNat cnt) / ofNat (neg.length * pos.length)

end SharkVerif.Loss
