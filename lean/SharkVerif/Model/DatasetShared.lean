/-
Sharing model of shark::Data / LabeledData / DataView: the `boost::shared_ptr` batch lists of
`detail::SharedContainer` (Impl/Dataset.inl) made explicit.

A *heap* holds the batches (address = index, cells are never freed: a cell nobody points to is
garbage); a container is a list of addresses plus its shape.  Copying a container copies the
address list (the batches are shared), `append` / `indexedSubset` / `DataView(dataset)` share,
`push_back`, `reorderElements`, `transform`, `toDataset`, `makeIndependent` (if shared) allocate
fresh cells, `splitBatch` / `splice` / `repartition` first demand independence
(`SHARK_RUNTIME_CHECK(isIndependent())`: every address has use-count 1, counted over *all* live
holders) and then re-seat addresses, and writing through a non-const element proxy
(`data.element(i) = x`, `view[i] = x`) overwrites the cell in place -- visible in every holder of that cell.

The value-level meaning of a container is `PData.resolve`; `Lemmas/DatasetShared.lean` proves that
every structural operation resolves to the operation of `Model/Dataset.lean` and leaves the
resolution of every other container unchanged (isolation), and characterises the in-place writes.

Core Lean only (linked into the native driver `drv_c03`).
-/
import SharkVerif.Model.Dataset
namespace SharkVerif.Dataset.Shared
open SharkVerif.Dataset

variable {β ι κ : Type}

/-- the batches living behind the shared pointers; address = position -/
abbrev Heap (β : Type) := List (List β)

def cell (h : Heap β) (a : Nat) : List β := h.getD a []

/-- `SharedContainer::m_data` (addresses) + `Data::m_shape` -/
structure PData where
  ptrs : List Nat
  shape : Shape := []
  deriving Repr, DecidableEq

namespace PData

def empty : PData := { ptrs := [] }
/-- the value this container denotes -/
def resolve (h : Heap β) (p : PData) : Data β := { batches := p.ptrs.map (cell h), shape := p.shape }
/-- every address points into the heap -/
def valid (h : Heap β) (p : PData) : Prop := ∀ a ∈ p.ptrs, a < h.length

end PData

/-- `boost::make_shared<BatchType>(…)` for every batch of a value: fresh cells at the end of the heap -/
def alloc (h : Heap β) (d : Data β) : Heap β × PData :=
  (h ++ d.batches, { ptrs := List.range' h.length d.batches.length, shape := d.shape })

/-- use-count of an address: occurrences in all live holders -/
def useCount (holders : List (List Nat)) (a : Nat) : Nat := (holders.map (·.count a)).sum

/-- `SharedContainer::isIndependent()`: every `shared_ptr` is `unique()` -/
def independent (uc : Nat → Nat) (p : PData) : Bool := p.ptrs.all (fun a => uc a == 1)

/-- `SHARK_RUNTIME_CHECK(isIndependent(), "Container is not Independent")` -/
def guardIndep (uc : Nat → Nat) (p : PData) : R Unit :=
  if independent uc p then .ok () else .error .exception

/-- `SharedContainer::makeIndependent()`: deep copy of every batch iff some batch is shared -/
def makeIndependent (h : Heap β) (uc : Nat → Nat) (p : PData) : Heap β × PData :=
  if independent uc p then (h, p) else alloc h (p.resolve h)

/-- `SharedContainer::splitBatch`: the split batch is replaced by two fresh batches, the others keep their address -/
def splitBatch (h : Heap β) (uc : Nat → Nat) (p : PData) (b k : Nat) : R (Heap β × PData) := do
  let a ← ofOpt p.ptrs[b]?
  let src := cell h a
  require (k ≤ src.length)
  guardIndep uc p
  if k = 0 ∨ k = src.length then pure (h, p)
  else pure (h ++ [src.take k, src.drop k],
             { p with ptrs := p.ptrs.take b ++ [h.length, h.length + 1] ++ p.ptrs.drop (b + 1) })

/-- `SharedContainer::splice`: the addresses from `b` on move to the result -/
def splice (uc : Nat → Nat) (p : PData) (b : Nat) : R (PData × PData) := do
  require (b ≤ p.ptrs.length)
  guardIndep uc p
  pure ({ p with ptrs := p.ptrs.take b }, { ptrs := p.ptrs.drop b, shape := p.shape })

/-- `SharedContainer::repartition`: all batches are rebuilt by the copy loop in fresh cells -/
def repartition (h : Heap β) (uc : Nat → Nat) (p : PData) (sizes : List Nat) : R (Heap β × PData) := do
  let d := p.resolve h
  require (sizes.sum = d.numberOfElements)
  require (d.nonEmptyBatches && sizes.all (· > 0))
  guardIndep uc p
  pure (alloc h (← d.repartitionByLoop sizes))

/-- `SharedContainer::append`: the addresses of `o` are appended (shared from now on) -/
def append (p o : PData) : PData := { p with ptrs := p.ptrs ++ o.ptrs }

/-- `SharedContainer::push_back(batch)`: a fresh copy of the batch -/
def pushBack (h : Heap β) (p : PData) (batch : List β) : Heap β × PData :=
  (h ++ [batch], { p with ptrs := p.ptrs ++ [h.length] })

/-- `SharedContainer(container, indizes)`: shares the listed batches -/
def indexedSubset (p : PData) (idx : List Nat) : R PData := do
  pure { ptrs := ← idx.mapM fun i => ofOpt p.ptrs[i]?, shape := p.shape }

/-- `Data::indexedSubset(indices, subset, complement)`: the out-parameters keep their old shape (fresh: none) -/
def indexedSubsetCompl (p : PData) (idx : List Nat) : R (PData × PData) := do
  let s ← indexedSubset p idx
  let c ← indexedSubset p (Data.complement idx p.ptrs.length)
  pure ({ s with shape := [] }, { c with shape := [] })

/-- `Data::reorderElements`: a new container with fresh batches is built and assigned to `*this` -/
def reorderElements (h : Heap β) (p : PData) (idx : List Nat) : R (Heap β × PData) := do
  pure (alloc h (← (p.resolve h).reorderElements idx))

/-- `transform(data, f)`: fresh batches (possibly of another element type, hence another heap) -/
def transform {γ : Type} (h : Heap β) (h' : Heap γ) (p : PData) (f : β → γ) (sh : Shape) : Heap γ × PData :=
  alloc h' ((p.resolve h).transform f sh)

/-- `data.element(i) = x` through the non-const element proxy: the cell is overwritten in place -/
def setElement (h : Heap β) (p : PData) (i : Nat) (x : β) : R (Heap β) := do
  let d := p.resolve h
  require (i < d.numberOfElements)
  let it ← ofOpt (Iter.begin.advance d.partitioning i)
  let a ← ofOpt p.ptrs[it.batch]?
  require (a < h.length && it.elem < (cell h a).length)
  pure (h.set a ((cell h a).set it.elem x))

/-- `view[i] = x` / `getBatchElement(data.batch(b), o) = x` -/
def setAt (h : Heap β) (p : PData) (b o : Nat) (x : β) : R (Heap β) := do
  let a ← ofOpt p.ptrs[b]?
  require (a < h.length && o < (cell h a).length)
  pure (h.set a ((cell h a).set o x))

/-! ### LabeledData and DataView over shared batches; the world of all live holders -/

structure PLabeled where
  inputs : PData
  labels : PData
  deriving Repr, DecidableEq

def PLabeled.empty : PLabeled := ⟨PData.empty, PData.empty⟩
def PLabeled.resolve (hi : Heap ι) (hl : Heap κ) (p : PLabeled) : LabeledData ι κ :=
  ⟨p.inputs.resolve hi, p.labels.resolve hl⟩

/-- `DataView`: owns a *copy* of the dataset object (a further holder of its batches) and the index table -/
structure PView where
  ds : PLabeled
  indices : List ViewIndex
  deriving Repr

/-- everything that is alive: both heaps, the dataset objects (slots) and the views -/
structure World (ι κ : Type) where
  hi : Heap ι := []
  hl : Heap κ := []
  d : List PLabeled := []
  v : List (Option PView) := []

namespace World

def holdersI (w : World ι κ) : List (List Nat) :=
  w.d.map (·.inputs.ptrs) ++ w.v.map (fun o => match o with | some pv => pv.ds.inputs.ptrs | none => [])
def holdersL (w : World ι κ) : List (List Nat) :=
  w.d.map (·.labels.ptrs) ++ w.v.map (fun o => match o with | some pv => pv.ds.labels.ptrs | none => [])
def ucI (w : World ι κ) : Nat → Nat := useCount w.holdersI
def ucL (w : World ι κ) : Nat → Nat := useCount w.holdersL

def slot (w : World ι κ) (a : Nat) : R PLabeled := ofOpt w.d[a]?
def setSlot (w : World ι κ) (a : Nat) (p : PLabeled) : World ι κ := { w with d := w.d.set a p }
def view (w : World ι κ) (k : Nat) : R PView := match w.v[k]? with
  | some (some pv) => .ok pv
  | _ => .error .undefined
/-- the value of slot `a` -/
def value (w : World ι κ) (a : Nat) : LabeledData ι κ := (w.d.getD a PLabeled.empty).resolve w.hi w.hl

/-- `D[b] = D[a]` (copy constructor / assignment of `LabeledData`): the batches are shared -/
def copy (w : World ι κ) (a b : Nat) : R (World ι κ) := do
  let p ← w.slot a
  require (b < w.d.length)
  pure (w.setSlot b p)

/-- `swap(D[a], D[b])` -/
def swap (w : World ι κ) (a b : Nat) : R (World ι κ) := do
  let p ← w.slot a
  let q ← w.slot b
  pure ((w.setSlot a q).setSlot b p)

/-- `LabeledData::makeIndependent()`: labels, then inputs -/
def makeIndependent (w : World ι κ) (a : Nat) : R (World ι κ) := do
  let p ← w.slot a
  let (hl, l) := Shared.makeIndependent w.hl w.ucL p.labels
  let (hi, i) := Shared.makeIndependent w.hi w.ucI p.inputs
  pure { w with hi := hi, hl := hl, d := w.d.set a ⟨i, l⟩ }

/-- `LabeledData::splitBatch`: inputs, then labels.  A failed independence check is reported as an exception that
leaves the world unchanged (the strong guarantee; where the C++ gives less see finding F-C03-15) -/
def splitBatch (w : World ι κ) (a b k : Nat) : R (World ι κ) := do
  let p ← w.slot a
  let (hi, i) ← Shared.splitBatch w.hi w.ucI p.inputs b k
  let (hl, l) ← Shared.splitBatch w.hl w.ucL p.labels b k
  pure { w with hi := hi, hl := hl, d := w.d.set a ⟨i, l⟩ }

/-- the constructor `LabeledData(inputs, labels)` on resolved containers -/
def mkChecked (hi : Heap ι) (hl : Heap κ) (p : PLabeled) : R PLabeled :=
  if (p.inputs.resolve hi).numberOfElements = (p.labels.resolve hl).numberOfElements then .ok p else .error .exception

/-- `D[b] = D[a].splice(k)` -/
def splice (w : World ι κ) (a b k : Nat) : R (World ι κ) := do
  let p ← w.slot a
  require (b < w.d.length && a != b)
  let (il, ir) ← Shared.splice w.ucI p.inputs k
  let (ll, lr) ← Shared.splice w.ucL p.labels k
  let r ← mkChecked w.hi w.hl ⟨ir, lr⟩
  pure ((w.setSlot a ⟨il, ll⟩).setSlot b r)

def repartition (w : World ι κ) (a : Nat) (sizes : List Nat) : R (World ι κ) := do
  let p ← w.slot a
  let (hi, i) ← Shared.repartition w.hi w.ucI p.inputs sizes
  let (hl, l) ← Shared.repartition w.hl w.ucL p.labels sizes
  pure { w with hi := hi, hl := hl, d := w.d.set a ⟨i, l⟩ }

/-- `D[b] = splitAtElement(D[a], k)`: scan, `splitBatch`, `splice` -/
def splitAtElement (w : World ι κ) (a b k : Nat) : R (World ι κ) := do
  let p ← w.slot a
  require (b < w.d.length && a != b)
  let d := p.resolve w.hi w.hl
  require (k ≤ d.numberOfElements)
  let (batchPos, batchStart) ← ofOpt (LabeledData.splitScan d.partitioning 0 0 k)
  let splitPoint ← ofOpt (CheckedNat.csub k batchStart)
  if splitPoint ≠ 0 then
    let w ← w.splitBatch a batchPos splitPoint
    w.splice a b (batchPos + 1)
  else w.splice a b batchPos

/-- `D[a].append(D[b])` -/
def append (w : World ι κ) (a b : Nat) : R (World ι κ) := do
  let p ← w.slot a
  let q ← w.slot b
  pure (w.setSlot a ⟨Shared.append p.inputs q.inputs, Shared.append p.labels q.labels⟩)

/-- `D[a].push_back(D[b].batch(i))` -/
def pushBack (w : World ι κ) (a b i : Nat) : R (World ι κ) := do
  let p ← w.slot a
  let q ← w.slot b
  let ai ← ofOpt q.inputs.ptrs[i]?
  let al ← ofOpt q.labels.ptrs[i]?
  let (hi, pi) := Shared.pushBack w.hi p.inputs (cell w.hi ai)
  let (hl, pl) := Shared.pushBack w.hl p.labels (cell w.hl al)
  pure { w with hi := hi, hl := hl, d := w.d.set a ⟨pi, pl⟩ }

/-- `D[b] = D[a].indexedSubset(idx)` -/
def indexedSubset (w : World ι κ) (a b : Nat) (idx : List Nat) : R (World ι κ) := do
  let p ← w.slot a
  require (b < w.d.length)
  let r ← mkChecked w.hi w.hl ⟨← Shared.indexedSubset p.inputs idx, ← Shared.indexedSubset p.labels idx⟩
  pure (w.setSlot b r)

/-- `Data::indexedSubset(idx, sub, compl)` on inputs and on labels, reassembled with `LabeledData(inputs, labels)` -/
def indexedSubsetCompl (w : World ι κ) (a b c : Nat) (idx : List Nat) : R (World ι κ) := do
  let p ← w.slot a
  require (b < w.d.length && c < w.d.length && b != c)
  let (si, ci) ← Shared.indexedSubsetCompl p.inputs idx
  let (sl, cl) ← Shared.indexedSubsetCompl p.labels idx
  let s ← mkChecked w.hi w.hl ⟨si, sl⟩
  let c' ← mkChecked w.hi w.hl ⟨ci, cl⟩
  pure ((w.setSlot b s).setSlot c c')

def reorderElements (w : World ι κ) (a : Nat) (idx : List Nat) : R (World ι κ) := do
  let p ← w.slot a
  let (hi, i) ← Shared.reorderElements w.hi p.inputs idx
  let (hl, l) ← Shared.reorderElements w.hl p.labels idx
  pure { w with hi := hi, hl := hl, d := w.d.set a ⟨i, l⟩ }

/-- store a freshly built value (results of `createLabeledDataFromRange`, `toDataset`, `subBatch`, …) in slot `a` -/
def store (w : World ι κ) (a : Nat) (x : LabeledData ι κ) : R (World ι κ) := do
  require (a < w.d.length)
  let (hi, i) := alloc w.hi x.inputs
  let (hl, l) := alloc w.hl x.labels
  pure { w with hi := hi, hl := hl, d := w.d.set a ⟨i, l⟩ }

/-- `D[b] = transformInputs(D[a], f)`: fresh inputs, the label batches are shared with `D[a]` -/
def transformInputs (w : World ι κ) (a b : Nat) (f : ι → ι) (sh : Shape) : R (World ι κ) := do
  let p ← w.slot a
  require (b < w.d.length)
  let (hi, i) := Shared.transform w.hi w.hi p.inputs f sh
  let r ← mkChecked hi w.hl ⟨i, p.labels⟩
  pure { w with hi := hi, d := w.d.set b r }

/-- `D[b] = transformLabels(D[a], f)`: fresh labels, the input batches are shared with `D[a]` -/
def transformLabels (w : World ι κ) (a b : Nat) (f : κ → κ) (sh : Shape) : R (World ι κ) := do
  let p ← w.slot a
  require (b < w.d.length)
  let (hl, l) := Shared.transform w.hl w.hl p.labels f sh
  let r ← mkChecked w.hi hl ⟨p.inputs, l⟩
  pure { w with hl := hl, d := w.d.set b r }

/-- `UnlabeledData<I> u = D[a].inputs(); u.reorderElements(idx) /* u.shuffle() */; D[b] = LabeledData(u, D[a].labels())`:
the operation on the `UnlabeledData` flavour alone -- fresh input batches, the label batches are shared with `D[a]` -/
def reorderInputs (w : World ι κ) (a b : Nat) (idx : List Nat) : R (World ι κ) := do
  let p ← w.slot a
  require (b < w.d.length)
  let (hi, i) ← Shared.reorderElements w.hi p.inputs idx
  let r ← mkChecked hi w.hl ⟨i, p.labels⟩
  pure { w with hi := hi, d := w.d.set b r }

/-- `D[a].element(i) = (x, y)` through the non-const element proxy -/
def setElement (w : World ι κ) (a i : Nat) (x : ι) (y : κ) : R (World ι κ) := do
  let p ← w.slot a
  let hi ← Shared.setElement w.hi p.inputs i x
  let hl ← Shared.setElement w.hl p.labels i y
  pure { w with hi := hi, hl := hl }

/-- `DataView(D[a])`: the view keeps a copy of the dataset object -/
def mkView (w : World ι κ) (k a : Nat) : R (World ι κ) := do
  let p ← w.slot a
  require (k < w.v.length)
  let ix := (View.ofDataset (p.resolve w.hi w.hl)).indices
  pure { w with v := w.v.set k (some ⟨p, ix⟩) }

def resolveView (w : World ι κ) (pv : PView) : View ι κ := ⟨pv.ds.resolve w.hi w.hl, pv.indices⟩

/-- `V[k2] = subset(V[k], idx)`: another copy of the dataset object -/
def viewSubset (w : World ι κ) (k k2 : Nat) (idx : List Nat) : R (World ι κ) := do
  let pv ← w.view k
  require (k2 < w.v.length)
  let s ← (w.resolveView pv).subset idx
  pure { w with v := w.v.set k2 (some ⟨pv.ds, s.indices⟩) }

/-- `V[k][i] = (x, y)` through a view over a non-const dataset: overwrites the cell the dataset(s) share -/
def viewSet (w : World ι κ) (k i : Nat) (x : ι) (y : κ) : R (World ι κ) := do
  let pv ← w.view k
  let ix ← ofOpt pv.indices[i]?
  let hi ← Shared.setAt w.hi pv.ds.inputs ix.batch ix.positionInBatch x
  let hl ← Shared.setAt w.hl pv.ds.labels ix.batch ix.positionInBatch y
  pure { w with hi := hi, hl := hl }

/-! ### class-label operations on shared batches (`LabeledData<I, unsigned int>`) -/

/-- `repartitionByClass(D[a], bs)`: `repartition` (demands independence) followed by `reorderElements` -/
def repartitionByClass (w : World ι Nat) (a bs : Nat) : R (World ι Nat) := do
  let classCounts ← classSizes (w.value a).labels
  let (_, _classStart, partitioning) ← ofOpt (SharkVerif.Gen.BatchArith.batchPartitioning classCounts [] [] bs)
  let w ← w.repartition a partitioning
  let labs ← ofOpt ((w.value a).container.elementsFwd.mapM id)
  w.reorderElements a (classOrder (labs.map (·.2)) classCounts.length)

/-- `D[b] = binarySubProblem(D[a], c0, c1)`: the input batches of the two classes are shared with `D[a]`,
the labels are fresh -/
def binarySubProblem (w : World ι Nat) (a b c0 c1 : Nat) : R (World ι Nat) := do
  let p ← w.slot a
  require (b < w.d.length)
  let idx ← binaryIndexSet (p.resolve w.hi w.hl) c0 c1
  let si ← Shared.indexedSubset p.inputs idx
  let sl ← Shared.indexedSubset p.labels idx
  let sub ← mkChecked w.hi w.hl ⟨si, sl⟩
  let (hl, l) := Shared.transform w.hl w.hl sub.labels (fun l => if l = c1 then 1 else 0) []
  let r ← mkChecked w.hi hl ⟨sub.inputs, l⟩
  pure { w with hl := hl, d := w.d.set b r }

end World

end SharkVerif.Dataset.Shared
