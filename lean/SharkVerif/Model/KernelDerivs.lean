/-
Executable model of `weightedParameterDerivative` / `weightedInputDerivative` of
`LinearKernel`, `PolynomialKernel` (degree not a parameter, offset encoded directly) and
`GaussianRbfKernel` (γ encoded directly), plus the *specification* they are compared with:
`weightedSum κ C X1 X2 = Σᵢ Σⱼ Cᵢⱼ · κ(x1ᵢ, x2ⱼ)`, "the weighted sum of kernel values".

Core Lean only; run by `drv_c05` at `Rat` and `Float` next to the C++.
-/
import SharkVerif.Model.Kernels
namespace SharkVerif.Kernels

section
variable {α : Type} [Add α] [Sub α] [Mul α] [Div α] [Neg α] [OfNat α 0] [OfNat α 1] [BEq α]

/-- `Σⱼ f(cⱼ, zⱼ)` over a coefficient row and the batch `X2` -/
def sumRow (f : α → Point α → α) : List α → Mat α → α
  | c :: cs, z :: zs => f c z + sumRow f cs zs
  | _, _ => 0

/-- `Σᵢ Σⱼ f(Cᵢⱼ, x1ᵢ, x2ⱼ)` -/
def sumBlock (f : α → Point α → Point α → α) : Mat α → Mat α → Mat α → α
  | crow :: C, x :: X1, X2 => sumRow (fun c z => f c x z) crow X2 + sumBlock f C X1 X2
  | _, _, _ => 0

/-- the weighted sum of kernel values whose gradient the derivative functions return -/
def weightedSum (κ : Point α → Point α → α) (C X1 X2 : Mat α) : α :=
  sumBlock (fun c x z => c * κ x z) C X1 X2

/-- `(double)n` -/
def ofNatS : Nat → α
  | 0 => 0
  | n + 1 => ofNatS n + 1

/-- `safe_div(a, b, 0.0)` -/
def safeDiv (a b : α) : α := if b == 0 then 0 else a / b

/-- `Σⱼ wⱼ · x2ⱼ[t]` — column `t` of `prod(w, X2)` for one weight row -/
def colSum (w : List α) (X2 : Mat α) (t : Nat) : α := sumRow (fun c z => c * z.getD t 0) w X2

/-- one row of `prod(W, batchX2)` -/
def gemmRow (w : List α) (X2 : Mat α) (dim : Nat) : List α := (List.range dim).map (colSum w X2)

/-- `LinearKernel::weightedInputDerivative`: `gradient = prod(coefficients, batchX2)` -/
def linearInputDeriv (C X1 X2 : Mat α) : Mat α :=
  List.zipWith (fun crow x => gemmRow crow X2 x.length) C X1

/-- `weights(i,j) = coeff(i,j) * safe_div(base^d, base, 0)` with `base = ⟨x,z⟩ + offset` -/
def polyWeights (d : Nat) (off : α) (crow : List α) (x : Point α) (X2 : Mat α) : List α :=
  List.zipWith (fun cij z => let b := dot x z + off; cij * safeDiv (powNat b d) b) crow X2

/-- row `i` of `PolynomialKernel::weightedInputDerivative` for degree ≠ 1: `d * prod(weights, X2)` -/
def polyInputRow (d : Nat) (off : α) (crow : List α) (x : Point α) (X2 : Mat α) : List α :=
  (gemmRow (polyWeights d off crow x X2) X2 x.length).map (ofNatS d * ·)

/-- `PolynomialKernel::weightedInputDerivative` -/
def polyInputDeriv (d : Nat) (off : α) (C X1 X2 : Mat α) : Mat α :=
  if d = 1 then linearInputDeriv C X1 X2
  else List.zipWith (fun crow x => polyInputRow d off crow x X2) C X1

/-- `PolynomialKernel::weightedParameterDerivative` (one parameter: the offset) -/
def polyParamDeriv (d : Nat) (off : α) (C X1 X2 : Mat α) : α :=
  if d = 1 then sumBlock (fun c _ _ => c) C X1 X2
  else ofNatS d * sumBlock (fun cij x z => let b := dot x z + off; safeDiv (powNat b d) b * cij) C X1 X2

variable (exp : α → α)

/-- `GaussianRbfKernel::weightedParameterDerivative`: `-sum(coefficients * expNorm * norm2)` -/
def gaussParamDeriv (γ : α) (C X1 X2 : Mat α) : α :=
  -(sumBlock (fun cij x z => let d := distSqr x z; cij * exp (-γ * d) * d) C X1 X2)

/-- `W(i,·) = coefficients(i,·) * expNorm(i,·)` -/
def gaussWeights (γ : α) (crow : List α) (x : Point α) (X2 : Mat α) : List α :=
  List.zipWith (fun cij z => cij * exp (-γ * distSqr x z)) crow X2

/-- row `i` of `GaussianRbfKernel::weightedInputDerivative`:
`(prod(W, X2)(i,·) − rowSum(W)(i) · x1ᵢ) · 2γ` -/
def gaussInputRow (γ : α) (crow : List α) (x : Point α) (X2 : Mat α) : List α :=
  let w := gaussWeights exp γ crow x X2
  let s := sumRow (fun c _ => c) w X2
  (List.range x.length).map fun t => (colSum w X2 t - s * x.getD t 0) * (two * γ)

/-- `GaussianRbfKernel::weightedInputDerivative` -/
def gaussInputDeriv (γ : α) (C X1 X2 : Mat α) : Mat α :=
  List.zipWith (fun crow x => gaussInputRow exp γ crow x X2) C X1

end

/-! ### ARDKernelUnconstrained: plain scalar loops over (i, j), modelled in the loop order of the C++ -/
section ard
variable {α : Type} [Add α] [Sub α] [Mul α] [Div α] [Neg α] [OfNat α 0] [OfNat α 1]
variable (exp : α → α)

/-- `gradient -= coeff * m_gammas * sqr(x - z)` for one pair, coordinate-wise -/
def ardParamStep (gs : List α) (coeff : α) (x z : Point α) (g : List α) : List α :=
  (List.range g.length).map fun t =>
    g.getD t 0 - coeff * gs.getD t 0 * ((x.getD t 0 - z.getD t 0) * (x.getD t 0 - z.getD t 0))

/-- inner loop over `j` -/
def ardParamRow (gs : List α) (x : Point α) : List α → Mat α → List α → List α
  | c :: cs, z :: zs, g => ardParamRow gs x cs zs (ardParamStep gs (c * exp (-(mahal gs x z))) x z g)
  | _, _, g => g

/-- `ARDKernelUnconstrained::weightedParameterDerivative` (parameters are `log γ`): outer loop over `i` -/
def ardParamDeriv (gs : List α) : Mat α → Mat α → Mat α → List α → List α
  | crow :: C, x :: X1, X2, g => ardParamDeriv gs C X1 X2 (ardParamRow exp gs x crow X2 g)
  | _, _, _, g => g

/-- `row(gradient,i) += coeff * m_gammas * (x - z)` for one pair -/
def ardInputStep (gs : List α) (coeff : α) (x z : Point α) (g : List α) : List α :=
  (List.range g.length).map fun t => g.getD t 0 + coeff * gs.getD t 0 * (x.getD t 0 - z.getD t 0)

def ardInputAcc (gs : List α) (x : Point α) : List α → Mat α → List α → List α
  | c :: cs, z :: zs, g => ardInputAcc gs x cs zs (ardInputStep gs (c * exp (-(mahal gs x z))) x z g)
  | _, _, g => g

/-- row `i` of `ARDKernelUnconstrained::weightedInputDerivative`: accumulate over `j`, then `*= -2.0` -/
def ardInputRow (gs : List α) (crow : List α) (x : Point α) (X2 : Mat α) : List α :=
  (ardInputAcc exp gs x crow X2 (gs.map fun _ => 0)).map (· * (-(two)))

def ardInputDeriv (gs : List α) (C X1 X2 : Mat α) : Mat α :=
  List.zipWith (fun crow x => ardInputRow exp gs crow x X2) C X1

/-- `ScaledKernel`: both derivatives are the base derivative times the factor (`gradient *= m_factor`) -/
def scaledGrad (factor : α) (g : List α) : List α := g.map (· * factor)

end ard

/-! ### WeightedSumKernel: derivative with respect to the log-weights -/
section wsumgrad
variable {α : Type} [Add α] [Sub α] [Mul α] [Div α] [Neg α] [OfNat α 0] [OfNat α 1]
variable (exp sqrt : α → α)

/-- `WeightedSumKernel::weightedParameterDerivative`, the weight part (sub-kernels not adaptive):
`gradient(i-1) = weight_i * (summedK_i * weightsum - numeratorSum) / sqr(weightsum)` for `i ≥ 1`, with
`summedK_i = sum(coefficients * K_i)` and `numeratorSum = sum(coefficients * Σ_i weight_i K_i)` -/
def wsumWeightGrad (ws : List α) (W : α) (ks : List (Kern α)) (C X1 X2 : Mat α) : List α :=
  let Ss := ks.map fun k => weightedSum (k.eval exp sqrt) C X1 X2
  let N := weightedSum (fun x z => wfold ws (evalList exp sqrt ks x z) 0) C X1 X2
  List.zipWith (fun w S => w * (S * W - N) / (W * W)) (ws.drop 1) (Ss.drop 1)
end wsumgrad

end SharkVerif.Kernels
