/-
Executable models of the selection of the k least / greatest hypervolume contributors
(`HypervolumeContribution2D::smallest/largest` with reference point, the common tail of
`HypervolumeContribution3D` and `HypervolumeContributionMD`) and of
`HypervolumeContributionMD` (restriction of the other points to the box of a point,
removal of the points that are not of rank 1, volume of the box minus the hypervolume
of the restricted set).  Core Lean only.
-/
import SharkVerif.Model.Hypervolume
namespace SharkVerif.HV
open SharkVerif.Pareto

/-- `(contribution, index)`: `KeyValuePair<double,std::size_t>`; all comparisons look at the key only -/
abbrev KV := Int × Nat

/-- `std::sort(result.begin(), result.end())`: ascending by key; the order among equal keys is unspecified
in the C++ (the theorems quantify over every key-sorted permutation), the model uses a merge sort -/
def sortKV (cs : List KV) : List KV := cs.mergeSort fun a b => decide (a.1 ≤ b.1)

/-- `std::sort(result); result.erase(result.begin()+k, result.end());` -/
def smallestOf (cs : List KV) (k : Nat) : List KV := (sortKV cs).take k

/-- `std::sort(result); result.erase(result.begin(), result.end()-k); std::reverse(result);` -/
def largestOf (cs : List KV) (k : Nat) : List KV := ((sortKV cs).drop (cs.length - k)).reverse

/-- `HypervolumeContribution2D::smallest(points, k, ref)`: `bestContributors` keeps the `k` smallest
contributions in a heap and returns them in ascending order (`std::sort_heap`) -/
def smallest2d (S : List Pt) (k : Nat) (r : Pt) : List KV := smallestOf (contribs2d S r) k

/-- `HypervolumeContribution2D::largest(points, k, ref)` (descending order) -/
def largest2d (S : List Pt) (k : Nat) (r : Pt) : List KV := largestOf (contribs2d S r) k

/-! ### HypervolumeContributionMD -/

/-- the compaction loop of `restrictSet`:
`while(pos != end){ if(ranks[pos]==1){++pos; continue;} --end; if(pos != end){swap(pointset[pos],pointset[end]); swap(ranks[pos],ranks[end]);} }`
(`end - pos` decreases in every iteration: `fuel = size` iterations suffice) -/
def compactGo : Nat → Array Pt → Array Nat → Nat → Nat → Array Pt × Nat
  | 0, ps, _, _, e => (ps, e)
  | fuel + 1, ps, rk, pos, e =>
    if pos == e then (ps, e)
    else if rk.getD pos 0 == 1 then compactGo fuel ps rk (pos + 1) e
    else
      let e := e - 1
      if pos != e then compactGo fuel (ps.swapIfInBounds pos e) (rk.swapIfInBounds pos e) pos e
      else compactGo fuel ps rk pos e

/-- `restrictSet(pointset, point)`; `rk` is the non-dominated sort used (`nonDominatedSort`) -/
def restrictSet (rk : List Pt → List Nat) (S : List Pt) (p : Pt) : List Pt :=
  let Q := S.map (pmax p)
  let (ps, e) := compactGo Q.length Q.toArray (rk Q).toArray 0 Q.length
  ps.toList.take e

/-- the `(key, value)` pairs computed by the parallel loop of `HypervolumeContributionMD::smallest/largest`:
`baseVol - hv(restricted pointset, ref)`; `hv` is the hypervolume algorithm used (`HypervolumeCalculator`).
(`baseVol = exp(sum(log(ref - point)))` in the C++: the box volume up to rounding.) -/
def contribsMD (rk : List Pt → List Nat) (hv : List Pt → Pt → Int) (S : List Pt) (r : Pt) : List KV :=
  (List.range S.length).map fun i =>
    (boxVol (S.getD i []) r - hv (restrictSet rk (S.eraseIdx i) (S.getD i [])) r, i)

def smallestMD (rk : List Pt → List Nat) (hv : List Pt → Pt → Int) (S : List Pt) (k : Nat) (r : Pt) : List KV :=
  smallestOf (contribsMD rk hv S r) k

def largestMD (rk : List Pt → List Nat) (hv : List Pt → Pt → Int) (S : List Pt) (k : Nat) (r : Pt) : List KV :=
  largestOf (contribsMD rk hv S r) k

end SharkVerif.HV
