/-
Models of `LinearModel<…, Activation>` (include/shark/Models/LinearModel.h), the
neuron activations (NeuronLayers.h) and `ConcatenatedModel` (two layers), written
over the `Scalar` interface.  Matrices and vectors are index functions together
with explicit dimensions; `sumR n f = f 0 + … + f (n-1)` (left to right).
Transcendental functions (`tanh`, `exp`) are parameters.  Core Lean only.
-/
import SharkVerif.Model.Scalar
namespace SharkVerif.Models
open Scalar
variable {α : Type} [Scalar α]

def sumR (n : Nat) (f : Nat → α) : α := sumL ((List.range n).map f)

/-- element-wise activations: `act` applied in place, and the factor
`multiplyDerivative` multiplies the coefficients with, *expressed through the output* -/
inductive Act where
  | linear | rectifier | tanh | logistic | fastSigmoid
  deriving DecidableEq, Repr

def Act.eval (tanh : α → α) : Act → α → α
  | .linear, z => z
  | .rectifier, z => smax z 0                         -- max(arg, 0)
  | .tanh, z => tanh z
  | .logistic, z => (tanh (z / two) + 1) / two        -- remora's sigmoid functor
  | .fastSigmoid, z => z / (1 + sabs z)

def Act.dfac : Act → α → α
  | .linear, _ => 1
  | .rectifier, o => if 0 < o then 1 else 0           -- `output > 0`
  | .tanh, o => 1 - sqr o
  | .logistic, o => o * (1 - o)
  | .fastSigmoid, o => sqr (1 - sabs o)

/-- a dense layer `x ↦ act(W x + b)` with `W : nOut × nIn` -/
structure Dense (α : Type) where
  nIn  : Nat
  nOut : Nat
  W    : Nat → Nat → α
  hasB : Bool
  b    : Nat → α
  act  : Act

namespace Dense
/-- single-input evaluation: `m_matrix % input`, `+= m_offset`, activation -/
def pre (m : Dense α) (x : Nat → α) (k : Nat) : α :=
  let s := sumR m.nIn fun j => m.W k j * x j
  if m.hasB then s + m.b k else s
def eval (tanh : α → α) (m : Dense α) (x : Nat → α) (k : Nat) : α := m.act.eval tanh (m.pre x k)

/-- batch evaluation: `inputs % trans(m_matrix)`, `+= repeat(m_offset, n)`, activation -/
def preB (m : Dense α) (X : Nat → Nat → α) (i k : Nat) : α :=
  let s := sumR m.nIn fun j => X i j * m.W k j
  if m.hasB then s + m.b k else s
def evalB (tanh : α → α) (m : Dense α) (X : Nat → Nat → α) (i k : Nat) : α := m.act.eval tanh (m.preB X i k)

/-- `delta = coefficients ⊙ act'(outputs)` -/
def delta (m : Dense α) (out coeff : Nat → Nat → α) (i k : Nat) : α := coeff i k * m.act.dfac (out i k)
/-- `weightGradient = trans(delta) % patterns` -/
def gradW (m : Dense α) (B : Nat) (X out coeff : Nat → Nat → α) (k j : Nat) : α :=
  sumR B fun i => m.delta out coeff i k * X i j
/-- `offsetGradient = sum(as_columns(delta))` -/
def gradB (m : Dense α) (B : Nat) (out coeff : Nat → Nat → α) (k : Nat) : α :=
  sumR B fun i => m.delta out coeff i k
/-- `weightedInputDerivative = delta % m_matrix` -/
def gradX (m : Dense α) (out coeff : Nat → Nat → α) (i j : Nat) : α :=
  sumR m.nOut fun k => m.delta out coeff i k * m.W k j

/-- `parameterVector() = to_vector(m_matrix) | m_offset` (row-major matrix, then offset) -/
def params (m : Dense α) : List α :=
  ((List.range m.nOut).flatMap fun k => (List.range m.nIn).map fun j => m.W k j) ++
  (if m.hasB then (List.range m.nOut).map m.b else [])
def numberOfParameters (m : Dense α) : Nat := m.nOut * m.nIn + (if m.hasB then m.nOut else 0)
/-- `setParameterVector` -/
def setParams (m : Dense α) (p : List α) : Dense α :=
  { m with W := fun k j => p.getD (k * m.nIn + j) 0
           b := fun k => p.getD (m.nOut * m.nIn + k) 0 }
/-- the gradient vector in parameter order -/
def gradParams (m : Dense α) (B : Nat) (X out coeff : Nat → Nat → α) : List α :=
  ((List.range m.nOut).flatMap fun k => (List.range m.nIn).map fun j => m.gradW B X out coeff k j) ++
  (if m.hasB then (List.range m.nOut).map (m.gradB B out coeff) else [])
end Dense

/-! ### vector-valued activations: NormalizerNeuron, SoftmaxNeuron (rows of a batch) -/
/-- `arg /= sum(arg)` -/
def normalizeRow (n : Nat) (z : Nat → α) (k : Nat) : α := z k / sumR n z
/-- `arg = exp(arg); arg /= sum(arg)` -/
def softmaxRow (exp : α → α) (n : Nat) (z : Nat → α) (k : Nat) : α := exp (z k) / sumR n fun o => exp (z o)
/-- NormalizerNeuron::multiplyDerivative for one row: `(der − ⟨der,out⟩)/norm` -/
def normalizeDeriv (n : Nat) (out der : Nat → α) (norm : α) (k : Nat) : α :=
  (der k - sumR n fun o => der o * out o) / norm
/-- SoftmaxNeuron::multiplyDerivative for one row: `(der − Σ der·out)·out` -/
def softmaxDeriv (n : Nat) (out der : Nat → α) (k : Nat) : α :=
  (der k - sumR n fun o => der o * out o) * out k

/-! ### ConcatenatedModel of two dense layers `g ∘ f` -/
structure Concat2 (α : Type) where
  f : Dense α
  g : Dense α

namespace Concat2
def evalB (tanh : α → α) (c : Concat2 α) (X : Nat → Nat → α) (i k : Nat) : α :=
  c.g.evalB tanh (c.f.evalB tanh X) i k
/-- parameters of the first layer, then of the second -/
def params (c : Concat2 α) : List α := c.f.params ++ c.g.params
/-- backward pass: the second layer's weighted input derivative becomes the coefficient matrix of the first -/
def gradParams (tanh : α → α) (c : Concat2 α) (B : Nat) (X coeff : Nat → Nat → α) : List α :=
  let h := c.f.evalB tanh X
  let out := c.g.evalB tanh h
  let coeffF := c.g.gradX out coeff
  c.f.gradParams B X h coeffF ++ c.g.gradParams B h out coeff
def gradX (tanh : α → α) (c : Concat2 α) (X coeff : Nat → Nat → α) (i j : Nat) : α :=
  let h := c.f.evalB tanh X
  let out := c.g.evalB tanh h
  c.f.gradX h (c.g.gradX out coeff) i j
end Concat2

/-! ### ConcatenatedModel: any number of layers, each optimised or not

Layers: dense layers, element-wise neuron layers (`NeuronLayer<TanhNeuron>` …) and the
row-wise neuron layers (`NeuronLayer<SoftmaxNeuron>`, `NeuronLayer<NormalizerNeuron>`). -/
inductive RowKind where
  | softmax | normalizer
  deriving DecidableEq, Repr

inductive Layer (α : Type) where
  | dense (m : Dense α)
  | neuron (a : Act) (n : Nat)
  | rowact (k : RowKind) (n : Nat)

namespace Layer
def nOut : Layer α → Nat
  | dense m => m.nOut | neuron _ n => n | rowact _ n => n
def evalB (tanh exp : α → α) : Layer α → (Nat → Nat → α) → Nat → Nat → α
  | dense m, X => m.evalB tanh X
  | neuron a _, X => fun i k => a.eval tanh (X i k)
  | rowact .softmax n, X => fun i k => softmaxRow exp n (X i) k
  | rowact .normalizer n, X => fun i k => normalizeRow n (X i) k
def params : Layer α → List α
  | dense m => m.params | _ => []
/-- weighted input derivative given the layer's input `X`, output `out` and coefficients -/
def gradX : Layer α → (X out coeff : Nat → Nat → α) → Nat → Nat → α
  | dense m, _, out, c => m.gradX out c
  | neuron a _, _, out, c => fun i k => c i k * a.dfac (out i k)
  | rowact .softmax n, _, out, c => fun i k => softmaxDeriv n (out i) (c i) k
  | rowact .normalizer n, X, out, c => fun i k => normalizeDeriv n (out i) (c i) (sumR n (X i)) k
def gradParams : Layer α → (B : Nat) → (X out coeff : Nat → Nat → α) → List α
  | dense m, B, X, out, c => m.gradParams B X out c
  | _, _, _, _, _ => []
end Layer

/-- a chain of (layer, optimise?) pairs, first layer first -/
abbrev Chain (α : Type) := List (Layer α × Bool)

namespace Chain
/-- forward pass: the intermediate outputs of all layers, first layer first -/
def intermediates (tanh exp : α → α) : Chain α → (Nat → Nat → α) → List (Nat → Nat → α)
  | [], _ => []
  | (l, _) :: rest, X => let o := l.evalB tanh exp X; o :: intermediates tanh exp rest o
def evalB (tanh exp : α → α) (c : Chain α) (X : Nat → Nat → α) : Nat → Nat → α :=
  ((intermediates tanh exp c X).getLast?).getD X
/-- `parameterVector()`: parameters of the optimised layers in layer order -/
def params (c : Chain α) : List α := c.flatMap fun (l, opt) => if opt then l.params else []
/-- backward pass over the layers (last first); returns the parameter gradient (layer order,
optimised layers only) and the derivative w.r.t. the chain's input -/
def backward (tanh exp : α → α) (B : Nat) : Chain α → (X : Nat → Nat → α) → (coeff : Nat → Nat → α) →
    List α × (Nat → Nat → α)
  | [], _, coeff => ([], coeff)
  | (l, opt) :: rest, X, coeff =>
    let o := l.evalB tanh exp X
    let (gRest, cIn) := backward tanh exp B rest o coeff       -- coefficients arriving at this layer's output
    ((if opt then l.gradParams B X o cIn else []) ++ gRest, l.gradX X o cIn)
end Chain

/-- `Classifier<…>` with arg-max decision: index of the first maximal output -/
def argmax (n : Nat) (z : Nat → α) : Nat :=
  (List.range n).foldl (fun best k => if z best < z k then k else best) 0

end SharkVerif.Models
