/-
Executable model of the derivative code of the COMPOSED kernel classes and of the helpers built on
the kernel interface:

  * `MonomialKernel::weightedInputDerivative`
  * `NormalizedKernel::weightedParameterDerivative` / `weightedInputDerivative`
  * `detail::SubrangeKernelWrapper` (both derivatives)
  * `WeightedSumKernel::weightedInputDerivative` and the sub-kernel part of its
    `weightedParameterDerivative` (adaptive sub-kernels, `setAdaptiveAll`)
  * `ModelKernel::weightedParameterDerivative` over a `LinearModel` (chain rule through both arguments)
  * `PointSetKernel::weightedParameterDerivative` (as repaired: the gradient is cleared first,
    finding `pointset-parameter-derivative-not-cleared`)
  * `calculateKernelMatrixParameterDerivative` (KernelHelpers.h): blockwise, lower triangle doubled
  * `GaussianTaskKernel::computeMatrix` (as repaired: the table is cleared first, finding
    `gaussian-task-kernel-stale-matrix`) and `MultiTaskKernel`
  * `KernelExpansion::eval` over a batched basis
  * `evalSkipMissingFeatures` (both overloads)

The wrappers are modelled the way the C++ is written: as code that CALLS the derivative function of
the wrapped kernel (a function argument here, a virtual call there).  `Kern.paramGradA` /
`Kern.inputGradA` plug them together along a kernel expression.

Core Lean only; run by `drv_c05` at `Rat` and `Float` next to the C++.
-/
import SharkVerif.Model.KernelDerivs
namespace SharkVerif.Kernels

section
variable {α : Type} [Add α] [Sub α] [Mul α] [Div α] [Neg α] [OfNat α 0] [OfNat α 1] [BEq α]

def vadd (a b : List α) : List α := List.zipWith (· + ·) a b
def vsub (a b : List α) : List α := List.zipWith (· - ·) a b
def vscale (c : α) (a : List α) : List α := a.map (c * ·)
/-- `sum(row)` -/
def rowSum (r : List α) : α := r.foldl (· + ·) 0
/-- `sum(as_columns(M))` for a matrix with `n` columns -/
def colSums (M : Mat α) (n : Nat) : List α :=
  (List.range n).map fun j => (M.map fun r => r.getD j 0).foldl (· + ·) 0
/-- `trans(M)` for a matrix with `n` columns -/
def transposeM (M : Mat α) (n : Nat) : Mat α := (List.range n).map fun j => M.map fun r => r.getD j 0

/-! ### MonomialKernel -/

/-- `weights(i,j) = coeff(i,j) * safe_div(<x,z>^n, <x,z>, 0)` -/
def monoWeights (n : Nat) (crow : List α) (x : Point α) (X2 : Mat α) : List α :=
  List.zipWith (fun cij z => let b := dot x z; cij * safeDiv (powNat b n) b) crow X2

/-- row `i` of `MonomialKernel::weightedInputDerivative`, exponent ≠ 1: `n * prod(weights, X2)` -/
def monoInputRow (n : Nat) (crow : List α) (x : Point α) (X2 : Mat α) : List α :=
  (gemmRow (monoWeights n crow x X2) X2 x.length).map (ofNatS n * ·)

/-- `MonomialKernel::weightedInputDerivative` (exponent 1: the linear case, as repaired by e15da9fc) -/
def monoInputDeriv (n : Nat) (C X1 X2 : Mat α) : Mat α :=
  if n = 1 then linearInputDeriv C X1 X2
  else List.zipWith (fun crow x => monoInputRow n crow x X2) C X1

/-! ### NormalizedKernel: code that calls the base kernel's derivative functions -/
variable (sqrt : α → α)

/-- `weights = coefficients / sqrt(outer_prod(kxx, kyy))` -/
def normWeights (C : Mat α) (kxx kyy : List α) : Mat α :=
  List.zipWith (fun crow kx => List.zipWith (fun c ky => c / sqrt (kx * ky)) crow kyy) C kxx

/-- `for i: base->weightedParameterDerivative(single_i, single_i, [[w_i]], ·, sub); gradient -= sub`
(generic in the gradient type `γ` and its subtraction: lists for the driver, `ℝ` per component for the theorems) -/
def subEachG {γ : Type} (sub : γ → γ → γ) (G : Mat α → Mat α → Mat α → γ) : γ → List α → Mat α → γ
  | g, w :: ws, x :: xs => subEachG sub G (sub g (G [[w]] [x] [x])) ws xs
  | g, _, _ => g

/-- `NormalizedKernel::weightedParameterDerivative`; `G` = the base kernel's `weightedParameterDerivative`,
`kxy`, `kxx`, `kyy` = the state stored by `eval` -/
def normParamGradG {γ : Type} (sub : γ → γ → γ) (G : Mat α → Mat α → Mat α → γ) (kxy : Mat α) (kxx kyy : List α)
    (C X1 X2 : Mat α) : γ :=
  let w := normWeights sqrt C kxx kyy
  let g0 := G w X1 X2
  let w' := zipMat (· * ·) w kxy
  let wx := List.zipWith (fun r kx => rowSum r / (two * kx)) w' kxx
  let wy := List.zipWith (fun s ky => s / (two * ky)) (colSums w' kyy.length) kyy
  subEachG sub G (subEachG sub G g0 wx X1) wy X2

/-- the instance the driver runs: gradients are lists -/
def normParamGrad (G : Mat α → Mat α → Mat α → List α) (kxy : Mat α) (kxx kyy : List α) (C X1 X2 : Mat α) : List α :=
  normParamGradG sqrt vsub G kxy kxx kyy C X1 X2

/-- `for i: base->weightedInputDerivative(single_i, single_i, [[wx_i]], ·, sub); row(gradient,i) -= row(sub,0)` -/
def subRows (Gin : Mat α → Mat α → Mat α → Mat α) : Mat α → List α → Mat α → Mat α
  | grow :: g, w :: ws, x :: xs => vsub grow ((Gin [[w]] [x] [x]).headD []) :: subRows Gin g ws xs
  | _, _, _ => []

/-- `NormalizedKernel::weightedInputDerivative` -/
def normInputGrad (Gin : Mat α → Mat α → Mat α → Mat α) (kxy : Mat α) (kxx kyy : List α) (C X1 X2 : Mat α) : Mat α :=
  let w := normWeights sqrt C kxx kyy
  let g := Gin w X1 X2
  let w' := zipMat (· * ·) w kxy
  let wx := List.zipWith (fun r kx => rowSum r / kx) w' kxx
  subRows Gin g wx X1

/-! ### LinearModel::weightedParameterDerivative (the model wrapped by ModelKernel) -/

/-- `weightGradient = trans(delta) % patterns` (row-major), then `sum(as_columns(delta))` if there is an offset -/
def linModelGrad (A : Mat α) (b : List α) (X D : Mat α) : List α :=
  let nin := (A.headD []).length
  ((List.range A.length).flatMap fun r => (List.range nin).map fun c =>
      (List.zipWith (fun d x => d.getD r 0 * x.getD c 0) D X).foldl (· + ·) 0)
  ++ (if b.length == 0 then [] else
      (List.range A.length).map fun r => (D.map fun d => d.getD r 0).foldl (· + ·) 0)

/-! ### PointSetKernel::weightedParameterDerivative (as repaired) -/

/-- inner loop over `j` -/
def pointSetGradRow (G : Mat α → Mat α → Mat α → List α) (X : Mat α) : List α → List (Mat α) → List α → List α
  | c :: cs, Z :: Zs, acc =>
      pointSetGradRow G X cs Zs (vadd acc (G (constMat X Z (c / natS (X.length * Z.length))) X Z))
  | _, _, acc => acc

/-- `PointSetKernel::weightedParameterDerivative`: `gradient += base-gradient` of every pair of sets with the
constant coefficient matrix `C(i,j)/(|X_i|·|Z_j|)`; `acc` starts at zero (as repaired) -/
def pointSetParamGrad (G : Mat α → Mat α → Mat α → List α) : Mat α → List (Mat α) → List (Mat α) → List α → List α
  | crow :: C, X :: B1, B2, acc => pointSetParamGrad G C B1 B2 (pointSetGradRow G X crow B2 acc)
  | _, _, _, acc => acc

end

/-! ### derivative code along a kernel expression

`ad` = "`setAdaptiveAll(true)` was called on every weighted sum": the sub-kernels' parameters are then part of
the parameter vector (behind the log-weights) and of `weightedParameterDerivative`. -/
section
variable {α : Type} [Add α] [Sub α] [Mul α] [Div α] [Neg α] [OfNat α 0] [OfNat α 1] [BEq α]

mutual
/-- `hasFirstParameterDerivative()` as the constructors set it -/
def Kern.hasParamDeriv : Kern α → Bool
  | .prod _ => false
  | .normalized k => k.hasParamDeriv
  | .scaled _ k => k.hasParamDeriv
  | .wsum _ _ ks => allParamDeriv ks
  | .subrange _ _ k => k.hasParamDeriv
  | .mapped _ _ k => k.hasParamDeriv && k.hasInputDeriv
  | _ => true
/-- `hasFirstInputDerivative()` -/
def Kern.hasInputDeriv : Kern α → Bool
  | .prod _ => false
  | .mapped _ _ _ => false
  | .normalized k => k.hasInputDeriv
  | .scaled _ k => k.hasInputDeriv
  | .wsum _ _ ks => allInputDeriv ks
  | .subrange _ _ k => k.hasInputDeriv
  | _ => true
def allParamDeriv : List (Kern α) → Bool
  | [] => true
  | k :: ks => k.hasParamDeriv && allParamDeriv ks
def allInputDeriv : List (Kern α) → Bool
  | [] => true
  | k :: ks => k.hasInputDeriv && allInputDeriv ks
end

mutual
/-- `numberOfParameters()` with adaptive sub-kernels -/
def Kern.numParamsA (ad : Bool) : Kern α → Nat
  | .linear => 0
  | .poly _ _ => 1
  | .monomial _ => 0
  | .gauss _ => 1
  | .ard gs => gs.length
  | .normalized k => k.numParamsA ad
  | .scaled _ k => k.numParamsA ad
  | .wsum _ _ ks => (ks.length - 1) + (if ad then numParamsListA ad ks else 0)
  | .prod ks => numParamsListA ad ks
  | .subrange _ _ k => k.numParamsA ad
  | .mapped A b k => k.numParamsA ad + (entryCount A + b.length)
def numParamsListA (ad : Bool) : List (Kern α) → Nat
  | [] => 0
  | k :: ks => k.numParamsA ad + numParamsListA ad ks
end

variable (exp sqrt : α → α)

mutual
/-- `setParameterVector` with adaptive sub-kernels (weights first, then the sub-kernels' parameters in order) -/
def Kern.setParamsA (ad : Bool) : Kern α → List α → Kern α
  | .linear, _ => .linear
  | .poly d _, ps => .poly d (ps.headD 0)
  | .monomial n, _ => .monomial n
  | .gauss _, ps => .gauss (ps.headD 0)
  | .ard _, ps => .ard (ps.map exp)
  | .normalized k, ps => .normalized (k.setParamsA ad ps)
  | .scaled f k, ps => .scaled f (k.setParamsA ad ps)
  | .wsum ws _ ks, ps =>
      let q := ps.take (ks.length - 1)
      .wsum (ws.headD 1 :: q.map exp) (q.foldl (fun s p => s + exp p) 1)
        (if ad then setParamsListA ad ks (ps.drop (ks.length - 1)) else ks)
  | .prod ks, ps => .prod (setParamsListA ad ks ps)
  | .subrange a b k, ps => .subrange a b (k.setParamsA ad ps)
  | .mapped A b k, ps =>
      let rest := ps.drop (k.numParamsA ad)
      .mapped (reshapeLike A rest) ((rest.drop (entryCount A)).take b.length) (k.setParamsA ad (ps.take (k.numParamsA ad)))
def setParamsListA (ad : Bool) : List (Kern α) → List α → List (Kern α)
  | [], _ => []
  | k :: ks, ps => k.setParamsA ad (ps.take (k.numParamsA ad)) :: setParamsListA ad ks (ps.drop (k.numParamsA ad))
end

/-- `gradient = g_0 * (w_0/W); gradient += (w_i/W) * g_i` — `WeightedSumKernel::weightedInputDerivative` -/
def wsumInputCombine (ws : List α) (W : α) (gs : List (Mat α)) : Mat α :=
  match ws, gs with
  | w0 :: ws', g0 :: gs' =>
      let rec go : List α → List (Mat α) → Mat α → Mat α
        | w :: ws, g :: gs, acc => go ws gs (zipMat (· + ·) acc (mapMat ((w / W) * ·) g))
        | _, _, acc => acc
      go ws' gs' (mapMat (· * (w0 / W)) g0)
  | _, _ => []

/-- the sub-kernel part of `WeightedSumKernel::weightedParameterDerivative`: `(w_i / W) * kernelGrad_i`, stacked -/
def wsumSubCombine (ws : List α) (W : α) (gs : List (List α)) : List α :=
  (List.zipWith (fun w g => vscale (w / W) g) ws gs).flatten

/-- `gradient(·, [a,b)) = temp`, zero elsewhere (`SubrangeKernelWrapper::weightedInputDerivative`) -/
def embedCols (a b dim : Nat) (r : List α) : List α :=
  List.replicate a 0 ++ r ++ List.replicate (dim - b) 0

mutual
/-- `weightedParameterDerivative` of every kernel class (after a stateful `eval` on the same batches) -/
def Kern.paramGradA (ad : Bool) : Kern α → Mat α → Mat α → Mat α → List α
  | .linear, _, _, _ => []
  | .poly d off, C, X1, X2 => [polyParamDeriv d off C X1 X2]
  | .monomial _, _, _, _ => []
  | .gauss g, C, X1, X2 => [gaussParamDeriv exp g C X1 X2]
  | .ard gs, C, X1, X2 => ardParamDeriv exp gs C X1 X2 (gs.map fun _ => 0)
  | .normalized k, C, X1, X2 =>
      let diag := fun (x : Point α) => ((k.evalBlockS exp sqrt [x] [x]).headD []).headD 0
      normParamGrad sqrt (fun C X1 X2 => k.paramGradA ad C X1 X2) (k.evalBlockS exp sqrt X1 X2)
        (X1.map diag) (X2.map diag) C X1 X2
  | .scaled f k, C, X1, X2 => scaledGrad f (k.paramGradA ad C X1 X2)
  | .wsum ws W ks, C, X1, X2 =>
      wsumWeightGrad exp sqrt ws W ks C X1 X2 ++
        (if ad then wsumSubCombine ws W (paramGradListA ad ks C X1 X2) else [])
  | .prod _, _, _, _ => []
  | .subrange a b k, C, X1, X2 => k.paramGradA ad C (X1.map (slice a b)) (X2.map (slice a b))
  | .mapped A b k, C, X1, X2 =>
      let U1 := X1.map (affine A b)
      let U2 := X2.map (affine A b)
      let D1 := k.inputGradA ad C U1 U2
      let D2 := k.inputGradA ad (transposeM C X2.length) U2 U1
      k.paramGradA ad C U1 U2 ++ vadd (linModelGrad A b X1 D1) (linModelGrad A b X2 D2)
def paramGradListA (ad : Bool) : List (Kern α) → Mat α → Mat α → Mat α → List (List α)
  | [], _, _, _ => []
  | k :: ks, C, X1, X2 => k.paramGradA ad C X1 X2 :: paramGradListA ad ks C X1 X2
/-- `weightedInputDerivative` of every kernel class -/
def Kern.inputGradA (ad : Bool) : Kern α → Mat α → Mat α → Mat α → Mat α
  | .linear, C, X1, X2 => linearInputDeriv C X1 X2
  | .poly d off, C, X1, X2 => polyInputDeriv d off C X1 X2
  | .monomial n, C, X1, X2 => monoInputDeriv n C X1 X2
  | .gauss g, C, X1, X2 => gaussInputDeriv exp g C X1 X2
  | .ard gs, C, X1, X2 => ardInputDeriv exp gs C X1 X2
  | .normalized k, C, X1, X2 =>
      let diag := fun (x : Point α) => ((k.evalBlockS exp sqrt [x] [x]).headD []).headD 0
      normInputGrad sqrt (fun C X1 X2 => k.inputGradA ad C X1 X2) (k.evalBlockS exp sqrt X1 X2)
        (X1.map diag) (X2.map diag) C X1 X2
  | .scaled f k, C, X1, X2 => (k.inputGradA ad C X1 X2).map (scaledGrad f)
  | .wsum ws W ks, C, X1, X2 => wsumInputCombine ws W (inputGradListA ad ks C X1 X2)
  | .prod _, _, _, _ => []
  | .subrange a b k, C, X1, X2 =>
      (k.inputGradA ad C (X1.map (slice a b)) (X2.map (slice a b))).map (embedCols a b (X2.headD []).length)
  | .mapped _ _ _, _, _, _ => []
def inputGradListA (ad : Bool) : List (Kern α) → Mat α → Mat α → Mat α → List (Mat α)
  | [], _, _, _ => []
  | k :: ks, C, X1, X2 => k.inputGradA ad C X1 X2 :: inputGradListA ad ks C X1 X2
end

end

/-! ### calculateKernelMatrixParameterDerivative (KernelHelpers.h)

`for i: for j ≤ i: eval(batch_i, batch_j, state); weightedParameterDerivative(batch_i, batch_j,
subrange(weights, startX.., startY..), state, blockGradient); kernelGradient += (i ≠ j ? 2 : 1) * blockGradient`.
Generic in the point type `β`, in the gradient type `γ` (with its addition and doubling) and in the block
derivative `bg`. -/
section
variable {α β γ : Type}

/-- `subrange(weights, sx, sx+n, sy, sy+m)` -/
def subW (W : Nat → Nat → α) (sx n sy m : Nat) : List (List α) :=
  (List.range n).map fun a => (List.range m).map fun b => W (sx + a) (sy + b)

/-- inner loop over `j ≤ i` (`i` = index of the row batch `bi`, which starts at row `sx`) -/
def gramDerivInner (add : γ → γ → γ) (dbl : γ → γ) (bg : List (List α) → List β → List β → γ) (W : Nat → Nat → α)
    (bi : List β) (sx i : Nat) : List (List β) → Nat → Nat → γ → γ
  | [], _, _, acc => acc
  | bj :: rest, j, sy, acc =>
      if i < j then acc
      else
        let g := bg (subW W sx bi.length sy bj.length) bi bj
        gramDerivInner add dbl bg W bi sx i rest (j + 1) (sy + bj.length)
          (if j = i then add acc g else add acc (dbl g))

/-- outer loop over the row batches -/
def gramDerivOuter (add : γ → γ → γ) (dbl : γ → γ) (bg : List (List α) → List β → List β → γ) (W : Nat → Nat → α)
    (all : List (List β)) : List (List β) → Nat → Nat → γ → γ
  | [], _, _, acc => acc
  | bi :: rest, i, sx, acc =>
      gramDerivOuter add dbl bg W all rest (i + 1) (sx + bi.length)
        (gramDerivInner add dbl bg W bi sx i all 0 0 acc)

/-- `calculateKernelMatrixParameterDerivative(kernel, dataset, weights)` -/
def gramParamDeriv (add : γ → γ → γ) (dbl : γ → γ) (zero : γ) (bg : List (List α) → List β → List β → γ)
    (W : Nat → Nat → α) (batches : List (List β)) : γ :=
  gramDerivOuter add dbl bg W batches batches 0 0 zero
end

/-! ### GaussianTaskKernel / MultiTaskKernel -/
section
variable {α : Type} [Add α] [Sub α] [Mul α] [Div α] [Neg α] [OfNat α 0] [OfNat α 1]

/-- `M(r,c) += v` -/
def matAddAt (M : Mat α) (r c : Nat) (v : α) : Mat α :=
  M.zipIdx.map fun (row, i) => if i = r then row.zipIdx.map fun (e, j) => if j = c then e + v else e else row

def matSetAt (M : Mat α) (r c : Nat) (v : α) : Mat α :=
  M.zipIdx.map fun (row, i) => if i = r then row.zipIdx.map fun (e, j) => if j = c then v else e else row

def matAt (M : Mat α) (r c : Nat) : α := (M.getD r []).getD c 0

/-- first loop of `computeMatrix`: sums of the input kernel over all pairs of examples, per pair of tasks,
in the order of the C++ (`i` ascending, `j < i` ascending, both triangles, then the diagonal term) -/
def taskSums (κ : Point α → Point α → α) (data : List (Point α × Nat)) (M : Mat α) : Mat α :=
  (List.range data.length).foldl (fun M i =>
    let (xi, ti) := data.getD i ([], 0)
    let M := (List.range i).foldl (fun M j =>
      let (xj, tj) := data.getD j ([], 0)
      let k := κ xi xj
      matAddAt (matAddAt M ti tj k) tj ti k) M
    matAddAt M ti ti (κ xi xi)) M

/-- `GaussianTaskKernel::computeMatrix` (as repaired: starts from the zero matrix on EVERY call) -/
def taskTable (κ : Point α → Point α → α) (exp : α → α) (T : Nat) (γ : α) (data : List (Point α × Nat)) : Mat α :=
  let zero : Mat α := (List.range T).map fun _ => (List.range T).map fun _ => 0
  let ell : List Nat := (List.range T).map fun t => (data.filter fun d => d.2 == t).length
  let M := taskSums κ data zero
  -- mean elements: divide by ell_i * ell_j
  let M := M.zipIdx.map fun (row, i) => row.zipIdx.map fun (e, j) =>
    if ell.getD i 0 = 0 ∨ ell.getD j 0 = 0 then e else e / natS (ell.getD i 0 * ell.getD j 0)
  -- Gaussian of the distances of the mean elements
  let M := (List.range T).foldl (fun M i =>
    (List.range i).foldl (fun M j =>
      let dist2 := matAt M i i + matAt M j j - two * matAt M i j
      let k := exp (-γ * dist2)
      matSetAt (matSetAt M i j k) j i k) M) M
  (List.range T).foldl (fun M i => matSetAt M i i 1) M

/-- `MultiTaskKernel((x,t),(x',t')) = k_input(x,x') · k_task(t,t')` (a `ProductKernel` of two projections) -/
def multiTaskEval (κ : Point α → Point α → α) (table : Mat α) (a b : Point α × Nat) : α :=
  1 * κ a.1 b.1 * discreteEval table a.2 b.2

/-- block evaluation of `MultiTaskKernel`: first factor, then `result *= kernelResult` -/
def multiTaskBlock (kb : Mat α → Mat α → Mat α) (table : Mat α) (B1 B2 : List (Point α × Nat)) : Mat α :=
  zipMat (· * ·) (kb (B1.map (·.1)) (B2.map (·.1))) (discreteBlock table (B1.map (·.2)) (B2.map (·.2)))

/-! ### KernelExpansion::eval -/

/-- `output += prod(trans(K), batchAlpha)` for one basis batch: `K = kernel(basisBatch, patterns)` -/
def kexpAddBatch (K : Mat α) (alphaB : Mat α) (out : Mat α) : Mat α :=
  out.zipIdx.map fun (orow, p) => orow.zipIdx.map fun (o, c) =>
    o + (List.zipWith (fun krow arow => krow.getD p 0 * arow.getD c 0) K alphaB).foldl (· + ·) 0

/-- `KernelExpansion::eval(patterns, output)`: offset, then the basis batch by batch -/
def kexpEval (kb : Mat α → Mat α → Mat α) (basis : List (Mat α)) (alpha : Mat α) (b : List α) (nout : Nat) (P : Mat α) : Mat α :=
  let init : Mat α := P.map fun _ => if b.isEmpty then List.replicate nout 0 else b
  (basis.foldl (fun (acc : Mat α × Nat) B =>
      (kexpAddBatch (kb B P) ((alpha.drop acc.2).take B.length) acc.1, acc.2 + B.length)) (init, 0)).1

/-! ### evalSkipMissingFeatures -/

/-- the features that are present in both inputs (and not masked by `missingness`) -/
def skipFilter (keep : List Bool) (a : Point α) : Point α :=
  (List.zipWith (fun k v => (k, v)) keep a).filterMap fun kv => if kv.1 then some kv.2 else none

/-- `evalSkipMissingFeatures(kernel, a, b)` -/
def evalSkip3 (κ : Point α → Point α → α) (keep : List Bool) (a b : Point α) : α :=
  κ (skipFilter keep a) (skipFilter keep b)

/-- `evalSkipMissingFeatures(kernel, a, b, missingness)`: the temporaries are `resize`d (not `reserve`d) to the input
size before the valid features are `push_back`ed, so the kernel sees `n` leading zeros in both arguments -/
def evalSkip4 (κ : Point α → Point α → α) (keep : List Bool) (a b : Point α) : α :=
  κ (List.replicate a.length 0 ++ skipFilter keep a) (List.replicate b.length 0 ++ skipFilter keep b)

/-- `SUPPORTS_VARIABLE_INPUT_SIZE` -/
def Kern.variableInputSize : Kern α → Bool
  | .linear => true
  | .poly _ _ => true
  | .monomial _ => true
  | _ => false

end

end SharkVerif.Kernels
