/-
Model of the *post-parse* logic of Shark's text importers
(`src/Data/SparseData.cpp`, `src/Data/Csv.cpp`) over already tokenised records.

Core Lean only (no Mathlib): compiled into the native driver `drv_c19`, which is
run against the real importers by `checks/c19.py`.

Numeric token VALUES are opaque (`V`); the only thing the logic ever asks of a
label value is "is it an `int`, and which" (`labelInt : V → Option Int`, `none`
for a non-integral / out-of-range value, which the C++ rejects).

Two variants of the LibSVM logic are modelled:
* `Svm.importCurrent`  — the code as it is in `/repo` (dimension from the LAST
  index of each record, zero-basedness from the FIRST index, no ordering check,
  no treatment of the empty file);
* `Svm.importRepaired` — the same with the repair proposed in
  `findings_proposed/C19.md` (records whose indices are not strictly increasing
  are rejected; the empty classification file gives an empty dataset; the shape
  equals the element dimension).
`Props/C19.lean` proves that the two agree whenever the current code does not
misbehave, memory safety of the repaired one for every input and, for the
current one, only under the sortedness hypothesis (with `decide`d witnesses).
-/
namespace SharkVerif.Import

/-! ### batch partitioning -/

/-- `detail::optimalBatchSizes(numElements, maximumBatchSize)` for
`numElements > 0`, `maximumBatchSize > 0` (the C++ divides by zero otherwise; the
CSV importers return before the call when there are no rows). -/
def optimalBatchSizes (n maxB : Nat) : List Nat :=
  let b0 := n / maxB
  let batches := if n - b0 * maxB > 0 then b0 + 1 else b0
  let opt := n / batches
  let rem := n - batches * opt
  (List.range batches).map fun j => if j < rem then opt + 1 else opt

/-- `SharedContainer::initializeBatches(numElements, element, batchSize)`:
the batch structure used by the LibSVM importers (`Data(size, blueprint, batchSize)`). -/
def initBatches (n bs : Nat) : List Nat :=
  if bs = 0 ∨ bs > n then [n]
  else
    let batches := n / bs + (if n % bs > 0 then 1 else 0)
    List.replicate (batches - 1) bs ++ [n - (batches - 1) * bs]

/-! ### classification labels (`-1/1 → 0/1`, `min`-shift) — same code in both importers -/

def intMax : Int := 2147483647

structure LabelScan where
  binary : Bool := false
  minPos : Int := intMax
  maxPos : Int := -1

/-- one iteration of the label conformity loop -/
def LabelScan.step (s : LabelScan) (l : Int) : LabelScan :=
  if l = -1 then { s with binary := true }
  else if l < s.minPos then { s with minPos := l }
  else if l > s.maxPos then { s with maxPos := l }
  else s

def scanLabels (ls : List Int) : LabelScan := ls.foldl LabelScan.step {}

/-- the final `SHARK_RUNTIME_CHECK(minPositiveLabel >= 0 || (minPositiveLabel == -1 && maxPositiveLabel == 1))` -/
def LabelScan.ok (s : LabelScan) : Bool :=
  decide (s.minPos ≥ 0) || (s.minPos == -1 && s.maxPos == 1)

/-- `binaryLabels ? 1 + (label-1)/2 : label - minPositiveLabel` (C++ `/` truncates) -/
def normLabel (s : LabelScan) (l : Int) : Nat :=
  (if s.binary then 1 + Int.tdiv (l - 1) 2 else l - s.minPos).toNat

/-- all values present, or `none` -/
def allSome {α : Type} : List (Option α) → Option (List α)
  | [] => some []
  | none :: _ => none
  | some a :: t => match allSome t with
    | some l => some (a :: l)
    | none => none

/-- labels of a classification file: `none` = the library's exception -/
def classLabels (raw : List (Option Int)) : Option (List Nat) :=
  match allSome raw with
  | none => none                                   -- non-integer label
  | some ls =>
    if ls.any (fun l => decide (l < -1)) then none -- "labels can not be smaller than -1"
    else
      let s := scanLabels ls
      if s.ok then some (ls.map (normLabel s)) else none

/-- `numberOfClasses(Data<unsigned int>)`: `max + 1` -/
def numberOfClasses (labels : List Nat) : Nat := labels.foldl max 0 + 1

/-! ### results -/

/-- an imported element: dense vector or list of stored (index, value) pairs -/
inductive Row (V : Type) where
  | dense (xs : List V)
  | sparse (dim : Nat) (xs : List (Nat × V))
  deriving Repr, DecidableEq

def Row.dim {V} : Row V → Nat
  | .dense xs => xs.length
  | .sparse d _ => d

/-- stored sparse indices are below the dimension and strictly increasing -/
def strictlyIncreasing : List Nat → Bool
  | a :: b :: t => decide (a < b) && strictlyIncreasing (b :: t)
  | _ => true

def Row.wf {V} : Row V → Bool
  | .dense _ => true
  | .sparse d xs => xs.all (fun p => decide (p.1 < d)) && strictlyIncreasing (xs.map (·.1))

inductive Labels (V : Type) where
  | cls (ls : List Nat)            -- class indices
  | reg (ls : List (List V))       -- regression targets (one vector per element)
  | none                           -- unlabeled data
  deriving Repr, DecidableEq

def Labels.count {V} : Labels V → Option Nat
  | .cls ls => some ls.length
  | .reg ls => some ls.length
  | .none => Option.none

structure DataSet (V : Type) where
  shape   : Option Nat     -- `inputs().shape()`: `none` = default `Shape()`, `some n` = `{n}`
  lshape  : Option Nat     -- `labels().shape()`: class count / output dimension
  batches : List Nat       -- batch sizes, in order
  rows    : List (Row V)   -- elements, in order
  labels  : Labels V
  deriving Repr, DecidableEq

/-- what a run of an importer does -/
inductive Outcome (V : Type) where
  | ok (d : DataSet V)
  | error                            -- `shark::Exception`
  | allocFail                        -- a single allocation beyond the harness' limit (`std::bad_alloc`)
  | oobWrite (idx size : Nat)        -- write outside the allocated vector  (memory error)
  | ubEmptyMax                       -- `*max_element(begin, end)` of an empty batch (UB)
  deriving Repr, DecidableEq

/-- the property's notion of a well-formed result -/
def DataSet.wf {V} (d : DataSet V) (maxBatch : Nat) : Bool :=
  d.rows.all (fun r => some r.dim == d.shape && r.wf)
  && (d.batches.foldl (· + ·) 0 == d.rows.length)
  && (match d.labels with
      | .cls ls => ls.length == d.rows.length &&
          (match d.lshape with
           | some k => ls.all (fun l => decide (l < k))
           | none => true)                       -- class count = `numberOfClasses` = max + 1
      | .reg ls => ls.length == d.rows.length && ls.all (fun l => some l.length == d.lshape)
      | .none => true)
  && (maxBatch == 0 || d.batches.all (fun b => decide (b ≤ maxBatch)))

/-! ### LibSVM importer -/
namespace Svm

structure Rec (V : Type) where
  label : V
  feats : List (Nat × V)
  deriving Repr, DecidableEq

structure Cfg where
  sparse : Bool       -- `CompressedRealVector` inputs
  cls    : Bool       -- classification (unsigned labels) vs regression
  dims   : Nat        -- `highestIndex` argument (`unsigned int`)
  bs     : Nat        -- batch size argument
  /-- harness limit on one allocation, counted in vector elements -/
  allocLimit : Nat
  deriving Repr, DecidableEq

def two64 : Nat := 18446744073709551616

/-- `maxIndex` loop: only `inputs.back().first` of each record is looked at -/
def maxIndexLast {V} (recs : List (Rec V)) : Nat :=
  recs.foldl (fun m r => match r.feats.getLast? with
    | some p => max m p.1
    | none => m) 0

/-- the maximum over *all* indices -/
def maxIndexAll {V} (recs : List (Rec V)) : Nat :=
  recs.foldl (fun m r => r.feats.foldl (fun m p => max m p.1) m) 0

/-- zero-based detection: only `input[0].first` of each record is looked at -/
def hasZeroFirst {V} (recs : List (Rec V)) : Bool :=
  recs.any fun r => match r.feats.head? with
    | some p => p.1 == 0
    | none => false

def hasZeroAll {V} (recs : List (Rec V)) : Bool :=
  recs.any fun r => r.feats.any fun p => p.1 == 0

/-- `inputs[j].first - delta` in `std::size_t` arithmetic -/
def writeIndex (delta i : Nat) : Nat := if i ≥ delta then i - delta else two64 - (delta - i)

/-- the indices `copySparsePoints` writes for one record -/
def writes {V} (delta : Nat) (r : Rec V) : List (Nat × V) :=
  r.feats.map fun p => (writeIndex delta p.1, p.2)

/-- dense `element.clear(); element(i) = v; …` — later writes win -/
def denseRow {V} (zero : V) (size : Nat) (ws : List (Nat × V)) : List V :=
  (List.range size).map fun k =>
    match (ws.reverse.find? (fun p => p.1 == k)) with
    | some p => p.2
    | none => zero

/-- first out-of-bounds write of a record, if any -/
def firstOob {V} (size : Nat) (ws : List (Nat × V)) : Option Nat :=
  (ws.find? (fun p => decide (p.1 ≥ size))).map (·.1)

def recSorted {V} (r : Rec V) : Bool := strictlyIncreasing (r.feats.map (·.1))

/-- allocated vector size `maxIndex + (hasZero ? 1 : 0)` -/
def vecSize (maxIndex : Nat) (hasZero : Bool) : Nat := maxIndex + (if hasZero then 1 else 0)

/-- `delta = hasZero ? 0 : 1` -/
def deltaOf (hasZero : Bool) : Nat := if hasZero then 0 else 1

/-- first out-of-bounds write of `copySparsePoints` into dense vectors -/
def oobOf {V} (sparse : Bool) (size : Nat) (wss : List (List (Nat × V))) : Option Nat :=
  if sparse then none else wss.findSome? (firstOob size)

/-- the dataset once all writes went through -/
def finish {V} (zero : V) (cfg : Cfg) (size shape : Nat) (wss : List (List (Nat × V)))
    (batches : List Nat) (labels : Labels V) : Outcome V :=
  let rows := wss.map fun ws =>
    if cfg.sparse then Row.sparse size ws else Row.dense (denseRow zero size ws)
  match labels with
  | .cls ls =>
    if ls.isEmpty then .ubEmptyMax      -- numberOfClasses on the single empty batch
    else .ok { shape := some shape, lshape := some (numberOfClasses ls),
               batches := batches, rows := rows, labels := labels }
  | _ => .ok { shape := some shape, lshape := some 1,
               batches := batches, rows := rows, labels := labels }

/-- everything after the dimension / label checks; shared by both variants.
`shapeIsSize` selects the repaired `shape()`.-/
def build {V} (zero : V) (cfg : Cfg) (recs : List (Rec V)) (maxIndex : Nat) (hasZero : Bool)
    (labels : Labels V) (shapeIsSize : Bool) : Outcome V :=
  let size := vecSize maxIndex hasZero
  let batches := initBatches recs.length cfg.bs
  if !cfg.sparse && batches.foldl max 1 * size > cfg.allocLimit then .allocFail
  else
    let wss := recs.map (writes (deltaOf hasZero))
    match oobOf cfg.sparse size wss with
    | some i => .oobWrite i size
    | none => finish zero cfg size (if shapeIsSize then size else maxIndex) wss batches labels

def labelsOf {V} (labelInt : V → Option Int) (cfg : Cfg) (recs : List (Rec V)) : Option (Labels V) :=
  if cfg.cls then (classLabels (recs.map fun r => labelInt r.label)).map Labels.cls
  else some (.reg (recs.map fun r => [r.label]))

/-- `libsvm_importer_classification` / `libsvm_importer_regression` as they are -/
def importCurrent {V} (zero : V) (labelInt : V → Option Int) (cfg : Cfg) (recs : List (Rec V)) : Outcome V :=
  let maxIndex := max (maxIndexLast recs) cfg.dims
  if cfg.dims ≠ 0 ∧ maxIndex > cfg.dims then .error
  else match labelsOf labelInt cfg recs with
    | none => .error
    | some labels => build zero cfg recs maxIndex (hasZeroFirst recs) labels false

/-- the repaired logic (see `findings_proposed/C19.md`) -/
def importRepaired {V} (zero : V) (labelInt : V → Option Int) (cfg : Cfg) (recs : List (Rec V)) : Outcome V :=
  if !recs.all recSorted then .error                      -- F2a: reject unordered / duplicate indices
  else if cfg.cls && recs.isEmpty then                      -- F2b: empty file → empty dataset
    .ok { shape := none, lshape := none, batches := [], rows := [], labels := .cls [] }
  else
    let maxIndex := max (maxIndexLast recs) cfg.dims
    if cfg.dims ≠ 0 ∧ maxIndex > cfg.dims then .error
    else match labelsOf labelInt cfg recs with
      | none => .error
      | some labels => build zero cfg recs maxIndex (hasZeroFirst recs) labels true   -- F2c: shape = element size

end Svm

/-! ### CSV importers (`csvStringToData` overloads): logic after the reader -/
namespace Csv

/-- the empty data object `Data<T>()` / `LabeledData<I,L>()` -/
def emptySet {V} (labels : Labels V) : DataSet V :=
  { shape := none, lshape := none, batches := [], rows := [], labels := labels }

/-- `csvStringToData(Data<RealVector>&, …)`: rows → batches -/
def importRows {V} (rows : List (List V)) (maxBatch : Nat) : Outcome V :=
  match rows with
  | [] => .ok (emptySet .none)
  | r0 :: _ =>
    let dims := r0.length
    if rows.all (fun r => r.length == dims) then
      .ok { shape := some dims, lshape := none, batches := optimalBatchSizes rows.length maxBatch,
            rows := rows.map Row.dense, labels := .none }
    else .error       -- "Vectors are required to have same size"

/-- `csvStringToData(LabeledData<RealVector, unsigned int>&, …)` -/
def importClass {V} (pts : List (Int × List V)) (maxBatch : Nat) : Outcome V :=
  match pts with
  | [] => .ok (emptySet (.cls []))
  | p0 :: _ =>
    match classLabels (pts.map fun p => some p.1) with
    | none => .error
    | some labels =>
      let dims := p0.2.length
      if pts.all (fun p => p.2.length == dims) then
        .ok { shape := some dims, lshape := none, batches := optimalBatchSizes pts.length maxBatch,
              rows := pts.map (fun p => Row.dense p.2), labels := .cls labels }
      else .error

/-- `csvStringToData(LabeledData<RealVector, RealVector>&, …, lp, numberOfOutputs, …)` -/
def importRegr {V} (rows : List (List V)) (labelFirst : Bool) (numOut maxBatch : Nat) : Outcome V :=
  match rows with
  | [] => .ok (emptySet (.reg []))
  | r0 :: _ =>
    if ¬ (r0.length > numOut) then .error    -- "Files must have more columns than requested number of outputs"
    else
      let dims := r0.length
      let numIn := dims - numOut
      let inStart := if labelFirst then numOut else 0
      let outStart := if labelFirst then 0 else numIn
      if rows.all (fun r => r.length == dims) then
        .ok { shape := some numIn, lshape := some numOut, batches := optimalBatchSizes rows.length maxBatch,
              rows := rows.map (fun r => Row.dense ((r.drop inStart).take numIn)),
              labels := .reg (rows.map fun r => (r.drop outStart).take numOut) }
      else .error

/-- `csvStringToDataImpl` (`Data<int>`, `Data<unsigned int>`, `Data<double>`): scalars → batches;
every element is a 1-cell row here, the shape stays the default -/
def importScalars {V} (vals : List V) (maxBatch : Nat) : Outcome V :=
  match vals with
  | [] => .ok (emptySet .none)
  | _ => .ok { shape := none, lshape := none, batches := optimalBatchSizes vals.length maxBatch,
               rows := vals.map fun v => Row.dense [v], labels := .none }

end Csv
end SharkVerif.Import
