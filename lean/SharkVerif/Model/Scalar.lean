/-
The small scalar interface the numeric models are written against (DESIGN.md §3).
Instances: core `Rat` (theorems; exact-mode correspondence) and `Float`
(driver; bit-for-bit correspondence with the C++ doubles).  `Real` gets its
instance in `Lemmas/` (Mathlib).  Core Lean only.
-/
namespace SharkVerif

class Scalar (α : Type) extends Add α, Sub α, Mul α, Div α, Neg α, LT α, LE α, Zero α, One α where
  ofNat : Nat → α
  /-- dyadic literal `m / 2^e` -/
  dyadic : Int → Nat → α
  decLt : DecidableRel (α := α) (· < ·)
  decLe : DecidableRel (α := α) (· ≤ ·)

namespace Scalar
variable {α : Type} [Scalar α]
instance : DecidableRel (α := α) (· < ·) := Scalar.decLt
instance : DecidableRel (α := α) (· ≤ ·) := Scalar.decLe

/-- `std::max(a,b)`: returns `b` iff `a < b` -/
def smax (a b : α) : α := if a < b then b else a
/-- `std::min(a,b)`: returns `b` iff `b < a` -/
def smin (a b : α) : α := if b < a then b else a
/-- `std::abs` -/
def sabs (a : α) : α := if a < 0 then -a else a
def sqr (a : α) : α := a * a
def two : α := Scalar.ofNat 2
def half : α := Scalar.dyadic 1 1
/-- left-to-right accumulation starting from 0, like a C++ loop `s = 0; for … s += x` -/
def sumL (l : List α) : α := l.foldl (· + ·) 0
end Scalar

@[reducible] instance : Scalar Rat where
  ofNat n := (n : Rat)
  dyadic m e := (m : Rat) / ((2 ^ e : Nat) : Rat)
  decLt := inferInstance
  decLe := inferInstance

@[reducible] instance : Scalar Float where
  zero := 0.0
  one := 1.0
  ofNat n := n.toFloat
  dyadic m e := Float.ofInt m / (2 ^ e : Nat).toFloat
  decLt := inferInstance
  decLe := inferInstance

end SharkVerif
