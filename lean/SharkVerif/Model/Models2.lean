/-
Further model types of property C04, written over the `Scalar` interface like
`Model/Models.lean`: `Normalizer` (diagonal affine map), `Classifier` (arg-max /
sign decision), `PoolingLayer` (max pooling), `ResizeLayer` (cubic B-spline
interpolation = a fixed linear gather), `RBFLayer`, `KernelExpansion`,
`Ensemble` (weighted mean / weighted vote) and `CMACMap`.

Vectors and matrices are index functions with explicit dimensions (flat row-major
indices for images: pixel `q`, channel `c` ↦ `q*depth + c`).  Transcendental
functions, `floor` and the `double → size_t` cast are parameters.  Core Lean only.
-/
import SharkVerif.Model.Models
namespace SharkVerif.Models
open Scalar
variable {α : Type} [Scalar α]

/-! ### `Normalizer<RealVector>` (Models/Normalizer.h): `x ↦ a ⊙ x (+ b)` -/
structure Diag (α : Type) where
  n    : Nat
  a    : Nat → α
  hasB : Bool
  b    : Nat → α

namespace Diag
/-- one output entry: `input * m_A`, then `+= m_b` -/
def eval (m : Diag α) (x : Nat → α) (k : Nat) : α :=
  let s := x k * m.a k
  if m.hasB then s + m.b k else s
/-- batch: `input * repeat(m_A, rows)`, `+= repeat(m_b, rows)` -/
def evalB (m : Diag α) (X : Nat → Nat → α) (i k : Nat) : α :=
  let s := X i k * m.a k
  if m.hasB then s + m.b k else s
/-- `parameterVector() = m_A | m_b` -/
def params (m : Diag α) : List α :=
  (List.range m.n).map m.a ++ (if m.hasB then (List.range m.n).map m.b else [])
def numberOfParameters (m : Diag α) : Nat := m.n + (if m.hasB then m.n else 0)
def setParams (m : Diag α) (p : List α) : Diag α :=
  { m with a := fun k => p.getD k 0, b := fun k => p.getD (m.n + k) 0 }
end Diag

/-! ### `Classifier<Model>` (Models/Classifier.h) -/
/-- decision for one row `z` of the decision function's output (`nOut` entries), with an optional
bias vector: a single output is thresholded (`z₀ + bias > 0`), otherwise `arg_max(z (+ bias))`
(`std::max_element`: the first maximal entry) -/
def classifyRow (nOut : Nat) (hasBias : Bool) (bias : Nat → α) (z : Nat → α) : Nat :=
  if nOut = 1 then (if 0 < z 0 + (if hasBias then bias 0 else 0) then 1 else 0)
  else argmax nOut (fun k => if hasBias then z k + bias k else z k)

/-! ### `PoolingLayer` with `Pooling::Maximum`, `Padding::Valid` (Core/Images/CPU/Pooling.h)

Input image `h × w × d` (row-major pixels, channels innermost), patch `ph × pw`,
output `(h/ph) × (w/pw) × d`; patches do not overlap, border pixels that do not fill a
patch are ignored. -/
structure Pool where
  h : Nat
  w : Nat
  d : Nat
  ph : Nat
  pw : Nat
  deriving Repr

namespace Pool
def outH (s : Pool) : Nat := s.h / s.ph
def outW (s : Pool) : Nat := s.w / s.pw
def nIn (s : Pool) : Nat := s.h * s.w * s.d
def nOut (s : Pool) : Nat := s.outH * s.outW * s.d
/-- first pixel of the patch of output pixel `p` -/
def start (s : Pool) (p : Nat) : Nat := ((p / s.outW) * s.ph) * s.w + (p % s.outW) * s.pw
/-- pixels of the patch of output pixel `p`, in the scan order of the C++ loops -/
def patch (s : Pool) (p : Nat) : List Nat :=
  (List.range s.ph).flatMap fun di => (List.range s.pw).map fun dj =>
    ((p / s.outW) * s.ph + di) * s.w + ((p % s.outW) * s.pw + dj)
/-- `maxPooling`: `pixel = first; for q in patch: pixel = max(pixel, in[q])` for flat output index `o` -/
def evalRow (s : Pool) (x : Nat → α) (o : Nat) : α :=
  let p := o / s.d
  let c := o % s.d
  (s.patch p).foldl (fun m q => smax m (x (q * s.d + c))) (x (s.start p * s.d + c))
def evalB (s : Pool) (X : Nat → Nat → α) (i o : Nat) : α := s.evalRow (X i) o
/-- `maxPoolingDerivative`: arg-max pixel of patch `p`, channel `c` (`if(val > maxVal)`: first maximum) -/
def argmaxPix (s : Pool) (x : Nat → α) (p c : Nat) : Nat :=
  (s.patch p).foldl (fun best q => if x (best * s.d + c) < x (q * s.d + c) then q else best) (s.start p)
/-- weighted input derivative of one row at flat input index `q`: the coefficient of the patch the
pixel lies in if the pixel is that patch's arg-max, else 0 (the derivative buffer starts at zero) -/
def gradXRow (s : Pool) (x coeff : Nat → α) (q : Nat) : α :=
  let pix := q / s.d
  let c := q % s.d
  let i := pix / s.w
  let j := pix % s.w
  if i < s.outH * s.ph ∧ j < s.outW * s.pw then
    let p := (i / s.ph) * s.outW + j / s.pw
    if s.argmaxPix x p c = pix then coeff (p * s.d + c) else 0
  else 0
def gradX (s : Pool) (X coeff : Nat → Nat → α) (i q : Nat) : α := s.gradXRow (X i) (coeff i) q
end Pool

/-! ### linear gathers: `out[p,c] = Σ_s weight(p,s) · in[pixel(p,s), c]`

`ResizeLayer` (spline interpolation at fixed points) is of this form. -/
/-- `taps p` = the (input pixel, weight) pairs of output pixel `p`, in accumulation order -/
structure Gather (α : Type) where
  d : Nat
  nInPix : Nat
  nOutPix : Nat
  taps : Nat → List (Nat × α)

namespace Gather
def nIn (g : Gather α) : Nat := g.nInPix * g.d
def nOut (g : Gather α) : Nat := g.nOutPix * g.d
/-- `values.clear(); v[p] += weight * image[pixel]` -/
def evalRow (g : Gather α) (x : Nat → α) (o : Nat) : α :=
  sumL ((g.taps (o / g.d)).map fun t => t.2 * x (t.1 * g.d + o % g.d))
def evalB (g : Gather α) (X : Nat → Nat → α) (i o : Nat) : α := g.evalRow (X i) o
/-- `results.clear(); result[pixel] += weight * coeff[p]` over `p`, then the taps of `p` -/
def gradXRow (g : Gather α) (coeff : Nat → α) (q : Nat) : α :=
  sumR g.nOutPix fun p => sumL ((g.taps p).map fun t =>
    if t.1 = q / g.d then t.2 * coeff (p * g.d + q % g.d) else 0)
def gradX (g : Gather α) (coeff : Nat → Nat → α) (i q : Nat) : α := g.gradXRow (coeff i) q
end Gather

/-- `ResizeLayer(inputShape = h×w×d, outputShape = oh×ow)`, `Interpolation::Spline` -/
structure Resize where
  h : Nat
  w : Nat
  d : Nat
  oh : Nat
  ow : Nat
  deriving Repr

namespace Resize
/-- cubic B-spline weights (×6) in the operation order of the C++ initialiser list -/
def bspline (t : α) : List α :=
  let t2 := t * t
  let t3 := t2 * t
  let three : α := Scalar.ofNat 3
  let six : α := Scalar.ofNat 6
  let four : α := Scalar.ofNat 4
  [ ((-t3 + three * t2) - three * t) + 1,
    (three * t3 - six * t2) + four,
    (((-three) * t3 + three * t2) + three * t) + 1,
    t3 ]
/-- `(std::size_t) min(max(b, 0), hi)` resp. `max(min(b, hi), 0)` (both clamp to `[0, hi]`) -/
def clampLo (toNat : α → Nat) (b hi : α) : Nat := toNat (smin (smax b 0) hi)
def clampHi (toNat : α → Nat) (b hi : α) : Nat := toNat (smax (smin b hi) 0)
/-- the four clamped pixel coordinates around `base` for an axis of `len` pixels -/
def coords (toNat : α → Nat) (base : α) (len : Nat) : List Nat :=
  let hi : α := Scalar.ofNat (len - 1)
  [clampLo toNat (base - 1) hi, clampHi toNat base hi, clampLo toNat (base + 1) hi,
   clampHi toNat (base + Scalar.ofNat 2) hi]
/-- interpolation point of output index `p`: `setStructure` stores `(i/ow, j/oh)` at row `i*oh + j` -/
def pointY (s : Resize) (p : Nat) : α := (Scalar.ofNat (p / s.oh) : α) / Scalar.ofNat s.ow
def pointX (s : Resize) (p : Nat) : α := (Scalar.ofNat (p % s.oh) : α) / Scalar.ofNat s.oh
/-- the 16 (pixel, weight) pairs of `splineInterpolation2D` for output point `p` (k outer, l inner) -/
def taps (floor : α → α) (toNat : α → Nat) (s : Resize) (p : Nat) : List (Nat × α) :=
  let ux : α := pointX s p * Scalar.ofNat s.w
  let basex := floor ux
  let xs := bspline (ux - basex)
  let px := coords toNat basex s.w
  let uy : α := pointY s p * Scalar.ofNat s.h
  let basey := floor uy
  let ys := bspline (uy - basey)
  let py := coords toNat basey s.h
  (List.range 4).flatMap fun k => (List.range 4).map fun l =>
    (px.getD l 0 + s.w * py.getD k 0, (xs.getD l 0 * ys.getD k 0) / Scalar.ofNat 36)
def gather (floor : α → α) (toNat : α → Nat) (s : Resize) : Gather α :=
  { d := s.d, nInPix := s.h * s.w, nOutPix := s.oh * s.ow, taps := taps floor toNat s }
end Resize

/-! ### `RBFLayer` (src/Models/RBFLayer.cpp) -/
structure RBF (α : Type) where
  nIn  : Nat
  nOut : Nat
  centers : Nat → Nat → α
  /-- `m_gamma`; the parameter vector stores `log γ` -/
  gamma : Nat → α
  trainCenters : Bool
  trainWidth : Bool

namespace RBF
/-- `distanceSqr(x, m_k)` -/
def norm2 (m : RBF α) (x : Nat → α) (k : Nat) : α := sumR m.nIn fun j => sqr (x j - m.centers k j)
/-- `m_logNormalization = nIn*0.5*(log π − log γ)` -/
def logNorm (log : α → α) (logPi : α) (m : RBF α) (k : Nat) : α :=
  (Scalar.ofNat m.nIn * half) * (logPi - log (m.gamma k))
/-- `exp(−γ_k·‖x−m_k‖² − logNorm_k)` -/
def eval (exp log : α → α) (logPi : α) (m : RBF α) (x : Nat → α) (k : Nat) : α :=
  exp (-(m.gamma k * m.norm2 x k) - m.logNorm log logPi k)
def evalB (exp log : α → α) (logPi : α) (m : RBF α) (X : Nat → Nat → α) (i k : Nat) : α :=
  m.eval exp log logPi (X i) k
/-- `delta = coefficients ⊙ outputs`, `deltaSum = sum(as_columns(delta))` -/
def delta (out coeff : Nat → Nat → α) (i k : Nat) : α := coeff i k * out i k
def deltaSum (B : Nat) (out coeff : Nat → Nat → α) (k : Nat) : α := sumR B fun i => delta out coeff i k
/-- `(trans(delta) % patterns − deltaSum_k·m_k) · 2γ_k` -/
def gradCenter (m : RBF α) (B : Nat) (X out coeff : Nat → Nat → α) (k j : Nat) : α :=
  ((sumR B fun i => delta out coeff i k * X i j) - deltaSum B out coeff k * m.centers k j) * (two * m.gamma k)
/-- `sum(as_columns(−delta ⊙ norm2)) ⊙ γ + 0.5·nIn·deltaSum` (derivative w.r.t. `log γ_k`) -/
def gradLogGamma (m : RBF α) (B : Nat) (X out coeff : Nat → Nat → α) (k : Nat) : α :=
  (sumR B fun i => -(delta out coeff i k) * m.norm2 (X i) k) * m.gamma k
    + (half * Scalar.ofNat m.nIn) * deltaSum B out coeff k
/-- `parameterVector() = to_vector(m_centers) | log(m_gamma)` restricted to the trained parts -/
def params (log : α → α) (m : RBF α) : List α :=
  (if m.trainCenters then (List.range m.nOut).flatMap fun k => (List.range m.nIn).map fun j => m.centers k j else []) ++
  (if m.trainWidth then (List.range m.nOut).map fun k => log (m.gamma k) else [])
def numberOfParameters (m : RBF α) : Nat :=
  (if m.trainCenters then m.nOut * m.nIn else 0) + (if m.trainWidth then m.nOut else 0)
/-- `setParameterVector`: centers, then `γ = exp(p)` -/
def setParams (exp : α → α) (m : RBF α) (p : List α) : RBF α :=
  let pos := if m.trainCenters then m.nOut * m.nIn else 0
  { m with centers := if m.trainCenters then fun k j => p.getD (k * m.nIn + j) 0 else m.centers
           gamma := if m.trainWidth then fun k => exp (p.getD (pos + k) 0) else m.gamma }
def gradParams (m : RBF α) (B : Nat) (X out coeff : Nat → Nat → α) : List α :=
  (if m.trainCenters then (List.range m.nOut).flatMap fun k => (List.range m.nIn).map fun j => m.gradCenter B X out coeff k j else []) ++
  (if m.trainWidth then (List.range m.nOut).map (m.gradLogGamma B X out coeff) else [])
end RBF

/-! ### `KernelExpansion` over an arbitrary kernel function -/
structure KExp (α : Type) where
  nBasis : Nat
  nOut : Nat
  basis : Nat → Nat → α
  alpha : Nat → Nat → α
  hasB : Bool
  b : Nat → α

namespace KExp
/-- `output = b (or 0); output += trans(K(basis, x)) % alpha` -/
def eval (k : (Nat → α) → (Nat → α) → α) (m : KExp α) (x : Nat → α) (o : Nat) : α :=
  (if m.hasB then m.b o else 0) + sumR m.nBasis fun s => k (m.basis s) x * m.alpha s o
def evalB (k : (Nat → α) → (Nat → α) → α) (m : KExp α) (X : Nat → Nat → α) (i o : Nat) : α :=
  (if m.hasB then m.b o else 0) + sumR m.nBasis fun s => k (m.basis s) (X i) * m.alpha s o
/-- `to_vector(m_alpha) | m_b` -/
def params (m : KExp α) : List α :=
  ((List.range m.nBasis).flatMap fun s => (List.range m.nOut).map fun o => m.alpha s o) ++
  (if m.hasB then (List.range m.nOut).map m.b else [])
def numberOfParameters (m : KExp α) : Nat := m.nBasis * m.nOut + (if m.hasB then m.nOut else 0)
def setParams (m : KExp α) (p : List α) : KExp α :=
  { m with alpha := fun s o => p.getD (s * m.nOut + o) 0
           b := fun o => p.getD (m.nBasis * m.nOut + o) 0 }
end KExp
/-- `LinearKernel` and `GaussianRbfKernel` on index-function points of dimension `n` -/
def kLinear (n : Nat) (x z : Nat → α) : α := sumR n fun j => x j * z j
def kGauss (exp : α → α) (gamma : α) (n : Nat) (x z : Nat → α) : α :=
  exp (-gamma * sumR n fun j => sqr (x j - z j))

/-! ### `Ensemble` -/
/-- weighted mean of vector-valued members: `Σ w_m·out_m / Σ w_m` (accumulated from 0 in member order) -/
def ensembleMean (ws : List α) (outs : List (Nat → α)) (k : Nat) : α :=
  sumL (List.zipWith (fun w o => w * o k) ws outs) / sumL ws
/-- weighted vote of classifying members: entry `k` is the weight of the members that answered `k`, over `Σ w` -/
def ensembleVote (ws : List α) (resp : List Nat) (k : Nat) : α :=
  sumL (List.zipWith (fun w r => if r = k then w else 0) ws resp) / sumL ws

/-! ### `CMACMap` (src/Models/CMAC.cpp) -/
structure CMAC (α : Type) where
  nIn : Nat
  nOut : Nat
  tilings : Nat
  tiles : Nat
  lower : α
  upper : α
  params : List α

namespace CMAC
def tileWidth (m : CMAC α) : α := (m.upper - m.lower) / Scalar.ofNat (m.tiles - 1)
/-- `m_offset(tiling, dim) = 0 − 0.5·width·(1+tiling)/tilings` -/
def offset (m : CMAC α) (t : Nat) : α :=
  0 - ((half * m.tileWidth) * (1 + Scalar.ofNat t)) / Scalar.ofNat m.tilings
/-- `m_dimOffset[dim] = tiles^dim` -/
def dimOffset (m : CMAC α) (dim : Nat) : Nat := m.tiles ^ dim
def perTiling (m : CMAC α) : Nat := m.tiles ^ m.nIn * m.tilings
def numberOfParameters (m : CMAC α) : Nat := m.perTiling * m.nOut
/-- `getArrayIndexForTiling` -/
def index (toNat : α → Nat) (m : CMAC α) (t : Nat) (x : Nat → α) : Nat :=
  (List.range m.nIn).foldl (fun idx dim =>
    idx + toNat (((x dim - m.lower) - m.offset t) / m.tileWidth) * m.dimOffset dim) (t * m.dimOffset m.nIn)
/-- `output(i,o) = Σ_tilings parameters(index_j + o·perTiling)` -/
def eval (toNat : α → Nat) (m : CMAC α) (x : Nat → α) (o : Nat) : α :=
  sumR m.tilings fun t => m.params.getD (m.index toNat t x + o * m.perTiling) 0
def evalB (toNat : α → Nat) (m : CMAC α) (X : Nat → Nat → α) (i o : Nat) : α := m.eval toNat (X i) o
/-- `gradient(index_j + o·perTiling) += coefficients(i,o)` over rows, outputs, tilings -/
def gradParam (toNat : α → Nat) (m : CMAC α) (B : Nat) (X coeff : Nat → Nat → α) (q : Nat) : α :=
  sumR B fun i => sumR m.nOut fun o => sumR m.tilings fun t =>
    if m.index toNat t (X i) + o * m.perTiling = q then coeff i o else 0
def setParams (m : CMAC α) (p : List α) : CMAC α := { m with params := p }
end CMAC

/-! ### parameter packing of a `ConcatenatedModel` (`Chain`): optimised layers in layer order -/
def Layer.numberOfParameters : Layer α → Nat
  | .dense m => m.numberOfParameters
  | _ => 0
def Layer.setParams : Layer α → List α → Layer α
  | .dense m, p => .dense (m.setParams p)
  | l, _ => l
def Chain.numberOfParameters : Chain α → Nat
  | [] => 0
  | (l, opt) :: rest => (if opt then l.numberOfParameters else 0) + Chain.numberOfParameters rest
/-- `ConcatenatedModel::setParameterVector`: every optimised layer takes its slice -/
def Chain.setParams : Chain α → List α → Chain α
  | [], _ => []
  | (l, true) :: rest, p =>
    (l.setParams (p.take l.numberOfParameters), true) :: Chain.setParams rest (p.drop l.numberOfParameters)
  | (l, false) :: rest, p => (l, false) :: Chain.setParams rest p

/-! ### `Conv2DModel` (Models/ConvolutionalModel.h, `blas::kernels::conv2d`)

Images are `h × w × c` (channels innermost), `nf` filters of `fh × fw × c`; the kernel `im2mat(_pad)`
lays a filter out as `[dy][dx][channel]`.  `Padding::Valid`: no padding; otherwise `fh−1`/`fw−1` rows /
columns of zeros, `⌊pad/2⌋` of them before the image.  Output `outH × outW × nf` (filters innermost). -/
structure Conv (α : Type) where
  h : Nat
  w : Nat
  c : Nat
  nf : Nat
  fh : Nat
  fw : Nat
  valid : Bool
  filt : Nat → α
  off : Nat → α
  act : Act

namespace Conv
def padH (m : Conv α) : Nat := if m.valid then 0 else m.fh - 1
def padW (m : Conv α) : Nat := if m.valid then 0 else m.fw - 1
/-- `image_height - filter_height + 1 + padding_height` in `size_t` arithmetic: with zero padding the filter may be
larger than the image (the difference wraps around and the sum is the image height again) -/
def outH (m : Conv α) : Nat := m.h + m.padH + 1 - m.fh
def outW (m : Conv α) : Nat := m.w + m.padW + 1 - m.fw
def nIn (m : Conv α) : Nat := m.h * m.w * m.c
def nOut (m : Conv α) : Nat := m.outH * m.outW * m.nf
def fsize (m : Conv α) : Nat := m.fh * m.fw * m.c
/-- the flat input index read by output pixel `pix` through filter tap `t = (dy*fw + dx)*c + channel`,
or `none` inside the zero padding -/
def tapIndex (m : Conv α) (pix t : Nat) : Option Nat :=
  let cc := t % m.c
  let d := t / m.c
  let iy := pix / m.outW + d / m.fw
  let ix := pix % m.outW + d % m.fw
  if m.padH / 2 ≤ iy ∧ iy < m.h + m.padH / 2 ∧ m.padW / 2 ≤ ix ∧ ix < m.w + m.padW / 2 then
    some (((iy - m.padH / 2) * m.w + (ix - m.padW / 2)) * m.c + cc)
  else none
def inputAt (m : Conv α) (x : Nat → α) (pix t : Nat) : α :=
  match m.tapIndex pix t with
  | some j => x j
  | none => 0
/-- pre-activation of flat output index `o = pix*nf + f` -/
def pre (m : Conv α) (x : Nat → α) (o : Nat) : α :=
  (sumR m.fsize fun t => m.inputAt x (o / m.nf) t * m.filt ((o % m.nf) * m.fsize + t)) + m.off (o % m.nf)
def evalRow (tanh : α → α) (m : Conv α) (x : Nat → α) (o : Nat) : α := m.act.eval tanh (m.pre x o)
def evalB (tanh : α → α) (m : Conv α) (X : Nat → Nat → α) (i o : Nat) : α := m.evalRow tanh (X i) o
def delta (m : Conv α) (out coeff : Nat → Nat → α) (i o : Nat) : α := coeff i o * m.act.dfac (out i o)
/-- gradient w.r.t. filter entry `q = f*fsize + t` -/
def gradFilt (m : Conv α) (B : Nat) (X out coeff : Nat → Nat → α) (q : Nat) : α :=
  sumR B fun i => sumR (m.outH * m.outW) fun pix =>
    m.delta out coeff i (pix * m.nf + q / m.fsize) * m.inputAt (X i) pix (q % m.fsize)
def gradOff (m : Conv α) (B : Nat) (out coeff : Nat → Nat → α) (f : Nat) : α :=
  sumR B fun i => sumR (m.outH * m.outW) fun pix => m.delta out coeff i (pix * m.nf + f)
/-- gradient w.r.t. input entry `j` of row `i` -/
def gradX (m : Conv α) (out coeff : Nat → Nat → α) (i j : Nat) : α :=
  sumR m.nOut fun o => sumR m.fsize fun t =>
    if m.tapIndex (o / m.nf) t = some j then m.delta out coeff i o * m.filt ((o % m.nf) * m.fsize + t) else 0
/-- `parameterVector() = m_filters | m_offset` -/
def params (m : Conv α) : List α := (List.range (m.nf * m.fsize)).map m.filt ++ (List.range m.nf).map m.off
def numberOfParameters (m : Conv α) : Nat := m.nf * m.fsize + m.nf
def setParams (m : Conv α) (p : List α) : Conv α :=
  { m with filt := fun q => p.getD q 0, off := fun f => p.getD (m.nf * m.fsize + f) 0 }
def gradParams (m : Conv α) (B : Nat) (X out coeff : Nat → Nat → α) : List α :=
  (List.range (m.nf * m.fsize)).map (m.gradFilt B X out coeff) ++ (List.range m.nf).map (m.gradOff B out coeff)
end Conv

end SharkVerif.Models
