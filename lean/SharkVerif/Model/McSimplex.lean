/-
Model of `shark::QpMcSimplexDecomp<Matrix>` (include/shark/Algorithms/QP/QpMcSimplexDecomp.h): the decomposition
problem of the formulations with a sum constraint per example (CS, ATM, ADM, MMR:
`0 ≤ α_{i,p}`, `Σ_p α_{i,p} ≤ C`), of the analytic sub-solvers it adds to those of `QpMcBoxDecomp`
(`detail::solveQuadratic2DTriangle`, `detail::maximumGainQuadratic2DOnLine`, AnalyticProblems.h) and of
`QpSolver::solve` instantiated with it.

The example/variable tables, `alpha`, `gradient`, `linear`, the counters and `gradientUpdate`,
`deactivateExample`, `unshrink` are the SAME code as in `QpMcBoxDecomp`: the state embeds the `McBox` record of
`Model/McSmo.lean` and re-uses those functions.  New state: `Example::varsum` (the running sum of the example's
variables, with its re-computation/snapping rule `updateVarsum`); the field travels with the example record when
examples are exchanged, so it is keyed by the ORIGINAL example index.  `Example::diagonal` is the constant
`K(index,index)`.

Same operations in the same order as the C++ (Float instance bit-comparable); core Lean only.
-/
import SharkVerif.Model.McSolve
namespace SharkVerif.Mc

variable {α : Type} [Add α] [Sub α] [Mul α] [Div α] [Neg α] [NatCast α] [OfScientific α]
  [LT α] [LE α] [DecidableLT α] [DecidableLE α] [BEq α]

/-! ### analytic sub-problems -/

/-- the edge loop of `solveQuadratic2DTriangle`: `if (gain > maxGain) {maxIndex = k; maxGain = gain;}` -/
def triPick (alphai alphaj gi gj Qii Qij Qjj : α) (best : (α × α) × α) (s : α × α) : (α × α) × α :=
  let g := gain2D gi gj Qii Qij Qjj (s.1 - alphai) (s.2 - alphaj)
  if g > best.2 then (s, g) else best

/-- "improve numerical stability" at the end of `solveQuadratic2DTriangle` -/
def triSnap (maxSum : α) (r : α × α) : α × α :=
  let r : α × α :=
    if r.1 < (1.e-12 : α) * maxSum then ((0.0 : α), r.2)
    else if maxSum - r.1 < (1.e-12 : α) * maxSum then (maxSum, (0.0 : α)) else r
  if r.2 < (1.e-12 : α) * maxSum then (r.1, (0.0 : α))
  else if maxSum - r.2 < (1.e-12 : α) * maxSum then ((0.0 : α), maxSum) else r

/-- the three edge solutions of `solveQuadratic2DTriangle` -/
def triEdge0 (alphai alphaj gj Qij Qjj maxSum : α) : α × α :=
  ((0.0 : α), solveEdge alphaj (gj + Qij * alphai) Qjj (0.0 : α) maxSum)
def triEdge1 (alphai alphaj gi Qii Qij maxSum : α) : α × α :=
  (solveEdge alphai (gi + Qij * alphaj) Qii (0.0 : α) maxSum, (0.0 : α))
def triEdge2 (alphai alphaj gi gj Qii Qij Qjj maxSum : α) : α × α :=
  let ggi := gi - (maxSum - alphai) * Qii + alphaj * Qij
  let ggj := gj - (maxSum - alphai) * Qij + alphaj * Qjj
  let t := solveEdge (0.0 : α) (ggj - ggi) (Qii + Qjj - (2.0 : α) * Qij) (0.0 : α) maxSum
  (maxSum - t, t)

/-- `detail::solveQuadratic2DTriangle(alphai, alphaj, gi, gj, Qii, Qij, Qjj, maxSum)`: new `(alphai, alphaj)` -/
def solve2DTriangle (alphai alphaj gi gj Qii Qij Qjj maxSum : α) : α × α :=
  let detQ := Qii * Qjj - Qij * Qij
  let mui := (Qjj * gi - Qij * gj) / detQ
  let muj := (Qii * gj - Qij * gi) / detQ
  let opti := alphai + mui
  let optj := alphaj + muj
  if detQ > (1.e-12 : α) ∧ opti > (0.0 : α) ∧ optj > (0.0 : α) ∧ opti + optj < maxSum then (opti, optj)
  else
    let s0 := triEdge0 alphai alphaj gj Qij Qjj maxSum
    let s1 := triEdge1 alphai alphaj gi Qii Qij maxSum
    let s2 := triEdge2 alphai alphaj gi gj Qii Qij Qjj maxSum
    -- `maxGain = -1; maxIndex = 0; for k: if (gain > maxGain) {maxIndex = k; maxGain = gain;}`
    let pk := triPick alphai alphaj gi gj Qii Qij Qjj
    triSnap maxSum (pk (pk (pk (s0, -(1.0 : α)) s0) s1) s2).1

/-- `detail::maximumGainQuadratic2DOnLine(Qii, Qjj, Qij, gi, gj)` (minCurvature = 1e-12) -/
def maxGainOnLine (Qii Qjj Qij gi gj : α) : α :=
  let g := gi - gj
  if g ≤ (0.0 : α) then (0.0 : α)
  else
    let Q := cmax (Qii + Qjj - (2.0 : α) * Qij) (1.e-12 : α)
    g * g / Q

/-! ### the decomposition state -/

structure McSx (α : Type) where
  b : McBox α              -- tables, alpha, gradient, linear, counters, flags (shared layout)
  varsum : Nat → α         -- `Example::varsum`, by original example index

namespace McSx

/-- constructor -/
def init (c P n : Nat) (C : α) (M : Nat → Row α) (K : Nat → Nat → α) (labels : Nat → Nat)
    (linMat : Nat → Nat → α) : McSx α :=
  { b := McBox.init c P n C M K labels linMat, varsum := fun _ => (0.0 : α) }

/-- `m_examples[e].varsum` of the example at position `e` -/
def vsum (s : McSx α) (e : Nat) : α := s.varsum (s.b.ex e).index

/-- `m_examples[e].diagonal` -/
def ediag (s : McSx α) (e : Nat) : α := s.b.K (s.b.ex e).index (s.b.ex e).index

/-- `updateVarsum(exampleId, mu)` -/
def updateVarsum (s : McSx α) (e : Nat) (mu : α) : McSx α :=
  let idx := (s.b.ex e).index
  let vs := s.varsum idx + mu
  if vs > (1.e-12 : α) ∧ s.b.C - vs > (1.e-12 : α) * s.b.C then { s with varsum := upd s.varsum idx vs }
  else
    -- recompute for numerical accuracy
    let t := (List.range s.b.P).foldl (fun acc p => acc + s.b.alpha ((s.b.ex e).var p)) (0.0 : α)
    let t := if t < (1.e-14 : α) then (0.0 : α) else t
    let t := if s.b.C - t < (1.e-14 : α) * s.b.C then s.b.C else t
    { s with varsum := upd s.varsum idx t }

/-- `getSimplexMVP(ex)` for the example at position `e`: `(up, maxUp, down, minDown)` -/
def simplexMVP (s : McSx α) (e : Nat) : α × Nat × α × Nat :=
  let ex := s.b.ex e
  (List.range ex.active).foldl (fun (st : α × Nat × α × Nat) p =>
    let v := ex.avar p
    let a := s.b.alpha v
    let g := s.b.grad v
    let st : α × Nat × α × Nat := if g > st.1 then (g, v, st.2.2.1, st.2.2.2) else st
    if a > (0.0 : α) ∧ g < st.2.2.1 then (st.1, st.2.1, g, v) else st)
    (-(1.e100 : α), ex.avar 0, (1.e100 : α), ex.avar 0)

/-- `checkKKT()` -/
def checkKKT (s : McSx α) : α :=
  (List.range s.b.activeEx).foldl (fun ret i =>
    let m := s.simplexMVP i
    let up := m.1
    let down := m.2.2.1
    let ret := cmax (-down) ret
    let ret := if s.vsum i < s.b.C then cmax up ret else ret
    if s.vsum i == s.b.C then cmax (up - down) ret else ret) (0.0 : α)

/-- `deactivateVariable(v)` (it deactivates the example as soon as its last variable is gone) -/
def deactivateVariable (s : McSx α) (v : Nat) : McSx α :=
  let ev := (s.b.vars v).i
  let b := s.b.deactivateVariable v
  if (b.ex ev).active == 0 then { s with b := b.deactivateExample ev } else { s with b := b }

/-- `unshrink()` -/
def unshrink (s : McSx α) : McSx α := { s with b := s.b.unshrink }

/-- `addDeltaLinear` -/
def addDeltaLinear (s : McSx α) (delta : Nat → Nat → α) : McSx α := { s with b := s.b.addDeltaLinear delta }

/-- `updateSMO(v, w)`; requires `v, w < activeVar` -/
def updateSMO (s : McSx α) (v w : Nat) : McSx α :=
  let b := s.b
  if v = w then
    let i := (b.vars v).i
    let p := (b.vars v).p
    let y := (b.ex i).y
    let r := b.P * y + p
    let upperBound := b.C - s.vsum i + b.alpha v
    let Qvv := (b.vars v).diagonal
    let mu := -(b.alpha v)
    let a' := solveEdge (b.alpha v) (b.grad v) Qvv (0.0 : α) upperBound
    let mu := mu + a'
    let s1 : McSx α := { s with b := { b with alpha := upd b.alpha v a' } }
    let s2 := s1.updateVarsum i mu
    { s2 with b := s2.b.gradientUpdate r mu i }
  else
    let iv := (b.vars v).i
    let pv := (b.vars v).p
    let yv := (b.ex iv).y
    let iw := (b.vars w).i
    let pw := (b.vars w).p
    let yw := (b.ex iw).y
    let rv := b.P * yv + pv
    let rw := b.P * yw + pw
    let Qvv := (b.vars v).diagonal
    let Qww := (b.vars w).diagonal
    let Qvw := b.Mget (b.c * rv + yw) pw * b.kpos iv iw
    let mu_v := -(b.alpha v)
    let mu_w := -(b.alpha w)
    if iv = iw then
      let upperBound := b.C - s.vsum iv + b.alpha v + b.alpha w
      let sol := solve2DTriangle (b.alpha v) (b.alpha w) (b.grad v) (b.grad w) Qvv Qvw Qww upperBound
      let mu_v := mu_v + sol.1
      let mu_w := mu_w + sol.2
      let s1 : McSx α := { s with b := { b with alpha := upd (upd b.alpha v sol.1) w sol.2 } }
      let s2 := s1.updateVarsum iv (mu_v + mu_w)
      { s2 with b := (s2.b.gradientUpdate rv mu_v iv).gradientUpdate rw mu_w iw }
    else
      let Uv := b.C - s.vsum iv + b.alpha v
      let Uw := b.C - s.vsum iw + b.alpha w
      let sol := solve2DBox (b.alpha v) (b.alpha w) (b.grad v) (b.grad w) Qvv Qvw Qww (0.0 : α) Uv (0.0 : α) Uw
      let mu_v := mu_v + sol.1
      let mu_w := mu_w + sol.2
      let s1 : McSx α := { s with b := { b with alpha := upd (upd b.alpha v sol.1) w sol.2 } }
      let s2 := (s1.updateVarsum iv mu_v).updateVarsum iw mu_w
      { s2 with b := (s2.b.gradientUpdate rv mu_v iv).gradientUpdate rw mu_w iw }

/-- case 1 of `shrink` for the example slot `e` (`down > 0 && varsum == C && up - down > 0`):
`for(p = pc-1; p >= 0; --p)` over the active variables; the record is re-read through the reference `ex`
at every access.  Second component of the loop state: the loop was ended by `p = 0` in the inner branch. -/
def shrinkCase1 (s : McSx α) (e : Nat) (up down : α) : McSx α :=
  let pc := (s.b.ex e).active
  ((List.range pc).foldl (fun (st : McSx α × Bool) k =>
    if st.2 then st else
    let s := st.1
    let p := pc - 1 - k
    let v := (s.b.ex e).avar p
    let a := s.b.alpha v
    let g := s.b.grad v
    if a == (0.0 : α) ∧ g - down < (0.0 : α) then (s.deactivateVariable v, false)
    else if a == s.b.C ∧ up - g < (0.0 : α) then
      -- `for(int q = (int)ex.active; q >= 0; --q) deactivateVariable(ex.avar[q]); p = 0;`
      -- (starts one past the active range; unreachable in exact arithmetic since `up ≥ g`)
      let q0 := (s.b.ex e).active
      ((List.range (q0 + 1)).foldl (fun (s : McSx α) j => s.deactivateVariable ((s.b.ex e).avar (q0 - j))) s, true)
    else (s, false)) (s, false)).1

/-- case 2 of `shrink` (`varsum == 0 && up < 0`): deactivate every active variable of the slot, last first -/
def shrinkCase2 (s : McSx α) (e : Nat) : McSx α :=
  let pc := (s.b.ex e).active
  (List.range pc).foldl (fun (s : McSx α) k => s.deactivateVariable ((s.b.ex e).avar (pc - 1 - k))) s

/-- `shrink(epsilon)`; the Boolean is the return value -/
def shrink (s : McSx α) (eps : α) : McSx α × Bool :=
  if !s.b.useShrinking then (s, false) else
  let s :=
    if !s.b.unshrinked then
      if s.checkKKT < (10.0 : α) * eps then { s.unshrink with b := { s.unshrink.b with unshrinked := true } } else s
    else s
  let E0 := s.b.activeEx
  let s := (List.range E0).foldl (fun (s : McSx α) k =>
    let e := E0 - 1 - k
    let m := s.simplexMVP e
    let up := m.1
    let down := m.2.2.1
    if down > (0.0 : α) ∧ s.vsum e == s.b.C ∧ up - down > (0.0 : α) then s.shrinkCase1 e up down
    else if s.vsum e == (0.0 : α) ∧ up < (0.0 : α) ∧ down > (0.0 : α) then s.shrinkCase2 e
    else s) s
  (s, true)

/-- `maxGainBox(i)`: `((i, bestj), bestGain)` -/
def maxGainBox (s : McSx α) (i : Nat) : (Nat × Nat) × α :=
  let b := s.b
  let e := (b.vars i).i
  let pi := (b.vars i).p
  let yi := (b.ex e).y
  let Qii := (b.vars i).diagonal
  let gi := b.grad i
  if s.vsum e == b.C ∧ gi > (0.0 : α) then ((i, i), (0.0 : α)) else
  let r := (List.range b.activeEx).foldl (fun (st : Nat × α) a =>
    if a = e then st else
    let exa := b.ex a
    let canGrow := !(s.vsum a == b.C)
    let row := b.M (b.c * (yi * b.P + pi) + exa.y)
    let d := row.dflt
    let ka := b.kpos e a
    ((List.range b.P).foldl (fun (w : (Nat × α) × List (Nat × α)) p =>
      let j := exa.var p
      let Qjj := (b.vars j).diagonal
      let gj := b.grad j
      let qr : α × List (Nat × α) :=
        match w.2 with
        | en :: tl => if p = en.1 then (en.2 * ka, tl) else (d * ka, w.2)
        | [] => (d * ka, [])
      if j ≥ b.activeVar ∨ (b.alpha j == (0.0 : α) ∧ gj ≤ (0.0 : α)) ∨ (!canGrow ∧ gj ≥ (0.0 : α)) then (w.1, qr.2) else
      let gain := McBox.maxGain2D Qii Qjj qr.1 gi gj (1.e-12 : α)
      if w.1.2 < gain then ((j, gain), qr.2) else (w.1, qr.2)) (st, row.entries)).1)
    (i, gi * gi / Qii)
  ((i, r.1), r.2)

/-- `maxGainSimplex(e)`: `((besti, bestj), bestGain)` -/
def maxGainSimplex (s : McSx α) (e : Nat) : (Nat × Nat) × α :=
  let b := s.b
  let ex := b.ex e
  let pc := ex.active
  let y := ex.y
  let canGrow := decide (s.vsum e < b.C)
  let Qee := s.ediag e
  (List.range pc).foldl (fun (st : (Nat × Nat) × α) p1 =>
    let i := ex.avar p1
    let gi := b.grad i
    let ai := b.alpha i
    let Qii := (b.vars i).diagonal
    let st : (Nat × Nat) × α :=
      if (gi < (0.0 : α) ∧ ai > (0.0 : α)) ∨ (gi > (0.0 : α) ∧ canGrow) then
        let gain := gi * gi / Qii
        if gain > st.2 then ((i, i), gain) else st
      else st
    let row := b.M (b.c * (y * b.P + (b.vars i).p) + y)
    let d := row.dflt
    ((List.range b.P).foldl (fun (w : ((Nat × Nat) × α) × List (Nat × α)) p2 =>
      let j := ex.var p2
      let gj := b.grad j
      let aj := b.alpha j
      let Qjj := (b.vars j).diagonal
      let qr : α × List (Nat × α) :=
        match w.2 with
        | en :: tl => if p2 = en.1 then (en.2 * Qee, tl) else (d * Qee, w.2)
        | [] => (d * Qee, [])
      if j ≥ b.activeVar ∨ j ≤ i then (w.1, qr.2) else
      let gain : α :=
        if !canGrow ∧ gi > (0.0 : α) ∧ gj > (0.0 : α) then
          let gainUp := if aj > (0.0 : α) ∧ gi - gj > (0.0 : α) then maxGainOnLine Qii Qjj qr.1 gi gj else (0.0 : α)
          let gainDown := if ai > (0.0 : α) ∧ gj - gi > (0.0 : α) then maxGainOnLine Qjj Qii qr.1 gj gi else (0.0 : α)
          cmax gainUp gainDown
        else if ¬(gi ≤ (0.0 : α) ∧ ai == (0.0 : α)) ∧ ¬(gj ≤ (0.0 : α) ∧ aj == (0.0 : α)) then
          McBox.maxGain2D Qii Qjj qr.1 gi gj (1.e-12 : α)
        else (0.0 : α)
      if gain > w.1.2 then (((i, j), gain), qr.2) else (w.1, qr.2)) (st, row.entries)).1)
    ((0, 0), -(1.e100 : α))

/-- `selectWorkingSet(i, j)`: `(i, j, max(maxGradient, maxSimplexGradient))` -/
def selectWorkingSet (s : McSx α) : Nat × Nat × α :=
  let b := s.b
  -- first order selection: (maxGradient, i, maxSimplexGradient, maxSimplexExample)
  let f := (List.range b.activeEx).foldl (fun (st : α × Nat × α × Nat) e =>
    let canGrow := decide (s.vsum e < b.C)
    let m := s.simplexMVP e
    let up := m.1
    let down := m.2.2.1
    let st : α × Nat × α × Nat := if !canGrow ∧ up - down > st.2.2.1 then (st.1, st.2.1, up - down, e) else st
    let st : α × Nat × α × Nat := if canGrow ∧ up > st.1 then (up, m.2.1, st.2.2.1, st.2.2.2) else st
    if -down > st.1 then (-down, m.2.2.2, st.2.2.1, st.2.2.2) else st)
    ((0.0 : α), 0, (0.0 : α), 0)
  let maxGradient := f.1
  let i := f.2.1
  let maxSimplexGradient := f.2.2.1
  let maxSimplexExample := f.2.2.2
  let best : (Nat × Nat) × α :=
    if maxGradient > (0.0 : α) then s.maxGainBox i else ((i, i), (0.0 : α))
  let sp := s.maxGainSimplex (b.vars i).i
  let best := if sp.2 > best.2 then sp else best
  let best :=
    if maxSimplexGradient > (0.0 : α) then
      let sb := s.maxGainSimplex maxSimplexExample
      if sb.2 > best.2 then sb else best
    else best
  (best.1.1, best.1.2, cmax maxGradient maxSimplexGradient)

end McSx

/-! ### `QpSolver<QpMcSimplexDecomp>::solve` (the same loop as in `Model/McSolve.lean`) -/

structure SolveStX (α : Type) where
  s : McSx α
  iter : Nat
  shrinkCounter : Nat
  stop : StopType

def solveTailX (eps : α) (st : SolveStX α) (i j : Nat) : SolveStX α :=
  let s := st.s
  if i < s.b.activeVar ∧ j < s.b.activeVar then
    let s1 := s.updateSMO i j
    let r : McSx α × Nat :=
      if st.shrinkCounter = 0 then
        let q := s1.shrink eps
        (q.1, if q.2 then (if 1000 < s1.b.numVars then s1.b.numVars else 1000) else 0)
      else (s1, st.shrinkCounter)
    { s := r.1, iter := st.iter + 1, shrinkCounter := usub64 r.2 1, stop := .running }
  else { st with stop := .stuck }

def solveBodyX (eps : α) (st : SolveStX α) : SolveStX α :=
  let s := st.s
  let sel := s.selectWorkingSet
  if sel.2.2 < eps then
    let s1 := s.unshrink
    if s1.checkKKT < eps then { st with s := s1, stop := .accuracy }
    else
      let s2 := (s1.shrink eps).1
      let sel2 := s2.selectWorkingSet
      solveTailX eps { st with s := s2 } sel2.1 sel2.2.1
  else solveTailX eps st sel.1 sel.2.1

def solveLoopX (eps : α) : Nat → SolveStX α → SolveStX α
  | 0, st => { st with s := st.s.unshrink, stop := .maxIter }   -- `m_problem.unshrink()` after the loop (repair of F-C07-8)
  | fuel + 1, st =>
    let st' := solveBodyX eps st
    if st'.stop = .running then solveLoopX eps fuel st' else st'

/-- the loop with a re-tabulation of the state after every pass (what the native driver runs);
`solveLoopXWith id = solveLoopX` -/
def solveLoopXWith (norm : McSx α → McSx α) (eps : α) : Nat → SolveStX α → SolveStX α
  | 0, st => { st with s := st.s.unshrink, stop := .maxIter }   -- `m_problem.unshrink()` after the loop (repair of F-C07-8)
  | fuel + 1, st =>
    let st' := solveBodyX eps st
    let st' := { st' with s := norm st'.s }
    if st'.stop = .running then solveLoopXWith norm eps fuel st' else st'

def solveX (s : McSx α) (eps : α) (maxIter : Nat) : SolveStX α :=
  solveLoopX eps maxIter { s := s, iter := 0, shrinkCounter := 0, stop := .running }

def SolveStX.accuracy (st : SolveStX α) : α := st.s.selectWorkingSet.2.2

end SharkVerif.Mc
