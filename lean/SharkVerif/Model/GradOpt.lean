/-
Executable models of Shark's gradient-based optimizers (property C10).

  SteepestDescent   include/shark/Algorithms/GradientDescent/SteepestDescent.h
  Adam              include/shark/Algorithms/GradientDescent/Adam.h
  Rprop family      src/Algorithms/GradientDescent/Rprop.cpp
  AbstractLineSearchOptimizer (init/step bookkeeping)
                    src/Algorithms/GradientDescent/AbstractLineSearchOptimizer.cpp
  backtracking      src/Algorithms/GradientDescent/LineSearch.cpp
  BFGS / CG / LBFGS src/Algorithms/GradientDescent/{BFGS,CG,LBFGS}.cpp

Core Lean only (also compiled into the native driver `drv_c10`).  Everything is
polymorphic over `Scalar α` and over an abstract objective.  The models follow
the C++ statement by statement, including its odd branches (e.g. the CG
"restart" that *subtracts* the gradient from the old direction instead of
resetting it, the BFGS reset for `d < 1e-20`, Rprop's stale `deltaw`).
-/
import SharkVerif.Model.OptScalar
namespace SharkVerif.Opt

/-- what an optimizer can ask of an objective function
(`AbstractObjectiveFunction`: `eval`, `evalDerivative`, `isFeasible`,
`isConstrained`, box bounds of a `BoxConstraintHandler`) -/
structure Objective (α : Type) where
  f : Vec α → α
  grad : Vec α → Vec α
  feasible : Vec α → Bool
  constrained : Bool
  lower : Vec α
  upper : Vec α

/-- `SingleObjectiveResultSet`: the reported solution -/
structure Best (α : Type) where
  point : Vec α
  value : α

variable {α : Type} [Scalar α]

/-! ## SteepestDescent -/

structure SD (α : Type) where
  learningRate : α
  momentum : α
  path : Vec α
  derivative : Vec α
  best : Best α

namespace SD
def init (o : Objective α) (lr mom : α) (x0 : Vec α) : SD α :=
  { learningRate := lr, momentum := mom, path := Vec.zeros x0.length,
    derivative := o.grad x0, best := ⟨x0, o.f x0⟩ }

/-- `m_path = -m_learningRate * m_derivative + m_momentum * m_path; m_best.point += m_path;` -/
def step (o : Objective α) (s : SD α) : SD α :=
  let path := List.zipWith (fun d p => (-s.learningRate) * d + s.momentum * p) s.derivative s.path
  let pt := Vec.add s.best.point path
  { s with path := path, derivative := o.grad pt, best := ⟨pt, o.f pt⟩ }

/-- the members `write` archives (as of the repaired tree, finding F8a): everything `step` reads -/
structure Saved (α : Type) where
  path : Vec α
  learningRate : α
  momentum : α
  derivative : Vec α
  best : Best α

def write (s : SD α) : Saved α := ⟨s.path, s.learningRate, s.momentum, s.derivative, s.best⟩
/-- `read` into an arbitrary (fresh) instance -/
def read (_fresh : SD α) (a : Saved α) : SD α :=
  { learningRate := a.learningRate, momentum := a.momentum, path := a.path,
    derivative := a.derivative, best := a.best }
end SD

/-! ## Adam -/

structure Adam (α : Type) where
  beta1 : α
  beta2 : α
  epsilon : α
  eta : α
  avgGrad : Vec α
  secondMoment : Vec α
  counter : Nat
  derivative : Vec α
  best : Best α

namespace Adam
def init (o : Objective α) (eta beta1 beta2 eps : α) (x0 : Vec α) : Adam α :=
  { beta1 := beta1, beta2 := beta2, epsilon := eps, eta := eta,
    avgGrad := Vec.zeros x0.length, secondMoment := Vec.zeros x0.length, counter := 0,
    derivative := o.grad x0, best := ⟨x0, o.f x0⟩ }

/-- `sqrt` and `pow` (libm) are parameters -/
def step (sqrt : α → α) (pow : α → Nat → α) (o : Objective α) (s : Adam α) : Adam α :=
  let one : α := Scalar.one
  let avg := List.zipWith (fun a d => s.beta1 * a + (one - s.beta1) * d) s.avgGrad s.derivative
  let sm := List.zipWith (fun m d => s.beta2 * m + (one - s.beta2) * (d * d)) s.secondMoment s.derivative
  let c := s.counter + 1
  let bias1 := one - pow s.beta1 c
  let bias2 := one - pow s.beta2 c
  let upd := List.zipWith (fun a m => ((s.eta / bias1) * a) / (s.epsilon + sqrt (m / bias2))) avg sm
  let pt := Vec.sub s.best.point upd
  { s with avgGrad := avg, secondMoment := sm, counter := c, derivative := o.grad pt, best := ⟨pt, o.f pt⟩ }

/-- `Adam::write` archives every member -/
def write (s : Adam α) : Adam α := s
def read (_fresh : Adam α) (a : Adam α) : Adam α := a
end Adam

/-! ## Rprop family (Rprop-, IRprop-, Rprop+, IRprop+ by three flags) -/

structure Rprop (α : Type) where
  increaseFactor : α
  decreaseFactor : α
  maxDelta : α
  minDelta : α
  useFreezing : Bool
  useBacktracking : Bool
  useOldValue : Bool
  oldValue : α
  delta : Vec α
  deltaw : Vec α
  oldDerivative : Vec α
  derivative : Vec α
  best : Best α

namespace Rprop

/-- `delta * -boost::math::sign(d)` -/
def negSignMul (delta d : α) : α :=
  if Scalar.zero < d then -delta else if d < Scalar.zero then delta else Scalar.zero

/-- the loop-carried part of the state inside `step` -/
structure Loop (α : Type) where
  point : Vec α
  delta : Vec α
  deltaw : Vec α
  oldDerivative : Vec α

/-- the branch taken by coordinate `i` of `Rprop::step`, before the feasibility test:
(new delta_i, new deltaw_i, new oldDerivative, point_i before the step is added) -/
def coordChoice (s : Rprop α) (l : Loop α) (i : Nat) : α × α × Vec α × α :=
  let p := Vec.get l.point i
  let di := Vec.get s.derivative i
  let direction := di * Vec.get l.oldDerivative i
  let old := l.oldDerivative.set i di
  let dl := Vec.get l.delta i
  let dw := Vec.get l.deltaw i
  if Scalar.zero < direction then
    let d' := Scalar.min s.maxDelta (s.increaseFactor * dl)
    (d', negSignMul d' di, old, p)
  else if direction < Scalar.zero then
    let d' := Scalar.max s.minDelta (s.decreaseFactor * dl)
    let old' := if s.useFreezing then old.set i Scalar.zero else old
    if !s.useBacktracking then (d', negSignMul d' di, old', p)
    else if !s.useOldValue || decide (s.oldValue < s.best.value) then (d', Scalar.zero, old', p - dw)
    else (d', dw, old', p)      -- the stale `deltaw` of the previous step is applied again
  else (dl, negSignMul dl di, old, p)

/-- body of the coordinate loop of `Rprop::step` for coordinate `i` -/
def coord (o : Objective α) (s : Rprop α) (l : Loop α) (i : Nat) : Loop α :=
  let r := coordChoice s l i
  let pt := l.point.set i (r.2.2.2 + r.2.1)
  if o.feasible pt then
    { point := pt, delta := l.delta.set i r.1, deltaw := l.deltaw.set i r.2.1, oldDerivative := r.2.2.1 }
  else
    { point := pt.set i (Vec.get l.point i), delta := l.delta.set i (r.1 * s.decreaseFactor),
      deltaw := l.deltaw.set i r.2.1, oldDerivative := r.2.2.1.set i Scalar.zero }

def init (o : Objective α) (inc dec maxD minD : α) (fr bt ov : Bool) (big initDelta : α) (x0 : Vec α) : Rprop α :=
  { increaseFactor := inc, decreaseFactor := dec, maxDelta := maxD, minDelta := minD,
    useFreezing := fr, useBacktracking := bt, useOldValue := ov, oldValue := big,
    delta := List.replicate x0.length initDelta, deltaw := Vec.zeros x0.length,
    oldDerivative := Vec.zeros x0.length, derivative := o.grad x0, best := ⟨x0, o.f x0⟩ }

def step (o : Objective α) (s : Rprop α) : Rprop α :=
  let l := (List.range s.best.point.length).foldl (coord o s)
    ⟨s.best.point, s.delta, s.deltaw, s.oldDerivative⟩
  { s with delta := l.delta, deltaw := l.deltaw, oldDerivative := l.oldDerivative,
           oldValue := s.best.value, derivative := o.grad l.point, best := ⟨l.point, o.f l.point⟩ }

/-- members archived by `Rprop::write` on the repaired tree (finding F8b adds `derivative`);
the three flags are configuration set on the receiving instance -/
structure Saved (α : Type) where
  delta : Vec α
  deltaw : Vec α
  oldDerivative : Vec α
  oldValue : α
  increaseFactor : α
  decreaseFactor : α
  maxDelta : α
  minDelta : α
  best : Best α
  derivative : Vec α

def write (s : Rprop α) : Saved α :=
  ⟨s.delta, s.deltaw, s.oldDerivative, s.oldValue, s.increaseFactor, s.decreaseFactor,
   s.maxDelta, s.minDelta, s.best, s.derivative⟩
/-- `read` into an instance configured with the same variant flags -/
def read (fresh : Rprop α) (a : Saved α) : Rprop α :=
  { fresh with delta := a.delta, deltaw := a.deltaw, oldDerivative := a.oldDerivative,
               oldValue := a.oldValue, increaseFactor := a.increaseFactor,
               decreaseFactor := a.decreaseFactor, maxDelta := a.maxDelta, minDelta := a.minDelta,
               best := a.best, derivative := a.derivative }
end Rprop

end SharkVerif.Opt

namespace SharkVerif.Opt
variable {α : Type} [Scalar α]

/-! ## Line searches (`LineSearch.cpp`) -/

/-- what a line search returns: new point, its value, its gradient -/
structure LSOut (α : Type) where
  point : Vec α
  value : α
  gradient : Vec α

/-- a line search as a function
`(objective, point, value, direction, gradient, initial step) ↦ (point', value', gradient')` -/
abbrev LineSearch (α : Type) := Objective α → Vec α → α → Vec α → Vec α → α → LSOut α

/-- the loop of `backtracking`: at most `fuel` trial evaluations, step halved after each
rejection; accept iff `f_new < value + c1 * t * gtd`. -/
def backtrackGo (o : Objective α) (point dir : Vec α) (value gtd : α) : Nat → α → Option (α × α × Vec α)
  | 0, _ => none
  | k+1, t =>
    let p := Vec.axpy point t dir
    let fnew := o.f p
    if fnew < value + Scalar.ofRat (1/10000) * t * gtd then some (t, fnew, o.grad p)
    else backtrackGo o point dir value gtd k (t * Scalar.half)

/-- `backtracking(point, searchDirection, value, func, gradient, t)`; `maxIter = 100`;
on failure point, value and gradient are left untouched -/
def backtracking : LineSearch α := fun o point value dir gradient t =>
  let gtd := Vec.dot gradient dir
  match backtrackGo o point dir value gtd 100 t with
  | some (t', fnew, gnew) => ⟨Vec.axpy point t' dir, fnew, gnew⟩
  | none => ⟨point, value, gradient⟩

/-! ## AbstractLineSearchOptimizer with its three models -/

inductive LSModel (α : Type) where
  | bfgs (H : Mat α)
  | cg (count : Nat)
  | lbfgs (numHist : Nat) (bdiag : α) (hist : List (Vec α × Vec α))   -- (step, gradient difference), oldest first

structure LSOpt (α : Type) where
  dim : Nat
  initialStep : α
  best : Best α
  derivative : Vec α
  dir : Vec α
  lastDerivative : Vec α
  lastPoint : Vec α
  lastValue : α
  model : LSModel α

namespace LSOpt

/-- `while(!isFeasible(point + isl*dir)) isl /= 2` (terminates in the C++ at the latest when
`isl` underflows to 0, i.e. after < 1100 halvings, because the starting point is feasible) -/
def shrinkInitialStep (o : Objective α) (point dir : Vec α) : Nat → α → α
  | 0, t => t
  | k+1, t => if o.feasible (Vec.axpy point t dir) then t else shrinkInitialStep o point dir k (t / Scalar.two)

def initModel (n : Nat) : LSModel α → LSModel α
  | .bfgs _ => .bfgs (Mat.identity n)
  | .cg _ => .cg 0
  | .lbfgs h _ _ => .lbfgs h Scalar.one []

/-- `AbstractLineSearchOptimizer::init` (`kind` only selects the model; its contents are reset) -/
def init (o : Objective α) (kind : LSModel α) (x0 : Vec α) : LSOpt α :=
  let g := o.grad x0
  let dir := Vec.neg g
  let isl := Scalar.min Scalar.one (Scalar.one / Vec.norm1 g)
  { dim := x0.length, initialStep := shrinkInitialStep o x0 dir 1100 isl,
    best := ⟨x0, o.f x0⟩, derivative := g, dir := dir,
    lastDerivative := Vec.zeros x0.length, lastPoint := Vec.zeros x0.length, lastValue := o.f x0,
    model := initModel x0.length kind }

def outer (a b : Vec α) (f : α → α → α → α) (H : Mat α) : Mat α :=
  List.zipWith (fun (row : Vec α) (ai : α) => List.zipWith (fun hij bj => f hij ai bj) row b) H a

/-- `BFGS::computeSearchDirection` -/
def bfgsUpdate (H : Mat α) (gamma delta : Vec α) : Mat α :=
  let d := Vec.dot gamma delta
  let Hg := Mat.mulVec H gamma
  if d < Scalar.ofRat (1/100000000000000000000) then Mat.identity gamma.length
  else
    let scale := (Vec.dot gamma Hg / d + Scalar.one) / d
    -- H_ij += scale*(δ_i δ_j) - (Hg_i δ_j + δ_i Hg_j)/d
    List.zipWith (fun (row : Vec α) (ih : α × α) =>
      List.zipWith (fun hij (jh : α × α) =>
        hij + (scale * (ih.1 * jh.1) - (ih.2 * jh.1 + ih.1 * jh.2) / d)) row (List.zip delta Hg))
      H (List.zip delta Hg)

/-- L-BFGS two-loop recursion `multBInv` -/
def multBInv (bdiag : α) (hist : List (Vec α × Vec α)) (x : Vec α) : Vec α :=
  -- backward pass, newest first; collects (rho, alpha, s, y) in oldest-first order
  let back := hist.reverse.foldl (fun (acc : Vec α × List (α × α × Vec α × Vec α)) (sy : Vec α × Vec α) =>
    let rho := Scalar.one / Vec.dot sy.2 sy.1
    let alpha := rho * Vec.dot sy.1 acc.1
    (Vec.axpy acc.1 (-alpha) sy.2, (rho, alpha, sy.1, sy.2) :: acc.2)) (x, [])
  let x1 := back.1.map (· / bdiag)
  back.2.foldl (fun (x : Vec α) (r : α × α × Vec α × Vec α) =>
    let beta := r.1 * Vec.dot r.2.2.2 x
    List.zipWith (fun xi si => xi + si * (r.2.1 - beta)) x r.2.2.1) x1

/-- `LBFGS::updateHist` -/
def lbfgsUpdateHist (numHist : Nat) (bdiag : α) (hist : List (Vec α × Vec α)) (y s : Vec α) :
    α × List (Vec α × Vec α) :=
  let ys := Vec.dot y s
  if Scalar.ofRat (1/10000000000) < ys then
    let hist := if hist.length ≥ numHist then hist.drop 1 else hist
    (Vec.dot y y / ys, hist ++ [(s, y)])
  else (bdiag, hist)

/-! ### box-constrained L-BFGS direction (`LBFGS::getBoxConstrainedDirection`)

The two implicit-matrix products are parameters: `binv` is `multBInv` (modelled above), `bmul` is
`multB` (compact representation with a square root and BLAS products; a parameter like `sqrt`/`pow`
in Adam).  The function is written on a list of per-coordinate records so that the per-coordinate
guarantees can be stated by membership. -/

/-- per-coordinate data after the split into movable ("active") and blocked variables -/
structure BoxCoord (α : Type) where
  l : α
  u : α
  x : α
  /-- movable (`active` in the C++) -/
  act : Bool
  /-- `-g_i` on movable coordinates, 0 on blocked ones -/
  p0 : α
  /-- `(B⁻¹ p0)_i` on movable coordinates, 0 on blocked ones -/
  step : α

namespace Box

/-- `double eps = 1.e-13` -/
def eps : α := Scalar.ofRat (1 / 10000000000000)

/-- `(l(i) > x(i) - eps && p0(i) < 0) || (u(i) < x(i) + eps && p0(i) > 0)` -/
def blocked (l u x p : α) : Bool :=
  (decide (x - eps < l) && decide (p < Scalar.zero)) || (decide (u < x + eps) && decide (Scalar.zero < p))

/-- `p0 = -m_derivative` with the blocked coordinates zeroed -/
def p0 (l u x g : Vec α) : Vec α :=
  List.zipWith (fun (lu : α × α) (xg : α × α) =>
    if blocked lu.1 lu.2 xg.1 (-xg.2) then Scalar.zero else -xg.2) (List.zip l u) (List.zip x g)

/-- the records; `step = p0; multBInv(step); step(i) = 0 for blocked i` -/
def coords (binv : Vec α → Vec α) (l u x g : Vec α) : List (BoxCoord α) :=
  let st := binv (p0 l u x g)
  List.zipWith (fun (lux : α × α × α) (gs : α × α) =>
    let b := blocked lux.1 lux.2.1 lux.2.2 (-gs.1)
    { l := lux.1, u := lux.2.1, x := lux.2.2, act := !b,
      p0 := if b then Scalar.zero else -gs.1, step := if b then Scalar.zero else gs.2 })
    (List.zip l (List.zip u x)) (List.zip g st)

/-- `(l(i) > x(i) - eps + step(i)) || (u(i) < x(i) + eps + step(i))` on a movable coordinate -/
def stepInfeasibleAt (c : BoxCoord α) : Bool :=
  c.act && (decide (c.x - eps + c.step < c.l) || decide (c.u < c.x + eps + c.step))

/-- body of the step-length clipping loop for one coordinate:
`if(d_i == 0) continue; la = (l_i - pt_i)/d_i; ua = (u_i - pt_i)/d_i;
if(la > 0) alpha = min(alpha, la); if(ua > 0) alpha = min(alpha, ua)` (movable coordinates only) -/
def clipStep (pt d : BoxCoord α → α) (alpha : α) (c : BoxCoord α) : α :=
  if !c.act || Scalar.beq (d c) Scalar.zero then alpha else
    let la := (c.l - pt c) / d c
    let ua := (c.u - pt c) / d c
    let alpha := if Scalar.zero < la then Scalar.min alpha la else alpha
    if Scalar.zero < ua then Scalar.min alpha ua else alpha

/-- the step-length clipping loop (used twice: from `x` along the Cauchy step, from the Cauchy point
along `step - cauchy`), started with `alpha = a0` (1 in the C++) -/
def clip (pt d : BoxCoord α → α) (cs : List (BoxCoord α)) (a0 : α) : α :=
  cs.foldl (clipStep pt d) a0

/-- `cauchy = p0 / inner_prod(p0, Bp0)` -/
def cauchy (pBp : α) (c : BoxCoord α) : α := c.p0 / pBp

/-- the body of `getBoxConstrainedDirection` after `step` has been computed; `pBp = p0ᵀ B p0` -/
def direction (pBp : α) (cs : List (BoxCoord α)) : Vec α :=
  let p := cs.map (·.p0)
  if Scalar.beq (Vec.normSqr p) Scalar.zero then p            -- stationary on the movable variables
  else if !(cs.any stepInfeasibleAt) then cs.map (·.step)     -- the quasi-Newton step is feasible
  else
    let alpha := clip (·.x) (cauchy pBp) cs Scalar.one
    if alpha < Scalar.one then cs.map fun c => alpha * cauchy pBp c   -- clipped Cauchy step
    else
      let alpha2 := clip (fun c => c.x + cauchy pBp c) (fun c => c.step - cauchy pBp c) cs Scalar.one
      cs.map fun c => cauchy pBp c + alpha2 * (c.step - cauchy pBp c)  -- dog-leg

/-! #### the two repaired variants (findings F-C10-12/13: clipping by the sign of the direction; F-C10-14: Cauchy
step scaled by `|p0|²`); which one a tree contains is regenerated from its source (`Gen/LbfgsBox.lean`) -/

structure Variant where
  clipBySign : Bool
  cauchyScaled : Bool
  deriving DecidableEq, Repr

/-- `double bound = d_i > 0 ? u_i : l_i; alpha = std::min(alpha, std::max(0.0, (bound - pt_i)/d_i));` -/
def clipStepSign (pt d : BoxCoord α → α) (alpha : α) (c : BoxCoord α) : α :=
  if !c.act || Scalar.beq (d c) Scalar.zero then alpha else
    let bound := if Scalar.zero < d c then c.u else c.l
    Scalar.min alpha (Scalar.max Scalar.zero ((bound - pt c) / d c))

def clipV (v : Variant) (pt d : BoxCoord α → α) (cs : List (BoxCoord α)) (a0 : α) : α :=
  bif v.clipBySign then cs.foldl (clipStepSign pt d) a0 else clip pt d cs a0

/-- `cauchy = p0 * (norm_sqr(p0) / inner_prod(p0,Bp0))` (scaled) or `p0 / inner_prod(p0,Bp0)`; `pp = p0ᵀp0` -/
def cauchyV (v : Variant) (pp pBp : α) (c : BoxCoord α) : α :=
  bif v.cauchyScaled then c.p0 * (pp / pBp) else cauchy pBp c

/-- `direction` for either variant; `directionV ⟨false, false⟩ pp = direction` (`directionV_head`) -/
def directionV (v : Variant) (pp pBp : α) (cs : List (BoxCoord α)) : Vec α :=
  let p := cs.map (·.p0)
  if Scalar.beq (Vec.normSqr p) Scalar.zero then p
  else if !(cs.any stepInfeasibleAt) then cs.map (·.step)
  else
    let alpha := clipV v (·.x) (cauchyV v pp pBp) cs Scalar.one
    if alpha < Scalar.one then cs.map fun c => alpha * cauchyV v pp pBp c
    else
      let alpha2 := clipV v (fun c => c.x + cauchyV v pp pBp c) (fun c => c.step - cauchyV v pp pBp c) cs Scalar.one
      cs.map fun c => cauchyV v pp pBp c + alpha2 * (c.step - cauchyV v pp pBp c)

def directionOfV (v : Variant) (binv bmul : Vec α → Vec α) (l u x g : Vec α) : Vec α :=
  let p := p0 l u x g
  directionV v (Vec.normSqr p) (Vec.dot p (bmul p)) (coords binv l u x g)

/-- `getBoxConstrainedDirection(searchDirection, l, u)` at point `x` with gradient `g` -/
def directionOf (binv bmul : Vec α → Vec α) (l u x g : Vec α) : Vec α :=
  let p := p0 l u x g
  direction (Vec.dot p (bmul p)) (coords binv l u x g)

end Box

/-- `computeSearchDirection` of the three subclasses (L-BFGS: unconstrained branch).
Input: the state after the line search. -/
def computeSearchDirection (s : LSOpt α) : LSOpt α :=
  match s.model with
  | .bfgs H =>
    let gamma := Vec.sub s.derivative s.lastDerivative
    let delta := Vec.sub s.best.point s.lastPoint
    let H' := bfgsUpdate H gamma delta
    { s with model := .bfgs H', dir := Vec.neg (Mat.mulVec H' s.derivative) }
  | .cg count =>
    let count := count + 1
    if count = s.dim then { s with model := .cg 0, dir := Vec.neg s.derivative }
    else
      let gg := Vec.normSqr s.derivative
      let divisor := Vec.dot s.dir (Vec.sub s.derivative s.lastDerivative)
      if Scalar.beq gg Scalar.zero || decide (Scalar.abs divisor ≤ Scalar.ofRat (1/10000000000) * gg) then
        -- the C++ "restart" keeps the old direction: `noalias(m_searchDirection) -= m_derivative`
        { s with model := .cg 0, dir := Vec.sub s.dir s.derivative }
      else
        let beta := gg / divisor
        { s with model := .cg count, dir := Vec.sub (Vec.smul beta s.dir) s.derivative }
  | .lbfgs h bdiag hist =>
    let y := Vec.sub s.derivative s.lastDerivative
    let st := Vec.sub s.best.point s.lastPoint
    let (bdiag', hist') := lbfgsUpdateHist h bdiag hist y st
    { s with model := .lbfgs h bdiag' hist', dir := multBInv bdiag' hist' (Vec.neg s.derivative) }

/-- bookkeeping of `AbstractLineSearchOptimizer::step` up to (not including) `computeSearchDirection` -/
def afterLineSearch (ls : LineSearch α) (o : Objective α) (s : LSOpt α) : LSOpt α :=
  let r := ls o s.best.point s.best.value s.dir s.derivative s.initialStep
  { s with lastDerivative := s.derivative, lastPoint := s.best.point, lastValue := s.best.value,
           best := ⟨r.point, r.value⟩, derivative := r.gradient, initialStep := Scalar.one }

/-- `AbstractLineSearchOptimizer::step` -/
def step (ls : LineSearch α) (o : Objective α) (s : LSOpt α) : LSOpt α :=
  computeSearchDirection (afterLineSearch ls o s)

/-- `write`/`read` of AbstractLineSearchOptimizer + subclass archive every field of the model state
(the line-search type is configuration of `ls`; the objective pointer is re-attached by `step`
on the repaired tree, finding F8f) -/
def write (s : LSOpt α) : LSOpt α := s
def read (_fresh : LSOpt α) (a : LSOpt α) : LSOpt α := a
end LSOpt

end SharkVerif.Opt
