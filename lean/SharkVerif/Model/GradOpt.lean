/-
Executable models of Shark's gradient-based optimizers (property C10).

  SteepestDescent   include/shark/Algorithms/GradientDescent/SteepestDescent.h
  Adam              include/shark/Algorithms/GradientDescent/Adam.h
  Rprop family      src/Algorithms/GradientDescent/Rprop.cpp
  AbstractLineSearchOptimizer (init/step bookkeeping)
                    src/Algorithms/GradientDescent/AbstractLineSearchOptimizer.cpp
  backtracking      src/Algorithms/GradientDescent/LineSearch.cpp
  BFGS / CG / LBFGS src/Algorithms/GradientDescent/{BFGS,CG,LBFGS}.cpp

Core Lean only (also compiled into the native driver `drv_c10`).  Everything is
polymorphic over `Scalar α` and over an abstract objective.  The models follow
the C++ statement by statement, including its odd branches (e.g. the CG
"restart" that *subtracts* the gradient from the old direction instead of
resetting it, the BFGS reset for `d < 1e-20`, Rprop's stale `deltaw`).
-/
import SharkVerif.Model.OptScalar
namespace SharkVerif.Opt

/-- what an optimizer can ask of an objective function
(`AbstractObjectiveFunction`: `eval`, `evalDerivative`, `isFeasible`,
`isConstrained`, box bounds of a `BoxConstraintHandler`) -/
structure Objective (α : Type) where
  f : Vec α → α
  grad : Vec α → Vec α
  feasible : Vec α → Bool
  constrained : Bool
  lower : Vec α
  upper : Vec α

/-- `SingleObjectiveResultSet`: the reported solution -/
structure Best (α : Type) where
  point : Vec α
  value : α

variable {α : Type} [Scalar α]

/-! ## SteepestDescent -/

structure SD (α : Type) where
  learningRate : α
  momentum : α
  path : Vec α
  derivative : Vec α
  best : Best α

namespace SD
def init (o : Objective α) (lr mom : α) (x0 : Vec α) : SD α :=
  { learningRate := lr, momentum := mom, path := Vec.zeros x0.length,
    derivative := o.grad x0, best := ⟨x0, o.f x0⟩ }

/-- `m_path = -m_learningRate * m_derivative + m_momentum * m_path; m_best.point += m_path;` -/
def step (o : Objective α) (s : SD α) : SD α :=
  let path := List.zipWith (fun d p => (-s.learningRate) * d + s.momentum * p) s.derivative s.path
  let pt := Vec.add s.best.point path
  { s with path := path, derivative := o.grad pt, best := ⟨pt, o.f pt⟩ }

/-- the members `write` archives (as of the repaired tree, finding F8a): everything `step` reads -/
structure Saved (α : Type) where
  path : Vec α
  learningRate : α
  momentum : α
  derivative : Vec α
  best : Best α

def write (s : SD α) : Saved α := ⟨s.path, s.learningRate, s.momentum, s.derivative, s.best⟩
/-- `read` into an arbitrary (fresh) instance -/
def read (_fresh : SD α) (a : Saved α) : SD α :=
  { learningRate := a.learningRate, momentum := a.momentum, path := a.path,
    derivative := a.derivative, best := a.best }
end SD

/-! ## Adam -/

structure Adam (α : Type) where
  beta1 : α
  beta2 : α
  epsilon : α
  eta : α
  avgGrad : Vec α
  secondMoment : Vec α
  counter : Nat
  derivative : Vec α
  best : Best α

namespace Adam
def init (o : Objective α) (eta beta1 beta2 eps : α) (x0 : Vec α) : Adam α :=
  { beta1 := beta1, beta2 := beta2, epsilon := eps, eta := eta,
    avgGrad := Vec.zeros x0.length, secondMoment := Vec.zeros x0.length, counter := 0,
    derivative := o.grad x0, best := ⟨x0, o.f x0⟩ }

/-- `sqrt` and `pow` (libm) are parameters -/
def step (sqrt : α → α) (pow : α → Nat → α) (o : Objective α) (s : Adam α) : Adam α :=
  let one : α := Scalar.one
  let avg := List.zipWith (fun a d => s.beta1 * a + (one - s.beta1) * d) s.avgGrad s.derivative
  let sm := List.zipWith (fun m d => s.beta2 * m + (one - s.beta2) * (d * d)) s.secondMoment s.derivative
  let c := s.counter + 1
  let bias1 := one - pow s.beta1 c
  let bias2 := one - pow s.beta2 c
  let upd := List.zipWith (fun a m => ((s.eta / bias1) * a) / (s.epsilon + sqrt (m / bias2))) avg sm
  let pt := Vec.sub s.best.point upd
  { s with avgGrad := avg, secondMoment := sm, counter := c, derivative := o.grad pt, best := ⟨pt, o.f pt⟩ }

/-- `Adam::write` archives every member -/
def write (s : Adam α) : Adam α := s
def read (_fresh : Adam α) (a : Adam α) : Adam α := a
end Adam

/-! ## Rprop family (Rprop-, IRprop-, Rprop+, IRprop+ by three flags) -/

structure Rprop (α : Type) where
  increaseFactor : α
  decreaseFactor : α
  maxDelta : α
  minDelta : α
  useFreezing : Bool
  useBacktracking : Bool
  useOldValue : Bool
  oldValue : α
  delta : Vec α
  deltaw : Vec α
  oldDerivative : Vec α
  derivative : Vec α
  best : Best α

namespace Rprop

/-- `delta * -boost::math::sign(d)` -/
def negSignMul (delta d : α) : α :=
  if Scalar.zero < d then -delta else if d < Scalar.zero then delta else Scalar.zero

/-- the loop-carried part of the state inside `step` -/
structure Loop (α : Type) where
  point : Vec α
  delta : Vec α
  deltaw : Vec α
  oldDerivative : Vec α

/-- body of the coordinate loop of `Rprop::step` for coordinate `i` -/
def coord (o : Objective α) (s : Rprop α) (l : Loop α) (i : Nat) : Loop α :=
  let p := Vec.get l.point i
  let di := Vec.get s.derivative i
  let direction := di * Vec.get l.oldDerivative i
  let old := l.oldDerivative.set i di
  let dl := Vec.get l.delta i
  let dw := Vec.get l.deltaw i
  -- (delta_i, deltaw_i, oldDerivative, point_i before the step is added)
  let r : α × α × Vec α × α :=
    if Scalar.zero < direction then
      let d' := Scalar.min s.maxDelta (s.increaseFactor * dl)
      (d', negSignMul d' di, old, p)
    else if direction < Scalar.zero then
      let d' := Scalar.max s.minDelta (s.decreaseFactor * dl)
      let old' := if s.useFreezing then old.set i Scalar.zero else old
      if !s.useBacktracking then (d', negSignMul d' di, old', p)
      else if !s.useOldValue || decide (s.oldValue < s.best.value) then (d', Scalar.zero, old', p - dw)
      else (d', dw, old', p)
    else (dl, negSignMul dl di, old, p)
  let d' := r.1
  let dw' := r.2.1
  let old' := r.2.2.1
  let pt := l.point.set i (r.2.2.2 + dw')
  if o.feasible pt then
    { point := pt, delta := l.delta.set i d', deltaw := l.deltaw.set i dw', oldDerivative := old' }
  else
    { point := pt.set i p, delta := l.delta.set i (d' * s.decreaseFactor),
      deltaw := l.deltaw.set i dw', oldDerivative := old'.set i Scalar.zero }

def init (o : Objective α) (inc dec maxD minD : α) (fr bt ov : Bool) (big initDelta : α) (x0 : Vec α) : Rprop α :=
  { increaseFactor := inc, decreaseFactor := dec, maxDelta := maxD, minDelta := minD,
    useFreezing := fr, useBacktracking := bt, useOldValue := ov, oldValue := big,
    delta := List.replicate x0.length initDelta, deltaw := Vec.zeros x0.length,
    oldDerivative := Vec.zeros x0.length, derivative := o.grad x0, best := ⟨x0, o.f x0⟩ }

def step (o : Objective α) (s : Rprop α) : Rprop α :=
  let l := (List.range s.best.point.length).foldl (coord o s)
    ⟨s.best.point, s.delta, s.deltaw, s.oldDerivative⟩
  { s with delta := l.delta, deltaw := l.deltaw, oldDerivative := l.oldDerivative,
           oldValue := s.best.value, derivative := o.grad l.point, best := ⟨l.point, o.f l.point⟩ }

/-- members archived by `Rprop::write` on the repaired tree (finding F8b adds `derivative`);
the three flags are configuration set on the receiving instance -/
structure Saved (α : Type) where
  delta : Vec α
  deltaw : Vec α
  oldDerivative : Vec α
  oldValue : α
  increaseFactor : α
  decreaseFactor : α
  maxDelta : α
  minDelta : α
  best : Best α
  derivative : Vec α

def write (s : Rprop α) : Saved α :=
  ⟨s.delta, s.deltaw, s.oldDerivative, s.oldValue, s.increaseFactor, s.decreaseFactor,
   s.maxDelta, s.minDelta, s.best, s.derivative⟩
/-- `read` into an instance configured with the same variant flags -/
def read (fresh : Rprop α) (a : Saved α) : Rprop α :=
  { fresh with delta := a.delta, deltaw := a.deltaw, oldDerivative := a.oldDerivative,
               oldValue := a.oldValue, increaseFactor := a.increaseFactor,
               decreaseFactor := a.decreaseFactor, maxDelta := a.maxDelta, minDelta := a.minDelta,
               best := a.best, derivative := a.derivative }
end Rprop

end SharkVerif.Opt
