/-
Executable model of `BaseDCNonDominatedSort` (Operators/Domination/DCNonDominatedSort.h,
the divide-and-conquer sort of Jensen / Fortin et al.) and of the front end
`nonDominatedSort` (NonDominatedSort.h).  Core Lean only.

The C++ works on `Point*` into the vector `points` of the distinct objective vectors in
lexicographic order; the model works on indices into the list `U` of those vectors.  The
front numbers `Point::frt` are the array `frt`.  Every function below is one C++ member
function; the recursion of `ndHelperA`/`ndHelperB` is driven by a fuel parameter that
bounds the recursion *depth* (`size + k` decreases along every path, see `dcFuel`).
-/
import SharkVerif.Model.Pareto
namespace SharkVerif.DC
open SharkVerif.Pareto

/-- `Point::operator<`: lexicographic order on the objective vector -/
def lexLt : Pt → Pt → Bool
  | a :: as, b :: bs => if a < b then true else if b < a then false else lexLt as bs
  | _, _ => false

/-- `std::sort(points.begin(), points.end())` (a strict total order on vectors of one dimension: the
result is unique) -/
def sortLex (S : List Pt) : List Pt := S.mergeSort fun a b => !lexLt b a

/-- `std::unique` with `Point::operator==` -/
def uniq : List Pt → List Pt
  | [] => []
  | [p] => [p]
  | p :: q :: rest => if p == q then uniq (q :: rest) else p :: uniq (q :: rest)

/-- `S[i]->obj[c]` -/
def obj (U : Array Pt) (i c : Nat) : Int := (U.getD i []).getD c 0

/-- `dominance(lhs, rhs, k)`: the relation of the first `k` components -/
def domK (U : Array Pt) (k i j : Nat) : Rel := dominance ((U.getD i []).take k) ((U.getD j []).take k)

abbrev Frt := Array Nat

def fr (frt : Frt) (i : Nat) : Nat := frt.getD i 0

/-- `p->frt = std::max(p->frt, v)` -/
def raise (frt : Frt) (i v : Nat) : Frt := frt.setIfInBounds i (max (fr frt i) v)

/-! ### the map `T : front number ↦ second objective` of the sweeps -/

abbrev TMap := List (Nat × Int)

/-- `r = 0; for (auto p : T) if (p.second <= y) r = max(r, p.first);` -/
def tMaxLe (T : TMap) (y : Int) : Nat :=
  T.foldl (fun r p => if p.2 ≤ y then max r p.1 else r) 0

def tFind (T : TMap) (f : Nat) : Option Int := (T.find? fun p => p.1 == f).map (·.2)

/-- `T[f] = y` -/
def tSet : TMap → Nat → Int → TMap
  | [], f, y => [(f, y)]
  | (g, v) :: rest, f, y => if g == f then (g, y) :: rest else (g, v) :: tSet rest f y

/-! ### sweepA (figure 3) -/

def sweepAStep (U : Array Pt) (st : TMap × Frt) (s : Nat) : TMap × Frt :=
  let (T, frt) := st
  let r := tMaxLe T (obj U s 1)
  let frt := if r > 0 then raise frt s (r + 1) else frt
  (tSet T (fr frt s) (obj U s 1), frt)

def sweepA (U : Array Pt) (S : List Nat) (frt : Frt) : Frt :=
  match S with
  | [] => frt
  | s0 :: rest => (rest.foldl (sweepAStep U) ([(fr frt s0, obj U s0 1)], frt)).2

/-! ### sweepB (figure 8) -/

/-- the inner `while (i < L.size())` loop for the point `h`: consumes the prefix of the remaining `L` that
is lexicographically (first two objectives) not after `h`, recording the smallest second objective per front -/
def sweepBAdvance (U : Array Pt) (frt : Frt) (h : Nat) : List Nat → TMap → List Nat × TMap
  | [], T => ([], T)
  | l :: ls, T =>
    if obj U l 0 > obj U h 0 then (l :: ls, T)
    else if obj U l 0 == obj U h 0 && obj U l 1 > obj U h 1 then (l :: ls, T)
    else
      let T := match tFind T (fr frt l) with
        | none => tSet T (fr frt l) (obj U l 1)
        | some v => if obj U l 1 < v then tSet T (fr frt l) (obj U l 1) else T
      sweepBAdvance U frt h ls T

def sweepBStep (U : Array Pt) (st : List Nat × TMap × Frt) (h : Nat) : List Nat × TMap × Frt :=
  let (Lrest, T, frt) := st
  let (Lrest, T) := sweepBAdvance U frt h Lrest T
  let r := tMaxLe T (obj U h 1)
  (Lrest, T, if r > 0 then raise frt h (r + 1) else frt)

def sweepB (U : Array Pt) (L H : List Nat) (frt : Frt) : Frt :=
  (H.foldl (sweepBStep U) (L, [], frt)).2.2

/-! ### median and the splits (figures 5 and 9) -/

def insertAsc (x : Int) : List Int → List Int
  | [] => [x]
  | y :: ys => if x ≤ y then x :: y :: ys else y :: insertAsc x ys

def sortAsc (l : List Int) : List Int := l.foldr insertAsc []

/-- **twice** the value returned by `median(S, k)` (`k` zero-based): the middle element for an odd number of
values, the mean of the two middle elements for an even number (`nth_element` + `max_element` of the lower half) -/
def median2 (U : Array Pt) (S : List Nat) (c : Nat) : Int :=
  let v := sortAsc (S.map fun i => obj U i c)
  let n := v.length
  if n % 2 == 1 then 2 * v.getD (n / 2) 0 else v.getD (n / 2) 0 + v.getD (n / 2 - 1) 0

/-- `splitA(S, k, L, H)` (`k` one-based as in the call) -/
def splitA (U : Array Pt) (S : List Nat) (k : Nat) : List Nat × List Nat :=
  let c := k - 1
  let med2 := median2 U S c
  let La := S.filter fun i => 2 * obj U i c ≤ med2
  let Lb := S.filter fun i => 2 * obj U i c < med2
  let Ha := S.filter fun i => 2 * obj U i c > med2
  let Hb := S.filter fun i => 2 * obj U i c ≥ med2
  if Lb.length < Ha.length then (La, Ha) else (Lb, Hb)

/-- `splitB(L, H, k, L1, L2, H1, H2)` -/
def splitB (U : Array Pt) (L H : List Nat) (k : Nat) : List Nat × List Nat × List Nat × List Nat :=
  let c := k - 1
  let piv2 := median2 U (if L.length > H.length then L else H) c
  let le := fun i => decide (2 * obj U i c ≤ piv2)
  let lt := fun i => decide (2 * obj U i c < piv2)
  let gt := fun i => decide (2 * obj U i c > piv2)
  let ge := fun i => decide (2 * obj U i c ≥ piv2)
  if (L.filter lt).length + (H.filter lt).length ≤ (L.filter gt).length + (H.filter gt).length then
    (L.filter le, L.filter gt, H.filter le, H.filter gt)
  else
    (L.filter lt, L.filter ge, H.filter lt, H.filter ge)

/-! ### ndHelperB (figure 7) and ndHelperA (figure 2) -/

/-- the double loop of the base case `L.size() == 1 || H.size() == 1` -/
def bruteB (U : Array Pt) (L H : List Nat) (k : Nat) (frt : Frt) : Frt :=
  H.foldl (fun frt h => L.foldl (fun frt l =>
    let rel := domK U k l h
    if rel == .lhsDominates || rel == .equivalent then raise frt h (fr frt l + 1) else frt) frt) frt

def minObj (U : Array Pt) (S : List Nat) (c : Nat) : Int :=
  match S with
  | [] => 0
  | s :: rest => rest.foldl (fun m i => min m (obj U i c)) (obj U s c)

def maxObj (U : Array Pt) (S : List Nat) (c : Nat) : Int :=
  match S with
  | [] => 0
  | s :: rest => rest.foldl (fun m i => max m (obj U i c)) (obj U s c)

def helperB (U : Array Pt) : Nat → List Nat → List Nat → Nat → Frt → Frt
  | 0, _, _, _, frt => frt
  | fuel + 1, L, H, k, frt =>
    if L.isEmpty || H.isEmpty then frt
    else if L.length == 1 || H.length == 1 then bruteB U L H k frt
    else if k == 2 then sweepB U L H frt
    else
      let c := k - 1
      if maxObj U L c ≤ minObj U H c then helperB U fuel L H (k - 1) frt
      else if minObj U L c ≤ maxObj U H c then
        let (L1, L2, H1, H2) := splitB U L H k
        let frt := helperB U fuel L1 H1 k frt
        let frt := helperB U fuel L1 H2 (k - 1) frt
        helperB U fuel L2 H2 k frt
      else frt

def helperA (U : Array Pt) : Nat → List Nat → Nat → Frt → Frt
  | 0, _, _, frt => frt
  | fuel + 1, S, k, frt =>
    match S with
    | [] => frt
    | [_] => frt
    | [a, b] => if domK U k a b == .lhsDominates then raise frt b (fr frt a + 1) else frt
    | s0 :: _ :: _ :: _ =>
      if k == 2 then sweepA U S frt
      else if S.all fun i => obj U i (k - 1) == obj U s0 (k - 1) then helperA U fuel S (k - 1) frt
      else
        let (L, H) := splitA U S k
        let frt := helperA U fuel L k frt
        let frt := helperB U fuel L H (k - 1) frt
        helperA U fuel H k frt

/-- recursion depth budget: `size + k` strictly decreases along every chain of recursive calls -/
def dcFuel (n m : Nat) : Nat := n + m + 2

/-- front numbers of the distinct points after `ndHelperA(S, m)` -/
def dcFronts (U : List Pt) (m : Nat) : Frt :=
  helperA U.toArray (dcFuel U.length m) (List.range U.length) m (Array.replicate U.length 1)

/-- `std::lower_bound(points.begin(), points.end(), Point(p))` -/
def lowerBound (U : List Pt) (p : Pt) : Nat := U.findIdx fun u => !lexLt u p

/-- `BaseDCNonDominatedSort::operator()` (for a non-empty `pointRange`; `m = pointRange[0].size()`) -/
def dcSort (pts : List Pt) : List Nat :=
  match pts with
  | [] => []
  | p0 :: _ =>
    let U := uniq (sortLex pts)
    let frt := dcFronts U p0.length
    pts.map fun p => fr frt (lowerBound U p)

/-- the switch of `nonDominatedSort`: `m == 2 || n > 5000 || log(n)/log(3) < m + 1` -/
def useDC (n m : Nat) : Bool := m == 2 || n > 5000 || n < 3 ^ (m + 1)

/-- `nonDominatedSort(points, ranks)` with a fresh rank array (for `n = 0` the C++ returns at once) -/
def nds (pts : List Pt) : List Nat :=
  match pts with
  | [] => []
  | p0 :: _ => if useDC pts.length p0.length then dcSort pts else fastSort pts

end SharkVerif.DC
