/-
Executable model of `HypervolumeCalculatorMDHOY` (Operators/Hypervolume/HypervolumeCalculatorMDHOY.h,
the algorithm of Beume & Rudolph after Overmars & Yap): entry filter, sort by the last objective,
`stream` with its cover scan, pile / trellis case and the median split.  Core Lean only.

`getMedian` averages two coordinates; to stay in integer arithmetic the model doubles every
coordinate at the entry (all comparisons are invariant, the volume is multiplied by `2^m`).
The recursion of `stream` is driven by a fuel parameter bounding the recursion depth.
-/
import SharkVerif.Model.Hypervolume
namespace SharkVerif.HOY
open SharkVerif.Pareto SharkVerif.HV

def lastC (p : Pt) : Int := p.getLastD 0
def at' (p : Pt) (i : Nat) : Int := p.getD i 0

/-- `covers(cuboid, regionLow)`: the first `m-1` coordinates of the cuboid are ≤ those of `regionLow` -/
def covers (c low : Pt) : Bool := (List.range (c.length - 1)).all fun i => !(at' c i > at' low i)

/-- `partCovers(cuboid, regionUp)` -/
def partCovers (c up : Pt) : Bool := (List.range (c.length - 1)).all fun i => !(at' c i ≥ at' up i)

/-- `containsBoundary(cub, regLow, split)` : -1, 0 or 1 -/
def containsBoundary (c low : Pt) (split : Nat) : Int :=
  if !(at' low split < at' c split) then -1
  else if (List.range split).any fun j => at' low j < at' c j then 1 else 0

/-- `getMeasure(regionLow, regionUp)` -/
def getMeasure (low up : Pt) : Int :=
  (List.range (low.length - 1)).foldl (fun v i => v * (at' up i - at' low i)) 1

/-- `isPile`: `none` for -1, `some i` for the pile dimension (`m` when no coordinate sticks out) -/
def isPile (c low : Pt) : Option Nat :=
  (List.range (c.length - 1)).foldl (fun (st : Option Nat) i =>
    match st with
    | none => none
    | some pile => if at' c i > at' low i then (if pile != c.length then none else some i) else some pile)
    (some c.length)

/-- `computeTrellis`: Σ over the non-empty subsets `B` of the first `m-1` dimensions of
`(-1)^(|B|+1) Π_{j∈B} (up_j - trellis_j) Π_{j∉B} (up_j - low_j)`; `signedAll` is the sum over all subsets
of the products with the sign `(-1)^|B|` -/
def signedAll : List (Int × Int × Int) → Int
  | [] => 1
  | (l, u, t) :: rest => (u - l) * signedAll rest - (u - t) * signedAll rest

def computeTrellis (low up tr : Pt) : Int :=
  let dims := (List.range (low.length - 1)).map fun j => (at' low j, at' up j, at' tr j)
  dims.foldl (fun v d => v * (d.2.1 - d.1)) 1 - signedAll dims

def insertAsc (x : Int) : List Int → List Int
  | [] => [x]
  | y :: ys => if x ≤ y then x :: y :: ys else y :: insertAsc x ys

/-- `getMedian(bounds, length)` on doubled coordinates (the mean of two even numbers is an integer) -/
def getMedian (b : List Int) : Int :=
  match b with
  | [x] => x
  | [_, y] => y
  | _ =>
    let v := b.foldr insertAsc []
    let n := v.length
    if n % 2 == 1 then v.getD (n / 2) 0 else (v.getD (n / 2 - 1) 0 + v.getD (n / 2) 0) / 2

/-- the `do … while (next != cover)` loop of the pile case; the list holds the points before `coverIndex`
with their pile dimension -/
def trellisGo (low up : Pt) (cover : Int) : List (Pt × Nat) → Pt → Int
  | [], _ => 0
  | (p, pl) :: rest, tr =>
    let tr := if at' p pl < at' tr pl then tr.set pl (at' p pl) else tr
    let current := lastC p
    let next := match rest with
      | [] => cover
      | (q, _) :: _ => lastC q
    if next == current then trellisGo low up cover rest tr
    else
      let chunk := computeTrellis low up tr * (next - current)
      if next == cover then chunk else chunk + trellisGo low up cover rest tr

/-- the `do … while (!boundFound)` loop: `bnd`/`nob` are `boundaries[0..boundIdx)`/`noBoundaries[0..noBoundIdx)`
(they are **not** cleared when `split` is advanced); returns `(split, bound)` -/
def findBound (sqrtN : Nat) (low : Pt) (pts : List Pt) : Nat → Nat → List Int → List Int → Nat × Int
  | 0, split, _, _ => (split, 0)
  | fuel + 1, split, bnd, nob =>
    let bnd := bnd ++ (pts.filter fun p => containsBoundary p low split == 1).map fun p => at' p split
    let nob := nob ++ (pts.filter fun p => containsBoundary p low split == 0).map fun p => at' p split
    if bnd.length > 0 then (split, getMedian bnd)
    else if nob.length > sqrtN then (split, getMedian nob)
    else findBound sqrtN low pts fuel (split + 1) bnd nob

/-- `stream(regionLow, regionUp, points, split, cover)` -/
def stream (sqrtN : Nat) : Nat → Pt → Pt → List Pt → Nat → Int → Int
  | 0, _, _, _, _, _ => 0
  | fuel + 1, low, up, pts, split, cover =>
    let dMeasure := getMeasure low up
    -- the cover scan: first point that covers the region
    let idx := pts.findIdx fun p => covers p low
    let (cover', result, coverIndex) :=
      if idx < pts.length then
        let c := lastC (pts.getD idx [])
        (c, dMeasure * (cover - c), idx)
      else (cover, 0, pts.length)
    -- `for (c = coverIndex; c > 0; c--) if (points[c-1][m-1] == cover) coverIndex--;`
    let coverIndex := coverIndex - ((pts.take coverIndex).filter fun p => lastC p == cover').length
    if coverIndex == 0 then result
    else
      let pre := pts.take coverIndex
      let piles := pre.map fun p => isPile p low
      if piles.all Option.isSome then
        result + trellisGo low up cover' (pre.zip (piles.map fun o => o.getD 0)) up
      else
        let (split, bound) := findBound sqrtN low pre (low.length + 1) split [] []
        let upC := up.set split bound
        let lowC := low.set split bound
        let childUp := pre.filter fun p => partCovers p upC
        let childLow := pre.filter fun p => partCovers p up
        let r1 := if childUp.isEmpty then 0 else stream sqrtN fuel low upC childUp split cover'
        let r2 := if childLow.isEmpty then 0 else stream sqrtN fuel lowC up childLow split cover'
        result + r1 + r2

/-- `HypervolumeCalculatorMDHOY::operator()` -/
def hvHoy (S : List Pt) (r : Pt) : Int :=
  if S.isEmpty then 0 else
  let r2 := r.map (2 * ·)
  let set := (S.filter fun p => (List.range r.length).all fun j => at' p j < at' r j).map fun p => p.map (2 * ·)
  if set.isEmpty then 0 else
  let set := set.mergeSort fun a b => decide (lastC a ≤ lastC b)
  let sqrtN := Nat.sqrt set.length
  let regLow := set.foldl pmin (r.map fun _ => (2000000000000000 : Int))
  stream sqrtN (16 * (set.length + r.length) + 64) regLow r2 set 0 (lastC r2) / (2 : Int) ^ r.length

end SharkVerif.HOY
