/-
Executable model of remora's conjugate-gradient solver (`cg_solver::cg`, both overloads, in
`LinAlg/BLAS/decompositions.hpp`) and of the system tags of `solve.hpp` (the only tag with state is
`conjugate_gradient(epsilon, max_iterations)`), in exact arithmetic over core-Lean `Rat`.

Core Lean only (no Mathlib): compiled into the native driver `drv_c02`.

The C++ loops are unbounded when `max_iterations == 0`; the model takes the number of loop
iterations as `steps` (the driver passes `max_iterations`, or a cap and reports non-convergence).
-/
import SharkVerif.Model.LinSolve
namespace SharkVerif.LinSolve

/-- `norm_inf` of the first `n` entries -/
def normInf (n : Nat) (v : Vec) : Rat :=
  (List.range n).foldl (fun m i => if m < absR (v i) then absR (v i) else m) 0

/-- state of the conjugate-gradient loop: iterate `x`, residual `r` (the recurrence value, not
recomputed), search direction `p`, and "the loop has left through a `break`/`return`" -/
structure CGState where
  x : Vec
  r : Vec
  p : Vec
  done : Bool

/-- one pass through the body of the loop of the *vector* overload:
`Ap = A p; rsqr = |r|²; alpha = rsqr / <p,Ap>; x += alpha p; r' = r - alpha Ap;`
`if(norm_inf(r') < epsilon) break;`  `beta = |r'|²/rsqr; p = beta p + r'; swap(r, r')`.
(At the `break` the direction is left as it is and the residual is not swapped in: neither is
read afterwards; the model stores `r'` so that the state always satisfies `r = b - A x`.) -/
def cgStep (eps : Rat) (n : Nat) (A : Mat) (s : CGState) : CGState :=
  if s.done then s else
  let Ap := mulVec n A s.p
  let rsqr := dot n s.r s.r
  let alpha := rsqr / dot n s.p Ap
  let x' : Vec := fun i => s.x i + alpha * s.p i
  let r' : Vec := fun i => s.r i - alpha * Ap i
  if normInf n r' < eps then { x := x', r := r', p := s.p, done := true } else
  let beta := dot n r' r' / rsqr
  { x := x', r := r', p := fun i => beta * s.p i + r' i, done := false }

/-- `f^[k]` -/
def iterN {σ : Type} : Nat → (σ → σ) → σ → σ
  | 0, _, s => s
  | k + 1, f, s => f (iterN k f s)

/-- materialise a state (the driver iterates on arrays: closures would be re-evaluated exponentially) -/
def CGState.freeze (n : Nat) (s : CGState) : CGState :=
  let xa := vecOf n s.x; let ra := vecOf n s.r; let pa := vecOf n s.p
  { x := fun i => vget xa i, r := fun i => vget ra i, p := fun i => vget pa i, done := s.done }

/-- start of the vector overload: the right-hand side itself is tried as starting point
(`x = b; residual = b - A x; if(norm_inf(residual) > norm_inf(b)){ x = 0; residual = b; }`),
`if(norm_inf(residual) < epsilon) return;`, `p = residual`. -/
def cgInitVec (eps : Rat) (n : Nat) (A : Mat) (b : Vec) : CGState :=
  let r0 : Vec := fun i => b i - mulVec n A b i
  if normInf n r0 > normInf n b then
    { x := fun _ => 0, r := b, p := b, done := decide (normInf n b < eps) }
  else
    { x := b, r := r0, p := r0, done := decide (normInf n r0 < eps) }

/-- the vector overload `cg(A, x, b, epsilon, max_iterations)` run for at most `steps` passes -/
def cgVec (eps : Rat) (steps : Nat) (n : Nat) (A : Mat) (b : Vec) : CGState :=
  iterN steps (fun s => (cgStep eps n A s).freeze n) ((cgInitVec eps n A b).freeze n)

/-- one column of the *matrix* overload: it always starts from zero (the test
`norm_inf(column(residual,i)) <= norm_inf(column(residual,i))` is always true), a column whose residual
is below `epsilon` is skipped (`continue`), otherwise the same step is taken -- the direction update is
done before the tolerance is looked at again, which does not change `x`. -/
def cgColStep (eps : Rat) (n : Nat) (A : Mat) (s : CGState) : CGState :=
  if normInf n s.r < eps then { s with done := true } else
  let Ap := mulVec n A s.p
  let rsqr := dot n s.r s.r
  let alpha := rsqr / dot n s.p Ap
  let x' : Vec := fun i => s.x i + alpha * s.p i
  let r' : Vec := fun i => s.r i - alpha * Ap i
  let beta := dot n r' r' / rsqr
  { x := x', r := r', p := fun i => beta * s.p i + r' i, done := false }

def cgCol (eps : Rat) (steps : Nat) (n : Nat) (A : Mat) (b : Vec) : CGState :=
  let s0 : CGState := { x := fun _ => 0, r := b, p := b, done := false }
  let s := iterN steps (fun s => CGState.freeze n (cgColStep eps n A s)) (CGState.freeze n s0)
  { s with done := s.done || decide (normInf n s.r < eps) }

/-! ## system tags (`decompositions.hpp`: `triangular_tag<Upper,Unit>`, `symm_pos_def`, `symm_semi_pos_def`,
`indefinite_full_rank`, `conjugate_gradient`) -/

inductive Tag where
  | tri (t : Tri)
  | spd
  | semi
  | lu
  | cg (eps : Rat) (maxit : Nat)
  deriving DecidableEq

/-- the state a tag object carries: only `conjugate_gradient` has any -/
def Tag.params : Tag → Option (Rat × Nat)
  | .cg e m => some (e, m)
  | _ => none

/-- the *type* named by the member typedef `transposed_orientation`, as a default-constructed object:
`triangular_tag<!Upper,Unit>` for the triangular tags, the tag's own type otherwise;
`conjugate_gradient()` has `epsilon = 1e-10`, `max_iterations = 0` -/
def Tag.transposedDefault : Tag → Tag
  | .tri t => .tri t.transposed
  | .cg _ _ => .cg (1 / 10000000000) 0
  | t => t

/-- same constructor (the C++ *type* of the tag), state ignored -/
def Tag.sameType : Tag → Tag → Bool
  | .tri a, .tri b => a == b
  | .spd, .spd => true
  | .semi, .semi => true
  | .lu, .lu => true
  | .cg _ _, .cg _ _ => true
  | _, _ => false

end SharkVerif.LinSolve
