/-
Executable model of the environmental selection operators of the multi-objective
optimizers: `IndicatorBasedSelection` (Operators/Selection/IndicatorBasedSelection.h)
and `ElitistSelection` (Operators/Selection/ElitistSelection.h).  Core Lean only.

The non-domination ranks are an input (`nonDominatedSort`, C13: `fastSort_eq_rankSpec`);
the second-level indicator is a parameter.
-/
import SharkVerif.Model.Pareto
namespace SharkVerif.MOO
open SharkVerif.Pareto

/-- rank of individual `i` -/
def rankAt (ranks : List Nat) (i : Nat) : Nat := ranks.getD i 0

/-- `fronts[r]`: indices of the individuals of rank `r`, in population order -/
def frontOf (ranks : List Nat) (r : Nat) : List Nat :=
  (List.range ranks.length).filter fun i => rankAt ranks i == r

/-- the loop `while(popSize - fronts[rank].size() >= mu){ deselect fronts[rank]; popSize -= …; --rank; }`
started at `rank`; returns the final `(rank, popSize)`.  (With `mu = 0` the C++ loop does not
terminate; the model stops at rank 0.  The theorems assume `1 ≤ mu`.) -/
def dropFronts (ranks : List Nat) (mu : Nat) : Nat → Nat → Nat × Nat
  | 0, popSize => (0, popSize)
  | rank + 1, popSize =>
    if popSize - (frontOf ranks (rank + 1)).length ≥ mu then
      dropFronts ranks mu rank (popSize - (frontOf ranks (rank + 1)).length)
    else (rank + 1, popSize)

/-- `Indicator::leastContributors(front, archive, K)`: positions (in `front`) of the `K`
individuals to deselect; `front` and `archive` are given as lists of population indices -/
abbrev Indicator := (front : List Nat) → (archive : List Nat) → (K : Nat) → List Nat

/-- `IndicatorBasedSelection::operator()(population, mu)`: the `selected()` flags -/
def select (ind : Indicator) (ranks : List Nat) (mu : Nat) : List Bool :=
  let n := ranks.length
  if n = 0 then [] else
  let maxRank := ranks.foldl max 0
  let (rank, popSize) := dropFronts ranks mu maxRank n
  let front := frontOf ranks rank
  let archive := (List.range n).filter fun i => decide (1 ≤ rankAt ranks i) && decide (rankAt ranks i < rank)
  let deselected := (ind front archive (popSize - mu)).map fun lc => front.getD lc n
  (List.range n).map fun i =>
    decide (rankAt ranks i < rank) || (rankAt ranks i == rank && !deselected.contains i)

/-- the partially selected front and the number of its members that stay selected
(what the correspondence compares when the indicator itself is not modelled) -/
def lastFront (ranks : List Nat) (mu : Nat) : Nat × Nat :=
  let (rank, popSize) := dropFronts ranks mu (ranks.foldl max 0) ranks.length
  (rank, (frontOf ranks rank).length - (popSize - mu))

/-! ### ElitistSelection -/

/-- `ElitistSelection::operator()(it, itE, out, outE)` on individuals given by their sort key:
`order` is the index vector after `std::sort` (any key-sorted permutation, ties are not stable
in the C++); the first `mu` entries are copied to the output -/
def elitist (order : List Nat) (mu : Nat) : List Nat := order.take mu

/-- the merge-sorted order used by the driver -/
def sortedOrder (keys : List Int) : List Nat :=
  (List.range keys.length).mergeSort fun a b => decide (keys.getD a 0 ≤ keys.getD b 0)

end SharkVerif.MOO
