/-
Model of the binary kernel C-SVM trainer on top of the solver model (`Model/Smo.lean`):
`CSvmTrainer::optimize` (problem set-up from labels and C, cold start, `QpSolver::solve` with the
problem's preferred selection strategy, un-permutation of alpha) and `CSvmTrainer::computeBias`.
Polymorphic in the scalar like the rest of the QP models.  Core Lean only.
-/
import SharkVerif.Model.Smo
namespace SharkVerif.SvmTrainer
open SharkVerif.Qp SharkVerif.Smo

variable {α : Type} [Add α] [Sub α] [Mul α] [Div α] [Neg α] [LT α] [LE α]
  [DecidableLT α] [DecidableLE α] [BEq α] [OfScientific α]

/-- `CSVMProblem` for labels `y k ∈ {true,false}` and regularisation `C`:
`lin = ±1`, box `[0,C]` for positive, `[-C,0]` for negative examples; with bias → `SvmShrinkingProblem`,
without → `BoxConstrainedShrinkingProblem`. -/
def csvmInit (n : Nat) (K : Nat → Nat → α) (y : Nat → Bool) (C : α) (bias shrink : Bool) : State α :=
  State.init n K bias shrink (fun k => if y k then (1.0 : α) else -(1.0 : α))
    (fun k => if y k then (0.0 : α) else -C) (fun k => if y k then C else (0.0 : α))

/-- `getUnpermutedAlpha` -/
def unpermutedAlpha (s : State α) (zero : α) : Nat → α :=
  (List.range s.n).foldl (fun (f : Nat → α) i => upd f (s.perm i) (s.alpha i)) (fun _ => zero)

/-- `CSvmTrainer::computeBias` (without the derivative bookkeeping); `cnt` converts the number of free
variables to a scalar -/
def computeBias (s : State α) (cnt : Nat → α) : α :=
  if s.n = 0 then (0.0 : α) else
  let r := (List.range s.n).foldl (fun (acc : α × α × α × Nat) i =>   -- (lowerBound, upperBound, sum, freeVars)
      let value := s.g i
      if s.boxMin i == s.boxMax i then acc   -- empty box interior (e.g. example weight 0): skipped
      else if s.alpha i == s.boxMin i then
        (if value > acc.1 then (value, acc.2.1, acc.2.2.1, acc.2.2.2) else acc)
      else if s.alpha i == s.boxMax i then
        (if value < acc.2.1 then (acc.1, value, acc.2.2.1, acc.2.2.2) else acc)
      else (acc.1, acc.2.1, acc.2.2.1 + value, acc.2.2.2 + 1))
    (-(1.0e100 : α), (1.0e100 : α), (0.0 : α), 0)
  if r.2.2.2 > 0 then r.2.2.1 / cnt r.2.2.2 else (0.5 : α) * (r.1 + r.2.1)

/-- result of training: final solver state, accuracy-reached flag, iterations -/
def train (n : Nat) (K : Nat → Nat → α) (y : Nat → Bool) (C eps : α) (bias shrink : Bool) (maxIter : Nat) :
    State α × Bool × Nat :=
  solve (if bias then 1 else 2) eps maxIter (csvmInit n K y C bias shrink) 0 0

/-- `CSVMProblem` (class-specific `C`: `Cn` for label 0, `Cp` for label 1) and `GeneralQuadraticProblem` on weighted
data (per-example box `C·w_k`; the unweighted problem is `w = 1`) -/
def csvmInit2 (n : Nat) (K : Nat → Nat → α) (y : Nat → Bool) (Cn Cp : α) (w : Nat → α) (bias shrink : Bool) : State α :=
  State.init n K bias shrink (fun k => if y k then (1.0 : α) else -(1.0 : α))
    (fun k => if y k then (0.0 : α) else -(Cn * w k)) (fun k => if y k then Cp * w k else (0.0 : α))

def train2 (n : Nat) (K : Nat → Nat → α) (y : Nat → Bool) (Cn Cp : α) (w : Nat → α) (eps : α) (bias shrink : Bool)
    (maxIter : Nat) : State α × Bool × Nat :=
  solve (if bias then 1 else 2) eps maxIter (csvmInit2 n K y Cn Cp w bias shrink) 0 0

/-- `CSvmTrainer::optimize`, warm start: the previous coefficients `a1` are clipped to the per-example box; with bias
the heavier side (positive or negative coefficients) is rescaled so that the start vector sums to zero -- if clipping
changed a coefficient or the two sides differ by more than `1e-12` relative (a start vector that fits the box and is
balanced up to rounding, i.e. a previous solution of the same problem, is left untouched); then `setInitialSolution` -/
def warmStartVector (s : State α) (a1 : Nat → α) (bias : Bool) : Nat → α :=
  let clipped : Nat → α := fun k => smax (smin (a1 k) (s.U k)) (s.L k)
  if !bias then clipped else
  let sums := (List.range s.n).foldl (fun (acc : α × α) i =>
      if clipped i > (0.0 : α) then (acc.1 + clipped i, acc.2) else (acc.1, acc.2 - clipped i)) ((0.0 : α), (0.0 : α))
  let anyClipped : Bool := (List.range s.n).any fun i => !(clipped i == a1 i)
  let d := sums.1 - sums.2
  let ad := if d < (0.0 : α) then -d else d                                 -- std::abs(sumPos - sumNeg)
  let unbalanced : Bool := decide (ad > (1.0e-12 : α) * (sums.1 + sums.2))
  if !(anyClipped || unbalanced) || sums.1 == sums.2 then clipped else
  let shrinkPos : Bool := sums.1 > sums.2
  let factor := if shrinkPos then sums.2 / sums.1 else sums.1 / sums.2
  fun k => if (decide (clipped k > (0.0 : α)) == shrinkPos) && !(clipped k == (0.0 : α)) then clipped k * factor else clipped k

/-- second training of a warm-started `CSvmTrainer` -/
def train2Warm (n : Nat) (K : Nat → Nat → α) (y : Nat → Bool) (Cn Cp : α) (w : Nat → α) (eps : α) (bias shrink : Bool)
    (maxIter : Nat) (a1 : Nat → α) : State α × Bool × Nat :=
  let s0 := csvmInit2 n K y Cn Cp w bias shrink
  solve (if bias then 1 else 2) eps maxIter (s0.setInitialSolution (warmStartVector s0 a1 bias)) 0 0

/-- `EpsilonSvmTrainer::trainSVM`: `2n` variables over the 2×2 block matrix `[[K,K],[K,K]]`, variable `k < n` is
`alpha_k ∈ [0,C]` with linear term `y_k − tube`, variable `n+k` is `alpha*_k ∈ [−C,0]` with `y_k + tube` -/
def epsInit (n : Nat) (K : Nat → Nat → α) (y : Nat → α) (C tube : α) (shrink : Bool) : State α :=
  State.init (2 * n) (fun a b => K (a % n) (b % n)) true shrink
    (fun k => if k < n then y k - tube else y (k - n) + tube)
    (fun k => if k < n then (0.0 : α) else -C) (fun k => if k < n then C else (0.0 : α))

/-- coefficients of the regression model: `alpha_k + alpha*_k` of the un-permuted solution -/
def epsCoefficients (n : Nat) (s : State α) (zero : α) : Nat → α :=
  fun k => unpermutedAlpha s zero k + unpermutedAlpha s zero (n + k)

/-- the offset loop of `EpsilonSvmTrainer` (every variable classified by its own box, `std::max` / `std::min`) -/
def epsOffset (s : State α) (cnt : Nat → α) : α :=
  let r := (List.range s.n).foldl (fun (acc : α × α × α × Nat) i =>
      let value := s.g i
      if s.alpha i == s.boxMin i then (smax value acc.1, acc.2.1, acc.2.2.1, acc.2.2.2)
      else if s.alpha i == s.boxMax i then (acc.1, smin value acc.2.1, acc.2.2.1, acc.2.2.2)
      else (acc.1, acc.2.1, acc.2.2.1 + value, acc.2.2.2 + 1))
    (-(1.0e100 : α), (1.0e100 : α), (0.0 : α), 0)
  if r.2.2.2 > 0 then r.2.2.1 / cnt r.2.2.2 else (0.5 : α) * (r.1 + r.2.1)

/-- `OneClassSvmTrainer::trainSVM`: `BoxedSVMProblem` with `alpha = 1/n`, zero linear term, box `[0, 1/(nu·n)]`;
`nF` is `n` as a scalar -/
def oneClassInit (n : Nat) (K : Nat → Nat → α) (nu nF : α) (shrink : Bool) : State α :=
  State.initWith n K true shrink (fun _ => (0.0 : α)) (fun _ => (0.0 : α)) (fun _ => (1.0 : α) / (nu * nF))
    (fun _ => (1.0 : α) / nF)

/-- the offset loop of `OneClassSvmTrainer` (tests `alpha == 0` / `alpha == upper`, `std::max`/`std::min`) -/
def oneClassOffset (s : State α) (upper : α) (cnt : Nat → α) : α :=
  let r := (List.range s.n).foldl (fun (acc : α × α × α × Nat) i =>
      let value := s.g i
      if s.alpha i == (0.0 : α) then (smax value acc.1, acc.2.1, acc.2.2.1, acc.2.2.2)
      else if s.alpha i == upper then (acc.1, smin value acc.2.1, acc.2.2.1, acc.2.2.2)
      else (acc.1, acc.2.1, acc.2.2.1 + value, acc.2.2.2 + 1))
    (-(1.0e100 : α), (1.0e100 : α), (0.0 : α), 0)
  if r.2.2.2 > 0 then r.2.2.1 / cnt r.2.2.2 else (0.5 : α) * (r.1 + r.2.1)

end SharkVerif.SvmTrainer
