/-
Executable models of the blocked dense kernels of remora the expression layer dispatches to
(`kernels/default/dense_gemm.hpp` + `mgemm.hpp`, `kernels/default/matrix_assign.hpp`,
`kernels/default/trmv.hpp`), with every blocking constant a PARAMETER.  The constants the C++
uses are regenerated from the source on every run by `translate/remora_kernels.py` into
`Gen/RemoraKernelConsts.lean`; the same translator compares the loop skeleton of every modelled
function with the recorded one.

Core Lean only (no Mathlib): compiled into the native driver `drv_c01`, which is run against the
real kernels (called directly: `bindings::pack_A_dense`, `pack_B_dense`, `mgemm`, `dense_gemm`,
`matrix_assign`, `matrix_assign_functor`, `trmv`) by `checks/c01kern.py` — packed buffers and
results are compared value for value, for the library's block sizes and for small ones.

Matrices are index functions `Nat → Nat → R` (the denotation of `Model/Remora.lean`), packed
buffers are `Nat → R` (offset ↦ value).  A tile update `C[i0*stride1 + j0*stride2] += P[i0][j0]`
of the C++ is the pointwise `blockAdd`; that the pointer arithmetic of the C++
(`&C_[i*MC*ldc + j*NC]`, `C + i*MR*stride1 + j*NR*stride2`) addresses exactly that tile is
`gemm_tile_address` in `Props/C01.lean`.
-/
import SharkVerif.Model.Remora
namespace SharkVerif.Remora

/-- number of blocks of size `bs` needed for `n` elements: `(n + bs - 1) / bs` -/
def nBlocks (n bs : Nat) : Nat := (n + bs - 1) / bs

/-- the constants of `gemm_block_size<T>` -/
structure GemmBlock where
  mr : Nat
  nr : Nat
  mc : Nat
  kc : Nat
  nc : Nat
  deriving Repr, DecidableEq

/-- what the kernel needs of its constants: all positive; the stripe widths divide the block sizes
(otherwise the packed buffers of `MC*KC` resp. `NC*KC` cells are too small) -/
def GemmBlock.Ok (b : GemmBlock) : Prop :=
  0 < b.mr ∧ 0 < b.nr ∧ 0 < b.mc ∧ 0 < b.kc ∧ 0 < b.nc ∧ b.mr ∣ b.mc ∧ b.nr ∣ b.nc

instance (b : GemmBlock) : Decidable b.Ok := by unfold GemmBlock.Ok; exact inferInstance

section Gemm
variable {R : Type} [Zero R] [Add R] [Mul R]

/-- `pack_A_dense(A, p, block_size)`: `A` is `mc × kc`; the buffer holds `⌈mc/MR⌉` stripes of `MR`
rows, each stripe column by column; rows `≥ mc` of the last stripe are padded with `0`.
The running counter `nu` of the C++ is `l*(kc*MR) + j*MR + (i - l*MR)`. -/
def packA (A : Nat → Nat → R) (mc kc MR : Nat) (nu : Nat) : R :=
  let l := nu / (kc * MR)
  let rem := nu % (kc * MR)
  let j := rem / MR
  let i := l * MR + rem % MR
  if i < mc then A i j else 0

/-- `pack_B_dense(B, p, block_size)`: `B` is `kc × nc`; `⌈nc/NR⌉` stripes of `NR` columns, each
stripe row by row, columns `≥ nc` padded with `0` -/
def packB (B : Nat → Nat → R) (kc nc NR : Nat) (nu : Nat) : R :=
  let l := nu / (kc * NR)
  let rem := nu % (kc * NR)
  let i := rem / NR
  let j := l * NR + rem % NR
  if j < nc then B i j else 0

/-- number of buffer cells `pack_A_dense` / `pack_B_dense` write -/
def packedSize (n k BR : Nat) : Nat := nBlocks n BR * k * BR

/-- micro kernel `ugemm`: `P[i][j] = Σ_{l<kc} A[l*MR+i] * B[l*NR+j]`, multiplied by `alpha` unless
`alpha = 1` (the C++ skips the multiplication then) -/
def ugemm [DecidableEq R] [One R] (kc MR NR : Nat) (alpha : R) (A B : Nat → R) (i j : Nat) : R :=
  let p := sumTo kc (fun l => A (l * MR + i) * B (l * NR + j))
  if alpha = 1 then p else p * alpha

/-- `C[r0+i0][c0+j0] += P[i0][j0]` for `i0 < mr`, `j0 < nr` -/
def blockAdd (C : Nat → Nat → R) (r0 c0 mr nr : Nat) (P : Nat → Nat → R) : Nat → Nat → R :=
  fun i j => if (r0 ≤ i ∧ i < r0 + mr) ∧ (c0 ≤ j ∧ j < c0 + nr) then C i j + P (i - r0) (j - c0) else C i j

/-- macro kernel `mgemm(mc, nc, kc, alpha, A, B, C, stride1, stride2, block_size)` on the tile of
`C` whose top-left element is `(r0, c0)`: loops over `⌈nc/NR⌉ × ⌈mc/MR⌉` micro tiles; a full micro
tile is added by `ugemm` directly, a partial one through the temporary `CTempBlock`, of which only
the `mr × nr` part is added -/
def mgemm [DecidableEq R] [One R] (mc nc kc MR NR : Nat) (alpha : R) (A B : Nat → R) (r0 c0 : Nat)
    (C : Nat → Nat → R) : Nat → Nat → R :=
  (List.range (nBlocks nc NR)).foldl (fun C j =>
    let nr := min NR (nc - j * NR)
    (List.range (nBlocks mc MR)).foldl (fun C i =>
      let mr := min MR (mc - i * MR)
      let P := ugemm kc MR NR alpha (fun t => A (i * kc * MR + t)) (fun t => B (j * kc * NR + t))
      if mr = MR ∧ nr = NR then blockAdd C (r0 + i * MR) (c0 + j * NR) MR NR P
      else blockAdd C (r0 + i * MR) (c0 + j * NR) mr nr P) C) C

/-- `dense_gemm(e1, e2, m, alpha)`: `m += alpha * e1 * e2` with `m` `M × N`, `e1` `M × K`: the three
blocked loops (`NC` columns of `m`, `KC` of the inner dimension, `MC` rows of `m`), packing the
sub-blocks `subrange(e2, l*KC, l*KC+kc, j*NC, j*NC+nc)` and `subrange(e1, i*MC, i*MC+mc, l*KC, l*KC+kc)` -/
def denseGemm [DecidableEq R] [One R] (M N K MC NC KC MR NR : Nat) (alpha : R) (e1 e2 : Nat → Nat → R)
    (C : Nat → Nat → R) : Nat → Nat → R :=
  (List.range (nBlocks N NC)).foldl (fun C j =>
    let nc := min NC (N - j * NC)
    (List.range (nBlocks K KC)).foldl (fun C l =>
      let kc := min KC (K - l * KC)
      let Bp := packB (fun a b => e2 (l * KC + a) (j * NC + b)) kc nc NR
      (List.range (nBlocks M MC)).foldl (fun C i =>
        let mc := min MC (M - i * MC)
        let Ap := packA (fun a b => e1 (i * MC + a) (l * KC + b)) mc kc MR
        mgemm mc nc kc MR NR alpha Ap Bp (i * MC) (j * NC) C) C) C) C

end Gemm

section Assign
variable {R : Type}

/-- `matrix_assign` / `matrix_assign_functor` for a row-major target and a column-major dense
source (`blockSize` 8 resp. 16): the `n1 × n2` target is processed in `BS × BS` blocks; the block of
`e` is first read into `blockStorage`, then `m(i,j) = f(m(i,j), blockStorage[i][j])` is applied -/
def assignTransBlocked (f : R → R → R) (BS n1 n2 : Nat) (e m : Nat → Nat → R) : Nat → Nat → R :=
  (List.range (nBlocks n1 BS)).foldl (fun m ib =>
    (List.range (nBlocks n2 BS)).foldl (fun m jb =>
      let bi := min BS (n1 - ib * BS)
      let bj := min BS (n2 - jb * BS)
      let blockStorage : Nat → Nat → R := fun i j => e (ib * BS + i) (jb * BS + j)
      fun i j =>
        if (ib * BS ≤ i ∧ i < ib * BS + bi) ∧ (jb * BS ≤ j ∧ j < jb * BS + bj)
        then f (m i j) (blockStorage (i - ib * BS) (j - jb * BS)) else m i j) m) m

end Assign

end SharkVerif.Remora
