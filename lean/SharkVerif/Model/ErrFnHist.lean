/-
C06: call histories on `ErrorFunction` objects that share one model object.

An `ErrorFunction` holds a *pointer* to its model; `eval(point)` / `evalDerivative(point, …)` first write the
point into that external object (`mep_model->setParameterVector(point)`) and then run the loops of
`Model/ErrFn.lean` on whatever the model object holds.  Between two calls anything may happen to the model
object: another error function over the same model is evaluated at another point, a trainer or the caller
writes other parameters into it, the error function is copied / assigned / re-initialised.  This file models
the world (the model object's current parameters + a table of error-function objects + the thread count) and
the steps of such a history; `Props/C06.lean` §6 proves that every evaluation step returns the error of
(point, data set of the object) — the model object is scratch.

The loops read the model *object* (`w.cur` after the write), not the point: whether the write happens is the
regenerated fact `Gen.LossOutputs.*SetsModelFirst`.  Core Lean only.
-/
import SharkVerif.Model.ErrFn
import SharkVerif.Gen.LossOutputs
namespace SharkVerif.ErrFnHist
open Scalar SharkVerif.Loss SharkVerif.ErrFn
variable {α : Type} [Scalar α] {L : Type}

inductive Flavour where
  | plain | weighted | mini
  deriving DecidableEq, Repr

/-- an `ErrorFunction` object: its wrapper (loss, copy of the data set, flavour) and its regularizer -/
structure Obj (α : Type) (L : Type) where
  flavour : Flavour
  loss : LossFn α L
  batches : Nat → Batch α L
  B : Nat
  /-- `m_regularizer` / `m_regularizationStrength`: value and gradient of the regularizer at a point -/
  reg : Option (α × (List α → α × List α)) := none

/-- the model object's parameters, the objects, `SHARK_NUM_THREADS` -/
structure World (α : Type) (L : Type) where
  cur : List α
  objs : List (Obj α L)
  threads : Nat

inductive Step (α : Type) where
  | eval (o : Nat) (p : List α)
  | deriv (o : Nat) (p : List α)
  /-- somebody else writes the model object: `model.setParameterVector(q)`, a trainer, an optimizer loop -/
  | setModel (q : List α)
  /-- `ErrorFunction copy(objs[o])`, appended to the table -/
  | copy (o : Nat)
  /-- `objs[dst] = objs[src]` -/
  | assign (dst src : Nat)
  /-- `objs[o].init()` -/
  | init (o : Nat)
  | threads (t : Nat)

/-- does this entry point write the point into the model object first? (regenerated from the C++) -/
def setsModelFirst (fl : Flavour) (deriv : Bool) : Bool :=
  match fl, deriv with
  | .weighted, false => Gen.LossOutputs.weightedEvalSetsModelFirst
  | .weighted, true => Gen.LossOutputs.weightedDerivSetsModelFirst
  | _, false => Gen.LossOutputs.plainEvalSetsModelFirst
  | _, true => Gen.LossOutputs.plainDerivSetsModelFirst

/-- the loops of one object on the model `f` (= the model object with its current parameters), at the point
`p` (only the regularizer sees the point itself).  One result for the full-batch flavours, one candidate per
batch index for the mini-batch flavour (the index is drawn by the caller's random number generator). -/
def objResults (f : ModelFn α) (o : Obj α L) (threads : Nat) (deriv : Bool) (p : List α) : List (α × List α) :=
  let order (T : Nat) := List.range (min T o.B)
  let base : List (α × List α) :=
    match o.flavour, deriv with
    | .plain, false => [(ErrFn.eval f o.loss o.batches o.B threads (order threads), [])]
    | .plain, true => [ErrFn.evalDerivative f o.loss o.batches o.B threads (order threads)]
    | .weighted, false => [(wEval f o.loss o.batches o.B (List.range o.B), [])]
    | .weighted, true => [wEvalDerivative f o.loss o.batches o.B (List.range o.B)]
    | .mini, false => (List.range o.B).map fun b => (miniEval f o.loss o.batches b, [])
    | .mini, true => (List.range o.B).map fun b => miniEvalDerivative f o.loss o.batches b
  match o.reg with
  | none => base
  | some (strength, r) =>
    base.map fun v => if deriv then regEvalDerivative v strength (r p) else (regEval v.1 strength (r p).1, [])

/-- one step; `mk` builds the model from the parameters the model object holds -/
def step (mk : List α → ModelFn α) (w : World α L) : Step α → World α L × Option (List (α × List α))
  | .eval o p =>
    match w.objs[o]? with
    | none => (w, none)
    | some ob =>
      let w' := if setsModelFirst ob.flavour false then { w with cur := p } else w
      (w', some (objResults (mk w'.cur) ob w'.threads false p))
  | .deriv o p =>
    match w.objs[o]? with
    | none => (w, none)
    | some ob =>
      let w' := if setsModelFirst ob.flavour true then { w with cur := p } else w
      (w', some (objResults (mk w'.cur) ob w'.threads true p))
  | .setModel q => ({ w with cur := q }, none)
  | .copy o =>
    match w.objs[o]? with
    | none => (w, none)
    | some ob => ({ w with objs := w.objs ++ [ob] }, none)
  | .assign dst src =>
    match w.objs[src]? with
    | none => (w, none)
    | some ob => ({ w with objs := w.objs.set dst ob }, none)
  | .init _ => (w, none)
  | .threads t => ({ w with threads := t }, none)

/-- the results of all steps of a history -/
def run (mk : List α → ModelFn α) (w : World α L) : List (Step α) → List (Option (List (α × List α)))
  | [] => []
  | s :: rest => let r := step mk w s; r.2 :: run mk r.1 rest

/-! the same history when every evaluation is a function of (point, object) only: no model object at all -/
def stepPure (mk : List α → ModelFn α) (objs : List (Obj α L)) (threads : Nat) :
    Step α → (List (Obj α L) × Nat) × Option (List (α × List α))
  | .eval o p => ((objs, threads), (objs[o]?).map fun ob => objResults (mk p) ob threads false p)
  | .deriv o p => ((objs, threads), (objs[o]?).map fun ob => objResults (mk p) ob threads true p)
  | .setModel _ => ((objs, threads), none)
  | .copy o => ((match objs[o]? with | none => objs | some ob => objs ++ [ob], threads), none)
  | .assign dst src => ((match objs[src]? with | none => objs | some ob => objs.set dst ob, threads), none)
  | .init _ => ((objs, threads), none)
  | .threads t => ((objs, t), none)

def runPure (mk : List α → ModelFn α) (objs : List (Obj α L)) (threads : Nat) :
    List (Step α) → List (Option (List (α × List α)))
  | [] => []
  | s :: rest => let r := stepPure mk objs threads s; r.2 :: runPure mk r.1.1 r.1.2 rest

end SharkVerif.ErrFnHist
