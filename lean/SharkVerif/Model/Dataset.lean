/-
Executable model of shark::Data / UnlabeledData / LabeledData / DataView
(include/shark/Data/Dataset.h, Impl/Dataset.inl, DataView.h).

A dataset is a list of batches (each a list of elements) plus a shape.  Every
operation is modelled *as the C++ performs it* (batch by batch, through the
`DataElementIterator` state machine where the C++ uses it).  Operations whose
C++ would leave defined behaviour (index out of range, size_t wrap-around,
division by zero, `SIZE_CHECK`s that `-DNDEBUG` removes) return
`Except.error .undefined`; documented `SHARK_RUNTIME_CHECK` failures return
`.error .exception`.

Not modelled: sharing of batches between datasets (`boost::shared_ptr`; the
harness calls `makeIndependent()` where the C++ demands independence), the
storage layout of sparse batches.

Core Lean only (this file is linked into the native driver `drv_c03`/`drv_c12`).
-/
import SharkVerif.Gen.BatchArith
namespace SharkVerif.Dataset
open SharkVerif.CheckedNat SharkVerif.Gen.BatchArith

inductive Err where
  | undefined   -- the C++ would leave defined behaviour here
  | exception   -- the C++ throws shark::Exception (SHARK_RUNTIME_CHECK)
  deriving Repr, DecidableEq

abbrev R := Except Err

def ofOpt {α : Type} : Option α → R α
  | some a => .ok a
  | none => .error .undefined

def require (b : Bool) : R Unit := if b then .ok () else .error .undefined

abbrev Shape := List Nat

/-- `Data<T>::DefaultBatchSize` -/
def defaultBatchSize : Nat := 256

structure Data (ε : Type) where
  batches : List (List ε)
  shape : Shape := []
  deriving Repr

variable {ε ι κ : Type}

/-- cut a list into consecutive pieces of the given sizes -/
def splitBySizes : List ε → List Nat → List (List ε)
  | _, [] => []
  | xs, s :: ss => xs.take s :: splitBySizes (xs.drop s) ss

namespace Data

def empty : Data ε := { batches := [] }
def flat (d : Data ε) : List ε := d.batches.flatten
/-- `getPartitioning()` -/
def partitioning (d : Data ε) : List Nat := d.batches.map List.length
def numberOfBatches (d : Data ε) : Nat := d.batches.length
/-- `numberOfElements()`: the C++ sums the batch sizes -/
def numberOfElements (d : Data ε) : Nat := d.partitioning.sum
def nonEmptyBatches (d : Data ε) : Bool := d.batches.all (fun b => !b.isEmpty)
/-- `getBatchElement(batch(b), o)` -/
def get (d : Data ε) (b o : Nat) : Option ε := (d.batches[b]?).bind (·[o]?)

end Data

/-! ### batch arithmetic of `createDataFromRange` (a textual copy of `optimalBatchSizes` inside
the template; hand-modelled, proved equal to the generated function for n > 0) -/
def rangeBatchSizes (numPoints maximumBatchSize : Nat) : Option (List Nat) := do
  let batches ← cdiv numPoints maximumBatchSize
  let batches := if numPoints > batches * maximumBatchSize then batches + 1 else batches
  let optimalBatchSize ← cdiv numPoints batches
  let remainder ← csub numPoints (batches * optimalBatchSize)
  pure ((List.range batches).map fun i => if i < remainder then optimalBatchSize + 1 else optimalBatchSize)

/-- `createDataFromRange(inputs, maximumBatchSize)`; `sh` = what `InferShape` returns for the element type -/
def createDataFromRange (xs : List ε) (maximumBatchSize : Nat) (sh : Shape) : R (Data ε) := do
  let m := if maximumBatchSize = 0 then defaultBatchSize else maximumBatchSize
  let sizes ← ofOpt (rangeBatchSizes xs.length m)
  pure { batches := splitBySizes xs sizes, shape := sh }

/-- `SharedContainer::initializeBatches` (used by `Data(size, element, batchSize)`): sizes only -/
def initializeBatchSizes (numElements batchSize : Nat) : Option (List Nat) :=
  if batchSize = 0 ∨ batchSize > numElements then some [numElements]
  else do
    let q ← cdiv numElements batchSize
    let r ← cmod numElements batchSize
    let batches := q + (if r > 0 then 1 else 0)
    let full ← csub batches 1
    let last ← csub numElements (full * batchSize)
    pure (List.replicate full batchSize ++ [last])

/-! ### the element iterator `detail::DataElementIterator` (state machine over the batch sizes) -/
structure Iter where
  batch : Nat
  elem : Nat
  pos : Nat
  deriving Repr, DecidableEq

namespace Iter

def begin : Iter := ⟨0, 0, 0⟩
def «end» (sizes : List Nat) : Iter := ⟨sizes.length, 0, sizes.sum⟩

/-- `increment()` -/
def increment (sizes : List Nat) (it : Iter) : Option Iter := do
  let s ← sizes[it.batch]?
  if it.elem + 1 = s then pure ⟨it.batch + 1, 0, it.pos + 1⟩
  else pure ⟨it.batch, it.elem + 1, it.pos + 1⟩

/-- `decrement()` -/
def decrement (sizes : List Nat) (it : Iter) : Option Iter := do
  let pos ← csub it.pos 1
  if it.elem = 0 then
    let b ← csub it.batch 1
    let s ← sizes[b]?
    let e ← csub s 1
    pure ⟨b, e, pos⟩
  else
    pure ⟨it.batch, it.elem - 1, pos⟩

/-- forward jump loop of `advance`: `rest` = sizes from the current batch on -/
def fwd : List Nat → Nat → Nat → Option (Nat × Nat)
  | [], b, npos => if npos = 0 then some (b, 0) else none   -- "iterator went past the end"
  | s :: rest, b, npos => if npos ≠ 0 ∧ npos ≥ s then fwd rest (b + 1) (npos - s) else some (b, npos)

/-- backward jump loop of `advance`: `rev` = sizes of batches b, b-1, …, 0 -/
def bwd : List Nat → Nat → Nat → Option (Nat × Nat)
  | [], _, _ => none                                         -- batch index wrapped below 0
  | s :: rev, b, npos =>
    if npos ≠ 0 ∧ npos ≥ s then bwd rev (b - 1) (npos - s)
    else do
      let e ← csub s (1 + npos)
      pure (b, e)

/-- `advance(n)` -/
def advance (sizes : List Nat) (it : Iter) (n : Int) : Option Iter := do
  let pos := (it.pos : Int) + n
  if pos < 0 then none
  let n := n + it.elem
  if n = 0 then pure ⟨it.batch, 0, pos.toNat⟩
  else if n < 0 then
    let b ← csub it.batch 1
    let npos := (-n).toNat - 1
    let (b, e) ← bwd (sizes.take (b + 1)).reverse b npos
    pure ⟨b, e, pos.toNat⟩
  else
    let (b, e) ← fwd (sizes.drop it.batch) it.batch n.toNat
    pure ⟨b, e, pos.toNat⟩

end Iter

/-- something with batches one can iterate over (Data and LabeledData) -/
structure Container (α : Type) where
  sizes : List Nat
  get : Nat → Nat → Option α

namespace Container

def deref (c : Container ε) (it : Iter) : Option ε := c.get it.batch it.elem

/-- `*(begin + i)` = `element(i)` -/
def elementAt (c : Container ε) (i : Nat) : Option ε :=
  (Iter.begin.advance c.sizes i).bind c.deref

def walkFwd (c : Container ε) : Nat → Iter → List (Option ε)
  | 0, _ => []
  | k + 1, it => c.deref it :: (match it.increment c.sizes with
                               | some it' => walkFwd c k it'
                               | none => List.replicate k none)

/-- `for (auto e : elements())` -/
def elementsFwd (c : Container ε) : List (Option ε) := walkFwd c c.sizes.sum Iter.begin

def walkRev (c : Container ε) : Nat → Iter → List (Option ε)
  | 0, _ => []
  | k + 1, it => match it.decrement c.sizes with
                 | some it' => c.deref it' :: walkRev c k it'
                 | none => List.replicate (k + 1) none

/-- `it = end; while (it != begin) { --it; *it }` -/
def elementsRev (c : Container ε) : List (Option ε) := walkRev c c.sizes.sum (Iter.end c.sizes)

/-- `element(i)` for i = 0 … n-1 -/
def elementsIdx (c : Container ε) : List (Option ε) := (List.range c.sizes.sum).map c.elementAt

end Container

def Data.container (d : Data ε) : Container ε := ⟨d.partitioning, d.get⟩

/-! ### operations of `Data` -/
namespace Data

/-- `splitBatch(batch, elementIndex)` -/
def splitBatch (d : Data ε) (b k : Nat) : R (Data ε) := do
  let src ← ofOpt d.batches[b]?
  require (k ≤ src.length)
  if k = 0 ∨ k = src.length then pure d
  else pure { d with batches := d.batches.take b ++ [src.take k, src.drop k] ++ d.batches.drop (b + 1) }

/-- `splice(batch)`: (what stays, what is returned) -/
def splice (d : Data ε) (b : Nat) : R (Data ε × Data ε) := do
  require (b ≤ d.numberOfBatches)
  pure ({ d with batches := d.batches.take b }, { batches := d.batches.drop b, shape := d.shape })

def append (d o : Data ε) : Data ε := { d with batches := d.batches ++ o.batches }
def pushBack (d : Data ε) (batch : List ε) : Data ε := { d with batches := d.batches ++ [batch] }

/-- inner copy loop of `SharedContainer::repartition`: copy `n` elements starting at element `idx` of the first
remaining old batch, stepping to the next old batch whenever the current one is exhausted
(`++currentBatchIndex; if(currentBatchIndex == size(batch(currentBatch))){ ++currentBatch; currentBatchIndex = 0; }`).
Returns (copied elements, remaining old batches, index into the first of them). -/
def copyN : List (List ε) → Nat → Nat → Option (List ε × List (List ε) × Nat)
  | old, idx, 0 => some ([], old, idx)
  | [], _, _ + 1 => none                                   -- `batch(currentBatch)` past the last batch
  | b :: rest, idx, n + 1 => do
    let x ← b[idx]?
    let (xs, old', idx') ← if idx + 1 = b.length then copyN rest 0 n else copyN (b :: rest) (idx + 1) n
    pure (x :: xs, old', idx')

/-- outer loop of `SharedContainer::repartition` (one new batch per requested size; `createBatch` needs
`batch(currentBatch)` as blueprint, so a batch must remain whenever a new one is started) -/
def repartitionLoop : List (List ε) → Nat → List Nat → Option (List (List ε))
  | old, _, [] => if old.isEmpty then some [] else none     -- `SIZE_CHECK(currentBatch == size())`
  | old, idx, s :: ss => do
    if old.isEmpty then none
    let (xs, old', idx') ← copyN old idx s
    let tl ← repartitionLoop old' idx' ss
    pure (xs :: tl)

/-- `repartition(batchSizes)`; the copy loop of the C++ walks the old batches element by element,
which is defined iff the sizes sum to the element count and no old or new batch is empty -/
def repartition (d : Data ε) (sizes : List Nat) : R (Data ε) := do
  require (sizes.sum = d.numberOfElements)
  require (d.nonEmptyBatches && sizes.all (· > 0))
  pure { d with batches := splitBySizes d.flat sizes }

/-- `repartition(batchSizes)` computed by the element-by-element copy loop of the C++ (`repartitionLoop`);
proved equal to `repartition` (`C03.repartition_loop_eq`); the driver executes this version -/
def repartitionByLoop (d : Data ε) (sizes : List Nat) : R (Data ε) := do
  require (sizes.sum = d.numberOfElements)
  require (d.nonEmptyBatches && sizes.all (· > 0))
  let bs ← ofOpt (repartitionLoop d.batches 0 sizes)
  pure { d with batches := bs }

/-- `reorderElements(indices)`: new element j = `*(elements().begin() + indices[j])`, batch structure kept -/
def reorderElements (d : Data ε) (indices : List Nat) : R (Data ε) := do
  let n := d.numberOfElements
  require (n ≤ indices.length)
  let picked ← (indices.take n).mapM fun i => do
    require (i < n)
    ofOpt (d.container.elementAt i)
  pure { d with batches := splitBySizes picked d.partitioning }

/-- `detail::complement(set, n, comp)` -/
def complement (set : List Nat) (n : Nat) : List Nat := (List.range n).filter (fun i => !set.contains i)

/-- `indexedSubset(indices)` (one-result overload: keeps the shape) -/
def indexedSubset (d : Data ε) (indices : List Nat) : R (Data ε) := do
  let bs ← indices.mapM fun i => ofOpt d.batches[i]?
  pure { batches := bs, shape := d.shape }

/-- `indexedSubset(indices, subset, complement)` (the out-parameters keep whatever shape they had:
fresh objects → empty shape) -/
def indexedSubsetCompl (d : Data ε) (indices : List Nat) : R (Data ε × Data ε) := do
  let s ← d.indexedSubset indices
  let c ← d.indexedSubset (complement indices d.numberOfBatches)
  pure ({ s with shape := [] }, { c with shape := [] })

/-- `transform(data, f)` element-wise / batch-wise with an element-wise batch functor; `sh` = inferred shape -/
def transform (d : Data ε) (f : ε → κ) (sh : Shape) : Data κ :=
  { batches := d.batches.map (·.map f), shape := sh }

end Data

/-! ### LabeledData -/
structure LabeledData (ι κ : Type) where
  inputs : Data ι
  labels : Data κ
  deriving Repr

namespace LabeledData

def empty : LabeledData ι κ := ⟨Data.empty, Data.empty⟩
def numberOfBatches (d : LabeledData ι κ) : Nat := d.inputs.numberOfBatches
def numberOfElements (d : LabeledData ι κ) : Nat := d.inputs.numberOfElements
def partitioning (d : LabeledData ι κ) : List Nat := d.inputs.partitioning
def get (d : LabeledData ι κ) (b o : Nat) : Option (ι × κ) := do
  let i ← d.inputs.get b o
  let l ← d.labels.get b o
  pure (i, l)
def container (d : LabeledData ι κ) : Container (ι × κ) := ⟨d.inputs.partitioning, d.get⟩
/-- elements read batch by batch (`batches()`), pairing the i-th input batch with the i-th label batch -/
def flat (d : LabeledData ι κ) : List (ι × κ) :=
  (List.zip d.inputs.batches d.labels.batches).flatMap fun (bi, bl) => List.zip bi bl
/-- the class invariant `LabeledData(inputs, labels)` checks (element counts always, batch sizes in debug mode) -/
def wellFormed (d : LabeledData ι κ) : Bool := d.inputs.partitioning == d.labels.partitioning

/-- the constructor `LabeledData(Data inputs, Data labels)` -/
def mk' (i : Data ι) (l : Data κ) : R (LabeledData ι κ) :=
  if i.numberOfElements = l.numberOfElements then .ok ⟨i, l⟩ else .error .exception

def createFromRange (xs : List ι) (ls : List κ) (maximumBatchSize : Nat) (shI shL : Shape) : R (LabeledData ι κ) := do
  if xs.length ≠ ls.length then throw .exception
  let m := if maximumBatchSize = 0 then defaultBatchSize else maximumBatchSize
  mk' (← createDataFromRange xs m shI) (← createDataFromRange ls m shL)

def splitBatch (d : LabeledData ι κ) (b k : Nat) : R (LabeledData ι κ) := do
  pure ⟨← d.inputs.splitBatch b k, ← d.labels.splitBatch b k⟩

def splice (d : LabeledData ι κ) (b : Nat) : R (LabeledData ι κ × LabeledData ι κ) := do
  let (il, ir) ← d.inputs.splice b
  let (ll, lr) ← d.labels.splice b
  pure (⟨il, ll⟩, ← mk' ir lr)

def append (d o : LabeledData ι κ) : LabeledData ι κ := ⟨d.inputs.append o.inputs, d.labels.append o.labels⟩
def pushBack (d : LabeledData ι κ) (bi : List ι) (bl : List κ) : LabeledData ι κ :=
  ⟨d.inputs.pushBack bi, d.labels.pushBack bl⟩

def repartition (d : LabeledData ι κ) (sizes : List Nat) : R (LabeledData ι κ) := do
  pure ⟨← d.inputs.repartition sizes, ← d.labels.repartition sizes⟩

def repartitionByLoop (d : LabeledData ι κ) (sizes : List Nat) : R (LabeledData ι κ) := do
  pure ⟨← d.inputs.repartitionByLoop sizes, ← d.labels.repartitionByLoop sizes⟩

def reorderElements (d : LabeledData ι κ) (indices : List Nat) : R (LabeledData ι κ) := do
  pure ⟨← d.inputs.reorderElements indices, ← d.labels.reorderElements indices⟩

def indexedSubset (d : LabeledData ι κ) (indices : List Nat) : R (LabeledData ι κ) := do
  mk' (← d.inputs.indexedSubset indices) (← d.labels.indexedSubset indices)

/-- `splitAtElement(data, elementIndex)`: the scan for the batch containing the split point -/
def splitScan : List Nat → Nat → Nat → Nat → Option (Nat × Nat)
  | [], _, _, _ => none                                        -- `data.batch(batchPos)` out of range
  | s :: rest, batchPos, batchStart, k =>
    if batchStart + s < k then splitScan rest (batchPos + 1) (batchStart + s) k
    else some (batchPos, batchStart)

def splitAtElement (d : LabeledData ι κ) (k : Nat) : R (LabeledData ι κ × LabeledData ι κ) := do
  require (k ≤ d.numberOfElements)
  let (batchPos, batchStart) ← ofOpt (splitScan d.partitioning 0 0 k)
  let splitPoint ← ofOpt (csub k batchStart)
  if splitPoint ≠ 0 then
    let d ← d.splitBatch batchPos splitPoint
    d.splice (batchPos + 1)
  else d.splice batchPos

def transformLabels {κ' : Type} (d : LabeledData ι κ) (f : κ → κ') (sh : Shape) : R (LabeledData ι κ') :=
  mk' d.inputs (d.labels.transform f sh)
def transformInputs {ι' : Type} (d : LabeledData ι κ) (f : ι → ι') (sh : Shape) : R (LabeledData ι' κ) :=
  mk' (d.inputs.transform f sh) d.labels

end LabeledData

/-! ### WeightedLabeledData (`detail::BaseWeightedDataset<LabeledData<I,L>>`, WeightedDataset.h): the data and a
`Data<double>` of weights; every structural operation is applied to the data part and then to the weights -/
structure WeightedData (ι κ ω : Type) where
  data : LabeledData ι κ
  weights : Data ω
  deriving Repr

namespace WeightedData
variable {ω : Type}

def numberOfElements (d : WeightedData ι κ ω) : Nat := d.data.numberOfElements
def partitioning (d : WeightedData ι κ ω) : List Nat := d.data.partitioning

/-- the constructor `BaseWeightedDataset(data, weights)` -/
def mk' (d : LabeledData ι κ) (w : Data ω) : R (WeightedData ι κ ω) :=
  if d.numberOfElements = w.numberOfElements then .ok ⟨d, w⟩ else .error .exception

def splitBatch (d : WeightedData ι κ ω) (b k : Nat) : R (WeightedData ι κ ω) := do
  pure ⟨← d.data.splitBatch b k, ← d.weights.splitBatch b k⟩

def repartition (d : WeightedData ι κ ω) (sizes : List Nat) : R (WeightedData ι κ ω) := do
  pure ⟨← d.data.repartition sizes, ← d.weights.repartition sizes⟩

/-- `shuffle()`: `m_data.reorderElements(indices); m_weights.reorderElements(indices)` with one index vector -/
def reorderElements (d : WeightedData ι κ ω) (indices : List Nat) : R (WeightedData ι κ ω) := do
  pure ⟨← d.data.reorderElements indices, ← d.weights.reorderElements indices⟩

def append (d o : WeightedData ι κ ω) : WeightedData ι κ ω := ⟨d.data.append o.data, d.weights.append o.weights⟩

def indexedSubset (d : WeightedData ι κ ω) (indices : List Nat) : R (WeightedData ι κ ω) := do
  pure ⟨← d.data.indexedSubset indices, ← d.weights.indexedSubset indices⟩

/-- `WeightedLabeledData::splice(batch)` -/
def splice (d : WeightedData ι κ ω) (b : Nat) : R (WeightedData ι κ ω × WeightedData ι κ ω) := do
  let (l, r) ← d.data.splice b
  let (wl, wr) ← d.weights.splice b
  pure (⟨l, wl⟩, ← mk' r wr)

/-- `splitAtElement(weighted, k)` (the same template as for `LabeledData`) -/
def splitAtElement (d : WeightedData ι κ ω) (k : Nat) : R (WeightedData ι κ ω × WeightedData ι κ ω) := do
  require (k ≤ d.numberOfElements)
  let (batchPos, batchStart) ← ofOpt (LabeledData.splitScan d.partitioning 0 0 k)
  let splitPoint ← ofOpt (csub k batchStart)
  if splitPoint ≠ 0 then
    let d ← d.splitBatch batchPos splitPoint
    d.splice (batchPos + 1)
  else d.splice batchPos

end WeightedData

/-! ### class-label operations (`LabeledData<I, unsigned int>`) -/
abbrev CData (ι : Type) := LabeledData ι Nat

/-- `numberOfClasses(labels)`: needs every batch non-empty (`*max_element` of an empty range) -/
def numberOfClasses (labels : Data Nat) : R Nat := do
  require labels.nonEmptyBatches
  pure (labels.flat.foldl max 0 + 1)

/-- `classSizes(labels)` -/
def classSizes (labels : Data Nat) : R (List Nat) := do
  let c ← numberOfClasses labels
  pure ((List.range c).map fun k => labels.flat.count k)

/-- the index vector `repartitionByClass` builds: positions of class 0 in order, then class 1, … -/
def classOrder (labels : List Nat) (numClasses : Nat) : List Nat :=
  (List.range numClasses).flatMap fun c => (List.range labels.length).filter fun i => labels[i]? == some c

/-- `repartitionByClass(data, batchSize)` -/
def repartitionByClass (d : CData ι) (batchSize : Nat) : R (CData ι) := do
  let classCounts ← classSizes d.labels
  let (_, _classStart, partitioning) ← ofOpt (batchPartitioning classCounts [] [] batchSize)
  let d ← d.repartition partitioning
  -- `for (auto const& elem : data.elements())` reads the labels through the element iterator
  let labs ← ofOpt (d.container.elementsFwd.mapM id)
  d.reorderElements (classOrder (labs.map (·.2)) classCounts.length)

/-- label of the first element of every batch, as `binarySubProblem` reads it -/
def firstLabels (d : CData ι) : R (List Nat) :=
  d.labels.batches.mapM fun b => ofOpt b[0]?

/-- `binarySubProblem(data, zeroClass, oneClass)` -/
def binarySubProblem (d : CData ι) (zeroClass oneClass : Nat) : R (CData ι) := do
  let smaller := min zeroClass oneClass
  let bigger := max zeroClass oneClass
  let fl := d.labels.batches.map fun b => b[0]?
  -- the four scanning loops over `start`
  let rec skip (l : List (Option Nat)) (start c : Nat) : R (List (Option Nat) × Nat) :=
    match l with
    | [] => pure ([], start)
    | none :: _ => throw .undefined
    | some x :: rest => if x ≠ c then skip rest (start + 1) c else pure (some x :: rest, start)
  let rec take (l : List (Option Nat)) (start c : Nat) (acc : List Nat) : R (List (Option Nat) × Nat × List Nat) :=
    match l with
    | [] => pure ([], start, acc)
    | none :: _ => throw .undefined
    | some x :: rest => if x = c then take rest (start + 1) c (acc ++ [start]) else pure (some x :: rest, start, acc)
  let (l, start) ← skip fl 0 smaller
  if l.isEmpty then throw .exception          -- "First class does not exist"
  let (l, start, idx) ← take l start smaller []
  let (l, start) ← skip l start bigger
  if l.isEmpty then throw .exception          -- "Second class does not exist"
  let (_, _, idx) ← take l start bigger idx
  let sub ← d.indexedSubset idx
  sub.transformLabels (fun l => if l = oneClass then 1 else 0) []

/-- the batch index set `binarySubProblem` collects with its four scanning loops (the same loops as in
`binarySubProblem`; `C03.binarySubProblem_eq_indexSet`) -/
def binaryIndexSet (d : CData ι) (zeroClass oneClass : Nat) : R (List Nat) := do
  let smaller := min zeroClass oneClass
  let bigger := max zeroClass oneClass
  let fl := d.labels.batches.map fun b => b[0]?
  let (l, start) ← binarySubProblem.skip fl 0 smaller
  if l.isEmpty then throw .exception
  let (l, start, idx) ← binarySubProblem.take l start smaller []
  let (l, start) ← binarySubProblem.skip l start bigger
  if l.isEmpty then throw .exception
  let (_, _, idx) ← binarySubProblem.take l start bigger idx
  pure idx

/-- `oneVersusRestProblem(data, oneClass)` -/
def oneVersusRestProblem (d : CData ι) (oneClass : Nat) : R (CData ι) :=
  d.transformLabels (fun l => if l = oneClass then 1 else 0) []

/-! ### DataView -/
structure ViewIndex where
  batch : Nat
  positionInBatch : Nat
  datasetIndex : Nat
  deriving Repr, DecidableEq

structure View (ι κ : Type) where
  dataset : LabeledData ι κ
  indices : List ViewIndex
  deriving Repr

namespace View

/-- `DataView(dataset)` -/
def ofDataset (d : LabeledData ι κ) : View ι κ :=
  let rec go (sizes : List Nat) (b idx : Nat) : List ViewIndex :=
    match sizes with
    | [] => []
    | s :: rest => (List.range s).map (fun j => ⟨b, j, idx + j⟩) ++ go rest (b + 1) (idx + s)
  ⟨d, go d.partitioning 0 0⟩

def size (v : View ι κ) : Nat := v.indices.length
/-- `view[i]` -/
def get (v : View ι κ) (i : Nat) : Option (ι × κ) := do
  let ix ← v.indices[i]?
  v.dataset.get ix.batch ix.positionInBatch
/-- `subset(view, indices)` -/
def subset (v : View ι κ) (idx : List Nat) : R (View ι κ) := do
  pure ⟨v.dataset, ← idx.mapM fun i => ofOpt v.indices[i]?⟩
def elements (v : View ι κ) : List (Option (ι × κ)) := (List.range v.size).map v.get
/-- `subBatch(view, indices)` -/
def subBatch (v : View ι κ) (idx : List Nat) : R (List (ι × κ)) := do
  let s ← v.subset idx
  ofOpt (s.elements.mapM id)
/-- `toDataset(view, batchSize)`: a fresh `LabeledData(size, element, batchSize)` filled through the element
iterator.  The element shapes of the viewed dataset are carried over (`keepShape`; the unrepaired C++ built the
result with empty shapes -- finding F-C03-16 -- which `keepShape := false` reproduces) -/
def toDataset (v : View ι κ) (batchSize : Nat) (keepShape : Bool := true) : R (LabeledData ι κ) := do
  if v.size = 0 then pure LabeledData.empty
  else
    let els ← ofOpt (v.elements.mapM id)
    let sizes ← ofOpt (initializeBatchSizes v.size batchSize)
    pure ⟨{ batches := splitBySizes (els.map (·.1)) sizes, shape := if keepShape then v.dataset.inputs.shape else [] },
          { batches := splitBySizes (els.map (·.2)) sizes, shape := if keepShape then v.dataset.labels.shape else [] }⟩

end View

end SharkVerif.Dataset
