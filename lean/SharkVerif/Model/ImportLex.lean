/-
Lexical side of the importer model: bytes → tokenised records.

* `Val`: the value of a numeric token as an IEEE number, computed *exactly*
  (decimal → nearest binary64, ties to even).  Spirit's `double_` computes
  `mantissa · 10^k` with one rounding when the token has at most 15 significant
  digits and a small exponent; the check only compares values for such tokens
  (mode `X`), otherwise it runs the case for memory safety only (mode `S`).
* `real`, `uint`, `int`: the Spirit numeric parsers (`double_`, `uint_`, `int_`)
  as consumption functions on `List Char`.
* `svmLine`: `phrase_parse(first,last, double_ >> *(uint_ >> ':' >> double_), space, p)`
  followed by `r && first == last`.
Core Lean only.
-/
namespace SharkVerif.Import

/-- IEEE value; `fin neg m e` = ± m·2^e with `m` odd, or `m = 0 ∧ e = 0` -/
inductive Val where
  | fin (neg : Bool) (m : Nat) (e : Int)
  | inf (neg : Bool)
  | nan
  deriving Repr, DecidableEq, Inhabited

namespace Val

def zero : Val := .fin false 0 0

/-- strip factors of two (fuel: the number itself) -/
def stripTwos : Nat → Nat → Int → Nat × Int
  | 0, m, e => (m, e)
  | f+1, m, e => if m ≠ 0 ∧ m % 2 = 0 then stripTwos f (m / 2) (e + 1) else (m, e)

def mk (neg : Bool) (m : Nat) (e : Int) : Val :=
  if m = 0 then .fin neg 0 0
  else let (m', e') := stripTwos (Nat.log2 m + 1) m e; .fin neg m' e'

/-- round the positive rational `n/d` to `p` bits, exponent ≥ `emin`, ties to even;
values ≥ 2^emax become infinite -/
def roundBin (p : Nat) (emin emax : Int) (neg : Bool) (n d : Nat) : Val :=
  if n = 0 ∨ d = 0 then .fin neg 0 0 else
  let quotAt (e : Int) : Nat × Nat × Nat :=
    let num := if e ≥ 0 then n else n * 2 ^ (-e).toNat
    let den := if e ≥ 0 then d * 2 ^ e.toNat else d
    (num / den, num % den, den)
  let e0 : Int := (Nat.log2 n : Int) - (Nat.log2 d : Int) - (p : Int)
  let e1 := if (quotAt e0).1 ≥ 2 ^ p then e0 + 1 else e0
  let e2 := if (quotAt e1).1 ≥ 2 ^ p then e1 + 1 else e1
  let e := if e2 < emin then emin else e2
  let (q, r, den) := quotAt e
  let m := if 2 * r > den ∨ (2 * r = den ∧ q % 2 = 1) then q + 1 else q
  -- overflow test: m·2^e ≥ 2^emax
  if e ≥ 0 ∧ m * 2 ^ e.toNat ≥ 2 ^ emax.toNat then .inf neg
  else mk neg m e

/-- decimal `digits · 10^k` → nearest double -/
def ofDecimal (neg : Bool) (digits : Nat) (k : Int) : Val :=
  if k ≥ 0 then roundBin 53 (-1074) 1024 neg (digits * 10 ^ k.toNat) 1
  else roundBin 53 (-1074) 1024 neg digits (10 ^ (-k).toNat)

/-- `static_cast<float>(double)` -/
def toFloat32 : Val → Val
  | .fin neg m e =>
    if e ≥ 0 then roundBin 24 (-149) 128 neg (m * 2 ^ e.toNat) 1
    else roundBin 24 (-149) 128 neg m (2 ^ (-e).toNat)
  | v => v

def ofInt (i : Int) : Val := mk (decide (i < 0)) i.natAbs 0

/-- the `int` a label value denotes (`label == static_cast<int>(label)`), if any -/
def toInt32 : Val → Option Int
  | .fin neg m e =>
    if e < 0 then none
    else
      let a : Int := (m * 2 ^ e.toNat : Nat)
      let v := if neg then -a else a
      if v ≥ -2147483648 ∧ v ≤ 2147483647 then some v else none
  | _ => none

def render : Val → String
  | .fin neg m e => (if neg && m ≠ 0 then "-" else "") ++ toString m ++ "^" ++ toString e
  | .inf neg => if neg then "-inf" else "inf"
  | .nan => "nan"

end Val

/-! ### Spirit numeric parsers: `some (value, rest)` or `none` (no consumption) -/

def isDigit (c : Char) : Bool := '0' ≤ c && c ≤ '9'

/-- maximal run of decimal digits: (value, count, rest) -/
def digits : List Char → Nat → Nat → Nat × Nat × List Char
  | c :: t, acc, n => if isDigit c then digits t (acc * 10 + (c.toNat - 48)) (n + 1) else (acc, n, c :: t)
  | [], acc, n => (acc, n, [])

/-- `qi::space` (`std::isspace` in the C locale) -/
def isSpace (c : Char) : Bool :=
  c == ' ' || c == '\t' || c == '\n' || c == '\r' || c.toNat == 11 || c.toNat == 12

def skipSpace : List Char → List Char
  | c :: t => if isSpace c then skipSpace t else c :: t
  | [] => []

/-- `uint_`: `unsigned int`, fails on overflow, no sign -/
def uint (s : List Char) : Option (Nat × List Char) :=
  let (v, n, rest) := digits s 0 0
  if n = 0 ∨ v ≥ 4294967296 then none else some (v, rest)

/-- optional sign -/
def splitSign : List Char → Bool × List Char
  | '-' :: t => (true, t)
  | '+' :: t => (false, t)
  | s => (false, s)

/-- `int_`: optional sign, digits, fails on overflow -/
def int (s : List Char) : Option (Int × List Char) :=
  let p := splitSign s
  let d := digits p.2 0 0
  if d.2.1 = 0 then none
  else if p.1 then (if d.1 > 2147483648 then none else some (-(d.1 : Int), d.2.2))
  else (if d.1 > 2147483647 then none else some ((d.1 : Int), d.2.2))

def lower (c : Char) : Char := if 'A' ≤ c && c ≤ 'Z' then Char.ofNat (c.toNat + 32) else c

/-- case-insensitive literal prefix -/
def litCI : List Char → List Char → Option (List Char)
  | [], s => some s
  | p :: ps, c :: t => if lower c == p then litCI ps t else none
  | _ :: _, [] => none

/-- skip to just behind the next `)`; `none` if there is none -/
def closeParen : List Char → Option (List Char)
  | [] => none
  | c :: t => if c == ')' then some t else closeParen t

/-- optional exponent part `[eE][+-]?digits` (backtracks to before the `e` when no
digits follow or the exponent does not fit an `int`) -/
def exponent (s : List Char) : Int × List Char :=
  match s with
  | c :: t =>
    if c == 'e' || c == 'E' then
      match int t with
      | some (k, rest) => (k, rest)
      | none => (0, s)
    else (0, s)
  | [] => (0, s)

/-! #### IEEE arithmetic on `Val` (round to nearest even), as far as spirit's `traits::scale` needs it -/

/-- a finite value as `(numerator, denominator)` of its absolute value -/
def Val.ratOf : Val → Nat × Nat
  | .fin _ m e => if e ≥ 0 then (m * 2 ^ e.toNat, 1) else (m, 2 ^ (-e).toNat)
  | _ => (0, 1)

def Val.isFin : Val → Bool
  | .fin _ _ _ => true
  | _ => false

/-- `a * b` in binary64 for non-negative finite operands, result sign `neg` -/
def Val.mulD (neg : Bool) (a b : Val) : Val :=
  if a.isFin && b.isFin then Val.roundBin 53 (-1074) 1024 neg (a.ratOf.1 * b.ratOf.1) (a.ratOf.2 * b.ratOf.2)
  else .inf neg

/-- `a / b` in binary64 for non-negative finite operands, `b ≠ 0` -/
def Val.divD (neg : Bool) (a b : Val) : Val :=
  if a.isFin && b.isFin then Val.roundBin 53 (-1074) 1024 neg (a.ratOf.1 * b.ratOf.2) (a.ratOf.2 * b.ratOf.1)
  else if a.isFin then .fin neg 0 0 else .inf neg

/-- `a + b` in binary64 for non-negative finite operands -/
def Val.addD (neg : Bool) (a b : Val) : Val :=
  Val.roundBin 53 (-1074) 1024 neg (a.ratOf.1 * b.ratOf.2 + b.ratOf.1 * a.ratOf.2) (a.ratOf.2 * b.ratOf.2)

/-- `static_cast<double>(acc)` of the `uint64` accumulator -/
def Val.ofNatD (neg : Bool) (n : Nat) : Val := Val.roundBin 53 (-1074) 1024 neg n 1

/-- spirit's `pow10<double>(k)`: the literal `1e<k>`, i.e. the double nearest to `10^k` -/
def pow10D (k : Nat) : Val := Val.ofDecimal false 1 k

/-- `traits::scale(exp - frac, n, acc_n)` of boost 1.83 (`real_impl.hpp`), value and failure:
* `k ≥ 0`: fails above `max_exponent10 = 308`, else `double(acc) * 1e<k>` (two roundings when
  `acc ≥ 2^53` or `k > 22`, all of them modelled);
* `-307 ≤ k < 0`: `double(acc) / 1e<-k>`;
* `k < -307`: `compensate_roundoff` (`double((acc/10)*10) + double(acc%10)`), `/ 1e307`, then
  fails below `-614`, else `/ 1e<-k-307>`.
The sign is applied afterwards (`copysign`); rounding to nearest is symmetric, so it is passed down. -/
def scaled (neg : Bool) (digits : Nat) (k : Int) (rest : List Char) : Option (Val × List Char) :=
  if k > 308 ∨ k < -614 then none
  else if k ≥ 0 then some (Val.mulD neg (Val.ofNatD false digits) (pow10D k.toNat), rest)
  else if k ≥ -307 then some (Val.divD neg (Val.ofNatD false digits) (pow10D (-k).toNat), rest)
  else
    let n0 := Val.addD false (Val.ofNatD false (digits / 10 * 10)) (Val.ofNatD false (digits % 10))
    let n1 := Val.divD false n0 (pow10D 307)
    some (Val.divD neg n1 (pow10D (-k - 307).toNat), rest)

/-- `double_` (`real_policies<double>`: sign, leading / trailing dot allowed,
`nan`, `nan(...)`, `inf`, `infinity`) -/
def real (s : List Char) : Option (Val × List Char) :=
  let neg := (splitSign s).1
  let s1 := (splitSign s).2
  let (ip, nI, s2) := digits s1 0 0
  if nI = 0 then
    -- nan / inf, else leading dot
    match litCI ['n','a','n'] s2 with
    | some r =>
      (match r with
       | '(' :: t => (match closeParen t with
                      | some r' => some (.nan, r')
                      | none => none)
       | _ => some (.nan, r))
    | none =>
      match litCI ['i','n','f'] s2 with
      | some r =>
        (match litCI ['i','n','i','t','y'] r with
         | some r' => some (.inf neg, r')
         | none => some (.inf neg, r))
      | none =>
        match s2 with
        | '.' :: t =>
          let (fp, nF, s3) := digits t 0 0
          if nF = 0 then none
          else
            let (k, s4) := exponent s3
            scaled neg fp (k - nF) s4
        | _ => none
  else
    match s2 with
    | '.' :: t =>
      let (fp, nF, s3) := digits t ip 0     -- accumulate onto the integer part
      let (k, s4) := exponent s3
      scaled neg fp (k - nF) s4
    | _ =>
      let (k, s4) := exponent s2
      scaled neg ip k s4

/-! ### LibSVM line -/

/-- `*(uint_ >> ':' >> double_)` under the `space` skipper; returns the pairs and
the position where the Kleene star stopped (a failed iteration consumes nothing) -/
def svmPairs : Nat → List Char → List (Nat × Val) → List (Nat × Val) × List Char
  | 0, s, acc => (acc.reverse, s)
  | f+1, s, acc =>
    match uint (skipSpace s) with
    | none => (acc.reverse, s)
    | some (i, r1) =>
      match skipSpace r1 with
      | ':' :: r2 =>
        (match real (skipSpace r2) with
         | some (v, r3) => svmPairs f r3 ((i, v) :: acc)
         | none => (acc.reverse, s))
      | _ => (acc.reverse, s)

/-- one record; `none` = "Failed to parse record".  `phrase_parse` post-skips. -/
def svmLine (line : List Char) : Option (Val × List (Nat × Val)) :=
  match real (skipSpace line) with
  | none => none
  | some (lab, r) =>
    let (ps, rest) := svmPairs (line.length + 1) r []
    if (skipSpace rest).isEmpty then some (lab, ps) else none

/-- `std::getline` loop: split at `\n`, drop empty lines -/
def splitLines : List Char → List Char → List (List Char) → List (List Char)
  | [], cur, acc => (if cur.isEmpty then acc else cur.reverse :: acc).reverse
  | c :: t, cur, acc =>
    if c == '\n' then splitLines t [] (if cur.isEmpty then acc else cur.reverse :: acc)
    else splitLines t (c :: cur) acc

/-- `importSparseDataReader`: all records or `none` (exception) -/
def svmRecords (bytes : List Char) : Option (List (Val × List (Nat × Val))) :=
  (splitLines bytes [] []).mapM svmLine

end SharkVerif.Import
