/-
Executable model of Pareto dominance and non-dominated sorting
(`Operators/Domination/ParetoDominance.h`, `FastNonDominatedSort.h`) and the
specification `rankSpec`.  Core Lean only (no Mathlib): this file is compiled
into the native driver `drv_c13` / `drv_c14`.

Points are `List Int` (objective vectors with exactly representable
coordinates; the correspondence feeds integer-valued doubles to the C++).
-/
namespace SharkVerif.Pareto

abbrev Pt := List Int

/-- component-wise `≤` (weak dominance for minimisation); vectors of different
length are unrelated (the C++ asserts equal sizes) -/
def leAll : Pt → Pt → Bool
  | [], [] => true
  | a :: as, b :: bs => decide (a ≤ b) && leAll as bs
  | _, _ => false

/-- strict Pareto dominance: `p ≤ q` in every objective and `p ≠ q` -/
def dominates (p q : Pt) : Bool := leAll p q && !leAll q p

/-- `enum DominanceRelation` of `ParetoDominance.h` -/
inductive Rel where
  | incomparable | lhsDominates | rhsDominates | equivalent
  deriving DecidableEq, Repr

def Rel.code : Rel → Nat
  | .incomparable => 0 | .lhsDominates => 1 | .rhsDominates => 2 | .equivalent => 3

/-- number of coordinates `i` with `p i < q i` (the counter `l` of the C++ loop;
the counter `r` is the same with the arguments exchanged) -/
def countLt : Pt → Pt → Nat
  | a :: as, b :: bs => (if a < b then 1 else 0) + countLt as bs
  | _, _ => 0

/-- `shark::dominance(lhs, rhs)` -/
def dominance (p q : Pt) : Rel :=
  let l := countLt p q
  let r := countLt q p
  if l > 0 then (if r > 0 then .incomparable else .lhsDominates)
  else (if r > 0 then .rhsDominates else .equivalent)

/-! ### fastNonDominatedSort -/

/-- the point with index `i` (out of range: the empty vector, never used) -/
def pt (pts : List Pt) (i : Nat) : Pt := pts.getD i []

/-- `s[i]`: indices of the points dominated by point `i`, in increasing order -/
def domList (pts : List Pt) (i : Nat) : List Nat :=
  (List.range pts.length).filter fun j =>
    j != i && dominance (pt pts i) (pt pts j) == .lhsDominates

/-- `numberOfDominatingPoints[i]` after the first loop -/
def domCount (pts : List Pt) (i : Nat) : Nat :=
  (List.range pts.length).countP fun j =>
    j != i && dominance (pt pts i) (pt pts j) == .rhsDominates

/-- mutable state of the peeling loop -/
structure FS where
  cnt  : Array Nat      -- numberOfDominatingPoints
  rank : Array Nat      -- ranks
  next : Array Nat      -- nextFront
  deriving Repr

/-- body of the innermost loop for `point = j` with `frontCounter = c`:
`numberOfDominatingPoints[j]--; if(... == 0){ nextFront.push_back(j); ranks[j] = c; }`.
(The C++ counter is a `size_t`; it is never decremented at 0, see
`fastSort_counters_never_wrap` in `Props/C13.lean`.) -/
def visit (c : Nat) (st : FS) (j : Nat) : FS :=
  let v := st.cnt.getD j 0
  let st1 := { st with cnt := st.cnt.setIfInBounds j (v - 1) }
  if v == 1 then { st1 with rank := st1.rank.setIfInBounds j c, next := st1.next.push j } else st1

/-- one pass of the `while(!front.empty())` body -/
def round (pts : List Pt) (c : Nat) (front : List Nat) (st : FS) : FS :=
  front.foldl (fun st e => (domList pts e).foldl (visit c) st) { st with next := #[] }

/-- the `while(!front.empty())` loop; `fuel` bounds the number of passes
(`fastSort_terminates` shows that `n + 1` passes always reach the empty front) -/
def loop (pts : List Pt) : Nat → Nat → List Nat → FS → List Nat × FS
  | 0, _, front, st => (front, st)
  | fuel + 1, c, front, st =>
    if front.isEmpty then (front, st)
    else
      let st' := round pts c front st
      loop pts fuel (c + 1) st'.next.toList st'

/-- state after the first (counting) loop; `ranks0` is the caller's rank array -/
def initState (pts : List Pt) (ranks0 : Array Nat) : List Nat × FS :=
  let n := pts.length
  let cnt := Array.ofFn (n := n) fun i => domCount pts i.val
  let front := (List.range n).filter fun i => cnt.getD i 0 == 0
  let rank := front.foldl (fun r i => r.setIfInBounds i 1) ranks0
  (front, { cnt := cnt, rank := rank, next := #[] })

def fastSortState (pts : List Pt) (ranks0 : Array Nat) : List Nat × FS :=
  let (front, st) := initState pts ranks0
  loop pts (pts.length + 1) 2 front st

/-- `fastNonDominatedSort(points, ranks)` with a fresh rank array -/
def fastSort (pts : List Pt) : List Nat :=
  (fastSortState pts (Array.replicate pts.length 0)).2.rank.toList

/-! ### specification of the rank -/

theorem countP_lt_of_imp {α} (l : List α) (p q : α → Bool) (h : ∀ x, p x → q x)
    (x : α) (hx : x ∈ l) (hq : q x) (hp : ¬ p x) : l.countP p < l.countP q := by
  induction l with
  | nil => cases hx
  | cons a l ih =>
    have hle : l.countP p ≤ l.countP q := List.countP_mono_left (fun y _ hy => h y hy)
    simp only [List.countP_cons]
    rcases List.mem_cons.mp hx with rfl | hx'
    · simp [hq, hp]; omega
    · have := ih hx'
      by_cases hpa : p a
      · simp [hpa, h a hpa]; omega
      · by_cases hqa : q a <;> simp [hpa, hqa] <;> omega

theorem leAll_refl : ∀ p : Pt, leAll p p = true
  | [] => rfl
  | a :: as => by simp [leAll, leAll_refl as]

theorem leAll_trans : ∀ {p q s : Pt}, leAll p q = true → leAll q s = true → leAll p s = true
  | [], [], [], _, _ => rfl
  | a :: as, b :: bs, c :: cs, h1, h2 => by
    simp only [leAll, Bool.and_eq_true, decide_eq_true_eq] at h1 h2 ⊢
    exact ⟨Int.le_trans h1.1 h2.1, leAll_trans h1.2 h2.2⟩
  | [], [], _ :: _, _, h2 => by simp [leAll] at h2
  | [], _ :: _, _, h1, _ => by simp [leAll] at h1
  | _ :: _, [], _, h1, _ => by simp [leAll] at h1
  | _ :: _, _ :: _, [], _, h2 => by simp [leAll] at h2

theorem dominates_trans {p q s : Pt} (h1 : dominates p q = true) (h2 : dominates q s = true) :
    dominates p s = true := by
  simp only [dominates, Bool.and_eq_true, Bool.not_eq_true'] at *
  refine ⟨leAll_trans h1.1 h2.1, ?_⟩
  cases h : leAll s p with
  | false => rfl
  | true => have := leAll_trans h2.1 h; simp [this] at h1

theorem dominates_irrefl (p : Pt) : dominates p p = false := by
  simp [dominates]

/-- **Specification of the non-domination rank**: one plus the highest rank
among the points of `S` that dominate `p` (1 if there is none).  Well-founded
recursion on the number of dominators. -/
def rankSpec (S : List Pt) (p : Pt) : Nat :=
  1 + ((S.filter fun q => dominates q p).attach.map fun q => rankSpec S q.1).foldl max 0
termination_by S.countP fun q => dominates q p
decreasing_by
  have hq := q.2
  simp only [List.mem_filter] at hq
  exact countP_lt_of_imp S (fun x => dominates x q.1) (fun x => dominates x p)
    (fun x hx => dominates_trans hx hq.2) q.1 hq.1 hq.2 (by simp [dominates_irrefl])

end SharkVerif.Pareto
