/-
Model of the part of `shark::BiasSolver<Matrix>` / `BiasSolverSimplex<Matrix>` (QpMcBoxDecomp.h /
QpMcSimplexDecomp.h) that is pure logic: `performBiasUpdate(step, nu)`, which turns a step on the bias vector into
a change of the linear part of the dual problem,

    deltaLinear(i,p) = 0;  for every explicit entry b of nu.row(label(i) * cardP + p):
        deltaLinear(i,p) -= row.entry[b].value * step(row.entry[b].index);
    m_problem->addDeltaLinear(deltaLinear);

(`i` = index of the example in the dataset, `label(i)` its label).  The choice of the step (Rprop on a sub-gradient
of the primal, with its data-dependent termination) is NOT modelled: the theorems (Lemmas/McBias.lean) quantify over
every sequence of steps and inner solves.  Same operations in the same order as the C++; core Lean only.
-/
import SharkVerif.Model.McSimplex
namespace SharkVerif.Mc

variable {α : Type} [Add α] [Sub α] [Mul α] [Div α] [Neg α] [NatCast α] [OfScientific α]
  [LT α] [LE α] [DecidableLT α] [DecidableLE α] [BEq α]

/-- `deltaLinear(i,p)` of `performBiasUpdate` -/
def biasDelta (nu : Nat → Row α) (P : Nat) (labels : Nat → Nat) (step : Nat → α) (i p : Nat) : α :=
  (nu (labels i * P + p)).entries.foldl (fun acc en => acc - en.2 * step en.1) (0.0 : α)

/-- `BiasSolver::performBiasUpdate(step, nu)` -/
def McBox.performBiasUpdate (s : McBox α) (nu : Nat → Row α) (step : Nat → α) : McBox α :=
  s.addDeltaLinear (biasDelta nu s.P s.labels step)

/-- `BiasSolverSimplex::performBiasUpdate(step, nu)` -/
def McSx.performBiasUpdate (s : McSx α) (nu : Nat → Row α) (step : Nat → α) : McSx α :=
  s.addDeltaLinear (biasDelta nu s.b.P s.b.labels step)

/-! ### `BiasSolver::solve`: the Rprop rule as a state machine

    stepsize = 0.01, prev = 0, step = 0 (value-initialised)
    do {
        QpSolver(problem).solve(stop);  problem.unshrink();  if (type != QpAccuracyReached) break;
        while (true) {
            grad = 0;  for i, p: if (solutionGradient(i,p) > 0) for entries b of nu.row(label(i)*cardP+p): grad(index) -= value;
            if (sumToZero) grad -= sum(grad)/classes;
            for c: { if (g > 0) step(c) = -stepsize(c); else if (g < 0) step(c) = stepsize(c);
                     if (prev(c)*grad(c) > 0) stepsize(c) *= 1.2; else stepsize(c) *= 0.5; }
            prev = grad;  if (sumToZero) step -= sum(step)/classes;
            bias += step;  performBiasUpdate(step, nu);
            if (max(stepsize) < 0.01*minAccuracy) break;
        }
    } while (problem.checkKKT() > minAccuracy);

Both loops have data-dependent termination: the model takes fuel and reports when it ran out. -/

structure RpropSt (α : Type) where
  bias : Nat → α
  stepsize : Nat → α
  prev : Nat → α
  step : Nat → α

/-- `sum(v)` of a vector of length `k` (left to right) -/
def vsumK (k : Nat) (v : Nat → α) : α := (List.range k).foldl (fun acc c => acc + v c) (0.0 : α)

/-- `max(v)` of a vector of length `k` -/
def vmaxK (k : Nat) (v : Nat → α) : α := (List.range k).foldl (fun acc c => cmax acc (v c)) (v 0)

/-- the variable that holds `(dataset example i, p)` -/
def McBox.varOf (s : McBox α) (i p : Nat) : Nat :=
  match (List.range s.n).find? (fun e => (s.ex e).index == i) with
  | some e => (s.ex e).var p
  | none => 0

/-- the writes `grad(index) -= value` of the bias-gradient loop of `BiasSolver::solve`, in program order -/
def biasGradWrites (s : McBox α) (nu : Nat → Row α) : List (Nat × α) :=
  (List.range s.n).flatMap fun i => (List.range s.P).flatMap fun p =>
    if s.grad (s.varOf i p) > (0.0 : α) then (nu (s.labels i * s.P + p)).entries else []

/-- one pass through the body of the Rprop loop: new problem state and new Rprop state -/
def rpropPass (s : McBox α) (nu : Nat → Row α) (classes : Nat) (sumToZero : Bool) (r : RpropSt α) : McBox α × RpropSt α :=
  let g0 : Nat → α := McBox.applySubs (fun _ => (0.0 : α)) (biasGradWrites s nu)
  let grad : Nat → α := if sumToZero then (let m := vsumK classes g0 / (classes : α); fun c => g0 c - m) else g0
  let step1 : Nat → α := fun c =>
    if grad c > (0.0 : α) then -(r.stepsize c) else if grad c < (0.0 : α) then r.stepsize c else r.step c
  let stepsize' : Nat → α := fun c =>
    if r.prev c * grad c > (0.0 : α) then r.stepsize c * (1.2 : α) else r.stepsize c * (0.5 : α)
  let step : Nat → α := if sumToZero then (let m := vsumK classes step1 / (classes : α); fun c => step1 c - m) else step1
  (s.performBiasUpdate nu step,
   { bias := fun c => r.bias c + step c, stepsize := stepsize', prev := grad, step := step })

/-- the Rprop loop; the Boolean reports that the fuel ran out -/
def rpropLoop (norm : McBox α → McBox α) (normR : RpropSt α → RpropSt α) (nu : Nat → Row α) (classes : Nat) (sumToZero : Bool) (eps : α) :
    Nat → McBox α → RpropSt α → McBox α × RpropSt α × Bool
  | 0, s, r => (s, r, true)
  | fuel + 1, s, r =>
    let q := rpropPass s nu classes sumToZero r
    let s' := norm q.1
    let r' := normR q.2
    if vmaxK classes r'.stepsize < (0.01 : α) * eps then (s', r', false)
    else rpropLoop norm normR nu classes sumToZero eps fuel s' r'

/-- result of `BiasSolver::solve`: problem, Rprop state, total iterations, stop type of the last inner solve,
fuel exhausted -/
structure BiasResult (α : Type) where
  s : McBox α
  r : RpropSt α
  iterations : Nat
  stop : StopType
  outOfFuel : Bool

/-- the outer `do … while(checkKKT() > eps)` -/
def biasSolveLoop (norm : McBox α → McBox α) (normR : RpropSt α → RpropSt α) (nu : Nat → Row α) (classes : Nat) (sumToZero : Bool) (eps : α)
    (maxIter innerFuel : Nat) : Nat → McBox α → RpropSt α → Nat → BiasResult α
  | 0, s, r, it => { s := s, r := r, iterations := it, stop := .running, outOfFuel := true }
  | fuel + 1, s, r, it =>
    let sol := solveLoopWith norm eps maxIter { s := s, iter := 0, shrinkCounter := 0, stop := .running }
    let s1 := norm sol.s.unshrink
    let it' := it + sol.iter
    if sol.stop ≠ .accuracy then { s := s1, r := r, iterations := it', stop := sol.stop, outOfFuel := false }
    else
      let q := rpropLoop norm normR nu classes sumToZero eps innerFuel s1 r
      if q.2.2 then { s := q.1, r := q.2.1, iterations := it', stop := sol.stop, outOfFuel := true }
      else if q.1.checkKKT > eps then biasSolveLoop norm normR nu classes sumToZero eps maxIter innerFuel fuel q.1 q.2.1 it'
      else { s := q.1, r := q.2.1, iterations := it', stop := sol.stop, outOfFuel := false }

/-- `BiasSolver(problem).solve(bias, stop, nu, sumToZero, &prop)` -/
def biasSolve (norm : McBox α → McBox α) (normR : RpropSt α → RpropSt α) (s : McBox α) (nu : Nat → Row α) (classes : Nat) (sumToZero : Bool)
    (bias0 : Nat → α) (eps : α) (maxIter outerFuel innerFuel : Nat) : BiasResult α :=
  biasSolveLoop norm normR nu classes sumToZero eps maxIter innerFuel outerFuel s
    { bias := bias0, stepsize := fun _ => (0.01 : α), prev := fun _ => (0.0 : α), step := fun _ => (0.0 : α) } 0

end SharkVerif.Mc
