/-
Model of the part of `shark::BiasSolver<Matrix>` / `BiasSolverSimplex<Matrix>` (QpMcBoxDecomp.h /
QpMcSimplexDecomp.h) that is pure logic: `performBiasUpdate(step, nu)`, which turns a step on the bias vector into
a change of the linear part of the dual problem,

    deltaLinear(i,p) = 0;  for every explicit entry b of nu.row(label(i) * cardP + p):
        deltaLinear(i,p) -= row.entry[b].value * step(row.entry[b].index);
    m_problem->addDeltaLinear(deltaLinear);

(`i` = index of the example in the dataset, `label(i)` its label).  The choice of the step (Rprop on a sub-gradient
of the primal, with its data-dependent termination) is NOT modelled: the theorems (Lemmas/McBias.lean) quantify over
every sequence of steps and inner solves.  Same operations in the same order as the C++; core Lean only.
-/
import SharkVerif.Model.McSimplex
namespace SharkVerif.Mc

variable {α : Type} [Add α] [Sub α] [Mul α] [Div α] [Neg α] [NatCast α] [OfScientific α]
  [LT α] [LE α] [DecidableLT α] [DecidableLE α] [BEq α]

/-- `deltaLinear(i,p)` of `performBiasUpdate` -/
def biasDelta (nu : Nat → Row α) (P : Nat) (labels : Nat → Nat) (step : Nat → α) (i p : Nat) : α :=
  (nu (labels i * P + p)).entries.foldl (fun acc en => acc - en.2 * step en.1) (0.0 : α)

/-- `BiasSolver::performBiasUpdate(step, nu)` -/
def McBox.performBiasUpdate (s : McBox α) (nu : Nat → Row α) (step : Nat → α) : McBox α :=
  s.addDeltaLinear (biasDelta nu s.P s.labels step)

/-- `BiasSolverSimplex::performBiasUpdate(step, nu)` -/
def McSx.performBiasUpdate (s : McSx α) (nu : Nat → Row α) (step : Nat → α) : McSx α :=
  s.addDeltaLinear (biasDelta nu s.b.P s.b.labels step)

end SharkVerif.Mc
