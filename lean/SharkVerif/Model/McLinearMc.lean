/-
Model of the per-example step of `shark::QpMcLinear<InputT>::solve`
(include/shark/Algorithms/QP/QpMcLinear.h): dual coordinate ascent for the linear multi-class
SVMs, one example (= one row of `alpha`, `classes+1` columns) at a time, keeping the primal weight
vectors `w` (classes × dim) next to `alpha`.  Body of the inner `for j` loop (shrinking off):

  wx = prod(w, x_i);  (g, kkt) = calcGradient(wx, alpha_i, C, y_i)
  if kkt > 0:  (alpha_i, mu, gain) = solveSub(0.1*minAccuracy, g, |x_i|^2, C, y_i, alpha_i)
               updateWeightVectors(w, mu, i)          -- w_c += step_F(mu)(c) * x_i

The three virtuals are modelled for every subclass (`McForm`): WW, LLW, ATS, MMR, Reinforced (RS),
CS, ATM, ADM.  All SMO loops of `solveSub` are `for (iter=0; iter<10*classes; iter++)` with an early
exit, modelled by structural recursion on the remaining iteration count.

Not modelled: the ACF preference / schedule logic, shrinking and the epoch-level stopping rule;
`mlSweep` applies the step along an arbitrary given schedule and the theorems
(`Lemmas/McLinearMc.lean`) quantify over every schedule.
Same operations in the same order as the C++ (Float instance bit-comparable); core Lean only.
-/
import SharkVerif.Model.McLinear
namespace SharkVerif.Mc

variable {α : Type} [Add α] [Sub α] [Mul α] [Div α] [Neg α] [NatCast α] [OfScientific α]
  [LT α] [LE α] [DecidableLT α] [DecidableLE α] [BEq α]

/-- the subclasses of `QpMcLinear` -/
inductive McForm where
  | WW | LLW | ATS | MMR | RS | CS | ATM | ADM
  deriving DecidableEq, Repr

/-- `if (c == y) continue;` in the working set selection (and `gradient(y) = 0` in calcGradient) -/
def McForm.skipY : McForm → Bool
  | .WW | .LLW | .CS | .ADM => true
  | _ => false

/-- sum-constrained formulations (column `classes` of `alpha` holds the row sum) -/
def McForm.simplex : McForm → Bool
  | .CS | .ATM | .ADM => true
  | _ => false

structure MlData (α : Type) where
  n : Nat
  d : Nat
  classes : Nat
  x : Nat → Nat → α          -- x i k
  y : Nat → Nat              -- label of example i
  C : α
  eps : α                    -- stop.minAccuracy

structure MlState (α : Type) where
  alpha : Nat → Nat → α      -- ell × (classes+1)
  w : Nat → Nat → α          -- classes × dim

/-- `m_xSquared(i) = inner_prod(x_i, x_i)` -/
def MlData.xsq (D : MlData α) (i : Nat) : α :=
  (List.range D.d).foldl (fun acc k => acc + D.x i k * D.x i k) (0.0 : α)

/-- component `c` of `prod(w, x_i)` as a left-to-right sum -/
def mlWx (D : MlData α) (w : Nat → Nat → α) (i c : Nat) : α :=
  (List.range D.d).foldl (fun acc k => acc + w c k * D.x i k) (0.0 : α)

/-- `sum += f(c)` for `c = 0 .. K-1` -/
def mlSum (K : Nat) (f : Nat → α) (init : α) : α :=
  (List.range K).foldl (fun acc c => acc + f c) init

/-! ### calcGradient -/

/-- component `c` of the gradient written by `calcGradient` -/
def mlGradAt (F : McForm) (K : Nat) (wx : Nat → α) (y c : Nat) : α :=
  match F with
  | .WW | .CS => if c = y then (0.0 : α) else (1.0 : α) - (0.5 : α) * (wx y - wx c)
  | .LLW | .ADM => if c = y then (0.0 : α) else (1.0 : α) + wx c
  | .ATS | .ATM => if c = y then (1.0 : α) - wx y else (1.0 : α) + wx c
  | .RS => if c = y then ((K : α) - (1.0 : α)) - wx y else (1.0 : α) + wx c
  | .MMR => if c = y then (1.0 : α) - wx y else (0.0 : α)

/-- box-type working set selection (`kkt`, `idx`): the loop
`if (g > kkt && a < C) {kkt = g; idx = c;} else if (-g > kkt && a > 0.0) {kkt = -g; idx = c;}`;
the violation loop of `calcGradient` makes the same comparisons (first component). -/
def mlBoxSelect (skipY : Bool) (K : Nat) (C : α) (y : Nat) (g a : Nat → α) : α × Nat :=
  (List.range K).foldl (fun (st : α × Nat) c =>
    if skipY && c == y then st else
    let gc := g c
    let ac := a c
    if gc > st.1 ∧ ac < C then (gc, c)
    else if -gc > st.1 ∧ ac > (0.0 : α) then (-gc, c)
    else st) ((0.0 : α), 0)

/-- simplex-type selection when the sum constraint is not active (`alpha(classes) < C`):
`if (g > kkt) {..} else if (-g > kkt && a > 0.0) {..}` -/
def mlFreeSelect (skipY : Bool) (K : Nat) (y : Nat) (g a : Nat → α) : α × Nat :=
  (List.range K).foldl (fun (st : α × Nat) c =>
    if skipY && c == y then st else
    let gc := g c
    let ac := a c
    if gc > st.1 then (gc, c)
    else if -gc > st.1 ∧ ac > (0.0 : α) then (-gc, c)
    else st) ((0.0 : α), 0)

/-- simplex-type selection with active sum constraint: `(kkt_up, idx_up, kkt_down, idx_down)` from
`if (g > kkt_up && a < C) {..}  if (g < kkt_down && a > 0.0) {..}`, start values `up0`, `1e100` -/
def mlUpDown (skipY : Bool) (K : Nat) (C : α) (y : Nat) (g a : Nat → α) (up0 : α) : (α × Nat) × (α × Nat) :=
  (List.range K).foldl (fun (st : (α × Nat) × (α × Nat)) c =>
    if skipY && c == y then st else
    let gc := g c
    let ac := a c
    let u := if gc > st.1.1 ∧ ac < C then (gc, c) else st.1
    let dn := if gc < st.2.1 ∧ ac > (0.0 : α) then (gc, c) else st.2
    (u, dn)) (((up0, 0)), ((1e100 : α), 0))

/-- the KKT violation returned by `calcGradient` -/
def mlKkt (F : McForm) (K : Nat) (C : α) (y : Nat) (g a : Nat → α) : α :=
  match F with
  | .MMR =>
    let gy := g y
    let a0 := a 0
    if gy > (0.0 : α) then (if a0 == C then (0.0 : α) else gy)
    else (if a0 == (0.0 : α) then (0.0 : α) else -gy)
  | .CS | .ATM | .ADM =>
    if a K < C then (mlFreeSelect F.skipY K y g a).1
    else
      let ud := mlUpDown F.skipY K C y g a (0.0 : α)
      let v := ud.1.1 - ud.2.1
      -- std::max(0.0, v) = (0.0 < v) ? v : 0.0
      if (0.0 : α) < v then v else (0.0 : α)
  | _ => (mlBoxSelect F.skipY K C y g a).1

/-! ### updateWeightVectors: the step vector handed to `add_scaled` -/

def mlStepVec (F : McForm) (K : Nat) (y : Nat) (mu : Nat → α) (c : Nat) : α :=
  match F with
  | .WW =>
    let sum_mu := mlSum K mu (0.0 : α)
    if c = y then (0.5 : α) * sum_mu else (-(0.5 : α)) * mu c
  | .CS =>
    let sum_mu := (List.range K).foldl (fun acc p => if p = y then acc else acc + mu p) (0.0 : α)
    if c = y then (0.5 : α) * sum_mu else (-(0.5 : α)) * mu c
  | .LLW | .ADM =>
    let mean_mu := mlSum K mu (0.0 : α) / (K : α)
    mean_mu - mu c
  | .ATS | .ATM | .RS =>
    let mean := mlSum K mu ((-(2.0 : α)) * mu y) / (K : α)
    if c = y then mu c + mean else mean - mu c
  | .MMR =>
    let s := mu 0
    let sc := (-s) / (K : α)
    let sy := s + sc
    if c = y then sy else sc

/-! ### solveSub -/

/-- `qq`, the curvature of a single-variable step -/
def mlQQ (F : McForm) (K : Nat) (q : α) : α :=
  match F with
  | .WW | .CS => (0.5 : α) * q
  | _ => ((1.0 : α) - (1.0 : α) / (K : α)) * q

/-- local state of `solveSub` -/
structure MlSub (α : Type) where
  alpha : Nat → α
  mu : Nat → α
  grad : Nat → α
  gain : α

/-- gradient update and gain increment after a single-variable step `m` on `idx` with old gradient
value `g` (shared by the box-type loops and the single-variable branch of the simplex-type loops) -/
def mlGradUpd (F : McForm) (K : Nat) (q : α) (y : Nat) (grad : Nat → α) (idx : Nat) (m g : α) : (Nat → α) × α :=
  match F with
  | .WW | .CS =>
    let dg := (0.5 : α) * m * mlQQ F K q
    (fun c => if c = idx then (grad c - dg) - dg else grad c - dg, m * (g - dg))
  | .LLW | .ADM =>
    let dg := m * q
    let dgc := dg / (K : α)
    (fun c => if c = idx then (grad c + dgc) - dg else grad c + dgc, m * (g - (0.5 : α) * (dg - dgc)))
  | _ =>
    let dg := m * q
    let dgc := dg / (K : α)
    if idx = y then
      (fun c => if c = idx then (grad c - dgc) - (dg - (2.0 : α) * dgc) else grad c - dgc,
       m * (g - (0.5 : α) * (dg - dgc)))
    else
      (fun c =>
        let t := grad c + (if c = y then -dgc else dgc)
        if c = idx then t - dg else t,
       m * (g - (0.5 : α) * (dg - dgc)))

/-- one SMO iteration of the box-type loops (WW, LLW, ATS, RS) on the selected variable -/
def mlBoxIter (F : McForm) (K : Nat) (q C : α) (y : Nat) (s : MlSub α) (idx : Nat) : MlSub α :=
  let a := s.alpha idx
  let g := s.grad idx
  let r := linMu C a g (mlQQ F K q)
  let u := mlGradUpd F K q y s.grad idx r.1 g
  { alpha := fun c => if c = idx then r.2 else s.alpha c,
    mu := fun c => if c = idx then s.mu c + r.1 else s.mu c,
    grad := u.1,
    gain := s.gain + u.2 }

/-- `for (iter=0; iter<maxiter; iter++) { select; if (kkt < epsilon) break; step }` -/
def mlBoxLoop (F : McForm) (K : Nat) (q C eps : α) (y : Nat) : Nat → MlSub α → MlSub α
  | 0, s => s
  | fuel + 1, s =>
    let sel := mlBoxSelect F.skipY K C y s.grad s.alpha
    if sel.1 < eps then s else mlBoxLoop F K q C eps y fuel (mlBoxIter F K q C y s sel.2)

/-- `QpMcLinearMMR::solveSub`: one clipped step on `alpha(0)` -/
def mlMmrSub (K : Nat) (q C eps : α) (y : Nat) (s : MlSub α) : MlSub α :=
  let qq := mlQQ .MMR K q
  let g := s.grad y
  let a := s.alpha 0
  let kkt := if g > (0.0 : α) ∧ a < C then g else if -g > (0.0 : α) ∧ a > (0.0 : α) then -g else (0.0 : α)
  if kkt < eps then s
  else
    let r := linMu C a g qq
    let m := r.1
    { alpha := fun c => if c = 0 then r.2 else s.alpha c,
      mu := fun c => if c = 0 then m else s.mu c,
      grad := s.grad,
      gain := m * (g - (0.5 : α) * m * qq) }

/-- the two-variable step of the simplex-type loops: `(m, a_up_new, a_down_new)` -/
def mlPairMu (a_up a_down grad den : α) : α × α × α :=
  let m := grad / den
  let a_up_new := a_up + m
  let a_down_new := a_down - m
  if a_down_new ≤ (0.0 : α) then (a_down, a_up + a_down, (0.0 : α)) else (m, a_up_new, a_down_new)

/-- the single-variable step of the simplex-type loops: `(m, a_new, a_sum_new)` -/
def mlSumMu (C a a_sum grad qq : α) : α × α × α :=
  let m := grad / qq
  let a_new := a + m
  let a_sum_new := a_sum + m
  if a_new ≤ (0.0 : α) then (-a, (0.0 : α), a_sum + (-a))
  else if a_sum_new ≥ C then (C - a_sum, a + (C - a_sum), C)
  else (m, a_new, a_sum_new)

/-- one iteration of the simplex-type loops (CS, ATM, ADM); `none` = `return gain` -/
def mlSimplexIter (F : McForm) (K : Nat) (q C eps : α) (y : Nat) (s : MlSub α) : Option (MlSub α) :=
  let qq := mlQQ F K q
  if s.alpha K == C then
    let ud := mlUpDown F.skipY K C y s.grad s.alpha (-(1e100 : α))
    let kkt_up := ud.1.1
    let idx_up := ud.1.2
    let kkt_down := ud.2.1
    let idx_down := ud.2.2
    if kkt_up ≤ (0.0 : α) then
      -- single variable, downwards
      if -kkt_down < eps then none else some (single qq idx_down kkt_down)
    else
      let grad := kkt_up - kkt_down
      if grad < eps then none else
      let a_up := s.alpha idx_up
      let a_down := s.alpha idx_down
      let den := match F with | .CS => qq | _ => (2.0 : α) * q
      let r := mlPairMu a_up a_down grad den
      let m := r.1
      -- alpha(idx_up) = a_up_new; alpha(idx_down) = a_down_new;  (in this order)
      let alpha' := fun c => if c = idx_down then r.2.2 else if c = idx_up then r.2.1 else s.alpha c
      -- mu(idx_up) += m; mu(idx_down) -= m;
      let mu1 := fun c => if c = idx_up then s.mu c + m else s.mu c
      let mu' := fun c => if c = idx_down then mu1 c - m else mu1 c
      match F with
      | .CS =>
        let dg := (0.5 : α) * m * qq
        let g1 := fun c => if c = idx_up then s.grad c - dg else s.grad c
        let g2 := fun c => if c = idx_down then g1 c + dg else g1 c
        some { alpha := alpha', mu := mu', grad := g2, gain := s.gain + m * (grad - (2.0 : α) * dg) }
      | .ATM =>
        let dg := m * q
        let dgc := dg / (K : α)
        let g2 : Nat → α :=
          if idx_up = y then
            let g0 := fun c => s.grad c - dgc
            let g1 := fun c => if c = idx_up then g0 c - (dg - (2.0 : α) * dgc) else g0 c
            fun c => if c = idx_down then g1 c + dg else g1 c
          else if idx_down = y then
            let g1 := fun c => if c = idx_up then s.grad c - dg else s.grad c
            fun c => if c = idx_down then g1 c + (dg - (2.0 : α) * dgc) else g1 c
          else
            let g1 := fun c => if c = idx_up then s.grad c - dg else s.grad c
            fun c => if c = idx_down then g1 c + dg else g1 c
        some { alpha := alpha', mu := mu', grad := g2, gain := s.gain + m * (grad - (dg - dgc)) }
      | _ =>
        let dg := m * q
        let dgc := dg / (K : α)
        let g1 := fun c => if c = idx_up then s.grad c - dg else s.grad c
        let g2 := fun c => if c = idx_down then g1 c + dg else g1 c
        some { alpha := alpha', mu := mu', grad := g2, gain := s.gain + m * (grad - (dg - dgc)) }
  else
    let sel := mlFreeSelect F.skipY K y s.grad s.alpha
    if sel.1 < eps then none else some (single qq sel.2 (s.grad sel.2))
where
  single (qq : α) (idx : Nat) (grad : α) : MlSub α :=
    let a := s.alpha idx
    let a_sum := s.alpha K
    let r := mlSumMu C a a_sum grad qq
    let m := r.1
    -- alpha(idx) = a_new; alpha(m_classes) = a_sum_new;
    let u := mlGradUpd F K q y s.grad idx m grad
    { alpha := fun c => if c = K then r.2.2 else if c = idx then r.2.1 else s.alpha c,
      mu := fun c => if c = idx then s.mu c + m else s.mu c,
      grad := u.1,
      gain := s.gain + u.2 }

def mlSimplexLoop (F : McForm) (K : Nat) (q C eps : α) (y : Nat) : Nat → MlSub α → MlSub α
  | 0, s => s
  | fuel + 1, s =>
    match mlSimplexIter F K q C eps y s with
    | none => s
    | some s' => mlSimplexLoop F K q C eps y fuel s'

/-- `solveSub(epsilon, gradient, q, C, y, alpha, mu)` with `mu = 0`; result: new row, step, gain -/
def mlSolveSub (F : McForm) (K : Nat) (eps q C : α) (y : Nat) (g a : Nat → α) : MlSub α :=
  let s0 : MlSub α := { alpha := a, mu := fun _ => (0.0 : α), grad := g, gain := (0.0 : α) }
  match F with
  | .MMR => mlMmrSub K q C eps y s0
  | .CS | .ATM | .ADM => mlSimplexLoop F K q C eps y (10 * K) s0
  | _ => mlBoxLoop F K q C eps y (10 * K) s0

/-! ### the step for one example and sweeps -/

/-- body of the inner loop for example `i` (shrinking off); returns the new state, the gain and the
KKT violation computed by `calcGradient` -/
def mlStep (F : McForm) (D : MlData α) (s : MlState α) (i : Nat) : MlState α × α × α :=
  let K := D.classes
  let y := D.y i
  let q := D.xsq i
  let a := s.alpha i
  let wx := fun c => mlWx D s.w i c
  let g := fun c => mlGradAt F K wx y c
  let kkt := mlKkt F K D.C y g a
  if kkt > (0.0 : α) then
    let r := mlSolveSub F K ((0.1 : α) * D.eps) q D.C y g a
    let st := mlStepVec F K y r.mu
    ({ alpha := fun j => if j = i then r.alpha else s.alpha j,
       w := fun c k => s.w c k + st c * D.x i k }, r.gain, kkt)
  else (s, (0.0 : α), kkt)

/-- the inner loop along a schedule -/
def mlSweep (F : McForm) (D : MlData α) (s : MlState α) (schedule : List Nat) : MlState α :=
  schedule.foldl (fun s i => (mlStep F D s i).1) s

/-- start of `solve` -/
def mlInit : MlState α := { alpha := fun _ _ => (0.0 : α), w := fun _ _ => (0.0 : α) }

/-- the dual objective as recomputed at the end of `solve`:
`objective = 0; for j, d: objective -= w(j,d)*w(j,d); objective *= 0.5; for i, j<classes: objective += alpha(i,j)` -/
def mlObjective (D : MlData α) (s : MlState α) : α :=
  let o1 := (List.range D.classes).foldl (fun acc j =>
    (List.range D.d).foldl (fun acc k => acc - s.w j k * s.w j k) acc) (0.0 : α)
  let o2 := o1 * (0.5 : α)
  (List.range D.n).foldl (fun acc i =>
    (List.range D.classes).foldl (fun acc j => acc + s.alpha i j) acc) o2

end SharkVerif.Mc
