/-
The generated objective family used by the C10/C11 correspondence, written with
exactly the operation order of `harness/c10.cpp` (`Obj::both`), polymorphic in
the scalar type.  Core Lean only.

  quad:  f(x) = Σ_i x_i·(½·(Ax)_i − b_i),   ∇f = Ax − b     (A symmetric)
  rosen: f(x) = Σ_{i<n-1} 100·(x_{i+1} − x_i²)² + (1 − x_i)²
  box:   BoxConstraintHandler::isFeasible with its 1e-13 slack
-/
import SharkVerif.Model.GradOpt
namespace SharkVerif.Opt
variable {α : Type} [Scalar α]

def quadRows (A : Mat α) (x : Vec α) : Vec α := A.map fun row => Vec.dot row x

def quadF (A : Mat α) (b : Vec α) (x : Vec α) : α :=
  let r := quadRows A x
  (List.zipWith (fun xi (rb : α × α) => xi * (Scalar.half * rb.1 - rb.2)) x (List.zip r b)).foldl (· + ·) Scalar.zero

def quadGrad (A : Mat α) (b : Vec α) (x : Vec α) : Vec α :=
  List.zipWith (· - ·) (quadRows A x) b

def rosenA (x : Vec α) (i : Nat) : α := Vec.get x (i+1) - Vec.get x i * Vec.get x i
def rosenC (x : Vec α) (i : Nat) : α := Scalar.one - Vec.get x i

def rosenF (x : Vec α) : α :=
  (List.range (x.length - 1)).foldl (fun v i =>
    let a := rosenA x i; let c := rosenC x i
    v + (Scalar.ofRat 100 * (a * a) + c * c)) Scalar.zero

/-- gradient in the C++ accumulation order: g[i] = (0 + 200·a_{i-1}) + (−400·a_i·x_i − 2·c_i) -/
def rosenGrad (x : Vec α) : Vec α :=
  let n := x.length
  (List.range n).map fun i =>
    let t0 : α := Scalar.zero
    let t1 := if 1 ≤ i ∧ i < n then t0 + Scalar.ofRat 200 * rosenA x (i-1) else t0
    if i + 1 < n then t1 + (Scalar.ofRat (-400) * (rosenA x i * Vec.get x i) - Scalar.two * rosenC x i) else t1

/-- Hessian of the Rosenbrock objective in the accumulation order of `Obj::evalDerivative(x, SecondOrderDerivative&)` -/
def rosenHess (x : Vec α) : Mat α :=
  let n := x.length
  (List.range n).map fun i => (List.range n).map fun j =>
    let z : α := Scalar.zero
    if i = j then
      let h := if 1 ≤ i then z + Scalar.ofRat 200 else z
      if i + 1 < n then h + ((Scalar.ofRat (-400) * rosenA x i + Scalar.ofRat 800 * Vec.get x i * Vec.get x i) + Scalar.two) else h
    else if j = i + 1 then z + Scalar.ofRat (-400) * Vec.get x i
    else if i = j + 1 then z + Scalar.ofRat (-400) * Vec.get x j
    else z

def boxFeasible (l u : Vec α) (p : Vec α) : Bool :=
  let eps : α := Scalar.ofRat (1 / 10000000000000)
  (List.zip p (List.zip l u)).all fun (pi, li, ui) => !(decide (pi + eps < li)) && !(decide (ui < pi - eps))

inductive ObjKind where
  | quad | rosen
  deriving Repr, DecidableEq

def mkObjective (kind : ObjKind) (A : Mat α) (b : Vec α) (box : Option (Vec α × Vec α)) : Objective α :=
  let f := match kind with | .quad => quadF A b | .rosen => rosenF
  let g := match kind with | .quad => quadGrad A b | .rosen => rosenGrad
  match box with
  | none => { f := f, grad := g, feasible := fun _ => true, constrained := false, lower := [], upper := [] }
  | some (l, u) => { f := f, grad := g, feasible := boxFeasible l u, constrained := true, lower := l, upper := u }

def mkHessian (kind : ObjKind) (A : Mat α) : Vec α → Mat α :=
  match kind with | .quad => fun _ => A | .rosen => rosenHess

end SharkVerif.Opt
