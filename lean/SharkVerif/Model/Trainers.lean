/-
Executable exact-arithmetic (`Rat`) models of Shark's closed-form trainers, as they
compute from a BATCHED dataset (a list of batches, each a list of rows).

  * `Data/Impl/Statistics.inl`        `mean`, `meanvar` (variance / covariance)
  * `NormalizeComponentsUnitVariance.h`, `NormalizeComponentsUnitInterval.h`
  * `src/Algorithms/LinearRegression.cpp`
  * `src/Algorithms/NormalizeComponentsWhitening.cpp`, `NormalizeComponentsZCA.h`
  * `src/Algorithms/PCA.cpp`, `src/Algorithms/LDA.cpp`

Conventions.  A vector is a `List Rat` read with the total accessor `Vec.at`
(0 beyond the end), a matrix is a function `Nat → Nat → Rat` together with its
dimensions where they matter; sums that the C++ accumulates batch by batch are
`bsum` (sum over batches of the sum over the rows of the batch).  Square roots,
logarithms, the eigen-solver and the symmetric positive semi-definite solver are
explicit parameters; their specifications are hypotheses of the theorems
(`Props/C15.lean`) and are checked against the real code by the correspondence.

Core Lean only (no Mathlib): this file is linked into the native driver `drv_c15`.
-/
namespace SharkVerif.Trainers

abbrev Vec := List Rat

/-- total component access: `x.at j = x[j]`, 0 beyond the end -/
def Vec.at (x : Vec) (j : Nat) : Rat := x.getD j 0

/-- `Σ_{a ∈ l} f a` -/
def lsum {α : Type} : List α → (α → Rat) → Rat
  | [], _ => 0
  | a :: t, f => f a + lsum t f

/-- `Σ_{i < n} f i` -/
def rsum : Nat → (Nat → Rat) → Rat
  | 0, _ => 0
  | n + 1, f => rsum n f + f n

/-- accumulation over batches: `Σ_b Σ_{a ∈ b} f a` (the C++ loops `for batch … += …`) -/
def bsum {α : Type} (bs : List (List α)) (f : α → Rat) : Rat := lsum bs fun b => lsum b f

/-- `numberOfElements()`: sum of the batch sizes -/
def count {α : Type} : List (List α) → Nat
  | [] => 0
  | b :: bs => b.length + count bs

/-! ## Statistics.inl -/

/-- `mean(data)`: `for batch: mean += sum(as_columns(batch)); mean /= numberOfElements` -/
def mean (bs : List (List Vec)) (j : Nat) : Rat := bsum bs (fun x => x.at j) / (count bs : Nat)

/-- `meanvar(data, mean, varianceVec)`: two-pass population variance -/
def variance (bs : List (List Vec)) (j : Nat) : Rat :=
  bsum bs (fun x => (x.at j - mean bs j) * (x.at j - mean bs j)) / (count bs : Nat)

/-- `meanvar(data, mean, covariance)`: `Σ_b (B - m)ᵀ(B - m) / n` -/
def covariance (bs : List (List Vec)) (i j : Nat) : Rat :=
  bsum bs (fun x => (x.at i - mean bs i) * (x.at j - mean bs j)) / (count bs : Nat)

/-! ## Normalizer models (`Models/Normalizer.h`: `y_j = A_j x_j + b_j`) -/

structure Normalizer where
  diag : Nat → Rat
  offset : Nat → Rat

def Normalizer.eval (m : Normalizer) (x : Vec) (j : Nat) : Rat := m.diag j * x.at j + m.offset j

/-- the model's output on one row, as a row of dimension `d` -/
def Normalizer.apply (m : Normalizer) (d : Nat) (x : Vec) : Vec := (List.range d).map fun j => m.eval x j

/-- the model's output on a batched dataset (same batch structure) -/
def Normalizer.applyData (m : Normalizer) (d : Nat) (bs : List (List Vec)) : List (List Vec) :=
  bs.map fun b => b.map (m.apply d)

/-- `NormalizeComponentsUnitVariance::train` (`sqrt` is `std::sqrt`, a parameter).
`zeroMean = false` installs no offset. -/
def unitVariance (sqrt : Rat → Rat) (zeroMean : Bool) (bs : List (List Vec)) : Normalizer where
  diag j := let s := sqrt (variance bs j); if s = 0 then 0 else 1 / s
  offset j :=
    let s := sqrt (variance bs j)
    if zeroMean then (if s = 0 then 0 else -(mean bs j) / s) else 0

/-- running minimum / maximum over the elements, started at element 0 -/
def colMin (bs : List (List Vec)) (j : Nat) : Rat :=
  match bs.flatten with
  | [] => 0
  | x :: t => t.foldl (fun m y => min m (y.at j)) (x.at j)

def colMax (bs : List (List Vec)) (j : Nat) : Rat :=
  match bs.flatten with
  | [] => 0
  | x :: t => t.foldl (fun m y => max m (y.at j)) (x.at j)

/-- `NormalizeComponentsUnitInterval::train`.  `constOffset lo` is what the trainer
installs as offset for a constant column with value `lo` (diagonal 0). -/
def unitIntervalWith (constOffset : Rat → Rat) (bs : List (List Vec)) : Normalizer where
  diag j := let lo := colMin bs j; let hi := colMax bs j; if lo = hi then 0 else 1 / (hi - lo)
  offset j :=
    let lo := colMin bs j; let hi := colMax bs j
    if lo = hi then constOffset lo else -lo * (1 / (hi - lo))

/-- the pinned source: `offset(d) = -min(d) + 0.5` for a constant column -/
def unitIntervalPinned := unitIntervalWith fun lo => -lo + 1 / 2
/-- the repaired source (findings_proposed/C15.md, F-C15-1): `offset(d) = 0.5` -/
def unitInterval := unitIntervalWith fun _ => 1 / 2

/-! ## LinearRegression::train -/

/-- `(x | 1)_i` for an input of dimension `d` -/
def ext1 (d : Nat) (x : Vec) (i : Nat) : Rat := if i < d then x.at i else if i = d then 1 else 0

/-- `A = Σ_b (X_b|1)ᵀ(X_b|1)`, then `subrange(diag(A),0,d) += λ` -/
def linregA (bs : List (List (Vec × Vec))) (d : Nat) (lam : Rat) (i j : Nat) : Rat :=
  bsum bs (fun p => ext1 d p.1 i * ext1 d p.1 j) + (if i = j ∧ i < d then lam else 0)

/-- `XᵀL = Σ_b (X_b|1)ᵀ L_b` -/
def linregRhs (bs : List (List (Vec × Vec))) (d : Nat) (i c : Nat) : Rat :=
  bsum bs fun p => ext1 d p.1 i * p.2.at c

/-- a solver for `A·B = R` (`A` is `n × n`, `R` is `n × k`) -/
abbrev Solver := (n k : Nat) → (Nat → Nat → Rat) → (Nat → Nat → Rat) → (Nat → Nat → Rat)

/-- `beta = solve(A, XᵀL, symm_semi_pos_def, left)`; model matrix `W c j = beta j c`
(`j < d`), offset `b c = beta d c` -/
def linregTrain (solve : Solver) (bs : List (List (Vec × Vec))) (d k : Nat) (lam : Rat) : Nat → Nat → Rat :=
  solve (d + 1) k (linregA bs d lam) (linregRhs bs d)

/-- `(A·B)_{i c}` for an `n × n` matrix `A` -/
def matMul (n : Nat) (A B : Nat → Nat → Rat) (i c : Nat) : Rat := rsum n fun j => A i j * B j c

/-! ### the problem linear regression is meant to solve (specification side) -/

/-- `(x|1)·β`: prediction of the affine model with parameters `β` (`β_j`, `j < d` weights, `β_d` bias) -/
def predict (d : Nat) (β : Nat → Rat) (x : Vec) : Rat := rsum (d + 1) fun j => ext1 d x j * β j

/-- regularised squared error of output column `c`:
`½ Σ_i ((x_i|1)·β − l_{ic})² + ½ λ Σ_{j<d} β_j²` (the bias is not regularised) -/
def linregObjective (bs : List (List (Vec × Vec))) (d : Nat) (lam : Rat) (c : Nat) (β : Nat → Rat) : Rat :=
  1 / 2 * bsum bs (fun p => (predict d β p.1 - p.2.at c) * (predict d β p.1 - p.2.at c))
    + 1 / 2 * lam * rsum d (fun j => β j * β j)

/-- its partial derivative with respect to `β_i` (shown to be the derivative by
`linreg_objective_expansion`) -/
def linregGradient (bs : List (List (Vec × Vec))) (d : Nat) (lam : Rat) (c : Nat) (β : Nat → Rat) (i : Nat) : Rat :=
  bsum bs (fun p => ext1 d p.1 i * (predict d β p.1 - p.2.at c)) + (if i < d then lam * β i else 0)

/-- the total objective over `k` label columns of a parameter matrix `B` (`(d+1) × k`) -/
def linregObjectiveAll (bs : List (List (Vec × Vec))) (d k : Nat) (lam : Rat) (B : Nat → Nat → Rat) : Rat :=
  rsum k fun c => linregObjective bs d lam c (fun j => B j c)

/-! ### an executable solver (Gauss–Jordan over `Rat`), used by the driver.
Nothing is proved about it; the driver checks `A·x = b` on every result. -/

/-- reduced row echelon form of an `n × m` matrix given as rows; returns the
matrix and the pivot columns (restricted to the first `ncols` columns) -/
def rref (rows : Array (Array Rat)) (ncols : Nat) : Array (Array Rat) × Array Nat := Id.run do
  let mut a := rows
  let mut piv : Array Nat := #[]
  let mut r := 0
  for c in [0:ncols] do
    if r < a.size then
      let mut p := a.size
      for i in [r:a.size] do
        if p = a.size ∧ a[i]![c]! ≠ 0 then p := i
      if p < a.size then
        let rowp := a[p]!
        let rowr := a[r]!
        a := (a.set! p rowr).set! r rowp
        let pv := a[r]![c]!
        let nr := a[r]!.map (· / pv)
        a := a.set! r nr
        for i in [0:a.size] do
          if i ≠ r then
            let f := a[i]![c]!
            if f ≠ 0 then
              a := a.set! i ((a[i]!.zipWith (fun x y => x - f * y) nr))
        piv := piv.push c
        r := r + 1
  return (a, piv)

/-- rank of an `n × n` matrix -/
def rank (n : Nat) (A : Nat → Nat → Rat) : Nat :=
  (rref ((Array.range n).map fun i => (Array.range n).map fun j => A i j) n).2.size

/-- some solution of `A·X = R` with the free variables set to 0 (any solution if
the system is consistent) -/
def gaussSolve : Solver := fun n k A R =>
  let aug := (Array.range n).map fun i =>
    ((Array.range n).map fun j => A i j) ++ ((Array.range k).map fun c => R i c)
  let (e, piv) := rref aug n
  fun j c =>
    match piv.idxOf? j with
    | some r => e[r]![n + c]!
    | none => 0

end SharkVerif.Trainers
