/-
Executable exact-arithmetic (`Rat`) models of Shark's closed-form trainers, as they
compute from a BATCHED dataset (a list of batches, each a list of rows).

  * `Data/Impl/Statistics.inl`        `mean`, `meanvar` (variance / covariance)
  * `NormalizeComponentsUnitVariance.h`, `NormalizeComponentsUnitInterval.h`
  * `src/Algorithms/LinearRegression.cpp`
  * `src/Algorithms/NormalizeComponentsWhitening.cpp`, `NormalizeComponentsZCA.h`
  * `src/Algorithms/PCA.cpp`, `src/Algorithms/LDA.cpp`

Conventions.  A vector is a `List Rat` read with the total accessor `Vec.at`
(0 beyond the end), a matrix is a function `Nat → Nat → Rat` together with its
dimensions where they matter; sums that the C++ accumulates batch by batch are
`bsum` (sum over batches of the sum over the rows of the batch).  Square roots,
logarithms, the eigen-solver and the symmetric positive semi-definite solver are
explicit parameters; their specifications are hypotheses of the theorems
(`Props/C15.lean`) and are checked against the real code by the correspondence.

Core Lean only (no Mathlib): this file is linked into the native driver `drv_c15`.
-/
namespace SharkVerif.Trainers

abbrev Vec := List Rat

/-- total component access: `x.at j = x[j]`, 0 beyond the end -/
def Vec.at (x : Vec) (j : Nat) : Rat := x.getD j 0

/-- `Σ_{a ∈ l} f a` -/
def lsum {α : Type} : List α → (α → Rat) → Rat
  | [], _ => 0
  | a :: t, f => f a + lsum t f

/-- `Σ_{i < n} f i` -/
def rsum : Nat → (Nat → Rat) → Rat
  | 0, _ => 0
  | n + 1, f => rsum n f + f n

/-- accumulation over batches: `Σ_b Σ_{a ∈ b} f a` (the C++ loops `for batch … += …`) -/
def bsum {α : Type} (bs : List (List α)) (f : α → Rat) : Rat := lsum bs fun b => lsum b f

/-- `numberOfElements()`: sum of the batch sizes -/
def count {α : Type} : List (List α) → Nat
  | [] => 0
  | b :: bs => b.length + count bs

/-! ## Statistics.inl -/

/-- `mean(data)`: `for batch: mean += sum(as_columns(batch)); mean /= numberOfElements` -/
def mean (bs : List (List Vec)) (j : Nat) : Rat := bsum bs (fun x => x.at j) / (count bs : Nat)

/-- `meanvar(data, mean, varianceVec)`: two-pass population variance -/
def variance (bs : List (List Vec)) (j : Nat) : Rat :=
  bsum bs (fun x => (x.at j - mean bs j) * (x.at j - mean bs j)) / (count bs : Nat)

/-- `meanvar(data, mean, covariance)`: `Σ_b (B - m)ᵀ(B - m) / n` -/
def covariance (bs : List (List Vec)) (i j : Nat) : Rat :=
  bsum bs (fun x => (x.at i - mean bs i) * (x.at j - mean bs j)) / (count bs : Nat)

/-! ## Normalizer models (`Models/Normalizer.h`: `y_j = A_j x_j + b_j`) -/

structure Normalizer where
  diag : Nat → Rat
  offset : Nat → Rat

def Normalizer.eval (m : Normalizer) (x : Vec) (j : Nat) : Rat := m.diag j * x.at j + m.offset j

/-- the model's output on one row, as a row of dimension `d` -/
def Normalizer.apply (m : Normalizer) (d : Nat) (x : Vec) : Vec := (List.range d).map fun j => m.eval x j

/-- the model's output on a batched dataset (same batch structure) -/
def Normalizer.applyData (m : Normalizer) (d : Nat) (bs : List (List Vec)) : List (List Vec) :=
  bs.map fun b => b.map (m.apply d)

/-- `NormalizeComponentsUnitVariance::train` (`sqrt` is `std::sqrt`, a parameter).
`zeroMean = false` installs no offset. -/
def unitVariance (sqrt : Rat → Rat) (zeroMean : Bool) (bs : List (List Vec)) : Normalizer where
  diag j := let s := sqrt (variance bs j); if s = 0 then 0 else 1 / s
  offset j :=
    let s := sqrt (variance bs j)
    if zeroMean then (if s = 0 then 0 else -(mean bs j) / s) else 0

/-- running minimum / maximum over the elements, started at element 0 -/
def colMin (bs : List (List Vec)) (j : Nat) : Rat :=
  match bs.flatten with
  | [] => 0
  | x :: t => t.foldl (fun m y => min m (y.at j)) (x.at j)

def colMax (bs : List (List Vec)) (j : Nat) : Rat :=
  match bs.flatten with
  | [] => 0
  | x :: t => t.foldl (fun m y => max m (y.at j)) (x.at j)

/-- `NormalizeComponentsUnitInterval::train`.  `constOffset lo` is what the trainer
installs as offset for a constant column with value `lo` (diagonal 0). -/
def unitIntervalWith (constOffset : Rat → Rat) (bs : List (List Vec)) : Normalizer where
  diag j := let lo := colMin bs j; let hi := colMax bs j; if lo = hi then 0 else 1 / (hi - lo)
  offset j :=
    let lo := colMin bs j; let hi := colMax bs j
    if lo = hi then constOffset lo else -lo * (1 / (hi - lo))

/-- the pinned source: `offset(d) = -min(d) + 0.5` for a constant column -/
def unitIntervalPinned := unitIntervalWith fun lo => -lo + 1 / 2
/-- the repaired source (findings_proposed/C15.md, F-C15-1): `offset(d) = 0.5` -/
def unitInterval := unitIntervalWith fun _ => 1 / 2

/-! ## LinearRegression::train -/

/-- `(x | 1)_i` for an input of dimension `d` -/
def ext1 (d : Nat) (x : Vec) (i : Nat) : Rat := if i < d then x.at i else if i = d then 1 else 0

/-- `A = Σ_b (X_b|1)ᵀ(X_b|1)`, then `subrange(diag(A),0,d) += λ` -/
def linregA (bs : List (List (Vec × Vec))) (d : Nat) (lam : Rat) (i j : Nat) : Rat :=
  bsum bs (fun p => ext1 d p.1 i * ext1 d p.1 j) + (if i = j ∧ i < d then lam else 0)

/-- `XᵀL = Σ_b (X_b|1)ᵀ L_b` -/
def linregRhs (bs : List (List (Vec × Vec))) (d : Nat) (i c : Nat) : Rat :=
  bsum bs fun p => ext1 d p.1 i * p.2.at c

/-- a solver for `A·B = R` (`A` is `n × n`, `R` is `n × k`) -/
abbrev Solver := (n k : Nat) → (Nat → Nat → Rat) → (Nat → Nat → Rat) → (Nat → Nat → Rat)

/-- `beta = solve(A, XᵀL, symm_semi_pos_def, left)`; model matrix `W c j = beta j c`
(`j < d`), offset `b c = beta d c` -/
def linregTrain (solve : Solver) (bs : List (List (Vec × Vec))) (d k : Nat) (lam : Rat) : Nat → Nat → Rat :=
  solve (d + 1) k (linregA bs d lam) (linregRhs bs d)

/-- `(A·B)_{i c}` for an `n × n` matrix `A` -/
def matMul (n : Nat) (A B : Nat → Nat → Rat) (i c : Nat) : Rat := rsum n fun j => A i j * B j c

/-! ### the problem linear regression is meant to solve (specification side) -/

/-- `(x|1)·β`: prediction of the affine model with parameters `β` (`β_j`, `j < d` weights, `β_d` bias) -/
def predict (d : Nat) (β : Nat → Rat) (x : Vec) : Rat := rsum (d + 1) fun j => ext1 d x j * β j

/-- regularised squared error of output column `c`:
`½ Σ_i ((x_i|1)·β − l_{ic})² + ½ λ Σ_{j<d} β_j²` (the bias is not regularised) -/
def linregObjective (bs : List (List (Vec × Vec))) (d : Nat) (lam : Rat) (c : Nat) (β : Nat → Rat) : Rat :=
  1 / 2 * bsum bs (fun p => (predict d β p.1 - p.2.at c) * (predict d β p.1 - p.2.at c))
    + 1 / 2 * lam * rsum d (fun j => β j * β j)

/-- its partial derivative with respect to `β_i` (shown to be the derivative by
`linreg_objective_expansion`) -/
def linregGradient (bs : List (List (Vec × Vec))) (d : Nat) (lam : Rat) (c : Nat) (β : Nat → Rat) (i : Nat) : Rat :=
  bsum bs (fun p => ext1 d p.1 i * (predict d β p.1 - p.2.at c)) + (if i < d then lam * β i else 0)

/-- the total objective over `k` label columns of a parameter matrix `B` (`(d+1) × k`) -/
def linregObjectiveAll (bs : List (List (Vec × Vec))) (d k : Nat) (lam : Rat) (B : Nat → Nat → Rat) : Rat :=
  rsum k fun c => linregObjective bs d lam c (fun j => B j c)


/-! ## Linear models `y = W x + b` (`Models/LinearModel.h`), whitening, PCA -/

structure LinearModel where
  rows : Nat
  W : Nat → Nat → Rat
  b : Nat → Rat

def LinearModel.eval (m : LinearModel) (d : Nat) (x : Vec) (a : Nat) : Rat :=
  rsum d (fun j => m.W a j * x.at j) + m.b a

def LinearModel.apply (m : LinearModel) (d : Nat) (x : Vec) : Vec := (List.range m.rows).map (m.eval d x)

def LinearModel.applyData (m : LinearModel) (d : Nat) (bs : List (List Vec)) : List (List Vec) :=
  bs.map fun b => b.map (m.apply d)

/-- `NormalizeComponentsWhitening::train` / `NormalizeComponentsZCA::train`: both install
`W = √t · C`, `b = −W·mean`, where `C` (`r × d`) comes from the decomposition of the
covariance (`compute_inverse_factor` of the pivoted Cholesky solver, resp.
`Q·diag(1/√D)·Qᵀ` of the eigen-decomposition) — a parameter here, specified by
`C·Cov·Cᵀ = I_r`. -/
def whitening (factor : Nat → (Nat → Nat → Rat) → Nat × (Nat → Nat → Rat)) (sqrtT : Rat)
    (bs : List (List Vec)) (d : Nat) : LinearModel :=
  let rc := factor d (covariance bs)
  { rows := rc.1
    W := fun a j => rc.2 a j * sqrtT
    b := fun a => -(rsum d fun j => rc.2 a j * sqrtT * mean bs j) }

/-- `PCA::encoder` (no whitening): rows = the first `m` columns of the eigenvector matrix
`V` (`n × ·`), offset `−A·mean` -/
def pcaEncoder (V : Nat → Nat → Rat) (mu : Nat → Rat) (n m : Nat) : LinearModel :=
  { rows := m, W := fun i j => V j i, b := fun i => -(rsum n fun j => V j i * mu j) }

/-- `PCA::encoder` with whitening: row `i` is divided by `sqrt(λ_i)` (`r i`, a parameter), unless the
eigenvalue is negligible (`λ_i ≤ 1e-15·λ_0`; the pinned source tests `λ_i/λ_0 < 1e-15`, which differs
only for `λ_0 = 0`, finding F-C15-3b), in which case the row and its offset are cleared -/
def pcaEncoderWhitened (V : Nat → Nat → Rat) (mu : Nat → Rat) (ev r : Nat → Rat) (n m : Nat) : LinearModel :=
  let scale : Nat → Rat := fun i => if ev i ≤ (1 / 1000000000000000) * ev 0 then 0 else 1 / r i
  { rows := m, W := fun i j => scale i * V j i, b := fun i => scale i * -(rsum n fun j => V j i * mu j) }

/-- `PCA::decoder` (no whitening): the first `m` columns of `V`, offset `mean` -/
def pcaDecoder (V : Nat → Nat → Rat) (mu : Nat → Rat) (n : Nat) : LinearModel :=
  { rows := n, W := fun j i => V j i, b := mu }

/-- encoder / decoder on vectors given as functions -/
def pcaEnc (V : Nat → Nat → Rat) (mu : Nat → Rat) (n : Nat) (x : Nat → Rat) (i : Nat) : Rat :=
  rsum n (fun j => V j i * x j) + -(rsum n fun j => V j i * mu j)

def pcaDec (V : Nat → Nat → Rat) (mu : Nat → Rat) (m : Nat) (z : Nat → Rat) (j : Nat) : Rat :=
  rsum m (fun i => V j i * z i) + mu j

/-- centred design matrix `X0` (`l × n`) of the small-sample branch of `PCA::setData` -/
def centred (bs : List (List Vec)) (a j : Nat) : Rat := ((bs.flatten)[a]?.getD []).at j - mean bs j

/-- `S = X0·X0ᵀ / l` (assembled block by block over pairs of batches in the C++) -/
def gramSmall (bs : List (List Vec)) (n : Nat) (a b : Nat) : Rat :=
  rsum n (fun j => centred bs a j * centred bs b j) / (count bs : Nat)

/-- un-normalised direction `X0ᵀ u` of the small-sample branch -/
def liftDirection (bs : List (List Vec)) (u : Nat → Rat) (j : Nat) : Rat :=
  rsum (count bs) fun a => centred bs a j * u a

/-! ## Objects that are used more than once

A `PCA` object keeps its decomposition in members, `meanvar` writes into output arguments that the
caller may have used before, models are overwritten by `setStructure`.  The point that matters is
remora's `matrix::resize(r, c)`: it is `std::vector::resize` on the row-major storage, so the
elements keep their LINEAR position and only new elements are 0 — old numbers are not cleared.
Code that accumulates (`noalias(M) += …`) into a resized member has to `clear()` it first. -/

/-- a dense matrix object: shape and content (row-major storage of `rows * cols` numbers) -/
structure Mat where
  rows : Nat
  cols : Nat
  get : Nat → Nat → Rat

/-- a default-constructed (empty) matrix -/
def Mat.empty : Mat := { rows := 0, cols := 0, get := fun _ _ => 0 }

/-- `matrix::resize(r, c)`: the linear storage is cut or extended with zeros; what was stored at
linear position `k` is still there -/
def Mat.resize (M : Mat) (r c : Nat) : Mat :=
  { rows := r, cols := c,
    get := fun i j => if i * c + j < M.rows * M.cols then M.get ((i * c + j) / M.cols) ((i * c + j) % M.cols) else 0 }

/-- `matrix::clear()` -/
def Mat.clear (M : Mat) : Mat := { M with get := fun _ _ => 0 }

/-- `noalias(M) += P` -/
def Mat.add (M : Mat) (P : Nat → Nat → Rat) : Mat := { M with get := fun i j => M.get i j + P i j }

/-- `M /= c` -/
def Mat.divBy (M : Mat) (c : Rat) : Mat := { M with get := fun i j => M.get i j / c }

/-- `meanvar(data, mean, covariance)` writing into a matrix object the caller passes in (possibly
the result of an earlier call): `covariance.resize(d,d); covariance.clear(); for batch: += …; /= n` -/
def meanvarInto (C : Mat) (bs : List (List Vec)) (d : Nat) : Mat :=
  (((C.resize d d).clear).add fun i j => bsum bs fun x => (x.at i - mean bs i) * (x.at j - mean bs j)).divBy (count bs : Nat)

/-- the state of a `PCA` object between calls -/
structure PcaObject where
  whitening : Bool
  n : Nat                    -- `m_n`
  l : Nat                    -- `m_l`
  V : Mat                    -- `m_eigenvectors`
  ev : Nat → Rat             -- `m_eigenvalues`
  mu : Nat → Rat             -- `m_mean`

/-- a freshly constructed `PCA(whitening)` -/
def PcaObject.fresh (whitening : Bool) : PcaObject :=
  { whitening, n := 0, l := 0, V := Mat.empty, ev := fun _ => 0, mu := fun _ => 0 }

/-- the symmetric eigen-solver (a parameter): eigenvalues in descending order, eigenvectors as columns -/
abbrev EigenSolver := Nat → (Nat → Nat → Rat) → (Nat → Rat) × (Nat → Nat → Rat)

/-- standard branch of `PCA::setData`: `m_eigenvectors = eigen.Q()` (assignment) -/
def PcaObject.setDataStandard (eig : EigenSolver) (o : PcaObject) (bs : List (List Vec)) (n : Nat) : PcaObject :=
  let e := eig n (covariance bs)
  { o with n := n, l := count bs, V := { rows := n, cols := n, get := e.snd }, ev := e.fst, mu := mean bs }

/-- small-sample branch of `PCA::setData` on the object `o`:
`m_eigenvectors.resize(n,l); m_eigenvectors.clear(); for batch: m_eigenvectors += X_bᵀ·U_b;` then every
column with a non-negligible eigenvalue is divided by its norm (`norm`, a parameter: `sqrt` inside) and
the others are set to zero.  `clr = false` is the source without the `clear()` call. -/
def PcaObject.setDataSmall (eig : EigenSolver) (norm : (Nat → Rat) → Rat) (clr : Bool) (o : PcaObject)
    (bs : List (List Vec)) (n : Nat) : PcaObject :=
  let e := eig (count bs) (gramSmall bs n)
  let V0 := o.V.resize n (count bs)
  let V1 := if clr then V0.clear else V0
  let D := e.fst
  let U := e.snd
  let V2 := V1.add fun j i => liftDirection bs (fun a => U a i) j
  let V3 : Mat := { V2 with get := fun j i =>
    if (D i > (1 / 1000000000000) * D 0) then V2.get j i / norm (fun k => V2.get k i) else 0 }
  { o with n := n, l := count bs, V := V3, ev := D, mu := mean bs }

/-- `PCA::setData`: `alg` 1 = STANDARD, 2 = SMALL_SAMPLE, otherwise AUTO (small-sample iff more features than points) -/
def PcaObject.setData (eig : EigenSolver) (norm : (Nat → Rat) → Rat) (alg : Nat) (o : PcaObject)
    (bs : List (List Vec)) (n : Nat) : PcaObject :=
  if alg = 2 ∨ (alg ≠ 1 ∧ n > count bs) then o.setDataSmall eig norm true bs n else o.setDataStandard eig bs n

/-- `PCA::encoder(model, m)` without whitening, from the state of the object -/
def PcaObject.encoder (o : PcaObject) (m : Nat) : LinearModel := pcaEncoder o.V.get o.mu o.n m

/-- `PCA::decoder(model, m)` without whitening -/
def PcaObject.decoder (o : PcaObject) : LinearModel := pcaDecoder o.V.get o.mu o.n

/-! ## LDA (`src/Algorithms/LDA.cpp`) -/

abbrev CData := List (List (Vec × Nat))            -- (input, class)
abbrev WCData := List (List (Vec × Nat × Rat))     -- (input, class, weight)

def classCount (bs : CData) (c : Nat) : Rat := bsum bs fun p => if p.2 = c then 1 else 0

def ldaMean (bs : CData) (c j : Nat) : Rat :=
  bsum bs (fun p => if p.2 = c then p.1.at j else 0) / classCount bs c

/-- unweighted `LDA::train`: `(Σ x xᵀ)/(n−C) − Σ_c n_c/(n−C) m_c m_cᵀ`, `+ reg` on the diagonal if `reg > 0` -/
def ldaCov (bs : CData) (classes : Nat) (reg : Rat) (i j : Nat) : Rat :=
  let nc : Rat := ((count bs : Nat) : Rat) - (classes : Nat)
  bsum bs (fun p => p.1.at i * p.1.at j) / nc
    - rsum classes (fun c => classCount bs c / nc * (ldaMean bs c i * ldaMean bs c j))
    + (if i = j ∧ 0 < reg then reg else 0)

def ldaPrior (bs : CData) (c : Nat) : Rat := classCount bs c / (count bs : Nat)

def sumOfWeights (bs : WCData) : Rat := bsum bs fun p => p.2.2
def classWeight (bs : WCData) (c : Nat) : Rat := bsum bs fun p => if p.2.1 = c then p.2.2 else 0

def wldaMean (bs : WCData) (c j : Nat) : Rat :=
  bsum bs (fun p => if p.2.1 = c then p.2.2 * p.1.at j else 0) / classWeight bs c

/-- weighted `LDA::train`.  The C++ scales every row by `sqrt(w)` before forming `XᵀX`; in
exact arithmetic (`sqrt(w)² = w`) that is `Σ w x xᵀ`.  Normalisation is by the weight sum
(not by `n − C` as in the unweighted trainer). -/
def wldaCov (bs : WCData) (classes : Nat) (reg : Rat) (i j : Nat) : Rat :=
  bsum bs (fun p => p.2.2 * (p.1.at i * p.1.at j)) / sumOfWeights bs
    - rsum classes (fun c => classWeight bs c / sumOfWeights bs * (wldaMean bs c i * wldaMean bs c j))
    + (if i = j then reg else 0)

def wldaPrior (bs : WCData) (c : Nat) : Rat := classWeight bs c / sumOfWeights bs

/-- multiply every example weight by `s` -/
def scaleWeights (s : Rat) (bs : WCData) : WCData := bs.map fun b => b.map fun p => (p.1, p.2.1, s * p.2.2)

/-- the linear discriminant `δ_c(x) = x·z_c + b_c`, `b_c = −½ m_c·z_c + log π_c`
(`z_c` = row `c` of `solve(cov, means, right)`, `logPrior` = `std::log` of the prior) -/
def ldaDiscriminant (d : Nat) (z m : Nat → Nat → Rat) (logPrior : Nat → Rat) (c : Nat) (x : Nat → Rat) : Rat :=
  rsum d (fun j => x j * z c j) + (-(1 / 2) * rsum d (fun j => m c j * z c j) + logPrior c)


/-! ## FisherLDA (`src/Algorithms/FisherLDA.cpp`): only the global mean and the offset are modelled -/

/-- the global mean as `FisherLDA::meanAndScatter` should compute it: `Σ_c n_c·m_c / n` -/
def fisherMean (bs : CData) (classes : Nat) (j : Nat) : Rat :=
  rsum classes fun c => classCount bs c * ldaMean bs c j / (count bs : Nat)

/-- within-class scatter `Sw = Σ_i (x_i − m_{c_i})(x_i − m_{c_i})ᵀ` (FisherLDA requires it to be positive definite) -/
def withinScatter (bs : CData) (i j : Nat) : Rat :=
  bsum bs fun p => (p.1.at i - ldaMean bs p.2 i) * (p.1.at j - ldaMean bs p.2 j)

/-- the pinned source divides by the number of inputs a second time (`mean /= inputs;`), F-C15-6 -/
def fisherMeanPinned (bs : CData) (classes : Nat) (j : Nat) : Rat :=
  fisherMean bs classes j / (count bs : Nat)

/-! ### an executable solver (Gauss–Jordan over `Rat`), used by the driver.
Nothing is proved about it; the driver checks `A·x = b` on every result. -/

/-- reduced row echelon form of an `n × m` matrix given as rows; returns the
matrix and the pivot columns (restricted to the first `ncols` columns) -/
def rref (rows : Array (Array Rat)) (ncols : Nat) : Array (Array Rat) × Array Nat := Id.run do
  let mut a := rows
  let mut piv : Array Nat := #[]
  let mut r := 0
  for c in [0:ncols] do
    if r < a.size then
      let mut p := a.size
      for i in [r:a.size] do
        if p = a.size ∧ a[i]![c]! ≠ 0 then p := i
      if p < a.size then
        let rowp := a[p]!
        let rowr := a[r]!
        a := (a.set! p rowr).set! r rowp
        let pv := a[r]![c]!
        let nr := a[r]!.map (· / pv)
        a := a.set! r nr
        for i in [0:a.size] do
          if i ≠ r then
            let f := a[i]![c]!
            if f ≠ 0 then
              a := a.set! i ((a[i]!.zipWith (fun x y => x - f * y) nr))
        piv := piv.push c
        r := r + 1
  return (a, piv)

/-- rank of an `n × n` matrix -/
def rank (n : Nat) (A : Nat → Nat → Rat) : Nat :=
  (rref ((Array.range n).map fun i => (Array.range n).map fun j => A i j) n).2.size

/-- some solution of `A·X = R` with the free variables set to 0 (any solution if
the system is consistent) -/
def gaussSolve : Solver := fun n k A R =>
  let aug := (Array.range n).map fun i =>
    ((Array.range n).map fun j => A i j) ++ ((Array.range k).map fun c => R i c)
  let (e, piv) := rref aug n
  fun j c =>
    match piv.idxOf? j with
    | some r => e[r]![n + c]!
    | none => 0

end SharkVerif.Trainers
