/-
Checked `size_t` arithmetic used by the generated batch arithmetic
(`Gen/BatchArith.lean`).  `size_t` is modelled as `Nat`; the operations that
are undefined (division by zero) or wrap around (subtraction below zero,
indexing past the end) return `none`, so that "the C++ stays inside defined,
non-wrapping arithmetic" is an explicit proof obligation (`… = some _`).
Overflow of `+`/`*` beyond 2^64 is not modelled (all values are bounded by the
element count).
-/
namespace SharkVerif.CheckedNat

/-- `a / b` on `size_t`; `none` for `b = 0` (SIGFPE in the C++) -/
def cdiv (a b : Nat) : Option Nat := if b = 0 then none else some (a / b)
/-- `a % b` on `size_t`; `none` for `b = 0` -/
def cmod (a b : Nat) : Option Nat := if b = 0 then none else some (a % b)
/-- `a - b` on `size_t`; `none` if it would wrap around -/
def csub (a b : Nat) : Option Nat := if b ≤ a then some (a - b) else none
/-- `v[i]` on `std::vector<size_t>`; `none` if out of range -/
def cget (v : List Nat) (i : Nat) : Option Nat := v[i]?

end SharkVerif.CheckedNat
