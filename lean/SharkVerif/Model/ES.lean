/-
Executable models of the other direct-search methods named by property C11 (core Lean only,
also compiled into `drv_c11`):

* `cholUpdate` — `remora::cholesky_decomposition::update(alpha, beta, v)`, the rank-one update of
  the lower Cholesky factor `L Lᵀ ← alpha·L Lᵀ + beta·v vᵀ` used by CMSA and ElitistCMA (the factor is
  kept column by column, as the C++ `matrix<double, column_major>`); `none` = the C++ throws;
* `Simplex` — `SimplexDownhill::init/step` (Nelder–Mead with best-so-far tracking), a function of the
  objective only: whole runs are re-computed from the starting point;
* `Ecma` — `ElitistCMA::step` with `CMAChromosome::updateAsOffspring/updateAsParent` (success rule on
  the history of accepted fitness values, step-size adaptation, evolution path, the three covariance
  updates incl. the active one);
* `cmsaUpdate` — `CMSA::updatePopulation`; `cemUpdate` — `CrossEntropyMethod::updateStrategyParameters`;
* `vdUpdate` — `VDCMA::updateStrategyParameters` (`computeSAndTFirst/Second`, the D and v updates, paths, step size);
* `Generic` — the shape shared by all comparison-based strategies (sample, evaluate, select by a stable
  sort on fitness, update from the selected individuals), for the rank-invariance theorem.

Random variates are inputs of the models (one-step refinement on the real run's own samples).
-/
import SharkVerif.Model.CMA
namespace SharkVerif.Opt.ES
open SharkVerif.Opt SharkVerif.Opt.CMA

variable {α : Type} [Scalar α]

/-! ## Cholesky rank-one update -/

/-- one column `j` of the update: `(new column, new temp, new beta')`, or `none` when the C++ throws
("update makes matrix indefinite") -/
def cholColumn (F : Fns α) (a beta : α) (j : Nat) (col temp : Vec α) (bp : α) : Option (Vec α × Vec α × α) :=
  let Ljj := a * Vec.get col j
  let dj := Ljj * Ljj
  let wj := Vec.get temp j
  let swj2 := beta * wj * wj
  let gamma := dj * bp + swj2
  let x := dj + swj2 / bp
  if x ≤ Scalar.zero then none else
  let nLjj := F.sqrt x
  let rows := (List.zip col temp).zipIdx.map fun (ct : (α × α) × Nat) =>
    let (c, t) := ct.1
    if ct.2 < j then (c, t)
    else if ct.2 = j then (nLjj, t)
    else
      let l1 := c * a
      let t' := t - (wj / Ljj) * l1
      if Scalar.beq gamma Scalar.zero then (l1, t')
      else (l1 * (nLjj / Ljj) + (nLjj * beta * wj / gamma) * t', t')
  some (rows.map (·.1), rows.map (·.2), bp + swj2 / dj)

/-- the loop over the columns, starting at column `j` -/
def cholCols (F : Fns α) (a beta : α) : Nat → List (Vec α) → Vec α → α → Option (List (Vec α))
  | _, [], _, _ => some []
  | j, col :: rest, temp, bp =>
    match cholColumn F a beta j col temp bp with
    | none => none
    | some (col', temp', bp') =>
      match cholCols F a beta (j + 1) rest temp' bp' with
      | none => none
      | some cs => some (col' :: cs)

/-- `cholesky_decomposition::update(alpha, beta, v)` on the list of columns of `L` -/
def cholUpdate (F : Fns α) (alpha beta : α) (v : Vec α) (cols : List (Vec α)) : Option (List (Vec α)) :=
  if Scalar.beq beta Scalar.zero then some (cols.map fun c => c.map (· * F.sqrt alpha))
  else cholCols F (F.sqrt alpha) beta 0 cols v Scalar.one

/-! ## simplex downhill -/

structure Sol (α : Type) where
  point : Vec α
  value : α

structure Simplex (α : Type) where
  simplex : List (Sol α)
  best : Sol α

/-- `if (x.value < m_best.value) m_best = x` -/
def track (best x : Sol α) : Sol α := if x.value < best.value then x else best

def evalAt (f : Vec α → α) (p : Vec α) : Sol α := ⟨p, f p⟩

/-- the vertices `x0 + e_j - 0.5·(1 - e_j)` of the initial simplex, evaluated -/
def simplexVerts (f : Vec α → α) (x0 : Vec α) : List (Sol α) :=
  let dim := x0.length
  (List.range (dim + 1)).map fun j =>
    evalAt f (x0.zipIdx.map fun (xi : α × Nat) => xi.1 + (if xi.2 = j then Scalar.one else -Scalar.half))

/-- `SimplexDownhill::init` as REPAIRED (finding F16, `findings_proposed/C11-F16-simplex-init-best.patch`): the best-so-far
starts as the first vertex.  Agrees with the pinned C++ whenever some vertex value is below `1e100`. -/
def simplexInit (f : Vec α → α) (x0 : Vec α) : Simplex α :=
  let verts := simplexVerts f x0
  { simplex := verts, best := match verts with | [] => evalAt f x0 | v :: vs => vs.foldl track v }

/-- `SimplexDownhill::init` of the pinned tree: `m_best.value = 1e100` first, so `m_best` is only assigned when a vertex
value is below that magic number (the point is then whatever it was before: empty for a fresh object, stale for a used
one -- modelled as `p0`) -/
def simplexInitMagic (f : Vec α → α) (x0 p0 : Vec α) : Simplex α :=
  let verts := simplexVerts f x0
  { simplex := verts, best := verts.foldl track ⟨p0, Scalar.ofRat (10 ^ 100)⟩ }

def lincomb (a : α) (x : Vec α) (b : α) (y : Vec α) : Vec α := List.zipWith (fun xi yi => a * xi + b * yi) x y

/-- `SimplexDownhill::step` -/
def simplexStep (f : Vec α → α) (s : Simplex α) : Simplex α :=
  let dim := s.simplex.length - 1
  let sorted := s.simplex.mergeSort fun a b => decide (a.value ≤ b.value)
  match sorted.head?, sorted.getLast? with
  | some best, some worst =>
    let front := sorted.take dim
    let secondWorst := (front.getLast?).getD best
    let x0 := (front.foldl (fun acc v => Vec.add acc v.point) (Vec.zeros dim)).map (· / ofNat dim)
    let xr := evalAt f (List.zipWith (fun c w => Scalar.two * c - w) x0 worst.point)
    let b1 := track s.best xr
    if best.value ≤ xr.value ∧ xr.value < secondWorst.value then
      { simplex := front ++ [xr], best := b1 }
    else if xr.value < best.value then
      let xe := evalAt f (List.zipWith (fun c w => ofNat 3 * c - Scalar.two * w) x0 worst.point)
      let b2 := track b1 xe
      { simplex := front ++ [if xe.value < xr.value then xe else xr], best := b2 }
    else
      let xc := evalAt f (lincomb Scalar.half x0 Scalar.half worst.point)
      let b2 := track b1 xc
      if xc.value < worst.value then { simplex := front ++ [xc], best := b2 }
      else
        let shrunk := (sorted.drop 1).map fun v => evalAt f (lincomb Scalar.half best.point Scalar.half v.point)
        { simplex := best :: shrunk, best := shrunk.foldl track b2 }
  | _, _ => s

def simplexRun (f : Vec α → α) (x0 : Vec α) : Nat → Simplex α
  | 0 => simplexInit f x0
  | t + 1 => simplexStep f (simplexRun f x0 t)

/-! ## elitist CMA-ES -/

structure EcmaConsts (α : Type) where
  pTarget : α
  dStep : α
  cP : α
  cPath : α
  cCov : α
  cUnlearn : α
  threshold : α
  active : Bool

structure Ecma (α : Type) where
  sigma : α
  pSucc : α
  path : Vec α
  L : List (Vec α)          -- columns of the lower Cholesky factor
  anc : List α              -- the last accepted (penalized) fitness values, oldest first
  bestPoint : Vec α
  bestValue : α
  x : Vec α                 -- search point of `m_individual` (the parent between steps)

inductive Success | successful | unsuccessful | failure
  deriving DecidableEq

/-- success status of the offspring (`ElitistCMA::step`) -/
def classify (active : Bool) (anc : List α) (fp : α) : Success :=
  let s := match anc.getLast? with
    | some back => if back ≤ fp then Success.unsuccessful else Success.successful
    | none => Success.successful
  match anc.head? with
  | some front => if active ∧ front < fp then Success.failure else s
  | none => s

def sigmaStep (F : Fns α) (k : EcmaConsts α) (sigma p : α) : α :=
  sigma * F.exp (Scalar.one / k.dStep * (p - k.pTarget) / (Scalar.one - k.pTarget))

/-- `CMAChromosome::roundUpdate` -/
def roundUpdate (F : Fns α) (k : EcmaConsts α) (path : Vec α) (L : List (Vec α)) : Option (Vec α × List (Vec α)) :=
  let w := k.cPath * (Scalar.two - k.cPath)
  let path' := path.map (· * (Scalar.one - k.cPath))
  (cholUpdate F (Scalar.one - k.cCov + w) k.cCov path' L).map fun L' => (path', L')

/-- `CMAChromosome::updateAsOffspring`; `y` = the last step -/
def updateAsOffspring (F : Fns α) (k : EcmaConsts α) (s : Ecma α) (y : Vec α) : Option (Ecma α) :=
  let p := (Scalar.one - k.cP) * s.pSucc + k.cP
  let sigma := sigmaStep F k s.sigma p
  let w := k.cPath * (Scalar.two - k.cPath)
  let r :=
    if p < k.threshold then
      let path' := List.zipWith (fun pi yi => pi * (Scalar.one - k.cPath) + F.sqrt w * yi) s.path y
      (cholUpdate F (Scalar.one - k.cCov) k.cCov path' s.L).map fun L' => (path', L')
    else roundUpdate F k s.path s.L
  r.map fun (pl : Vec α × List (Vec α)) => { s with sigma := sigma, pSucc := p, path := pl.1, L := pl.2 }

/-- the unlearning rate actually used by the active update -/
def activeRate (cUnlearn zz : α) : α :=
  if Scalar.one < zz ∧ Scalar.one < cUnlearn * (Scalar.two * zz - Scalar.one) then Scalar.one / (Scalar.two * zz - Scalar.one)
  else cUnlearn

/-- `CMAChromosome::updateAsParent`; `zz` = ‖z‖² of the failed step, `y` the step -/
def updateAsParent (F : Fns α) (k : EcmaConsts α) (s : Ecma α) (succ : Success) (zz : α) (y : Vec α) : Option (Ecma α) :=
  let p := (Scalar.one - k.cP) * s.pSucc + k.cP * (if succ = Success.successful then Scalar.one else Scalar.zero)
  let sigma := sigmaStep F k s.sigma p
  let s' := { s with sigma := sigma, pSucc := p }
  if succ ≠ Success.failure then some s'
  else if p < k.threshold then
    let rate := activeRate k.cUnlearn zz
    (cholUpdate F (Scalar.one + rate) (-rate) y s.L).map fun L' => { s' with L := L' }
  else (roundUpdate F k s.path s.L).map fun (pl : Vec α × List (Vec α)) => { s' with path := pl.1, L := pl.2 }

/-- `ElitistCMA::step` given the sampled step `y = L z`, `zz = ‖z‖²` and the two fitness values of the offspring -/
def ecmaStep (F : Fns α) (k : EcmaConsts α) (s : Ecma α) (y : Vec α) (zz fp fu : α) : Option (Ecma α) :=
  let xo := List.zipWith (fun xi yi => xi + s.sigma * yi) s.x y
  match classify k.active s.anc fp with
  | Success.successful =>
    (updateAsOffspring F k s y).map fun s' =>
      { s' with bestPoint := xo, bestValue := fu, anc := s.anc.drop 1 ++ [fp], x := xo }
  | succ => (updateAsParent F k s succ zz y).map fun s' => { s' with x := s.bestPoint }

/-- `ElitistCMA::init`: the history of accepted fitness values is filled with the (penalized) fitness `fp` of the
starting point, which is also the parent; the reported value is its unpenalized fitness `fu` -/
def ecmaInit (sigma pSucc : α) (n : Nat) (L : List (Vec α)) (x0 : Vec α) (fp fu : α) : Ecma α :=
  { sigma := sigma, pSucc := pSucc, path := Vec.zeros n, L := L, anc := List.replicate 5 fp,
    bestPoint := x0, bestValue := fu, x := x0 }

/-- what one `ElitistCMA::step` consumes: the sampled step `y = L z`, `‖z‖²`, and the offspring's two fitness values -/
structure EcmaInput (α : Type) where
  y : Vec α
  zz : α
  fp : α
  fu : α

/-- a whole run (any number of steps, either setting of `activeUpdate()`); `none` = the C++ throws -/
def ecmaRun (F : Fns α) (k : EcmaConsts α) (s : Ecma α) : List (EcmaInput α) → Option (Ecma α)
  | [] => some s
  | i :: rest => (ecmaStep F k s i.y i.zz i.fp i.fu).bind fun s' => ecmaRun F k s' rest

/-! ## CMSA and the cross-entropy method: update from the selected individuals (best first) -/

structure CmsaInd (α : Type) where
  point : Vec α
  step : Vec α
  sigma : α
  fitness : α

def cmsaSelect (off : List (CmsaInd α)) (mu : Nat) : List (CmsaInd α) :=
  (off.mergeSort fun a b => decide (a.fitness ≤ b.fitness)).take mu

structure Cmsa (α : Type) where
  sigma : α
  mean : Vec α
  L : List (Vec α)

/-- `CMSA::updatePopulation` on the selected offspring -/
def cmsaUpdate (F : Fns α) (cC : α) (n mu : Nat) (s : Cmsa α) (sel : List (CmsaInd α)) : Option (Cmsa α) :=
  let m : α := ofNat mu
  let mean := sel.foldl (fun acc i => List.zipWith (fun a p => a + p / m) acc i.point) (Vec.zeros n)
  let L0 := cholUpdate F (Scalar.one - Scalar.one / cC) Scalar.zero [] s.L
  let L := sel.foldl (fun (acc : Option (List (Vec α))) i =>
    acc.bind fun L => cholUpdate F Scalar.one (Scalar.one / m * Scalar.one / cC) i.step L) L0
  let sigma := sel.foldl (fun acc i => acc + Scalar.one / m * i.sigma) Scalar.zero
  L.map fun L => { sigma := sigma, mean := mean, L := L }

/-- `CrossEntropyMethod::INoiseType` as configured by `setNoiseType` (the constructor installs `ConstantNoise(0.0)`) -/
inductive CemNoise (α : Type) where
  | default
  | const (c : α)
  | linear (a b : α)

/-- `noiseValue(t)`: `ConstantNoise`: `std::max(c, 0.0)`, `LinearNoise`: `std::max(a + t * b, 0.0)`; `t` is the generation
counter, already incremented when `updateStrategyParameters` reads it -/
def cemNoise (nz : CemNoise α) (t : Nat) : α :=
  match nz with
  | .default => Scalar.max Scalar.zero Scalar.zero
  | .const c => Scalar.max c Scalar.zero
  | .linear a b => Scalar.max (a + ofNat t * b) Scalar.zero

/-- `CrossEntropyMethod::updateStrategyParameters`: centroid and per-coordinate variance (+ noise term) -/
def cemUpdate (noise : α) (n : Nat) (sel : List (Vec α)) : Vec α × Vec α :=
  let k : α := ofNat sel.length
  let m := (List.range n).map fun i => sel.foldl (fun acc p => acc + Vec.get p i) Scalar.zero / k
  let nf := Scalar.one / k
  let v := (List.range n).map fun j =>
    sel.foldl (fun acc p => let d := Vec.get p j - Vec.get m j; acc + d * d) Scalar.zero * nf + noise
  (m, v)

/-! ## VD-CMA: `VDCMA::updateStrategyParameters` (restricted covariance `σ² D (I + v vᵀ) D`) -/

structure VdConsts (α : Type) where
  weights : Vec α
  muEff : α
  cSigma : α
  dSigma : α
  cC : α
  c1 : α
  cMu : α

/-- everything `updateStrategyParameters` reads and writes (`counter` = `m_counter` after the increment in `step`) -/
structure Vd (α : Type) where
  sigma : α
  counter : Nat
  mean : Vec α
  pc : Vec α
  ps : Vec α
  D : Vec α
  vn : Vec α
  normv : α

/-- a selected offspring: search point and the stored step `y = (x − m)/(σ D)` -/
structure VdInd (α : Type) where
  point : Vec α
  y : Vec α
  fitness : α

def vdSelect (off : List (VdInd α)) (mu : Nat) : List (VdInd α) :=
  (off.mergeSort fun a b => decide (a.fitness ≤ b.fitness)).take mu

def zip3With {β γ δ ε : Type} (f : β → γ → δ → ε) (a : List β) (b : List γ) (c : List δ) : List ε :=
  List.zipWith (fun (ab : β × γ) ci => f ab.1 ab.2 ci) (List.zip a b) c

/-- `computeSAndTFirst` -/
def vdFirst (vn : Vec α) (normv : α) (y s t : Vec α) (weight : α) : Vec α × Vec α :=
  if Scalar.beq weight Scalar.zero then (s, t) else
  let yvn := Vec.dot y vn
  let normv2 := normv * normv
  let gammav := Scalar.one + normv2
  let c := normv2 / gammav * yvn
  let k := Scalar.half * (yvn * yvn + gammav)
  (zip3With (fun si yi vi => si + weight * (yi * yi - c * (yi * vi) - Scalar.one)) s y vn,
   zip3With (fun ti yi vi => ti + weight * (yvn * yi - k * vi)) t y vn)

def maxOf (v : Vec α) : α :=
  match v with
  | [] => Scalar.zero
  | x :: xs => xs.foldl Scalar.max x

/-- `computeSAndTSecond` -/
def vdSecond (F : Fns α) (vn : Vec α) (normv : α) (s t : Vec α) : Vec α × Vec α :=
  let one : α := Scalar.one
  let two : α := Scalar.two
  let vn2 := vn.map fun x => x * x
  let normv2 := normv * normv
  let gammav := one + normv2
  let alpha1 := F.sqrt (normv2 * normv2 + (two * gammav - F.sqrt gammav) / maxOf vn2) / (two + normv2)
  let alpha := Scalar.min alpha1 one
  let b := -(one - alpha * alpha) * (normv2 * normv2) / gammav + two * (alpha * alpha)
  let A := vn2.map fun q => two - (b + two * (alpha * alpha)) * q
  let invAvn2 := List.zipWith (fun q a => q / a) vn2 A
  let vt := Vec.dot vn t
  let s3 := zip3With (fun si vi ti => si - alpha / gammav * ((two + normv2) * (vi * ti) - normv2 * vt * (vi * vi))) s vn t
  let k := b * Vec.dot s3 invAvn2 / (one + b * Vec.dot vn2 invAvn2)
  let s4 := zip3With (fun si ai qi => si / ai - k * qi) s3 A invAvn2
  let sv := Vec.dot s4 vn2
  let t5 := zip3With (fun ti vi si => ti - alpha * ((two + normv2) * (vi * si) - sv * vi)) t vn s4
  (s4, t5)

/-- `VDCMA::updateStrategyParameters` on the selected offspring (best first) -/
def vdUpdate (F : Fns α) (c : VdConsts α) (n : Nat) (d : Vd α) (sel : List (VdInd α)) : Vd α :=
  let one : α := Scalar.one
  let two : α := Scalar.two
  let m := wsum n c.weights (sel.map (·.point))
  let z0 := wsum n c.weights (sel.map (·.y))
  let b := one / F.sqrt (one + d.normv * d.normv) - one
  let bz := b * Vec.dot z0 d.vn
  let z := List.zipWith (fun zi vi => zi + bz * vi) z0 d.vn
  let ks := F.sqrt (c.cSigma * (two - c.cSigma) * c.muEff)
  let ps := List.zipWith (fun p zi => (one - c.cSigma) * p + ks * zi) d.ps z
  let chi := expectedChi F n
  let hl := norm2 F ps / F.sqrt (one - F.pow (one - c.cSigma) (two * (ofNat d.counter + one)))
  let hr := (Scalar.ofRat (14/10) + two / (ofNat n + one)) * chi
  let hSig : α := if hl < hr then one else Scalar.zero
  let kc := hSig * F.sqrt (c.cC * (two - c.cC) * c.muEff)
  let pc := zip3With (fun p mi mo => (one - c.cC) * p + kc * (mi - mo) / d.sigma) d.pc m d.mean
  let st0 : Vec α × Vec α := (Vec.zeros n, Vec.zeros n)
  let st1 := (List.zip c.weights sel).foldl (fun (st : Vec α × Vec α) (wi : α × VdInd α) =>
    vdFirst d.vn d.normv wi.2.y st.1 st.2 (c.cMu * wi.1)) st0
  let st2 := vdFirst d.vn d.normv (List.zipWith (fun p di => p / di) pc d.D) st1.1 st1.2 (hSig * c.c1)
  let st3 := vdSecond F d.vn d.normv st2.1 st2.2
  let D := List.zipWith (fun di si => di + di * si) d.D st3.1
  let v := List.zipWith (fun vi ti => vi * d.normv + ti / d.normv) d.vn st3.2
  let normv := norm2 F v
  let sigma := d.sigma * F.exp ((c.cSigma / c.dSigma) * (norm2 F ps / chi - one))
  { sigma := sigma, counter := d.counter, mean := m, pc := pc, ps := ps, D := D, vn := v.map (· / normv), normv := normv }

/-! ## the common shape of the comparison-based strategies -/

/-- a strategy: how offspring are produced from the state (random variates included), where an
offspring's search point is, and how the state is updated from the selected offspring (best first).
CMA-ES, CMSA, VD-CMA and the cross-entropy method all have this shape. -/
structure Strategy (σ ι α : Type) where
  sample : σ → Nat → List ι
  point : ι → Vec α
  mu : Nat
  update : σ → List ι → σ

structure GState (σ α : Type) where
  state : σ
  gen : Nat
  bestPoint : Vec α
  bestValue : α

def gselect {ι : Type} (off : List (ι × α)) (mu : Nat) : List (ι × α) :=
  (off.mergeSort fun a b => decide (a.2 ≤ b.2)).take mu

def gstep {σ ι : Type} (S : Strategy σ ι α) (fit : Vec α → α) (s : GState σ α) : GState σ α :=
  let off := (S.sample s.state s.gen).map fun i => (i, fit (S.point i))
  let sel := gselect off S.mu
  let st := S.update s.state (sel.map (·.1))
  match sel with
  | [] => { s with state := st, gen := s.gen + 1 }
  | b :: _ => { state := st, gen := s.gen + 1, bestPoint := S.point b.1, bestValue := b.2 }

def grun {σ ι : Type} (S : Strategy σ ι α) (fit : Vec α → α) (s : GState σ α) : Nat → GState σ α
  | 0 => s
  | t + 1 => gstep S fit (grun S fit s t)

end SharkVerif.Opt.ES
