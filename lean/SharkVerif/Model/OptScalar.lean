/-
Scalar class shared by the optimizer models (C10 `Model/GradOpt.lean`, C11
`Model/CMA.lean`).  Core Lean only.  The same polymorphic definitions are run at
`Float` (native driver, bit-for-bit against the C++ `double` code) and at core
`Rat` (the instance the theorems are about; also run by the driver to compare
*exactly* whenever the C++ run raised no `FE_INEXACT`).

Transcendental / root functions (`sqrt`, `exp`, `pow`) are explicit parameters of
the models that use them.
-/
namespace SharkVerif.Opt

class Scalar (α : Type) extends Add α, Sub α, Mul α, Div α, Neg α, LT α, LE α where
  ofRat : Rat → α
  decLt : DecidableRel (α := α) (· < ·)
  decLe : DecidableRel (α := α) (· ≤ ·)

attribute [instance] Scalar.decLt Scalar.decLe

instance : Scalar Rat where
  ofRat q := q
  decLt := inferInstance
  decLe := inferInstance

/-- exact for dyadic rationals of moderate size (all literals used by the driver) -/
def floatOfRat (q : Rat) : Float := Float.ofInt q.num / Float.ofNat q.den

instance : Scalar Float where
  ofRat := floatOfRat
  decLt := inferInstance
  decLe := inferInstance

namespace Scalar
variable {α : Type} [Scalar α]

def zero : α := ofRat 0
def one : α := ofRat 1
def two : α := ofRat 2
def half : α := ofRat (1/2)

/-- C++ `a == b` on doubles (false on NaN) -/
def beq (a b : α) : Bool := decide (a ≤ b) && decide (b ≤ a)
/-- `std::min(a,b)` = `(b < a) ? b : a` -/
def min (a b : α) : α := if b < a then b else a
/-- `std::max(a,b)` = `(a < b) ? b : a` -/
def max (a b : α) : α := if a < b then b else a
/-- `std::abs` (up to the sign of zero) -/
def abs (a : α) : α := if a < zero then -a else a

end Scalar

/-! vectors are lists; all binary operations are `zipWith` (the optimizers keep
every vector at the dimension of the starting point — a proved invariant where
it matters) -/
abbrev Vec (α : Type) := List α

namespace Vec
variable {α : Type} [Scalar α]

def zeros (n : Nat) : Vec α := List.replicate n Scalar.zero
def add (a b : Vec α) : Vec α := List.zipWith (· + ·) a b
def sub (a b : Vec α) : Vec α := List.zipWith (· - ·) a b
def smul (c : α) (a : Vec α) : Vec α := a.map (c * ·)
def neg (a : Vec α) : Vec α := a.map (- ·)
/-- `a + c * b` element-wise (`noalias(a) += c * b`) -/
def axpy (a : Vec α) (c : α) (b : Vec α) : Vec α := List.zipWith (fun x y => x + c * y) a b
/-- sequential inner product `((0 + a₀b₀) + a₁b₁) + …` -/
def dot (a b : Vec α) : α := (List.zipWith (· * ·) a b).foldl (· + ·) Scalar.zero
def normSqr (a : Vec α) : α := dot a a
def norm1 (a : Vec α) : α := (a.map Scalar.abs).foldl (· + ·) Scalar.zero
def get (a : Vec α) (i : Nat) : α := a.getD i Scalar.zero

end Vec

/-- dense row-major matrices as lists of rows -/
abbrev Mat (α : Type) := List (List α)

namespace Mat
variable {α : Type} [Scalar α]
def identity (n : Nat) : Mat α :=
  (List.range n).map fun i => (List.range n).map fun j => if i = j then Scalar.one else Scalar.zero
def mulVec (m : Mat α) (v : Vec α) : Vec α := m.map fun r => Vec.dot r v
def get (m : Mat α) (i j : Nat) : α := (m.getD i []).getD j Scalar.zero
end Mat

end SharkVerif.Opt
