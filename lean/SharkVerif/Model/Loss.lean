/-
Models of the loss functions of include/shark/ObjectiveFunctions/Loss/*.h, of
`ErrorFunction` (Impl/ErrorFunction.inl) and of the regularizers, written once
over the `Scalar` interface.  Each `…Eval` / `…EvalDerivative` follows the C++
of the *batch* functions (the single-element versions of `AbstractLoss` wrap the
element into a batch of size one and call the batch version).  A batch of
vector predictions is a `List (List α)` (one row per element); class labels are
`Nat`.  Transcendental functions are explicit parameters.  Core Lean only.
-/
import SharkVerif.Model.Scalar
namespace SharkVerif.Loss
open Scalar
variable {α : Type} [Scalar α]

def zipSub (a b : List α) : List α := List.zipWith (· - ·) a b
/-- `norm_sqr` -/
def normSqr (v : List α) : α := sumL (v.map sqr)

/-! ### SquaredLoss (vector labels) -/
/-- `0.5 * sum(sqr(labels - predictions))` over the whole batch matrix -/
def squaredEval (labels preds : List (List α)) : α :=
  half * sumL ((List.zipWith zipSub labels preds).flatten.map sqr)
/-- gradient `prediction - label`, value by `eval` -/
def squaredEvalDerivative (labels preds : List (List α)) : α × List (List α) :=
  (squaredEval labels preds, List.zipWith zipSub preds labels)

/-! ### SquaredLoss (class labels): `0.5 * Σ_i (‖p_i‖² + 1 − 2 p_i[c_i])` -/
def squaredClassEval (labels : List Nat) (preds : List (List α)) : α :=
  half * sumL (List.zipWith (fun c p => normSqr p + 1 - two * p.getD c 0) labels preds)
def squaredClassEvalDerivative (labels : List Nat) (preds : List (List α)) : α × List (List α) :=
  (squaredClassEval labels preds,
   List.zipWith (fun c p => (List.range p.length).map fun o => if o = c then p.getD o 0 - 1 else p.getD o 0) labels preds)

/-! ### HingeLoss -/
def hingeRowBinary (c : Nat) (p : List α) : α :=
  let y : α := two * ofNat c - 1
  smax 0 (1 - y * p.getD 0 0)
def hingeRowMulti (c : Nat) (p : List α) : α :=
  sumL (((List.range p.length).filter (· ≠ c)).map fun o => smax 0 (two - p.getD c 0 + p.getD o 0))
/-- `eval`: binary case if the prediction has one column, else sum over wrong classes, halved at the end -/
def hingeEval (labels : List Nat) (preds : List (List α)) : α :=
  match preds with
  | [] => 0
  | p0 :: _ =>
    if p0.length = 1 then sumL (List.zipWith hingeRowBinary labels preds)
    else sumL (List.zipWith hingeRowMulti labels preds) / two
def hingeGradRowBinary (c : Nat) (p : List α) : List α :=
  let y : α := two * ofNat c - 1
  if 0 < smax 0 (1 - y * p.getD 0 0) then [-y] else [0]
/-- multi-class row gradient: `+0.5` on every violating wrong class, `-0.5` per violation on the true class -/
def hingeGradRowMulti (c : Nat) (p : List α) : List α :=
  let viol (o : Nat) : Bool := o ≠ c && decide (0 < smax 0 (two - p.getD c 0 + p.getD o 0))
  let cnt := ((List.range p.length).filter viol).length
  (List.range p.length).map fun o =>
    if o = c then (List.range cnt).foldl (fun g _ => g - half) 0
    else if viol o then half else 0
def hingeEvalDerivative (labels : List Nat) (preds : List (List α)) : α × List (List α) :=
  match preds with
  | [] => (0, [])
  | p0 :: _ =>
    if p0.length = 1 then
      (sumL (List.zipWith hingeRowBinary labels preds), List.zipWith hingeGradRowBinary labels preds)
    else
      (sumL (List.zipWith hingeRowMulti labels preds) / two, List.zipWith hingeGradRowMulti labels preds)

/-! ### SquaredHingeLoss (binary case; multi-class analogous with /4 and /2) -/
def sqHingeEval (labels : List Nat) (preds : List (List α)) : α :=
  match preds with
  | [] => 0 / two
  | p0 :: _ =>
    if p0.length = 1 then sumL (List.zipWith (fun c p => sqr (hingeRowBinary c p)) labels preds) / two
    else sumL (List.zipWith (fun c p =>
        sumL (((List.range p.length).filter (· ≠ c)).map fun o => sqr (smax 0 (two - p.getD c 0 + p.getD o 0))))
        labels preds) / ofNat 4 / two
def sqHingeGradRowBinary (c : Nat) (p : List α) : List α :=
  let y : α := two * ofNat c - 1
  let s := smax 0 (1 - y * p.getD 0 0)
  if 0 < s then [-y * s] else [0]

/-! ### EpsilonHingeLoss: `Σ max(0, |l − p| − ε)` -/
def epsHingeEval (eps : α) (labels preds : List (List α)) : α :=
  sumL ((List.zipWith zipSub labels preds).flatten.map fun d => smax 0 (sabs d - eps))
/-- the derivative call accumulates in its own loop (prediction − label this time) -/
def epsHingeEvalDerivative (eps : α) (labels preds : List (List α)) : α × List (List α) :=
  let rows := List.zipWith (fun l p => List.zipWith (fun lo po =>
      let s := smax 0 (sabs (po - lo) - eps)
      (s, if 0 < s then (if lo < po then (1 : α) else -1) else 0)) l p) labels preds
  (sumL (rows.flatten.map Prod.fst), rows.map fun r => r.map Prod.snd)

/-! ### SquaredEpsilonHingeLoss: `0.5 Σ_i max(0, ‖l_i − p_i‖² − ε²)` -/
def sqEpsHingeEval (sqrEps : α) (labels preds : List (List α)) : α :=
  half * sumL (List.zipWith (fun l p => smax 0 (normSqr (zipSub l p) - sqrEps)) labels preds)
def sqEpsHingeEvalDerivative (sqrEps : α) (labels preds : List (List α)) : α × List (List α) :=
  let rows := List.zipWith (fun l p =>
      let s := half * smax 0 (normSqr (zipSub p l) - sqrEps)
      (s, if 0 < s then zipSub p l else p.map fun _ => (0 : α))) labels preds
  (sumL (rows.map Prod.fst), rows.map Prod.snd)

/-! ### HuberLoss (`sqrt` as parameter) -/
def huberRow (sqrt : α → α) (delta : α) (l p : List α) : α :=
  let n2 := normSqr (zipSub p l)
  if n2 ≤ sqr delta then half * n2 else delta * sqrt n2 - half * sqr delta
def huberEval (sqrt : α → α) (delta : α) (labels preds : List (List α)) : α :=
  sumL (List.zipWith (huberRow sqrt delta) labels preds)
/-- outside the quadratic zone the C++ writes `m_delta/norm*(p − l)`; remora's expression
optimizer distributes the scalar over the difference, so what is computed is `a·p − a·l` -/
def huberGradRow (sqrt : α → α) (delta : α) (l p : List α) : List α :=
  let n2 := normSqr (zipSub p l)
  if n2 ≤ sqr delta then zipSub p l
  else List.zipWith (fun po lo => delta / sqrt n2 * po - delta / sqrt n2 * lo) p l

/-! ### CrossEntropy with class labels (`exp`, `log` as parameters) -/
/-- `evalError(label, exponential, value)` with its `value*label < -200` shortcut -/
def ceEvalError (log : α → α) (label exponential value : α) : α :=
  if value * label < -(ofNat 200) then -value * label else log (1 + exponential)
/-- maximum of a non-empty vector, left to right like `max(prediction)` -/
def maxL (v : List α) : α := match v with
  | [] => 0
  | x :: xs => xs.foldl smax x
def ceRowEval (exp log : α → α) (c : Nat) (p : List α) : α :=
  if p.length = 1 then
    let label : α := two * ofNat c - 1
    ceEvalError log label (exp (-label * p.getD 0 0)) (p.getD 0 0)
  else
    let m := maxL p
    let logNorm := log (sumL (p.map fun x => exp (x - m))) + m
    logNorm - p.getD c 0
/-- batch `eval`: loop over the rows calling the single-element version -/
def ceEval (exp log : α → α) (labels : List Nat) (preds : List (List α)) : α :=
  sumL (List.zipWith (ceRowEval exp log) labels preds)
/-- the batch derivative has its own code: `log(norm) − p[c] + max` (note the order of the additions) -/
def ceRowEvalDerivative (exp log : α → α) (c : Nat) (p : List α) : α × List α :=
  if p.length = 1 then
    let label : α := two * ofNat c - 1
    let exponential := exp (-label * p.getD 0 0)
    let sigmoid := 1 / (1 + exponential)
    (ceEvalError log label exponential (p.getD 0 0), [-label * (1 - sigmoid)])
  else
    let m := maxL p
    let e := p.map fun x => exp (x - m)
    let norm := sumL e
    let g := e.map fun x => x / norm
    (log norm - p.getD c 0 + m, (List.range g.length).map fun o => if o = c then g.getD o 0 - 1 else g.getD o 0)
def ceEvalDerivative (exp log : α → α) (labels : List Nat) (preds : List (List α)) : α × List (List α) :=
  let rows := List.zipWith (ceRowEvalDerivative exp log) labels preds
  (sumL (rows.map Prod.fst), rows.map Prod.snd)

/-! ### ZeroOneLoss (vector predictions) -/
def zeroOneRow (threshold : α) (c : Nat) (p : List α) : α :=
  if p.length = 1 then
    let t : Nat := if threshold < p.getD 0 0 then 1 else 0
    if t = c then 0 else 1
  else
    if ((List.range p.length).filter (· ≠ c)).any (fun i => decide (p.getD c 0 ≤ p.getD i 0)) then 1 else 0
def zeroOneEval (threshold : α) (labels : List Nat) (preds : List (List α)) : α :=
  sumL (List.zipWith (zeroOneRow threshold) labels preds)

/-! ### ErrorFunction over a batched dataset

`batchLoss b` is the loss of batch `b` (the model's predictions already inside).
The full-batch `eval` splits the batches into `numThreads` consecutive ranges
`[start t, stop t)`, sums each range in a thread, adds the thread sums under a
lock (any order) and divides by the number of elements. -/
def rangeSum (batchLoss : Nat → α) (start stop : Nat) : α :=
  sumL ((List.range (stop - start)).map fun d => batchLoss (start + d))

def errorEval (batchLoss : Nat → α) (numElements : α)
    (start stop : Nat → Nat) (threadOrder : List Nat) : α :=
  sumL (threadOrder.map fun t => rangeSum batchLoss (start t) (stop t)) / numElements

/-- weighted variant: `Σ_b Σ_j w_bj · loss_bj / Σ w` -/
def weightedErrorEval (elemLoss weight : Nat → Nat → α) (batchSizes : List Nat) : α :=
  let pairs := (List.range batchSizes.length).map fun b =>
    sumL ((List.range (batchSizes.getD b 0)).map fun j => weight b j * elemLoss b j)
  let sw := sumL ((List.range batchSizes.length).map fun b =>
    sumL ((List.range (batchSizes.getD b 0)).map fun j => weight b j))
  sumL pairs / sw

/-! ### Regularizers -/
def oneNorm (x : List α) : α := sumL (x.map sabs)
def twoNorm (x : List α) : α := half * normSqr x
/-- masked variants (`setMask`): `norm_1(input * mask)` and `0.5 * sum(mask * sqr(input))` -/
def oneNormMasked (mask x : List α) : α := sumL (List.zipWith (fun m xi => sabs (xi * m)) mask x)
def twoNormMasked (mask x : List α) : α := half * sumL (List.zipWith (fun m xi => m * sqr xi) mask x)
def sign (a : α) : α := if a < 0 then -1 else if 0 < a then 1 else 0
def regularizedEval (value strength reg : α) : α := value + strength * reg

end SharkVerif.Loss
