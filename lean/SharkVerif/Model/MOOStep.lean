/-
Executable models of the population update of the multi-objective optimizers
(`MOCMA.h`, `SteadyStateMOCMA.h`, `SMS-EMOA.h`, `RealCodedNSGAII.h`, `RealCodedNSGAIII.h`,
`MOEAD.cpp`, `RVEA.cpp`), of `PenalizingEvaluator`, `TournamentSelection`, the Tchebycheff
replacement rule of MOEA/D and the reference-vector guided selection of RVEA.  Core Lean only.

Search points and objective values are integer vectors (the correspondence feeds
integer-valued doubles to the real classes).  The variation operators (SBX, polynomial
mutation, CMA sampling) are parameters of the generation step.
-/
import SharkVerif.Model.MOOInd
namespace SharkVerif.MOO
open SharkVerif.Pareto SharkVerif.HV

/-- `shark::Individual<RealVector, RealVector>` (chromosome not modelled) -/
structure Indiv where
  x : List Int          -- searchPoint()
  pen : Pt              -- penalizedFitness()
  unpen : Pt            -- unpenalizedFitness()
  rank : Nat := 0
  sel : Bool := false
  deriving DecidableEq, Repr, Inhabited

/-! ### BoxConstraintHandler / PenalizingEvaluator -/

/-- `BoxConstraintHandler::isFeasible` on integer points (the tolerance `1e-13` of the C++ does
not matter for integers) -/
def feasible : List Int → List Int → List Int → Bool
  | l :: lo, h :: hi, x :: xs => decide (l ≤ x) && decide (x ≤ h) && feasible lo hi xs
  | _, _, _ => true

/-- `BoxConstraintHandler::closestFeasible`: `min(max(x, lower), upper)` per coordinate -/
def clampBox : List Int → List Int → List Int → List Int
  | l :: lo, h :: hi, x :: xs => min (max x l) h :: clampBox lo hi xs
  | _, _, xs => xs

/-- `norm_sqr(t - s)` -/
def normSqDiff : List Int → List Int → Int
  | a :: as, b :: bs => (a - b) * (a - b) + normSqDiff as bs
  | _, _ => 0

/-- `PenalizingEvaluator::operator()(f, individual)` with `m_numEvaluations = 1` -/
def penEval (f : List Int → Pt) (lo hi : List Int) (alpha : Int) (x : List Int) : Indiv :=
  let t := if feasible lo hi x then x else clampBox lo hi x
  let u := f t
  { x := x, unpen := u, pen := u.map (· + alpha * normSqDiff t x) }

/-! ### IndicatorBasedSelection on individuals -/

/-- `m_selection(population, mu)`: ranks by `nonDominatedSort(penalizedFitness)`, then the flags -/
def applySelect (ind : List Pt → Indicator) (pop : List Indiv) (mu : Nat) : List Indiv :=
  let pts := pop.map (·.pen)
  let ranks := fastSort pts
  let flags := select (ind pts) ranks mu
  (List.range pop.length).map fun i =>
    { pop.getD i default with rank := ranks.getD i 0, sel := flags.getD i false }

/-! ### steady state: SMS-EMOA, SteadyStateMOCMA -/

/-- `for(i < mu) if(!parents[i].selected()){ parents[i] = parents.back(); break; }` -/
def replaceFirstUnselected (o : Indiv) : List Indiv → List Indiv
  | [] => []
  | p :: ps => if p.sel then p :: replaceFirstUnselected o ps else o :: ps

/-- `SMSEMOA::updatePopulation` -/
def steadyUpdate (ind : List Pt → Indicator) (parents : List Indiv) (o : Indiv) (mu : Nat) : List Indiv :=
  let all := applySelect ind (parents ++ [o]) mu
  let last := all.getD parents.length default
  if last.sel then replaceFirstUnselected last (all.take parents.length) else all.take parents.length

/-- `SteadyStateMOCMA::sortRankOneToFront`: `start = 0, end = mu-1; while(start != end)
{ if(rank[start] == 1) ++start; else if(rank[end] != 1) --end; else swap(start, end); }` -/
def sortRankOne : Nat → List Indiv → List Indiv
  | 0, l => l
  | _ + 1, [] => []
  | _ + 1, [a] => [a]
  | fuel + 1, a :: b :: rest =>
    if a.rank == 1 then a :: sortRankOne fuel (b :: rest)
    else
      let z := (b :: rest).getLast (by simp)
      let mid := (b :: rest).dropLast
      if z.rank != 1 then sortRankOne fuel (a :: mid) ++ [z]
      else z :: sortRankOne fuel (mid ++ [a])

/-- `SteadyStateMOCMA::updatePopulation` (the step-size/covariance updates do not touch points
or fitness values) -/
def ssmocmaUpdate (ind : List Pt → Indicator) (parents : List Indiv) (o : Indiv) (mu : Nat) : List Indiv :=
  let l := steadyUpdate ind parents o mu
  sortRankOne l.length l

/-! ### generational: NSGA-II, NSGA-III, MO-CMA-ES, RVEA -/

/-- the last selected element of a list: `l = A ++ z :: B`, `z` selected, `B` all unselected -/
def splitLastSel : List Indiv → Option (List Indiv × Indiv × List Indiv)
  | [] => none
  | a :: t =>
    match splitLastSel t with
    | some (A, z, B) => some (a :: A, z, B)
    | none => if a.sel then some ([], a, t) else none

/-- libstdc++ `std::partition(first, last, selected)` (bidirectional version): scan for the first
unselected element from the left and the last selected one from the right, swap, repeat -/
def stdPartition : Nat → List Indiv → List Indiv
  | 0, l => l
  | _ + 1, [] => []
  | fuel + 1, a :: t =>
    if a.sel then a :: stdPartition fuel t
    else match splitLastSel t with
      | none => a :: t
      | some (A, z, B) => z :: stdPartition fuel A ++ a :: B

/-- `updatePopulation` of `IndicatorBasedRealCodedNSGAII`, `RealCodedNSGAIII`, `IndicatorBasedMOCMA`:
`insert offspring; select; std::partition by selected(); erase(begin + mu, end)` -/
def genUpdate (ind : List Pt → Indicator) (parents offspring : List Indiv) (mu : Nat) : List Indiv :=
  let all := applySelect ind (parents ++ offspring) mu
  (stdPartition all.length all).take mu

/-! ### TournamentSelection -/

/-- `TournamentSelection<RankOrdering>::operator()(rng, it, itE)`: `draws` are the values of
`random::discrete(rng, 0, n-1)` in call order (tournament size = number of draws) -/
def tournament (ranks : List Nat) : List Nat → Nat
  | [] => 0
  | d :: ds => ds.foldl (fun res c => if ranks.getD c 0 < ranks.getD res 0 then c else res) d

/-! ### MOEA/D: Tchebycheff replacement in the neighbourhood -/

/-- the weight used by `tchebycheffScalarizer`: `k/t`, a zero weight is replaced by `1e-5` -/
def moeadWeight (t : Nat) (k : Nat) : Rat := if k == 0 then (1 : Rat) / 100000 else (k : Rat) / (t : Rat)

/-- `tchebycheffScalarizer(fitness, weights, z)`: `max_i w_i |f_i - z_i|` -/
def tcheb (t : Nat) : Pt → List Nat → Pt → Rat
  | f :: fs, k :: ks, z :: zs =>
    let v := moeadWeight t k * ((f - z).natAbs : Rat)
    match fs with
    | [] => v
    | _ => max v (tcheb t fs ks zs)
  | _, _, _ => 0

structure MoeadState where
  parents : List Indiv
  z : Pt                  -- m_bestDecomposedValues
  cur : Nat               -- m_curParentIndex
  deriving Repr

/-- `MOEAD::updatePopulation`: `weights` = lattice points `k` (weight vector `k/t`), `nbh` =
`m_neighbourhoods` (row `cur` is visited in order) -/
def moeadUpdate (t : Nat) (weights : List (List Nat)) (nbh : List (List Nat)) (s : MoeadState) (o : Indiv) : MoeadState :=
  let z := (List.range s.z.length).map fun i => min (s.z.getD i 0) (o.unpen.getD i 0)
  let parents := (nbh.getD s.cur []).foldl (fun ps j =>
    let lam := weights.getD j []
    let tnew := tcheb t o.unpen lam z
    let told := tcheb t (ps.getD j default).unpen lam z
    if tnew ≤ told then ps.set j o else ps) s.parents
  { parents := parents, z := z, cur := (s.cur + 1) % nbh.length }

/-! ### RVEA: reference-vector guided selection -/

/-- `ReferenceVectorGuidedSelection::operator()` after the floating-point part: individual `i`
belongs to sub-group `grp i` (arg-max of the cosines) and has angle-penalised distance with order
key `apd i` (`none`: not below the initial `min = 1e5`); in every non-empty group the first
strictly smallest `apd` is selected (`selected_idx` starts at 0!) -/
def rveaFlags (groups : Nat) (grp : List Nat) (apd : List (Option Int)) : List Bool :=
  let chosen := (List.range groups).filterMap fun j =>
    let members := (List.range grp.length).filter fun i => grp.getD i 0 == j
    if members.isEmpty then none
    else some ((members.foldl (fun (acc : Nat × Option Int) i =>
      if optLt (apd.getD i none) acc.2 then (i, apd.getD i none) else acc) (0, none)).1)
  (List.range grp.length).map fun i => chosen.contains i

/-- `RVEA::updatePopulation`: `insert offspring; select; std::partition; erase(begin + mu, end)` -/
def rveaUpdate (parents offspring : List Indiv) (groups : Nat) (grp : List Nat) (apd : List (Option Int)) (mu : Nat) : List Indiv :=
  let all := parents ++ offspring
  let flags := rveaFlags groups grp apd
  let all := (List.range all.length).map fun i => { all.getD i default with sel := flags.getD i false }
  (stdPartition all.length all).take mu

/-! ### the generation step with the variation operators as parameters -/

/-- the variation operators (tournament + SBX + polynomial mutation, or CMA sampling) produce
search points from the parent population and a random stream; for the algorithms with bounded
operators the C++ clamps every coordinate to the box (`SimulatedBinaryCrossover`,
`PolynomialMutator`), which is modelled by `clampBox` *after* the arbitrary operator -/
def boundedVariation (vary : List Indiv → List Nat → List (List Int)) (lo hi : List Int)
    (parents : List Indiv) (rnd : List Nat) : List (List Int) :=
  (vary parents rnd).map (clampBox lo hi)

/-- one `step()` of a generational algorithm: offspring points, `PenalizingEvaluator`, `updatePopulation` -/
def genStep (ind : List Pt → Indicator) (f : List Int → Pt) (lo hi : List Int) (alpha : Int)
    (vary : List Indiv → List Nat → List (List Int)) (mu : Nat) (parents : List Indiv) (rnd : List Nat) : List Indiv :=
  genUpdate ind parents ((vary parents rnd).map (penEval f lo hi alpha)) mu

/-- one `step()` of a steady-state algorithm (one offspring) -/
def steadyStep (ind : List Pt → Indicator) (f : List Int → Pt) (lo hi : List Int) (alpha : Int)
    (vary : List Indiv → List Nat → List Int) (mu : Nat) (parents : List Indiv) (rnd : List Nat) : List Indiv :=
  steadyUpdate ind parents (penEval f lo hi alpha (vary parents rnd)) mu

/-- a run: the random stream of every step is an arbitrary input -/
def runSteps (step : List Indiv → List Nat → List Indiv) : List Indiv → List (List Nat) → List Indiv
  | pop, [] => pop
  | pop, r :: rs => runSteps step (step pop r) rs

end SharkVerif.MOO
