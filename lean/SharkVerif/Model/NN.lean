/-
Executable model of Shark's tree-based nearest-neighbour search (property C17).

  * `TTree`, `enqueue`, `enqAt`, `enqLoop`, `initDescend`, `init`, `next`:
    the `IterativeNNQuery` state machine of
    `include/shark/Algorithms/NearestNeighbors/TreeNearestNeighbors.h`
    (trace tree with NONE/PARTIAL/COMPLETE marks, queue of leaves ordered by
    (squared distance of the leaf's FIRST point, tie-break rank), squaredRadius,
    head pointer, nextIndex, neighbors counter), over an abstract
    space-partitioning tree: per node a lower bound on the squared distance of
    the query to the cell and the `isLeft(query)` decision.
  * `KD`, `buildKD`, `calcCutDim`, `splitList`, `kdLower/kdUpper`, `kdBound`:
    the kd-tree construction of `Models/Trees/KDTree.h` + `BinaryTree::splitList`
    + `partitionEqually` (as far as it is determined by the C++ source: which
    point goes to which side and the threshold; the order inside a side is left
    to `std::nth_element`/`std::partition` and is not part of the model).
  * `bruteForce`: exhaustive search (stable sort by squared distance).
  * `votes`, `predictClass`, `softOutput`: `NearestNeighborModel`'s decision.

Core Lean only (no Mathlib): this file is compiled into the native driver.
All distances are SQUARED distances over `Rat` (exact on integer points).
-/
namespace SharkVerif.NN

/-! ## The trace tree of one query -/

/-- `IterativeNNQuery::Status` -/
inductive Status where
  | unq | part | done
deriving DecidableEq, Repr, Inhabited

/-- A `TraceLeaf`: `d` is `m_squaredPtDistance` (the squared distance of the
leaf's FIRST point to the query), `rank` the position of the tree node's address
among all node addresses (the `this->m_tree < rhs.m_tree` tie-break), `pts` the
leaf's slice of the index list, in order. -/
structure Leaf where
  d : Rat
  rank : Nat
  pts : List Nat
deriving Repr, Inhabited, DecidableEq

/-- Tree node specialised to one query point: `lb` is
`squaredDistanceLowerBound(query)`, `goLeft` is `isLeft(query)`.
Leaves carry `queued` (status COMPLETE) instead of a three-valued status: the
C++ never assigns PARTIAL to a leaf.  A leaf holds the list `es` of QUEUE ENTRIES that
`insertIntoQueue(leaf)` adds: the code with the leaf queue (`boost::intrusive::rbtree<TraceLeaf>`)
adds ONE entry for the whole leaf, keyed by the distance of the leaf's first point (`leafEntries false`);
the point-queue variant (the repair of finding K1: `std::set<std::pair<double,std::size_t>>`) adds one
entry per point, keyed by the point's own distance and its index (`leafEntries true`).  Trace nodes the C++ has not created yet
are represented with status NONE (creation is unobservable: the data of a trace
node is a function of the tree node and the query). -/
inductive TTree where
  | leaf (queued : Bool) (lb : Rat) (es : List Leaf)
  | node (st : Status) (lb : Rat) (goLeft : Bool) (l r : TTree)
deriving Repr, Inhabited

/-- all point indices held by a list of queue entries -/
def qpts (q : List Leaf) : List Nat := q.flatMap (·.pts)

/-- The sentinel `1e100` returned by `squaredRadius` for COMPLETE nodes. -/
def big : Rat := ((10 ^ 100 : Nat) : Rat)

namespace TTree

def status : TTree → Status
  | leaf q _ _ => if q then .done else .unq
  | node st _ _ _ _ => st

def lb : TTree → Rat
  | leaf _ b _ => b
  | node _ b _ _ _ => b

/-- all point indices below the node, in index-list order -/
def pts : TTree → List Nat
  | leaf _ _ es => qpts es
  | node _ _ _ l r => l.pts ++ r.pts

/-- `m_tree->size()` -/
def size (t : TTree) : Nat := t.pts.length

/-- points of leaves that have not been queued yet -/
def unq : TTree → List Nat
  | leaf q _ es => if q then [] else qpts es
  | node _ _ _ l r => l.unq ++ r.unq

/-- `TraceNode::squaredRadius` (`std::min(l, r)` returns `r` iff `r < l`) -/
def radius : TTree → Rat
  | leaf q b _ => if q then big else b
  | node st b _ l r =>
    match st with
    | .unq => b
    | .part => if r.radius < l.radius then r.radius else l.radius
    | .done => big

def statusAt : TTree → List Bool → Status
  | t, [] => t.status
  | leaf q _ _, _ :: _ => if q then .done else .unq
  | node _ _ _ l r, b :: p => if b then l.statusAt p else r.statusAt p

end TTree

/-! ## The leaf queue

`boost::intrusive::rbtree<TraceLeaf>` ordered by `TraceLeaf::operator<`.  The
model keeps an unordered list and *selects* the minimum; with pairwise distinct
ranks this is the same container. -/

/-- `TraceLeaf::operator<` -/
def Leaf.lt (a b : Leaf) : Bool :=
  if a.d = b.d then decide (a.rank < b.rank) else decide (a.d < b.d)

/-- minimum element and the remaining elements -/
def extractMin : List Leaf → Option (Leaf × List Leaf)
  | [] => none
  | x :: xs =>
    match extractMin xs with
    | none => some (x, [])
    | some (m, rest) => if Leaf.lt m x then some (m, x :: rest) else some (x, xs)

/-- `*m_queue.begin()` -/
def front (q : List Leaf) : Option Leaf := (extractMin q).map (·.1)

/-- `! m_queue.empty() && tn->m_squaredDistance >= begin().m_squaredPtDistance` -/
def prune (q : List Leaf) (lb : Rat) : Bool :=
  match front q with
  | none => false
  | some f => decide (f.d ≤ lb)

/-- One step of the upward walk of `insertIntoQueue` at a parent with status
`st` whose other child has status `sib`; the Boolean says whether the walk
continues to the next ancestor. -/
def rule (st sib : Status) : Status × Bool :=
  match st with
  | .unq => (.part, false)
  | .part => if sib = .done then (.done, true) else (.part, false)
  | .done => (.done, true)

/-- `IterativeNNQuery::enqueue(tn)` on the subtree `tn`.  Returns the updated
subtree, the updated queue and whether an upward walk of `insertIntoQueue`
leaves the subtree (i.e. must be continued at the parent of `tn`). -/
def enqueue : TTree → List Leaf → TTree × List Leaf × Bool
  | .leaf queued lb es, q =>
    if queued then (.leaf queued lb es, q, false)
    else if prune q lb then (.leaf queued lb es, q, false)
    else (.leaf true lb es, es ++ q, true)
  | .node st lb gl l r, q =>
    if st = .done then (.node st lb gl l r, q, false)
    else if prune q lb then (.node st lb gl l r, q, false)
    else if gl then
      -- left first
      let (l', q1, e1) := enqueue l q
      let (st1, x1) := if e1 then rule st r.status else (st, false)
      let (r', q2, e2) := enqueue r q1
      let (st2, x2) := if e2 then rule st1 l'.status else (st1, false)
      (.node st2 lb gl l' r', q2, x1 || x2)
    else
      -- right first
      let (r', q1, e1) := enqueue r q
      let (st1, x1) := if e1 then rule st l.status else (st, false)
      let (l', q2, e2) := enqueue l q1
      let (st2, x2) := if e2 then rule st1 r'.status else (st1, false)
      (.node st2 lb gl l' r', q2, x1 || x2)

/-- `enqueue(tn)` for the node `tn` at `path` (top-down, `true` = left child)
inside the whole trace tree, including the part of the upward walk above `tn`. -/
def enqAt : TTree → List Bool → List Leaf → TTree × List Leaf × Bool
  | t, [], q => enqueue t q
  | .leaf queued lb es, _ :: _, q => (.leaf queued lb es, q, false)
  | .node st lb gl l r, b :: p, q =>
    if b then
      let (l', q', e) := enqAt l p q
      let (st', x) := if e then rule st r.status else (st, false)
      (.node st' lb gl l' r, q', x)
    else
      let (r', q', e) := enqAt r p q
      let (st', x) := if e then rule st l.status else (st, false)
      (.node st' lb gl l r', q', x)

/-- The loop `while (tn != NULL){ enqueue(tn); if (COMPLETE) mep_head = parent; tn = parent; }`
of `next()`.  Paths here are bottom-up (head of the list = last step), so the
parent of `b :: up` is `up` and the parent of the root `[]` is NULL. -/
def enqLoop : TTree → List Leaf → Option (List Bool) → List Bool →
    TTree × List Leaf × Option (List Bool)
  | t, q, head, [] =>
    let (t', q', _) := enqueue t q
    (t', q', if t'.status = .done then none else head)
  | t, q, head, b :: up =>
    let (t', q', _) := enqAt t (b :: up).reverse q
    let head' := if t'.statusAt (b :: up).reverse = .done then some up else head
    enqLoop t' q' head' up

/-- The constructor: descend to the leaf whose cell contains the query, queue it
unconditionally (`insertIntoQueue`), walk up.  Returns the tree, the queued leaf,
the walk flag and the top-down path of the leaf. -/
def initDescend : TTree → TTree × List Leaf × Bool × List Bool
  | .leaf _ lb es => (.leaf true lb es, es, true, [])
  | .node st lb gl l r =>
    if gl then
      let (l', q, e, p) := initDescend l
      let (st', x) := if e then rule st r.status else (st, false)
      (.node st' lb gl l' r, q, x, true :: p)
    else
      let (r', q, e, p) := initDescend r
      let (st', x) := if e then rule st l.status else (st, false)
      (.node st' lb gl l r', q, x, false :: p)

/-- State of an `IterativeNNQuery`. `head` is `mep_head` as a bottom-up path
(`none` = NULL). -/
structure QState where
  tree : TTree
  queue : List Leaf
  nextIndex : Nat
  head : Option (List Bool)
  radius : Rat
  neighbors : Nat
deriving Repr, Inhabited

/-- `mep_head = tn->mep_parent` for the leaf at top-down path `p` (bottom-up result) -/
def headOfPath (p : List Bool) : Option (List Bool) :=
  match p.reverse with
  | [] => none
  | _ :: up => some up

def init (t : TTree) : QState :=
  let r := initDescend t
  { tree := r.1, queue := r.2.1, nextIndex := 0, head := headOfPath r.2.2.2,
    radius := r.1.radius, neighbors := 0 }

/-- `getNextPoint(leaf)`: the reported squared distance is the LEAF's distance
(`m_squaredPtDistance`), the index is `leaf.m_tree->index(m_nextIndex)`.
`none` where the C++ reads outside the leaf's slice of the index list. -/
def getNextPoint (s : QState) (f : Leaf) : QState × Option (Rat × Nat) :=
  ({ s with nextIndex := s.nextIndex + 1 }, (f.pts[s.nextIndex]?).map fun i => (f.d, i))

/-- `if (m_queue.empty() || begin().m_squaredPtDistance > m_squaredRadius){ enqueue more; re-compute the radius }`
on the queue `q` (the current queue, possibly after erasing the exhausted front
leaf).  Returns trace tree, queue, head and radius. -/
def refill (s : QState) (q : List Leaf) : TTree × List Leaf × Option (List Bool) × Rat :=
  let needMore := match front q with
    | none => true
    | some f => decide (s.radius < f.d)
  if needMore then
    match s.head with
    | none => (s.tree, q, none, s.tree.radius)
    | some p =>
      let r := enqLoop s.tree q s.head p
      (r.1, r.2.1, r.2.2, r.1.radius)
  else (s.tree, q, s.head, s.radius)

/-- second half of `next()`: possibly enqueue more, then start the front leaf -/
def fresh (s : QState) (q : List Leaf) : QState × Option (Rat × Nat) :=
  let r := refill s q
  let s' : QState := { tree := r.1, queue := r.2.1, nextIndex := 0, head := r.2.2.1, radius := r.2.2.2,
                       neighbors := s.neighbors + 1 }
  match front r.2.1 with
  | none => (s', none)          -- C++: `*m_queue.begin()` of an empty queue
  | some f => getNextPoint s' f

/-- `IterativeNNQuery::next()`; `none` = exception ("No more neighbors
available") or undefined behaviour in the C++. -/
def next (s : QState) : QState × Option (Rat × Nat) :=
  if s.tree.size ≤ s.neighbors then (s, none)
  else if 0 < s.neighbors then
    match extractMin s.queue with
    | none => fresh s s.queue
    | some (f, rest) =>
      if s.nextIndex < f.pts.length then getNextPoint s f else fresh s rest
  else fresh s s.queue

/-- `k` calls of `next()` -/
def run : Nat → QState → List (Option (Rat × Nat))
  | 0, _ => []
  | k + 1, s => let (s', o) := next s; o :: run k s'

/-- the query as used by `TreeNearestNeighbors::getNeighbors` -/
def treeKnn (t : TTree) (k : Nat) : List (Option (Rat × Nat)) := run k (init t)

/-! ## Points, distances, brute force -/

abbrev Point := List Rat

def coord (p : Point) (d : Nat) : Rat := p.getD d 0

/-- squared Euclidean distance -/
def dist2 : Point → Point → Rat
  | [], _ => 0
  | _, [] => 0
  | a :: as, b :: bs => (a - b) * (a - b) + dist2 as bs

/-- standard inner product -/
def dot : Point → Point → Rat
  | [], _ => 0
  | _, [] => 0
  | a :: as, b :: bs => a * b + dot as bs

/-- `PolynomialKernel(degree, offset)`: `(<x,y> + offset)^degree` -/
def polyKernel (degree : Nat) (offset : Rat) (x y : Point) : Rat := (dot x y + offset) ^ degree

/-- `AbstractKernelFunction::featureDistanceSqr` of a kernel that is not normalised: the squared
distance of the feature-space images, `k(x,x) - 2 k(x,y) + k(y,y)` (the metric of a `KHCTree`, of
`IterativeNNQuery` on a tree with a kernel, and of `SimpleNearestNeighbors`). -/
def featureDist2 (k : Point → Point → Rat) (x y : Point) : Rat := k x x - 2 * k x y + k y y

/-- insertion into a list sorted by key, before equal keys (so that `sortBy`,
which inserts from the right, is stable) -/
def insertBy (key : Nat → Rat) (x : Nat) : List Nat → List Nat
  | [] => [x]
  | y :: ys => if key x ≤ key y then x :: y :: ys else y :: insertBy key x ys

/-- stable sort of indices by key (insertion sort from the right) -/
def sortBy (key : Nat → Rat) : List Nat → List Nat
  | [] => []
  | x :: xs => insertBy key x (sortBy key xs)

/-- exhaustive search: indices `0..n-1` stably sorted by squared distance -/
def bruteForce (dist : Nat → Rat) (n k : Nat) : List (Rat × Nat) :=
  ((sortBy dist (List.range n)).take k).map fun i => (dist i, i)

/-! ## kd-tree construction (`KDTree.h`, `BinaryTree::splitList`, `partitionEqually`) -/

/-- Static space-partitioning tree: `rank` is the address rank of the node
(tie-break of the leaf queue; 0 in freshly built model trees), leaves hold their
slice of the index list, inner nodes of a kd-tree their cut dimension and
threshold (unused for LC/KHC trees, whose geometry enters only through the
per-query lower bounds and `isLeft` decisions). -/
inductive STree where
  | leaf (rank : Nat) (idx : List Nat)
  | node (rank : Nat) (cutDim : Nat) (thr : Rat) (l r : STree)
deriving Repr, Inhabited

namespace STree
def idx : STree → List Nat
  | leaf _ ix => ix
  | node _ _ _ l r => l.idx ++ r.idx

def nodes : STree → Nat
  | leaf _ _ => 1
  | node _ _ _ l r => 1 + l.nodes + r.nodes

def leaves : STree → List (List Nat)
  | leaf _ ix => [ix]
  | node _ _ _ l r => l.leaves ++ r.leaves
end STree

def minOver (f : Nat → Rat) : List Nat → Rat
  | [] => 0
  | x :: xs => xs.foldl (fun m i => if f i < m then f i else m) (f x)

def maxOver (f : Nat → Rat) : List Nat → Rat
  | [] => 0
  | x :: xs => xs.foldl (fun m i => if m < f i then f i else m) (f x)

/-- `KDTree::calculateCuttingDimension`: first dimension of maximal bounding-box
extent; `dim` if the extent is zero. -/
def calcCutDim (P : Nat → Point) (dim : Nat) (idx : List Nat) : Nat :=
  let ext := fun d => maxOver (fun i => coord (P i) d) idx - minOver (fun i => coord (P i) d) idx
  let r := (List.range dim).foldl
      (fun (acc : Nat × Rat) d => if acc.2 < ext d then (d, ext d) else acc) (0, ext 0)
  if r.2 = 0 then dim else r.1

/-- insertion sort of values -/
def insertVal (x : Rat) : List Rat → List Rat
  | [] => [x]
  | y :: ys => if x < y then x :: y :: ys else y :: insertVal x ys

def sortVals : List Rat → List Rat
  | [] => []
  | x :: xs => insertVal x (sortVals xs)

/-- Result of `splitList`: the left and right index lists (original relative
order) and the threshold. -/
structure Split where
  left : List Nat
  right : List Nat
  thr : Rat
deriving Repr

/-- the nearest value on the other side of the cut -/
def pickMin (vs : List Rat) : Rat :=
  match vs with
  | [] => 0
  | x :: xs => xs.foldl (fun m v => if v < m then v else m) x

/-- `BinaryTree::splitList` + `partitionEqually` + `median_element`, as far as
the C++ determines it.  `val` is `funct` of the point.  The median is the element
of rank `(size+1)/2`; the cut is after the values `< median` or after the values
`≤ median`, whichever is more balanced (left part never empty); `none` =
"partitioning failed, all values are equal".  The threshold is
`0.5*(max left + range[pos].key)` where `range[pos]` is the element that
`std::partition` leaves at the cut position: the median value when the cut is
before the median block, and otherwise an element greater than the median --
the model takes the smallest one (what the comment in the C++ intends); the
correspondence compares every threshold of every real tree with this choice. -/
def splitList (val : Nat → Rat) (idx : List Nat) : Option Split :=
  let vals := idx.map val
  let n := idx.length
  let median := (sortVals vals).getD ((n + 1) / 2) 0
  let nLess := (vals.filter (· < median)).length
  let nLeq := (vals.filter (· ≤ median)).length
  if nLess ≠ 0 ∧ n - nLeq ≤ nLess then
    let left := idx.filter (fun i => val i < median)
    let right := idx.filter (fun i => ¬ val i < median)
    some { left := left, right := right, thr := (1/2 : Rat) * (maxOver val left + median) }
  else if nLeq = n then none
  else
    let left := idx.filter (fun i => val i ≤ median)
    let right := idx.filter (fun i => ¬ val i ≤ median)
    some { left := left, right := right, thr := (1/2 : Rat) * (maxOver val left + pickMin (right.map val)) }

/-- `TreeConstruction(maxDepth, maxBucketSize)` normalisation -/
def normDepth (d : Nat) : Nat := if d = 0 then 4294967295 else d
def normBucket (b : Nat) : Nat := if b = 0 then 1 else b

/-- `TreeConstruction::nextDepthLevel`: `TreeConstruction(m_maxDepth - 1, ...)`,
whose constructor maps 0 back to 2^32-1 -- so `maxDepth() == 0` is never observed
and a depth limit never stops the construction (modelled as it is). -/
def nextDepth (d : Nat) : Nat := normDepth (d - 1)

/-- `KDTree::buildTree`.  `depth` is `tc.maxDepth()`, `bucket` is
`tc.maxBucketSize()` (both normalised).  `fuel` bounds the recursion
(every successful split makes both parts strictly smaller; `fuel = length + 1`
is never exhausted, see `Lemmas/KD.lean`). -/
def buildKD (P : Nat → Point) (dim bucket : Nat) : Nat → Nat → List Nat → STree
  | 0, _, idx => .leaf 0 idx
  | fuel + 1, depth, idx =>
    if depth = 0 ∨ idx.length ≤ bucket then .leaf 0 idx
    else
      let cd := calcCutDim P dim idx
      if cd = dim then .leaf 0 idx
      else
        match splitList (fun i => coord (P i) cd) idx with
        | none => .leaf 0 idx   -- not reachable for the kd-tree (extent > 0)
        | some s => .node 0 cd s.thr (buildKD P dim bucket fuel (nextDepth depth) s.left)
                                     (buildKD P dim bucket fuel (nextDepth depth) s.right)

/-- `KDTree(dataset, TreeConstruction(maxDepth, maxBucket))` on points `0..n-1` -/
def kdTree (P : Nat → Point) (dim n maxDepth maxBucket : Nat) : STree :=
  buildKD P dim (normBucket maxBucket) (n + 1) (normDepth maxDepth) (List.range n)

/-- A kd cell: per dimension an optional lower and upper bound
(`KDTree::lower/upper`; `none` = ∓1e100 at the root). -/
structure Box where
  lo : Nat → Option Rat
  hi : Nat → Option Rat

def Box.top : Box := { lo := fun _ => none, hi := fun _ => none }

def Box.left (b : Box) (cd : Nat) (thr : Rat) : Box :=
  { b with hi := fun d => if d = cd then some thr else b.hi d }

def Box.right (b : Box) (cd : Nat) (thr : Rat) : Box :=
  { b with lo := fun d => if d = cd then some thr else b.lo d }

/-- one summand of `KDTree::squaredDistanceLowerBound` -/
def boxTerm (lo hi : Option Rat) (v : Rat) : Rat :=
  match lo with
  | some l => if v < l then (l - v) * (l - v)
              else match hi with
                | some u => if u < v then (v - u) * (v - u) else 0
                | none => 0
  | none => match hi with
    | some u => if u < v then (v - u) * (v - u) else 0
    | none => 0

/-- `KDTree::squaredDistanceLowerBound` -/
def kdBoundFrom (b : Box) : Nat → Point → Rat
  | _, [] => 0
  | d, v :: vs => boxTerm (b.lo d) (b.hi d) v + kdBoundFrom b (d + 1) vs

def kdBound (b : Box) (q : Point) : Rat := kdBoundFrom b 0 q

/-- squared distance of the leaf's first point (`TraceLeaf` constructor); an
empty leaf makes the C++ read the neighbouring slot of the index list -- the
model uses 0 and the driver flags such trees. -/
def leafD (dist : Nat → Rat) (ix : List Nat) : Rat :=
  match ix with
  | [] => 0
  | i :: _ => dist i

/-- The queue entries `insertIntoQueue` adds for a leaf with index slice `ix`.
`pq = false`: the leaf queue of the code as it is (one entry, distance of the FIRST point, tie-break
by node address rank).  `pq = true`: the point queue (repair of K1): one entry per point with its
own distance, tie-break by point index. -/
def leafEntries (pq : Bool) (dist : Nat → Rat) (rank : Nat) (ix : List Nat) : List Leaf :=
  if pq then ix.map fun i => { d := dist i, rank := i, pts := [i] }
  else [{ d := leafD dist ix, rank := rank, pts := ix }]

/-- kd-tree specialised to a query `q`: the `TTree` the query runs on. -/
def kdTrace (pq : Bool) (q : Point) (dist : Nat → Rat) : STree → Box → TTree
  | .leaf rank ix, b => .leaf false (kdBound b q) (leafEntries pq dist rank ix)
  | .node _ cd thr l r, b =>
    .node .unq (kdBound b q) (decide (coord q cd < thr))
      (kdTrace pq q dist l (b.left cd thr)) (kdTrace pq q dist r (b.right cd thr))

/-- any tree with externally supplied per-node `(lower bound, isLeft)` in preorder -/
def absTrace (pq : Bool) (dist : Nat → Rat) : STree → List (Rat × Bool) → TTree × List (Rat × Bool)
  | .leaf rank ix, ann =>
    (.leaf false (ann.head?.map (·.1) |>.getD 0) (leafEntries pq dist rank ix), ann.tail)
  | .node _ _ _ l r, ann =>
    let (l', a1) := absTrace pq dist l ann.tail
    let (r', a2) := absTrace pq dist r a1
    (.node .unq (ann.head?.map (·.1) |>.getD 0) (ann.head?.map (·.2) |>.getD false) l' r', a2)

/-- The model's kd-tree with the leaf order and node ranks of the real one (`std::nth_element` and the
allocator decide them), provided both have the same shape, cut dimensions, thresholds and the same
index SET in every leaf. -/
def adoptKD : STree → STree → Option STree
  | .leaf _ ix, .leaf rk ix' => if ix.isPerm ix' then some (.leaf rk ix') else none
  | .node _ cd thr l r, .node rk cd' thr' l' r' =>
    if cd = cd' ∧ thr = thr' then
      match adoptKD l l', adoptKD r r' with
      | some a, some b => some (.node rk cd thr a b)
      | _, _ => none
    else none
  | _, _ => none

/-! ## LC-tree and KHC-tree construction (`LCTree.h`, `KHCTree.h`)

Both trees split a cell by the hyperplane orthogonal to the line through two PIVOT points of the cell
(`calculateNormal`: a pair of maximal distance among at most 25 sample points), at the median of the
projections (`BinaryTree::splitList`, the same routine as the kd-tree).  The LC-tree works with the
Euclidean inner product, the KHC-tree with a kernel; with `k = dot` both coincide, so one model serves
both.  The C++ `funct(x)` is `(k(p,x) - k(n,x)) / sqrt(D)` with `D = featureDist2 k p n`; the model works
with the SCALED projection `k(p,x) - k(n,x)` (a rational number on integer data; the positive factor
`1/sqrt(D)` changes neither the order of the values nor which side a point is on) and divides SQUARED
quantities by `D`.  Ideal (real-number) arithmetic: the rounding of the C++ doubles is outside the model. -/

/-- scaled `funct`: `sqrt(D) * funct(x)` for the pivot pair `pn = (positive, negative)` -/
def projVal (k : Point → Point → Rat) (P : Nat → Point) (pn : Nat × Nat) (x : Point) : Rat :=
  k (P pn.1) x - k (P pn.2) x

/-- `best_dist2` of `calculateNormal` for the pair -/
def pivD (k : Point → Point → Rat) (P : Nat → Point) (pn : Nat × Nat) : Rat :=
  featureDist2 k (P pn.1) (P pn.2)

/-- inner loop of `calculateNormal` (`for j = 0 .. i-1`): `acc = (best_dist2, besti, bestj)` -/
def farLoopJ (fd : Nat → Nat → Rat) (xi : Nat) : List Nat → Rat × Nat × Nat → Rat × Nat × Nat
  | [], acc => acc
  | xj :: js, acc =>
    farLoopJ fd xi js (if acc.1 < fd xi xj then (fd xi xj, xi, xj) else acc)

/-- outer loop (`for i = 1 .. n-1`); `before` = the elements in front of `xi`, in order -/
def farLoopI (fd : Nat → Nat → Rat) : List Nat → List Nat → Rat × Nat × Nat → Rat × Nat × Nat
  | _, [], acc => acc
  | before, xi :: rest, acc => farLoopI fd (before ++ [xi]) rest (farLoopJ fd xi before acc)

/-- `calculateNormal` on the samples `idx` (in the order of the range): the FIRST pair `(i, j)`, `j < i`,
of maximal distance in loop order; `(positive, negative) = (samples[i], samples[j])`. -/
def farthestPair (fd : Nat → Nat → Rat) (idx : List Nat) : Nat × Nat :=
  match idx with
  | [] => (0, 0)
  | x0 :: rest => let r := farLoopI fd [x0] rest (-1, x0, x0); (r.2.1, r.2.2)

/-- the samples of a cell with more than 25 points: `points[m_size*(2i+1)/50]`, `i = 0..24` -/
def samples25 (idx : List Nat) : List Nat :=
  if idx.length ≤ 25 then idx
  else (List.range 25).map fun i => idx.getD (idx.length * (2 * i + 1) / 50) 0

/-- LC/KHC tree: leaves hold their slice of the index list, inner nodes the pivot pair and the SCALED
threshold (`sqrt(D) * m_threshold`). -/
inductive PTree where
  | leaf (rank : Nat) (idx : List Nat)
  | node (rank : Nat) (pn : Nat × Nat) (thr : Rat) (l r : PTree)
deriving Repr, Inhabited

namespace PTree
def idx : PTree → List Nat
  | leaf _ ix => ix
  | node _ _ _ l r => l.idx ++ r.idx

def nodes : PTree → Nat
  | leaf _ _ => 1
  | node _ _ _ l r => 1 + l.nodes + r.nodes
end PTree

/-- `LCTree::buildTree` / `KHCTree::buildTree` with the pivot choice `pick` (the C++:
`farthestPair` of `samples25` of the range in its current order; that order is left to
`std::nth_element`, so the theorems hold for EVERY `pick`, and the correspondence checks that the real
pivot pair is a farthest pair).  A cell is a leaf when it holds at most `bucket` points or when
`splitList` fails (all projections equal: all points on one hyperplane orthogonal to the pivot
line; with a farthest pair this means all points coincide in the metric). -/
def buildPiv (k : Point → Point → Rat) (P : Nat → Point) (pick : List Nat → Nat × Nat) (bucket : Nat) :
    Nat → Nat → List Nat → PTree
  | 0, _, idx => .leaf 0 idx
  | fuel + 1, depth, idx =>
    if depth = 0 ∨ idx.length ≤ bucket then .leaf 0 idx
    else
      let pn := pick idx
      match splitList (fun i => projVal k P pn (P i)) idx with
      | none => .leaf 0 idx
      | some s => .node 0 pn s.thr (buildPiv k P pick bucket fuel (nextDepth depth) s.left)
                                   (buildPiv k P pick bucket fuel (nextDepth depth) s.right)

/-- `LCTree(dataset, tc)` (`k = dot`) / `KHCTree(points, kernel, tc)` on points `0..n-1` -/
def pivTree (k : Point → Point → Rat) (P : Nat → Point) (pick : List Nat → Nat × Nat)
    (n maxDepth maxBucket : Nat) : PTree :=
  buildPiv k P pick (normBucket maxBucket) (n + 1) (normDepth maxDepth) (List.range n)

/-- the C++ pivot choice on the model's own order of the range -/
def pickFar (k : Point → Point → Rat) (P : Nat → Point) (idx : List Nat) : Nat × Nat :=
  farthestPair (fun i j => featureDist2 k (P i) (P j)) (samples25 idx)

def maxRat (a b : Rat) : Rat := if a < b then b else a

/-- `LCTree/KHCTree::squaredDistanceLowerBound` of the two children of a node, given the bound `acc` of
the node itself: the walk to the root takes the largest positive signed plane distance; squared and in
scaled units that is `v*v/D` for `v = sqrt(D) * distanceFromPlane(q)`.  Left child: counts if `v > 0`;
right child: if `v < 0`. -/
def pivChildBounds (acc v D : Rat) : Rat × Rat :=
  (if 0 < v then maxRat acc (v * v / D) else acc, if v < 0 then maxRat acc (v * v / D) else acc)

/-- LC/KHC tree specialised to a query `q` (ideal arithmetic): lower bounds and `isLeft` decisions. -/
def pivTrace (pq : Bool) (k : Point → Point → Rat) (P : Nat → Point) (q : Point) (dist : Nat → Rat) :
    PTree → Rat → TTree
  | .leaf rank ix, acc => .leaf false acc (leafEntries pq dist rank ix)
  | .node _ pn thr l r, acc =>
    let v := projVal k P pn q - thr
    let b := pivChildBounds acc v (pivD k P pn)
    .node .unq acc (decide (v < 0)) (pivTrace pq k P q dist l b.1) (pivTrace pq k P q dist r b.2)

/-! ## `NearestNeighborModel` -/

/-- arithmetic used by `BaseNearestNeighbor::eval` (instantiated with `Rat` for
the theorems and with `Float` in the driver for the `1/distance` weights) -/
structure Arith (α : Type) where
  zero : α
  add : α → α → α
  div : α → α → α
  lt : α → α → Bool

def ratArith : Arith Rat := { zero := 0, add := (· + ·), div := (· / ·), lt := fun a b => decide (a < b) }

/-- soft output of `BaseNearestNeighbor::eval` for one pattern: per class the sum
of the weights of the neighbours with that label, divided by the sum of all
weights.  `w` maps the reported neighbour key to its weight. -/
def softOutput {α : Type} (A : Arith α) (numClasses : Nat) (w : Rat → α) (nb : List (Rat × Nat)) : List α :=
  let wsum := nb.foldl (fun acc x => A.add acc (w x.1)) A.zero
  (List.range numClasses).map fun c =>
    A.div (nb.foldl (fun acc (x : Rat × Nat) => if x.2 = c then A.add acc (w x.1) else acc) A.zero) wsum

/-- `Classifier`'s arg max (first maximal entry) -/
def argMax {α : Type} (A : Arith α) (v : List α) : Nat :=
  match v with
  | [] => 0
  | x :: xs =>
    (xs.foldl (fun (acc : Nat × α × Nat) y =>
      if A.lt acc.2.1 y then (acc.2.2, y, acc.2.2 + 1) else (acc.1, acc.2.1, acc.2.2 + 1)) (0, x, 1)).1

def predictClass {α : Type} (A : Arith α) (numClasses : Nat) (w : Rat → α) (nb : List (Rat × Nat)) : Nat :=
  argMax A (softOutput A numClasses w nb)

/-- number of neighbours per class (uniform weights, before normalisation) -/
def voteCounts (numClasses : Nat) (nb : List (Rat × Nat)) : List Nat :=
  (List.range numClasses).map fun c => (nb.filter (fun x => x.2 = c)).length

end SharkVerif.NN
