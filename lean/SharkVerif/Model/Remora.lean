/-
Model of the expression layer of remora (include/shark/LinAlg/BLAS).

Core Lean only (no Mathlib): this file is also compiled into the native driver
`drv_c01`, which is run against the real C++ by `checks/c01.py`.

* `VExp R` / `MExp R` — deep embedding of the vector / matrix expression classes
  of `detail/vector_expression_classes.hpp`, `detail/matrix_expression_classes.hpp`
  (one constructor per class, arguments in the order of the C++ constructor)
  plus the proxy operations of `proxy_expressions.hpp` (`range`, `row`, `diag`,
  `trans`, `mrange`, `rows`, reshapes) as constructors.
* `VExp.size / VExp.get`, `MExp.size1 / size2 / get` — the denotation
  `⟦e⟧ = (size, index ↦ R)`; it *is* the documented element-wise definition of
  `docs/.../quickref/remora.rst` (and the `operator()` of each class).
* scalars: any type with `0`, `+`, `*`; element-wise functors are opaque
  functions `R → R`, `R → R → R`.  The driver instantiates `R := Rat`.
* `VRef / MRef` — dense storage proxies (`dense_vector_adaptor`,
  `dense_matrix_adaptor` of dense.hpp): base address, stride / leading dimension,
  orientation tag, and the address arithmetic of the proxy operations.
* `assignLoop` — the element loop of the assignment kernels, on an abstract
  memory with read/write; `assignAlias` (temporary first) / `assignNoalias`.
-/
namespace SharkVerif.Remora

/-- `Σ_{k<n} f k`, summed in index order (the order of the default kernels) -/
def sumTo {R : Type} [Zero R] [Add R] : Nat → (Nat → R) → R
  | 0, _ => 0
  | n+1, f => sumTo n f + f n

/-- left fold of row elements `f(...f(f(x0,x1),x2)...,x_{n-1})` with first element as seed
(`kernels/default/fold_rows.hpp`); `n` = number of elements after the first -/
def foldFrom {R : Type} (f : R → R → R) (x : Nat → R) : Nat → R
  | 0 => x 0
  | n+1 => f (foldFrom f x n) (x (n+1))

mutual
/-- vector expressions -/
inductive VExp (R : Type) where
  /-- container / dense proxy closure: any concrete vector -/
  | lit (n : Nat) (f : Nat → R)
  /-- `vector_scalar_multiply(e, scalar)` : `scalar * e(i)` -/
  | scal (e : VExp R) (a : R)
  /-- `scalar_vector(size, value)` -/
  | const (n : Nat) (a : R)
  /-- `unit_vector(size, index, value)`; the index is a C++ `size_t` that rules compute by
  subtraction, it is kept as an `Int` (no wrap-around below `2^64`) -/
  | unit (n : Nat) (k : Int) (a : R)
  /-- `vector_unary(e, f)` -/
  | unary (e : VExp R) (f : R → R)
  /-- `vector_addition(e1, e2)` -/
  | add (e1 e2 : VExp R)
  /-- `vector_binary(e1, e2, f)` -/
  | binary (e1 e2 : VExp R) (f : R → R → R)
  /-- `vector_concat(e1, e2)` : `e1 | e2` -/
  | concat (e1 e2 : VExp R)
  /-- `matrix_vector_prod(matrix, vector, alpha)` : `alpha * (A v)` -/
  | mvprod (m : MExp R) (v : VExp R) (alpha : R)
  /-- `matrix_row_transform(matrix, f, g)` : `g(fold_f(row i))`; rows without elements give `0`
  (`assign_to` clears the target, the fold kernel then has nothing to add) -/
  | rowFold (m : MExp R) (f : R → R → R) (g : R → R)
  /-- proxy `subrange(e, start, stop)` -/
  | range (e : VExp R) (start stop : Nat)
  /-- proxy `row(m, i)` -/
  | row (m : MExp R) (i : Nat)
  /-- proxy `diag(m)` -/
  | diag (m : MExp R)
  /-- proxy `to_vector(m)` (row-major linearisation) -/
  | linear (m : MExp R)

/-- matrix expressions -/
inductive MExp (R : Type) where
  | lit (n1 n2 : Nat) (f : Nat → Nat → R)
  /-- `matrix_scalar_multiply(e, scalar)` -/
  | scal (m : MExp R) (a : R)
  /-- `matrix_addition(e1, e2)` -/
  | add (m1 m2 : MExp R)
  /-- `vector_repeater<V, Orientation>(e, elements)`; `rowMajor = true`: every *row* is `e` -/
  | rep (v : VExp R) (k : Nat) (rowMajor : Bool)
  /-- `scalar_matrix(size1, size2, value)` -/
  | const (n1 n2 : Nat) (a : R)
  /-- `matrix_unary(e, f)` -/
  | unary (m : MExp R) (f : R → R)
  /-- `matrix_binary(e1, e2, f)` -/
  | binary (m1 m2 : MExp R) (f : R → R → R)
  /-- `outer_product(e1, e2)` -/
  | outer (u v : VExp R)
  /-- `matrix_matrix_prod(lhs, rhs, alpha)` -/
  | mmprod (a b : MExp R) (alpha : R)
  /-- `diagonal_matrix(diagonal)` -/
  | diagm (v : VExp R)
  /-- `matrix_concat<A, B, add_right>(lhs, rhs)`; `right = true`: `A | B`, else `A & B` -/
  | concat (a b : MExp R) (right : Bool)
  /-- proxy `trans(m)` -/
  | trans (m : MExp R)
  /-- proxy `subrange(m, start1, stop1, start2, stop2)` -/
  | range (m : MExp R) (s1 e1 s2 e2 : Nat)
  /-- proxy `rows(m, start, stop)` -/
  | rows (m : MExp R) (s e : Nat)
  /-- proxy `to_matrix(v, size1, size2)` (row-major) -/
  | ofVec (v : VExp R) (n1 n2 : Nat)
end

section Denotation
variable {R : Type} [Zero R] [Add R] [Mul R]

mutual
def VExp.size : VExp R → Nat
  | .lit n _ => n
  | .scal e _ => e.size
  | .const n _ => n
  | .unit n _ _ => n
  | .unary e _ => e.size
  | .add e1 _ => e1.size
  | .binary e1 _ _ => e1.size
  | .concat e1 e2 => e1.size + e2.size
  | .mvprod m _ _ => m.size1
  | .rowFold m _ _ => m.size1
  | .range _ s t => t - s
  | .row m _ => m.size2
  | .diag m => min m.size1 m.size2
  | .linear m => m.size1 * m.size2
def MExp.size1 : MExp R → Nat
  | .lit n1 _ _ => n1
  | .scal m _ => m.size1
  | .add m1 _ => m1.size1
  | .rep v k rm => if rm then k else v.size
  | .const n1 _ _ => n1
  | .unary m _ => m.size1
  | .binary m1 _ _ => m1.size1
  | .outer u _ => u.size
  | .mmprod a _ _ => a.size1
  | .diagm v => v.size
  | .concat a b right => if right then a.size1 else a.size1 + b.size1
  | .trans m => m.size2
  | .range _ s1 e1 _ _ => e1 - s1
  | .rows _ s e => e - s
  | .ofVec _ n1 _ => n1
def MExp.size2 : MExp R → Nat
  | .lit _ n2 _ => n2
  | .scal m _ => m.size2
  | .add m1 _ => m1.size2
  | .rep v k rm => if rm then v.size else k
  | .const _ n2 _ => n2
  | .unary m _ => m.size2
  | .binary m1 _ _ => m1.size2
  | .outer _ v => v.size
  | .mmprod _ b _ => b.size2
  | .diagm v => v.size
  | .concat a b right => if right then a.size2 + b.size2 else a.size2
  | .trans m => m.size1
  | .range _ _ _ s2 e2 => e2 - s2
  | .rows m _ _ => m.size2
  | .ofVec _ _ n2 => n2
end

mutual
def VExp.get : VExp R → Nat → R
  | .lit _ f, i => f i
  | .scal e a, i => a * e.get i
  | .const _ a, _ => a
  | .unit _ k a, i => if (i : Int) = k then a else 0
  | .unary e f, i => f (e.get i)
  | .add e1 e2, i => e1.get i + e2.get i
  | .binary e1 e2 f, i => f (e1.get i) (e2.get i)
  | .concat e1 e2, i => if i < e1.size then e1.get i else e2.get (i - e1.size)
  | .mvprod m v alpha, i => alpha * sumTo m.size2 (fun k => m.get i k * v.get k)
  | .rowFold m f g, i => if m.size2 = 0 then 0 else g (foldFrom f (fun k => m.get i k) (m.size2 - 1))
  | .range e s _, i => e.get (s + i)
  | .row m r, j => m.get r j
  | .diag m, i => m.get i i
  | .linear m, i => m.get (i / m.size2) (i % m.size2)
def MExp.get : MExp R → Nat → Nat → R
  | .lit _ _ f, i, j => f i j
  | .scal m a, i, j => a * m.get i j
  | .add m1 m2, i, j => m1.get i j + m2.get i j
  | .rep v _ rm, i, j => if rm then v.get j else v.get i
  | .const _ _ a, _, _ => a
  | .unary m f, i, j => f (m.get i j)
  | .binary m1 m2 f, i, j => f (m1.get i j) (m2.get i j)
  | .outer u v, i, j => u.get i * v.get j
  | .mmprod a b alpha, i, j => alpha * sumTo a.size2 (fun k => a.get i k * b.get k j)
  | .diagm v, i, j => if i = j then v.get i else 0
  | .concat a b right, i, j =>
      if right then (if j < a.size2 then a.get i j else b.get i (j - a.size2))
      else (if i < a.size1 then a.get i j else b.get (i - a.size1) j)
  | .trans m, i, j => m.get j i
  | .range m s1 _ s2 _, i, j => m.get (s1 + i) (s2 + j)
  | .rows m s _, i, j => m.get (s + i) j
  | .ofVec v _ n2, i, j => v.get (i * n2 + j)
end

/- well-formedness = the size checks (`REMORA_SIZE_CHECK` / `REMORA_RANGE_CHECK`) the C++
constructors and proxy functions state for their arguments -/
mutual
def VExp.WF : VExp R → Prop
  | .lit _ _ => True
  | .scal e _ => e.WF
  | .const _ _ => True
  | .unit _ _ _ => True
  | .unary e _ => e.WF
  | .add e1 e2 => e1.WF ∧ e2.WF ∧ e1.size = e2.size
  | .binary e1 e2 _ => e1.WF ∧ e2.WF ∧ e1.size = e2.size
  | .concat e1 e2 => e1.WF ∧ e2.WF
  | .mvprod m v _ => m.WF ∧ v.WF ∧ m.size2 = v.size
  | .rowFold m _ _ => m.WF ∧ 0 < m.size2
  | .range e s t => e.WF ∧ s ≤ t ∧ t ≤ e.size
  | .row m i => m.WF ∧ i < m.size1
  | .diag m => m.WF ∧ m.size1 = m.size2
  | .linear m => m.WF
def MExp.WF : MExp R → Prop
  | .lit _ _ _ => True
  | .scal m _ => m.WF
  | .add m1 m2 => m1.WF ∧ m2.WF ∧ m1.size1 = m2.size1 ∧ m1.size2 = m2.size2
  | .rep v _ _ => v.WF
  | .const _ _ _ => True
  | .unary m _ => m.WF
  | .binary m1 m2 _ => m1.WF ∧ m2.WF ∧ m1.size1 = m2.size1 ∧ m1.size2 = m2.size2
  | .outer u v => u.WF ∧ v.WF
  | .mmprod a b _ => a.WF ∧ b.WF ∧ a.size2 = b.size1
  | .diagm v => v.WF
  | .concat a b right => a.WF ∧ b.WF ∧ (if right then a.size1 = b.size1 else a.size2 = b.size2)
  | .trans m => m.WF
  | .range m s1 e1 s2 e2 => m.WF ∧ s1 ≤ e1 ∧ e1 ≤ m.size1 ∧ s2 ≤ e2 ∧ e2 ≤ m.size2
  | .rows m s e => m.WF ∧ s ≤ e ∧ e ≤ m.size1
  | .ofVec v n1 n2 => v.WF ∧ n1 * n2 = v.size
end

/-- the denotation as a pair (used by the property statements) -/
def VExp.den (e : VExp R) : Nat × (Nat → R) := (e.size, e.get)
def MExp.den (e : MExp R) : Nat × Nat × (Nat → Nat → R) := (e.size1, e.size2, e.get)

/-- the elements as a list (what the driver prints) -/
def VExp.toList (e : VExp R) : List R := (List.range e.size).map e.get
def MExp.toRows (e : MExp R) : List (List R) :=
  (List.range e.size1).map fun i => (List.range e.size2).map fun j => e.get i j

/-! reductions (vector_expression.hpp / matrix_expression.hpp) -/
def VExp.sum (e : VExp R) : R := sumTo e.size e.get
def VExp.inner (a b : VExp R) : R := sumTo a.size (fun i => a.get i * b.get i)
def MExp.sum (m : MExp R) : R := sumTo m.size1 (fun i => sumTo m.size2 (fun j => m.get i j))
def MExp.trace (m : MExp R) : R := sumTo m.size1 (fun i => m.get i i)

end Denotation

/-! ## dense storage: address arithmetic of containers and dense proxies (dense.hpp) -/

/-- `dense_vector_adaptor`: element `i` lives at `base + i*stride` -/
structure VRef where
  base : Nat
  stride : Nat
  size : Nat
  deriving Repr, DecidableEq

/-- `dense_matrix_adaptor`: `rowMajor`: element `(i,j)` at `base + i*ld + j`, else `base + j*ld + i` -/
structure MRef where
  base : Nat
  ld : Nat
  size1 : Nat
  size2 : Nat
  rowMajor : Bool
  deriving Repr, DecidableEq

def VRef.addr (v : VRef) (i : Nat) : Nat := v.base + i * v.stride
def MRef.addr (m : MRef) (i j : Nat) : Nat :=
  if m.rowMajor then m.base + i * m.ld + j else m.base + j * m.ld + i

/-- a freshly allocated container -/
def VRef.container (base n : Nat) : VRef := ⟨base, 1, n⟩
def MRef.container (base n1 n2 : Nat) (rowMajor : Bool) : MRef :=
  ⟨base, if rowMajor then n2 else n1, n1, n2, rowMajor⟩

/-- `vector_range_optimizer<dense_vector_adaptor>` -/
def VRef.range (v : VRef) (s t : Nat) : VRef := ⟨v.base + s * v.stride, v.stride, t - s⟩
/-- `matrix_transpose_optimizer<dense_matrix_adaptor>`: same storage, flipped orientation -/
def MRef.trans (m : MRef) : MRef := ⟨m.base, m.ld, m.size2, m.size1, !m.rowMajor⟩
/-- `matrix_row_optimizer<dense_matrix_adaptor>` -/
def MRef.row (m : MRef) (i : Nat) : VRef :=
  if m.rowMajor then ⟨m.base + i * m.ld, 1, m.size2⟩ else ⟨m.base + i, m.ld, m.size2⟩
def MRef.column (m : MRef) (j : Nat) : VRef := m.trans.row j
/-- `matrix_range_optimizer<dense_matrix_adaptor>` -/
def MRef.range (m : MRef) (s1 e1 s2 e2 : Nat) : MRef :=
  ⟨m.addr s1 s2, m.ld, e1 - s1, e2 - s2, m.rowMajor⟩
def MRef.rows (m : MRef) (s e : Nat) : MRef := m.range s e 0 m.size2
def MRef.columns (m : MRef) (s e : Nat) : MRef := ((m.trans).rows s e).trans
/-- `matrix_diagonal_optimizer<dense_matrix_adaptor>` -/
def MRef.diag (m : MRef) : VRef := ⟨m.base, m.ld + 1, min m.size1 m.size2⟩
/-- `linearized_matrix_optimizer` (only for contiguous storage, `ld = minor size`): the
linearisation follows the *storage* order -/
def MRef.linear (m : MRef) : VRef := ⟨m.base, 1, m.size1 * m.size2⟩
/-- `vector_to_matrix_optimizer` (row-major reshape of a stride-1 vector) -/
def VRef.toMatrix (v : VRef) (n1 n2 : Nat) : MRef := ⟨v.base, n2, n1, n2, true⟩

/-- reading a dense proxy out of a memory `rd : address → R` gives a literal expression -/
def VRef.read {R : Type} (v : VRef) (rd : Nat → R) : VExp R := .lit v.size (fun i => rd (v.addr i))
def MRef.read {R : Type} (m : MRef) (rd : Nat → R) : MExp R :=
  .lit m.size1 m.size2 (fun i j => rd (m.addr i j))

/-! ## assignment kernels -/

/-- abstract memory -/
structure MemOps (σ R : Type) where
  rd : σ → Nat → R
  wr : σ → Nat → R → σ

/-- function memory (the instance the theorems are checked non-vacuous on) -/
def funMem (R : Type) : MemOps (Nat → R) R where
  rd := fun s a => s a
  wr := fun s a v => fun b => if b = a then v else s b

/-- the element loop of `kernels::assign(x, e, f)` run *in place*: for every element index
`i` of the target, in the order `idxs`, `x(i) ← f(x(i), e(i))`, where `e` is evaluated on
the *current* memory (no temporary).  `addr` is the target proxy's index → address map. -/
def assignLoop {σ R : Type} (ops : MemOps σ R) (f : R → R → R) (addr : Nat → Nat)
    (e : σ → Nat → R) (idxs : List Nat) (s : σ) : σ :=
  idxs.foldl (fun s i => ops.wr s (addr i) (f (ops.rd s (addr i)) (e s i))) s

/-- `noalias(x) op= e` -/
def assignNoalias {σ R : Type} (ops : MemOps σ R) (f : R → R → R) (addr : Nat → Nat)
    (e : σ → Nat → R) (idxs : List Nat) (s : σ) : σ :=
  assignLoop ops f addr e idxs s

/-- `x op= e`: the right-hand side is evaluated on the old memory into a temporary first
(`assignment.hpp`: `typename vector_temporary<E>::type temporary(e); assign(x, temporary)`) -/
def assignAlias {σ R : Type} (ops : MemOps σ R) (f : R → R → R) (addr : Nat → Nat)
    (e : σ → Nat → R) (idxs : List Nat) (s : σ) : σ :=
  let temp : Nat → R := e s
  assignLoop ops f addr (fun _ => temp) idxs s

/-- element orders of the dense kernels: row-major sweep and column-major sweep of an
`n1 × n2` target whose elements are numbered `i*n2+j` -/
def rowSweep (n1 n2 : Nat) : List Nat := List.range (n1 * n2)
def colSweep (n1 n2 : Nat) : List Nat :=
  (List.range n2).flatMap fun j => (List.range n1).map fun i => i * n2 + j

/-! ## blocked / tiled kernels (`kernels/default/fold_rows.hpp`, `kernels/cblas/dense_gemm.hpp`,
`kernels/default/dense_gemm.hpp`): the index arithmetic of the blocking, as executable functions -/

/-- column-major `fold_rows` kernel: the rows are processed in blocks of `bs` accumulators
(`BLOCK_SIZE = 16`); accumulator `i` of block `b` belongs to row `b*bs + i`, is seeded with that
row's first element and folds the columns `1 .. n2-1`.  This is entry `r` of the result. -/
def foldRowsBlocked {R : Type} (f : R → R → R) (g : R → R) (get : Nat → Nat → R) (n2 bs : Nat)
    (r : Nat) : R :=
  let b := r / bs
  let i := r % bs
  let start := b * bs
  g (foldFrom f (fun k => get (start + i) k) (n2 - 1))

/-- a left fold over `x 0 .. x n` that starts from a seed value instead of the first element
(NOT what the kernels do; kept to state that the first-element seed matters) -/
def foldSeeded {R : Type} (f : R → R → R) (seed : R) (x : Nat → R) : Nat → R
  | 0 => f seed (x 0)
  | n+1 => f (foldSeeded f seed x n) (x (n+1))

/-- the tiled inner dimension of the BLAS fallback `dense_gemm(A,B,C,alpha,false_type)` and of the
default block gemm (`KC`): tile `b` starts at `b*T` and has `min T (K - b*T)` columns; there are
`⌈K/T⌉` tiles; every tile contributes the partial sum over its columns -/
def sumTiled {R : Type} [Zero R] [Add R] (T K : Nat) (f : Nat → R) : R :=
  sumTo ((K + T - 1) / T) (fun b => sumTo (min T (K - b * T)) (fun k => f (b * T + k)))

/-- first and last address a (non-empty) strided proxy touches -/
def VRef.first (v : VRef) : Nat := v.base
def VRef.last (v : VRef) : Nat := v.base + (v.size - 1) * v.stride

/-- the assignment forms: `x(i) ← f(x(i), e(i))` -/
inductive Form where
  | set | plus | minus | times | divide
  deriving Repr, DecidableEq

end SharkVerif.Remora
