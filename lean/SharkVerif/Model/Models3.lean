/-
Property C04, third model file (core Lean only, over the `Scalar` interface):

* `Net` — *nested* `ConcatenatedModel`s: a layer of a `ConcatenatedModel` may itself be a
  `ConcatenatedModel` that is added optimised or frozen.  `Net.numberOfParameters/params/setParams/
  evalB/backward` follow the C++ recursion (each model slices the vector among its optimised
  children); `Net.flatten` is the equivalent flat `Chain` (a layer is optimised iff its own flag and
  the flags of all enclosing models are set).
* the *separate* routines of `ConcatenatedModel`: `Chain.evalFold` (`eval` without a `State`: a fold
  that keeps no intermediates), `Chain.inputOnly` (`weightedInputDerivative`), `Chain.gradOnly`
  (`weightedParameterDerivative`, which skips the input derivative of the first layer).
* the index map of `im2mat` / `im2mat_pad` + `gemm` (`blas::kernels::conv2d`) as `Conv.im2matEntry`,
  `Conv.gemmOut`, `Conv.evalImpl`.
* `OneVersusOneClassifier`, `CARTree` (array of nodes built by `createRoot` / `transformInternalNode`
  / `transformLeafNode`), `Centroids` with the soft / hard clustering models.
-/
import SharkVerif.Model.Models2
namespace SharkVerif.Models
open Scalar
variable {α : Type} [Scalar α]

/-! ### nested `ConcatenatedModel`s -/
/-- `leaf l`: a plain layer; `nil` / `cons child optimise rest`: a `ConcatenatedModel` given by the list of its
(child, optimise flag) pairs -/
inductive Net (α : Type) where
  | leaf (l : Layer α)
  | nil
  | cons (child : Net α) (opt : Bool) (rest : Net α)

namespace Net
/-- `numberOfParameters()`: the sum over the optimised children of *their* `numberOfParameters()` -/
def numberOfParameters : Net α → Nat
  | leaf l => l.numberOfParameters
  | nil => 0
  | cons ch opt rest => (if opt then ch.numberOfParameters else 0) + rest.numberOfParameters
/-- `parameterVector()`: the vectors of the optimised children, in order -/
def params : Net α → List α
  | leaf l => l.params
  | nil => []
  | cons ch opt rest => (if opt then ch.params else []) ++ rest.params
/-- `setParameterVector`: every optimised child takes the next `numberOfParameters()` entries -/
def setParams : Net α → List α → Net α
  | leaf l, p => leaf (l.setParams (p.take l.numberOfParameters))
  | nil, _ => nil
  | cons ch true rest, p =>
    cons (ch.setParams (p.take ch.numberOfParameters)) true (rest.setParams (p.drop ch.numberOfParameters))
  | cons ch false rest, p => cons ch false (rest.setParams p)
def evalB (tanh exp : α → α) : Net α → (Nat → Nat → α) → Nat → Nat → α
  | leaf l, X => l.evalB tanh exp X
  | nil, X => X
  | cons ch _ rest, X => rest.evalB tanh exp (ch.evalB tanh exp X)
/-- backward pass with the C++ recursion: the children of a model are visited last first; an optimised child
delivers its whole gradient vector (`weightedDerivatives` of the child), a frozen one only its input derivative -/
def backward (tanh exp : α → α) (B : Nat) : Net α → (X coeff : Nat → Nat → α) → List α × (Nat → Nat → α)
  | leaf l, X, coeff => let o := l.evalB tanh exp X; (l.gradParams B X o coeff, l.gradX X o coeff)
  | nil, _, coeff => ([], coeff)
  | cons ch opt rest, X, coeff =>
    let o := ch.evalB tanh exp X
    let r := rest.backward tanh exp B o coeff
    let c := ch.backward tanh exp B X r.2
    ((if opt then c.1 else []) ++ r.1, c.2)
/-- the flat chain: a layer is optimised iff `en` (all enclosing flags) and its own flag are set -/
def flatten : Net α → Bool → Chain α
  | leaf l, en => [(l, en)]
  | nil, _ => []
  | cons ch opt rest, en => ch.flatten (en && opt) ++ rest.flatten en
end Net

/-! ### the separate routines of `ConcatenatedModel` -/
namespace Chain
/-- `eval(patterns, outputs)` without `State`: `swap(intermediates, outputs); layer.eval(intermediates, outputs)` -/
def evalFold (tanh exp : α → α) (c : Chain α) (X : Nat → Nat → α) : Nat → Nat → α :=
  c.foldl (fun Y l => l.1.evalB tanh exp Y) X
/-- `weightedInputDerivative`: every layer's own `weightedInputDerivative`, last layer first -/
def inputOnly (tanh exp : α → α) : Chain α → (X coeff : Nat → Nat → α) → Nat → Nat → α
  | [], _, coeff => coeff
  | (l, _) :: rest, X, coeff =>
    let o := l.evalB tanh exp X
    l.gradX X o (inputOnly tanh exp rest o coeff)
/-- `weightedParameterDerivative`: like the combined call, but the first layer's input derivative is not computed -/
def gradOnly (tanh exp : α → α) (B : Nat) : Chain α → (X coeff : Nat → Nat → α) → List α
  | [], _, _ => []
  | (l, opt) :: rest, X, coeff =>
    let o := l.evalB tanh exp X
    (if opt then l.gradParams B X o (inputOnly tanh exp rest o coeff) else []) ++ gradOnly tanh exp B rest o coeff
end Chain

/-! ### `blas::kernels::conv2d`: `im2mat(_pad)` followed by `gemm` -/
namespace Conv
/-- entry (`row`, `col`) of the patch matrix written by `im2mat_pad` (by `im2mat` when there is no padding),
with the branch structure of the C++: the whole filter row lies in the padding above/below; the column lies in
the padding left/right; otherwise the image entry.  `row = i*outW + j`, `col = (i1*fw + j1)*c + channel`. -/
def im2matEntry (m : Conv α) (x : Nat → α) (row col : Nat) : α :=
  let i := row / m.outW
  let j := row % m.outW
  let i1 := col / (m.fw * m.c)
  let j1 := (col / m.c) % m.fw
  let ch := col % m.c
  let start1 := m.padH / 2
  let start2 := m.padW / 2
  if i1 + i < start1 ∨ m.h + start1 ≤ i1 + i then 0
  else if j + j1 < start2 ∨ m.w + start2 ≤ j + j1 then 0
  else x (((i + i1 - start1) * m.w + (j + j1 - start2)) * m.c + ch)
/-- `gemm(image_transformed, trans(filter_transformed), output_transformed, 1.0)` on the cleared output:
entry (`row`, `f`) -/
def gemmOut (m : Conv α) (x : Nat → α) (row f : Nat) : α :=
  sumR m.fsize fun t => m.im2matEntry x row t * m.filt (f * m.fsize + t)
/-- `Conv2DModel::eval`: the kernel, `+= repeat(m_offset, …)` on the reshaped outputs, the activation;
flat output index `o = row*nf + f` -/
def evalImpl (tanh : α → α) (m : Conv α) (x : Nat → α) (o : Nat) : α :=
  m.act.eval tanh (m.gemmOut x (o / m.nf) (o % m.nf) + m.off (o % m.nf))
end Conv

/-! ### `OneVersusOneClassifier` -/
/-- position of the binary classifier "class `c` against class `e`" (`e < c`) in `m_binary` -/
def ovoIndex (c e : Nat) : Nat := c * (c - 1) / 2 + e
/-- the classes voted for, one per binary classifier: answer 0 votes for `e`, any other answer for `c` -/
def ovoBallots (classes : Nat) (bin : Nat → Nat) : List Nat :=
  (List.range classes).flatMap fun c => (List.range c).map fun e => if bin (ovoIndex c e) = 0 then e else c
def ovoVotes (classes : Nat) (bin : Nat → Nat) (k : Nat) : Nat := (ovoBallots classes bin).count k
/-- `for c in 1..classes: if votes(c) > votes(output) then output = c` -/
def argmaxNat (n : Nat) (v : Nat → Nat) : Nat :=
  (List.range n).foldl (fun best k => if v best < v k then k else best) 0
def ovoDecide (classes : Nat) (bin : Nat → Nat) : Nat := argmaxNat classes (ovoVotes classes bin)

/-! ### `CARTree<unsigned int>` -/
structure TNode (α : Type) where
  attr : Nat
  thr : α
  left : Nat
  /-- id of the right child, or (in a leaf) index into the label array -/
  right : Nat

structure Tree (α : Type) where
  nodes : List (TNode α)
  labels : List Nat

namespace Tree
/-- `createRoot()` -/
def root : Tree α := { nodes := [{ attr := 0, thr := 0, left := 0, right := 0 }], labels := [] }
def setNode (t : Tree α) (id : Nat) (nd : TNode α) : List (TNode α) := t.nodes.set id nd
/-- `transformInternalNode(id, attribute, value)`: two fresh leaves are appended -/
def internal (t : Tree α) (id attr : Nat) (thr : α) : Tree α :=
  let n := t.nodes.length
  let fresh : TNode α := { attr := 0, thr := 0, left := 0, right := 0 }
  { t with nodes := (t.nodes ++ [fresh, fresh]).set id { attr := attr, thr := thr, left := n, right := n + 1 } }
/-- `transformLeafNode(id, label)` -/
def leaf (t : Tree α) (id label : Nat) : Tree α :=
  { nodes := t.nodes.set id { attr := 0, thr := 0, left := 0, right := t.labels.length }, labels := t.labels ++ [label] }
def node (t : Tree α) (id : Nat) : TNode α := t.nodes.getD id { attr := 0, thr := 0, left := 0, right := 0 }
/-- `findLeaf`: `while(leftId != 0) node = x[attr] <= value ? leftId : rightId` (at most `fuel` steps) -/
def findLeaf (t : Tree α) (x : Nat → α) : Nat → Nat → Nat
  | 0, id => id
  | fuel + 1, id =>
    let nd := t.node id
    if nd.left = 0 then id else findLeaf t x fuel (if x nd.attr ≤ nd.thr then nd.left else nd.right)
/-- `evalPattern` -/
def eval (t : Tree α) (x : Nat → α) : Nat := t.labels.getD (t.node (t.findLeaf x t.nodes.length 0)).right 0
def evalB (t : Tree α) (X : Nat → Nat → α) (i : Nat) : Nat := t.eval (X i)
end Tree

/-! ### `Centroids` + `SoftClusteringModel` / `HardClusteringModel` -/
/-- `sqrt(distanceSqr(x, centroid))` -/
def centroidDist (sqrt : α → α) (n : Nat) (x c : Nat → α) : α := sqrt (sumR n fun j => sqr (x j - c j))
/-- `Centroids::membershipKernel`: `dist < 1e-100 ? 1e100 : 1/dist` -/
def membershipKernel (tiny huge : α) (d : α) : α := if d < tiny then huge else 1 / d
/-- `softMembership`: kernel values divided by their sum -/
def softMembership (sqrt : α → α) (tiny huge : α) (nIn nC : Nat) (cen : Nat → Nat → α) (x : Nat → α) (k : Nat) : α :=
  let m := fun q => membershipKernel tiny huge (centroidDist sqrt nIn x (cen q))
  m k / sumR nC m
/-- `hardMembership`: `std::max_element` of the soft memberships -/
def hardMembership (sqrt : α → α) (tiny huge : α) (nIn nC : Nat) (cen : Nat → Nat → α) (x : Nat → α) : Nat :=
  argmax nC (softMembership sqrt tiny huge nIn nC cen x)

/-! ### `DropoutLayer`, given the mask it drew -/
/-- `DropoutLayer` for a given mask (the 0/1 matrix drawn by `eval` and kept in the `State`): `inputs * mask` -/
def dropoutEval {α : Type} [Scalar α] (mask X : ℕ → ℕ → α) (i k : ℕ) : α := X i k * mask i k
/-- `weightedInputDerivative`: `coefficients * mask` -/
def dropoutGradX {α : Type} [Scalar α] (mask coeff : ℕ → ℕ → α) (i k : ℕ) : α := coeff i k * mask i k


end SharkVerif.Models
