/-
Executable model of `TrustRegionNewton` (`src/Algorithms/GradientDescent/TrustRegionNewton.cpp`, property C10):
`borderDistance`, `errorDifference`, the CG–Steihaug sub-problem solver `trustRegionCG`, `init` and `step`
(forcing schedule, radius update, acceptance rule).  Core Lean only; `sqrt` is a parameter; the Hessian of the
objective is a parameter (`Objective` has none).
-/
import SharkVerif.Model.GradOpt
namespace SharkVerif.Opt
variable {α : Type} [Scalar α]

namespace TR

/-- `borderDistance(z, direction, delta)`: the `tau ≥ 0` with `‖z + tau·d‖ = delta` by the p-q formula -/
def borderDistance (sqrt : α → α) (z d : Vec α) (delta : α) : α :=
  let z2 := Vec.normSqr z
  let d2 := Vec.normSqr d
  let p := Scalar.two * Vec.dot d z / d2
  let q := (z2 - delta * delta) / d2
  (-p) / Scalar.two + sqrt ((p / Scalar.two) * (p / Scalar.two) - q)

/-- `errorDifference(step, residual, gradient)` = model value change `m(step) - m(0)` -/
def errorDifference (step residual gradient : Vec α) : α :=
  (Vec.dot residual step + Vec.dot gradient step) / Scalar.two

/-- loop-carried variables of `trustRegionCG` -/
structure CGSt (α : Type) where
  step : Vec α
  residual : Vec α
  direction : Vec α
  normRes2 : α

/-- the boundary exit of `trustRegionCG`: go to the border of the trust region along `direction` -/
def toBorder (sqrt : α → α) (g : Vec α) (delta : α) (s : CGSt α) (Hdir : Vec α) : α × Vec α :=
  let tau := borderDistance sqrt s.step s.direction delta
  let step := Vec.axpy s.step tau s.direction
  let residual := Vec.axpy s.residual tau Hdir
  (errorDifference step residual g, step)

/-- the `for` loop of `trustRegionCG` (`fuel` = `10·n` iterations) -/
def cgLoop (sqrt : α → α) (H : Mat α) (g : Vec α) (tol delta : α) : Nat → CGSt α → α × Vec α
  | 0, s => (Scalar.zero, s.step)                 -- `return solution` with `solution.first` still 0
  | k+1, s =>
    let Hdir := Mat.mulVec H s.direction
    let normH := Vec.dot s.direction Hdir
    if normH ≤ Scalar.zero then toBorder sqrt g delta s Hdir else
    let alpha := s.normRes2 / normH
    if delta * delta ≤ Vec.normSqr (Vec.axpy s.step alpha s.direction) then toBorder sqrt g delta s Hdir else
    let step := Vec.axpy s.step alpha s.direction
    let residual := Vec.axpy s.residual alpha Hdir
    let nr := Vec.normSqr residual
    if nr < tol * tol then (errorDifference step residual g, step) else
    let beta := nr / s.normRes2
    cgLoop sqrt H g tol delta k ⟨step, residual, Vec.sub (Vec.smul beta s.direction) residual, nr⟩

/-- `trustRegionCG(hessian, gradient, tolerance, delta)` → (predicted change of the model, step) -/
def trustRegionCG (sqrt : α → α) (H : Mat α) (g : Vec α) (tol delta : α) : α × Vec α :=
  let cur := Vec.normSqr g
  if cur < tol * tol then (Scalar.zero, Vec.zeros g.length)
  else cgLoop sqrt H g tol delta (10 * g.length) ⟨Vec.zeros g.length, g, Vec.neg g, cur⟩

end TR

structure TRN (α : Type) where
  delta : α
  minImprovementRatio : α
  best : Best α
  gradient : Vec α
  hessian : Mat α

namespace TRN

/-- `TrustRegionNewton::init(f, x0, initialDelta)` -/
def init (o : Objective α) (hess : Vec α → Mat α) (x0 : Vec α) (delta0 : α) : TRN α :=
  { delta := delta0, minImprovementRatio := Scalar.ofRat (1/10), best := ⟨x0, o.f x0⟩, gradient := o.grad x0, hessian := hess x0 }

/-- the sub-problem `step` solves: forcing schedule `gamma = min(0.5, sqrt‖g‖)`, tolerance `gamma·‖g‖` -/
def subproblem (sqrt : α → α) (s : TRN α) : α × Vec α :=
  let gn := sqrt (Vec.normSqr s.gradient)
  let gamma := Scalar.min Scalar.half (sqrt gn)
  TR.trustRegionCG sqrt s.hessian s.gradient (gamma * gn) s.delta

/-- `TrustRegionNewton::step` -/
def step (sqrt : α → α) (o : Objective α) (hess : Vec α → Mat α) (s : TRN α) : TRN α :=
  let sol := subproblem sqrt s
  if Scalar.beq sol.1 Scalar.zero then s else
  let pt := Vec.add s.best.point sol.2
  let newValue := o.f pt
  let rho := (newValue - s.best.value) / sol.1
  let delta :=
    if rho < Scalar.ofRat (1/4) then s.delta / Scalar.ofRat 4
    else if decide (Scalar.ofRat (3/4) < rho) && decide (Scalar.ofRat (99/100) * (s.delta * s.delta) < Vec.normSqr sol.2)
      then s.delta * Scalar.two
    else s.delta
  if s.minImprovementRatio ≤ rho then
    { s with delta := delta, best := ⟨pt, o.f pt⟩, gradient := o.grad pt, hessian := hess pt }
  else { s with delta := delta }

end TRN
end SharkVerif.Opt
