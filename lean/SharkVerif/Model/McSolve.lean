/-
Model of the decomposition loop `shark::QpSolver<Problem>::solve` (include/shark/Algorithms/QP/QpSolver.h)
instantiated with `Problem = QpMcBoxDecomp<Matrix>` (`Model/McSmo.lean`):

    for(;;){
        if (iter == stop.maxIterations) { type = QpMaxIterationsReached; break; }
        i = j = 0;  acc = selectWorkingSet(i, j);
        if (acc < stop.minAccuracy) {
            unshrink();
            if (checkKKT() < stop.minAccuracy) { type = QpAccuracyReached; break; }
            shrink(stop.minAccuracy);  selectWorkingSet(i, j);          // i, j keep their values if the violation is 0
        }
        updateSMO(i, j);
        if (shrinkCounter == 0 && shrink(stop.minAccuracy)) shrinkCounter = max(1000, dimensions());
        iter++;  shrinkCounter--;                                       // unsigned long long: 0 - 1 wraps
    }
    accuracy = selectWorkingSet(i, j)   (with i = j = 0)

The time limit (`maxSeconds`, default 1e100 = off) is not modelled.  `updateSMO(i,j)` has the precondition
`i, j < m_activeVar` (a SIZE_CHECK that is compiled out under NDEBUG): the model stops with `StopType.stuck`
if it is violated (`solve_never_stuck`, Lemmas/McSolve.lean: it never is, for a positive accuracy).
Same operations in the same order as the C++ (Float instance bit-comparable); core Lean only.
-/
import SharkVerif.Model.McSmo
namespace SharkVerif.Mc

variable {α : Type} [Add α] [Sub α] [Mul α] [Div α] [Neg α] [NatCast α] [OfScientific α]
  [LT α] [LE α] [DecidableLT α] [DecidableLE α] [BEq α]

/-- `QpStopType` as far as the loop sets it (`running`: the loop has not ended; `stuck`: precondition of
`updateSMO` violated — undefined behaviour in the C++) -/
inductive StopType where
  | running | accuracy | maxIter | stuck
  deriving DecidableEq, Repr

namespace McBox

/-- `selectWorkingSet(i, j)` for arbitrary values of `i`, `j` on entry (they are left alone when the
maximal violation is zero) -/
def selectWorkingSetFrom (s : McBox α) (i0 j0 : Nat) : Nat × Nat × α :=
  let r := s.selectFirst
  if r.2 == (0.0 : α) then (i0, j0, r.2) else (r.1, s.selectSecond r.1, r.2)

/-- `checkKKT()` (the same loop as the head of `shrink`) -/
def checkKKT (s : McBox α) : α := s.maxViolation

end McBox

/-- the loop state of `QpSolver::solve` -/
structure SolveSt (α : Type) where
  s : McBox α
  iter : Nat
  shrinkCounter : Nat
  stop : StopType

/-- second half of the loop body: `updateSMO(i,j)`, periodic shrinking, counters -/
def solveTail (eps : α) (st : SolveSt α) (i j : Nat) : SolveSt α :=
  let s := st.s
  if i < s.activeVar ∧ j < s.activeVar then
    let s1 := s.updateSMO i j
    -- `if(shrinkCounter == 0 && m_problem.shrink(eps)) shrinkCounter = max(1000, dimensions())`
    let r : McBox α × Nat :=
      if st.shrinkCounter = 0 then
        let q := s1.shrink eps
        (q.1, if q.2 then (if 1000 < s1.numVars then s1.numVars else 1000) else 0)
      else (s1, st.shrinkCounter)
    { s := r.1, iter := st.iter + 1, shrinkCounter := usub64 r.2 1, stop := .running }
  else { st with stop := .stuck }

/-- one pass through the body of the decomposition loop (after the `maxIterations` test) -/
def solveBody (eps : α) (st : SolveSt α) : SolveSt α :=
  let s := st.s
  let sel := s.selectWorkingSetFrom 0 0
  if sel.2.2 < eps then
    let s1 := s.unshrink
    if s1.checkKKT < eps then { st with s := s1, stop := .accuracy }
    else
      let s2 := (s1.shrink eps).1
      let sel2 := s2.selectWorkingSetFrom sel.1 sel.2.1
      solveTail eps { st with s := s2 } sel2.1 sel2.2.1
  else solveTail eps st sel.1 sel.2.1

/-- the decomposition loop; `fuel` = number of passes still allowed by `stop.maxIterations` -/
def solveLoop (eps : α) : Nat → SolveSt α → SolveSt α
  | 0, st => { st with s := st.s.unshrink, stop := .maxIter }   -- `m_problem.unshrink()` after the loop (repair of F-C07-8)
  | fuel + 1, st =>
    let st' := solveBody eps st
    if st'.stop = .running then solveLoop eps fuel st' else st'

/-- the same loop with a re-tabulation `norm` of the state after every pass: what the native driver runs
(`norm` = rebuild the vectors as arrays, the identity on the valid index ranges); `solveLoopWith id = solveLoop`
(`solveLoopWith_id`, Lemmas/McSolve.lean) -/
def solveLoopWith (norm : McBox α → McBox α) (eps : α) : Nat → SolveSt α → SolveSt α
  | 0, st => { st with s := st.s.unshrink, stop := .maxIter }   -- `m_problem.unshrink()` after the loop (repair of F-C07-8)
  | fuel + 1, st =>
    let st' := solveBody eps st
    let st' := { st' with s := norm st'.s }
    if st'.stop = .running then solveLoopWith norm eps fuel st' else st'

/-- `QpSolver<QpMcBoxDecomp>(problem).solve(stop, &prop)` with `stop.minAccuracy = eps`,
`stop.maxIterations = maxIter` -/
def solve (s : McBox α) (eps : α) (maxIter : Nat) : SolveSt α :=
  solveLoop eps maxIter { s := s, iter := 0, shrinkCounter := 0, stop := .running }

/-- `prop->accuracy` as filled in after the loop -/
def SolveSt.accuracy (st : SolveSt α) : α := (st.s.selectWorkingSetFrom 0 0).2.2

end SharkVerif.Mc
