/-
Executable model of the *blocked* triangular solver of remora,
`trsm_recursive` in `LinAlg/BLAS/kernels/default/trsm.hpp` (lines 225-286), and of the blocked
Cholesky factorisation built on it, `potrf_recursive` in `kernels/default/potrf.hpp`
(second half of this file).

The real kernel never runs the unblocked substitution loop on more than
`Block_Size = 32` rows: for larger systems it splits the index range
`[start, end)` at `split = numBlocks / 2 * Block_Size`
(`numBlocks = (size + Block_Size - 1) / Block_Size`), solves one half
recursively, removes its contribution from the other half with a `gemm`
(`alpha = -1`) and solves the other half recursively.  `Model/LinSolve.lean`
describes the unblocked loop only; this file models the recursion itself, with
the block size as a parameter `bs` (the C++ value is 32), so that
`Lemmas/LinSolveBlocked.lean` (and `Lemmas/LinSolveBlockedChol.lean` for `potrf`) can prove
that the blocking does not change the result, for every block size.

Core Lean only (no Mathlib): compiled into the native driver.

The right-hand side that the C++ updates in place is a materialised
`n × m` matrix (`Arr2`, entry `(i,k)` = `mget X i k`, row = index of the
system, column = right-hand side).
-/
import SharkVerif.Model.LinSolve
namespace SharkVerif.LinSolve

/-- `numBlocks = (size+Block_Size-1)/Block_Size; split = numBlocks/2*Block_Size` -/
def trsmSplit (bs size : Nat) : Nat := (size + bs - 1) / bs / 2 * bs

/-- Both halves of the split are proper: this is what makes the recursion terminate
(and what makes it a recursion at all). -/
theorem split_lt {bs size : Nat} (hbs : 1 ≤ bs) (h : bs < size) :
    0 < trsmSplit bs size ∧ trsmSplit bs size < size := by
  unfold trsmSplit
  have hq2 : 2 ≤ (size + bs - 1) / bs := by
    rw [Nat.le_div_iff_mul_le (by omega)]; omega
  have h1 : (size + bs - 1) / bs * bs ≤ size + bs - 1 := Nat.div_mul_le_self _ _
  have h2 : (size + bs - 1) / bs / 2 * 2 ≤ (size + bs - 1) / bs := Nat.div_mul_le_self _ _
  have hp1 : 1 ≤ (size + bs - 1) / bs / 2 := by omega
  have h3 : 1 * bs ≤ (size + bs - 1) / bs / 2 * bs := Nat.mul_le_mul_right bs hp1
  have h4 : (size + bs - 1) / bs / 2 * 2 * bs ≤ (size + bs - 1) / bs * bs :=
    Nat.mul_le_mul_right bs h2
  have h5 : (size + bs - 1) / bs / 2 * 2 * bs = (size + bs - 1) / bs / 2 * bs * 2 := by
    rw [Nat.mul_assoc, Nat.mul_comm 2 bs, ← Nat.mul_assoc]
  rw [h5] at h4
  constructor
  · omega
  · omega

/-- the block kernel `trsm_block` on the rows `[s, e)` of the right-hand side: the unblocked
substitution (`trsvLeftArr`, the model of the loop in `Model/LinSolve.lean`) with the
sub-matrix `A[s,e) × [s,e)`, for every column `k < m`; the other rows are not touched -/
def trsmBlockStep (t : Tri) (n m : Nat) (A : Mat) (s e : Nat) (X : Arr2) : Arr2 :=
  let cols : Arr2 := Array.ofFn (n := m) fun k =>
    trsvLeftArr t (e - s) (fun i j => A (s + i) (s + j)) (fun i => mget X (s + i) k.val)
  matOf n m fun i k => if s ≤ i ∧ i < e then mget cols k (i - s) else mget X i k

/-- `kernels::gemm(subrange(A, r0..r1, c0..c1), X[c0..c1), X[r0..r1), -1.0)`:
rows `[r0, r1)` of the right-hand side `-=` the block `A[r0,r1) × [c0,c1)` times the rows
`[c0, c1)`.  The block is read from the raw storage `A` (it lies strictly inside the named
triangle). -/
def gemmSub (n m : Nat) (A : Mat) (r0 r1 c0 c1 : Nat) (X : Arr2) : Arr2 :=
  matOf n m fun i k =>
    if r0 ≤ i ∧ i < r1 then
      mget X i k - sum (c1 - c0) (fun j => A i (c0 + j) * mget X (c0 + j) k)
    else mget X i k

/-- `trsm_recursive(Afull, Bfull, start, end, Triangular, left)` with `Block_Size = bs`.
`X` is `Bfull` (`n × m`); the result is `Bfull` after the call.
(`bs = 0` cannot occur in the C++ — it would divide by zero — and is sent to the block kernel.) -/
def trsmRec (bs : Nat) (t : Tri) (n m : Nat) (A : Mat) (s e : Nat) (X : Arr2) : Arr2 :=
  if _h : e - s ≤ bs ∨ bs = 0 then trsmBlockStep t n m A s e X
  else
    if t.upper then
      -- trsm_recursive(start+split, end); Bfront -= A[0..split, split..size) * Bback;
      -- trsm_recursive(start, start+split)
      let X1 := trsmRec bs t n m A (s + trsmSplit bs (e - s)) e X
      let X2 := gemmSub n m A s (s + trsmSplit bs (e - s)) (s + trsmSplit bs (e - s)) e X1
      trsmRec bs t n m A s (s + trsmSplit bs (e - s)) X2
    else
      -- trsm_recursive(start, start+split); Bback -= A[split..size, 0..split) * Bfront;
      -- trsm_recursive(start+split, end)
      let X1 := trsmRec bs t n m A s (s + trsmSplit bs (e - s)) X
      let X2 := gemmSub n m A (s + trsmSplit bs (e - s)) e s (s + trsmSplit bs (e - s)) X1
      trsmRec bs t n m A (s + trsmSplit bs (e - s)) e X2
termination_by e - s
decreasing_by
  all_goals
    have hs := split_lt (bs := bs) (size := e - s) (by omega) (by omega)
    omega

/-- `kernels::trsm<Triangular, Side>(A, B)` as the real kernel runs it (`bs = 32`):
`left`: `B` is `n × m`, result row-indexed (`n × m`);
`right`: `trsm_recursive(trans(A), trans(B), 0, n, transposed tag, left)`: the array holds the
transposed result (`n × m`). -/
def trsmBlockedArr (bs : Nat) (t : Tri) (left : Bool) (n m : Nat) (A B : Mat) : Arr2 :=
  if left then trsmRec bs t n m A 0 n (matOf n m B)
  else trsmRec bs t.transposed n m (transpose A) 0 n (matOf n m (transpose B))

/-- same index conventions as `trsm`: `left`: `X i k` (`n × m`), `right`: `X k i` (`m × n`) -/
def trsmBlocked (bs : Nat) (t : Tri) (left : Bool) (n m : Nat) (A B : Mat) : Mat :=
  if left then fun i k => mget (trsmBlockedArr bs t left n m A B) i k
  else fun k i => mget (trsmBlockedArr bs t left n m A B) i k

/-! ## blocked Cholesky (`potrf_recursive`, `kernels/default/potrf.hpp`)

`potrf_recursive(Afull, start, end, lower)`: at most `block_size = 32` rows: the block kernel
`potrf_block` (the left-looking loop modelled by `cholCols`); otherwise, with the same split as
above, factorise the front block, `All := All * Lfront^-T` (`trsm<upper,right>(trans(Aul), All)`),
`Alr -= All * All^T` on the lower triangle (`syrk<false>`), factorise the back block; a non-zero
return value of the back block is offset by `split`, a non-zero return value of the front block
is returned at once.  The matrix is updated in place (`Arr2`, `n × n`). -/

/-- `potrf_block(row_major, lower)` on the diagonal block `[s, e)`: `cholCols` of the sub-matrix.
Return value `j+1` = first rejected pivot (`s <= 0`), relative to the block; the kernel returns at
once, so only the columns before it hold the factor. -/
def potrfBlockStep (r : Rat → Rat) (n s e : Nat) (M : Arr2) : Arr2 × Nat :=
  let C : Mat := fun a c => mget M (s + a) (s + c)
  let L := cholCols r (e - s) C
  let info := infoOf false (e - s) C L
  (matOf n n fun i j =>
      if s ≤ j ∧ j ≤ i ∧ i < e ∧ (info = 0 ∨ j - s + 1 < info) then mget L (j - s) (i - s)
      else mget M i j,
    info)

/-- `kernels::trsm<upper,right>(trans(Aul), All)` with `Aul = M[s,mid)²`, `All = M[mid,e) × [s,mid)`:
the real (blocked, block size `tb`) triangular solver; `All := All * trans(Aul)^-1` -/
def potrfTrsmStep (tb n s mid e : Nat) (M : Arr2) : Arr2 :=
  let X := trsmBlockedArr tb ⟨true, false⟩ false (mid - s) (e - mid)
    (fun a c => mget M (s + c) (s + a)) (fun a c => mget M (mid + a) (s + c))
  matOf n n fun i j =>
    if mid ≤ i ∧ i < e ∧ s ≤ j ∧ j < mid then mget X (j - s) (i - mid) else mget M i j

/-- `kernels::syrk<false>(All, Alr, -1.0)`: `Alr -= All * All^T`, lower triangle of `Alr` only -/
def potrfSyrkStep (n s mid e : Nat) (M : Arr2) : Arr2 :=
  matOf n n fun i j =>
    if mid ≤ j ∧ j ≤ i ∧ i < e then
      mget M i j - sum (mid - s) (fun k => mget M i (s + k) * mget M j (s + k))
    else mget M i j

/-- `potrf_recursive(Afull, start, end, lower)` with `block_size = bs`; `tb` is the block size of
the `trsm` it calls (both are 32 in the C++).  Result: the matrix after the call and the return
value. -/
def potrfRec (bs tb : Nat) (r : Rat → Rat) (n s e : Nat) (M : Arr2) : Arr2 × Nat :=
  if _h : e - s ≤ bs ∨ bs = 0 then potrfBlockStep r n s e M
  else
    let R1 := potrfRec bs tb r n s (s + trsmSplit bs (e - s)) M
    if R1.2 ≠ 0 then R1
    else
      let M2 := potrfTrsmStep tb n s (s + trsmSplit bs (e - s)) e R1.1
      let M3 := potrfSyrkStep n s (s + trsmSplit bs (e - s)) e M2
      let R2 := potrfRec bs tb r n (s + trsmSplit bs (e - s)) e M3
      (R2.1, if R2.2 ≠ 0 then R2.2 + trsmSplit bs (e - s) else 0)
termination_by e - s
decreasing_by
  all_goals
    have hs := split_lt (bs := bs) (size := e - s) (by omega) (by omega)
    omega

/-- `kernels::potrf<lower>(A)` as the real kernel runs it: `potrf_recursive(A, 0, n, lower)` -/
def potrfBlocked (bs tb : Nat) (r : Rat → Rat) (n : Nat) (A : Mat) : Arr2 × Nat :=
  potrfRec bs tb r n 0 n (matOf n n A)

/-- the matrix left in place (cf. `potrfLower`) -/
def potrfBlockedLower (bs tb : Nat) (r : Rat → Rat) (n : Nat) (A : Mat) : Mat :=
  fun i j => mget (potrfBlocked bs tb r n A).1 i j

/-- the return value (cf. `potrfInfo false`) -/
def potrfBlockedInfo (bs tb : Nat) (r : Rat → Rat) (n : Nat) (A : Mat) : Nat :=
  (potrfBlocked bs tb r n A).2

end SharkVerif.LinSolve
