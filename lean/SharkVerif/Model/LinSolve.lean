/-
Executable model of remora's dense linear solvers and decompositions
(`LinAlg/BLAS/kernels/default/{trsv,trsm,potrf,pstrf,getrf}.hpp`,
`decompositions.hpp`, `solve.hpp`), in exact arithmetic over core-Lean `Rat`.

Core Lean only (no Mathlib): the same definitions are compiled into the native
driver `drv_c02` and run against the C++ by `checks/c02.py`.

Conventions
* vectors / matrices given to the model are index functions (`Vec`, `Mat`);
  only indices `< n` are ever read.
* results that the C++ builds up in place are tabulated into arrays, either by
  the course-of-values combinator `tab` (entry `i` is computed from the entries
  before it: forward substitution, left-looking Cholesky) or by iterating a
  step function over a materialised matrix (`iter`, right-looking algorithms:
  outer-product Cholesky, pivoted Cholesky, pivoted LU).
* storage orientation (row/column major) and blocking do not appear: in exact
  arithmetic they do not change the result; that the real kernels of every
  orientation / block path agree with this model is what the correspondence
  check establishes (exact mode: `FE_INEXACT` clear ⇒ outputs must be equal).
* the square root is a parameter `r` (theorems assume `r s * r s = s ∧ 0 < r s`
  for `0 < s`).
-/
namespace SharkVerif.LinSolve

abbrev Vec := Nat → Rat
abbrev Mat := Nat → Nat → Rat

/-- `Σ_{k<n} f k` -/
def sum : Nat → (Nat → Rat) → Rat
  | 0, _ => 0
  | k + 1, f => sum k f + f k

def dot (n : Nat) (x y : Vec) : Rat := sum n fun k => x k * y k
def mulVec (n : Nat) (A : Mat) (x : Vec) : Vec := fun i => sum n fun k => A i k * x k
def vecMul (n : Nat) (x : Vec) (A : Mat) : Vec := fun j => sum n fun k => x k * A k j
def mul (n : Nat) (A B : Mat) : Mat := fun i j => sum n fun k => A i k * B k j
def transpose (A : Mat) : Mat := fun i j => A j i
def ident : Mat := fun i j => if i = j then 1 else 0

/-- course-of-values tabulation: entry `i` is `g i (entries before i)` -/
def tab {α : Type} [Inhabited α] : Nat → (Nat → (Nat → α) → α) → Array α
  | 0, _ => #[]
  | k + 1, g => let a := tab k g; a.push (g k (fun j => a.getD j default))

/-- `f^[n]` with the step index passed to the step function -/
def iter {σ : Type} : Nat → (Nat → σ → σ) → σ → σ
  | 0, _, s => s
  | t + 1, f, s => f t (iter t f s)

/-- materialised vectors / matrices -/
def vget (a : Array Rat) (i : Nat) : Rat := a.getD i 0
def vecOf (n : Nat) (f : Vec) : Array Rat := Array.ofFn (n := n) fun i => f i.val
abbrev Arr2 := Array (Array Rat)
def mget (a : Arr2) (i j : Nat) : Rat := (a.getD i #[]).getD j 0
def matOf (n m : Nat) (f : Mat) : Arr2 := Array.ofFn (n := n) fun i => Array.ofFn (n := m) fun j => f i.val j.val

def rev (n i : Nat) : Nat := n - 1 - i

/-! ## triangular solves (`kernels/default/trsv.hpp`, `trsm.hpp`) -/

/-- forward substitution, the loop of `trsv_impl(lower, row_major, left)`:
`b(n) -= dot(b[0,n), A(n,[0,n))); if(!Unit) b(n) /= A(n,n)`.
(The column-major variant performs the same subtractions column by column.) -/
def fwdArr (unit : Bool) (n : Nat) (L : Mat) (b : Vec) : Array Rat :=
  tab n fun i x =>
    let s := b i - sum i (fun j => L i j * x j)
    if unit then s else s / L i i

def fwd (unit : Bool) (n : Nat) (L : Mat) (b : Vec) : Vec := fun i => vget (fwdArr unit n L b) i

/-- back substitution (`upper`): the same loop running from the last index down -/
def bwdArr (unit : Bool) (n : Nat) (U : Mat) (b : Vec) : Array Rat :=
  fwdArr unit n (fun i j => U (rev n i) (rev n j)) (fun i => b (rev n i))

def bwd (unit : Bool) (n : Nat) (U : Mat) (b : Vec) : Vec := fun i => vget (bwdArr unit n U b) (rev n i)

/-- `triangular_tag<Upper,Unit>` -/
structure Tri where
  upper : Bool
  unit : Bool
  deriving Repr, DecidableEq

def Tri.transposed (t : Tri) : Tri := ⟨!t.upper, t.unit⟩

/-- the matrix a triangular tag denotes: the named triangle of `A`, the diagonal replaced by
ones for unit tags, zero elsewhere (the other triangle of the storage is never read) -/
def triPart (t : Tri) (A : Mat) : Mat := fun i j =>
  if i = j then (if t.unit then 1 else A i j)
  else if t.upper then (if i < j then A i j else 0)
  else (if j < i then A i j else 0)

/-- `[TRSV] Matrix is singular!` is thrown iff a diagonal entry that is divided by is zero -/
def triSingular (t : Tri) (n : Nat) (A : Mat) : Bool :=
  !t.unit && (List.range n).any fun i => A i i == 0

def trsvLeftArr (t : Tri) (n : Nat) (A : Mat) (b : Vec) : Array Rat :=
  if t.upper then
    let a := bwdArr t.unit n A b
    vecOf n fun i => vget a (rev n i)
  else fwdArr t.unit n A b

/-- `kernels::trsv<Triangular, Side>(A, b)`; `right` is mapped onto `left` via `trans(A)`
and the transposed triangular tag, as in the C++ -/
def trsvArr (t : Tri) (left : Bool) (n : Nat) (A : Mat) (b : Vec) : Array Rat :=
  if left then trsvLeftArr t n A b else trsvLeftArr t.transposed n (transpose A) b

def trsv (t : Tri) (left : Bool) (n : Nat) (A : Mat) (b : Vec) : Vec :=
  fun i => vget (trsvArr t left n A b) i

/-- `kernels::trsm<Triangular, Side>(A, B)`: `left`: `B` is `n × m`, every column is solved;
`right`: `B` is `m × n`, every row is solved (`X A = B`).  Result as array of
solved columns (left) resp. rows (right). -/
def trsmArr (t : Tri) (left : Bool) (n m : Nat) (A B : Mat) : Arr2 :=
  Array.ofFn (n := m) fun k =>
    if left then trsvArr t true n A (fun i => B i k.val) else trsvArr t false n A (fun i => B k.val i)

def trsm (t : Tri) (left : Bool) (n m : Nat) (A B : Mat) : Mat :=
  if left then fun i k => mget (trsmArr t left n m A B) k i
  else fun k i => mget (trsmArr t left n m A B) k i

/-! ## Cholesky (`kernels/default/potrf.hpp`) -/

/-- column `j` of the factor from the columns before it, `potrf_block(row_major, lower)`:
`s = A(i,j) - Σ_{k<j} A(i,k) A(j,k)`; diagonal `sqrt(s)`, below `s / A(j,j)` -/
def cholCol (r : Rat → Rat) (n : Nat) (A : Mat) (j : Nat) (prev : Nat → Array Rat) : Array Rat :=
  let s (i : Nat) : Rat := A i j - sum j (fun k => vget (prev k) i * vget (prev k) j)
  let d := r (s j)
  vecOf n fun i => if i < j then 0 else if i = j then d else s i / d

def cholCols (r : Rat → Rat) (n : Nat) (A : Mat) : Arr2 := tab n (cholCol r n A)

/-- the lower Cholesky factor computed by the left-looking loop (entry `(i,j)`, zero above the diagonal) -/
def chol (r : Rat → Rat) (n : Nat) (A : Mat) : Mat := fun i j => mget (cholCols r n A) j i

/-- the value whose root is taken in step `j` (`s` for `i = j`), read off a factor stored by columns -/
def pivotOf (A : Mat) (L : Arr2) (j : Nat) : Rat :=
  A j j - sum j (fun k => mget L k j * mget L k j)

def cholPivot (r : Rat → Rat) (n : Nat) (A : Mat) (j : Nat) : Rat := pivotOf A (cholCols r n A) j

/-- first index `< n` satisfying `p` -/
def firstIdx (n : Nat) (p : Nat → Bool) : Option Nat := (List.range n).find? p

/-- return value of `potrf`: `0` or `j+1` for the first pivot that is rejected.
`strict = false`: `if(s <= 0) return i+1` (row-major/lower kernel);
`strict = true`: `if(Aii < 0) return i+1` (row-major/upper kernel, used for column-major lower). -/
def infoOf (strict : Bool) (n : Nat) (A : Mat) (L : Arr2) : Nat :=
  match firstIdx n (fun j => if strict then decide (pivotOf A L j < 0) else decide (pivotOf A L j ≤ 0)) with
  | some j => j + 1
  | none => 0

def potrfInfo (strict : Bool) (r : Rat → Rat) (n : Nat) (A : Mat) : Nat := infoOf strict n A (cholCols r n A)

/-- matrix left in place by `potrf<lower>`: factor on and below the diagonal, input above -/
def potrfOut (n : Nat) (A : Mat) (L : Arr2) : Arr2 :=
  matOf n n fun i j => if j ≤ i then mget L j i else A i j

def potrfLower (r : Rat → Rat) (n : Nat) (A : Mat) : Mat := fun i j => mget (potrfOut n A (cholCols r n A)) i j

/-- `potrf<upper>` works on `trans(A)` -/
def potrfUpper (r : Rat → Rat) (n : Nat) (A : Mat) : Mat := transpose (potrfLower r n (transpose A))

/-! ## pivoted LU (`kernels/default/getrf.hpp`) -/

def absR (x : Rat) : Rat := if x < 0 then -x else x

/-- function update -/
def upd (f : Nat → Nat) (j v : Nat) : Nat → Nat := fun t => if t = j then v else f t

/-- the transposition `(a b)` -/
def sw (a b i : Nat) : Nat := if i = a then b else if i = b then a else i

/-- pivot search of `getrf_block`: the first row `i ≥ j` with the largest `|M(i,j)|`
(`if(abs(A(i,j)) > abs(pivot_value))` keeps the earlier row on ties) -/
def pivotRow (n : Nat) (M : Arr2) (j : Nat) : Nat :=
  (List.range (n - j - 1)).foldl
    (fun p d => if absR (mget M (j + 1 + d) j) > absR (mget M p j) then j + 1 + d else p) j

def swapRows (n : Nat) (M : Arr2) (a b : Nat) : Arr2 := matOf n n fun i k => mget M (sw a b i) k

structure LUState where
  M : Arr2
  P : Nat → Nat
  fail : Bool

/-- one column of `getrf_block`: search pivot, swap rows, scale the column, rank-one update of the
lower right block; `fail` = `[getrf] Matrix is rank deficient` thrown -/
def getrfStep (n : Nat) (j : Nat) (s : LUState) : LUState :=
  if s.fail then s else
  let p := pivotRow n s.M j
  let piv := mget s.M p j
  if piv = 0 then { s with fail := true } else
  let M1 := swapRows n s.M j p
  { M := matOf n n fun i k =>
      if i ≤ j ∨ k < j then mget M1 i k
      else if k = j then mget M1 i j / piv
      else mget M1 i k - mget M1 i j / piv * mget M1 j k,
    P := upd s.P j p, fail := false }

def getrf (n : Nat) (A : Mat) : LUState := iter n (getrfStep n) ⟨matOf n n A, fun t => t, false⟩

/-- `swap_rows(P, v)`: `swap(v(i), v(P(i)))` for `i = 0 … n-1`, as a reindexing:
`(swapRowsSeq P t v) i = v (permOf P t i)` -/
def permOf (P : Nat → Nat) : Nat → Nat → Nat
  | 0, i => i
  | t + 1, i => permOf P t (sw t (P t) i)

/-- the inverse sequence `swap_rows_inverted`: `i = n-1 … 0` -/
def permInvOf (P : Nat → Nat) : Nat → Nat → Nat
  | 0, i => i
  | t + 1, i => sw t (P t) (permInvOf P t i)

/-! ## pivoted Cholesky (`kernels/default/pstrf.hpp`) -/

/-- `std::max_element` over the running diagonal: first index `≥ j` with the largest `M(i,i)` -/
def argmaxDiag (n : Nat) (M : Arr2) (j : Nat) : Nat :=
  (List.range (n - j - 1)).foldl
    (fun p d => if mget M p p < mget M (j + 1 + d) (j + 1 + d) then j + 1 + d else p) j

def swapSym (n : Nat) (M : Arr2) (a b : Nat) : Arr2 := matOf n n fun i k => mget M (sw a b i) (sw a b k)

structure PState where
  M : Arr2
  P : Nat → Nat
  rank : Option Nat

/-- one step of `pstrf` in exact arithmetic (the running diagonal `pivots(i)` of the C++ is the
diagonal of the Schur complement kept in the trailing block): pivot = arg-max of the diagonal,
symmetric swap, stop when the pivot is not above `eps` (remainder cleared; `<=` as in the repaired
code, finding C02-pstrf-zero-matrix: with `<` the zero matrix is never detected), otherwise column `j` of
the factor, row `j` cleared right of the diagonal, Schur complement update. -/
def pstrfStep (r : Rat → Rat) (eps : Rat) (n : Nat) (j : Nat) (s : PState) : PState :=
  match s.rank with
  | some _ => s
  | none =>
    let p := argmaxDiag n s.M j
    let M1 := swapSym n s.M j p
    let piv := mget M1 j j
    if piv ≤ eps then
      { M := matOf n n fun i k => if j ≤ i ∧ j ≤ k then 0 else mget M1 i k, P := upd s.P j p, rank := some j }
    else
      let d := r piv
      { M := matOf n n fun i k =>
          if i < j ∨ k < j then mget M1 i k
          else if k = j then (if i = j then d else mget M1 i j / d)
          else if i = j then 0
          else mget M1 i k - mget M1 i j / d * (mget M1 k j / d),
        P := upd s.P j p, rank := none }

def pstrf (r : Rat → Rat) (eps : Rat) (n : Nat) (A : Mat) : PState :=
  iter n (pstrfStep r eps n) ⟨matOf n n A, fun t => t, none⟩

/-- the stopping threshold of the C++: `m*m*DBL_EPSILON*max_diag`, `max_diag = max(A(0,0), |A(i,i)|, i ≥ 1)` -/
def pstrfEps (n : Nat) (A : Mat) : Rat :=
  let md := (List.range (n - 1)).foldl (fun m d => if m < absR (A (d + 1) (d + 1)) then absR (A (d + 1) (d + 1)) else m) (A 0 0)
  (n : Rat) * (n : Rat) * md / (4503599627370496 : Rat)

/-! ## `solver_traits` dispatch (`decompositions.hpp`, `solve.hpp`): solve = permutation + triangular solves -/

/-- `cholesky_decomposition::solve(b)`: `trsv<lower>(L)`, `trsv<upper>(Lᵀ)`; `L` stored by columns -/
def cholSolveArr (n : Nat) (L : Arr2) (b : Vec) : Array Rat :=
  let Lm : Mat := fun i j => mget L j i
  let y := trsvArr ⟨false, false⟩ true n Lm b
  trsvArr ⟨true, false⟩ true n (transpose Lm) (fun i => vget y i)

/-- `solve(A, b, symm_pos_def(), side)`: both sides are the same for a symmetric matrix -/
def solveSpdArr (r : Rat → Rat) (n : Nat) (A : Mat) (b : Vec) : Array Rat :=
  cholSolveArr n (cholCols r n A) b

/-- `pivoting_lu_decomposition::solve(b, left)`: `swap_rows(P,b)`, `trsv<unit_lower>`, `trsv<upper>` -/
def luSolveLeftArr (n : Nat) (s : LUState) (b : Vec) : Array Rat :=
  let F : Mat := fun i j => mget s.M i j
  let pb : Vec := fun i => b (permOf s.P n i)
  let y := trsvArr ⟨false, true⟩ true n F pb
  trsvArr ⟨true, false⟩ true n F (fun i => vget y i)

/-- `solve(b, right)`: `trsv<upper,right>`, `trsv<unit_lower,right>`, `swap_rows_inverted(P,b)` -/
def luSolveRightArr (n : Nat) (s : LUState) (b : Vec) : Array Rat :=
  let F : Mat := fun i j => mget s.M i j
  let y := trsvArr ⟨true, false⟩ false n F b
  let z := trsvArr ⟨false, true⟩ false n F (fun i => vget y i)
  vecOf n fun i => vget z (permInvOf s.P n i)

/-- constructor of `symm_pos_semi_definite_solver`: `pstrf`, and for `0 < rank < n` the Cholesky
factor of `LᵀL` (`L` = first `rank` columns) -/
def semiFactor (r : Rat → Rat) (n : Nat) (A : Mat) : PState × Arr2 :=
  let s := pstrf r (pstrfEps n A) n A
  let rank := s.rank.getD n
  let F : Mat := fun i j => mget s.M i j
  let G : Mat := fun a c => sum n fun i => F i a * F i c
  (s, if rank = n then #[] else cholCols r rank G)

/-- `symm_pos_semi_definite_solver::solve(b)` -/
def semiApplyArr (n : Nat) (f : PState × Arr2) (b : Vec) : Array Rat :=
  let s := f.1
  let rank := s.rank.getD n
  let F : Mat := fun i j => mget s.M i j
  let pb : Vec := fun i => b (permOf s.P n i)
  let x : Array Rat :=
    if rank = 0 then vecOf n fun _ => 0
    else if rank = n then
      let y := trsvArr ⟨false, false⟩ true n F pb
      trsvArr ⟨true, false⟩ true n (transpose F) (fun i => vget y i)
    else
      -- least squares: z = Lᵀ b, twice (LᵀL)⁻¹, b = L z   (L = first `rank` columns)
      let z : Vec := fun c => sum n fun i => F i c * pb i
      let z1 := cholSolveArr rank f.2 z
      let z2 := cholSolveArr rank f.2 (fun c => vget z1 c)
      vecOf n fun i => sum rank fun c => F i c * vget z2 c
  vecOf n fun i => vget x (permInvOf s.P n i)

def semiSolveArr (r : Rat → Rat) (n : Nat) (A : Mat) (b : Vec) : Array Rat :=
  semiApplyArr n (semiFactor r n A) b

/-- `symm_pos_semi_definite_solver::compute_inverse_factor(C)`: `C` is `rank × n` with `A⁺ = Cᵀ C`.
Full rank: `C = I`, `swap_columns_inverted(P, C)`, `trsm<lower,left>(L, C)`; rank deficient:
`C = Lᵀ` (`L` = first `rank` columns), `(LᵀL)⁻¹` applied from the left, `swap_columns_inverted(P, C)`.
Entry `(a, c)` is `mget _ a c`. -/
def semiInverseFactor (n : Nat) (f : PState × Arr2) : Arr2 :=
  let s := f.1
  let rank := s.rank.getD n
  let F : Mat := fun i j => mget s.M i j
  if rank = n then
    let cols : Arr2 := Array.ofFn (n := n) fun c =>
      trsvArr ⟨false, false⟩ true n F (fun i => if i = permInvOf s.P n c.val then 1 else 0)
    matOf n n fun a c => mget cols c a
  else
    let cols : Arr2 := Array.ofFn (n := n) fun c =>
      cholSolveArr rank f.2 (fun a => F (permInvOf s.P n c.val) a)
    matOf rank n fun a c => mget cols c a

/-! ## rank-one update of a Cholesky factor (`cholesky_decomposition::update`, `decompositions.hpp`) -/

/-- state of the column loop of `update(alpha, beta, v)`: the factor (entry `(i,j)` = `mget L i j`),
the working vector `temp`, `beta_prime`, the values whose root was taken so far (kept for the
driver's exactness test), and "the exception was thrown" -/
structure UpdState where
  L : Arr2
  w : Array Rat
  bp : Rat
  xs : Array Rat
  fail : Bool

/-- column `j` of the update loop, statement by statement (`a = sqrt(alpha)`):
`Ljj = a L(j,j)`, `dj = Ljj²`, `wj = temp(j)`, `swj2 = beta wj²`, `gamma = dj beta' + swj2`,
`x = dj + swj2/beta'`; `x <= 0` throws; `L(j,j) = sqrt(x)`; `beta' += swj2/dj`; below the diagonal
`col *= a`, `temp -= (wj/Ljj) col`, and unless `gamma == 0`: `col *= nLjj/Ljj`,
`col += (nLjj beta wj/gamma) temp`.  The scaling by `a` and the correction of `temp` happen for
every column, also when `wj = 0`. -/
def updStep (r : Rat → Rat) (a beta : Rat) (n : Nat) (j : Nat) (s : UpdState) : UpdState :=
  if s.fail then s else
  let Ljj := a * mget s.L j j
  let dj := Ljj * Ljj
  let wj := vget s.w j
  let swj2 := beta * wj * wj
  let gamma := dj * s.bp + swj2
  let x := dj + swj2 / s.bp
  if x ≤ 0 then { s with fail := true } else
  let nLjj := r x
  let col (i : Nat) : Rat := a * mget s.L i j
  let w' (i : Nat) : Rat := if j < i then vget s.w i - wj / Ljj * col i else vget s.w i
  { L := matOf n n fun i k =>
      if k = j then
        (if i = j then nLjj
         else if j < i then
           (if gamma = 0 then col i else col i * (nLjj / Ljj) + nLjj * beta * wj / gamma * w' i)
         else mget s.L i k)
      else mget s.L i k,
    w := vecOf n w', bp := s.bp + swj2 / dj, xs := s.xs.push x, fail := false }

/-- `cholesky_decomposition::update(alpha, beta, v)` on the lower factor `L` (row-indexed);
`beta == 0`: the whole factor is scaled by `sqrt(alpha)` -/
def cholUpdate (r : Rat → Rat) (alpha beta : Rat) (n : Nat) (L : Arr2) (v : Vec) : UpdState :=
  if beta = 0 then ⟨matOf n n fun i j => r alpha * mget L i j, vecOf n v, 1, #[], false⟩
  else iter n (updStep r (r alpha) beta n) ⟨L, vecOf n v, 1, #[], false⟩

/-- the matrix the updated factor has to reproduce: `alpha L Lᵀ + beta v vᵀ` -/
def updTarget (alpha beta : Rat) (n : Nat) (L : Arr2) (v : Vec) : Mat :=
  fun i k => alpha * (sum n fun c => mget L i c * mget L k c) + beta * v i * v k

end SharkVerif.LinSolve
