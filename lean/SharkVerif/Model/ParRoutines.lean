/-
Executable models of the control flow of two parallel routines (C20), core Lean only:
* the batch ranges `ErrorFunction::eval` hands to its threads (arithmetic generated from the C++),
* `SimpleNearestNeighbors::getNeighbors`: batches → threads (contiguous chunks, as the static OpenMP schedule),
  one bounded heap per thread, heaps merged, `k` smallest taken.
The driver `drv_c20` runs these; `Props/C20.lean` proves them equal to the single-threaded specification.
-/
import SharkVerif.Gen.ParRegions
namespace SharkVerif.ParModel

/-- `(start, stop)` of every thread of `ErrorFunction::eval` for `B` batches and `T` available threads
(`numThreads = min(T, B)` as in the source) -/
def ranges (B T : Nat) : List (Nat × Nat) :=
  let nt := min T B
  (List.range nt).map fun t => (Gen.ParRegions.Site1.start B nt t, Gen.ParRegions.Site1.stop B nt t)

def ins (x : Nat) : List Nat → List Nat
  | [] => [x]
  | b :: l => if x ≤ b then x :: b :: l else b :: ins x l

def sort (l : List Nat) : List Nat := l.foldr ins []

/-- offer `x` to a bounded heap holding the `k` smallest keys seen so far (kept sorted) -/
def push (k : Nat) (h : List Nat) (x : Nat) : List Nat := (ins x h).take k

def heap (k : Nat) (l : List Nat) : List Nat := l.foldl (push k) []

/-- cut a list into consecutive chunks of `c` elements (`fuel` chunks at most, the rest goes into the last one) -/
def chunks {α : Type} : Nat → Nat → List α → List (List α)
  | 0, _, l => if l.isEmpty then [] else [l]
  | f+1, c, l => if l.isEmpty then [] else l.take c :: chunks f c (l.drop c)

/-- what each thread sees: its chunk of batches, concatenated in order -/
def threadShares (T : Nat) (batches : List (List Nat)) : List (List Nat) :=
  let nt := min T batches.length
  let c := (batches.length + nt - 1) / nt
  (chunks batches.length c batches).map List.flatten

def knn (T k : Nat) (batches : List (List Nat)) : List Nat :=
  (sort ((threadShares T batches).map (heap k)).flatten).take k

end SharkVerif.ParModel
