/-
Model of `shark::QpSparseArray` (include/shark/Algorithms/QP/QpSparseArray.h):
a matrix stored row-wise as a default value plus an ordered list of explicit
`(index, value)` entries.  `operator()(row, col)` returns the value of the
*first* entry whose index equals `col`, else the row's default value.

Numbers are polymorphic: every definition is written once over a type `α` with
the standard arithmetic/order classes and is used at `Rat` (theorems, exact
correspondence) and at `Float` (bit correspondence).  Literals of the C++ are
scientific literals (`OfScientific`), `(double)n` is `NatCast`.
Core Lean only.
-/
namespace SharkVerif.Mc

/-- `(double)n` for the `Float` instance of the models -/
instance instNatCastFloat : NatCast Float := ⟨Float.ofNat⟩

/-- C++ unsigned subtraction on `unsigned int` (wraps modulo 2^32) -/
def usub32 (a b : Nat) : Nat := if b ≤ a then a - b else a + 4294967296 - b
/-- C++ unsigned subtraction on `std::size_t` (wraps modulo 2^64) -/
def usub64 (a b : Nat) : Nat := if b ≤ a then a - b else a + 18446744073709551616 - b

/-- one row of a `QpSparseArray`: `defaultvalue` and the entries in the order they were added -/
structure Row (α : Type) where
  dflt : α
  entries : List (Nat × α)

namespace Row
variable {α : Type}

/-- state after `memset(&m_row[0], 0, …)`: default value `+0.0`, no entries -/
def empty [OfScientific α] : Row α := { dflt := (0.0 : α), entries := [] }
/-- `setDefaultValue(row, v)` -/
def setDefault (r : Row α) (v : α) : Row α := { r with dflt := v }
/-- `add(row, col, v)`: entries are appended -/
def add (r : Row α) (col : Nat) (v : α) : Row α := { r with entries := r.entries ++ [(col, v)] }

/-- lookup in an entry list: first match wins -/
def lookup (es : List (Nat × α)) (col : Nat) (d : α) : α :=
  match es with
  | [] => d
  | e :: rest => if e.1 = col then e.2 else lookup rest col d

/-- `operator()(row, col)` -/
def get (r : Row α) (col : Nat) : α := lookup r.entries col r.dflt
end Row

/-- a `QpSparseArray`: `m_height`, `m_width`, the `space` argument of `resize`
(capacity of `m_data`) and the rows in row order -/
structure Sparse (α : Type) where
  height : Nat
  width : Nat
  space : Nat
  rows : List (Row α)

namespace Sparse
variable {α : Type}
/-- `m_row[r]` (a zeroed row when `r` was never written) -/
def row [OfScientific α] (s : Sparse α) (r : Nat) : Row α := s.rows.getD r Row.empty
/-- `operator()(r, col)` -/
def get [OfScientific α] (s : Sparse α) (r col : Nat) : α := (s.row r).get col
/-- `m_used` after construction -/
def used (s : Sparse α) : Nat := (s.rows.map fun r => r.entries.length).sum
end Sparse

end SharkVerif.Mc
