/-
Executable model of CMA-ES as implemented in `src/Algorithms/DirectSearch/CMA.cpp`
(property C11): the `doInit` coefficient formulas, `suggestLambda/suggestMu`,
selection by sorting on fitness, and `updatePopulation` (weighted recombination,
hSig, rank-one + rank-mu covariance update, cumulative step-size adaptation with
the lower-bound clamp); plus the (1+1) elitist acceptance rule of
`ElitistCMA::step`.

Core Lean only (also compiled into `drv_c11`).  `log`, `sqrt`, `exp`, `pow` are
parameters.  Not modelled (parameters of the run): the random variates and the
eigendecomposition of `MultiVariateNormalDistribution::update` — a run takes a
`sampler` producing the offspring (search points and chromosomes) and an `eig`
function giving the eigenvector matrix and the last eigenvalue.
-/
import SharkVerif.Model.CMAFns
import SharkVerif.Gen.CMAParams
namespace SharkVerif.Opt.CMA
open SharkVerif.Opt SharkVerif.Gen.CMAParams

variable {α : Type} [Scalar α]

/-! ## doInit coefficients

The formulas themselves are *regenerated from the C++* on every run
(`Gen/CMAParams.lean`, translator `translate/cma_params.py`); this section only
assembles them in the order of `CMA::doInit`. -/

structure Coeffs (α : Type) where
  weights : Vec α
  muEff : α
  cSigma : α
  dSigma : α
  cC : α
  c1 : α
  cMu : α

def sum (v : Vec α) : α := v.foldl (· + ·) Scalar.zero

/-- un-normalised recombination weights (generated formula per rank): 0 EQUAL, 1 LINEAR, 2 SUPERLINEAR -/
def rawWeights (F : Fns α) (recomb mu : Nat) : Vec α :=
  (List.range mu).map fun i => cma_rawWeight F recomb mu i

/-- `m_weights /= sum(m_weights)` -/
def normalise (w : Vec α) : Vec α := let s := sum w; w.map (· / s)

/-- `sum(sqr(m_weights))` -/
def sumSq (w : Vec α) : α := sum (w.map fun x => x * x)

/-- the coefficients of `CMA::doInit` (eq. 45–49 of the tutorial) from the generated formulas -/
def coeffsOf (F : Fns α) (n : Nat) (w : Vec α) : Coeffs α :=
  let k := cma_consts F n (sumSq w)
  { weights := w, muEff := k.muEff, cSigma := k.cSigma, dSigma := k.dSigma, cC := k.cC, c1 := k.c1, cMu := k.cMu }

def doInitCoeffs (F : Fns α) (n mu recomb : Nat) : Coeffs α :=
  coeffsOf F n (normalise (rawWeights F recomb mu))

/-- `CMA::suggestMu` (generated) -/
def suggestMu (lambda recomb : Nat) : Nat := cma_suggestMu lambda recomb

/-! ## selection -/

/-- an evaluated offspring: search point, chromosome (the standard-normal variate), fitness used
for ranking (`FitnessOrdering` compares `unpenalizedFitness`) -/
structure Indiv (α : Type) where
  point : Vec α
  chrom : Vec α
  fitness : α

/-- `ElitistSelection`: order by fitness, keep the `mu` best (best first).  Fitness enters only
through the comparison `a.fitness ≤ b.fitness`. -/
def select (offspring : List (Indiv α)) (mu : Nat) : List (Indiv α) :=
  (offspring.mergeSort fun a b => decide (a.fitness ≤ b.fitness)).take mu

/-! ## updatePopulation -/

/-- the search distribution (everything `updatePopulation` reads and writes, except `m_best`) -/
structure Dist (α : Type) where
  sigma : α
  mean : Vec α
  pc : Vec α
  ps : Vec α
  C : Mat α
  counter : Nat

def norm2 (F : Fns α) (v : Vec α) : α := F.sqrt (Vec.normSqr v)

/-- Σ_j w_j · v_j, accumulated in the order of the C++ loop -/
def wsum (n : Nat) (w : Vec α) (vs : List (Vec α)) : Vec α :=
  (List.zip w vs).foldl (fun acc (wv : α × Vec α) => Vec.axpy acc wv.1 wv.2) (Vec.zeros n)

/-- rank-mu matrix `Z = Σ_i w_i (x_i − m)(x_i − m)ᵀ` -/
def rankMu (n : Nat) (w : Vec α) (xs : List (Vec α)) (mean : Vec α) : Mat α :=
  (List.zip w xs).foldl (fun (Z : Mat α) (wx : α × Vec α) =>
    let d := Vec.sub wx.2 mean
    List.zipWith (fun (row : Vec α) di => List.zipWith (fun zij dj => zij + wx.1 * (di * dj)) row d) Z d)
    (List.replicate n (Vec.zeros n))

def expectedChi (F : Fns α) (n : Nat) : α :=
  let nn : α := ofNat n
  F.sqrt nn * (Scalar.one - Scalar.one / (ofNat 4 * nn) + Scalar.one / (ofNat 21 * nn * nn))

/-- the covariance update, eq. (43): `(1−c1−cMu)·C + c1·(pc pcᵀ + δ·C) + (cMu/σ²)·Z` -/
def covUpdate (c : Coeffs α) (deltaHSig sigma : α) (C : Mat α) (pc : Vec α) (Z : Mat α) : Mat α :=
  let a := Scalar.one - c.c1 - c.cMu
  let coef := c.cMu * Scalar.one / (sigma * sigma)
  List.zipWith (fun (rows : Vec α × Vec α) pci =>
    List.zipWith (fun (cz : α × α) pcj => a * cz.1 + c.c1 * (pci * pcj + deltaHSig * cz.1) + coef * cz.2)
      (List.zip rows.1 rows.2) pc) (List.zip C Z) pc

/-- step-size update, eq. (39) and the numerical-stability clamp -/
def sigmaUpdate (F : Fns α) (c : Coeffs α) (n : Nat) (sigma : α) (ps' : Vec α) : α :=
  sigma * F.exp ((c.cSigma / c.dSigma) * (norm2 F ps' / expectedChi F n - Scalar.one))

def clampSigma (F : Fns α) (lowerBound sigma ev : α) : α :=
  let r := F.sqrt (Scalar.abs ev)
  if sigma * r < lowerBound then lowerBound / r else sigma

/-- `CMA::updatePopulation` on the selected offspring (best first); `B` = eigenvectors of the old
covariance; the clamp (which needs the eigenvalues of the *new* covariance) is applied by the caller -/
def update (F : Fns α) (c : Coeffs α) (n : Nat) (d : Dist α) (sel : List (Indiv α)) (B : Mat α) : Dist α :=
  let one : α := Scalar.one
  let two : α := Scalar.two
  let counter := d.counter + 1
  let z := wsum n c.weights (sel.map (·.chrom))
  let m := wsum n c.weights (sel.map (·.point))
  let y := (Vec.sub m d.mean).map (· / d.sigma)
  let Z := rankMu n c.weights (sel.map (·.point)) d.mean
  let chi := expectedChi F n
  let hl := norm2 F d.ps / F.sqrt (one - F.pow (one - c.cSigma) (two * (ofNat counter + one)))
  let hr := (Scalar.ofRat (14/10) + two / (ofNat n + one)) * chi
  let hSig : α := if hl < hr then one else Scalar.zero
  let deltaHSig := (one - hSig * hSig) * c.cC * (two - c.cC)
  let k := hSig * F.sqrt (c.cC * (two - c.cC) * c.muEff)
  let pc := List.zipWith (fun p yi => (one - c.cC) * p + k * yi) d.pc y
  let C := covUpdate c deltaHSig d.sigma d.C pc Z
  let cinvy := Mat.mulVec B z
  let ks := F.sqrt (c.cSigma * (two - c.cSigma) * c.muEff)
  let ps := List.zipWith (fun p ci => (one - c.cSigma) * p + ks * ci) d.ps cinvy
  { sigma := sigmaUpdate F c n d.sigma ps, mean := m, pc := pc, ps := ps, C := C, counter := counter }

/-! ## a whole run, as a function of the variate stream and the objective -/

/-- what the model does not compute: the offspring sampled from a distribution at generation `t`
(random variates + eigendecomposition), the eigenvectors and the last eigenvalue of a covariance -/
structure World (α : Type) where
  sample : Dist α → Nat → List (Vec α × Vec α)    -- (search point, chromosome), `lambda` of them
  eigVec : Mat α → Mat α
  lastEig : Mat α → α
  lowerBound : α

structure State (α : Type) where
  dist : Dist α
  bestPoint : Vec α
  bestValue : α

/-- the evaluated offspring of a generation -/
def offspring (W : World α) (fit : Vec α → α) (s : State α) : List (Indiv α) :=
  (W.sample s.dist s.dist.counter).map fun pz => ({ point := pz.1, chrom := pz.2, fitness := fit pz.1 } : Indiv α)

/-- update, clamp, report the best selected individual -/
def finish (F : Fns α) (W : World α) (c : Coeffs α) (n : Nat) (s : State α) (sel : List (Indiv α)) : State α :=
  let d := update F c n s.dist sel (W.eigVec s.dist.C)
  let d := { d with sigma := clampSigma F W.lowerBound d.sigma (W.lastEig d.C) }
  match sel with
  | [] => { s with dist := d }
  | b :: _ => { dist := d, bestPoint := b.point, bestValue := b.fitness }

/-- one generation: sample, evaluate with `fit`, select, update, clamp, report the best selected -/
def step (F : Fns α) (W : World α) (c : Coeffs α) (n mu : Nat) (fit : Vec α → α) (s : State α) : State α :=
  finish F W c n s (select (offspring W fit s) mu)

def run (F : Fns α) (W : World α) (c : Coeffs α) (n mu : Nat) (fit : Vec α → α) (s : State α) : Nat → State α
  | 0 => s
  | t+1 => step F W c n mu fit (run F W c n mu fit s t)

/-! ## `PenalizingEvaluator` (constraint handling of CMA, CMSA, ElitistCMA, VD-CMA, CEM) -/

/-- what the evaluator asks of the objective: `isFeasible` and `closestFeasible` -/
structure Constraint (α : Type) where
  feasible : Vec α → Bool
  closest : Vec α → Vec α

/-- the point the objective is evaluated at: `t = x` if feasible, else `closestFeasible(x)` -/
def project (K : Constraint α) (x : Vec α) : Vec α := if K.feasible x then x else K.closest x

/-- `unpenalizedFitness = f(t)` -/
def unpenalized (K : Constraint α) (f : Vec α → α) (x : Vec α) : α := f (project K x)

/-- `penalizedFitness = f(t) + factor · ‖t − x‖²` (`PenalizingEvaluator::penalize`) -/
def penalized (K : Constraint α) (f : Vec α → α) (factor : α) (x : Vec α) : α :=
  let t := project K x
  f t + factor * Vec.normSqr (Vec.sub t x)

/-! ## (1+1) elitist acceptance of `ElitistCMA::step` -/

/-- the parent is replaced iff the offspring's fitness is strictly better than the last accepted one -/
def elitistAccept (parentFit offspringFit : α) : Bool := !(decide (parentFit ≤ offspringFit))

structure Elitist (α : Type) where
  bestPoint : Vec α
  bestValue : α

def elitistStep (fit : Vec α → α) (s : Elitist α) (candidate : Vec α) : Elitist α :=
  if elitistAccept s.bestValue (fit candidate) then ⟨candidate, fit candidate⟩ else s

end SharkVerif.Opt.CMA
