/-
Executable specification of the dominated hypervolume (`hvSpec`) and models of
`HypervolumeCalculator2D`, `HypervolumeCalculatorMDWFG`,
`HypervolumeContribution2D` (Operators/Hypervolume/*.h).  Core Lean only.

Points have integer coordinates.  For such points the Lebesgue measure of the
region `{z | ∃ p ∈ S, p ≤ z < r}` is the number of unit cells `[z, z+1)` of the
integer grid whose lower corner `z` satisfies `∃ p ∈ S, p ≤ z` and `z < r`;
`hvSpec` counts exactly those cells.
-/
import SharkVerif.Model.Pareto
namespace SharkVerif.HV
open SharkVerif.Pareto

/-- all grid cells `z` (named by their lower corner) with `lo ≤ z < hi` component-wise -/
def cells : Pt → Pt → List Pt
  | l :: lo, h :: hi =>
    (List.range (h - l).toNat).flatMap fun (d : Nat) => (cells lo hi).map fun z => (l + (d : Int)) :: z
  | [], [] => [[]]
  | _, _ => []

/-- the cell with lower corner `z` lies in the region dominated by `S` -/
def covered (S : List Pt) (z : Pt) : Bool := S.any fun p => leAll p z

/-- component-wise minimum / maximum -/
def pmin : Pt → Pt → Pt
  | a :: as, b :: bs => min a b :: pmin as bs
  | _, _ => []

def pmax : Pt → Pt → Pt
  | a :: as, b :: bs => max a b :: pmax as bs
  | _, _ => []

/-- a corner below every point of `S` and below `r` -/
def lower (S : List Pt) (r : Pt) : Pt := S.foldr pmin r

/-- number of dominated cells inside the box `[lo, r)` -/
def hvCount (lo : Pt) (S : List Pt) (r : Pt) : Nat := (cells lo r).countP (covered S)

/-- **Specification of the dominated hypervolume** of `S` w.r.t. the reference point `r` -/
def hvSpec (S : List Pt) (r : Pt) : Nat := hvCount (lower S r) S r

/-- hypervolume lost by removing the point with index `i` -/
def contribSpec (S : List Pt) (r : Pt) (i : Nat) : Int :=
  (hvSpec S r : Int) - (hvSpec (S.eraseIdx i) r : Int)

/-! ### HypervolumeCalculator2D -/

def px (p : Pt) : Int := p.getD 0 0
def py (p : Pt) : Int := p.getD 1 0

/-- the integration loop: `last` is `set[lastValidIndex].value` -/
def sweep2d (r0 : Int) : Int → List Pt → Int
  | _, [] => 0
  | last, p :: rest =>
    if last - py p > 0 then (r0 - px p) * (last - py p) + sweep2d r0 (py p) rest
    else sweep2d r0 last rest

/-- the body of `HypervolumeCalculator2D::operator()` on a list that is already
ordered by the first coordinate -/
def hv2dSorted (L : List Pt) (r : Pt) : Int :=
  match L with
  | [] => 0
  | p :: rest => (px r - px p) * (py r - py p) + sweep2d (px r) (py p) rest

/-- `std::sort` on `KeyValuePair` compares keys only; any order among equal keys
is possible in the C++.  The model uses a merge sort; the theorem
`hv2d_sorted_eq_spec` holds for *every* key-ordered permutation. -/
def sortByKey (S : List Pt) : List Pt := S.mergeSort fun a b => decide (px a ≤ px b)

def hv2d (S : List Pt) (r : Pt) : Int := hv2dSorted (sortByKey S) r

/-! ### HypervolumeCalculatorMDWFG -/

/-- `boxVolume(p, ref)` -/
def boxVol : Pt → Pt → Int
  | a :: as, b :: bs => (b - a) * boxVol as bs
  | _, _ => 1

/-- points of rank 1 (the C++ keeps `ranks[pos] == 1` after `nonDominatedSort`;
by `fastSort_eq_rankSpec`/`rankSpec_eq_one_iff` these are the points without a dominator) -/
def nonDominated (S : List Pt) : List Pt := S.filter fun q => !S.any fun s => dominates s q

/-- a re-ordering whose result is a permutation of its input (models `std::sort`
with an arbitrary resolution of ties) -/
structure Reorder where
  f : List Pt → List Pt
  perm : ∀ l, (f l).Perm l

/-- `limitSet(pointset, point)` -/
def limitSet (ord : Reorder) (S : List Pt) (p : Pt) : List Pt :=
  ord.f (nonDominated (S.map (pmax p)))

theorem limitSet_length_le (ord : Reorder) (S : List Pt) (p : Pt) :
    (limitSet ord S p).length ≤ S.length := by
  unfold limitSet nonDominated
  rw [(ord.perm _).length_eq]
  exact Nat.le_trans (List.length_filter_le _ _) (by simp)

mutual
/-- `wfg(points, refPoint)` -/
def wfg (ord : Reorder) (r : Pt) (S : List Pt) : Int :=
  match S with
  | [] => 0
  | [p] => boxVol p r
  | [p, q] => boxVol p r + boxVol q r - boxVol (pmax p q) r
  | p :: q :: s :: rest => wfgSum ord r (p :: q :: s :: rest)
termination_by (S.length, 1)
decreasing_by all_goals simp_wf; all_goals (first | omega | (apply Prod.Lex.right; omega) | skip)

/-- the `for` loop of `wfg`: `Σ_i boxVolume(p_i) - wfg(limitSet(points after i, p_i))` -/
def wfgSum (ord : Reorder) (r : Pt) (S : List Pt) : Int :=
  match S with
  | [] => 0
  | p :: rest => (boxVol p r - wfg ord r (limitSet ord rest p)) + wfgSum ord r rest
termination_by (S.length, 0)
decreasing_by
  all_goals simp_wf
  · apply Prod.Lex.left
    have := limitSet_length_le ord rest p
    omega
  · apply Prod.Lex.left; omega
end

/-- descending by the first coordinate (the comparator of `HypervolumeCalculatorMDWFG`) -/
def sortDesc : Reorder where
  f l := l.mergeSort fun a b => decide (px b ≤ px a)
  perm l := List.mergeSort_perm l _

/-- `HypervolumeCalculatorMDWFG::operator()` -/
def hvWfg (S : List Pt) (r : Pt) : Int := wfg sortDesc r (sortDesc.f S)

/-! ### HypervolumeContribution2D (with reference point) -/

/-- lexicographic order on the first two coordinates (`Point::operator<`) -/
def lexLe (a b : Pt × Nat) : Bool :=
  px a.1 < px b.1 || (px a.1 == px b.1 && py a.1 ≤ py b.1)

/-- contributions of the interior points of the sentinel-extended front:
`(front[i+1].f1 - front[i].f1) * (front[i-1].f2 - front[i].f2)`; `prevY` is
`front[i-1].f2` (initially `ref[1]`), the successor of the last point has `f1 = ref[0]` -/
def contribs2dGo (r0 : Int) : Int → List (Pt × Nat) → List (Int × Nat)
  | _, [] => []
  | prevY, (p, i) :: rest =>
    let nextX := match rest with
      | [] => r0
      | (q, _) :: _ => px q
    ((nextX - px p) * (prevY - py p), i) :: contribs2dGo r0 (py p) rest

/-- all `(contribution, original index)` pairs computed by `HypervolumeContribution2D`,
in front order -/
def contribs2d (S : List Pt) (r : Pt) : List (Int × Nat) :=
  contribs2dGo (px r) (py r) (S.zipIdx.mergeSort lexLe)

/-! ### brute-force specification of subset selection -/

/-- all sublists of length `k` -/
def choose : Nat → List Pt → List (List Pt)
  | 0, _ => [[]]
  | _ + 1, [] => []
  | k + 1, p :: rest => (choose k rest).map (p :: ·) ++ choose (k + 1) rest

/-- the largest hypervolume of a `k`-element sub-multiset of `S` -/
def bestSubsetHv (S : List Pt) (k : Nat) (r : Pt) : Nat :=
  ((choose k S).map fun T => hvSpec T r).foldl max 0

end SharkVerif.HV
