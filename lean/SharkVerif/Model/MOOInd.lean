/-
Executable models of the second-level indicators used by `IndicatorBasedSelection`
(Operators/Indicators/*.h): the shared `leastContributors` loop (remove the least contributor,
re-evaluate, repeat), `HypervolumeIndicator` (on top of the C13 hypervolume models),
`AdditiveEpsilonIndicator`, `CrowdingDistance` and the niche-counting loop of `NSGA3Indicator`.
Core Lean only.
-/
import SharkVerif.Model.MOO
import SharkVerif.Model.Hypervolume
namespace SharkVerif.MOO
open SharkVerif.Pareto SharkVerif.HV

/-- `Indicator::leastContributor(front, archive)`: a position in `front` -/
abbrev LeastFn := (points : List Pt) → (archive : List Pt) → Nat

/-- the loop of `leastContributors(front, archive, K)` shared by `HypervolumeIndicator`,
`CrowdingDistance` and `AdditiveEpsilonIndicator`:
`index = leastContributor(points, archive); points.erase(index); indices.push_back(activeIndices[index]);
activeIndices.erase(index)` — `K` times -/
def iterLeast (lc : LeastFn) (archive : List Pt) : Nat → List Pt → List Nat → List Nat
  | 0, _, _ => []
  | K + 1, points, active =>
    let index := lc points archive
    active.getD index 0 :: iterLeast lc archive K (points.eraseIdx index) (active.eraseIdx index)

/-- the indicator object seen by `IndicatorBasedSelection`: `front`/`archive` are lists of
population indices, `pts` the penalized fitness vectors of the population -/
def mkIndicator (lc : LeastFn) (pts : List Pt) : Indicator := fun front archive K =>
  iterLeast lc (archive.map (pt pts)) K (front.map (pt pts)) (List.range front.length)

/-! ### HypervolumeIndicator -/

/-- contribution of point `i` computed with the hypervolume routine `hv` (`hv2d`, `hvWfg`, …) -/
def contribBy (hv : List Pt → Pt → Int) (S : List Pt) (r : Pt) (i : Nat) : Int :=
  hv S r - hv (S.eraseIdx i) r

/-- position (in `cands`) of the last entry with minimal key; `cands` are `(key, original index)` -/
def lastMin : List (Int × Nat) → Option (Int × Nat)
  | [] => none
  | c :: cs =>
    match lastMin cs with
    | none => some c
    | some b => if c.1 < b.1 then some c else some b

/-- first entry with minimal key -/
def firstMinPair : List (Int × Nat) → Option (Int × Nat)
  | [] => none
  | c :: cs =>
    match firstMinPair cs with
    | none => some c
    | some b => if b.1 < c.1 then some b else some c

/-- component-wise maximum of a non-empty point list (the implicit reference point of the
reference-free contribution routines) -/
def pmaxAll : List Pt → Pt
  | [] => []
  | [p] => p
  | p :: ps => pmax p (pmaxAll ps)

/-- the `(contribution, original index)` pairs `HypervolumeContribution2D::smallest` pushes through its
heap, in front order: the front is ordered lexicographically (`std::sort`; equal points are
interchangeable), with a reference point it is extended by the sentinels `(·, ref₂)` and `(ref₁, ·)` and
every point gets `(front[i+1].f1 - front[i].f1) * (front[i-1].f2 - front[i].f2)`; without reference
point only the interior points of the ordered front do. -/
def contribs2dLit (ref : Option Pt) (points : List Pt) : List (Int × Nat) :=
  let sorted := points.zipIdx.mergeSort lexLe
  match ref with
  | some r => contribs2dGo (px r) (py r) sorted
  | none =>
    match sorted with
    | [] => []
    | first :: rest => (contribs2dGo 0 (py first.1) rest).dropLast

/-- `HypervolumeContribution2D::smallest(points, 1[, ref])[0].value`: the size-1 heap keeps the
*last* of several minimal entries (libstdc++ `push_heap`/`pop_heap`); with no candidate the
default-constructed pair (index 0) is returned. -/
def hvLeast2d (ref : Option Pt) (points : List Pt) : Nat :=
  match lastMin (contribs2dLit ref points) with
  | some b => b.2
  | none => 0

/-- strictly below the reference point in every objective -/
def ltAll : Pt → Pt → Bool
  | a :: as, b :: bs => decide (a < b) && ltAll as bs
  | [], [] => true
  | _, _ => false

/-- `HypervolumeContribution3D::smallest(points, 1, ref)[0].value`: points ordered by the third
coordinate, contributions (hypervolume differences, computed with `hv`) sorted by key (`std::sort`,
stable for ≤ 16 elements): the *first* minimal entry in that order.  A point that is not strictly
below the reference point has contribution 0 and comes first (behaviour of the repaired routine,
finding F-C14-2; the unrepaired one reads out of bounds there and the generator avoids the region). -/
def hvLeast3d (hv : List Pt → Pt → Int) (r : Pt) (points : List Pt) : Nat :=
  match points.zipIdx.filter fun c => !ltAll c.1 r with
  | c :: _ => c.2
  | [] =>
    let sorted := points.zipIdx.mergeSort fun a b => decide (a.1.getD 2 0 ≤ b.1.getD 2 0)
    match firstMinPair (sorted.map fun c => (contribBy hv points r c.2, c.2)) with
    | some b => b.2
    | none => 0

/-- `HypervolumeIndicator::leastContributor` with a reference point, 2 or 3 objectives -/
def hvLeastRef (r : Pt) : LeastFn := fun points _ =>
  if r.length == 2 then hvLeast2d (some r) points else hvLeast3d hvWfg r points

/-- `HypervolumeIndicator::leastContributor` without reference point, 2 objectives -/
def hvLeastNoRef2d : LeastFn := fun points _ => hvLeast2d none points

/-! ### AdditiveEpsilonIndicator -/

/-- `max(q - p)` (largest component of the difference) -/
def maxDiff : Pt → Pt → Option Int
  | a :: as, b :: bs =>
    match maxDiff as bs with
    | none => some (a - b)
    | some m => some (max (a - b) m)
  | _, _ => none

/-- `std::min(result, v)` with `none` = `DBL_MAX` -/
def optMin (a : Option Int) (b : Option Int) : Option Int :=
  match a, b with
  | none, b => b
  | a, none => a
  | some x, some y => some (min x y)

/-- `a < b` with `none` = `DBL_MAX` -/
def optLt (a b : Option Int) : Bool :=
  match a, b with
  | some x, some y => decide (x < y)
  | some _, none => true
  | none, _ => false

/-- the inner loop `for j ≠ i: result = min(result, max(front[j] - front[i]))` -/
def epsVal (points : List Pt) (i : Nat) : Option Int :=
  (List.range points.length).foldl
    (fun acc j => if j == i then acc else optMin acc (maxDiff (pt points j) (pt points i))) none

/-- `if(result < leastValue){ leastValue = result; leastIndex = i; }` over `i = 0, 1, …` -/
def firstMinGo : List (Option Int) → Nat → Nat → Option Int → Nat
  | [], _, bi, _ => bi
  | v :: vs, i, bi, bv => if optLt v bv then firstMinGo vs (i + 1) i v else firstMinGo vs (i + 1) bi bv

/-- `AdditiveEpsilonIndicator::leastContributor` -/
def epsLeast : LeastFn := fun points _ =>
  firstMinGo ((List.range points.length).map (epsVal points)) 0 0 none

/-! ### CrowdingDistance

The distances are `double`s (`(key[j+1] - key[j-1]) / normalizer`, summed over the objectives):
the model is generic in the number type, the native driver instantiates it with `Float` (IEEE
double, the same operations in the same order: bit-exact), the theorems hold for every
instance. -/

structure CrowdNum (α : Type) where
  ofInt : Int → α
  zero : α
  keep : α            -- `std::numeric_limits<double>::max()`
  add : α → α → α
  sub : α → α → α
  div : α → α → α
  lt : α → α → Bool
  eq : α → α → Bool

/-- `std::min_element(distances)`: first position of a strictly smallest entry -/
def minElemGo {α} (N : CrowdNum α) : List α → Nat → Nat → α → Nat
  | [], _, bi, _ => bi
  | v :: vs, i, bi, bv => if N.lt v bv then minElemGo N vs (i + 1) i v else minElemGo N vs (i + 1) bi bv

def minElem {α} (N : CrowdNum α) : List α → Nat
  | [] => 0
  | v :: vs => minElemGo N vs 1 0 v

/-- the update of `distances` for one objective `d`: `order` = (key, value) pairs sorted by key
(`std::sort`: stable insertion sort for ≤ 16 elements in libstdc++) -/
def crowdDim {α} (N : CrowdNum α) (nf : Nat) (order : List (Int × Nat)) (dist : List α) : List α :=
  let n := order.length
  let first := order.getD 0 (0, 0)
  let last := order.getD (n - 1) (0, 0)
  let dist := if first.2 < nf then dist.set first.2 N.keep else dist
  let dist := if last.2 < nf then dist.set last.2 N.keep else dist
  let normalizer := N.sub (N.ofInt last.1) (N.ofInt first.1)
  (List.range (n - 2)).foldl (fun dist j0 =>
    let j := j0 + 1
    let index := (order.getD j (0, 0)).2
    if index ≥ nf || N.eq (dist.getD index N.zero) N.keep then dist
    else
      let d := N.div (N.sub (N.ofInt (order.getD (j + 1) (0, 0)).1) (N.ofInt (order.getD (j - 1) (0, 0)).1)) normalizer
      dist.set index (N.add (dist.getD index N.zero) d)) dist

/-- `CrowdingDistance::leastContributor(front, archive)` -/
def crowdLeast {α} (N : CrowdNum α) : LeastFn := fun front archive =>
  if front.length < 2 then 0 else
  let numDims := (front.getD 0 []).length
  let all := front ++ archive
  let dist := (List.range numDims).foldl (fun dist d =>
    let order := (all.zipIdx.map fun (p, j) => (p.getD d 0, j)).mergeSort fun a b => decide (a.1 ≤ b.1)
    crowdDim N front.length order dist) (List.replicate front.length N.zero)
  minElem N dist

/-! ### NSGA3Indicator: niche counting

`pairing[j] = (distance, (j, closest reference direction))` is computed in floating point (normalised
objective vectors, perpendicular distances to the reference directions); the model takes the association
`assoc j = (order key of the distance, reference index)` of the `na` archive points followed by the front
points as a parameter and models the selection loop.

The C++ loop picks `index = min_element(rho)`, and if no remaining point is associated with it retires the
direction (`rho[index] = n + 1`) and tries again; a direction without remaining points never gets one
later, so the direction finally used is the first one of minimal niche count **among the directions that
still have a remaining point**.  The model chooses that direction directly (structural recursion on the
number of points still to select, no fuel); the equivalence with the retire-and-retry loop is tied by the
exact correspondence. -/

/-- an entry of `pairing`: `(key, point index, reference index)` -/
abbrev NPair := Nat × Nat × Nat

/-- first position of a minimal value among the positions accepted by `ok` (none: no position accepted) -/
def firstMinOn (vals : List Nat) (ok : Nat → Bool) : Option Nat :=
  (firstMinPair (((List.range vals.length).filter ok).map fun z => (Int.ofNat (vals.getD z 0), z))).map (·.2)

/-- position (in `rem`) of the closest remaining point associated with direction `index`: first minimal key -/
def closestPos (rem : List NPair) (index : Nat) : Option Nat :=
  (firstMinPair ((rem.zipIdx.filter fun e => e.1.2.2 == index).map fun e => (Int.ofNat e.1.1, e.2))).map (·.2)

/-- `swap(pairing[k], pairing[c]); ++k` on the remaining part `pairing[k..]` (position `c` relative to `k`) -/
def takeAt (rem : List NPair) (c : Nat) : List NPair :=
  match rem with
  | [] => []
  | h :: t => if c == 0 then t else t.set (c - 1) h

/-- `need` more points are selected from `rem` (niche counts `rho`); returns the unselected rest -/
def nicheSelect : Nat → List Nat → List NPair → List NPair
  | 0, _, rem => rem
  | need + 1, rho, rem =>
    match firstMinOn rho (fun z => rem.any fun e => e.2.2 == z) with
    | none => rem                                   -- no remaining point (or association out of range)
    | some index =>
      match closestPos rem index with
      | none => rem
      | some c => nicheSelect need (rho.set index (rho.getD index 0 + 1)) (takeAt rem c)

/-- `NSGA3Indicator::leastContributors` after the pairing has been computed: `assoc` lists `(key, reference)`
for the `na` archive points followed by the front points, `nz` is the number of reference directions;
returns the positions (in the front) of the `K` unselected points (order as left by the swaps). -/
def nsga3Least (nz na : Nat) (assoc : List (Nat × Nat)) (K : Nat) : List Nat :=
  let n := assoc.length
  let pairing : List NPair := assoc.zipIdx.map fun (a, j) => (a.1, j, a.2)
  let rho0 := (assoc.take na).foldl (fun rho a => rho.set a.2 (rho.getD a.2 0 + 1)) (List.replicate nz 0)
  (nicheSelect (n - K - na) rho0 (pairing.drop na)).map fun p => p.2.1 - na

/-- the indicator object seen by `IndicatorBasedSelection`; `assocOf front archive` is the floating-point
association step (an arbitrary function in the theorems, observed from the real code in the tie) -/
def nsga3Indicator (nz : Nat) (assocOf : List Nat → List Nat → List (Nat × Nat)) : Indicator :=
  fun front archive K => nsga3Least nz archive.length (assocOf front archive) K

end SharkVerif.MOO
