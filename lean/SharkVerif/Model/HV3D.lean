/-
Executable model of `HypervolumeCalculator3D::operator()`
(Operators/Hypervolume/HypervolumeCalculator3D.h): filter of the points that are
strictly inside the reference box, sort by the third coordinate, sweep with the
2-D front kept in a `std::map<double,double>` (here: an association list with
strictly increasing keys), running `area` and `volume`.  Core Lean only.
-/
import SharkVerif.Model.Hypervolume
namespace SharkVerif.HV
open SharkVerif.Pareto

def pz (p : Pt) : Int := p.getD 2 0

/-- `std::map<double,double> front2D`: (first coordinate ↦ second coordinate), keys strictly increasing -/
abbrev Front := List (Int × Int)

/-- the local variables of the sweep that survive an iteration -/
structure S3 where
  front : Front
  area : Int
  volume : Int
  prev : Int          -- `prev_x2`
  deriving Repr, DecidableEq

/-- the loop `while (right != front2D.end() && right->second >= x[1])`: `rights` is the part of the map
from `right` on, `acc` the area removed so far; returns what is left of the map and the removed area.
Each removed entry `tmp` takes away `(r - tmp->first) * (t - tmp->second)`, `r` being the key of its successor
(the reference point's first coordinate `r0` at the end of the map). -/
def dropDominated (r0 t y : Int) : Front → Int → Front × Int
  | [], acc => ([], acc)
  | (k, v) :: rest, acc =>
    if v ≥ y then
      let r := match rest with
        | [] => r0
        | (k', _) :: _ => k'
      dropDominated r0 t y rest (acc + (r - k) * (t - v))
    else ((k, v) :: rest, acc)

/-- one iteration of `for (size_t i=1; i<set.size(); i++)` for the point `x` -/
def step3 (r : Pt) (st : S3) (x : Pt) : S3 :=
  -- `right = front2D.lower_bound(x[0])`: first entry with key ≥ x[0]
  let lefts := st.front.takeWhile fun e => e.1 < px x
  let rights := st.front.dropWhile fun e => e.1 < px x
  -- value of the entry before `right` (`--left`); `refPoint[1]` when `right` is the first entry
  let leftY : Int := match lefts.getLast? with
    | some e => e.2
    | none => py r
  let t : Int := match rights with
    | [] => leftY
    | (k, v) :: _ => if k == px x then v else leftY
  if py x ≥ t then st            -- `continue`: x is dominated
  else
    let volume := st.volume + st.area * (pz x - st.prev)
    let (rights', removed) := dropDominated (px r) t (py x) rights 0
    let rr := match rights' with
      | [] => px r
      | (k, _) :: _ => k
    { front := lefts ++ (px x, py x) :: rights'
      area := st.area - removed + (rr - px x) * (t - py x)
      volume := volume
      prev := pz x }

/-- state after "add the first point" -/
def init3 (r x0 : Pt) : S3 :=
  { front := [(px x0, py x0)], area := (px r - px x0) * (py r - py x0), volume := 0, prev := pz x0 }

/-- the body of `operator()` after the filter and the sort: `L` is `set` -/
def hv3dSorted (L : List Pt) (r : Pt) : Int :=
  match L with
  | [] => 0
  | x0 :: rest =>
    let st := rest.foldl (step3 r) (init3 r x0)
    st.volume + st.area * (pz r - st.prev)

/-- `p[0] < refPoint[0] && p[1] < refPoint[1] && p[2] < refPoint[2]` -/
def inside3 (r p : Pt) : Bool := decide (px p < px r) && decide (py p < py r) && decide (pz p < pz r)

/-- `std::sort` by the third coordinate only: any order among equal keys is possible in the C++; the model
uses a merge sort, the theorem `hv3dSorted_eq_spec` holds for every key-ordered list. -/
def sortByZ (S : List Pt) : List Pt := S.mergeSort fun a b => decide (pz a ≤ pz b)

/-- `HypervolumeCalculator3D::operator()` -/
def hv3d (S : List Pt) (r : Pt) : Int := hv3dSorted (sortByZ (S.filter (inside3 r))) r

end SharkVerif.HV
