/-
C06: the *output objects* of the derivative calls.

`AbstractLoss::evalDerivative(labels, predictions, gradient)` does not return its gradient, it writes it
into a matrix object handed in by the caller, and the library hands in the same object again and again
(`ErrorFunctionImpl::evalDerivative(start,end,…)` keeps one `errorDerivative` matrix for all batches of a
thread's range, `WeightedErrorFunctionImpl` one `singleDerivative` vector for all elements of a batch).
This file models that object and what every loss does to it:

* `OutMat`: a remora dense matrix = two sizes and a `std::vector` storage; `resize(n,m)` is
  `std::vector::resize(n·m)` (the flat prefix survives, new cells are zero — in particular a resize to the
  size the matrix already has keeps every old entry), `clear()` fills with zeros;
* every entry of the result is the entry that was there after `resize` (or `0` if the loss calls `clear()`),
  followed by the writes the loss performs on that entry in program order (`Write`: `=` and `-=`);
* `…Into old labels preds`: the call on the object `old`; the value it returns and the contents of the
  object afterwards.

The contract ("the result does not depend on the previous contents of the output argument") is proved in
`Props/C06.lean` §5 from the write lists.  Whether a loss calls `clear()` before its branches is regenerated
from the C++ on every run (`Gen/LossOutputs.lean`).  Core Lean only.
-/
import SharkVerif.Model.Loss2
import SharkVerif.Gen.LossOutputs
namespace SharkVerif.LossOut
open Scalar SharkVerif.Loss
variable {α : Type} [Scalar α]

/-- remora `matrix<double>`: sizes and row-major storage -/
structure OutMat (α : Type) where
  n : Nat
  m : Nat
  data : List α

/-- `std::vector<double>::resize(k)` -/
def vresize (d : List α) (k : Nat) : List α := d.take k ++ List.replicate (k - d.length) 0
/-- `matrix::resize(size1, size2)`: `m_data.resize(size1*size2)`, the sizes are overwritten -/
def OutMat.resize (g : OutMat α) (n m : Nat) : OutMat α := ⟨n, m, vresize g.data (n * m)⟩
def OutMat.entry (g : OutMat α) (i j : Nat) : α := g.data.getD (i * g.m + j) 0
def OutMat.rows (g : OutMat α) : List (List α) :=
  (List.range g.n).map fun i => (List.range g.m).map fun j => g.entry i j
def OutMat.ofRows (n m : Nat) (rows : List (List α)) : OutMat α := ⟨n, m, rows.flatten⟩
def OutMat.empty : OutMat α := ⟨0, 0, []⟩

/-- one statement of a loss that touches an entry of the output -/
inductive Write (α : Type) where
  | assign (v : α)   -- `gradient(i,j) = v`, `noalias(row(gradient,i)) = …`, `row(gradient,i).clear()`
  | sub (v : α)      -- `gradient(i,j) -= v`

def Write.apply : Write α → α → α
  | .assign v, _ => v
  | .sub v, b => b - v
def Write.isAssign : Write α → Bool
  | .assign _ => true
  | .sub _ => false
/-- the writes of one entry in program order, applied to what the entry held before -/
def applyAll (ws : List (Write α)) (b : α) : α := ws.foldl (fun x w => w.apply x) b

/-- the contents of the output object after a derivative call: `resize(n,m)`, `clear()` if the loss
calls it, then the writes of every entry -/
def intoRows (clears : Bool) (writes : Nat → Nat → List (Write α)) (old : OutMat α) (n m : Nat) : List (List α) :=
  (List.range n).map fun i => (List.range m).map fun j =>
    applyAll (writes i j) (if clears then 0 else (old.resize n m).entry i j)

/-- a loss as the caller sees it: sizes of the result, the returned value, its `clear()` flag, its writes -/
structure OutLoss (α : Type) where
  n : Nat
  m : Nat
  value : α
  clears : Bool
  writes : Nat → Nat → List (Write α)

def OutLoss.into (l : OutLoss α) (old : OutMat α) : α × OutMat α :=
  (l.value, OutMat.ofRows l.n l.m (intoRows l.clears l.writes old l.n l.m))
def OutLoss.rowsInto (l : OutLoss α) (old : OutMat α) : List (List α) := intoRows l.clears l.writes old l.n l.m

def ncols (preds : List (List α)) : Nat := (preds.headD []).length
/-- a loss whose derivative call assigns every entry (`noalias(gradient) = …` or a loop without guard) -/
def assignAll (preds : List (List α)) (r : α × List (List α)) : OutLoss α :=
  { n := preds.length, m := ncols preds, value := r.1, clears := false,
    writes := fun i j => [.assign ((r.2.getD i []).getD j 0)] }

/-! ### the losses -/
/-- `SquaredLoss`: `gradient.resize; noalias(gradient) = prediction - label` -/
def squaredOut (labels preds : List (List α)) : OutLoss α := assignAll preds (squaredEvalDerivative labels preds)
/-- `SquaredLoss<_,unsigned>`: `noalias(gradient) = predictions; gradient(i,c) -= 1` -/
def squaredClassOut (labels : List Nat) (preds : List (List α)) : OutLoss α :=
  { n := preds.length, m := ncols preds, value := (squaredClassEvalDerivative labels preds).1, clears := false,
    writes := fun i j => .assign ((preds.getD i []).getD j 0) :: (if labels.getD i 0 = j then [.sub 1] else []) }

/-- `HingeLoss`: `resize`, `clear()` (flag regenerated from the header), then in the one-column branch
`if(sampleLoss > 0) gradient(i,0) = -y`; in the multi-class branch for every violated wrong class `o`
`gradient(i,o) = 0.5; gradient(i,c) -= 0.5` -/
def hingeWrites (labels : List Nat) (preds : List (List α)) (i j : Nat) : List (Write α) :=
  let c := labels.getD i 0
  let p := preds.getD i []
  if ncols preds = 1 then
    let y : α := two * ofNat c - 1
    if 0 < smax 0 (1 - y * p.getD 0 0) then [.assign (-y)] else []
  else
    let viol (o : Nat) : Bool := o ≠ c && decide (0 < smax 0 (two - p.getD c 0 + p.getD o 0))
    if j = c then (((List.range p.length).filter viol).map fun _ => Write.sub half)
    else if viol j then [.assign half] else []
def hingeOut (labels : List Nat) (preds : List (List α)) : OutLoss α :=
  { n := labels.length, m := ncols preds, value := (hingeEvalDerivative labels preds).1,
    clears := Gen.LossOutputs.hingeClears, writes := hingeWrites labels preds }

/-- `SquaredHingeLoss`: same shape, `gradient(i,0) = -y*sampleLoss`;
`gradient(i,o) = sampleLoss*0.25; gradient(i,c) -= sampleLoss*0.25` -/
def sqHingeWrites (labels : List Nat) (preds : List (List α)) (i j : Nat) : List (Write α) :=
  let c := labels.getD i 0
  let p := preds.getD i []
  let quarter : α := Scalar.dyadic 1 2
  if ncols preds = 1 then
    let y : α := two * ofNat c - 1
    let s := smax 0 (1 - y * p.getD 0 0)
    if 0 < s then [.assign (-y * s)] else []
  else
    let sl (o : Nat) : α := smax 0 (two - p.getD c 0 + p.getD o 0)
    let viol (o : Nat) : Bool := o ≠ c && decide (0 < sl o)
    if j = c then (((List.range p.length).filter viol).map fun o => Write.sub (sl o * quarter))
    else if viol j then [.assign (sl j * quarter)] else []
def sqHingeOut (labels : List Nat) (preds : List (List α)) : OutLoss α :=
  { n := labels.length, m := ncols preds, value := (sqHingeEvalDerivative labels preds).1,
    clears := Gen.LossOutputs.sqHingeClears, writes := sqHingeWrites labels preds }

/-- `EpsilonHingeLoss`: no `clear()`; `gradient(i,o) = 0; if(sampleLoss > 0) gradient(i,o) = ±1` -/
def epsHingeOut (eps : α) (labels preds : List (List α)) : OutLoss α :=
  { n := preds.length, m := ncols preds, value := (epsHingeEvalDerivative eps labels preds).1, clears := false,
    writes := fun i j =>
      let lo := (labels.getD i []).getD j 0
      let po := (preds.getD i []).getD j 0
      .assign 0 :: (if 0 < smax 0 (sabs (po - lo) - eps) then [.assign (if lo < po then (1 : α) else -1)] else []) }
/-- `SquaredEpsilonHingeLoss`: per row either `noalias(row) = p - l` or `row.clear()` -/
def sqEpsHingeOut (sqrEps : α) (labels preds : List (List α)) : OutLoss α :=
  assignAll preds (sqEpsHingeEvalDerivative sqrEps labels preds)
/-- `HuberLoss`: per row one of two row assignments -/
def huberOut (sqrt : α → α) (delta : α) (labels preds : List (List α)) : OutLoss α :=
  assignAll preds (huberEval sqrt delta labels preds, List.zipWith (huberGradRow sqrt delta) labels preds)
/-- `CrossEntropy` (class labels): `gradient(i,0) = …` / `noalias(gradRow) = exp(…); gradRow /= norm; gradient(i,c) -= 1` -/
def crossEntropyOut (exp log : α → α) (labels : List Nat) (preds : List (List α)) : OutLoss α :=
  assignAll preds (ceEvalDerivative exp log labels preds)
/-- `CrossEntropy` (probability labels): three whole-matrix assignments -/
def crossEntropySoftOut (exp log : α → α) (labels preds : List (List α)) : OutLoss α :=
  assignAll preds (ceSoftEvalDerivative exp log labels preds)

/-! ### call histories on one output object -/
/-- a history of derivative calls (any losses, any shapes) on one object: the value and the contents of
the object after every call -/
def runHistory (old : OutMat α) : List (OutLoss α) → List (α × List (List α))
  | [] => []
  | l :: rest => (l.value, l.rowsInto old) :: runHistory (l.into old).2 rest

/-! ### `SquaredLoss<Sequence,Sequence>`: the output is a `std::vector<Sequence>`.

The intended behaviour (and the model): `gradient.resize(n)`, every sequence is rebuilt.  (The checked tree
`push_back`s onto whatever sequence the object held: finding F-C06-5, `seqIntoAppending` is that behaviour.) -/
def seqInto (ignore : Nat) (_old : List (List (List α))) (labels preds : List (List (List α))) :
    α × List (List (List α)) := squaredSeqEvalDerivative ignore labels preds
def seqIntoAppending (ignore : Nat) (old : List (List (List α))) (labels preds : List (List (List α))) :
    α × List (List (List α)) :=
  let r := squaredSeqEvalDerivative ignore labels preds
  (r.1, (List.range r.2.length).map fun i => old.getD i [] ++ r.2.getD i [])

end SharkVerif.LossOut
