/-
CSV readers of `src/Data/Csv.cpp`: bytes → rows / points through the PEG model
(`Model/Peg.lean`), then the post-parse logic of `Model/Import.lean`.
Core Lean only.
-/
import SharkVerif.Model.Peg
import SharkVerif.Model.Import
namespace SharkVerif.Import.Csv
open SharkVerif.Peg

/-- split an event list into records at the `mark`s -/
def splitMarks : List Ev → List Ev → List (List Ev) → List (List Ev)
  | [], _, acc => acc.reverse          -- events after the last mark do not belong to a record
  | .mark :: t, cur, acc => splitMarks t [] (cur.reverse :: acc)
  | e :: t, cur, acc => splitMarks t (e :: cur) acc

def valsOf (evs : List Ev) : List Val :=
  evs.filterMap fun e => match e with
    | .val v => some v
    | _ => none

def labelOf (evs : List Ev) : Int :=
  match evs.find? (fun e => match e with | .int _ => true | _ => false) with
  | some (.int i) => i
  | _ => 0

/-- `if(std::isspace(separator)) separator = 0;` -/
def wsSep (sep : Char) : Bool := isSpace sep || sep.toNat == 0

/-- `importCSVReaderSingleValues`: `none` = "Failed to parse file" (or a hang) -/
def readRows (bytes : List Char) (sep comment : Char) : Option (List (List Val)) :=
  let g := if wsSep sep then rowsWs else rowsSep sep
  match phraseParse g (csvSkipper comment) bytes with
  | .ok [] evs => some ((splitMarks evs [] []).map valsOf)
  | _ => none

/-- `import_csv_reader_points`, FIRST_COLUMN -/
def readPointsFirst (bytes : List Char) (sep comment : Char) : Option (List (Int × List Val)) :=
  let g := if wsSep sep then pointsFirstWs else pointsFirstSep sep
  match phraseParse g (csvSkipper comment) bytes with
  | .ok [] evs => some ((splitMarks evs [] []).map fun r => (labelOf r, valsOf r))
  | _ => none

/-- LAST_COLUMN: `do { r = phrase_parse(one record); push_back } while(r && first != last)` -/
def readPointsLastLoop (g sk : G) : Nat → List Char → List (Int × List Val) → Option (List (Int × List Val))
  | 0, _, _ => none
  | f+1, s, acc =>
    match phraseParse g sk s with
    | .ok rest evs =>
      let acc := (labelOf evs, valsOf evs) :: acc
      if rest.isEmpty then some acc.reverse
      else if rest.length < s.length then readPointsLastLoop g sk f rest acc
      else none
    | _ => none

def readPointsLast (bytes : List Char) (sep comment : Char) : Option (List (Int × List Val)) :=
  let g := if wsSep sep then pointLastWs else pointLastSep sep
  readPointsLastLoop g (csvSkipper comment) (bytes.length + 1) bytes []

/-- `importCSVReaderSingleValue<T>` (`*auto_` under `space | comment…`): the values, or `none` -/
def readValues (g : G) (bytes : List Char) (comment : Char) : Option (List Ev) :=
  match phraseParse g (valueSkipper comment) bytes with
  | .ok [] evs => some evs
  | _ => none

end SharkVerif.Import.Csv

/-! ### exporters as token printers (`detail::exportCSV_labeled`, `exportSparseData`) -/
namespace SharkVerif.Import.Export

def natDigits (n : Nat) : List Char := (toString n).toList

/-- exact decimal rendering of a dyadic value `± m·2^e` (what `operator<<` prints, up to
the notation: the C++ uses scientific notation with 10 resp. 6 digits, exact for the
values the round-trip generator uses) -/
def showVal : Val → List Char
  | .fin neg m e =>
    let sign := if neg && m != 0 then ['-'] else []
    if e ≥ 0 then sign ++ natDigits (m * 2 ^ e.toNat)
    else
      let k := (-e).toNat
      let n := m * 5 ^ k
      let ip := n / 10 ^ k
      let fp := natDigits (n % 10 ^ k)
      sign ++ natDigits ip ++ ['.'] ++ List.replicate (k - fp.length) '0' ++ fp
  | .inf neg => if neg then "-inf".toList else "inf".toList
  | .nan => "nan".toList

def joinWith (sep : List Char) : List (List Char) → List Char
  | [] => []
  | [a] => a
  | a :: t => a ++ sep ++ joinWith sep t

/-- `exportCSV(LabeledData<RealVector, unsigned int>, …, lp, separator)` -/
def csvClass (pts : List (Nat × List Val)) (labelFirst : Bool) (sep : Char) : List Char :=
  pts.flatMap fun p =>
    let cells := p.2.map showVal
    let all := if labelFirst then natDigits p.1 :: cells else cells ++ [natDigits p.1]
    joinWith [sep] all ++ ['\n']

/-- `exportCSV(LabeledData<RealVector, RealVector>, …, lp, separator)` -/
def csvRegr (pts : List (List Val × List Val)) (labelFirst : Bool) (sep : Char) : List Char :=
  pts.flatMap fun p =>
    let ins := p.1.map showVal
    let outs := p.2.map showVal
    joinWith [sep] (if labelFirst then outs ++ ins else ins ++ outs) ++ ['\n']

def svmFeats (vs : List Val) : List Char :=
  (List.zip (List.range vs.length) vs).flatMap fun q => [' '] ++ natDigits (q.1 + 1) ++ [':'] ++ showVal q.2

/-- `exportSparseData(LabeledData<InputType, unsigned int>)` with the default `oneMinusOne = true` -/
def svmClass (pts : List (Nat × List Val)) : List Char :=
  let classes := numberOfClasses (pts.map (·.1))
  pts.flatMap fun p =>
    let lab : List Char :=
      if classes == 2 then (if p.1 == 0 then "-1".toList else natDigits (2 * p.1 - 1)) else natDigits (p.1 + 1)
    lab ++ [' '] ++ svmFeats p.2 ++ ['\n']

/-- `exportSparseData(LabeledData<InputType, RealVector>)` -/
def svmRegr (pts : List (Val × List Val)) : List Char :=
  pts.flatMap fun p => showVal p.1 ++ svmFeats p.2 ++ ['\n']

end SharkVerif.Import.Export
