/-
CSV readers of `src/Data/Csv.cpp`: bytes → rows / points through the PEG model
(`Model/Peg.lean`), then the post-parse logic of `Model/Import.lean`.
Core Lean only.
-/
import SharkVerif.Model.Peg
import SharkVerif.Model.Import
namespace SharkVerif.Import.Csv
open SharkVerif.Peg

/-- split an event list into records at the `mark`s -/
def splitMarks : List Ev → List Ev → List (List Ev) → List (List Ev)
  | [], _, acc => acc.reverse          -- events after the last mark do not belong to a record
  | .mark :: t, cur, acc => splitMarks t [] (cur.reverse :: acc)
  | e :: t, cur, acc => splitMarks t (e :: cur) acc

def valsOf (evs : List Ev) : List Val :=
  evs.filterMap fun e => match e with
    | .val v => some v
    | _ => none

def labelOf (evs : List Ev) : Int :=
  match evs.find? (fun e => match e with | .int _ => true | _ => false) with
  | some (.int i) => i
  | _ => 0

/-- `if(std::isspace(separator)) separator = 0;` -/
def wsSep (sep : Char) : Bool := isSpace sep || sep.toNat == 0

/-- `importCSVReaderSingleValues`: `none` = "Failed to parse file" (or a hang) -/
def readRows (bytes : List Char) (sep comment : Char) : Option (List (List Val)) :=
  let g := if wsSep sep then rowsWs else rowsSep sep
  match phraseParse g (csvSkipper comment) bytes with
  | .ok [] evs => some ((splitMarks evs [] []).map valsOf)
  | _ => none

/-- `import_csv_reader_points`, FIRST_COLUMN -/
def readPointsFirst (bytes : List Char) (sep comment : Char) : Option (List (Int × List Val)) :=
  let g := if wsSep sep then pointsFirstWs else pointsFirstSep sep
  match phraseParse g (csvSkipper comment) bytes with
  | .ok [] evs => some ((splitMarks evs [] []).map fun r => (labelOf r, valsOf r))
  | _ => none

/-- LAST_COLUMN: `do { r = phrase_parse(one record); push_back } while(r && first != last)` -/
def readPointsLastLoop (g sk : G) : Nat → List Char → List (Int × List Val) → Option (List (Int × List Val))
  | 0, _, _ => none
  | f+1, s, acc =>
    match phraseParse g sk s with
    | .ok rest evs =>
      let acc := (labelOf evs, valsOf evs) :: acc
      if rest.isEmpty then some acc.reverse
      else if rest.length < s.length then readPointsLastLoop g sk f rest acc
      else none
    | _ => none

/-- the same loop with the two ways of not terminating made explicit: `spin` = `phrase_parse` returned true
without moving `first` (the C++ `do … while(r && first != last)` would then repeat the same call forever),
`fuel` = the model's iteration bound ran out.  `Lemmas/ImportCsv.lean` proves that neither occurs for the
record grammars and that `readPointsLastLoop` is this loop. -/
inductive LoopRes where
  | done (pts : List (Int × List Val))
  | error
  | spin
  | fuel
  deriving Repr, DecidableEq

def readPointsLastLoopR (g sk : G) : Nat → List Char → List (Int × List Val) → LoopRes
  | 0, _, _ => .fuel
  | f+1, s, acc =>
    match phraseParse g sk s with
    | .ok rest evs =>
      let acc := (labelOf evs, valsOf evs) :: acc
      if rest.isEmpty then .done acc.reverse
      else if rest.length < s.length then readPointsLastLoopR g sk f rest acc
      else .spin
    | .fail => .error
    | .hang => .spin

def LoopRes.toOption : LoopRes → Option (List (Int × List Val))
  | .done pts => some pts
  | _ => none

def readPointsLast (bytes : List Char) (sep comment : Char) : Option (List (Int × List Val)) :=
  let g := if wsSep sep then pointLastWs else pointLastSep sep
  readPointsLastLoop g (csvSkipper comment) (bytes.length + 1) bytes []

/-- `importCSVReaderSingleValue<T>` (`*auto_` under `space | comment…`): the values, or `none` -/
def readValues (g : G) (bytes : List Char) (comment : Char) : Option (List Ev) :=
  match phraseParse g (valueSkipper comment) bytes with
  | .ok [] evs => some evs
  | _ => none


/-- `importCSV(Data<T>&, fn, …, titleLines)`: `stream.ignore(max, '\n')` per title line, then the
rest of the file byte for byte (`istream_iterator<char>` with `skipws` unset) -/
def dropTitleLines : Nat → List Char → List Char
  | 0, s => s
  | _+1, [] => []
  | k+1, c :: t => if c == '\n' then dropTitleLines k t else dropTitleLines (k+1) t

/-! ### the importers from BYTES: reader, then post-parse logic -/

/-- `csvStringToData(Data<RealVector>&, contents, separator, comment, maximumBatchSize)` -/
def importRowsBytes (bytes : List Char) (sep comment : Char) (maxB : Nat) : Outcome Val :=
  match readRows bytes sep comment with
  | none => .error
  | some rows => importRows rows maxB

/-- `csvStringToData(LabeledData<RealVector, RealVector>&, contents, lp, numberOfOutputs, …)` -/
def importRegrBytes (bytes : List Char) (labelFirst : Bool) (numOut : Nat) (sep comment : Char) (maxB : Nat) : Outcome Val :=
  match readRows bytes sep comment with
  | none => .error
  | some rows => importRegr rows labelFirst numOut maxB

/-- `csvStringToData(LabeledData<RealVector, unsigned int>&, contents, lp, …)` -/
def importClassBytes (bytes : List Char) (labelFirst : Bool) (sep comment : Char) (maxB : Nat) : Outcome Val :=
  match (if labelFirst then readPointsFirst bytes sep comment else readPointsLast bytes sep comment) with
  | none => .error
  | some pts => importClass pts maxB

end SharkVerif.Import.Csv

namespace SharkVerif.Import.Svm

/-- `importSparseData(dataset, stream, highestIndex, batchSize)`: record reader
(`importSparseDataReader`), then the importer logic -/
def importBytes (cfg : Cfg) (bytes : List Char) : Outcome Val :=
  match svmRecords bytes with
  | none => .error
  | some recs => importRepaired Val.zero Val.toInt32 cfg (recs.map fun r => { label := r.1, feats := r.2 })

end SharkVerif.Import.Svm
