/-
Executable exact-arithmetic (`Rat`) models of the closed-form KERNEL trainers of
`Algorithms/Trainers` and of the places where a closed-form trainer calls the Cholesky solver
(`solve(·,·,symm_pos_def(),·)`), which are expressed through the C02 model `Model/LinSolve.lean`
so that the theorems of `Props/C15.lean` compose with `Props/C02.lean`:

  * `RegularizationNetworkTrainer.h`   (= `GaussianProcessTrainer`; kernel ridge regression)
  * `KernelMeanClassifier.h`           (nearest class mean in feature space; weighted)
  * `NormalizeKernelUnitVariance.h`    (normalisation trainer: unit variance in feature space)
  * `src/Algorithms/FisherLDA.cpp`     (`meanAndScatter`: `Sw`, `Sb`, `solve(Sw, Sb, symm_pos_def(), left)`)
  * `src/Algorithms/LDA.cpp`           (`LDA::train` assembled from `ldaMean`/`ldaCov`/`ldaPrior` and the solver)

The kernel is a parameter `k : Vec → Vec → Rat`; the driver instantiates `LinearKernel` and
`PolynomialKernel(2, 1)`, both exact on integer / dyadic data.

Core Lean only (no Mathlib): linked into the native driver `drv_c15`.
-/
import SharkVerif.Model.Trainers
import SharkVerif.Model.LinSolve
namespace SharkVerif.Trainers
open SharkVerif

abbrev Kernel := Vec → Vec → Rat

/-- `LinearKernel::eval` on inputs of dimension `d` -/
def linearKernel (d : Nat) : Kernel := fun x y => rsum d fun j => x.at j * y.at j

/-- `PolynomialKernel(2, 1)::eval`: `(⟨x,y⟩ + 1)²` -/
def polyKernel (d : Nat) : Kernel := fun x y => (linearKernel d x y + 1) * (linearKernel d x y + 1)

/-- element `a` of a batched dataset (batches are concatenated: `batchStart` offsets of the C++) -/
def elemAt {α : Type} [Inhabited α] (bs : List (List α)) (a : Nat) : α := (bs.flatten)[a]?.getD default

/-- the scale `NormalizeComponentsZCA::train` gives eigen-direction `k`: `1/sqrt(D_k)` if `D_k > 1e-15·D_0`, else 0
(the direction is cleared) -/
def zcaScale (sqrt : Rat → Rat) (D : Nat → Rat) (k : Nat) : Rat :=
  if D k > (1 / 1000000000000000) * D 0 then 1 / sqrt (D k) else 0

/-! ## NormalizeKernelUnitVariance -/

/-- `sum(k(batch, batch'))` -/
def blockSum (k : Kernel) (B B' : List Vec) : Rat := lsum B fun x => lsum B' fun y => k x y

/-- `blas::trace(k(batch, batch))` -/
def blockTrace (k : Kernel) (B : List Vec) : Rat := lsum B fun x => k x x

/-- the loop over the batches: `for j < i: m_mean += 2*sum(k(batch_i, batch_j)); m_mean += sum(k(batch_i, batch_i))`
(`prev` = the batches before the current one) -/
def nkuvMeanAux (k : Kernel) : List (List Vec) → List (List Vec) → Rat
  | _, [] => 0
  | prev, B :: rest => lsum prev (fun B' => 2 * blockSum k B B') + blockSum k B B + nkuvMeanAux k (prev ++ [B]) rest

/-- `m_mean` after training (the SUM of all kernel matrix entries, despite its name) -/
def nkuvMean (k : Kernel) (bs : List (List Vec)) : Rat := nkuvMeanAux k [] bs

/-- `m_matrixTrace` -/
def nkuvTrace (k : Kernel) (bs : List (List Vec)) : Rat := lsum bs (blockTrace k)

/-- `tm = m_matrixTrace/N − m_mean/N/N`: the variance of the data in feature space -/
def nkuvVariance (k : Kernel) (bs : List (List Vec)) : Rat :=
  nkuvTrace k bs / (count bs : Nat) - nkuvMean k bs / (count bs : Nat) / (count bs : Nat)

/-- the factor installed in the `ScaledKernel` -/
def nkuvFactor (k : Kernel) (bs : List (List Vec)) : Rat := 1 / nkuvVariance k bs

/-- variance in feature space of a kernel on a plain list of points: `1/N Σ k(x,x) − 1/N² Σ_{x,y} k(x,y)` -/
def featureVariance (k : Kernel) (xs : List Vec) : Rat :=
  lsum xs (fun x => k x x) / (xs.length : Nat) - lsum xs (fun x => lsum xs fun y => k x y) / (xs.length : Nat) / (xs.length : Nat)

/-! ## KernelMeanClassifier -/

/-- coefficient of example `p` for class `c`: `alpha(i, y_i) = w_i / W_{y_i}`, 0 for the other classes -/
def kmCoef (bs : WCData) (c : Nat) (p : Vec × Nat × Rat) : Rat := if p.2.1 = c then p.2.2 / classWeight bs c else 0

/-- `offset(c) = Σ_{i,j ∈ c} w_i w_j k(x_i, x_j) / W_c²`  (the squared norm of the class mean in feature space) -/
def kmOffset (k : Kernel) (bs : WCData) (c : Nat) : Rat :=
  bsum bs (fun p => if p.2.1 = c then bsum bs (fun q => if q.2.1 = c then p.2.2 * q.2.2 * k p.1 q.1 else 0) else 0)
    / (classWeight bs c * classWeight bs c)

/-- decision value of class `c` of the installed multi-class expansion: `Σ_i alpha(i,c) k(x_i, x) − offset(c)/2` -/
def kmDecision (k : Kernel) (bs : WCData) (c : Nat) (x : Vec) : Rat :=
  bsum bs (fun p => kmCoef bs c p * k p.1 x) + -(kmOffset k bs c) / 2

/-- the single decision value of the binary classifier: coefficients `alpha(·,1) − alpha(·,0)`, offset `(offset(0) − offset(1))/2` -/
def kmDecisionBinary (k : Kernel) (bs : WCData) (x : Vec) : Rat :=
  bsum bs (fun p => (kmCoef bs 1 p - kmCoef bs 0 p) * k p.1 x) + (kmOffset k bs 0 - kmOffset k bs 1) / 2

/-- squared feature-space distance of `x` to the weighted class mean `μ_c = Σ_i a_i φ(x_i)`, `a_i = kmCoef bs c p_i`:
`k(x,x) − 2 Σ_i a_i k(x_i,x) + Σ_{i,j} a_i a_j k(x_i,x_j)` -/
def kmDist2 (k : Kernel) (bs : WCData) (c : Nat) (x : Vec) : Rat :=
  k x x - 2 * bsum bs (fun p => kmCoef bs c p * k p.1 x)
    + bsum bs (fun p => bsum bs fun q => kmCoef bs c p * kmCoef bs c q * k p.1 q.1)

/-! ## RegularizationNetworkTrainer -/

/-- mean of label column `c` (the offset the trainer installs) -/
def regnetMean (bs : List (List (Vec × Vec))) (c : Nat) : Rat := bsum bs (fun p => p.2.at c) / (count bs : Nat)

/-- `M = calculateRegularizedKernelMatrix(kernel, inputs, noiseVariance)`: `K + σ²·I` -/
def regnetM (k : Kernel) (bs : List (List (Vec × Vec))) (noise : Rat) (a b : Nat) : Rat :=
  k (elemAt bs a).1 (elemAt bs b).1 + (if a = b then noise else 0)

/-- centred labels `V = L − mean` -/
def regnetRhs (bs : List (List (Vec × Vec))) (a c : Nat) : Rat := (elemAt bs a).2.at c - regnetMean bs c

/-- the Cholesky branch `alpha = inv(M, symm_pos_def()) % V`, through the C02 model of
`cholesky_decomposition::solve` (`potrf`, two triangular solves), column by column; `r` is the square root -/
def regnetAlphaChol (r : Rat → Rat) (k : Kernel) (bs : List (List (Vec × Vec))) (noise : Rat) (a c : Nat) : Rat :=
  LinSolve.vget (LinSolve.solveSpdArr r (count bs) (regnetM k bs noise) (fun i => regnetRhs bs i c)) a

/-- prediction of the trained expansion at training point `i`: `Σ_j alpha_j k(x_j, x_i) + b` -/
def regnetPredict (k : Kernel) (bs : List (List (Vec × Vec))) (alpha : Nat → Rat) (b : Rat) (i : Nat) : Rat :=
  rsum (count bs) (fun j => alpha j * k (elemAt bs j).1 (elemAt bs i).1) + b

/-- the regularised empirical risk of kernel ridge regression for label column `c`:
`½ Σ_i (f(x_i) − l_i)² + ½ σ² αᵀKα` -/
def regnetObjective (k : Kernel) (bs : List (List (Vec × Vec))) (noise : Rat) (c : Nat) (alpha : Nat → Rat) (b : Rat) : Rat :=
  1 / 2 * rsum (count bs) (fun i => (regnetPredict k bs alpha b i - (elemAt bs i).2.at c) * (regnetPredict k bs alpha b i - (elemAt bs i).2.at c))
    + 1 / 2 * noise * rsum (count bs) (fun i => rsum (count bs) fun j => alpha i * k (elemAt bs i).1 (elemAt bs j).1 * alpha j)

/-- its partial derivative with respect to `alpha_a` (for a symmetric kernel) -/
def regnetGradient (k : Kernel) (bs : List (List (Vec × Vec))) (noise : Rat) (c : Nat) (alpha : Nat → Rat) (b : Rat) (a : Nat) : Rat :=
  rsum (count bs) (fun i => k (elemAt bs a).1 (elemAt bs i).1 * (regnetPredict k bs alpha b i - (elemAt bs i).2.at c))
    + noise * rsum (count bs) (fun j => k (elemAt bs a).1 (elemAt bs j).1 * alpha j)

/-! ## FisherLDA::meanAndScatter through the C02 Cholesky solver -/

/-- between-class scatter `Sb = Σ_c n_c (m_c − m)(m_c − m)ᵀ` -/
def betweenScatter (bs : CData) (classes : Nat) (i j : Nat) : Rat :=
  rsum classes fun c => classCount bs c * (ldaMean bs c i - fisherMean bs classes i) * (ldaMean bs c j - fisherMean bs classes j)

/-- `Sw` as the C++ assembles it: `Σ_c (Σ_{i∈c} x xᵀ − n_c m_c m_cᵀ)` -/
def withinScatterMoments (bs : CData) (classes : Nat) (i j : Nat) : Rat :=
  rsum classes fun c => bsum bs (fun p => if p.2 = c then p.1.at i * p.1.at j else 0) - classCount bs c * ldaMean bs c i * ldaMean bs c j

/-- `scatter = solve(Sw, Sb, symm_pos_def(), left)` column by column through the C02 model -/
def fisherScatter (r : Rat → Rat) (bs : CData) (classes d : Nat) (i j : Nat) : Rat :=
  LinSolve.vget (LinSolve.solveSpdArr r d (withinScatterMoments bs classes) (fun a => betweenScatter bs classes a j)) i

/-! ## LDA::train assembled -/

/-- a solver for `Z·C = M` (`solve(C, M, symm_semi_pos_def(), right)`): `C` is `d × d`, `M` and the result are `classes × d` -/
abbrev RightSolver := (d classes : Nat) → (Nat → Nat → Rat) → (Nat → Nat → Rat) → (Nat → Nat → Rat)

/-- the linear discriminant `LDA::train` installs for class `c` (unweighted overload): rows `z_c` of the solve,
bias `−½ m_c·z_c + log π_c` -/
def ldaTrainDiscriminant (solve : RightSolver) (log : Rat → Rat) (bs : CData) (classes d : Nat) (reg : Rat) (c : Nat) (x : Nat → Rat) : Rat :=
  ldaDiscriminant d (solve d classes (ldaCov bs classes reg) (ldaMean bs)) (ldaMean bs) (fun c => log (ldaPrior bs c)) c x

/-- the weighted overload -/
def wldaTrainDiscriminant (solve : RightSolver) (log : Rat → Rat) (bs : WCData) (classes d : Nat) (reg : Rat) (c : Nat) (x : Nat → Rat) : Rat :=
  ldaDiscriminant d (solve d classes (wldaCov bs classes reg) (wldaMean bs)) (wldaMean bs) (fun c => log (wldaPrior bs c)) c x

end SharkVerif.Trainers
