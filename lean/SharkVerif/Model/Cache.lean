/-
Model of `shark::LRUCache<T>` (include/shark/LinAlg/LRUCache.h) and of
`shark::CachedMatrix<Matrix>` (include/shark/LinAlg/CachedMatrix.h).

Core Lean only (no Mathlib): this file is also compiled into the native driver
`drv_c09`, which is run against the real C++ classes by `checks/c09.py`.

Conventions
* a cache line is a `List V`; the empty list means "not cached" (C++: length == 0);
* `lru` lists the cached line indices, newest first (C++: `m_lruList`, front = newest);
* `size` is the *stored* counter `m_cacheSize`; that it equals the sum of the
  line lengths is a theorem (`Props/C09.lean`), not a definition;
* a freshly allocated part of a line (C++: `new T[size]`, uninitialised) is
  filled by an explicit `fresh` function supplied by the caller.  `CachedMatrix`
  always overwrites it with base-matrix entries before anybody can read it.
-/
namespace SharkVerif.Cache

/-- point update of a function on `Nat` -/
def upd {α : Type} (f : Nat → α) (i : Nat) (v : α) : Nat → α :=
  fun k => if k = i then v else f k

/-- transposition of two indices -/
def swapIdx (i j k : Nat) : Nat :=
  if k = i then j else if k = j then i else k

structure LRU (V : Type) where
  lines   : Nat → List V
  lru     : List Nat
  size    : Nat
  maxSize : Nat

namespace LRU
variable {V : Type}

def init (maxSize : Nat) : LRU V :=
  { lines := fun _ => [], lru := [], size := 0, maxSize := maxSize }

def isCached (s : LRU V) (i : Nat) : Bool := (s.lines i).length != 0
def lineLength (s : LRU V) (i : Nat) : Nat := (s.lines i).length
def cachedLines (s : LRU V) : Nat := s.lru.length

/-- `cacheRemoveRow` -/
def removeRow (s : LRU V) (i : Nat) : LRU V :=
  { s with size := s.size - (s.lines i).length
           lru := s.lru.erase i
           lines := upd s.lines i [] }

/-- `ensureFreeMemory(need)`: evict from the back of the LRU list while
`maxSize - size < need`.  Fuel = number of cached lines (each round removes
one).  The C++ precondition `need ≤ maxSize` (SIZE_CHECK) excludes the `none`
branch, which in C++ is `back()` of an empty list. -/
def ensureFreeGo (need : Nat) : Nat → LRU V → LRU V
  | 0, s => s
  | f+1, s =>
    if s.maxSize - s.size < need then
      match s.lru.getLast? with
      | none => s
      | some o => ensureFreeGo need f (s.removeRow o)
    else s

def ensureFree (s : LRU V) (need : Nat) : LRU V :=
  ensureFreeGo need s.lru.length s

/-- `cacheCreateRow` with the fresh contents given explicitly -/
def createRow (s : LRU V) (i : Nat) (line : List V) : LRU V :=
  let s := s.ensureFree line.length
  { s with lines := upd s.lines i line, lru := i :: s.lru, size := s.size + line.length }

/-- `cacheRedeclareNewest` -/
def redeclareNewest (s : LRU V) (i : Nat) : LRU V :=
  { s with lru := i :: s.lru.erase i }

/-- new contents of a line that is resized to `size`: old prefix kept, rest fresh -/
def resized (old : List V) (size : Nat) (fresh : Nat → V) : List V :=
  (List.range size).map fun c => match old[c]? with
    | some v => v
    | none => fresh c

/-- `resizeLine(entry,size)` -/
def resizeLine (s : LRU V) (i size : Nat) (fresh : Nat → V) : LRU V :=
  let newLine := resized (s.lines i) size fresh
  let s := s.removeRow i
  let s := s.ensureFree size
  { s with lines := upd s.lines i newLine, lru := i :: s.lru, size := s.size + size }

/-- `getCacheLine(i,size)`; precondition of the C++: `0 < size ≤ maxSize` -/
def getCacheLine (s : LRU V) (i size : Nat) (fresh : Nat → V) : LRU V :=
  if !s.isCached i then
    s.createRow i ((List.range size).map fresh)
  else if (s.lines i).length ≥ size then
    s.redeclareNewest i
  else
    s.resizeLine i size fresh

/-- `markLineForDeletion` -/
def markForDeletion (s : LRU V) (i : Nat) : LRU V :=
  if !s.isCached i then s else { s with lru := s.lru.erase i ++ [i] }

/-- `swapLineIndices(i,j)`.  The C++ distinguishes four list cases (only one
cached / both cached and adjacent either way / both cached, apart); all of them
amount to renaming `i ↔ j` in the LRU list and exchanging the two lines. -/
def swapLineIndices (s : LRU V) (i j : Nat) : LRU V :=
  if i = j || (!s.isCached i && !s.isCached j) then s
  else { s with lru := s.lru.map (swapIdx i j)
                lines := fun k => s.lines (swapIdx i j k) }

/-- `clear()` = `ensureFreeMemory(m_maxSize)` -/
def clear (s : LRU V) : LRU V := s.ensureFree s.maxSize

/-- `listIndex(p)`: index of the line at LRU position `p` -/
def listIndex (s : LRU V) (p : Nat) : Option Nat := s.lru[p]?

end LRU

/-! ### CachedMatrix over an abstract base matrix under a permutation -/

/-- `base` is the un-permuted matrix; `perm` is the current variable order
(the real base matrices apply flips to themselves; the model keeps it here). -/
structure CM (V : Type) where
  n     : Nat
  base  : Nat → Nat → V
  perm  : Nat → Nat
  cache : LRU V

namespace CM
variable {V : Type}

def init (n : Nat) (base : Nat → Nat → V) (maxSize : Nat) : CM V :=
  { n := n, base := base, perm := id, cache := LRU.init maxSize }

/-- `mep_baseMatrix->entry(i,j)` under the current order -/
def entry (m : CM V) (i j : Nat) : V := m.base (m.perm i) (m.perm j)

/-- `row(k,start,end)` (the caching overload).  Returns the new state; the
returned pointer is the whole line `k` of the new state. -/
def row (m : CM V) (k _start stop : Nat) : CM V :=
  let cached := m.cache.lineLength k
  let c1 := m.cache.getCacheLine k stop (fun c => m.entry k c)
  -- `if (end > cached) base->row(k,cached,end,line+cached)`: in the model the
  -- fresh part has already been filled with exactly these entries by `fresh`.
  let _ := cached
  { m with cache := c1 }

/-- the returned line of `row` -/
def rowResult (m : CM V) (k start stop : Nat) : List V :=
  (m.row k start stop).cache.lines k

/-- `row(k,start,end,storage)` (out-of-order read, cache untouched): the
contents of `storage[0 .. end-start)` afterwards.  The cached part
`line[start .. min(cached,end))` is copied, the rest
`[max(cached,start) .. end)` is evaluated by the base matrix. -/
def rowStorage (m : CM V) (k start stop : Nat) : List V :=
  let line := m.cache.lines k
  let cached := line.length
  let upto := min cached stop
  let from' := max cached start
  ((line.drop start).take (upto - start)) ++
    ((List.range (stop - from')).map fun d => m.entry k (from' + d))

/-- `flipColumnsAndRows(i,j)` -/
def flip (m : CM V) (i j : Nat) : CM V :=
  if i = j then m else
  let (i, j) := if i > j then (j, i) else (i, j)
  let lines' : Nat → List V := fun k =>
    let line := m.cache.lines k
    if line.length ≤ i then line
    else if j < line.length then
      -- swap entries i and j
      (List.range line.length).map fun c =>
        match line[swapIdx i j c]? with
        | some v => v
        | none => m.entry k c   -- unreachable
    else
      line.set i (m.entry k j)
  let c1 : LRU V := { m.cache with lines := lines' }
  { m with cache := c1.swapLineIndices i j
           perm := fun k => m.perm (swapIdx i j k) }

/-- `setMaxCachedIndex(n')`: mark lines `n' … n-1` for deletion, in this order -/
def setMaxCachedIndex (m : CM V) (n' : Nat) : CM V :=
  { m with cache := (List.range (m.n - n')).foldl (fun c d => c.markForDeletion (n' + d)) m.cache }

def clear (m : CM V) : CM V := { m with cache := m.cache.clear }

end CM
end SharkVerif.Cache

/-! ### `swapLineIndices` case by case on the intrusive list

`boost::intrusive::list<CacheEntry>`: a node *is* its `CacheEntry`, identified
here by its index in `m_cacheEntry`; an iterator is `some node` or `none`
(`end()`).  Iterators to nodes that are not erased stay valid (intrusive list),
which is what the C++ relies on in the "both cached, apart" case. -/
namespace SharkVerif.Cache
namespace IL

/-- `++it` for `it = iterator_to(x)`: the node after `x`, or `end()` -/
def next : List Nat → Nat → Option Nat
  | [], _ => none
  | y :: t, x => if y = x then t.head? else next t x

/-- `insert(pos, x)`: link node `x` in front of `pos` (`none` = `end()`) -/
def insert : List Nat → Option Nat → Nat → List Nat
  | l, none, x => l ++ [x]
  | [], some _, x => [x]
  | y :: t, some p, x => if y = p then x :: y :: t else y :: insert t (some p) x

/-- `erase(iterator_to(x))` -/
def erase (l : List Nat) (x : Nat) : List Nat := l.erase x

/-- the list part of `swapLineIndices(i,j)`, branch by branch as in the C++;
`ci`/`cj` are `isCached(i)`/`isCached(j)` -/
def swapList (l : List Nat) (ci cj : Bool) (i j : Nat) : List Nat :=
  if ci && !cj then
    -- Iterator pos = iterator_to(cachei); insert(pos,cachej); erase(pos)
    erase (insert l (some i) j) i
  else if !ci && cj then
    erase (insert l (some j) i) j
  else if ci && cj then
    let incposi := next l i
    let incposj := next l j
    if incposi = some j then
      -- erase(posj); insert(posi,cachej)
      insert (erase l j) (some i) j
    else if incposj = some i then
      insert (erase l i) (some j) i
    else
      -- erase both, insert(incposi,cachej), insert(incposj,cachei)
      insert (insert (erase (erase l i) j) incposi j) incposj i
  else l

end IL

namespace LRU
variable {V : Type}

/-- `swapLineIndices(i,j)` as written: the list surgery of the four cases, then
`std::swap` of the two `length` and `data` fields -/
def swapLineIndicesIL (s : LRU V) (i j : Nat) : LRU V :=
  if i = j || (!s.isCached i && !s.isCached j) then s
  else { s with lru := IL.swapList s.lru (s.isCached i) (s.isCached j) i j
                lines := upd (upd s.lines i (s.lines j)) j (s.lines i) }

end LRU

/-! ### buffer identities (the `data` pointers)

`LRUP` = the cache plus, per line, the identity of the buffer its `data`
pointer addresses, and an allocation counter: every `new T[size]` gets the next
identity.  All cache operations are those of `LRU` (projection `core`), so
every theorem about `LRU` holds for `LRUP.core` verbatim. -/
structure LRUP (V : Type) where
  core : LRU V
  ids  : Nat → Nat
  next : Nat

namespace LRUP
variable {V : Type}

def init (maxSize : Nat) : LRUP V := { core := LRU.init maxSize, ids := fun _ => 0, next := 1 }

/-- identity of the buffer of line `i` (0 = not cached; the C++ pointer is then dangling) -/
def bufferOf (s : LRUP V) (i : Nat) : Nat := if s.core.isCached i then s.ids i else 0

/-- `getCacheLine`: a buffer is allocated unless the line is long enough already -/
def getCacheLine (s : LRUP V) (i size : Nat) (fresh : Nat → V) : LRUP V :=
  if s.core.isCached i && (s.core.lines i).length ≥ size then
    { s with core := s.core.getCacheLine i size fresh }
  else
    { core := s.core.getCacheLine i size fresh, ids := upd s.ids i s.next, next := s.next + 1 }

def resizeLine (s : LRUP V) (i size : Nat) (fresh : Nat → V) : LRUP V :=
  { core := s.core.resizeLine i size fresh, ids := upd s.ids i s.next, next := s.next + 1 }

def markForDeletion (s : LRUP V) (i : Nat) : LRUP V := { s with core := s.core.markForDeletion i }

/-- `swapLineIndices`: the `data` pointers are swapped along with the lengths -/
def swapLineIndices (s : LRUP V) (i j : Nat) : LRUP V :=
  if i = j || (!s.core.isCached i && !s.core.isCached j) then s
  else { s with core := s.core.swapLineIndicesIL i j
                ids := upd (upd s.ids i (s.ids j)) j (s.ids i) }

def clear (s : LRUP V) : LRUP V := { s with core := s.core.clear }

end LRUP

/-! ### CachedMatrix over a concrete base-matrix class

`BaseOps W V` are the member functions `CachedMatrix<Matrix>` calls on its base
matrix.  `CMG` follows `CachedMatrix.h` statement by statement: the freshly
allocated part of a line holds junk until `base->row(k,cached,end,line+cached)`
overwrites it. -/
structure BaseOps (W V : Type) where
  entry : W → Nat → Nat → V
  row   : W → Nat → Nat → Nat → List V        -- row(k,start,end,storage): the values written
  flip  : W → Nat → Nat → W

structure CMG (W V : Type) where
  n     : Nat
  w     : W
  cache : LRUP V

namespace CMG
variable {W V : Type}

def init (n : Nat) (w : W) (maxSize : Nat) : CMG W V := { n := n, w := w, cache := LRUP.init maxSize }

/-- `std::copy(vals, line+off)`: overwrite `line[off .. off+vals.length)`;
`none` if that range leaves the buffer -/
def writeAt (line : List V) (off : Nat) (vals : List V) : Option (List V) :=
  if off + vals.length ≤ line.length then
    some (line.take off ++ vals ++ line.drop (off + vals.length))
  else none

/-- `row(k,start,end)`; `none` = a write outside the line buffer -/
def row (ops : BaseOps W V) (junk : Nat → V) (m : CMG W V) (k _start stop : Nat) : Option (CMG W V) :=
  let cached := m.cache.core.lineLength k
  let c1 := m.cache.getCacheLine k stop junk
  if stop > cached then
    match writeAt (c1.core.lines k) cached (ops.row m.w k cached stop) with
    | some line => some { m with cache := { c1 with core := { c1.core with lines := upd c1.core.lines k line } } }
    | none => none
  else some { m with cache := c1 }

/-- read `line[a .. b)`; `none` if the range leaves the buffer -/
def readRange (line : List V) (a b : Nat) : Option (List V) :=
  if b ≤ line.length then some ((line.drop a).take (b - a)) else none

/-- `row(k,start,end,storage)`: `storage` is a buffer of exactly `end-start`
junk values; the result is its contents afterwards, or `none` if a read leaves
the cache line or a write leaves the storage -/
def rowStorage (ops : BaseOps W V) (junk : Nat → V) (m : CMG W V) (k start stop : Nat) : Option (List V) :=
  let line := m.cache.core.lines k
  let cached := min line.length stop
  let storage0 := (List.range (stop - start)).map junk
  let s1 : Option (List V) :=
    if start < cached then
      match readRange line start cached with
      | some vals => writeAt storage0 0 vals
      | none => none
    else some storage0
  let first := max cached start
  match s1 with
  | none => none
  | some s1 => if first < stop then writeAt s1 (first - start) (ops.row m.w k first stop) else some s1

/-- body of the loop of `flipColumnsAndRows` for one line (`i < j`); `none` = an
access outside the line buffer -/
def flipLineG (ops : BaseOps W V) (w : W) (i j k : Nat) (line : List V) : Option (List V) :=
  if line.length ≤ i then some line
  else if j < line.length then
    -- std::swap(line[i], line[j])
    match line[i]?, line[j]? with
    | some a, some b => some ((line.set i b).set j a)
    | _, _ => none
  else
    -- line[i] = base->entry(k,j)
    if i < line.length then some (line.set i (ops.entry w k j)) else none

/-- `for (k = 0; k < size(); k++)` over the lines -/
def flipLines (ops : BaseOps W V) (w : W) (i j : Nat) : List Nat → (Nat → List V) → Option (Nat → List V)
  | [], lines => some lines
  | k :: ks, lines =>
    match flipLineG ops w i j k (lines k) with
    | none => none
    | some l => flipLines ops w i j ks (upd lines k l)

/-- `flipColumnsAndRows(i,j)`; `none` = an access outside a line buffer -/
def flip (ops : BaseOps W V) (m : CMG W V) (i j : Nat) : Option (CMG W V) :=
  if i = j then some m else
  let (i, j) := if i > j then (j, i) else (i, j)
  match flipLines ops m.w i j (List.range m.n) m.cache.core.lines with
  | none => none
  | some lines' =>
    let c1 : LRUP V := { m.cache with core := { m.cache.core with lines := lines' } }
    some { m with cache := c1.swapLineIndices i j, w := ops.flip m.w i j }

def setMaxCachedIndex (m : CMG W V) (n' : Nat) : CMG W V :=
  { m with cache := (List.range (m.n - n')).foldl (fun c d => c.markForDeletion (n' + d)) m.cache }

def clear (m : CMG W V) : CMG W V := { m with cache := m.cache.clear }

end CMG
end SharkVerif.Cache
