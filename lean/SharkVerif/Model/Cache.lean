/-
Model of `shark::LRUCache<T>` (include/shark/LinAlg/LRUCache.h) and of
`shark::CachedMatrix<Matrix>` (include/shark/LinAlg/CachedMatrix.h).

Core Lean only (no Mathlib): this file is also compiled into the native driver
`drv_c09`, which is run against the real C++ classes by `checks/c09.py`.

Conventions
* a cache line is a `List V`; the empty list means "not cached" (C++: length == 0);
* `lru` lists the cached line indices, newest first (C++: `m_lruList`, front = newest);
* `size` is the *stored* counter `m_cacheSize`; that it equals the sum of the
  line lengths is a theorem (`Props/C09.lean`), not a definition;
* a freshly allocated part of a line (C++: `new T[size]`, uninitialised) is
  filled by an explicit `fresh` function supplied by the caller.  `CachedMatrix`
  always overwrites it with base-matrix entries before anybody can read it.
-/
namespace SharkVerif.Cache

/-- point update of a function on `Nat` -/
def upd {α : Type} (f : Nat → α) (i : Nat) (v : α) : Nat → α :=
  fun k => if k = i then v else f k

/-- transposition of two indices -/
def swapIdx (i j k : Nat) : Nat :=
  if k = i then j else if k = j then i else k

structure LRU (V : Type) where
  lines   : Nat → List V
  lru     : List Nat
  size    : Nat
  maxSize : Nat

namespace LRU
variable {V : Type}

def init (maxSize : Nat) : LRU V :=
  { lines := fun _ => [], lru := [], size := 0, maxSize := maxSize }

def isCached (s : LRU V) (i : Nat) : Bool := (s.lines i).length != 0
def lineLength (s : LRU V) (i : Nat) : Nat := (s.lines i).length
def cachedLines (s : LRU V) : Nat := s.lru.length

/-- `cacheRemoveRow` -/
def removeRow (s : LRU V) (i : Nat) : LRU V :=
  { s with size := s.size - (s.lines i).length
           lru := s.lru.erase i
           lines := upd s.lines i [] }

/-- `ensureFreeMemory(need)`: evict from the back of the LRU list while
`maxSize - size < need`.  Fuel = number of cached lines (each round removes
one).  The C++ precondition `need ≤ maxSize` (SIZE_CHECK) excludes the `none`
branch, which in C++ is `back()` of an empty list. -/
def ensureFreeGo (need : Nat) : Nat → LRU V → LRU V
  | 0, s => s
  | f+1, s =>
    if s.maxSize - s.size < need then
      match s.lru.getLast? with
      | none => s
      | some o => ensureFreeGo need f (s.removeRow o)
    else s

def ensureFree (s : LRU V) (need : Nat) : LRU V :=
  ensureFreeGo need s.lru.length s

/-- `cacheCreateRow` with the fresh contents given explicitly -/
def createRow (s : LRU V) (i : Nat) (line : List V) : LRU V :=
  let s := s.ensureFree line.length
  { s with lines := upd s.lines i line, lru := i :: s.lru, size := s.size + line.length }

/-- `cacheRedeclareNewest` -/
def redeclareNewest (s : LRU V) (i : Nat) : LRU V :=
  { s with lru := i :: s.lru.erase i }

/-- new contents of a line that is resized to `size`: old prefix kept, rest fresh -/
def resized (old : List V) (size : Nat) (fresh : Nat → V) : List V :=
  (List.range size).map fun c => match old[c]? with
    | some v => v
    | none => fresh c

/-- `resizeLine(entry,size)` -/
def resizeLine (s : LRU V) (i size : Nat) (fresh : Nat → V) : LRU V :=
  let newLine := resized (s.lines i) size fresh
  let s := s.removeRow i
  let s := s.ensureFree size
  { s with lines := upd s.lines i newLine, lru := i :: s.lru, size := s.size + size }

/-- `getCacheLine(i,size)`; precondition of the C++: `0 < size ≤ maxSize` -/
def getCacheLine (s : LRU V) (i size : Nat) (fresh : Nat → V) : LRU V :=
  if !s.isCached i then
    s.createRow i ((List.range size).map fresh)
  else if (s.lines i).length ≥ size then
    s.redeclareNewest i
  else
    s.resizeLine i size fresh

/-- `markLineForDeletion` -/
def markForDeletion (s : LRU V) (i : Nat) : LRU V :=
  if !s.isCached i then s else { s with lru := s.lru.erase i ++ [i] }

/-- `swapLineIndices(i,j)`.  The C++ distinguishes four list cases (only one
cached / both cached and adjacent either way / both cached, apart); all of them
amount to renaming `i ↔ j` in the LRU list and exchanging the two lines. -/
def swapLineIndices (s : LRU V) (i j : Nat) : LRU V :=
  if i = j || (!s.isCached i && !s.isCached j) then s
  else { s with lru := s.lru.map (swapIdx i j)
                lines := fun k => s.lines (swapIdx i j k) }

/-- `clear()` = `ensureFreeMemory(m_maxSize)` -/
def clear (s : LRU V) : LRU V := s.ensureFree s.maxSize

/-- `listIndex(p)`: index of the line at LRU position `p` -/
def listIndex (s : LRU V) (p : Nat) : Option Nat := s.lru[p]?

end LRU

/-! ### CachedMatrix over an abstract base matrix under a permutation -/

/-- `base` is the un-permuted matrix; `perm` is the current variable order
(the real base matrices apply flips to themselves; the model keeps it here). -/
structure CM (V : Type) where
  n     : Nat
  base  : Nat → Nat → V
  perm  : Nat → Nat
  cache : LRU V

namespace CM
variable {V : Type}

def init (n : Nat) (base : Nat → Nat → V) (maxSize : Nat) : CM V :=
  { n := n, base := base, perm := id, cache := LRU.init maxSize }

/-- `mep_baseMatrix->entry(i,j)` under the current order -/
def entry (m : CM V) (i j : Nat) : V := m.base (m.perm i) (m.perm j)

/-- `row(k,start,end)` (the caching overload).  Returns the new state; the
returned pointer is the whole line `k` of the new state. -/
def row (m : CM V) (k _start stop : Nat) : CM V :=
  let cached := m.cache.lineLength k
  let c1 := m.cache.getCacheLine k stop (fun c => m.entry k c)
  -- `if (end > cached) base->row(k,cached,end,line+cached)`: in the model the
  -- fresh part has already been filled with exactly these entries by `fresh`.
  let _ := cached
  { m with cache := c1 }

/-- the returned line of `row` -/
def rowResult (m : CM V) (k start stop : Nat) : List V :=
  (m.row k start stop).cache.lines k

/-- `row(k,start,end,storage)` (out-of-order read, cache untouched): the
contents of `storage[0 .. end-start)` afterwards.  The cached part
`line[start .. min(cached,end))` is copied, the rest
`[max(cached,start) .. end)` is evaluated by the base matrix. -/
def rowStorage (m : CM V) (k start stop : Nat) : List V :=
  let line := m.cache.lines k
  let cached := line.length
  let upto := min cached stop
  let from' := max cached start
  ((line.drop start).take (upto - start)) ++
    ((List.range (stop - from')).map fun d => m.entry k (from' + d))

/-- `flipColumnsAndRows(i,j)` -/
def flip (m : CM V) (i j : Nat) : CM V :=
  if i = j then m else
  let (i, j) := if i > j then (j, i) else (i, j)
  let lines' : Nat → List V := fun k =>
    let line := m.cache.lines k
    if line.length ≤ i then line
    else if j < line.length then
      -- swap entries i and j
      (List.range line.length).map fun c =>
        match line[swapIdx i j c]? with
        | some v => v
        | none => m.entry k c   -- unreachable
    else
      line.set i (m.entry k j)
  let c1 : LRU V := { m.cache with lines := lines' }
  { m with cache := c1.swapLineIndices i j
           perm := fun k => m.perm (swapIdx i j k) }

/-- `setMaxCachedIndex(n')`: mark lines `n' … n-1` for deletion, in this order -/
def setMaxCachedIndex (m : CM V) (n' : Nat) : CM V :=
  { m with cache := (List.range (m.n - n')).foldl (fun c d => c.markForDeletion (n' + d)) m.cache }

def clear (m : CM V) : CM V := { m with cache := m.cache.clear }

end CM
end SharkVerif.Cache
