/-
Model of the coordinate step of `shark::QpBoxLinear<InputT>::solve`
(include/shark/Algorithms/QP/QpBoxLinear.h, the body of the inner loop): dual coordinate
ascent for the linear binary SVM, keeping the primal weight vector `w` next to `alpha`.

  a   = alpha(i);  wyx = y_i * <w, x_i>;  g = 1 - offset*y_i - wyx - reg*a
  pg  = projected gradient;  if pg != 0:  q = |x_i|^2 + reg;  mu = g/q  clipped to [0,bound];
        alpha(i) = new_a;  w += (mu*y_i) * x_i;  gain = mu*(g - 0.5*q*mu)

The epoch schedule (random, preference driven) is not modelled: `sweep` applies the step along
an arbitrary given schedule, and all theorems quantify over every schedule.
Same operation order as the C++ (Float instance bit-comparable); core Lean only.
-/
import SharkVerif.Model.McSparse
namespace SharkVerif.Mc

variable {α : Type} [Add α] [Sub α] [Mul α] [Div α] [Neg α] [NatCast α] [OfScientific α]
  [LT α] [LE α] [DecidableLT α] [DecidableLE α] [BEq α]

/-- the problem data: `n` examples of dimension `d`, labels as signs (`+1.0` / `-1.0`) -/
structure LinData (α : Type) where
  n : Nat
  d : Nat
  x : Nat → Nat → α          -- x i k
  ysign : Nat → α            -- (label > 0) ? +1.0 : -1.0
  xsq : Nat → α              -- m_xSquared(i) = norm_sqr(x_i)
  bound : α
  reg : α
  offset : α

structure LinState (α : Type) where
  alpha : Nat → α
  w : Nat → α

/-- `inner_prod(w, x_i)` as a left-to-right sum -/
def dotW (D : LinData α) (w : Nat → α) (i : Nat) : α :=
  (List.range D.d).foldl (fun acc k => acc + w k * D.x i k) (0.0 : α)

/-- gradient of the dual objective in coordinate `i` -/
def linGrad (D : LinData α) (s : LinState α) (i : Nat) : α :=
  (1.0 : α) - D.offset * D.ysign i - D.ysign i * dotW D s.w i - D.reg * s.alpha i

/-- the clipped step `(mu, new_a)` for current value `a`, gradient `g`, curvature `q` -/
def linMu (bound a g q : α) : α × α :=
  let mu := g / q
  let new_a := a + mu
  if new_a ≤ (0.0 : α) then (-a, (0.0 : α))
  else if new_a ≥ bound then (bound - a, bound)
  else (mu, new_a)

/-- one pass through the body of the inner loop for variable `i`; returns the new state and the gain -/
def linStep (D : LinData α) (s : LinState α) (i : Nat) : LinState α × α :=
  let a := s.alpha i
  let g := linGrad D s i
  let pg := if (a == (0.0 : α) && decide (g < (0.0 : α))) then (0.0 : α)
            else if (a == D.bound && decide (g > (0.0 : α))) then (0.0 : α) else g
  if pg != (0.0 : α) then
    let q := D.xsq i + D.reg
    let r := linMu D.bound a g q
    let mu := r.1
    ({ alpha := fun j => if j = i then r.2 else s.alpha j,
       w := fun k => s.w k + (mu * D.ysign i) * D.x i k },
     mu * (g - (0.5 : α) * q * mu))
  else (s, (0.0 : α))

/-- the inner loop along a schedule -/
def linSweep (D : LinData α) (s : LinState α) (schedule : List Nat) : LinState α :=
  schedule.foldl (fun s i => (linStep D s i).1) s

/-- start of `solve` on a fresh solver -/
def linInit : LinState α := { alpha := fun _ => (0.0 : α), w := fun _ => (0.0 : α) }

end SharkVerif.Mc
