/-
Line-protocol driver for the C01 model (remora expressions, proxies, assignment).
One op per input line, one observation line per op; same protocol as
harness/c01.cpp + the generated statement TUs.  Imports the core-Lean model only.

ops
  new                                  reset the store
  vec <n> x0 .. x(n-1)                 new dense vector variable (ids count up: (v 0), (v 1) ..)
  mat <A|B> <n1> <n2> x00 x01 ..       new row-major (A) / column-major (B) matrix variable
  stmt <k> <form> <target> <expr>      assignment statement number k of the generated program
  red <k> <kind> <expr>                reduction to a scalar
expressions / targets are s-expressions, see `evalV` / `evalM` / `placeV` / `placeM`.
-/
import SharkVerif.Model.Remora
import Driver.C01Kern
open SharkVerif.Remora

inductive SE where
  | atom (s : String)
  | list (l : List SE)
  deriving Inhabited

partial def SE.toStr : SE → String
  | .atom s => s
  | .list l => "(" ++ " ".intercalate (l.map SE.toStr) ++ ")"

def tokenize (s : String) : List String :=
  let s := (s.replace "(" " ( ").replace ")" " ) "
  (s.splitOn " ").filter (· ≠ "")

/-- parse one s-expression from a token list -/
partial def parseSE : List String → Except String (SE × List String)
  | [] => .error "unexpected end"
  | "(" :: rest =>
    let rec go (acc : List SE) (ts : List String) : Except String (SE × List String) :=
      match ts with
      | [] => .error "missing )"
      | ")" :: rest => .ok (.list acc.reverse, rest)
      | ts => do
        let (e, rest) ← parseSE ts
        go (e :: acc) rest
    go [] rest
  | ")" :: _ => .error "unexpected )"
  | t :: rest => .ok (.atom t, rest)

def parseRat (s : String) : Option Rat :=
  match s.splitOn "/" with
  | [a] => a.toInt?.map fun (i : Int) => (i : Rat)
  | [a, b] => do
    let n ← a.toInt?
    let d ← b.toNat?
    if d = 0 then none else some ((n : Rat) / (d : Rat))
  | _ => none

def showRat (r : Rat) : String :=
  if r.den = 1 then toString r.num else toString r.num ++ "/" ++ toString r.den

structure Store where
  mem  : Array Rat := #[]
  vecs : Array VRef := #[]
  matA : Array MRef := #[]
  matB : Array MRef := #[]
  svecs : Array VRef := #[]   -- sparse operands: same denotation, stored densely in the model
  smats : Array MRef := #[]

def arrMem : MemOps (Array Rat) Rat where
  rd := fun s a => s.getD a 0
  wr := fun s a v => s.setIfInBounds a v

def rabs (x : Rat) : Rat := if x < 0 then -x else x
def rmin (x y : Rat) : Rat := if y < x then y else x     -- std::min
def rmax (x y : Rat) : Rat := if x < y then y else x     -- std::max

def unaryF : String → Option (Rat → Rat)
  | "abs" => some rabs
  | "sqr" => some fun x => x * x
  | "neg" => some fun x => -x
  | "inv" => some fun x => 1 / x          -- elem_inv (operands are non-zero)
  | _ => none

def binaryF : String → Option (Rat → Rat → Rat)
  | "mul" => some (· * ·)
  | "div" => some (· / ·)
  | "min" => some rmin
  | "max" => some rmax
  | "add" => some (· + ·)
  | _ => none

def nat? : SE → Option Nat
  | .atom s => s.toNat?
  | _ => none
def rat? : SE → Option Rat
  | .atom s => parseRat s
  | _ => none

/-- places: dense proxies of variables (address arithmetic of `VRef`/`MRef`) -/
partial def placeM (st : Store) : SE → Option MRef
  | .list [.atom "A", k] => do st.matA[(← nat? k)]?
  | .list [.atom "B", k] => do st.matB[(← nat? k)]?
  | .list [.atom "C", k] => do st.smats[(← nat? k)]?
  | .list [.atom "trans", m] => do (← placeM st m).trans
  | .list [.atom "mrange", m, s1, e1, s2, e2] => do
    (← placeM st m).range (← nat? s1) (← nat? e1) (← nat? s2) (← nat? e2)
  | .list [.atom "rows", m, s, e] => do (← placeM st m).rows (← nat? s) (← nat? e)
  | .list [.atom "cols", m, s, e] => do (← placeM st m).columns (← nat? s) (← nat? e)
  | _ => none

partial def placeV (st : Store) : SE → Option VRef
  | .list [.atom "v", k] => do st.vecs[(← nat? k)]?
  | .list [.atom "s", k] => do st.svecs[(← nat? k)]?
  | .list [.atom "range", v, s, e] => do (← placeV st v).range (← nat? s) (← nat? e)
  | .list [.atom "row", m, i] => do (← placeM st m).row (← nat? i)
  | .list [.atom "col", m, j] => do (← placeM st m).column (← nat? j)
  | .list [.atom "diag", m] => do (← placeM st m).diag
  | .list [.atom "tovec", .list [.atom "A", k]] => do (← st.matA[(← nat? k)]?).linear
  | .list [.atom "tovec", .list [.atom "B", k]] => do (← st.matB[(← nat? k)]?).linear
  | _ => none

mutual
partial def evalV (st : Store) (rd : Nat → Rat) (e : SE) : Except String (VExp Rat) :=
  match placeV st e with
  | some r => .ok (r.read rd)
  | none =>
  match e with
  | .list [.atom "range", v, s, t] => do
    let (some s, some t) := (nat? s, nat? t) | .error "range"
    return .range (← evalV st rd v) s t
  | .list [.atom "row", m, i] => do
    let some i := nat? i | .error "row"
    return .row (← evalM st rd m) i
  | .list [.atom "col", m, j] => do
    let some j := nat? j | .error "col"
    return .row (.trans (← evalM st rd m)) j
  | .list [.atom "diag", m] => do return .diag (← evalM st rd m)
  | .list [.atom "smul", a, v] => do
    let some a := rat? a | .error "smul"
    return .scal (← evalV st rd v) a
  | .list [.atom "cvec", n, a] => do
    let (some n, some a) := (nat? n, rat? a) | .error "cvec"
    return .const n a
  | .list [.atom "unit", n, k, a] => do
    let (some n, some k, some a) := (nat? n, nat? k, rat? a) | .error "unit"
    return .unit n k a
  | .list [.atom "un", .atom f, v] => do
    let some f := unaryF f | .error s!"unary functor {f}"
    return .unary (← evalV st rd v) f
  | .list [.atom "add", a, b] => do return .add (← evalV st rd a) (← evalV st rd b)
  | .list [.atom "sub", a, b] => do return .add (← evalV st rd a) (.scal (← evalV st rd b) (-1))
  | .list [.atom "bin", .atom f, a, b] => do
    let some f := binaryF f | .error s!"binary functor {f}"
    return .binary (← evalV st rd a) (← evalV st rd b) f
  | .list [.atom "concat", a, b] => do return .concat (← evalV st rd a) (← evalV st rd b)
  | .list [.atom "mv", m, v] => do return .mvprod (← evalM st rd m) (← evalV st rd v) 1
  | .list [.atom "vm", v, m] => do return .mvprod (.trans (← evalM st rd m)) (← evalV st rd v) 1
  | .list [.atom "sumrows", m] => do return .rowFold (← evalM st rd m) (· + ·) id
  | .list [.atom "sumcols", m] => do return .rowFold (.trans (← evalM st rd m)) (· + ·) id
  | .list [.atom "maxrows", m] => do return .rowFold (← evalM st rd m) rmax id
  | .list [.atom "mincols", m] => do return .rowFold (.trans (← evalM st rd m)) rmin id
  | .list [.atom "tovec", m] => do return .linear (← evalM st rd m)
  -- `red(as_rows(M))` / `red(as_columns(M))` for every row-wise reduction of matrix_expression.hpp
  | .list [.atom "fold", .atom red, .atom dir, m] => do
    let m0 ← evalM st rd m
    let m1 ← match dir with
      | "rows" => pure m0
      | "cols" => pure (MExp.trans m0)
      | _ => .error s!"fold direction {dir}"
    match red with
    | "sum" => return .rowFold m1 (· + ·) id
    | "max" => return .rowFold m1 rmax id
    | "min" => return .rowFold m1 rmin id
    | "norm_1" => return .rowFold (.unary m1 rabs) (· + ·) id
    | "norm_sqr" => return .rowFold (.unary m1 (fun x => x * x)) (· + ·) id
    | "norm_inf" => return .rowFold (.unary m1 rabs) rmax id
    | _ => .error s!"fold {red}"
  | e => .error s!"vector expression? {e.toStr}"

partial def evalM (st : Store) (rd : Nat → Rat) (e : SE) : Except String (MExp Rat) :=
  match placeM st e with
  | some r => .ok (r.read rd)
  | none =>
  match e with
  | .list [.atom "trans", m] => do return .trans (← evalM st rd m)
  | .list [.atom "mrange", m, s1, e1, s2, e2] => do
    let (some s1, some e1, some s2, some e2) := (nat? s1, nat? e1, nat? s2, nat? e2) | .error "mrange"
    return .range (← evalM st rd m) s1 e1 s2 e2
  | .list [.atom "rows", m, s, t] => do
    let (some s, some t) := (nat? s, nat? t) | .error "rows"
    return .rows (← evalM st rd m) s t
  | .list [.atom "cols", m, s, t] => do
    let (some s, some t) := (nat? s, nat? t) | .error "cols"
    return .trans (.rows (.trans (← evalM st rd m)) s t)
  | .list [.atom "msmul", a, m] => do
    let some a := rat? a | .error "msmul"
    return .scal (← evalM st rd m) a
  | .list [.atom "madd", a, b] => do return .add (← evalM st rd a) (← evalM st rd b)
  | .list [.atom "msub", a, b] => do return .add (← evalM st rd a) (.scal (← evalM st rd b) (-1))
  | .list [.atom "mun", .atom f, m] => do
    let some f := unaryF f | .error s!"unary functor {f}"
    return .unary (← evalM st rd m) f
  | .list [.atom "mbin", .atom f, a, b] => do
    let some f := binaryF f | .error s!"binary functor {f}"
    return .binary (← evalM st rd a) (← evalM st rd b) f
  | .list [.atom "outer", u, v] => do return .outer (← evalV st rd u) (← evalV st rd v)
  | .list [.atom "mm", a, b] => do return .mmprod (← evalM st rd a) (← evalM st rd b) 1
  | .list [.atom "repeat", v, k] => do
    let some k := nat? k | .error "repeat"
    return .rep (← evalV st rd v) k true
  | .list [.atom "cmat", n1, n2, a] => do
    let (some n1, some n2, some a) := (nat? n1, nat? n2, rat? a) | .error "cmat"
    return .const n1 n2 a
  | .list [.atom "diagm", v] => do return .diagm (← evalV st rd v)
  | .list [.atom "concatr", a, b] => do return .concat (← evalM st rd a) (← evalM st rd b) true
  | .list [.atom "concatb", a, b] => do return .concat (← evalM st rd a) (← evalM st rd b) false
  -- `to_triangular(M, tag)` as used by `triangular_prod<tag>(M, .)`: the other triangle reads as 0,
  -- the diagonal of the unit variants as 1
  | .list [.atom "tri", .atom kind, m] => do
    let m0 ← evalM st rd m
    let (upper, unit) ← match kind with
      | "lower" => pure (false, false)
      | "upper" => pure (true, false)
      | "unit_lower" => pure (false, true)
      | "unit_upper" => pure (true, true)
      | _ => .error s!"triangular {kind}"
    return .lit m0.size1 m0.size2 fun i j =>
      if i = j then (if unit then 1 else m0.get i j)
      else if (upper ∧ i < j) ∨ (¬ upper ∧ j < i) then m0.get i j else 0
  | .list [.atom "tomat", v, n1, n2] => do
    let (some n1, some n2) := (nat? n1, nat? n2) | .error "tomat"
    return .ofVec (← evalV st rd v) n1 n2
  | e => .error s!"matrix expression? {e.toStr}"
end

def formF : String → Option ((Rat → Rat → Rat) × Bool)
  | "set" => some (fun _ y => y, false)
  | "plus" => some ((· + ·), false)
  | "minus" => some ((· - ·), false)
  | "times" => some ((· * ·), false)
  | "divide" => some ((· / ·), false)
  | "na_set" => some (fun _ y => y, true)
  | "na_plus" => some ((· + ·), true)
  | "na_minus" => some ((· - ·), true)
  | "na_times" => some ((· * ·), true)
  | "na_divide" => some ((· / ·), true)
  | _ => none

def showVec (l : List Rat) : String := "[" ++ ",".intercalate (l.map showRat) ++ "]"

def digest (l : List Rat) : Rat :=
  (l.foldl (fun (acc : Rat × Nat) x => (acc.1 + (acc.2 + 1 : Nat) * x, acc.2 + 1)) (0, 0)).1

def showStore (st : Store) : String :=
  let rd := fun a => st.mem.getD a 0
  let vs := st.vecs.toList.map fun r => showVec (r.read rd : VExp Rat).toList
  let ms (l : Array MRef) := l.toList.map fun r =>
    s!"{r.size1}x{r.size2}" ++ showVec ((r.read rd : MExp Rat).toRows.flatten)
  let svs := st.svecs.toList.map fun r => "s" ++ showVec (r.read rd : VExp Rat).toList
  let sms := st.smats.toList.map fun r =>
    s!"s{r.size1}x{r.size2}" ++ showVec ((r.read rd : MExp Rat).toRows.flatten)
  " ".intercalate (vs ++ ms st.matA ++ ms st.matB ++ svs ++ sms)

def doStmt (st : Store) (form : String) (tgt e : SE) : Except String Store := do
  let some (f, na) := formF form | .error s!"form {form}"
  let run (addr : Nat → Nat) (idxs : List Nat) (ev : Array Rat → Nat → Rat) : Store :=
    let mem := if na then assignNoalias arrMem f addr ev idxs st.mem
               else assignAlias arrMem f addr ev idxs st.mem
    { st with mem := mem }
  match placeV st tgt with
  | some t =>
    -- check the expression once on the current store (size agreement)
    let e0 ← evalV st (fun a => st.mem.getD a 0) e
    if e0.size ≠ t.size then .error s!"size mismatch {e0.size} vs {t.size}"
    let ev := fun (m : Array Rat) (i : Nat) =>
      match evalV st (fun a => m.getD a 0) e with
      | .ok x => x.get i
      | .error _ => 0
    return run t.addr (List.range t.size) ev
  | none =>
    match placeM st tgt with
    | none => .error s!"target? {tgt.toStr}"
    | some t =>
      let e0 ← evalM st (fun a => st.mem.getD a 0) e
      if e0.size1 ≠ t.size1 ∨ e0.size2 ≠ t.size2 then
        .error s!"size mismatch {e0.size1}x{e0.size2} vs {t.size1}x{t.size2}"
      let n2 := t.size2
      let ev := fun (m : Array Rat) (k : Nat) =>
        match evalM st (fun a => m.getD a 0) e with
        | .ok x => x.get (k / n2) (k % n2)
        | .error _ => 0
      let idxs := if t.rowMajor then rowSweep t.size1 t.size2 else colSweep t.size1 t.size2
      return run (fun k => t.addr (k / n2) (k % n2)) idxs ev

def foldMax (l : List Rat) : Option Rat := l.foldl (fun acc x => match acc with
  | none => some x | some a => some (rmax a x)) none
def foldMin (l : List Rat) : Option Rat := l.foldl (fun acc x => match acc with
  | none => some x | some a => some (rmin a x)) none

def doRed (st : Store) (kind : String) (args : List SE) : Except String String := do
  let rd := fun a => st.mem.getD a 0
  let opt (o : Option Rat) : String := match o with | some x => showRat x | none => "empty"
  match kind, args with
  | "sum", [e] => return showRat (← evalV st rd e).sum
  | "max", [e] => return opt (foldMax (← evalV st rd e).toList)
  | "min", [e] => return opt (foldMin (← evalV st rd e).toList)
  | "norm_1", [e] => return showRat (VExp.unary (← evalV st rd e) rabs).sum
  | "norm_sqr", [e] => return showRat (VExp.unary (← evalV st rd e) (fun x => x * x)).sum
  | "norm_inf", [e] => return opt (foldMax ((VExp.unary (← evalV st rd e) rabs).toList))
  | "inner_prod", [a, b] => return showRat ((← evalV st rd a).inner (← evalV st rd b))
  | "msum", [e] => return showRat (← evalM st rd e).sum
  | "mmax", [e] => return opt (foldMax (← evalM st rd e).toRows.flatten)
  | "mmin", [e] => return opt (foldMin (← evalM st rd e).toRows.flatten)
  | "trace", [e] => return showRat (← evalM st rd e).trace
  | "mnorm_sqr", [e] => return showRat (MExp.unary (← evalM st rd e) (fun x => x * x)).sum
  | "frobenius_prod", [a, b] =>
    return showRat (MExp.binary (← evalM st rd a) (← evalM st rd b) (· * ·)).sum
  -- matrix norms: norm_1 = max column sum of |.|, norm_inf = max row sum of |.|
  | "mnorm_1", [e] =>
    return opt (foldMax (VExp.rowFold (.unary (.trans (← evalM st rd e)) rabs) (· + ·) id).toList)
  | "mnorm_inf", [e] =>
    return opt (foldMax (VExp.rowFold (.unary (← evalM st rd e) rabs) (· + ·) id).toList)
  | _, _ => .error s!"reduction {kind}"

def step (st : Store) (line : String) : Store × String :=
  let toks := tokenize line.trimAscii.toString
  if (toks.head?.getD "").startsWith "k" then
    -- kernel ops (stateless): Driver/C01Kern.lean
    (st, (C01Kern.step toks).getD "bad-op")
  else
  match toks with
  | [] => (st, "")
  | ["new"] => ({}, "ok")
  | "vec" :: n :: vals =>
    match n.toNat?, vals.mapM parseRat with
    | some n, some xs =>
      if xs.length ≠ n then (st, "bad-op") else
      let r := VRef.container st.mem.size n
      ({ st with mem := st.mem ++ xs.toArray, vecs := st.vecs.push r }, "ok")
    | _, _ => (st, "bad-op")
  | "mat" :: kind :: n1 :: n2 :: vals =>
    match n1.toNat?, n2.toNat?, vals.mapM parseRat with
    | some n1, some n2, some xs =>
      if xs.length ≠ n1 * n2 then (st, "bad-op") else
      let rm := kind == "A"
      let r := MRef.container st.mem.size n1 n2 rm
      let xa := xs.toArray
      -- values are listed in logical row-major order; store them in storage order
      let cells := (List.range (n1 * n2)).map fun a =>
        if rm then xa.getD a 0 else xa.getD ((a % n1) * n2 + a / n1) 0
      let st := { st with mem := st.mem ++ cells.toArray }
      if rm then ({ st with matA := st.matA.push r }, "ok") else ({ st with matB := st.matB.push r }, "ok")
    | _, _, _ => (st, "bad-op")
  | "svec" :: n :: entries =>
    match n.toNat? with
    | some n =>
      let cells := entries.foldl (fun (acc : Option (Array Rat)) e => do
        let a ← acc
        match e.splitOn ":" with
        | [i, v] => do
          let i ← i.toNat?
          let v ← parseRat v
          if i < n then some (a.setIfInBounds i v) else none
        | _ => none) (some (Array.replicate n (0 : Rat)))
      match cells with
      | some cells =>
        let r := VRef.container st.mem.size n
        ({ st with mem := st.mem ++ cells, svecs := st.svecs.push r }, "ok")
      | none => (st, "bad-op")
    | none => (st, "bad-op")
  | "smat" :: n1 :: n2 :: entries =>
    match n1.toNat?, n2.toNat? with
    | some n1, some n2 =>
      let cells := entries.foldl (fun (acc : Option (Array Rat)) e => do
        let a ← acc
        match e.splitOn ":" with
        | [ij, v] =>
          match ij.splitOn "," with
          | [i, j] => do
            let i ← i.toNat?
            let j ← j.toNat?
            let v ← parseRat v
            if i < n1 ∧ j < n2 then some (a.setIfInBounds (i * n2 + j) v) else none
          | _ => none
        | _ => none) (some (Array.replicate (n1 * n2) (0 : Rat)))
      match cells with
      | some cells =>
        let r := MRef.container st.mem.size n1 n2 true
        ({ st with mem := st.mem ++ cells, smats := st.smats.push r }, "ok")
      | none => (st, "bad-op")
    | _, _ => (st, "bad-op")
  | "stmt" :: _k :: form :: rest =>
    match parseSE rest with
    | .ok (tgt, rest') =>
      match parseSE rest' with
      | .ok (e, []) =>
        match doStmt st form tgt e with
        | .ok st' => (st', showStore st')
        | .error msg => (st, "model-error " ++ msg)
      | _ => (st, "bad-op")
    | _ => (st, "bad-op")
  | "red" :: _k :: kind :: rest =>
    let rec parseAll (ts : List String) (fuel : Nat) : Option (List SE) :=
      match fuel, ts with
      | _, [] => some []
      | 0, _ => none
      | fuel+1, ts => match parseSE ts with
        | .ok (e, rest) => (parseAll rest fuel).map (e :: ·)
        | .error _ => none
    match parseAll rest 4 with
    | some args =>
      match doRed st kind args with
      | .ok s => (st, "R=" ++ s)
      | .error msg => (st, "model-error " ++ msg)
    | none => (st, "bad-op")
  | _ => (st, "bad-op")

partial def loop (h : IO.FS.Stream) (out : IO.FS.Stream) (s : Store) : IO Unit := do
  let line ← h.getLine
  if line.isEmpty then return ()
  let (s', o) := step s line
  out.putStrLn o
  loop h out s'

def main : IO Unit := do
  loop (← IO.getStdin) (← IO.getStdout) {}
