/-
Shared helpers of the numeric line-protocol drivers: dyadic token parsing, exact
printing (`m e` = m·2^e with m odd, the format of vh::exactDouble), the `Num`
class (Scalar + parsing/printing + transcendental functions).  Core Lean only.
-/
import SharkVerif.Model.Scalar
open SharkVerif SharkVerif.Scalar

/-- normalise `m·2^e` to odd `m` -/
partial def normME (m e : Int) : String :=
  if m == 0 then "0 0" else
  if m % 2 == 0 then normME (m / 2) (e + 1) else s!"{m} {e}"

def log2? (d : Nat) : Option Nat :=
  let rec go (fuel d k : Nat) : Option Nat :=
    match fuel with
    | 0 => none
    | f+1 => if d == 1 then some k else if d % 2 == 0 then go f (d / 2) (k + 1) else none
  go 4096 d 0

def showRat (q : Rat) : String :=
  match log2? q.den with
  | some k => normME q.num (-(k : Int))
  | none => s!"q {q.num}/{q.den}"

def showFloat (x : Float) : String :=
  if x.isNaN then "nan" else if x.isInf then (if x > 0 then "inf" else "-inf") else
  let b := x.toBits.toNat
  let sign : Int := if b / 2 ^ 63 == 1 then -1 else 1
  let ex : Nat := (b / 2 ^ 52) % 2048
  let frac : Nat := b % 2 ^ 52
  if ex == 0 then normME (sign * Int.ofNat frac) (-1074)
  else normME (sign * Int.ofNat (2 ^ 52 + frac)) (Int.ofNat ex - 1075)

class Num (α : Type) extends Scalar α where
  ofDy : Int → Nat → α
  shw : α → String
  exp : α → α
  log : α → α
  sqrt : α → α
  tanh : α → α

instance : Num Rat where
  ofDy a k := (a : Rat) / ((2 ^ k : Nat) : Rat)
  shw := showRat
  exp x := x       -- not used in rat mode (exp/log losses are float-only)
  log x := x
  sqrt x := x
  tanh x := x
instance : Num Float where
  ofDy a k := Float.ofInt a / (2 ^ k : Nat).toFloat
  shw := showFloat
  exp := Float.exp
  log := Float.log
  sqrt := Float.sqrt
  tanh := Float.tanh

def parseDy {α} [Num α] (t : String) : Option α :=
  match t.splitOn "/" with
  | [a, k] => do let a ← a.toInt?; let k ← k.toNat?; pure (Num.ofDy a k)
  | [a] => do let a ← a.toInt?; pure (Num.ofDy a 0)
  | _ => none

def chunk {β} (l : List β) (m : Nat) : List (List β) :=
  if m = 0 then l.map fun _ => [] else
  let rec go (fuel : Nat) (l : List β) : List (List β) :=
    match fuel with
    | 0 => []
    | f+1 => if l.isEmpty then [] else l.take m :: go f (l.drop m)
  go (l.length + 1) l

def showVec {α} [Num α] (v : List α) : String := ",".intercalate (v.map Num.shw)
def showMat {α} [Num α] (g : List (List α)) : String := ";".intercalate (g.map showVec)

/-- sections of an op line are separated by `|` -/
def sections (line : String) : List (List String) :=
  (line.splitOn "|").map fun s => (s.trimAscii.toString.splitOn " ").filter (· ≠ "")

