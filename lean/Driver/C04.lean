/-
Line-protocol driver for the C04 models (dense layers, activations, two-layer
concatenation, normalizer/softmax rows, arg-max).  Sections separated by `|`.
-/
import SharkVerif.Model.Models3
import Driver.Util
open SharkVerif SharkVerif.Models SharkVerif.Scalar

def parseAct : String → Option Act
  | "linear" => some .linear | "rectifier" => some .rectifier | "tanh" => some .tanh
  | "logistic" => some .logistic | "fastsigmoid" => some .fastSigmoid | _ => none

def mat {α} [Num α] (l : List α) (cols : Nat) : Nat → Nat → α :=
  let a := l.toArray
  fun i j => a.getD (i * cols + j) 0

def matList {α} (rows cols : Nat) (f : Nat → Nat → α) : List (List α) :=
  (List.range rows).map fun i => (List.range cols).map fun j => f i j

def mkDense {α} [Num α] (act : Act) (hasB : Bool) (nIn nOut : Nat) (p : List α) : Dense α :=
  let m : Dense α := { nIn := nIn, nOut := nOut, W := fun _ _ => 0, hasB := hasB, b := fun _ => 0, act := act }
  m.setParams p

/-- layer specs of a (possibly nested) `ConcatenatedModel` → `Net`; returns the remaining specs, the output size,
the unused parameters and whether the sequence was closed by `]` -/
partial def parseSeq {α} [Num α] (specs : List String) (nIn : Nat) (p : List α) :
    Option (Net α × List String × Nat × List α × Bool) :=
  match specs with
  | [] => some (.nil, [], nIn, p, false)
  | sp :: rest =>
    match sp.splitOn ":" with
    | ["]"] => some (.nil, rest, nIn, p, true)
    | ["[", o] =>
      match parseSeq rest nIn p with
      | some (.nil, _, _, _, _) => none                     -- an empty group has no input shape
      | some (inner, rest1, n1, p1, true) =>
        match parseSeq rest1 n1 p1 with
        | some (tail, rest2, n2, p2, cl) => some (.cons inner (o == "1") tail, rest2, n2, p2, cl)
        | none => none
      | _ => none
    | ["d", act, hb, nOut, opt] =>
      match parseAct act, hb.toNat?, nOut.toNat?, opt.toNat? with
      | some act, some hb, some nOut, some opt =>
        let np := nOut * nIn + (if hb == 1 then nOut else 0)
        if p.length < np then none else
        let m := mkDense act (hb == 1) nIn nOut (p.take np)
        match parseSeq rest nOut (p.drop np) with
        | some (tail, rest2, n2, p2, cl) => some (.cons (.leaf (.dense m)) (opt == 1) tail, rest2, n2, p2, cl)
        | none => none
      | _, _, _, _ => none
    | ["n", act, opt] =>
      match parseAct act, opt.toNat? with
      | some act, some opt =>
        match parseSeq rest nIn p with
        | some (tail, rest2, n2, p2, cl) => some (.cons (.leaf (.neuron act nIn)) (opt == 1) tail, rest2, n2, p2, cl)
        | none => none
      | _, _ => none
    | ["r", kind, opt] =>
      match opt.toNat? with
      | some opt =>
        match parseSeq rest nIn p with
        | some (tail, rest2, n2, p2, cl) =>
          some (.cons (.leaf (.rowact (if kind == "softmax" then .softmax else .normalizer) nIn)) (opt == 1) tail, rest2, n2, p2, cl)
        | none => none
      | none => none
    | _ => none

def runOp {α} [Num α] (secs : List (List String)) : String :=
  let nums : List String → Option (List α) := fun ts => ts.mapM parseDy
  match secs with
  -- dense act hasB nIn nOut B | params | X | C
  | [["dense", act, hb, nIn, nOut, b], ps, xs, cs] =>
    match parseAct act, hb.toNat?, nIn.toNat?, nOut.toNat?, b.toNat?, nums ps, nums xs, nums cs with
    | some act, some hb, some nIn, some nOut, some B, some p, some x, some c =>
      let m := mkDense act (hb == 1) nIn nOut p
      let X := mat x nIn
      let C := mat c nOut
      let single := matList B nOut fun i k => m.eval Num.tanh (X i) k
      let out := m.evalB Num.tanh X
      let e := matList B nOut out
      let gp := m.gradParams B X out C
      let gx := matList B nIn (m.gradX out C)
      s!"NP={m.numberOfParameters} PV={showVec m.params} S={showMat single} E={showMat e} GP={showVec gp} GX={showMat gx}"
    | _, _, _, _, _, _, _, _ => "bad-op"
  -- concat act1 hb1 act2 hb2 nIn nHid nOut B | params (layer 1 then layer 2) | X | C
  | [["concat", a1, h1, a2, h2, nIn, nHid, nOut, b], ps, xs, cs] =>
    match parseAct a1, h1.toNat?, parseAct a2, h2.toNat?, nIn.toNat?, nHid.toNat?, nOut.toNat?, b.toNat?, nums ps, nums xs, nums cs with
    | some a1, some h1, some a2, some h2, some nIn, some nHid, some nOut, some B, some p, some x, some c =>
      let n1 := nHid * nIn + (if h1 == 1 then nHid else 0)
      let f := mkDense a1 (h1 == 1) nIn nHid (p.take n1)
      let g := mkDense a2 (h2 == 1) nHid nOut (p.drop n1)
      let cm : Concat2 α := { f := f, g := g }
      let X := mat x nIn
      let C := mat c nOut
      let e := matList B nOut (cm.evalB Num.tanh X)
      let gp := cm.gradParams Num.tanh B X C
      let gx := matList B nIn (cm.gradX Num.tanh X C)
      s!"NP={cm.params.length} PV={showVec cm.params} E={showMat e} GP={showVec gp} GX={showMat gx}"
    | _, _, _, _, _, _, _, _, _, _, _ => "bad-op"
  -- rowact normalizer|softmax n B | Z | D   : activation rows and multiplyDerivative rows
  | [["rowact", kind, n, b], zs, ds] =>
    match n.toNat?, b.toNat?, nums zs, nums ds with
    | some n, some B, some z, some d =>
      let Z := mat z n
      let D := mat d n
      if kind == "normalizer" then
        let out := fun i k => normalizeRow n (Z i) k
        let der := matList B n fun i k => normalizeDeriv n (out i) (D i) (sumR n (Z i)) k
        s!"E={showMat (matList B n out)} D={showMat der}"
      else
        let out := fun i k => softmaxRow Num.exp n (Z i) k
        let der := matList B n fun i k => softmaxDeriv n (out i) (D i) k
        s!"E={showMat (matList B n out)} D={showMat der}"
    | _, _, _, _ => "bad-op"
  -- chain B nIn | layer specs | params (ALL dense layers, in order) | X | C
  --   layer spec: d:<act>:<hasB>:<nOut>:<opt> | n:<act>:<opt> | r:<softmax|normalizer>:<opt> | [:<opt> … ]  (nested model)
  | [["chain", b, nIn], specs, ps, xs, cs] =>
    match b.toNat?, nIn.toNat?, nums ps, nums xs, nums cs with
    | some B, some nIn, some p, some x, some c =>
      match parseSeq specs nIn p with
      | some (net, [], nOut, [], false) =>
        let X := mat x nIn
        let C := mat c nOut
        let e := matList B nOut (net.evalB Num.tanh Num.exp X)
        let (gp, gx) := net.backward Num.tanh Num.exp B X C
        let gxl := matList B nIn gx
        s!"NP={net.numberOfParameters} PV={showVec net.params} E={showMat e} GP={showVec gp} GX={showMat gxl} GP2={showVec gp} GX2={showMat gxl}"
      | _ => "bad-op"
    | _, _, _, _, _ => "bad-op"
  -- sparse act hasB nIn nOut B | params | X | C     (LinearModel on sparse inputs = the dense model)
  | [["sparse", act, hb, nIn, nOut, b], ps, xs, cs] =>
    match parseAct act, hb.toNat?, nIn.toNat?, nOut.toNat?, b.toNat?, nums ps, nums xs, nums cs with
    | some act, some hb, some nIn, some nOut, some B, some p, some x, some c =>
      let m := mkDense act (hb == 1) nIn nOut p
      let X := mat x nIn
      let C := mat c nOut
      let single := matList B nOut fun i k => m.eval Num.tanh (X i) k
      let out := m.evalB Num.tanh X
      s!"NP={m.numberOfParameters} PV={showVec m.params} S={showMat single} E={showMat (matList B nOut out)} GP={showVec (m.gradParams B X out C)}"
    | _, _, _, _, _, _, _, _ => "bad-op"
  | [["argmax", n], zs] =>
    match n.toNat?, nums zs with
    | some n, some z => let a := z.toArray; s!"R={argmax n fun k => a.getD k 0}"
    | _, _ => "bad-op"
  | _ => "fallthrough"

/-- what the further C04 models need beyond `Num`: `std::floor`, the `(std::size_t)` cast of a
non-negative value and the constant `log π` -/
class Num2 (α : Type) extends Num α where
  floor : α → α
  toNat : α → Nat
  logPi : α
  /-- the constants 1e-100 and 1e100 of `Centroids::membershipKernel` -/
  tiny : α
  huge : α

instance : Num2 Rat where
  floor q := ((q.floor : Int) : Rat)
  toNat q := q.floor.toNat
  logPi := 0          -- not used in rat mode
  tiny := 0
  huge := 0
instance : Num2 Float where
  floor := Float.floor
  toNat x := x.toUInt64.toNat
  logPi := Float.log (Float.ofBits 0x400921FB54442D18)   -- boost::math::constants::pi<double>()
  tiny := 1e-100
  huge := 1e100

def showNats (l : List Nat) : String := ",".intercalate (l.map toString)

/-- tree build script: `I:<node>:<attribute>:<threshold>` / `L:<node>:<label>` applied to `createRoot()` -/
def buildTree {α} [Num α] (script : List String) : Option (Tree α) :=
  script.foldlM (fun (t : Tree α) sp =>
    match sp.splitOn ":" with
    | ["I", id, attr, thr] =>
      match id.toNat?, attr.toNat?, (parseDy thr : Option α) with
      | some id, some attr, some thr => if id < t.nodes.length then some (t.internal id attr thr) else none
      | _, _, _ => none
    | ["L", id, lab] =>
      match id.toNat?, lab.toNat? with
      | some id, some lab => if id < t.nodes.length then some (t.leaf id lab) else none
      | _, _ => none
    | _ => none) Tree.root

def runOp2 {α} [Num2 α] (secs : List (List String)) : String :=
  let nums : List String → Option (List α) := fun ts => ts.mapM parseDy
  let nats : List String → Option (List Nat) := fun ts => ts.mapM (·.toNat?)
  match secs with
  -- normalizer hasB n B | params | X
  | [("normalizer" :: hd), ps, xs] =>
    match nats hd, nums ps, nums xs with
    | some [hb, n, B], some p, some x =>
      let m : Diag α := ({ n := n, a := fun _ => 0, hasB := hb == 1, b := fun _ => 0 } : Diag α).setParams p
      let X := mat x n
      let single := matList B n fun i k => m.eval (X i) k
      let e := matList B n (m.evalB X)
      s!"NP={m.numberOfParameters} PV={showVec m.params} S={showMat single} E={showMat e}"
    | _, _, _ => "bad-op"
  -- classifier nIn nOut hasB hasBias B probe | params | bias | X
  | [("classifier" :: hd), ps, bs, xs] =>
    match nats hd, nums ps, nums bs, nums xs with
    | some [nIn, nOut, hb, hasBias, B, _], some p, some bias, some x =>
      let m := mkDense .linear (hb == 1) nIn nOut p
      let X := mat x nIn
      let ba := bias.toArray
      let r := (List.range B).map fun i => classifyRow nOut (hasBias == 1) (fun k => ba.getD k 0) (m.evalB Num.tanh X i)
      s!"NP={m.numberOfParameters} PV={showVec m.params} R={showNats r}"
    | _, _, _, _ => "bad-op"
  -- pool h w d ph pw B fd probe | X | C
  | [("pool" :: hd), xs, cs] =>
    match nats hd, nums xs, nums cs with
    | some [h, w, d, ph, pw, B, _, _], some x, some c =>
      let s : Pool := { h := h, w := w, d := d, ph := ph, pw := pw }
      let X := mat x s.nIn
      let C := mat c s.nOut
      let e := matList B s.nOut (s.evalB X)
      let gx := matList B s.nIn (s.gradX X C)
      s!"NP=0 S={showMat e} E={showMat e} GX={showMat gx}"
    | _, _, _ => "bad-op"
  -- resize h w d oh ow B | X | C
  | [("resize" :: hd), xs, cs] =>
    match nats hd, nums xs, nums cs with
    | some [h, w, d, oh, ow, B], some x, some c =>
      let s : Resize := { h := h, w := w, d := d, oh := oh, ow := ow }
      let g0 : Gather α := s.gather Num2.floor Num2.toNat
      -- tabulate the taps once per output pixel
      let tab := ((List.range g0.nOutPix).map g0.taps).toArray
      let g : Gather α := { g0 with taps := fun p => tab.getD p [] }
      let X := mat x g.nIn
      let C := mat c g.nOut
      let e := matList B g.nOut (g.evalB X)
      let gx := matList B g.nIn (g.gradX C)
      s!"NP=0 S={showMat e} E={showMat e} GX={showMat gx}"
    | _, _, _ => "bad-op"
  -- rbf nIn nOut trainCenters trainWidth B | centers | log gamma | X | C
  | [("rbf" :: hd), cens, lgs, xs, cs] =>
    match nats hd, nums cens, nums lgs, nums xs, nums cs with
    | some [nIn, nOut, tc, tw, B], some cen, some lg, some x, some c =>
      let m0 : RBF α := { nIn := nIn, nOut := nOut, centers := fun _ _ => 0, gamma := fun _ => 0, trainCenters := true, trainWidth := true }
      let m1 := m0.setParams Num.exp (cen ++ lg)
      let m : RBF α := { m1 with trainCenters := tc == 1, trainWidth := tw == 1 }
      -- the harness sets the trained part of the parameter vector once more
      let m := m.setParams Num.exp ((if tc == 1 then cen else []) ++ (if tw == 1 then lg else []))
      let X := mat x nIn
      let C := mat c nOut
      let out := m.evalB Num.exp Num.log Num2.logPi X
      let e := matList B nOut out
      let gp := m.gradParams B X out C
      s!"NP={m.numberOfParameters} TPV={showVec (m.params Num.log)} TS={showMat e} TE={showMat e} GP={showVec gp}"
    | _, _, _, _, _ => "bad-op"
  -- kexp <linear|gauss> gamma nIn nBasis nOut hasB basisBatch B | basis | params | X
  | [["kexp", kern, gam, nIn, nBasis, nOut, hb, _, b], bs, ps, xs] =>
    match (parseDy gam : Option α), nats [nIn, nBasis, nOut, hb, b], nums bs, nums ps, nums xs with
    | some gamma, some [nIn, nBasis, nOut, hb, B], some bas, some p, some x =>
      let m : KExp α := ({ nBasis := nBasis, nOut := nOut, basis := mat bas nIn, alpha := fun _ _ => 0, hasB := hb == 1, b := fun _ => 0 } : KExp α).setParams p
      let k : (Nat → α) → (Nat → α) → α := if kern == "linear" then kLinear nIn else kGauss Num.exp gamma nIn
      let X := mat x nIn
      let single := matList B nOut fun i o => m.eval k (X i) o
      let e := matList B nOut (m.evalB k X)
      if kern == "linear" then s!"NP={m.numberOfParameters} PV={showVec m.params} S={showMat single} E={showMat e}"
      else s!"NP={m.numberOfParameters} PV={showVec m.params} TS={showMat single} TE={showMat e}"
    | _, _, _, _, _ => "bad-op"
  -- ensemble <mean|vote> M nIn nOut hasB B | weights | params of all members | X
  | [("ensemble" :: kind :: hd), wsec, ps, xs] =>
    match nats hd, nums wsec, nums ps, nums xs with
    | some [M, nIn, nOut, hb, B], some ws, some p, some x =>
      let np := nOut * nIn + (if hb == 1 then nOut else 0)
      let members := (List.range M).map fun m => mkDense .linear (hb == 1) nIn nOut ((p.drop (m * np)).take np)
      let X := mat x nIn
      if kind == "mean" then
        let single := matList B nOut fun i k => ensembleMean ws (members.map fun m => m.eval Num.tanh (X i)) k
        let e := matList B nOut fun i k => ensembleMean ws (members.map fun m => m.evalB Num.tanh X i) k
        s!"NP=0 S={showMat single} E={showMat e}"
      else
        -- one vote column per class; members with a single (thresholded) output answer 0 or 1 (repaired code, F-C04-3)
        let nCls := if nOut == 1 then 2 else nOut
        let resp := fun i => members.map fun m => classifyRow nOut false (fun _ => 0) (m.evalB Num.tanh X i)
        let v := matList B nCls fun i k => ensembleVote ws (resp i) k
        let r := (List.range B).map fun i => classifyRow nCls false (fun _ => 0) (ensembleVote ws (resp i))
        s!"NP=0 V={showMat v} R={showNats r}"
    | _, _, _, _ => "bad-op"
  -- conv <act> valid h w c nf fh fw B probe | params | X | C
  | [("conv" :: act :: hd), ps, xs, cs] =>
    match parseAct act, nats hd, nums ps, nums xs, nums cs with
    | some act, some [valid, h, w, c, nf, fh, fw, B, probe], some p, some x, some cc =>
      let isValid : Bool := valid == 1
      let m0 : Conv α := Conv.mk h w c nf fh fw isValid (fun _ => 0) (fun _ => 0) act
      let m : Conv α := m0.setParams p
      -- tabulate the parameters (the model reads them through `List.getD`)
      let fa := ((List.range (m.nf * m.fsize)).map m.filt).toArray
      let oa := ((List.range m.nf).map m.off).toArray
      let m : Conv α := { m with filt := fun q => fa.getD q 0, off := fun f => oa.getD f 0 }
      let X := mat x m.nIn
      let C := mat cc m.nOut
      let out := m.evalB Num.tanh X
      let ea := ((List.range B).map fun i => ((List.range m.nOut).map (out i)).toArray).toArray
      let outT : Nat → Nat → α := fun i o => (ea.getD i #[]).getD o 0
      let e := matList B m.nOut outT
      let gp := m.gradParams B X outT C
      let gxs := if probe == 1 then showMat (matList B m.nIn (m.gradX outT C)) else "-"
      if act == .linear || act == .rectifier then
        s!"NP={m.numberOfParameters} PV={showVec m.params} S={showMat e} E={showMat e} GP={showVec gp} GX={gxs}"
      else
        s!"NP={m.numberOfParameters} PV={showVec m.params} TS={showMat e} TE={showMat e} GP={showVec gp} GX={gxs}"
    | _, _, _, _, _ => "bad-op"
  -- cmac nIn nOut tilings tiles B | lower upper | params | X | C
  | [("cmac" :: hd), lu, ps, xs, cs] =>
    match nats hd, nums lu, nums ps, nums xs, nums cs with
    | some [nIn, nOut, tilings, tiles, B], some [lo, up], some p, some x, some c =>
      let m : CMAC α := { nIn := nIn, nOut := nOut, tilings := tilings, tiles := tiles, lower := lo, upper := up, params := p }
      if p.length != m.numberOfParameters then s!"NP={m.numberOfParameters} bad-parameter-count" else
      let X := mat x nIn
      let C := mat c nOut
      let e := matList B nOut (m.evalB Num2.toNat X)
      let gp := (List.range m.numberOfParameters).map (m.gradParam Num2.toNat B X C)
      s!"NP={m.numberOfParameters} PV={showVec m.params} S={showMat e} E={showMat e} GP={showVec gp}"
    | _, _, _, _, _ => "bad-op"
  -- kclass nIn nBasis nOut hasB B | basis | params | X
  | [("kclass" :: hd), bs, ps, xs] =>
    match nats hd, nums bs, nums ps, nums xs with
    | some [nIn, nBasis, nOut, hb, B], some bas, some p, some x =>
      if bas.length != nBasis * nIn || x.length != B * nIn || p.length != nBasis * nOut + (if hb == 1 then nOut else 0) then "bad-op" else
      let m : KExp α := ({ nBasis := nBasis, nOut := nOut, basis := mat bas nIn, alpha := fun _ _ => 0, hasB := hb == 1, b := fun _ => 0 } : KExp α).setParams p
      let X := mat x nIn
      let r := (List.range B).map fun i => classifyRow nOut false (fun _ => 0) (m.evalB (kLinear nIn) X i)
      s!"NP={m.numberOfParameters} PV={showVec m.params} R={showNats r}"
    | _, _, _, _ => "bad-op"
  -- ovo nIn classes B | params | X
  | [("ovo" :: hd), ps, xs] =>
    match nats hd, nums ps, nums xs with
    | some [nIn, classes, B], some p, some x =>
      let nb := classes * (classes - 1) / 2
      if classes < 1 || p.length != nb * (nIn + 1) || x.length != B * nIn then "bad-op" else
      let bins := ((List.range nb).map fun q => mkDense .linear true nIn 1 ((p.drop (q * (nIn + 1))).take (nIn + 1))).toArray
      let X := mat x nIn
      let r := (List.range B).map fun i =>
        ovoDecide classes fun q => match bins[q]? with
          | some m => classifyRow 1 false (fun _ => 0) (m.evalB Num.tanh X i)
          | none => 0
      -- parameter vector: the vectors of the binary classifiers in order (the slicing of a chain of optimised layers)
      let ch : Chain α := bins.toList.map fun m => (Layer.dense m, true)
      s!"NP={ch.numberOfParameters} PV={showVec ch.params} R={showNats r}"
    | _, _, _ => "bad-op"
  -- cart nIn nCls B | script | X
  | [("cart" :: hd), script, xs] =>
    match nats hd, nums xs with
    | some [nIn, _, B], some x =>
      match buildTree (α := α) script with
      | some t => if x.length != B * nIn then "bad-op" else
        let X := mat x nIn
        s!"NP=0 R={showNats ((List.range B).map (t.evalB X))}"
      | none => "bad-op"
    | _, _ => "bad-op"
  -- cluster nIn nC B centroidBatch | centroids | X
  | [("cluster" :: hd), cs, xs] =>
    match nats hd, nums cs, nums xs with
    | some [nIn, nC, B, _], some cen, some x =>
      if cen.length != nC * nIn || x.length != B * nIn || nC == 0 then "bad-op" else
      -- the centroid matrix is packed row by row, like the weight matrix of a dense layer without offset
      let cm := mkDense .linear false nIn nC cen
      let Cn := cm.W
      let X := mat x nIn
      let soft := fun i k => softMembership Num.sqrt Num2.tiny Num2.huge nIn nC Cn (X i) k
      let e := matList B nC soft
      let r := (List.range B).map fun i => hardMembership Num.sqrt Num2.tiny Num2.huge nIn nC Cn (X i)
      s!"NP={cm.numberOfParameters} PV={showVec cm.params} TS={showMat e} TE={showMat e} R={showNats r}"
    | _, _, _ => "bad-op"
  -- dropout p n B seed | X | C     (random: checked by the oracle of the harness only)
  | [["dropout", _, n, b, _], xs, cs] =>
    match n.toNat?, b.toNat?, nums xs, nums cs with
    | some n, some B, some x, some c => if x.length != B * n || c.length != B * n then "bad-op" else "NP=0 DROPOUT"
    | _, _, _, _ => "bad-op"
  -- rf nIn nCls B | weights | script_1 | … | script_M | X
  | ("rf" :: hd) :: wsec :: more =>
    match nats hd, nums wsec, more.getLast?.bind nums with
    | some [nIn, nCls, B], some ws, some x =>
      let scripts := more.dropLast
      match scripts.mapM (buildTree (α := α)) with
      | some trees =>
        if x.length != B * nIn || ws.length != trees.length || ws.isEmpty then "bad-op" else
        let X := mat x nIn
        let nC := if nCls == 1 then 2 else nCls
        let resp := fun i => trees.map fun t => t.evalB X i
        let v := matList B nC fun i k => ensembleVote ws (resp i) k
        let r := (List.range B).map fun i => classifyRow nC false (fun _ => 0) (ensembleVote ws (resp i))
        s!"NP=0 V={showMat v} R={showNats r}"
      | none => "bad-op"
    | _, _, _ => "bad-op"
  | _ => "bad-op"

partial def loop (h : IO.FS.Stream) (out : IO.FS.Stream) (float : Bool) : IO Unit := do
  let line ← h.getLine
  if line.isEmpty then return ()
  let secs := sections line
  match secs with
  | [["mode", "float"]] => out.putStrLn "ok"; loop h out true
  | [["mode", "rat"]] => out.putStrLn "ok"; loop h out false
  | [["probe", _, _]] => out.putStrLn "ok"; loop h out float      -- harness-side oracle switches
  | _ =>
    let r := if float then runOp (α := Float) secs else runOp (α := Rat) secs
    let r := if r == "fallthrough" then (if float then runOp2 (α := Float) secs else runOp2 (α := Rat) secs) else r
    out.putStrLn r
    loop h out float

def main : IO Unit := do loop (← IO.getStdin) (← IO.getStdout) false
