/-
Line-protocol driver for the C04 models (dense layers, activations, two-layer
concatenation, normalizer/softmax rows, arg-max).  Sections separated by `|`.
-/
import SharkVerif.Model.Models
import Driver.Util
open SharkVerif SharkVerif.Models SharkVerif.Scalar

def parseAct : String → Option Act
  | "linear" => some .linear | "rectifier" => some .rectifier | "tanh" => some .tanh
  | "logistic" => some .logistic | "fastsigmoid" => some .fastSigmoid | _ => none

def mat {α} [Num α] (l : List α) (cols : Nat) : Nat → Nat → α :=
  let a := l.toArray
  fun i j => a.getD (i * cols + j) 0

def matList {α} (rows cols : Nat) (f : Nat → Nat → α) : List (List α) :=
  (List.range rows).map fun i => (List.range cols).map fun j => f i j

def mkDense {α} [Num α] (act : Act) (hasB : Bool) (nIn nOut : Nat) (p : List α) : Dense α :=
  let m : Dense α := { nIn := nIn, nOut := nOut, W := fun _ _ => 0, hasB := hasB, b := fun _ => 0, act := act }
  m.setParams p

def runOp {α} [Num α] (secs : List (List String)) : String :=
  let nums : List String → Option (List α) := fun ts => ts.mapM parseDy
  match secs with
  -- dense act hasB nIn nOut B | params | X | C
  | [["dense", act, hb, nIn, nOut, b], ps, xs, cs] =>
    match parseAct act, hb.toNat?, nIn.toNat?, nOut.toNat?, b.toNat?, nums ps, nums xs, nums cs with
    | some act, some hb, some nIn, some nOut, some B, some p, some x, some c =>
      let m := mkDense act (hb == 1) nIn nOut p
      let X := mat x nIn
      let C := mat c nOut
      let single := matList B nOut fun i k => m.eval Num.tanh (X i) k
      let out := m.evalB Num.tanh X
      let e := matList B nOut out
      let gp := m.gradParams B X out C
      let gx := matList B nIn (m.gradX out C)
      s!"NP={m.numberOfParameters} PV={showVec m.params} S={showMat single} E={showMat e} GP={showVec gp} GX={showMat gx}"
    | _, _, _, _, _, _, _, _ => "bad-op"
  -- concat act1 hb1 act2 hb2 nIn nHid nOut B | params (layer 1 then layer 2) | X | C
  | [["concat", a1, h1, a2, h2, nIn, nHid, nOut, b], ps, xs, cs] =>
    match parseAct a1, h1.toNat?, parseAct a2, h2.toNat?, nIn.toNat?, nHid.toNat?, nOut.toNat?, b.toNat?, nums ps, nums xs, nums cs with
    | some a1, some h1, some a2, some h2, some nIn, some nHid, some nOut, some B, some p, some x, some c =>
      let n1 := nHid * nIn + (if h1 == 1 then nHid else 0)
      let f := mkDense a1 (h1 == 1) nIn nHid (p.take n1)
      let g := mkDense a2 (h2 == 1) nHid nOut (p.drop n1)
      let cm : Concat2 α := { f := f, g := g }
      let X := mat x nIn
      let C := mat c nOut
      let e := matList B nOut (cm.evalB Num.tanh X)
      let gp := cm.gradParams Num.tanh B X C
      let gx := matList B nIn (cm.gradX Num.tanh X C)
      s!"NP={cm.params.length} PV={showVec cm.params} E={showMat e} GP={showVec gp} GX={showMat gx}"
    | _, _, _, _, _, _, _, _, _, _, _ => "bad-op"
  -- rowact normalizer|softmax n B | Z | D   : activation rows and multiplyDerivative rows
  | [["rowact", kind, n, b], zs, ds] =>
    match n.toNat?, b.toNat?, nums zs, nums ds with
    | some n, some B, some z, some d =>
      let Z := mat z n
      let D := mat d n
      if kind == "normalizer" then
        let out := fun i k => normalizeRow n (Z i) k
        let der := matList B n fun i k => normalizeDeriv n (out i) (D i) (sumR n (Z i)) k
        s!"E={showMat (matList B n out)} D={showMat der}"
      else
        let out := fun i k => softmaxRow Num.exp n (Z i) k
        let der := matList B n fun i k => softmaxDeriv n (out i) (D i) k
        s!"E={showMat (matList B n out)} D={showMat der}"
    | _, _, _, _ => "bad-op"
  -- chain B nIn | layer specs | params (optimised layers, in order) | X | C
  --   layer spec: d:<act>:<hasB>:<nOut>:<opt> | n:<act>:<opt> | r:<softmax|normalizer>:<opt>
  | [["chain", b, nIn], specs, ps, xs, cs] =>
    match b.toNat?, nIn.toNat?, nums ps, nums xs, nums cs with
    | some B, some nIn, some p, some x, some c =>
      -- build the layers, consuming parameters of optimised dense layers from `p`; non-optimised dense
      -- layers take their parameters from the same stream too (the harness sets them before freezing)
      let rec build (specs : List String) (nIn : Nat) (p : List α) (acc : Chain α) : Option (Chain α × Nat) :=
        match specs with
        | [] => some (acc.reverse, nIn)
        | sp :: rest =>
          match sp.splitOn ":" with
          | ["d", act, hb, nOut, opt] =>
            match parseAct act, hb.toNat?, nOut.toNat?, opt.toNat? with
            | some act, some hb, some nOut, some opt =>
              let np := nOut * nIn + (if hb == 1 then nOut else 0)
              let m := mkDense act (hb == 1) nIn nOut (p.take np)
              build rest nOut (p.drop np) ((Layer.dense m, opt == 1) :: acc)
            | _, _, _, _ => none
          | ["n", act, opt] =>
            match parseAct act, opt.toNat? with
            | some act, some opt => build rest nIn p ((Layer.neuron act nIn, opt == 1) :: acc)
            | _, _ => none
          | ["r", kind, opt] =>
            match opt.toNat? with
            | some opt => build rest nIn p ((Layer.rowact (if kind == "softmax" then .softmax else .normalizer) nIn, opt == 1) :: acc)
            | none => none
          | _ => none
      match build specs nIn p [] with
      | some (ch, nOut) =>
        let X := mat x nIn
        let C := mat c nOut
        let e := matList B nOut (ch.evalB Num.tanh Num.exp X)
        let (gp, gx) := ch.backward Num.tanh Num.exp B X C
        let gxl := matList B nIn gx
        s!"NP={ch.params.length} PV={showVec ch.params} E={showMat e} GP={showVec gp} GX={showMat gxl} GP2={showVec gp} GX2={showMat gxl}"
      | none => "bad-op"
    | _, _, _, _, _ => "bad-op"
  | [["argmax", n], zs] =>
    match n.toNat?, nums zs with
    | some n, some z => let a := z.toArray; s!"R={argmax n fun k => a.getD k 0}"
    | _, _ => "bad-op"
  | _ => "bad-op"

partial def loop (h : IO.FS.Stream) (out : IO.FS.Stream) (float : Bool) : IO Unit := do
  let line ← h.getLine
  if line.isEmpty then return ()
  let secs := sections line
  match secs with
  | [["mode", "float"]] => out.putStrLn "ok"; loop h out true
  | [["mode", "rat"]] => out.putStrLn "ok"; loop h out false
  | _ =>
    out.putStrLn (if float then runOp (α := Float) secs else runOp (α := Rat) secs)
    loop h out float

def main : IO Unit := do loop (← IO.getStdin) (← IO.getStdout) false
