/-
Line-protocol driver for the C16 models.  One op per input line, one observation
line per op; same protocol as harness/c16*.cpp.  Imports Model/ and Gen/ only.

  tables  <name> <c>   generated table `name` at class count c, Float instance, doubles as bit patterns
  tablesq <name> <c>   the same at the Rat instance, values as num/den
-/
import SharkVerif.Gen.McTables
open SharkVerif.Mc SharkVerif.Gen

def fbits (x : Float) : String := toString x.toBits.toNat
def qstr (x : Rat) : String := s!"{x.num}/{x.den}"

def dumpSparse {α : Type} [OfScientific α] (show_ : α → String) (s : Sparse α) : String :=
  let rows := (List.range s.height).map fun r =>
    let row := s.row r
    show_ row.dflt ++ ":" ++ ",".intercalate (row.entries.map fun e => s!"{e.1}={show_ e.2}") ++ ";"
  s!"h={s.height} w={s.width} space={s.space} used={s.used} rows=" ++ String.join rows

def step (line : String) : String :=
  let toks := (line.trimAscii.toString.splitOn " ").filter (· ≠ "")
  match toks with
  | [] => ""
  | ["tables", name, c] =>
    match c.toNat?, (McTables.table name (c.toNat?.getD 0) : Option (Sparse Float)) with
    | some _, some t => dumpSparse fbits t
    | _, _ => "bad-op"
  | ["tablesq", name, c] =>
    match c.toNat?, (McTables.table name (c.toNat?.getD 0) : Option (Sparse Rat)) with
    | some _, some t => dumpSparse qstr t
    | _, _ => "bad-op"
  | _ => "bad-op"

partial def loop (h : IO.FS.Stream) (out : IO.FS.Stream) : IO Unit := do
  let line ← h.getLine
  if line.isEmpty then return ()
  out.putStrLn (step line)
  loop h out

def main : IO Unit := do
  loop (← IO.getStdin) (← IO.getStdout)
