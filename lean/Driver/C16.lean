/-
Line-protocol driver for the C16 models.  One op per input line, one observation
line per op; same protocol as harness/c16*.cpp.  Imports Model/ and Gen/ only.

  tables  <name> <c>   generated table `name` at class count c, Float instance, doubles as bit patterns
  tablesq <name> <c>   the same at the Rat instance, values as num/den
  tablesf <name> <c>   the same at the Float32 instance (QpFloatType = float), bit patterns
-/
import SharkVerif.Gen.McTables
import SharkVerif.Model.McSmo
import SharkVerif.Model.McSolve
import SharkVerif.Model.McSimplex
import SharkVerif.Model.McBias
import SharkVerif.Model.McLinear
import Driver.C16L
import Driver.C16E
open SharkVerif.Mc SharkVerif.Gen

def fbits (x : Float) : String := toString x.toBits.toNat
/-- `(float)n` for the single-precision instance of the generated tables (CSvmTrainer's default CacheType) -/
instance : NatCast Float32 := ⟨Float32.ofNat⟩
def f32bits (x : Float32) : String := toString x.toBits.toNat
def qstr (x : Rat) : String := s!"{x.num}/{x.den}"

def dumpSparse {α : Type} [OfScientific α] (show_ : α → String) (s : Sparse α) : String :=
  let rows := (List.range s.height).map fun r =>
    let row := s.row r
    show_ row.dflt ++ ":" ++ ",".intercalate (row.entries.map fun e => s!"{e.1}={show_ e.2}") ++ ";"
  s!"h={s.height} w={s.width} space={s.space} used={s.used} rows=" ++ String.join rows

/-! ### decomposition-class ops (QpMcBoxDecomp) -/

/-- exact value of a finite double -/
def floatToRat (f : Float) : Option Rat :=
  let b : Nat := f.toBits.toNat
  let sign : Int := if b / 2^63 = 1 then -1 else 1
  let e : Nat := (b / 2^52) % 2048
  let m : Nat := b % 2^52
  if e = 2047 then none
  else if e = 0 then some (((sign * (m : Int) : Int) : Rat) * (1 / (2 : Rat)^1074))
  else
    let mant : Int := sign * ((2^52 + m : Nat) : Int)
    if e ≥ 1075 then some ((mant : Rat) * (2 : Rat)^(e - 1075)) else some ((mant : Rat) / (2 : Rat)^(1075 - e))

class Scal (α : Type) where
  ofIntShift : Int → Nat → α      -- num / 2^shift
  render : α → String

instance : Scal Float := ⟨fun n k => Float.ofInt n / Float.ofNat (2^k), fbits⟩
instance : Scal Rat := ⟨fun n k => (n : Rat) / ((2^k : Nat) : Rat), qstr⟩

section
variable {α : Type} [Add α] [Sub α] [Mul α] [Div α] [Neg α] [NatCast α] [OfScientific α]
  [LT α] [LE α] [DecidableLT α] [DecidableLE α] [BEq α] [Scal α]

/-- lookup in an array (partial applications capture the already evaluated array) -/
def arrFn {β : Type} (a : Array β) (d : β) (i : Nat) : β := a.getD i d

@[noinline] def mkArr {β : Type} (n : Nat) (f : Nat → β) : Array β := Array.ofFn (n := n) fun i => f i.val

/- NOTE on sharing: a definition whose result type is a function is compiled with the extra
argument (eta-expanded), so `let a := mkArr ..; fun i => a[i]` inside such a definition would
rebuild the array at every lookup.  Arrays are therefore built in definitions that return data
(structures), and closures are partial applications of `arrFn` to the evaluated array. -/

/-- re-tabulate all vectors of the state (identity on the valid index ranges; keeps evaluation cheap) -/
def normalize (s : McBox α) : McBox α :=
  let nv := s.numVars
  let z : α := (0.0 : α)
  let exd : Ex := { index := 0, y := 0, active := 0, var := fun _ => 0, avar := fun _ => 0 }
  let aLin := mkArr nv s.lin
  let aAlpha := mkArr nv s.alpha
  let aGrad := mkArr nv s.grad
  let aVars := mkArr nv s.vars
  let aEx := mkArr s.n (fun i =>
    let e := s.ex i
    let av := mkArr s.P e.var
    let aa := mkArr s.P e.avar
    { e with var := arrFn av 0, avar := arrFn aa 0 })
  { s with
    lin := arrFn aLin z, alpha := arrFn aAlpha z, grad := arrFn aGrad z,
    ex := arrFn aEx exd,
    vars := arrFn aVars { i := 0, p := 0, index := 0, diagonal := z } }

def dumpBox (s : McBox α) : String :=
  let nv := s.numVars
  let vec (f : Nat → α) := ",".intercalate ((List.range nv).map fun v => Scal.render (f v))
  let nats (f : Nat → Nat) := ".".intercalate ((List.range s.P).map fun p => toString (f p))
  let exs := ";".intercalate ((List.range s.n).map fun i =>
    let e := s.ex i; s!"{e.index}:{e.y}:{e.active}:{nats e.var}:{nats e.avar}")
  let vs := ";".intercalate ((List.range nv).map fun v =>
    let x := s.vars v; s!"{x.i}:{x.p}:{x.index}:{Scal.render x.diagonal}")
  s!"aE={s.activeEx} aV={s.activeVar} un={if s.unshrinked then 1 else 0} A=[{vec s.alpha}] G=[{vec s.grad}] L=[{vec s.lin}] E=[{exs}] V=[{vs}]"

def tableInfo (f : String) (c : Nat) : Option (Nat × (Nat → Row α)) :=
  match (McTables.table (f ++ "_M") c : Option (Sparse α)) with
  | some t => some (t.width, fun r => t.row r)
  | none => none

/-- the `nu` table of the family (for `performBiasUpdate`) -/
def nuInfo (f : String) (c : Nat) : Nat → Row α :=
  match (McTables.table (f ++ "_nu") c : Option (Sparse α)) with
  | some t => fun r => t.row r
  | none => fun _ => Row.empty

/-- `biasupd n1 s1 n2 s2 ...`: the bias step, one dyadic rational per class -/
def parseStep (a : List Int) : Nat → α :=
  let arr := a.toArray
  fun c => Scal.ofIntShift (arr.getD (2 * c) 0) (arr.getD (2 * c + 1) 0).toNat

/-- `box F c n Cnum Cshift shrinking kshift | labels(n) lin(n*P) K(n*n)` (all as one flat list of integers) -/
def mkBox (f : String) (a : List Int) : Option (McBox α) :=
  match a with
  | c :: n :: cnum :: cshift :: shr :: kshift :: rest =>
    let c := c.toNat; let n := n.toNat
    match (tableInfo f c : Option (Nat × (Nat → Row α))) with
    | none => none
    | some (P, M) =>
      if rest.length != n + n * P + n * n then none else
      let arr := rest.toArray
      let labels : Nat → Nat := fun i => (arr.getD i 0).toNat
      let lin : Nat → Nat → α := fun i p => Scal.ofIntShift (arr.getD (n + i * P + p) 0) 0
      let K : Nat → Nat → α := fun i j => Scal.ofIntShift (arr.getD (n + n * P + i * n + j) 0) kshift.toNat
      let aK := mkArr (n * n) (fun t => K (t / n) (t % n))
      let K := fun i j => arrFn aK (0.0 : α) (i * n + j)
      let s := McBox.init c P n (Scal.ofIntShift cnum cshift.toNat) M K labels lin
      some (normalize { s with useShrinking := shr != 0 })
  | _ => none

/-- one op on a problem; `none` = precondition violated / unknown op; second component: extra output -/
def boxOp (s : McBox α) (op : String) (a : List Int) : Option (McBox α × String) :=
  match op, a with
  | "smo", [v, w] =>
    let v := v.toNat; let w := w.toNat
    if v < s.activeVar ∧ w < s.activeVar then some (s.updateSMO v w, "") else none
  | "deactvar", [v] =>
    let v := v.toNat
    if v < s.activeVar then some (s.deactivateVariable v, "") else none
  | "deactex", [e] =>
    let e := e.toNat
    if e < s.activeEx ∧ (s.ex e).active = 0 then some (s.deactivateExample e, "") else none
  | "killex", [e] =>
    -- derived op: deactivate every active variable of the example at position e, last first
    let e := e.toNat
    if e < s.n then
      some ((List.range (s.ex e).active).foldl
        (fun s _ => s.deactivateVariable ((s.ex e).avar ((s.ex e).active - 1))) s, "")
    else none
  | "unshrink", [] => some (s.unshrink, "")
  | "shrink", [num, shift] =>
    let r := s.shrink (Scal.ofIntShift num shift.toNat)
    some (r.1, s!"ret={if r.2 then 1 else 0} ")
  | "adddelta", ds =>
    if ds.length != s.n * s.P then none else
    let arr := ds.toArray
    some (s.addDeltaLinear (fun i p => Scal.ofIntShift (arr.getD (i * s.P + p) 0) 0), "")
  | "label", [i] => if i.toNat < s.n then some (s, s!"label={s.labels i.toNat} ") else none
  | "select1", [] => let r := s.selectWorkingSet; some (s, s!"i={r.1} j={r.2.1} viol={Scal.render r.2.2} ")
  | "solve", [num, shift, maxit] =>
    -- QpSolver<QpMcBoxDecomp>::solve: the model's `solveLoopWith` (= `solveLoop` for the identity, `solveLoopWith_id`) with the
    -- vectors re-tabulated after every pass (identity on the valid index ranges)
    let eps : α := Scal.ofIntShift num shift.toNat
    let r := solveLoopWith normalize eps maxit.toNat { s := s, iter := 0, shrinkCounter := 0, stop := .running }
    let code := match r.stop with | .running => 0 | .accuracy => 1 | .maxIter => 4 | .stuck => 99
    some (r.s, s!"it={r.iter} stop={code} acc={Scal.render r.accuracy} ")
  | _, _ => none
end

/-! ### decomposition-class ops (QpMcSimplexDecomp) -/
section
variable {α : Type} [Add α] [Sub α] [Mul α] [Div α] [Neg α] [NatCast α] [OfScientific α]
  [LT α] [LE α] [DecidableLT α] [DecidableLE α] [BEq α] [Scal α]

def normalizeX (s : McSx α) : McSx α :=
  let b := normalize s.b
  let av := mkArr b.n s.varsum
  { b := b, varsum := arrFn av (0.0 : α) }

def dumpSx (s : McSx α) : String :=
  let b := s.b
  let nv := b.numVars
  let vec (f : Nat → α) := ",".intercalate ((List.range nv).map fun v => Scal.render (f v))
  let nats (f : Nat → Nat) := ".".intercalate ((List.range b.P).map fun p => toString (f p))
  let exs := ";".intercalate ((List.range b.n).map fun i =>
    let e := b.ex i; s!"{e.index}:{e.y}:{e.active}:{Scal.render (s.vsum i)}:{nats e.var}:{nats e.avar}")
  let vs := ";".intercalate ((List.range nv).map fun v =>
    let x := b.vars v; s!"{x.i}:{x.p}:{x.index}:{Scal.render x.diagonal}")
  s!"aE={b.activeEx} aV={b.activeVar} un={if b.unshrinked then 1 else 0} A=[{vec b.alpha}] G=[{vec b.grad}] L=[{vec b.lin}] E=[{exs}] V=[{vs}]"

def mkSx (f : String) (a : List Int) : Option (McSx α) :=
  match (mkBox f a : Option (McBox α)) with
  | some b => some (normalizeX { b := b, varsum := fun _ => (0.0 : α) })
  | none => none

def sxOp (s : McSx α) (op : String) (a : List Int) : Option (McSx α × String) :=
  match op, a with
  | "xsmo", [v, w] =>
    let v := v.toNat; let w := w.toNat
    if v < s.b.activeVar ∧ w < s.b.activeVar then some (s.updateSMO v w, "") else none
  | "xdeactvar", [v] =>
    let v := v.toNat
    if v < s.b.activeVar then some (s.deactivateVariable v, "") else none
  | "xkillex", [e] =>
    let e := e.toNat
    if e < s.b.n then
      some ((List.range (s.b.ex e).active).foldl
        (fun s _ => s.deactivateVariable ((s.b.ex e).avar ((s.b.ex e).active - 1))) s, "")
    else none
  | "xunshrink", [] => some (s.unshrink, "")
  | "xshrink", [num, shift] =>
    let r := s.shrink (Scal.ofIntShift num shift.toNat)
    some (r.1, s!"ret={if r.2 then 1 else 0} ")
  | "xadddelta", ds =>
    if ds.length != s.b.n * s.b.P then none else
    let arr := ds.toArray
    some (s.addDeltaLinear (fun i p => Scal.ofIntShift (arr.getD (i * s.b.P + p) 0) 0), "")
  | "xadddeltas", sh :: ds =>
    if ds.length != s.b.n * s.b.P then none else
    let arr := ds.toArray
    some (s.addDeltaLinear (fun i p => Scal.ofIntShift (arr.getD (i * s.b.P + p) 0) sh.toNat), "")
  | "xlabel", [i] => if i.toNat < s.b.n then some (s, s!"label={s.b.labels i.toNat} ") else none
  | "xkkt", [] => some (s, s!"kkt={Scal.render s.checkKKT} ")
  | "xselect", [] => let r := s.selectWorkingSet; some (s, s!"i={r.1} j={r.2.1} viol={Scal.render r.2.2} ")
  | "xsolve", [num, shift, maxit] =>
    let eps : α := Scal.ofIntShift num shift.toNat
    let r := solveLoopXWith normalizeX eps maxit.toNat { s := s, iter := 0, shrinkCounter := 0, stop := .running }
    let code := match r.stop with | .running => 0 | .accuracy => 1 | .maxIter => 4 | .stuck => 99
    some (r.s, s!"it={r.iter} stop={code} acc={Scal.render r.accuracy} ")
  | _, _ => none
end

/-- does the Float state equal the Rat state exactly? -/
def sameState (f : McBox Float) (q : McBox Rat) : Bool :=
  let nv := f.numVars
  let eqv (a : Nat → Float) (b : Nat → Rat) := (List.range nv).all fun v => floatToRat (a v) == some (b v)
  f.activeEx == q.activeEx && f.activeVar == q.activeVar && f.unshrinked == q.unshrinked &&
  eqv f.alpha q.alpha && eqv f.grad q.grad && eqv f.lin q.lin &&
  eqv (fun v => (f.vars v).diagonal) (fun v => (q.vars v).diagonal) &&
  (List.range nv).all (fun v => (f.vars v).i == (q.vars v).i && (f.vars v).p == (q.vars v).p && (f.vars v).index == (q.vars v).index) &&
  (List.range f.n).all (fun i => (f.ex i).index == (q.ex i).index && (f.ex i).active == (q.ex i).active &&
    (List.range f.P).all fun p => (f.ex i).var p == (q.ex i).var p && (f.ex i).avar p == (q.ex i).avar p)

def sameStateX (f : McSx Float) (q : McSx Rat) : Bool :=
  sameState f.b q.b && (List.range f.b.n).all fun i => floatToRat (f.varsum i) == some (q.varsum i)

/-- data set sent by `data n d k coords labels` (coordinates with offset 8) -/
structure DataSet where
  n : Nat := 0
  d : Nat := 0
  k : Nat := 0
  xs : Array Int := #[]
  ys : Array Nat := #[]

structure LinPair where
  df : LinData Float
  dq : LinData Rat
  sf : LinState Float
  sq : LinState Rat

structure St where
  bf : Option (McBox Float) := none
  bq : Option (McBox Rat) := none
  xf : Option (McSx Float) := none
  xq : Option (McSx Rat) := none
  ml : C16L.St := {}
  ep : C16E.St := {}
  nuf : Nat → Row Float := fun _ => Row.empty
  nuq : Nat → Row Rat := fun _ => Row.empty
  xnuf : Nat → Row Float := fun _ => Row.empty
  xnuq : Nat → Row Rat := fun _ => Row.empty
  ds : DataSet := {}
  lin : Option LinPair := none

section
variable {α : Type} [Add α] [Sub α] [Mul α] [Div α] [Neg α] [NatCast α] [OfScientific α]
  [LT α] [LE α] [DecidableLT α] [DecidableLE α] [BEq α] [Scal α]

def mkLinData (ds : DataSet) (bound reg offset : α) : LinData α :=
  let ax := mkArr (ds.n * ds.d) fun t => (Scal.ofIntShift (ds.xs.getD t 0) 0 : α)
  let x : Nat → Nat → α := fun i k => arrFn ax (0.0 : α) (i * ds.d + k)
  -- m_xSquared(i) = norm_sqr(x_i): left-to-right sum of squares
  let asq := mkArr ds.n fun i => (List.range ds.d).foldl (fun acc k => acc + x i k * x i k) (0.0 : α)
  let ay := mkArr ds.n fun i => if ds.ys.getD i 0 > 0 then (1.0 : α) else (-(1.0 : α))
  { n := ds.n, d := ds.d, x := x, ysign := arrFn ay (0.0 : α), xsq := arrFn asq (0.0 : α),
    bound := bound, reg := reg, offset := offset }

def normLin (n d : Nat) (s : LinState α) : LinState α :=
  let aa := mkArr n s.alpha
  let aw := mkArr d s.w
  { alpha := arrFn aa (0.0 : α), w := arrFn aw (0.0 : α) }

def dumpLin (n d : Nat) (s : LinState α) : String :=
  let a := ",".intercalate ((List.range n).map fun i => Scal.render (s.alpha i))
  let w := ",".intercalate ((List.range d).map fun k => Scal.render (s.w k))
  s!"A=[{a}] W=[{w}]"
end

def sameLin (n d : Nat) (f : LinState Float) (q : LinState Rat) : Bool :=
  (List.range n).all (fun i => floatToRat (f.alpha i) == some (q.alpha i)) &&
  (List.range d).all (fun k => floatToRat (f.w k) == some (q.w k))

def parseInts (l : List String) : Option (List Int) := l.mapM String.toInt?

def step (st : St) (line : String) : St × String :=
  let toks := (line.trimAscii.toString.splitOn " ").filter (· ≠ "")
  match C16E.step { st.ep with ds := st.ml.ds } toks with
  | some (ep', o) => ({ st with ep := ep' }, o)
  | none =>
  match C16L.step st.ml toks with
  | some (ml', o) => ({ st with ml := ml' }, o)
  | none =>
  match toks with
  | [] => (st, "")
  | ["tables", name, c] =>
    match c.toNat?, (McTables.table name (c.toNat?.getD 0) : Option (Sparse Float)) with
    | some _, some t => (st, dumpSparse fbits t)
    | _, _ => (st, "bad-op")
  | ["tablesf", name, c] =>
    match c.toNat?, (McTables.table name (c.toNat?.getD 0) : Option (Sparse Float32)) with
    | some _, some t => (st, dumpSparse f32bits t)
    | _, _ => (st, "bad-op")
  | ["tablesq", name, c] =>
    match c.toNat?, (McTables.table name (c.toNat?.getD 0) : Option (Sparse Rat)) with
    | some _, some t => (st, dumpSparse qstr t)
    | _, _ => (st, "bad-op")
  | "data" :: rest =>
    match rest.mapM String.toNat? with
    | some (n :: d :: k :: vals) =>
      if vals.length != n * d + n then (st, "bad-op") else
      let xs := ((vals.take (n * d)).map fun (v : Nat) => (v : Int) - 8).toArray
      ({ st with ds := { n := n, d := d, k := k, xs := xs, ys := (vals.drop (n * d)).toArray }, lin := none }, s!"data n={n} d={d}")
    | _ => (st, "bad-op")
  | "probes" :: m :: _ => (st, s!"probes m={m}")
  | "lnew" :: rest =>
    match parseInts rest with
    | some [bn, bs, rn, rs, on, os, _batch] =>
      if st.ds.n = 0 || st.ds.k != 2 then (st, "bad-op") else
      let df : LinData Float := mkLinData st.ds (Scal.ofIntShift bn bs.toNat) (Scal.ofIntShift rn rs.toNat) (Scal.ofIntShift on os.toNat)
      let dq : LinData Rat := mkLinData st.ds (Scal.ofIntShift bn bs.toNat) (Scal.ofIntShift rn rs.toNat) (Scal.ofIntShift on os.toNat)
      let p : LinPair := { df := df, dq := dq, sf := normLin df.n df.d linInit, sq := normLin dq.n dq.d linInit }
      ({ st with lin := some p }, dumpLin df.n df.d p.sf ++ (if sameLin df.n df.d p.sf p.sq then " #rat=ok" else " #rat=diff"))
    | _ => (st, "bad-op")
  | "lsweep" :: rest =>
    match parseInts rest, st.lin with
    | some (_seed :: sched), some p =>
      let sc := sched.map Int.toNat
      if sc.any (fun i => i ≥ p.df.n) then (st, "bad-op") else
      -- normalise after every step so that evaluation stays cheap
      let sf := sc.foldl (fun s i => normLin p.df.n p.df.d (linStep p.df s i).1) p.sf
      let sq := sc.foldl (fun s i => normLin p.dq.n p.dq.d (linStep p.dq s i).1) p.sq
      ({ st with lin := some { p with sf := sf, sq := sq } },
       dumpLin p.df.n p.df.d sf ++ (if sameLin p.df.n p.df.d sf sq then " #rat=ok" else " #rat=diff"))
    | _, _ => (st, "bad-op")
  | ["dispatch", k, f] =>
    -- decision logic generated from CSvmTrainer::train
    let t : Option McTables.McSvm := match f with
      | "WW" => some .WW | "CS" => some .CS | "LLW" => some .LLW | "ATM" => some .ATM | "ATS" => some .ATS
      | "ADM" => some .ADM | "MMR" => some .MMR | "RS" => some .ReinforcedSvm | "OVA" => some .OVA | _ => none
    match k.toNat?, t with
    | some k, some t =>
      match McTables.dispatch k t with
      | .binary => (st, "path=binary")
      | .ova => (st, "path=ova")
      | .mc fam stz sx => (st, s!"path=mc fam={fam} stz={if stz then 1 else 0} simplex={if sx then 1 else 0} linear={McTables.linearDispatch k t}")
    | _, _ => (st, "bad-op")
  | "sbox" :: f :: rest =>
    match parseInts rest with
    | none => (st, "bad-op")
    | some a =>
      match (mkSx f a : Option (McSx Float)), (mkSx f a : Option (McSx Rat)) with
      | some xf, some xq => ({ st with xf := some xf, xq := some xq, xnuf := nuInfo f (a.headD 0).toNat, xnuq := nuInfo f (a.headD 0).toNat }, dumpSx xf ++ (if sameStateX xf xq then " #rat=ok" else " #rat=diff"))
      | _, _ => (st, "bad-op")
  | "box" :: f :: rest =>
    match parseInts rest with
    | none => (st, "bad-op")
    | some a =>
      match (mkBox f a : Option (McBox Float)), (mkBox f a : Option (McBox Rat)) with
      | some bf, some bq => ({ st with bf := some bf, bq := some bq, nuf := nuInfo f (a.headD 0).toNat, nuq := nuInfo f (a.headD 0).toNat }, dumpBox bf ++ (if sameState bf bq then " #rat=ok" else " #rat=diff"))
      | _, _ => (st, "bad-op")
  | "biasupd" :: rest =>
    match parseInts rest, st.bf, st.bq with
    | some a, some bf, some bq =>
      if a.length != 2 * bf.c then (st, "bad-op") else
      let bf' := normalize (bf.performBiasUpdate st.nuf (parseStep a))
      let bq' := normalize (bq.performBiasUpdate st.nuq (parseStep a))
      ({ st with bf := some bf', bq := some bq' }, dumpBox bf' ++ (if sameState bf' bq' then " #rat=ok" else " #rat=diff"))
    | _, _, _ => (st, "bad-op")
  | "biassolve" :: rest =>
    match parseInts rest, st.bf, st.bq with
    | some [num, shift, maxit, stz], some bf, some bq =>
      -- Float instance only: the exact (Rat) instance of a whole Rprop run is not computed (the step sizes 0.01·1.2^a·0.5^b make the
      -- rationals explode); the harness marks the state as inexact from here on, the Rat state is left behind (#rat=diff)
      let _ := bq
      let normR : RpropSt Float → RpropSt Float := fun r =>
        let a1 := mkArr bf.c r.bias; let a2 := mkArr bf.c r.stepsize; let a3 := mkArr bf.c r.prev; let a4 := mkArr bf.c r.step
        { bias := arrFn a1 0.0, stepsize := arrFn a2 0.0, prev := arrFn a3 0.0, step := arrFn a4 0.0 }
      let rf := biasSolve normalize normR bf st.nuf bf.c (stz != 0) (fun _ => (0.0 : Float)) (Scal.ofIntShift num shift.toNat) maxit.toNat 300 5000
      if rf.outOfFuel then (st, "fuel-exhausted") else
      let code := match rf.stop with | .running => 0 | .accuracy => 1 | .maxIter => 4 | .stuck => 99
      let bs := ",".intercalate ((List.range bf.c).map fun c => fbits (rf.r.bias c))
      ({ st with bf := some rf.s },
       s!"bias=[{bs}] it={rf.iterations} stop={code} acc={fbits rf.s.checkKKT} " ++ dumpBox rf.s ++ " #rat=diff")
    | _, _, _ => (st, "bad-op")
  | "xbiasupd" :: rest =>
    match parseInts rest, st.xf, st.xq with
    | some a, some xf, some xq =>
      if a.length != 2 * xf.b.c then (st, "bad-op") else
      let xf' := normalizeX (xf.performBiasUpdate st.xnuf (parseStep a))
      let xq' := normalizeX (xq.performBiasUpdate st.xnuq (parseStep a))
      ({ st with xf := some xf', xq := some xq' }, dumpSx xf' ++ (if sameStateX xf' xq' then " #rat=ok" else " #rat=diff"))
    | _, _, _ => (st, "bad-op")
  | op :: rest =>
    if op.startsWith "x" then
      match parseInts rest, st.xf, st.xq with
      | some a, some xf, some xq =>
        match sxOp xf op a, sxOp xq op a with
        | some (xf', out), some (xq', _) =>
          let xf' := normalizeX xf'; let xq' := normalizeX xq'
          ({ st with xf := some xf', xq := some xq' }, out ++ dumpSx xf' ++ (if sameStateX xf' xq' then " #rat=ok" else " #rat=diff"))
        | none, _ => (st, "bad-op")
        | some (xf', out), none =>
          let xf' := normalizeX xf'
          ({ st with xf := some xf' }, out ++ dumpSx xf' ++ " #rat=diff")
      | _, _, _ => (st, "bad-op")
    else
    match parseInts rest, st.bf, st.bq with
    | some a, some bf, some bq =>
      match boxOp bf op a, boxOp bq op a with
      | some (bf', out), some (bq', _) =>
        let bf' := normalize bf'; let bq' := normalize bq'
        ({ st with bf := some bf', bq := some bq' }, out ++ dumpBox bf' ++ (if sameState bf' bq' then " #rat=ok" else " #rat=diff"))
      | none, _ => (st, "bad-op")
      | some (bf', out), none =>
        -- the exact model rejects what the Float model accepts: the states have diverged
        let bf' := normalize bf'
        ({ st with bf := some bf' }, out ++ dumpBox bf' ++ " #rat=diff")
    | _, _, _ => (st, "bad-op")

partial def loop (h : IO.FS.Stream) (out : IO.FS.Stream) (st : St) : IO Unit := do
  let line ← h.getLine
  if line.isEmpty then return ()
  let (st', o) := step st line
  out.putStrLn o
  loop h out st'

def main : IO Unit := do
  loop (← IO.getStdin) (← IO.getStdout) {}
